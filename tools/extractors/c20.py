"""C20 extractor: api/src/term/_native_literal.rs (+ ns.rs, _native_iri.rs) -> Gen/NativeWhitelist.lean

Regenerated from /repo's working tree on every run; FAIL-CLOSED: every `impl` block of the file for one of the
property's six types must have one of the shapes understood here (impls for other types are listed as
`native_unmodelled_impls`), otherwise ExtractError (a check treats that as a
broken tie, never as success).

What is read:
  * lazy_static XSD_* statics                       -> which xsd name each static denotes
  * `impl Term for T` (T in f64 i32 isize usize str bool)
      kind() == TermKind::Literal, language_tag() == None,
      datatype()     -> xsd name,
      lexical_form() -> one of the shapes  display | identity | boolTable t f |
                        displaySpecial nan inf ninf   (non-finite values special-cased)
  * `impl TryFromTerm for T` (T in f64 i32 isize usize bool): the fixed skeleton
        if let Some(lex) = term.lexical_form() {
            if <Term::eq(&term.datatype().unwrap(), xsd::N) || ...> { lex.parse() } else { "S1".parse() }
        } else { "S2".parse() }
      -> whitelist [N...], sentinels S1, S2
  * ns.rs `pub mod xsd { namespace!("IRI", names...) }` -> namespace IRI and declared names
  * _native_iri.rs: `impl Term for IriRef<T>` still exposes `iri()` = the wrapped string (that is
    what `Term::eq(&term.datatype().unwrap(), xsd::N)` compares)

`ExtractError`, `read`, `HEADER` are injected by tools/extract.py.
"""
import re

SRC = "api/src/term/_native_literal.rs"
TERM_TYPES = ["f64", "i32", "isize", "usize", "str", "bool"]
TRY_TYPES = ["f64", "i32", "isize", "usize", "bool"]


def _strip_comments(text):
    """remove `//` line comments and (nested) `/* */` block comments, leaving string and char literals
    alone; raw strings (r"..", r#".."#) are not understood: fail closed"""
    if re.search(r'\br#*"', text):
        raise ExtractError("raw string literal in %s: comment stripping unsafe" % SRC)  # noqa: F821
    out = []
    j = 0
    n = len(text)
    while j < n:
        c = text[j]
        if c == '"':
            k = j + 1
            while k < n and text[k] != '"':
                if text[k] == "\\":
                    k += 1
                k += 1
            out.append(text[j:k + 1])
            j = k + 1
        elif c == "'" and j + 2 < n and (text[j + 2] == "'" or (text[j + 1] == "\\" and text.find("'", j + 2) in range(j + 2, j + 12))):
            # char literal ('x', '\n', '\u{..}'); a lifetime ('a) has no closing quote right after
            k = text.find("'", j + 2) if text[j + 1] == "\\" else j + 2
            out.append(text[j:k + 1])
            j = k + 1
        elif text.startswith("//", j):
            k = text.find("\n", j)
            j = n if k < 0 else k
        elif text.startswith("/*", j):
            depth = 1
            k = j + 2
            while k < n and depth:
                if text.startswith("/*", k):
                    depth += 1
                    k += 2
                elif text.startswith("*/", k):
                    depth -= 1
                    k += 2
                else:
                    k += 1
            if depth:
                raise ExtractError("unterminated block comment in %s" % SRC)  # noqa: F821
            out.append(" ")
            j = k
        else:
            out.append(c)
            j += 1
    return "".join(out)


def _match_brace(text, i):
    """text[i] == '{' -> index just after the matching '}' (string literals are skipped)"""
    assert text[i] == "{"
    depth = 0
    j = i
    n = len(text)
    while j < n:
        c = text[j]
        if c == '"':
            j += 1
            while j < n and text[j] != '"':
                if text[j] == "\\":
                    j += 1
                j += 1
        elif c == "{":
            depth += 1
        elif c == "}":
            depth -= 1
            if depth == 0:
                return j + 1
        j += 1
    raise ExtractError("unbalanced braces in %s" % SRC)  # noqa: F821


def _squash(s):
    """remove whitespace outside string literals"""
    out = []
    j = 0
    n = len(s)
    while j < n:
        c = s[j]
        if c == '"':
            k = j + 1
            while k < n and s[k] != '"':
                if s[k] == "\\":
                    k += 1
                k += 1
            out.append(s[j:k + 1])
            j = k + 1
            continue
        if not c.isspace():
            out.append(c)
        j += 1
    return "".join(out)


def _split_top(s, sep=","):
    """split at top-level `sep` (outside (), [], {}, <> and string literals)"""
    parts, depth, cur, j = [], 0, [], 0
    while j < len(s):
        c = s[j]
        if c == '"':
            k = j + 1
            while k < len(s) and s[k] != '"':
                if s[k] == "\\":
                    k += 1
                k += 1
            cur.append(s[j:k + 1])
            j = k + 1
            continue
        if c in "([{":
            depth += 1
        elif c in ")]}":
            depth -= 1
        if c == sep and depth == 0:
            parts.append("".join(cur))
            cur = []
        else:
            cur.append(c)
        j += 1
    parts.append("".join(cur))
    return parts


def _expand_macros(text):
    """expand file-local `macro_rules!` with ONE rule, whose matcher is a comma-separated list of
    `$name:fragment` (no repetitions) and whose invocations `name!(args);` / `name! { args }` are at top level:
    the usual way of writing the identical impl blocks of the integer types once.  Anything fancier: fail closed."""
    macros = {}
    while True:
        m = re.search(r"(?m)^macro_rules!\s*(\w+)\s*\{", text)
        if not m:
            break
        end = _match_brace(text, m.end() - 1)
        body = text[m.end():end - 1].strip()
        mm = re.match(r"\(([^()]*)\)\s*=>\s*\{", body)
        if not mm:
            raise ExtractError("macro_rules! %s: unsupported matcher" % m.group(1))  # noqa: F821
        bend = _match_brace(body, mm.end() - 1)
        if body[bend:].strip().strip(";").strip():
            raise ExtractError("macro_rules! %s: more than one rule" % m.group(1))  # noqa: F821
        params = []
        for prm in [x.strip() for x in mm.group(1).split(",") if x.strip()]:
            pm = re.fullmatch(r"\$(\w+)\s*:\s*(ty|ident|expr|literal|tt|path)", prm)
            if not pm:
                raise ExtractError("macro_rules! %s: unsupported parameter %r" % (m.group(1), prm))  # noqa: F821
            params.append(pm.group(1))
        tmpl = body[mm.end():bend - 1]
        if "$(" in tmpl or "$crate" in tmpl:
            raise ExtractError("macro_rules! %s: repetitions / $crate unsupported" % m.group(1))  # noqa: F821
        macros[m.group(1)] = (params, tmpl)
        text = text[:m.start()] + text[end:]
    for name, (params, tmpl) in macros.items():
        while True:
            m = re.search(r"(?m)^%s!\s*([({])" % re.escape(name), text)
            if not m:
                break
            close = {"(": ")", "{": "}"}[m.group(1)]
            depth, j = 0, m.end() - 1
            while j < len(text):
                if text[j] == m.group(1):
                    depth += 1
                elif text[j] == close:
                    depth -= 1
                    if depth == 0:
                        break
                j += 1
            args = [a.strip() for a in _split_top(text[m.end():j])]
            if args and args[-1] == "":
                args.pop()
            if len(args) != len(params):
                raise ExtractError("%s!: %d arguments for %d parameters" % (name, len(args), len(params)))  # noqa: F821
            out = tmpl
            for prm, a in sorted(zip(params, args), key=lambda x: -len(x[0])):
                out = re.sub(r"\$%s\b" % re.escape(prm), lambda _m, a=a: a, out)
            if "$" in out:
                raise ExtractError("%s!: unexpanded metavariable" % name)  # noqa: F821
            k = j + 1
            if text[k:k + 1] == ";":
                k += 1
            # impl blocks must start at the beginning of a line for `_impls`
            import textwrap
            out = textwrap.dedent(out)
            text = text[:m.start()] + out + text[k:]
    return text


def _impls(text):
    """[(trait, type, body)] of every top-level `impl` block; anything else at top level must be
    `use`, `lazy_static!{...}`, attributes or the test module"""
    res = []
    pos = 0
    for m in re.finditer(r"(?m)^impl\b([^{]*)\{", text):
        if m.start() < pos:
            continue
        head = " ".join(m.group(1).split())
        mm = re.fullmatch(r"(\w+) for (\w+)", head)
        if not mm:
            raise ExtractError("unexpected impl header `impl %s` in %s" % (head, SRC))  # noqa: F821
        end = _match_brace(text, m.end() - 1)
        res.append((mm.group(1), mm.group(2), text[m.end():end - 1]))
        pos = end
    return res


def _fns(body, where):
    """{name: (signature, body)} of the fns of an impl body"""
    res = {}
    pos = 0
    for m in re.finditer(r"\bfn\s+(\w+)\s*([^{;]*)\{", body):
        if m.start() < pos:
            continue
        end = _match_brace(body, m.end() - 1)
        res[m.group(1)] = (_squash(m.group(2)), _squash(body[m.end():end - 1]))
        pos = end
    if not res:
        raise ExtractError("no fn found in %s" % where)  # noqa: F821
    return res


def _lean_str(s):
    if not re.fullmatch(r"[ -~]*", s) or '"' in s or "\\" in s:
        raise ExtractError("string constant %r needs escaping: unsupported" % s)  # noqa: F821
    return '"' + s + '"'


def _lean_chars(s):
    """a `List Char` literal (kernel-friendly: no String reduction needed in proofs)"""
    _lean_str(s)
    return "[" + ", ".join("'%s'" % (c if c != "'" else "\\'") for c in s) + "]"


def _xsd_namespace(repo):
    t = read(repo, "api/src/ns.rs")  # noqa: F821
    m = re.search(r"pub mod xsd\s*\{\s*namespace!\(", t)
    if not m:
        raise ExtractError("ns.rs: `pub mod xsd { namespace!(` not found")  # noqa: F821
    i = m.end()
    depth = 1
    j = i
    while j < len(t) and depth:
        depth += {"(": 1, ")": -1}.get(t[j], 0)
        j += 1
    inner = t[i:j - 1]
    if ";" in inner:
        raise ExtractError("ns.rs: xsd namespace uses aliased terms (`;`): unsupported")  # noqa: F821
    parts = [p.strip() for p in inner.split(",") if p.strip()]
    mm = re.fullmatch(r'"([^"]+)"', parts[0])
    if not mm:
        raise ExtractError("ns.rs: xsd namespace IRI not a string literal")  # noqa: F821
    names = parts[1:]
    for n in names:
        if not re.fullmatch(r"[A-Za-z_][A-Za-z0-9_]*", n):
            raise ExtractError("ns.rs: unexpected xsd term %r" % n)  # noqa: F821
    if len(set(names)) != len(names):
        raise ExtractError("ns.rs: duplicate xsd term")  # noqa: F821
    return mm.group(1), names


def _check_native_iri(repo):
    t = _squash(_strip_comments(read(repo, "api/src/term/_native_iri.rs").split("#[cfg(test)]")[0]))  # noqa: F821
    want = ("impl<T>TermforIriRef<T>whereT:Borrow<str>,{typeBorrowTerm<'x>=&'xSelfwhereT:'x;"
            "fnkind(&self)->TermKind{TermKind::Iri}"
            "fniri(&self)->Option<IriRef<MownStr<'_>>>{Some(IriRef::new_unchecked(MownStr::from_ref(self.as_str())))}")
    if want not in t:
        raise ExtractError("_native_iri.rs: `impl Term for IriRef<T>` no longer has the expected kind()/iri()")  # noqa: F821


# every way of saying "what `Display` prints": format!("{}", self), format!("{self}"), self.to_string(), wrapped by
# MownStr::from(..) or .into()
_DISPLAY_EXPR = r'(?:format!\("\{\}",self\)|format!\("\{self\}"\)|self\.to_string\(\))'
LEX_DISPLAY_RE = re.compile(r'Some\((?:MownStr::from\(%s\)|%s\.into\(\))\)' % (_DISPLAY_EXPR, _DISPLAY_EXPR))
LEX_DISPLAY = 'Some(MownStr::from(format!("{}",self)))'
LEX_IDENT = "Some(MownStr::from(self))"
LEX_BOOL = re.compile(r'Some\(MownStr::from\(if\*self\{"([^"\\]*)"\}else\{"([^"\\]*)"\}\)\)')
# non-finite values special-cased (shape of notes/fixes/C20-inf.diff)
LEX_SPECIAL = re.compile(
    r'Some\(ifself\.is_nan\(\)\{MownStr::from\("([^"\\]*)"\)\}'
    r'elseifself\.is_infinite\(\)\{MownStr::from\(if(?:\*self>0\.0|self\.is_sign_positive\(\)|0\.0<\*self)'
    r'\{"([^"\\]*)"\}else\{"([^"\\]*)"\}\)\}'
    r'else\{MownStr::from\(format!\("\{\}",self\)\)\}\)')
DATATYPE = re.compile(r"Some\(IriRef::new_unchecked\(MownStr::from_ref\(&(\w+)\)\)\)")
TRY = re.compile(
    r'ifletSome\(lex\)=term\.lexical_form\(\)\{if((?:Term::eq\(&term\.datatype\(\)\.unwrap\(\),xsd::\w+\)(?:\|\|)?)+)'
    r'\{lex\.parse\(\)\}else\{"([^"\\]*)"\.parse\(\)\}\}else\{"([^"\\]*)"\.parse\(\)\}')
# the same skeleton with the datatype bound once:  let dt = term.datatype().unwrap();  Term::eq(&dt, xsd::N) || ...
# (evaluated at the same point: after lexical_form() returned Some, before any comparison), or tested against an
# array:  [xsd::a, xsd::b].iter().any(|d| Term::eq(&dt, *d))
TRY_LET = re.compile(
    r'ifletSome\(lex\)=term\.lexical_form\(\)\{let(\w+)=term\.datatype\(\)\.unwrap\(\);if((?:Term::eq\(&\1,xsd::\w+\)(?:\|\|)?)+)'
    r'\{lex\.parse\(\)\}else\{"([^"\\]*)"\.parse\(\)\}\}else\{"([^"\\]*)"\.parse\(\)\}')
TRY_ARRAY = re.compile(
    r'ifletSome\(lex\)=term\.lexical_form\(\)\{let(\w+)=term\.datatype\(\)\.unwrap\(\);'
    r'if\[((?:xsd::\w+,?)+)\]\.iter\(\)\.any\(\|(\w+)\|Term::eq\(&\1,\*\3\)\)'
    r'\{lex\.parse\(\)\}else\{"([^"\\]*)"\.parse\(\)\}\}else\{"([^"\\]*)"\.parse\(\)\}')
ERRTY = {"f64": "std::num::ParseFloatError", "i32": "std::num::ParseIntError", "isize": "std::num::ParseIntError",
         "usize": "std::num::ParseIntError", "bool": "std::str::ParseBoolError"}


def extract_native(repo):
    raw = read(repo, SRC)  # noqa: F821
    parts = raw.split("#[cfg(test)]")
    if len(parts) != 2 or not parts[1].lstrip().startswith("mod test"):
        raise ExtractError("%s: expected exactly one trailing #[cfg(test)] mod test" % SRC)  # noqa: F821
    text = _strip_comments(parts[0])
    ns_iri, ns_names = _xsd_namespace(repo)
    _check_native_iri(repo)

    statics = dict(re.findall(
        r"static\s+ref\s+(\w+)\s*:\s*Box<str>\s*=\s*xsd::(\w+)\.iri\(\)\.unwrap\(\)\.unwrap\(\)\.into\(\);", text))
    n_static = len(re.findall(r"static\s+ref\b", text))
    if n_static != len(statics):
        raise ExtractError("%s: a lazy_static entry has an unexpected shape" % SRC)  # noqa: F821

    text = _expand_macros(text)
    impls = _impls(text)
    if len(re.findall(r"\bimpl\b", text)) != len(impls):
        raise ExtractError("%s: an `impl` that is not a plain top-level `impl Trait for Type`" % SRC)  # noqa: F821
    want = [("Term", t) for t in TERM_TYPES] + [("TryFromTerm", t) for t in TRY_TYPES]
    # impls of Term / TryFromTerm for OTHER types (say i64, u32, String) are outside the property's six types:
    # reported, not modelled, and no reason to fail.  Anything about the six types must be exactly as expected.
    unmodelled = sorted((tr, ty) for tr, ty, _ in impls
                        if tr in ("Term", "TryFromTerm") and ty not in TERM_TYPES)
    impls = [(tr, ty, b) for tr, ty, b in impls if (tr, ty) not in unmodelled]
    seen = [(tr, ty) for tr, ty, _ in impls]
    if sorted(seen) != sorted(want):
        raise ExtractError("%s: impl blocks are %s, the model knows %s" % (SRC, sorted(seen), sorted(want)))  # noqa: F821

    term_info = {}
    try_info = {}
    for tr, ty, body in impls:
        where = "impl %s for %s" % (tr, ty)
        fns = _fns(body, where)
        if tr == "Term":
            if sorted(fns) != ["borrow_term", "datatype", "kind", "language_tag", "lexical_form"]:
                raise ExtractError("%s: methods %s" % (where, sorted(fns)))  # noqa: F821
            if fns["kind"][1] != "TermKind::Literal":
                raise ExtractError("%s: kind() is not TermKind::Literal" % where)  # noqa: F821
            if fns["language_tag"][1] != "None":
                raise ExtractError("%s: language_tag() is not None" % where)  # noqa: F821
            if fns["borrow_term"][1] not in ("*self", "self"):
                raise ExtractError("%s: borrow_term() unexpected" % where)  # noqa: F821
            m = DATATYPE.fullmatch(fns["datatype"][1])
            if not m or m.group(1) not in statics:
                raise ExtractError("%s: datatype() has an unexpected shape" % where)  # noqa: F821
            dt = statics[m.group(1)]
            lf = fns["lexical_form"][1]
            if LEX_DISPLAY_RE.fullmatch(lf) and ty != "str" and ty != "bool":
                shape = ("display",)
            elif lf == LEX_IDENT and ty == "str":
                shape = ("identity",)
            elif LEX_BOOL.fullmatch(lf) and ty == "bool":
                shape = ("boolTable",) + LEX_BOOL.fullmatch(lf).groups()
            elif LEX_SPECIAL.fullmatch(lf) and ty == "f64":
                shape = ("displaySpecial",) + LEX_SPECIAL.fullmatch(lf).groups()
            else:
                raise ExtractError("%s: lexical_form() has an unknown shape: %s" % (where, lf[:200]))  # noqa: F821
            term_info[ty] = (dt, shape)
        else:
            if sorted(fns) != ["try_from_term"]:
                raise ExtractError("%s: methods %s" % (where, sorted(fns)))  # noqa: F821
            if "typeError=%s;" % ERRTY[ty] not in _squash(body):
                raise ExtractError("%s: Error type is not %s (parser model would not apply)" % (where, ERRTY[ty]))  # noqa: F821
            sig, fb = fns["try_from_term"]
            if sig != "<T:Term>(term:T)->Result<Self,Self::Error>":
                raise ExtractError("%s: signature %s" % (where, sig))  # noqa: F821
            m = TRY.fullmatch(fb)
            m2 = TRY_LET.fullmatch(fb)
            m3 = TRY_ARRAY.fullmatch(fb)
            if m:
                names = re.findall(r"xsd::(\w+)\)", m.group(1))
                try_info[ty] = (names, m.group(2), m.group(3))
            elif m2:
                names = re.findall(r"xsd::(\w+)\)", m2.group(2))
                try_info[ty] = (names, m2.group(3), m2.group(4))
            elif m3:
                names = re.findall(r"xsd::(\w+)", m3.group(2))
                try_info[ty] = (names, m3.group(4), m3.group(5))
            else:
                raise ExtractError("%s: try_from_term body has an unknown shape" % where)  # noqa: F821
            if not names:
                raise ExtractError("%s: empty whitelist" % where)  # noqa: F821
    used = {dt for dt, _ in term_info.values()} | {n for ns, _, _ in try_info.values() for n in ns}
    missing = sorted(used - set(ns_names))
    if missing:
        raise ExtractError("xsd terms %s are not declared in ns.rs" % missing)  # noqa: F821

    L = [HEADER,  # noqa: F821
         "-- source: api/src/term/_native_literal.rs, api/src/ns.rs (tools/extractors/c20.py)\n",
         "namespace SophiaModel.Gen.Native\n\n",
         "/-- shape of `Term::lexical_form` of a native type -/\n",
         "inductive LexShape where\n",
         "  | display                                   -- `format!(\"{}\", self)` for every value\n",
         "  | identity                                  -- the `str` itself\n",
         "  | boolTable (t f : List Char)               -- `if *self { t } else { f }`\n",
         "  | displaySpecial (nan inf ninf : List Char) -- non-finite f64 special-cased, else `format!(\"{}\", self)`\n",
         "  deriving Repr, DecidableEq\n\n",
         "/-- `impl TryFromTerm for T`: accepted datatypes (xsd local names, in source order) and the two\n",
         "strings that are parsed to manufacture an error -/\n",
         "structure TryFrom where\n  whitelist : List (List Char)\n  wrongDatatype : List Char\n  notALiteral : List Char\n",
         "  deriving Repr, DecidableEq\n\n",
         "/-- `impl Term for T`: datatype (xsd local name) and lexical form shape -/\n",
         "structure AsTerm where\n  datatype : List Char\n  lex : LexShape\n  deriving Repr, DecidableEq\n\n",
         "def xsdNs : List Char := %s\n\n" % _lean_chars(ns_iri),
         "/-- every term declared in `pub mod xsd` of api/src/ns.rs -/\n",
         "def xsdNames : List (List Char) := [\n  %s]\n\n" % ",\n  ".join(_lean_chars(n) for n in ns_names)]
    for ty in TERM_TYPES:
        dt, shape = term_info[ty]
        if shape[0] in ("display", "identity"):
            sh = "." + shape[0]
        else:
            sh = "(.%s %s)" % (shape[0], " ".join(_lean_chars(x) for x in shape[1:]))
        L.append("def as%s : AsTerm := ⟨%s, %s⟩\n" % (ty.capitalize(), _lean_chars(dt), sh))
    L.append("\n")
    for ty in TRY_TYPES:
        names, s1, s2 = try_info[ty]
        L.append("def try%s : TryFrom := ⟨[%s],\n  %s,\n  %s⟩\n" % (
            ty.capitalize(), ", ".join(_lean_chars(n) for n in names), _lean_chars(s1), _lean_chars(s2)))
    L.append("\nend SophiaModel.Gen.Native\n")
    info = {"native_whitelists": {ty: try_info[ty][0] for ty in TRY_TYPES},
            "native_datatypes": {ty: term_info[ty][0] for ty in TERM_TYPES},
            "native_lex_shapes": {ty: list(term_info[ty][1]) for ty in TERM_TYPES},
            "native_unmodelled_impls": ["%s for %s" % x for x in unmodelled]}
    return "".join(L), info


EXTRACTORS = {"native": ("NativeWhitelist.lean", extract_native)}
