"""C10 extractor: how `Clone` is defined for the in-memory stores -> lean/SophiaModel/Gen/CloneKind.lean.

Fail-closed.  Two understood shapes of inmem/src/index.rs:

  derived : `#[derive(Clone, ...)]` on `pub struct SimpleTermIndex<I: Index>` and no manual impl
            (`t2i` and `i2t` are cloned field by field: a borrowed `MownStr` of the clone's `i2t`
            keeps pointing into the ORIGINAL's keys);
  manual  : no `Clone` in the derive list and `impl<I: Index> Clone for SimpleTermIndex<I>` whose
            body is exactly the understood one (notes/fixes/C10-manual-clone.diff): `t2i` is cloned,
            `i2t` is rebuilt from the keys of the NEW map via `get_key_value(t).expect(..)`,
            `as_simple()` and the `transmute` of `ensure_index`.

Also checked (everything the Lean model `SophiaModel.Heap` relies on about the source text):
  * the fields of `SimpleTermIndex` are `t2i: HashMap<SimpleTerm<'static>, I>` and `i2t: Vec<SimpleTerm<'static>>`;
  * `ensure_index` has the modelled order of effects (`from_term`, `entry`, full check, `as_simple`,
    `transmute`, `push`, `insert`);
  * the four store structs of inmem/src/{graph,dataset}.rs derive `Clone`, have no manual `Clone`,
    and embed the index as their first field `terms: TI` (their clone goes through the index's);
  * `SimpleTerm` derives `Clone`; `from_term_ref` deep-copies the components of a quoted triple with
    `SimpleTerm::<'static>::from_term` and hands out the accessors' (borrowed) strings for atoms;
    `ensure_owned` has the modelled two branches.
Second generated definition, `termEscapes : Bool`: does `impl TermIndex for SimpleTermIndex` declare
`type Term = SimpleTerm<'static>` (true: `get_term` / `triples()` / `quads()` lend `&'_ SimpleTerm<'static>`,
whose safe `.clone()` is a `SimpleTerm<'static>` still pointing into the keys — it can outlive the store)
or the uninhabited marker `IndexedTerm` with `BorrowTerm<'x> = &'x SimpleTerm<'x>` of
notes/fixes/C10-indexed-term-lifetime.diff (false)?  Anything else fails closed.

Closed API surface (a safe method that hands `i2t` out, or clears only one of the two maps, needs no new
`unsafe` and touches none of the pinned bodies): the list of `fn`s of every `impl` block that mentions
`SimpleTermIndex` / the four store structs is pinned, as are the stores' fields, the eight public
aliases (`LightGraph` … `small::FastDataset`), the set of files of inmem/src, the bodies of `get_term`,
`get_index` and `FromTerm::from_term`, and the number of `unsafe` tokens in EVERY file of inmem/src and in
api/src/term/_simple.rs (`#[cfg(test)]` / `#[cfg(sophia_verif)]` ITEMS are cut one by one — not "everything
after the first `#[cfg(test)]`", `pub mod small` sits below the tests).
`read`, `ExtractError`, `HEADER` are injected by tools/extract.py.
"""
import re

INDEX = "inmem/src/index.rs"
SIMPLE = "api/src/term/_simple.rs"


def _nocomment(s):
    s = re.sub(r"/\*.*?\*/", "", s, flags=re.S)
    return re.sub(r"//[^\n]*", "", s)


def _norm(s):
    return re.sub(r"\s+", "", _nocomment(s))


def _strip_cfg(code, what):
    """remove every item guarded by `#[cfg(test)]`, `#[cfg(all(test, ..))]` or `#[cfg(sophia_verif)]`
    (attribute + the item up to its `;` or its balanced block); `code` has no comments"""
    pat = re.compile(r"#\[cfg\((?:test|all\(test\b[^\]]*|sophia_verif)\)\]")
    while True:
        m = pat.search(code)
        if not m:
            return code
        semi = code.find(";", m.end())
        brace = code.find("{", m.end())
        if brace < 0 and semi < 0:
            raise ExtractError("%s: cfg-guarded item without body" % what)  # noqa: F821
        if brace < 0 or (0 <= semi < brace):
            code = code[:m.start()] + code[semi + 1:]
        else:
            blk = _block(code, m.end(), what + ": cfg-guarded item")
            code = code[:m.start()] + code[brace + len(blk):]


def _impl_fns(code, mention):
    """[(normalised impl header, [fn names])] of every impl block whose header matches `mention`"""
    out = []
    for m in re.finditer(r"\bimpl\b[^{;]*\{", code):
        hdr = re.sub(r"\s+", " ", m.group(0)[:-1]).strip()
        if not re.search(mention, hdr):
            continue
        blk = _block(code, m.end() - 1, hdr)
        out.append((hdr, re.findall(r"\bfn\s+([A-Za-z_0-9]+)", blk)))
    return out


def _block(text, start, what):
    """text of the balanced {...} block starting at the first '{' at or after `start`"""
    i = text.find("{", start)
    if i < 0:
        raise ExtractError("%s: no block" % what)  # noqa: F821
    depth = 0
    for j in range(i, len(text)):
        if text[j] == "{":
            depth += 1
        elif text[j] == "}":
            depth -= 1
            if depth == 0:
                return text[i:j + 1]
    raise ExtractError("%s: unbalanced braces" % what)  # noqa: F821


def _derives(text, struct_re, what):
    """derive list of the attribute block directly above the struct"""
    m = re.search(r"((?:\s*#\[[^\]]*\]\s*\n)+)\s*" + struct_re, text)
    if not m:
        raise ExtractError("%s: struct (with attributes) not found" % what)  # noqa: F821
    ds = []
    for a in re.finditer(r"#\[derive\(([^)]*)\)\]", m.group(1)):
        ds += [x.strip() for x in a.group(1).split(",") if x.strip()]
    return ds, m


MANUAL_BODY = _norm('''
{
    fn clone(&self) -> Self {
        let t2i = self.t2i.clone();
        let i2t = self
            .i2t
            .iter()
            .map(|t| {
                let (k, _) = t2i
                    .get_key_value(t)
                    .expect("every term of i2t is a key of t2i");
                let t2 = k.as_simple();
                unsafe { std::mem::transmute::<SimpleTerm<'_>, SimpleTerm<'static>>(t2) }
            })
            .collect();
        SimpleTermIndex { t2i, i2t }
    }
}
''')

ENSURE_BODY = _norm('''
{
    let t = SimpleTerm::from_term(t);
    match self.t2i.entry(t) {
        Entry::Vacant(e) => {
            let i = I::from_usize(self.i2t.len());
            if i >= I::MAX {
                return Err(TermIndexFullError());
            }
            let t2 = e.key().as_simple();
            let t2: SimpleTerm<'static> = unsafe { std::mem::transmute(t2) };
            self.i2t.push(t2);
            e.insert(i);
            Ok(i)
        }
        Entry::Occupied(e) => Ok(*e.get()),
    }
}
''')

ENSURE_OWNED = _norm('''
{
    if m.is_owned() {
        let m = m.clone();
        unsafe { std::mem::transmute::<mownstr::MownStr<'_>, mownstr::MownStr<'_>>(m) }
    } else {
        m.to_string().into()
    }
}
''')

FROM_TERM_REF_TRIPLE = _norm('''
TermKind::Triple => {
    let t = term.triple().unwrap();
    SimpleTerm::Triple(Box::new([
        SimpleTerm::<'static>::from_term(t.s()),
        SimpleTerm::<'static>::from_term(t.p()),
        SimpleTerm::<'static>::from_term(t.o()),
    ]))
}
''')

FROM_TERM = _norm('''
{
    match term.kind() {
        TermKind::Iri => SimpleTerm::Iri(term.iri().unwrap().map_unchecked(ensure_owned)),
        TermKind::BlankNode => {
            SimpleTerm::BlankNode(term.bnode_id().unwrap().map_unchecked(ensure_owned))
        }
        TermKind::Literal => {
            let lex = ensure_owned(term.lexical_form().unwrap());
            if let Some(tag) = term.language_tag() {
                let tag = tag.map_unchecked(ensure_owned);
                SimpleTerm::LiteralLanguage(lex, tag)
            } else {
                let dt = term.datatype().unwrap().map_unchecked(ensure_owned);
                SimpleTerm::LiteralDatatype(lex, dt)
            }
        }
        TermKind::Triple => {
            let t = term.triple().unwrap();
            SimpleTerm::Triple(Box::new([
                Self::from_term(t.s()),
                Self::from_term(t.p()),
                Self::from_term(t.o()),
            ]))
        }
        TermKind::Variable => {
            SimpleTerm::Variable(term.variable().unwrap().map_unchecked(ensure_owned))
        }
    }
}
''')

GET_TERM = _norm("{ let i = i.into_usize(); self.i2t[i].borrow_term() }")
GET_INDEX = _norm("{ self.t2i.get(&t.as_simple()).copied() }")
INDEXED_TERM_ENUM = _norm("pub enum IndexedTerm {}")
INDEXED_TERM_IMPL = _norm('''
{
    type BorrowTerm<'x> = &'x SimpleTerm<'x>;

    fn kind(&self) -> TermKind {
        match *self {}
    }
    fn borrow_term(&self) -> Self::BorrowTerm<'_> {
        match *self {}
    }
}
''')

INDEX_IMPLS = [
    ("impl<I: Index> Clone for SimpleTermIndex<I>", ["clone"]),
    ("impl<I: Index> SimpleTermIndex<I>", ["new", "len", "is_empty"]),
    ("impl<I: Index> TermIndex for SimpleTermIndex<I>", ["get_index", "ensure_index", "get_term"]),
    ("impl<I: Index> GraphNameIndex for SimpleTermIndex<I>", ["get_default_graph_index"]),
]
INDEXED_TERM_IMPLS = [("impl Term for IndexedTerm", ["kind", "borrow_term"])]


def _store_impls(name, bound, kind):
    # kind: "Graph" / "Dataset"
    it, src = ("triples", "from_triple_source") if kind == "Graph" else ("quads", "from_quad_source")
    return [
        ("impl<TI: %s + Default> %s<TI>" % (bound, name), ["new"]),
        ("impl<TI: %s> %s for %s<TI>" % (bound, kind, name), [it, it + "_matching"]),
        ("impl<TI: %s> Mutable%s for %s<TI>" % (bound, kind, name), ["insert", "remove"]),
        ("impl<TI: %s + Default> Collectible%s for %s<TI>" % (bound, kind, name), [src]),
        ("impl<TI: %s> Set%s for %s<TI>" % (bound, kind, name), []),
    ]


STORE_FIELDS = {
    "GenericLightGraph": "{terms:TI,triples:BTreeSet<[TI::Index;3]>,}",
    "GenericFastGraph": "{terms:TI,spo:BTreeSet<[TI::Index;3]>,pos:BTreeSet<[TI::Index;3]>,osp:BTreeSet<[TI::Index;3]>,}",
    "GenericLightDataset": "{terms:TI,quads:BTreeSet<[TI::Index;4]>,}",
    "GenericFastDataset": "{terms:TI,gspo:BTreeSet<[TI::Index;4]>,gpos:BTreeSet<[TI::Index;4]>,gosp:BTreeSet<[TI::Index;4]>,"
                          "spog:BTreeSet<[TI::Index;4]>,posg:BTreeSet<[TI::Index;4]>,ospg:BTreeSet<[TI::Index;4]>,}",
}
ALIASES = {
    "inmem/src/graph.rs": ["pub type LightGraph = GenericLightGraph<SimpleTermIndex<u32>>;",
                           "pub type FastGraph = GenericFastGraph<SimpleTermIndex<u32>>;",
                           "pub type LightGraph = super::GenericLightGraph<SimpleTermIndex<u16>>;",
                           "pub type FastGraph = super::GenericFastGraph<SimpleTermIndex<u16>>;"],
    "inmem/src/dataset.rs": ["pub type LightDataset = GenericLightDataset<SimpleTermIndex<u32>>;",
                             "pub type FastDataset = GenericFastDataset<SimpleTermIndex<u32>>;",
                             "pub type LightDataset = super::GenericLightDataset<SimpleTermIndex<u16>>;",
                             "pub type FastDataset = super::GenericFastDataset<SimpleTermIndex<u16>>;"],
}
INMEM_FILES = ["dataset.rs", "dataset/_iter.rs", "graph.rs", "graph/_iter.rs", "index.rs", "lib.rs"]
# `unsafe` tokens outside cfg(test) / cfg(sophia_verif) items; index.rs depends on the Clone shape (see below)
UNSAFE_COUNT = {"inmem/src/lib.rs": 0, "inmem/src/graph.rs": 0, "inmem/src/dataset.rs": 0, "inmem/src/graph/_iter.rs": 0,
                "inmem/src/dataset/_iter.rs": 6, "api/src/term/_simple.rs": 1}

STORES = [
    ("inmem/src/graph.rs", "GenericLightGraph", "TermIndex"),
    ("inmem/src/graph.rs", "GenericFastGraph", "TermIndex"),
    ("inmem/src/dataset.rs", "GenericLightDataset", "TermIndex"),
    ("inmem/src/dataset.rs", "GenericFastDataset", "GraphNameIndex"),
]


def extract_clone_kind(repo):
    text = read(repo, INDEX)  # noqa: F821
    ds, m = _derives(text, r"pub struct SimpleTermIndex<I: Index>\s*\{", INDEX + ": SimpleTermIndex")
    fields = _norm(_block(text, m.end() - 1, INDEX + ": SimpleTermIndex"))
    if fields != "{t2i:HashMap<SimpleTerm<'static>,I>,i2t:Vec<SimpleTerm<'static>>,}":
        raise ExtractError("%s: fields of SimpleTermIndex are not the modelled `t2i` / `i2t`" % INDEX)  # noqa: F821
    impls = list(re.finditer(r"impl\s*<[^>]*>\s*(?:std::clone::|core::clone::)?Clone\s+for\s+SimpleTermIndex\s*<[^>]*>", text))
    derived = "Clone" in ds
    if derived and not impls:
        kind = "derived"
    elif not derived and len(impls) == 1:
        hdr = re.sub(r"\s+", " ", impls[0].group(0))
        if hdr != "impl<I: Index> Clone for SimpleTermIndex<I>":
            raise ExtractError("%s: manual Clone impl with an unexpected header %r" % (INDEX, hdr))  # noqa: F821
        body = _norm(_block(text, impls[0].end(), INDEX + ": impl Clone"))
        if body != MANUAL_BODY:
            raise ExtractError("%s: manual `impl Clone for SimpleTermIndex` whose body is not the understood one "  # noqa: F821
                               "(clone t2i, rebuild i2t from the NEW keys via get_key_value/as_simple/transmute)" % INDEX)
        kind = "manual"
    else:
        raise ExtractError("%s: SimpleTermIndex has %s Clone in its derive list and %d manual impl(s): not a modelled shape"  # noqa: F821
                           % (INDEX, "a" if derived else "no", len(impls)))
    # ensure_index: the modelled order of effects
    me = re.search(r"fn\s+ensure_index<T:\s*Term>\(&mut self,\s*t:\s*T\)\s*->\s*Result<Self::Index,\s*Self::Error>\s*\{", text)
    if not me:
        raise ExtractError("%s: SimpleTermIndex::ensure_index not found" % INDEX)  # noqa: F821
    if _norm(_block(text, me.end() - 1, INDEX + ": ensure_index")) != ENSURE_BODY:
        raise ExtractError("%s: body of ensure_index is not the modelled one" % INDEX)  # noqa: F821
    # Drop / other unsafe in the index would be outside the model
    if re.search(r"impl\s*<[^>]*>\s*Drop\s+for\s+SimpleTermIndex", text):
        raise ExtractError("%s: SimpleTermIndex has a manual Drop impl (not modelled)" % INDEX)  # noqa: F821
    # items guarded by cfg(sophia_verif) are add-only instrumentation, cfg(test) items are tests: cut them
    # (item by item) before counting `unsafe` and before listing the API surface
    code = _strip_cfg(_nocomment(text), INDEX)
    n_unsafe = len(re.findall(r"\bunsafe\b", code))
    want = 1 if kind == "derived" else 2
    if n_unsafe != want:
        raise ExtractError("%s: %d `unsafe` sites outside cfg(sophia_verif) items, the model covers %d" % (INDEX, n_unsafe, want))  # noqa: F821
    # the term type lent by get_term / triples() / quads()
    mt = re.search(r"impl<I: Index> TermIndex for SimpleTermIndex<I>\s*\{", code)
    if not mt:
        raise ExtractError("%s: impl TermIndex for SimpleTermIndex not found" % INDEX)  # noqa: F821
    ti = _norm(_block(code, mt.end() - 1, INDEX + ": impl TermIndex"))
    if not ti.startswith("{typeTerm="):
        raise ExtractError("%s: impl TermIndex for SimpleTermIndex does not start with `type Term`" % INDEX)  # noqa: F821
    ncode = _norm(code)
    if ti.startswith("{typeTerm=SimpleTerm<'static>;typeIndex=I;typeError=TermIndexFullError;") and "IndexedTerm" not in code:
        escapes, want_impls = True, [x for x in INDEX_IMPLS if kind == "manual" or "Clone" not in x[0]]
    elif ti.startswith("{typeTerm=IndexedTerm;typeIndex=I;typeError=TermIndexFullError;"):
        mi = re.search(r"impl Term for IndexedTerm\s*\{", code)
        if INDEXED_TERM_ENUM not in ncode or not mi or _norm(_block(code, mi.end() - 1, "impl Term for IndexedTerm")) != INDEXED_TERM_IMPL:
            raise ExtractError("%s: `type Term = IndexedTerm` but IndexedTerm is not the understood uninhabited marker "  # noqa: F821
                               "with `BorrowTerm<'x> = &'x SimpleTerm<'x>`" % INDEX)
        escapes = False
        want_impls = [x for x in INDEX_IMPLS if kind == "manual" or "Clone" not in x[0]]
        want_impls = want_impls[:-2] + INDEXED_TERM_IMPLS + want_impls[-2:]
    else:
        raise ExtractError("%s: the term type of SimpleTermIndex is neither SimpleTerm<'static> nor the understood IndexedTerm" % INDEX)  # noqa: F821
    for fn_re, want_body, nm in ((r"fn\s+get_term\(&self,\s*i:\s*Self::Index\)\s*->\s*<Self::Term as Term>::BorrowTerm<'_>\s*\{", GET_TERM, "get_term"),
                                 (r"fn\s+get_index<T:\s*Term>\(&self,\s*t:\s*T\)\s*->\s*Option<Self::Index>\s*\{", GET_INDEX, "get_index")):
        bodies = [_norm(_block(code, m_.end() - 1, nm)) for m_ in re.finditer(fn_re, code)]
        if want_body not in bodies:
            raise ExtractError("%s: body of SimpleTermIndex::%s is not the modelled one" % (INDEX, nm))  # noqa: F821
    got = _impl_fns(code, r"SimpleTermIndex|IndexedTerm")
    if got != want_impls:
        raise ExtractError("%s: the impl blocks / methods of SimpleTermIndex are not the modelled API surface: %r" % (INDEX, got))  # noqa: F821
    # files of the crate
    import os
    root = os.path.join(repo, "inmem", "src")
    files = sorted(os.path.relpath(os.path.join(dp, f), root) for dp, _, fs in os.walk(root) for f in fs)
    if files != INMEM_FILES:
        raise ExtractError("inmem/src: files are %r, the model knows %r" % (files, INMEM_FILES))  # noqa: F821
    for rel, want_n in UNSAFE_COUNT.items():
        c = _strip_cfg(_nocomment(read(repo, rel)), rel)  # noqa: F821
        n = len(re.findall(r"\bunsafe\b", c))
        if n != want_n:
            raise ExtractError("%s: %d `unsafe` tokens, the model covers %d" % (rel, n, want_n))  # noqa: F821
        if rel.endswith("dataset/_iter.rs") and len(re.findall(r"unsafe\s*\{\s*[spo]\.unwrap_unchecked\(\)\s*\}", c)) != want_n:
            raise ExtractError("%s: an `unsafe` block that is not `{ s|p|o.unwrap_unchecked() }`" % rel)  # noqa: F821
    # the stores
    for rel, name, bound in STORES:
        t = read(repo, rel)  # noqa: F821
        ds2, m2 = _derives(t, r"pub struct %s<TI: %s>\s*\{" % (name, bound), "%s: %s" % (rel, name))
        if "Clone" not in ds2:
            raise ExtractError("%s: %s does not derive Clone" % (rel, name))  # noqa: F821
        if re.search(r"Clone\s+for\s+%s\b" % name, t):
            raise ExtractError("%s: %s has a manual Clone impl (not modelled)" % (rel, name))  # noqa: F821
        if _norm(_block(t, m2.end() - 1, name)) != STORE_FIELDS[name]:
            raise ExtractError("%s: the fields of %s are not `terms: TI` + the modelled sets of index rows" % (rel, name))  # noqa: F821
    for rel, kind_ in (("inmem/src/graph.rs", "Graph"), ("inmem/src/dataset.rs", "Dataset")):
        c = _strip_cfg(_nocomment(read(repo, rel)), rel)  # noqa: F821
        want_s = []
        for rel2, name, bound in STORES:
            if rel2 == rel:
                # the impl blocks of GenericFastDataset / GenericLightDataset are bounded by GraphNameIndex
                b = "GraphNameIndex" if kind_ == "Dataset" else bound
                want_s += _store_impls(name, b, kind_)
        got_s = _impl_fns(c, r"Generic(?:Light|Fast)(?:Graph|Dataset)")
        if got_s != want_s:
            raise ExtractError("%s: the impl blocks / methods of the stores are not the modelled API surface: %r" % (rel, got_s))  # noqa: F821
        al = [re.sub(r"\s+", " ", a) for a in re.findall(r"pub\s+type\s+[^;]*;", c)]
        if al != ALIASES[rel]:
            raise ExtractError("%s: the public aliases are not the modelled ones: %r" % (rel, al))  # noqa: F821
    # SimpleTerm
    s = read(repo, SIMPLE)  # noqa: F821
    ds3, _ = _derives(s, r"pub enum SimpleTerm<'a>\s*\{", SIMPLE + ": SimpleTerm")
    if "Clone" not in ds3:
        raise ExtractError("%s: SimpleTerm does not derive Clone" % SIMPLE)  # noqa: F821
    mo = re.search(r"fn\s+ensure_owned\(m:\s*MownStr\)\s*->\s*MownStr<'static>\s*", s)
    if not mo or _norm(_block(s, mo.end() - 1, "ensure_owned")) != ENSURE_OWNED:
        raise ExtractError("%s: ensure_owned is not the modelled one" % SIMPLE)  # noqa: F821
    mf = re.search(r"impl FromTerm for SimpleTerm<'static>\s*\{\s*fn from_term<T: Term>\(term: T\) -> Self\s*", s)
    if not mf or _norm(_block(s, mf.end() - 1, "from_term")) != FROM_TERM:
        raise ExtractError("%s: FromTerm::from_term for SimpleTerm<'static> is not the modelled one "  # noqa: F821
                           "(every string through ensure_owned, components of a quoted triple recursively)" % SIMPLE)
    mr = re.search(r"pub fn from_term_ref<T>\(term:\s*&'a T\)\s*->\s*Self", s)
    if not mr:
        raise ExtractError("%s: from_term_ref not found" % SIMPLE)  # noqa: F821
    body = _norm(_block(s, s.index("{", s.index("where", mr.end())), "from_term_ref"))
    if FROM_TERM_REF_TRIPLE not in body:
        raise ExtractError("%s: from_term_ref no longer deep-copies quoted triples with SimpleTerm::<'static>::from_term" % SIMPLE)  # noqa: F821
    for atom in ("TermKind::Iri=>SimpleTerm::Iri(term.iri().unwrap()),",
                 "TermKind::BlankNode=>SimpleTerm::BlankNode(term.bnode_id().unwrap()),",
                 "TermKind::Variable=>SimpleTerm::Variable(term.variable().unwrap()),",
                 "letlex=term.lexical_form().unwrap();"):
        if atom not in body:
            raise ExtractError("%s: from_term_ref: atom branch %r not found" % (SIMPLE, atom))  # noqa: F821
    lean = (HEADER  # noqa: F821
            + "import SophiaModel.Model.Heap\n"
            + "namespace SophiaModel.Gen\n\n"
            + "/-- how `Clone for SimpleTermIndex<I>` is defined in inmem/src/index.rs:\n"
            + "`.derived` = `#[derive(Clone)]` (field-by-field), `.manual` = the impl of\n"
            + "notes/fixes/C10-manual-clone.diff (clone `t2i`, rebuild `i2t` from the new keys).\n"
            + "The four store structs derive `Clone` and embed the index as `terms: TI`. -/\n"
            + "def cloneKind : SophiaModel.Heap.CloneKind := .%s\n\n" % kind
            + "/-- does `impl TermIndex for SimpleTermIndex` declare `type Term = SimpleTerm<'static>`, so that\n"
            + "`get_term(i).clone()` (and the clone of any term lent by `triples()` / `quads()`) is a\n"
            + "`SimpleTerm<'static>` that may outlive the store (`true`), or the uninhabited marker `IndexedTerm`\n"
            + "of notes/fixes/C10-indexed-term-lifetime.diff, which lends `&'x SimpleTerm<'x>` (`false`)? -/\n"
            + "def termEscapes : Bool := %s\n\n" % ("true" if escapes else "false")
            + "end SophiaModel.Gen\n")
    return lean, {"clone_kind": kind, "term_escapes": escapes, "unsafe_sites_index_rs": n_unsafe}


# ------------------------------------------------------------------ mownstr: what the ownership model assumes about `MownStr`

MOWN_PINS = {
    "out_of_line": ["pubstructMownStr<'a>{addr:NonNull<u8>,xlen:usize,_phd:PhantomData<&'astr>,}"],
    "clone_borrowed_copies_pointer": ["implCloneforMownStr<'_>{fnclone(&self)->Self{ifself.is_owned(){Box::<str>::from(&**self).into()}"
                                      "else{MownStr{addr:self.addr,xlen:self.xlen,_phd:self._phd,}}}}"],
    "drop_releases_owned_only": ["implDropforMownStr<'_>{fndrop(&mutself){ifself.is_owned(){unsafe{std::mem::drop(self.extract_box());}}}}",
                                 "pubconstfnis_owned(&self)->bool{(self.xlen&OWN_FLAG)==OWN_FLAG}"],
    "from_box_takes_the_buffer": ["implFrom<Box<str>>forMownStr<'_>{fnfrom(other:Box<str>)->Self{letlen=other.len();debug_assert!(len<=LEN_MASK);"
                                  "letaddr=Box::leak(other).as_mut_ptr();",
                                  "letxlen=len|OWN_FLAG;MownStr{addr,xlen,_phd:PhantomData,}}}",
                                  "implFrom<String>forMownStr<'_>{fnfrom(other:String)->Self{other.into_boxed_str().into()}}"],
    "borrowed_is_a_pointer_copy": ["pubconstfnborrowed(&self)->MownStr{MownStr{addr:self.addr,xlen:self.xlen&LEN_MASK,_phd:PhantomData,}}"],
}


def extract_mownstr_shape(repo):
    """The Lean model reads `MownStr` as: pointer + length + ownership bit, the bytes live OUT OF LINE (moving the
    struct — table growth, Vec reallocation, moves — never moves them); `Clone` of a borrowed one copies the
    pointer, of an owned one copies the bytes into a fresh buffer; `Drop` releases the buffer only when owned;
    `From<Box<str>>` / `From<String>` take the buffer over without copying.  Each of these is recognised in the
    source of the mownstr version the harness is locked to (vendored registry); anything else fails closed."""
    import glob
    import os
    lock = os.path.join(os.path.dirname(os.path.dirname(os.path.dirname(os.path.abspath(__file__)))), "harness", "props", "c10", "Cargo.lock")
    ver = None
    if os.path.exists(lock):
        m = re.search(r'name = "mownstr"\s*\nversion = "([^"]+)"', open(lock).read())
        ver = m.group(1) if m else None
    home = os.environ.get("CARGO_HOME") or os.path.expanduser("~/.cargo")
    cands = sorted(glob.glob(os.path.join(home, "registry", "src", "*", "mownstr-%s" % (ver or "0.3.*"), "src", "lib.rs")))
    if len(cands) != 1:
        raise ExtractError("mownstr: %d candidate sources for version %r under %s/registry/src" % (len(cands), ver, home))  # noqa: F821
    text = open(cands[0], encoding="utf-8").read()
    code = _norm(_strip_cfg(_nocomment(text), "mownstr"))
    flags = {}
    for k, pins in MOWN_PINS.items():
        flags[k] = all(p_ in code for p_ in pins)
        if not flags[k]:
            raise ExtractError("mownstr %s (%s): `%s` is not recognised in the source" % (ver, cands[0], k))  # noqa: F821
    # the dependency of /repo must admit that version
    cargo = read(repo, "Cargo.toml")  # noqa: F821
    if not re.search(r'^mownstr\s*=\s*"0\.3"', cargo, flags=re.M):
        raise ExtractError("Cargo.toml: the workspace no longer depends on mownstr 0.3")  # noqa: F821
    b = lambda k: str(flags[k]).lower()  # noqa: E731
    lean = (HEADER  # noqa: F821
            + "import SophiaModel.Model.Heap\n"
            + "namespace SophiaModel.Gen\n\n"
            + "/-- what the source of mownstr %s (the version the harness is locked to) says about `MownStr`,\n" % (ver or cands[0].split("mownstr-")[1].split("/")[0])
            + "recognised fragment by fragment by tools/extractors/c10.py -/\n"
            + "def mownStr : SophiaModel.Heap.MownStrShape :=\n"
            + "  { outOfLine := %s, cloneBorrowedCopiesPointer := %s, dropReleasesOwnedOnly := %s,\n" % (
                b("out_of_line"), b("clone_borrowed_copies_pointer"), b("drop_releases_owned_only"))
            + "    fromBoxTakesTheBuffer := %s, borrowedIsPointerCopy := %s }\n\n" % (
                b("from_box_takes_the_buffer"), b("borrowed_is_a_pointer_copy"))
            + "end SophiaModel.Gen\n")
    return lean, {"mownstr_version": ver, "source": cands[0]}


EXTRACTORS = {"clone_kind": ("CloneKind.lean", extract_clone_kind),
              "mownstr_shape": ("MownStrShape.lean", extract_mownstr_shape)}
