"""C10 extractor: how `Clone` is defined for the in-memory stores -> lean/SophiaModel/Gen/CloneKind.lean.

Fail-closed.  Two understood shapes of inmem/src/index.rs:

  derived : `#[derive(Clone, ...)]` on `pub struct SimpleTermIndex<I: Index>` and no manual impl
            (`t2i` and `i2t` are cloned field by field: a borrowed `MownStr` of the clone's `i2t`
            keeps pointing into the ORIGINAL's keys);
  manual  : no `Clone` in the derive list and `impl<I: Index> Clone for SimpleTermIndex<I>` whose
            body is exactly the understood one (notes/fixes/C10-manual-clone.diff): `t2i` is cloned,
            `i2t` is rebuilt from the keys of the NEW map via `get_key_value(t).expect(..)`,
            `as_simple()` and the `transmute` of `ensure_index`.

Also checked (everything the Lean model `SophiaModel.Heap` relies on about the source text):
  * the fields of `SimpleTermIndex` are `t2i: HashMap<SimpleTerm<'static>, I>` and `i2t: Vec<SimpleTerm<'static>>`;
  * `ensure_index` has the modelled order of effects (`from_term`, `entry`, full check, `as_simple`,
    `transmute`, `push`, `insert`);
  * the four store structs of inmem/src/{graph,dataset}.rs derive `Clone`, have no manual `Clone`,
    and embed the index as their first field `terms: TI` (their clone goes through the index's);
  * `SimpleTerm` derives `Clone`; `from_term_ref` deep-copies the components of a quoted triple with
    `SimpleTerm::<'static>::from_term` and hands out the accessors' (borrowed) strings for atoms;
    `ensure_owned` has the modelled two branches.
`read`, `ExtractError`, `HEADER` are injected by tools/extract.py.
"""
import re

INDEX = "inmem/src/index.rs"
SIMPLE = "api/src/term/_simple.rs"


def _norm(s):
    s = re.sub(r"//[^\n]*", "", s)
    return re.sub(r"\s+", "", s)


def _block(text, start, what):
    """text of the balanced {...} block starting at the first '{' at or after `start`"""
    i = text.find("{", start)
    if i < 0:
        raise ExtractError("%s: no block" % what)  # noqa: F821
    depth = 0
    for j in range(i, len(text)):
        if text[j] == "{":
            depth += 1
        elif text[j] == "}":
            depth -= 1
            if depth == 0:
                return text[i:j + 1]
    raise ExtractError("%s: unbalanced braces" % what)  # noqa: F821


def _derives(text, struct_re, what):
    """derive list of the attribute block directly above the struct"""
    m = re.search(r"((?:\s*#\[[^\]]*\]\s*\n)+)\s*" + struct_re, text)
    if not m:
        raise ExtractError("%s: struct (with attributes) not found" % what)  # noqa: F821
    ds = []
    for a in re.finditer(r"#\[derive\(([^)]*)\)\]", m.group(1)):
        ds += [x.strip() for x in a.group(1).split(",") if x.strip()]
    return ds, m


MANUAL_BODY = _norm('''
{
    fn clone(&self) -> Self {
        let t2i = self.t2i.clone();
        let i2t = self
            .i2t
            .iter()
            .map(|t| {
                let (k, _) = t2i
                    .get_key_value(t)
                    .expect("every term of i2t is a key of t2i");
                let t2 = k.as_simple();
                unsafe { std::mem::transmute::<SimpleTerm<'_>, SimpleTerm<'static>>(t2) }
            })
            .collect();
        SimpleTermIndex { t2i, i2t }
    }
}
''')

ENSURE_BODY = _norm('''
{
    let t = SimpleTerm::from_term(t);
    match self.t2i.entry(t) {
        Entry::Vacant(e) => {
            let i = I::from_usize(self.i2t.len());
            if i >= I::MAX {
                return Err(TermIndexFullError());
            }
            let t2 = e.key().as_simple();
            let t2: SimpleTerm<'static> = unsafe { std::mem::transmute(t2) };
            self.i2t.push(t2);
            e.insert(i);
            Ok(i)
        }
        Entry::Occupied(e) => Ok(*e.get()),
    }
}
''')

ENSURE_OWNED = _norm('''
{
    if m.is_owned() {
        let m = m.clone();
        unsafe { std::mem::transmute::<mownstr::MownStr<'_>, mownstr::MownStr<'_>>(m) }
    } else {
        m.to_string().into()
    }
}
''')

FROM_TERM_REF_TRIPLE = _norm('''
TermKind::Triple => {
    let t = term.triple().unwrap();
    SimpleTerm::Triple(Box::new([
        SimpleTerm::<'static>::from_term(t.s()),
        SimpleTerm::<'static>::from_term(t.p()),
        SimpleTerm::<'static>::from_term(t.o()),
    ]))
}
''')

STORES = [
    ("inmem/src/graph.rs", "GenericLightGraph", "TermIndex"),
    ("inmem/src/graph.rs", "GenericFastGraph", "TermIndex"),
    ("inmem/src/dataset.rs", "GenericLightDataset", "TermIndex"),
    ("inmem/src/dataset.rs", "GenericFastDataset", "GraphNameIndex"),
]


def extract_clone_kind(repo):
    text = read(repo, INDEX)  # noqa: F821
    ds, m = _derives(text, r"pub struct SimpleTermIndex<I: Index>\s*\{", INDEX + ": SimpleTermIndex")
    fields = _norm(_block(text, m.end() - 1, INDEX + ": SimpleTermIndex"))
    if fields != "{t2i:HashMap<SimpleTerm<'static>,I>,i2t:Vec<SimpleTerm<'static>>,}":
        raise ExtractError("%s: fields of SimpleTermIndex are not the modelled `t2i` / `i2t`" % INDEX)  # noqa: F821
    impls = list(re.finditer(r"impl\s*<[^>]*>\s*(?:std::clone::|core::clone::)?Clone\s+for\s+SimpleTermIndex\s*<[^>]*>", text))
    derived = "Clone" in ds
    if derived and not impls:
        kind = "derived"
    elif not derived and len(impls) == 1:
        hdr = re.sub(r"\s+", " ", impls[0].group(0))
        if hdr != "impl<I: Index> Clone for SimpleTermIndex<I>":
            raise ExtractError("%s: manual Clone impl with an unexpected header %r" % (INDEX, hdr))  # noqa: F821
        body = _norm(_block(text, impls[0].end(), INDEX + ": impl Clone"))
        if body != MANUAL_BODY:
            raise ExtractError("%s: manual `impl Clone for SimpleTermIndex` whose body is not the understood one "  # noqa: F821
                               "(clone t2i, rebuild i2t from the NEW keys via get_key_value/as_simple/transmute)" % INDEX)
        kind = "manual"
    else:
        raise ExtractError("%s: SimpleTermIndex has %s Clone in its derive list and %d manual impl(s): not a modelled shape"  # noqa: F821
                           % (INDEX, "a" if derived else "no", len(impls)))
    # ensure_index: the modelled order of effects
    me = re.search(r"fn\s+ensure_index<T:\s*Term>\(&mut self,\s*t:\s*T\)\s*->\s*Result<Self::Index,\s*Self::Error>\s*\{", text)
    if not me:
        raise ExtractError("%s: SimpleTermIndex::ensure_index not found" % INDEX)  # noqa: F821
    if _norm(_block(text, me.end() - 1, INDEX + ": ensure_index")) != ENSURE_BODY:
        raise ExtractError("%s: body of ensure_index is not the modelled one" % INDEX)  # noqa: F821
    # Drop / other unsafe in the index would be outside the model
    if re.search(r"impl\s*<[^>]*>\s*Drop\s+for\s+SimpleTermIndex", text):
        raise ExtractError("%s: SimpleTermIndex has a manual Drop impl (not modelled)" % INDEX)  # noqa: F821
    # items guarded by cfg(sophia_verif) are add-only instrumentation: cut them before counting `unsafe`
    code = re.sub(r"//[^\n]*", "", text.split("#[cfg(test)]")[0])
    while True:
        j = code.find("#[cfg(sophia_verif)]")
        if j < 0:
            break
        blk = _block(code, j, INDEX + ": cfg(sophia_verif) item")
        code = code[:j] + code[code.index("{", j) + len(blk):]
    n_unsafe = len(re.findall(r"\bunsafe\b", code))
    want = 1 if kind == "derived" else 2
    if n_unsafe != want:
        raise ExtractError("%s: %d `unsafe` sites outside cfg(sophia_verif) items, the model covers %d" % (INDEX, n_unsafe, want))  # noqa: F821
    # the stores
    for rel, name, bound in STORES:
        t = read(repo, rel)  # noqa: F821
        ds2, m2 = _derives(t, r"pub struct %s<TI: %s>\s*\{" % (name, bound), "%s: %s" % (rel, name))
        if "Clone" not in ds2:
            raise ExtractError("%s: %s does not derive Clone" % (rel, name))  # noqa: F821
        if re.search(r"Clone\s+for\s+%s\b" % name, t):
            raise ExtractError("%s: %s has a manual Clone impl (not modelled)" % (rel, name))  # noqa: F821
        if not _norm(_block(t, m2.end() - 1, name)).startswith("{terms:TI,"):
            raise ExtractError("%s: %s does not embed the index as `terms: TI`" % (rel, name))  # noqa: F821
        if re.search(r"\bunsafe\b", re.sub(r"//[^\n]*", "", t.split("#[cfg(test)]")[0])):
            raise ExtractError("%s: contains `unsafe` (not modelled)" % rel)  # noqa: F821
    # SimpleTerm
    s = read(repo, SIMPLE)  # noqa: F821
    ds3, _ = _derives(s, r"pub enum SimpleTerm<'a>\s*\{", SIMPLE + ": SimpleTerm")
    if "Clone" not in ds3:
        raise ExtractError("%s: SimpleTerm does not derive Clone" % SIMPLE)  # noqa: F821
    mo = re.search(r"fn\s+ensure_owned\(m:\s*MownStr\)\s*->\s*MownStr<'static>\s*", s)
    if not mo or _norm(_block(s, mo.end() - 1, "ensure_owned")) != ENSURE_OWNED:
        raise ExtractError("%s: ensure_owned is not the modelled one" % SIMPLE)  # noqa: F821
    mr = re.search(r"pub fn from_term_ref<T>\(term:\s*&'a T\)\s*->\s*Self", s)
    if not mr:
        raise ExtractError("%s: from_term_ref not found" % SIMPLE)  # noqa: F821
    body = _norm(_block(s, s.index("{", s.index("where", mr.end())), "from_term_ref"))
    if FROM_TERM_REF_TRIPLE not in body:
        raise ExtractError("%s: from_term_ref no longer deep-copies quoted triples with SimpleTerm::<'static>::from_term" % SIMPLE)  # noqa: F821
    for atom in ("TermKind::Iri=>SimpleTerm::Iri(term.iri().unwrap()),",
                 "TermKind::BlankNode=>SimpleTerm::BlankNode(term.bnode_id().unwrap()),",
                 "TermKind::Variable=>SimpleTerm::Variable(term.variable().unwrap()),",
                 "letlex=term.lexical_form().unwrap();"):
        if atom not in body:
            raise ExtractError("%s: from_term_ref: atom branch %r not found" % (SIMPLE, atom))  # noqa: F821
    lean = (HEADER  # noqa: F821
            + "import SophiaModel.Model.Heap\n"
            + "namespace SophiaModel.Gen\n\n"
            + "/-- how `Clone for SimpleTermIndex<I>` is defined in inmem/src/index.rs:\n"
            + "`.derived` = `#[derive(Clone)]` (field-by-field), `.manual` = the impl of\n"
            + "notes/fixes/C10-manual-clone.diff (clone `t2i`, rebuild `i2t` from the new keys).\n"
            + "The four store structs derive `Clone` and embed the index as `terms: TI`. -/\n"
            + "def cloneKind : SophiaModel.Heap.CloneKind := .%s\n\n" % kind
            + "end SophiaModel.Gen\n")
    return lean, {"clone_kind": kind, "unsafe_sites_index_rs": n_unsafe}


EXTRACTORS = {"clone_kind": ("CloneKind.lean", extract_clone_kind)}
