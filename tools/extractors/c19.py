"""C19 extractor: resource/src/loader/_local.rs -> lean/SophiaModel/Gen/LoaderExts.lean (fail-closed).

Regenerated from /repo's working tree on every run:
  * the content-negotiation retry list of `LocalLoader::get` (`for ext in [...]`) with the cargo
    feature gating each entry, and the shape of the retried IRI (`format!("{iri}.{ext}")`);
  * the `ctype` suffix table (suffix, content type, gating feature) and its default;
  * whether `get` carries the confinement guard of notes/fixes/C19-confine.diff (rejecting remainders
    with a `..`/root/prefix component).  Any *other* use of `components()` in `get` is not understood
    and fails the extraction.
`read`, `ExtractError`, `HEADER` are injected by tools/extract.py.
"""
import re

REL = "resource/src/loader/_local.rs"


def _chars(s):
    out = []
    for c in s:
        if not (c.isascii() and (c.isalnum() or c in "./+-_")):
            raise ExtractError("unexpected character %r in %r" % (c, s))  # noqa: F821
        out.append("'%s'" % c)
    return "[" + ", ".join(out) + "]"


def _opt(g):
    return "none" if g is None else "(some %s)" % _chars(g)


def _fn_body(text, header_re, what):
    m = re.search(header_re, text)
    if not m:
        raise ExtractError("%s: %s not found" % (REL, what))  # noqa: F821
    i = text.index("{", m.end() - 1)
    depth = 0
    for j in range(i, len(text)):
        if text[j] == "{":
            depth += 1
        elif text[j] == "}":
            depth -= 1
            if depth == 0:
                return text[i + 1:j]
    raise ExtractError("%s: unbalanced braces in %s" % (REL, what))  # noqa: F821


GUARD_RE = re.compile(
    r"if\s+subpath\s*\.components\(\)\s*\.any\(\|c\|\s*\{?\s*matches!\(\s*c\s*,\s*"
    r"Component::ParentDir\s*\|\s*Component::RootDir\s*\|\s*Component::Prefix\(_\)\s*,?\s*\)\s*\}?\s*\)\s*"
    r"\{\s*return\s+Err\(\s*LoaderError::UnsupportedIri\(")


def extract_loader(repo):
    text = read(repo, REL)  # noqa: F821
    get = _fn_body(text, r"fn\s+get<T:\s*Borrow<str>>\(&self,\s*iri:\s*Iri<T>\)[^{]*\{", "LocalLoader::get")
    # --- retry list
    m = re.search(r"for\s+ext\s+in\s+\[(.*?)\]\s*\{", get, re.S)
    if not m:
        raise ExtractError("%s: `for ext in [...]` retry loop not found in get" % REL)  # noqa: F821
    exts = []
    gate = None
    for tok in re.finditer(r'#\[cfg\(feature\s*=\s*"([^"]+)"\)\]|"([^"]*)"|(\S)', m.group(1)):
        if tok.group(1) is not None:
            if gate is not None:
                raise ExtractError("%s: two cfg attributes on one retry extension" % REL)  # noqa: F821
            gate = tok.group(1)
        elif tok.group(2) is not None:
            exts.append((tok.group(2), gate))
            gate = None
        elif tok.group(3) != ",":
            raise ExtractError("%s: retry list: unexpected token %r" % (REL, tok.group(3)))  # noqa: F821
    if gate is not None or not exts:
        raise ExtractError("%s: retry list malformed/empty" % REL)  # noqa: F821
    for g in {g for _, g in exts if g}:
        if g not in ("jsonld", "xml"):
            raise ExtractError("%s: unknown cargo feature %r gating a retry extension" % (REL, g))  # noqa: F821
    if not re.search(r'Iri::new_unchecked\(format!\("\{iri\}\.\{ext\}"\)\)', get):
        raise ExtractError("%s: retried IRI is no longer format!(\"{iri}.{ext}\")" % REL)  # noqa: F821
    # --- confinement guard
    if GUARD_RE.search(get):
        guard = True
    elif "components" in get or "canonicalize" in get or "Component" in get:
        raise ExtractError("%s: get uses path components in a way the model does not know" % REL)  # noqa: F821
    else:
        guard = False
    # --- ctype table
    ct = _fn_body(text, r"fn\s+ctype\(&self,\s*iri:\s*&str\)\s*->\s*String\s*\{", "LocalLoader::ctype")
    norm = re.sub(r"\s+", " ", ct).strip()
    rows = []
    pos = 0
    branch = re.compile(r'(?:else )?if (?:cfg!\(feature = "([^"]+)"\) && )?iri\.ends_with\("([^"]+)"\) \{ "([^"]+)"\.into\(\) \} ')
    while True:
        b = branch.match(norm, pos)
        if not b:
            break
        rows.append((b.group(2), b.group(3), b.group(1)))
        pos = b.end()
    d = re.fullmatch(r'else \{ "([^"]+)"\.into\(\) \}', norm[pos:])
    if not rows or not d:
        raise ExtractError("%s: ctype is no longer an if/else-if chain of iri.ends_with(..) => literal" % REL)  # noqa: F821
    for _, _, g in rows:
        if g not in (None, "jsonld", "xml"):
            raise ExtractError("%s: unknown cargo feature %r in ctype" % (REL, g))  # noqa: F821
    out = [HEADER,  # noqa: F821
           "namespace SophiaModel.Gen.LoaderExts\n\n",
           "/-- `for ext in [...]` of `LocalLoader::get`: (extension, cargo feature gating it), source order -/\n",
           "def exts : List (List Char × Option (List Char)) :=\n  [" +
           ",\n   ".join("(%s, %s)" % (_chars(e), _opt(g)) for e, g in exts) + "]\n\n",
           "/-- `LocalLoader::ctype`: (suffix, content type, gating feature), source order -/\n",
           "def ctypes : List (List Char × List Char × Option (List Char)) :=\n  [" +
           ",\n   ".join("(%s, %s, %s)" % (_chars(s), _chars(c), _opt(g)) for s, c, g in rows) + "]\n\n",
           "def ctypeDefault : List Char := %s\n\n" % _chars(d.group(1)),
           "/-- does `get` reject remainders with a `..`/root/prefix component (notes/fixes/C19-confine.diff)? -/\n",
           "def guardPresent : Bool := %s\n\n" % ("true" if guard else "false"),
           "end SophiaModel.Gen.LoaderExts\n"]
    return "".join(out), {"exts": exts, "ctypes": rows, "guard": guard}


EXTRACTORS = {"loader_exts": ("LoaderExts.lean", extract_loader)}
