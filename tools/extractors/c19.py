"""C19 extractor: resource/src/loader/_local.rs -> lean/SophiaModel/Gen/LoaderExts.lean (fail-closed).

Regenerated from /repo's working tree on every run:
  * the content-negotiation retry list of `LocalLoader::get` (`for ext in [...]`) with the cargo
    feature gating each entry, and the shape of the retried IRI (`format!("{iri}.{ext}")`);
  * the `ctype` suffix table (suffix, content type, gating feature) and its default;
  * whether `get` carries the confinement guard of notes/fixes/C19-confine.diff (rejecting remainders
    with a `..`/root/prefix component), recognised structurally: `<v>.components().any(|c| matches!(c, ALTS))`
    on the remainder `Path::new(&iri[ns.len()..])`, before the `join`/`read`, followed by `return Err(`;
    ALTS in any order, `Prefix(_)` optional (it cannot occur on unix), or the complementary white list
    `!matches!(c, Normal(_) | CurDir)`.  Any *other* use of `components()` in `get` is not understood and
    fails the extraction (the model would not mirror it);
  * `cfg(not(..))` code in _local.rs (compiled out of the harness build, which enables every feature) fails
    the extraction;
  * LoaderSites.lean: every file-system / process / network call site of the whole `sophia_resource` crate
    (test modules excluded), as (file, token, count) — the theorems about `get` speak for the crate only if
    `get` is the one place that touches the file system (`SophiaProofs.C19.reads_only_in_get`).
`read`, `ExtractError`, `HEADER` are injected by tools/extract.py.
"""
import re

REL = "resource/src/loader/_local.rs"


def _chars(s):
    out = []
    for c in s:
        if not (c.isascii() and (c.isalnum() or c in "./+-_")):
            raise ExtractError("unexpected character %r in %r" % (c, s))  # noqa: F821
        out.append("'%s'" % c)
    return "[" + ", ".join(out) + "]"


def _opt(g):
    return "none" if g is None else "(some %s)" % _chars(g)


def _fn_body(text, header_re, what):
    m = re.search(header_re, text)
    if not m:
        raise ExtractError("%s: %s not found" % (REL, what))  # noqa: F821
    i = text.index("{", m.end() - 1)
    depth = 0
    for j in range(i, len(text)):
        if text[j] == "{":
            depth += 1
        elif text[j] == "}":
            depth -= 1
            if depth == 0:
                return text[i + 1:j]
    raise ExtractError("%s: unbalanced braces in %s" % (REL, what))  # noqa: F821


def _balanced(text, i):
    """text[i] == '(' -> index just after the matching ')'"""
    depth = 0
    for j in range(i, len(text)):
        if text[j] == "(":
            depth += 1
        elif text[j] == ")":
            depth -= 1
            if depth == 0:
                return j + 1
    raise ExtractError("%s: unbalanced parentheses in get" % REL)  # noqa: F821


def _guard(get):
    """-> True (guard present), False (no trace of one); raises when `get` looks at path components in
    any way the model's `safeRem` does not mirror"""
    m = re.search(r"(\w+)\s*\.components\(\)\s*\.any\(", get)
    if not m:
        if "components" in get or "canonicalize" in get or "Component" in get:
            raise ExtractError("%s: get uses path components in a way the model does not know" % REL)  # noqa: F821
        return False
    var = m.group(1)
    if not re.search(r"let\s+%s\s*=\s*Path::new\(&iri\[ns\.len\(\)\.\.\]\)" % re.escape(var), get[:m.start()]):
        raise ExtractError("%s: the guard does not inspect Path::new(&iri[ns.len()..])" % REL)  # noqa: F821
    end = _balanced(get, m.end() - 1)
    arg = re.sub(r"\s+", " ", get[m.end():end - 1]).strip()
    c = re.fullmatch(r"\|(\w+)\| \{? ?(!?) ?matches!\( ?(\w+) ?, ?(.*?),? ?\) ?\}?", arg)
    if not c or c.group(1) != c.group(3):
        raise ExtractError("%s: guard closure is not `|c| matches!(c, ..)`: %r" % (REL, arg))  # noqa: F821
    alts = set()
    for a in c.group(4).split("|"):
        a = a.strip()
        a = a[len("Component::"):] if a.startswith("Component::") else a
        a = a[:-3] if a.endswith("(_)") else a
        if a not in ("ParentDir", "RootDir", "Prefix", "Normal", "CurDir"):
            raise ExtractError("%s: guard pattern %r not understood" % (REL, a))  # noqa: F821
        alts.add(a)
    rejected = ({"ParentDir", "RootDir", "Prefix", "Normal", "CurDir"} - alts) if c.group(2) else alts
    if rejected - {"Prefix"} != {"ParentDir", "RootDir"}:
        raise ExtractError("%s: guard rejects components %s, the model's guard rejects ParentDir, RootDir"  # noqa: F821
                           % (REL, sorted(rejected)))
    if not re.match(r"\s*\{\s*return\s+Err\(", get[end:]):
        raise ExtractError("%s: guard is not followed by `{ return Err(`" % REL)  # noqa: F821
    if not re.search(r"\bif\s+$", get[:m.start()]):
        raise ExtractError("%s: guard is not the condition of an `if`" % REL)  # noqa: F821
    rest = get[end:]
    before = get[:m.start()]
    if ".join(" in before or re.search(r"\bread\(", before):
        raise ExtractError("%s: the guard comes after the join/read" % REL)  # noqa: F821
    if get.count(".components()") != 1 or ".join(" not in rest:
        raise ExtractError("%s: get uses path components in a way the model does not know" % REL)  # noqa: F821
    return True


def extract_loader(repo):
    text = read(repo, REL)  # noqa: F821
    get = _fn_body(text, r"fn\s+get<T:\s*Borrow<str>>\(&self,\s*iri:\s*Iri<T>\)[^{]*\{", "LocalLoader::get")
    # --- retry list
    m = re.search(r"for\s+ext\s+in\s+\[(.*?)\]\s*\{", get, re.S)
    if not m:
        raise ExtractError("%s: `for ext in [...]` retry loop not found in get" % REL)  # noqa: F821
    exts = []
    gate = None
    for tok in re.finditer(r'#\[cfg\(feature\s*=\s*"([^"]+)"\)\]|"([^"]*)"|(\S)', m.group(1)):
        if tok.group(1) is not None:
            if gate is not None:
                raise ExtractError("%s: two cfg attributes on one retry extension" % REL)  # noqa: F821
            gate = tok.group(1)
        elif tok.group(2) is not None:
            exts.append((tok.group(2), gate))
            gate = None
        elif tok.group(3) != ",":
            raise ExtractError("%s: retry list: unexpected token %r" % (REL, tok.group(3)))  # noqa: F821
    if gate is not None or not exts:
        raise ExtractError("%s: retry list malformed/empty" % REL)  # noqa: F821
    for g in {g for _, g in exts if g}:
        if g not in ("jsonld", "xml"):
            raise ExtractError("%s: unknown cargo feature %r gating a retry extension" % (REL, g))  # noqa: F821
    if not re.search(r'Iri::new_unchecked\(format!\("\{iri\}\.\{ext\}"\)\)', get):
        raise ExtractError("%s: retried IRI is no longer format!(\"{iri}.{ext}\")" % REL)  # noqa: F821
    # --- confinement guard
    guard = _guard(get)
    if re.search(r"cfg!?\(\s*not\s*\(", text):
        raise ExtractError("%s: cfg(not(..)) code is compiled out of the harness build (all features on)" % REL)  # noqa: F821
    # --- ctype table
    ct = _fn_body(text, r"fn\s+ctype\(&self,\s*iri:\s*&str\)\s*->\s*String\s*\{", "LocalLoader::ctype")
    norm = re.sub(r"\s+", " ", ct).strip()
    rows = []
    pos = 0
    branch = re.compile(r'(?:else )?if (?:cfg!\(feature = "([^"]+)"\) && )?iri\.ends_with\("([^"]+)"\) \{ "([^"]+)"\.into\(\) \} ')
    while True:
        b = branch.match(norm, pos)
        if not b:
            break
        rows.append((b.group(2), b.group(3), b.group(1)))
        pos = b.end()
    d = re.fullmatch(r'else \{ "([^"]+)"\.into\(\) \}', norm[pos:])
    if not rows or not d:
        raise ExtractError("%s: ctype is no longer an if/else-if chain of iri.ends_with(..) => literal" % REL)  # noqa: F821
    for _, _, g in rows:
        if g not in (None, "jsonld", "xml"):
            raise ExtractError("%s: unknown cargo feature %r in ctype" % (REL, g))  # noqa: F821
    out = [HEADER,  # noqa: F821
           "namespace SophiaModel.Gen.LoaderExts\n\n",
           "/-- `for ext in [...]` of `LocalLoader::get`: (extension, cargo feature gating it), source order -/\n",
           "def exts : List (List Char × Option (List Char)) :=\n  [" +
           ",\n   ".join("(%s, %s)" % (_chars(e), _opt(g)) for e, g in exts) + "]\n\n",
           "/-- `LocalLoader::ctype`: (suffix, content type, gating feature), source order -/\n",
           "def ctypes : List (List Char × List Char × Option (List Char)) :=\n  [" +
           ",\n   ".join("(%s, %s, %s)" % (_chars(s), _chars(c), _opt(g)) for s, c, g in rows) + "]\n\n",
           "def ctypeDefault : List Char := %s\n\n" % _chars(d.group(1)),
           "/-- does `get` reject remainders with a `..`/root/prefix component (notes/fixes/C19-confine.diff)? -/\n",
           "def guardPresent : Bool := %s\n\n" % ("true" if guard else "false"),
           "end SophiaModel.Gen.LoaderExts\n"]
    return "".join(out), {"exts": exts, "ctypes": rows, "guard": guard}


# ------------------------------------------------------------------ file-system call sites of the crate

SITE_RE = re.compile(
    r"\b(?:std\s*::\s*)?fs\s*::\s*\w+|\bFile\s*::\s*\w+|\bOpenOptions\b|\bread_to_string\b|\bread_to_end\b|\bread_dir\b"
    r"|\bread_link\b|\bcanonicalize\b|\bsymlink_metadata\b|\bmetadata\s*\(|\.\s*is_dir\s*\(|\.\s*is_file\s*\(|\.\s*is_symlink\s*\("
    r"|\.\s*exists\s*\(|\.\s*try_exists\s*\(|\bread\s*\(|\binclude_(?:str|bytes)\s*!|\bstd\s*::\s*process\b|\bCommand\s*::\s*\w+"
    r"|\bmmap\w*|\bstd\s*::\s*net\b|\bTcpStream\b|\bstd\s*::\s*os\b|\blibc\s*::|\bextern\s+\"C\"|\bunsafe\b")


def _strip(text):
    """Rust source without comments and with string literals emptied"""
    out = []
    i, n = 0, len(text)
    while i < n:
        c = text[i]
        if text.startswith("//", i):
            j = text.find("\n", i)
            i = n if j < 0 else j
        elif text.startswith("/*", i):
            depth, i = 1, i + 2
            while i < n and depth:
                if text.startswith("/*", i):
                    depth, i = depth + 1, i + 2
                elif text.startswith("*/", i):
                    depth, i = depth - 1, i + 2
                else:
                    i += 1
        elif c == "r" and re.match(r'r#*"', text[i:]) and (i == 0 or not (text[i - 1].isalnum() or text[i - 1] == "_")):
            h = re.match(r'r(#*)"', text[i:]).group(1)
            j = text.find('"' + h, i + 2 + len(h))
            if j < 0:
                raise ExtractError("unterminated raw string")  # noqa: F821
            out.append('""')
            i = j + 1 + len(h)
        elif c == '"':
            i += 1
            while i < n and text[i] != '"':
                i += 2 if text[i] == "\\" else 1
            out.append('""')
            i += 1
        else:
            out.append(c)
            i += 1
    return "".join(out)


def extract_sites(repo):
    import os
    root = os.path.join(repo, "resource", "src")
    files = []
    for d, _, fs in os.walk(root):
        for f in fs:
            if f.endswith(".rs"):
                files.append(os.path.relpath(os.path.join(d, f), root))
    if "loader/_local.rs" not in files or "loader/_trait.rs" not in files:
        raise ExtractError("resource/src: loader/_local.rs or loader/_trait.rs missing")  # noqa: F821
    sites = []
    for f in sorted(files):
        text = read(repo, "resource/src/" + f)  # noqa: F821
        if os.path.basename(f) == "test.rs":
            # test modules must be declared `#[cfg(test)] mod test;` by their parent
            parent = os.path.dirname(f)
            ptext = read(repo, "resource/src/" + (parent + ".rs" if parent else "lib.rs"))  # noqa: F821
            if not re.search(r"#\[cfg\(test\)\]\s*mod\s+test\s*;", ptext):
                raise ExtractError("resource/src/%s is not a #[cfg(test)] module" % f)  # noqa: F821
            continue
        code = _strip(text)
        # inline `#[cfg(test)] mod x { .. }` blocks are not part of the library
        while True:
            tm = re.search(r"#\[cfg\(test\)\]\s*mod\s+\w+\s*\{", code)
            if not tm:
                break
            depth, j = 0, tm.end() - 1
            while j < len(code):
                depth += {"{": 1, "}": -1}.get(code[j], 0)
                j += 1
                if depth == 0:
                    break
            code = code[:tm.start()] + code[j:]
        counts = {}
        for m in SITE_RE.finditer(code):
            t = re.sub(r"\s+", "", m.group(0))
            counts[t] = counts.get(t, 0) + 1
        for t in sorted(counts):
            sites.append((f, t, counts[t]))
    local = _strip(read(repo, REL))  # noqa: F821
    get = _fn_body(local, r"fn\s+get<T:\s*Borrow<str>>\(&self,\s*iri:\s*Iri<T>\)[^{]*\{", "LocalLoader::get")
    in_get = len(re.findall(r"\bread\s*\(", get))
    for f, t, _ in sites:
        for ch in f + t:
            if ch in '"\\' or ord(ch) < 32 or ord(ch) > 126:
                raise ExtractError("unexpected character in site %r %r" % (f, t))  # noqa: F821
    out = [HEADER,  # noqa: F821
           "namespace SophiaModel.Gen.LoaderSites\n\n",
           "/-- every file-system / process / network / unsafe token in resource/src (comments, strings and\n"
           "`#[cfg(test)] mod test` files excluded): (file, token, occurrences) -/\n",
           "def sites : List (String × String × Nat) :=\n  [" +
           ",\n   ".join('("%s", "%s", %d)' % x for x in sites) + "]\n\n",
           "/-- calls of `read(..)` inside the body of `LocalLoader::get` -/\n",
           "def readCallsInGet : Nat := %d\n\n" % in_get,
           "end SophiaModel.Gen.LoaderSites\n"]
    return "".join(out), {"sites": sites, "read_in_get": in_get}


EXTRACTORS = {"loader_exts": ("LoaderExts.lean", extract_loader),
              "loader_sites": ("LoaderSites.lean", extract_sites)}
