"""C05/C06: the escape table of canonical N-Quads, regenerated from /repo/c14n/src/_cnq.rs.

Fail-closed: the `match c { ... }` inside `TermKind::Literal` must consist only of arms of the
shapes below, the surrounding rendering skeleton (delimiters per term kind, the xsd:string
test, the trailing space) must be textually as transcribed in lean/SophiaModel/Model/Cnq.lean.
`ExtractError`, `read`, `HEADER` are injected by tools/extract.py.
"""
import re

REL = "c14n/src/_cnq.rs"

CHAR_LIT = r"'(?:\\x([0-9a-fA-F]{2})|\\(.)|([^\\']))'"


def _char(m_hex, m_esc, m_plain):
    if m_hex is not None:
        return int(m_hex, 16)
    if m_esc is not None:
        table = {'n': 10, 'r': 13, 't': 9, '\\': 92, '"': 34, "'": 39, '0': 0}
        if m_esc not in table:
            raise ExtractError("unsupported char escape \\%s in %s" % (m_esc, REL))
        return table[m_esc]
    return ord(m_plain)


def _rust_str(body):
    """value of a Rust (non-raw) string literal body"""
    out = []
    i = 0
    while i < len(body):
        c = body[i]
        if c == '\\':
            i += 1
            e = body[i]
            table = {'n': '\n', 'r': '\r', 't': '\t', '\\': '\\', '"': '"', "'": "'", '0': '\0'}
            if e not in table:
                raise ExtractError("unsupported string escape \\%s in %s" % (e, REL))
            out.append(table[e])
        else:
            out.append(c)
        i += 1
    return "".join(out)


def _lean_chars(s):
    """a `List Char` literal (kernel-reducible, unlike `String.toList`)"""
    def one(c):
        if c == "'" or c == "\\":
            return "'\\" + c + "'"
        if ' ' <= c <= '~':
            return "'" + c + "'"
        return "Char.ofNat %d" % ord(c)
    return "[" + ", ".join(one(c) for c in s) + "]"


SKELETON = [
    # (what, regex that must match the normalised source)
    ("iri", r"TermKind::Iri=>\{buffer\.push\('<'\);buffer\.push_str\(&term\.iri\(\)\.unwrap\(\)\);buffer\.push\('>'\);\}"),
    ("literal-open", r"TermKind::Literal=>\{buffer\.push\('\"'\);forcinterm\.lexical_form\(\)\.unwrap\(\)\.chars\(\)\{matchc\{"),
    ("literal-close", r"\}\}buffer\.push\('\"'\);ifletSome\(tag\)=term\.language_tag\(\)\{buffer\.push\('@'\);buffer\.push_str\(&tag\);\}"
                      r"else\{letdatatype=term\.datatype\(\)\.unwrap\(\);if!Term::eq\(&datatype,xsd::string\)\{buffer\.push_str\(\"\^\^\"\);"
                      r"nq\(term\.datatype\(\)\.unwrap\(\),buffer\);buffer\.pop\(\);(?://[^\n]*)?\}\}\}"),
    ("bnode", r"TermKind::BlankNode=>\{buffer\.push_str\(\"_:\"\);buffer\.push_str\(&term\.bnode_id\(\)\.unwrap\(\)\);\}"),
    ("triple", r"TermKind::Triple=>\{buffer\.push_str\(\"<<\x00\"\);forsubterminterm\.triple\(\)\.unwrap\(\)\{nq\(subterm,buffer\);\}buffer\.push_str\(\">>\"\);\}"),
    ("variable", r"TermKind::Variable=>\{buffer\.push\('\?'\);buffer\.push_str\(&term\.variable\(\)\.unwrap\(\)\);\}"),
    ("trailing-space", r"\}buffer\.push\('\x00'\);\}$"),
]


def extract_cnq(repo):
    src = read(repo, REL)
    m = re.search(r"match c \{(.*?)\n\s*\}\n", src, re.S)
    if not m:
        raise ExtractError("no `match c { ... }` in %s" % REL)
    arms_src = m.group(1)
    arms = [a.strip() for a in arms_src.strip().split("\n") if a.strip()]
    fixed = []          # (code point, replacement)
    ctl_max = None
    default_seen = False
    for a in arms:
        if default_seen:
            raise ExtractError("arm after the default arm: %s" % a)
        mm = re.fullmatch(CHAR_LIT + r' => buffer\.push_str\("((?:[^"\\]|\\.)*)"\),', a)
        if mm:
            if ctl_max is not None:
                raise ExtractError("fixed arm after the range arm (order matters): %s" % a)
            fixed.append((_char(mm.group(1), mm.group(2), mm.group(3)), _rust_str(mm.group(4))))
            continue
        mm = re.fullmatch(r'c if c <= ' + CHAR_LIT + r' => buffer\.push_str\(&format!\("\\\\u\{:04X\}", c as u8\)\),', a)
        if mm:
            if ctl_max is not None:
                raise ExtractError("two range arms")
            ctl_max = _char(mm.group(1), mm.group(2), mm.group(3))
            if ctl_max > 0xFF:
                raise ExtractError("`c as u8` would truncate: range arm up to U+%04X" % ctl_max)
            continue
        if re.fullmatch(r'_ => buffer\.push\(c\),', a):
            default_seen = True
            continue
        raise ExtractError("unrecognised escape arm in %s: %s" % (REL, a))
    if not default_seen or ctl_max is None:
        raise ExtractError("escape match lacks the range arm or the default arm")
    # skeleton: strip whitespace (keeping the space inside "<< " and ' ' literals as \x00)
    body = src[src.index("pub fn nq"):]
    body = body.replace('"<< "', '"<<\x00"').replace("' '", "'\x00'")
    norm = re.sub(r"\s+", "", re.sub(r"//[^\n]*", "", body))
    norm_wo_match = norm.replace(re.sub(r"\s+", "", arms_src), "")
    for what, rx in SKELETON:
        if not re.search(rx, norm_wo_match):
            raise ExtractError("rendering skeleton of %s changed (%s): update Model/Cnq.lean and this extractor" % (REL, what))
    if not re.search(r"use sophia_api::\{\s*ns::xsd,", src):
        raise ExtractError("xsd namespace import changed in %s" % REL)
    out = [HEADER, "namespace SophiaModel.Gen\n",
           "/-- fixed arms of the escape `match` in c14n/src/_cnq.rs, in source order: (code point, replacement) -/\n",
           "def cnqEscapes : List (Nat × List Char) := [\n",
           ",\n".join("  (%d, %s)" % (cp, _lean_chars(s)) for cp, s in fixed), "]\n",
           "/-- `c if c <= '\\x%02x'` ⇒ `\\uXXXX` (4 uppercase hex digits of `c as u8`) -/\n" % ctl_max,
           "def cnqCtlMax : Nat := %d\n" % ctl_max,
           "end SophiaModel.Gen\n"]
    return "".join(out), {"fixed_arms": len(fixed), "ctl_max": ctl_max}


EXTRACTORS = {"cnq_escapes": ("CnqEscapes.lean", extract_cnq)}
