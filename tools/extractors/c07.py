"""C07 extractor: isomorphism/src/iso_term.rs -> lean/SophiaModel/Gen/IsoVariant.lean (fail-closed).

`IsoTerm`'s `PartialEq::eq`, `PartialOrd::partial_cmp` and `Ord::cmp` exist in two understood shapes:

  A (snapshot): "both blank nodes -> equal, otherwise `Term::eq` / `Term::cmp` of the wrapped terms"
     -- blank nodes are interchangeable at top level only;
  B (notes/fixes/C07-nested-bnodes.diff): the three methods delegate to `iso_eq` / `iso_cmp`, which
     recurse into quoted triples -- blank nodes are interchangeable at any depth.

The Lean model `SophiaModel.Iso` takes the variant as a parameter `deep : Bool`; the driver runs it with
the value generated here, the theorems are stated for every value (and `iso_relabel` for `deep = true`,
`iso_relabel_partial` + refutation witness for `deep = false`).  Anything else (the three methods
disagreeing with each other, a body that is neither shape) fails the extraction.  Bodies are compared modulo
white space, comments and the names of the two `let` locals of iso_eq / iso_cmp.
`read`, `ExtractError`, `HEADER` are injected by tools/extract.py.
"""
import re

REL = "isomorphism/src/iso_term.rs"


def _body(text, header_re, what):
    m = re.search(header_re, text)
    if not m:
        raise ExtractError("%s: %s not found" % (REL, what))  # noqa: F821
    i = text.index("{", m.end() - 1)
    depth = 0
    for j in range(i, len(text)):
        if text[j] == "{":
            depth += 1
        elif text[j] == "}":
            depth -= 1
            if depth == 0:
                return re.sub(r"\s+", "", _alpha(re.sub(r"//[^\n]*", "", text[i + 1:j])))
    raise ExtractError("%s: unbalanced braces in %s" % (REL, what))  # noqa: F821


def _alpha(body):
    """the names of the two locals bound to `t1.triple().unwrap()` / `t2.triple().unwrap()` are immaterial:
    rename them to spo1 / spo2 (a pure renaming must not make the extraction fail)"""
    for arg, canon in (("t1", "spo1"), ("t2", "spo2")):
        m = re.search(r"\blet\s+([A-Za-z_]\w*)\s*=\s*%s\s*\.\s*triple\(\)\s*\.\s*unwrap\(\)" % arg, body)
        if m and m.group(1) != canon and not re.search(r"\b%s\b" % canon, body):
            body = re.sub(r"\b%s\b" % re.escape(m.group(1)), canon, body)
    return body


A = {
    "eq": "useTermKind::BlankNode;ifself.kind()==BlankNode&&other.kind()==BlankNode{true}"
          "else{Term::eq(&self.0,other.0.borrow_term())}",
    "partial_cmp": "useTermKind::BlankNode;ifself.kind()==BlankNode&&other.kind()==BlankNode{Some(Ordering::Equal)}"
                   "else{Some(Term::cmp(&self.0,other.0.borrow_term()))}",
    "cmp": "useTermKind::BlankNode;ifself.kind()==BlankNode&&other.kind()==BlankNode{Ordering::Equal}"
           "else{Term::cmp(&self.0,other.0.borrow_term())}",
}
B = {
    "eq": "iso_eq(self.0.borrow_term(),other.0.borrow_term())",
    "partial_cmp": "Some(iso_cmp(self.0.borrow_term(),other.0.borrow_term()))",
    "cmp": "iso_cmp(self.0.borrow_term(),other.0.borrow_term())",
    "iso_eq": "useTermKind::{BlankNode,Triple};match(t1.kind(),t2.kind()){(BlankNode,BlankNode)=>true,"
              "(Triple,Triple)=>{letspo1=t1.triple().unwrap();letspo2=t2.triple().unwrap();"
              "iso_eq(spo1[0],spo2[0])&&iso_eq(spo1[1],spo2[1])&&iso_eq(spo1[2],spo2[2])}"
              "_=>Term::eq(&t1,t2),}",
    "iso_cmp": "useTermKind::{BlankNode,Triple};match(t1.kind(),t2.kind()){(BlankNode,BlankNode)=>Ordering::Equal,"
               "(Triple,Triple)=>{letspo1=t1.triple().unwrap();letspo2=t2.triple().unwrap();"
               "iso_cmp(spo1[0],spo2[0]).then_with(||iso_cmp(spo1[1],spo2[1])).then_with(||iso_cmp(spo1[2],spo2[2]))}"
               "_=>Term::cmp(&t1,t2),}",
}


def extract_iso_variant(repo):
    text = read(repo, REL)  # noqa: F821
    got = {
        "eq": _body(text, r"fn\s+eq\(&self,\s*other:\s*&IsoTerm<T1>\)\s*->\s*bool\s*\{", "IsoTerm::eq"),
        "partial_cmp": _body(text, r"fn\s+partial_cmp\(&self,\s*other:\s*&IsoTerm<T1>\)\s*->\s*Option<Ordering>\s*\{",
                             "IsoTerm::partial_cmp"),
        "cmp": _body(text, r"fn\s+cmp\(&self,\s*other:\s*&Self\)\s*->\s*Ordering\s*\{", "IsoTerm::cmp"),
    }
    if all(got[k] == A[k] for k in got):
        deep = False
    elif all(got[k] == B[k] for k in got):
        for k, hdr in (("iso_eq", r"fn\s+iso_eq<T1:\s*Term,\s*T2:\s*Term>\(t1:\s*T1,\s*t2:\s*T2\)\s*->\s*bool\s*\{"),
                       ("iso_cmp", r"fn\s+iso_cmp<T1:\s*Term,\s*T2:\s*Term>\(t1:\s*T1,\s*t2:\s*T2\)\s*->\s*Ordering\s*\{")):
            if _body(text, hdr, k) != B[k]:
                raise ExtractError("%s: body of %s is not the understood recursive shape" % (REL, k))  # noqa: F821
        deep = True
    else:
        bad = [k for k in got if got[k] not in (A[k], B[k])] or ["eq/partial_cmp/cmp are of different shapes"]
        raise ExtractError("%s: IsoTerm %s: neither the snapshot shape nor the recursive one" % (REL, ", ".join(bad)))  # noqa: F821
    lean = (HEADER  # noqa: F821
            + "namespace SophiaModel.Gen.IsoVariant\n\n"
            + "/-- do `IsoTerm::eq` / `partial_cmp` / `cmp` of isomorphism/src/iso_term.rs treat blank nodes as\n"
            + "interchangeable also *inside quoted triples* (notes/fixes/C07-nested-bnodes.diff)?  `false` = top level only. -/\n"
            + "def deep : Bool := %s\n\n" % ("true" if deep else "false")
            + "end SophiaModel.Gen.IsoVariant\n")
    return lean, {"deep": deep}


EXTRACTORS = {"iso_variant": ("IsoVariant.lean", extract_iso_variant)}
