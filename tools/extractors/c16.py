"""C16 extractor: recursion structure of the anchored files -> lean/SophiaModel/Gen/RecursionSites.lean

For every anchored *site* (a function of /repo that the property names, or that recurses today) the
function body is located in the SOURCE TEXT of /repo's working tree and classified:

  loop                 the function does not call itself
  recursiveOnNesting   every self call is one of the transcribed call expressions that descend into
                       a quoted triple / a nested collection / the rest of a *query* (pattern list,
                       ORDER BY criteria) or halve a sorted slice — listed per site in `nesting`
  selfRecursiveOnData  the function has any other self call (`return self.next()`, the tail
                       expression `self.next()`, `quoted_string(w, &txt[cut + 1..])`,
                       `self.graph_rec(var, graph_names, inner, binding)`, `self.populate_list(
                       list_items, *inext)`, `self.mark_list_node(iparent)`, or anything this
                       extractor has never seen): one frame per element of the data

Fail closed (ExtractError => the check reports a broken tie):
  * a file or site function cannot be found, or its body cannot be delimited;
  * some *other* function of an anchored file calls itself (a recursion nobody classified);
  * the call graph of an anchored file has a cycle through several functions that is not one of the
    transcribed mutual recursions (`cycles`), or such a cycle is entered through a call expression
    that is not transcribed.

  * any `fn next` / `fn next_back` of ANY source file of the workspace crates in `SCAN_CRATES` calls
    itself (`self.next()`, `Iterator::next(self)`, `<Self as Iterator>::next(self)`, `Self::next(self)`,
    `(*self).next()`, `self.by_ref().next()`) and is not one of the classified sites: the property's
    first mechanism (an iterator that skips an element by calling itself), wherever it is written.

Also generated: `prettyBnodeNestingCap` - the constant that caps the nesting of `[ ... ]` blank node
property lists in the prettifier (`none` while _pretty.rs has no such cap).

`ExtractError`, `read`, `HEADER` are injected by tools/extract.py.
"""
import re

# ---------------------------------------------------------------------------------------- lexing


def _sanitize(text, rel):
    """same length as `text`; comments, string / char / byte literals blanked (quotes kept)"""
    out = list(text)
    i, n = 0, len(text)

    def blank(a, b):
        for k in range(a, b):
            if out[k] != "\n":
                out[k] = " "

    while i < n:
        c = text[i]
        if text.startswith("//", i):
            j = text.find("\n", i)
            j = n if j < 0 else j
            blank(i, j)
            i = j
        elif text.startswith("/*", i):
            depth, j = 1, i + 2
            while j < n and depth:
                if text.startswith("/*", j):
                    depth += 1
                    j += 2
                elif text.startswith("*/", j):
                    depth -= 1
                    j += 2
                else:
                    j += 1
            blank(i, j)
            i = j
        elif c == "r" and re.match(r'r#*"', text[i:]) and (i == 0 or not (text[i - 1].isalnum() or text[i - 1] == "_")):
            m = re.match(r'r(#*)"', text[i:])
            close = '"' + m.group(1)
            j = text.find(close, i + len(m.group(0)))
            if j < 0:
                raise ExtractError("%s: unterminated raw string" % rel)  # noqa: F821
            blank(i + len(m.group(0)), j)
            i = j + len(close)
        elif c == '"':
            j = i + 1
            while j < n and text[j] != '"':
                j += 2 if text[j] == "\\" else 1
            if j >= n:
                raise ExtractError("%s: unterminated string" % rel)  # noqa: F821
            blank(i + 1, j)
            i = j + 1
        elif c == "'":
            m = re.match(r"'(?:\\x[0-9a-fA-F]{2}|\\u\{[0-9a-fA-F]+\}|\\.|[^\\'])'", text[i:])
            if m:
                blank(i + 1, i + len(m.group(0)) - 1)
                i += len(m.group(0))
            else:
                i += 1  # lifetime
        else:
            i += 1
    return "".join(out)


def _match_close(s, i, open_c, close_c, rel):
    depth = 0
    for j in range(i, len(s)):
        if s[j] == open_c:
            depth += 1
        elif s[j] == close_c:
            depth -= 1
            if depth == 0:
                return j
    raise ExtractError("%s: unbalanced %s%s" % (rel, open_c, close_c))  # noqa: F821


FN_RE = re.compile(r"\bfn\s+(\w+)\s*(?:<|\()")
IMPL_RE = re.compile(r"\bimpl\b[^{;]*?\bfor\s+(\w+)|\bimpl\b(?:\s*<[^{;]*?>)?\s+(\w+)|\btrait\s+(\w+)")


def _drop_cfg_test(s, rel):
    """blank every item carrying `#[cfg(test)]` (test modules and test-only helpers are not shipped code)"""
    out = list(s)
    for m in re.finditer(r"#\[cfg\(test\)\]", s):
        b = s.find("{", m.end())
        semi = s.find(";", m.end())
        if b < 0 or (0 <= semi < b):
            continue
        e = _match_close(s, b, "{", "}", rel)
        for k in range(m.start(), e + 1):
            if out[k] != "\n":
                out[k] = " "
    return "".join(out)


def _functions(rel, text):
    """[(qualified name, body start, body end, owner)] for every fn with a body"""
    s = _drop_cfg_test(_sanitize(text, rel), rel)
    # owners: impl / trait blocks
    blocks = []
    for m in IMPL_RE.finditer(s):
        name = m.group(1) or m.group(2) or m.group(3)
        b = s.find("{", m.end())
        semi = s.find(";", m.end())
        if b < 0 or (0 <= semi < b):
            continue
        e = _match_close(s, b, "{", "}", rel)
        blocks.append((b, e, name))
    fns = []
    for m in FN_RE.finditer(s):
        # signature ends at the first `{` or `;` at parenthesis depth 0
        j = m.end() - 1
        depth = 0
        body = None
        while j < len(s):
            ch = s[j]
            if ch in "(<[":
                depth += 1 if ch != "<" else 0
            elif ch in ")]":
                depth -= 1
            elif ch == ";" and depth == 0:
                break
            elif ch == "{" and depth == 0:
                body = j
                break
            j += 1
        if body is None:
            continue
        end = _match_close(s, body, "{", "}", rel)
        owner = None
        for b, e, name in blocks:
            if b < m.start() < e and (owner is None or b > owner[0]):
                owner = (b, name)
        fns.append({"name": m.group(1), "owner": owner[1] if owner else None, "start": body, "end": end})
    return s, fns


def _calls(s, fn, names):
    """[(callee simple name, normalized call expression)] for calls inside fn to functions of this file.
    Counted: `self.f(`, `Self::f(`, `Term::f(` (trait-qualified), bare `f(`.  Not counted: method
    calls on other receivers (`self.gspo.next()`, `w.write_all(..)`), other paths (`Ord::cmp(`)."""
    body = s[fn["start"]:fn["end"] + 1]
    # nested fn items belong to themselves
    res = []
    for m in re.finditer(r"(?<![\w.:])(self\s*\.\s*|Self\s*::\s*|Term\s*::\s*)?(\w+)\s*\(", body):
        name = m.group(2)
        if name not in names:
            continue
        if body[max(0, m.start() - 3):m.start()].rstrip().endswith("fn"):
            continue  # the nested fn's own header
        if re.search(r"\bfn\s*$", body[:m.start(2)]):
            continue
        par = body.index("(", m.end() - 1)
        close = _match_close(body, par, "(", ")", "call")
        expr = re.sub(r"\s+", " ", body[m.start():close + 1]).strip()
        expr = re.sub(r"\s+\.(?=\w)", ".", expr)
        expr = re.sub(r"\s*,\s*\)", ")", expr).replace("( ", "(").replace(" )", ")")
        res.append((name, expr, fn["start"] + m.start()))
    res += _receiver_self_calls(body, fn, names)
    return res


# calls whose receiver is `self` without the text `self.f(`:
#   Iterator::next(self) / Self::next(self) / <Self as Iterator>::next(&mut *self) / Owner::f(self, ..)
#   (*self).f(..) / (&mut *self).f(..) / self.by_ref().f(..)
_UFCS_RE = re.compile(
    r"(?<![\w:])(<[^<>;{}]*>|Self|Iterator|DoubleEndedIterator|[A-Z]\w*)\s*::\s*(\w+)\s*\(\s*"
    r"(?:&\s*(?:mut\s+)?)?(?:\*\s*)?self\s*(?=[,)])")
_DEREF_RE = re.compile(r"\(\s*(?:&\s*(?:mut\s+)?)?\*\s*self\s*\)\s*\.\s*(\w+)\s*\(")
_BYREF_RE = re.compile(r"\bself\s*\.\s*by_ref\s*\(\s*\)\s*\.\s*(\w+)\s*\(")


def _receiver_self_calls(body, fn, names):
    res = []
    owner = fn.get("owner")
    for m in _UFCS_RE.finditer(body):
        qual, name = m.group(1), m.group(2)
        if name not in names:
            continue
        # `Term::f(` is already counted by the main pattern; other type names only if it is the owner
        if qual == "Term":
            continue
        if not (qual.startswith("<") or qual in ("Self", "Iterator", "DoubleEndedIterator") or qual == owner):
            continue
        par = body.index("(", m.start(2))
        close = _match_close(body, par, "(", ")", "call")
        expr = re.sub(r"\s+", " ", body[m.start():close + 1]).strip()
        res.append((name, expr, fn["start"] + m.start()))
    # `(*self).f()` in `impl Trait for &T` is a delegation to T, not a self call: these two forms are
    # only read in iterator methods, where `self` is `&mut Self`
    for rx in ((_DEREF_RE, _BYREF_RE) if fn["name"] in ("next", "next_back") else ()):
        for m in rx.finditer(body):
            name = m.group(1)
            if name not in names:
                continue
            par = body.index("(", m.start(1))
            close = _match_close(body, par, "(", ")", "call")
            expr = re.sub(r"\s+", " ", body[m.start():close + 1]).strip()
            res.append((name, expr, fn["start"] + m.start()))
    return res


# ---------------------------------------------------------------------------------------- sites

# (lean name, file, fn name, owner or None, whitelisted nesting self calls)
SITES = [
    ("GspoMatchingIterator::next", "inmem/src/dataset/_iter.rs", "next", "GspoMatchingIterator", []),
    ("BcdMatchingIterator::next", "inmem/src/dataset/_iter.rs", "next", "BcdMatchingIterator", []),
    ("CdMatchingIterator::next", "inmem/src/dataset/_iter.rs", "next", "CdMatchingIterator", []),
    ("SpoMatchingIterator::next", "inmem/src/graph/_iter.rs", "next", "SpoMatchingIterator", []),
    ("BcMatchingIterator::next", "inmem/src/graph/_iter.rs", "next", "BcMatchingIterator", []),
    ("nt::quoted_string", "turtle/src/serializer/nt.rs", "quoted_string", None, []),
    ("exec::graph_rec", "sparql/src/exec.rs", "graph_rec", "ExecState", []),
    # recursion over the ORDER BY criteria of the *query*
    ("exec::cmp_bindings_with", "sparql/src/exec.rs", "cmp_bindings_with", "ExecState",
     ["cmp_bindings_with(b1, b2, rest, config, graph_matcher)"]),
    # recursion over the sub-expressions of a *query* expression (EXISTS check before evaluation)
    ("exec::check_exists", "sparql/src/exec.rs", "check_exists", "ExecState",
     ["self.check_exists(e)", "self.check_exists(a)", "self.check_exists(b)"]),
    # recursion over the triple patterns of the *query* (one level per pattern, any number of rows)
    ("bgp::bgp_rec", "sparql/src/bgp.rs", "bgp_rec", None,
     ["bgp_rec(state, remaining, bs, b, graph_matcher)"]),
    ("engine::populate_list", "jsonld/src/serializer/engine.rs", "populate_list", "Engine", []),
    ("engine::mark_list_node", "jsonld/src/serializer/engine.rs", "mark_list_node", "Engine", []),
    # a root node renders the nodes of its named graph: depth <= 2
    ("engine::jsonify", "jsonld/src/serializer/engine.rs", "jsonify", "Engine",
     ["self.jsonify(*inode2, &self.node[*inode2], false)"]),
    # binary search: each call halves the slice
    ("pretty::find_subject", "turtle/src/serializer/_pretty.rs", "find_subject", None,
     ["find_subject(s, &swt[m + 1..])", "find_subject(s, &swt[..m])"]),
    # quoted triple: one level per nesting
    ("pretty::write_term", "turtle/src/serializer/_pretty.rs", "write_term", "Prettifier", ["self.write_term(t)"]),
    # skips consecutive duplicates (today: a `loop`)
    ("pretty::dedup_next", "turtle/src/serializer/_pretty.rs", "next", "DedupIterator", []),
    ("cnq::nq", "c14n/src/_cnq.rs", "nq", None, ["nq(term.datatype().unwrap(), buffer)", "nq(subterm, buffer)"]),
    ("term::cmp", "api/src/term.rs", "cmp", "Term",
     ["Term::cmp(&spo1[0], spo2[0])", "Term::cmp(&spo1[1], spo2[1])", "Term::cmp(&spo1[2], spo2[2])"]),
]

# mutual recursions (through several functions) that exist today, all on nesting:
# (lean name, file, member functions, transcribed call expressions between members)
CYCLES = [
    # quoted triple <-> its three terms
    ("nt::write_term~write_triple", "turtle/src/serializer/nt.rs", {"write_term", "write_triple"},
     ["write_term(w, t.s())", "write_term(w, t.p())", "write_term(w, t.o())",
      "write_triple(w, t.to_triple().unwrap())"]),
    # SPARQL algebra: one level per operator of the *query*
    ("exec::select~operators", "sparql/src/exec.rs",
     {"select", "filter", "union", "graph", "graph_rec", "extend", "order_by", "project", "distinct", "slice",
      "check_exists"},
     [# the EXISTS patterns of an expression are evaluated once, before the rows are filtered / extended / sorted
      "self.check_exists(expression)", "self.check_exists(e)", "self.select(pattern, &[], None)",
      "self.filter(expr, inner, graph_matcher, binding)", "self.union(left, right, graph_matcher, binding)",
      "self.graph(name, inner, binding)", "self.extend(inner, variable, expression, graph_matcher, binding)",
      "self.order_by(inner, expression, graph_matcher, binding)",
      "self.project(inner, variables, graph_matcher, binding)", "self.distinct(inner, graph_matcher, binding)",
      "self.slice(inner, *start, *length, graph_matcher, binding)",
      "self.select(inner, graph_matcher, binding)", "self.select(left, graph_matcher, binding)",
      "self.select(right, graph_matcher, binding)", "self.select(inner, &graph_matcher, binding)",
      "self.select(inner, &[], binding)", "self.select(inner, &graph_matcher, Some(&b))",
      "self.graph_rec(var.as_str(), graph_names.into_iter(), inner, binding)"]),
    # a list item that is itself a list
    ("engine::populate_list~convert_rdf_object", "jsonld/src/serializer/engine.rs",
     {"populate_list", "convert_rdf_object"},
     ["self.convert_rdf_object(&map[RDF_FIRST][0])", "self.populate_list(&mut list_items, *inode)"]),
    # blank-node property lists, collections and annotations nest
    ("pretty::write_term~write_properties", "turtle/src/serializer/_pretty.rs",
     {"write_term", "write_node", "write_bnode", "write_properties", "write_objects", "write_object"},
     ["self.write_bnode(term)", "self.write_term(item)", "self.write_properties(s)",
      # `write_node` (the `()` spelling of rdf:nil in node positions) forwards to write_term
      "self.write_node(item)", "self.write_node(object)", "self.write_term(term)",
      "self.write_objects(subject, predicate.unwrap(), &types)",
      "self.write_object(subject, predicate.unwrap(), t.o())", "self.write_object(subject, predicate, objects[0])",
      "self.write_object(subject, predicate, obj)", "self.write_term(object)", "self.write_term(p)"]),
]

# recursion through trait dispatch (no textual self call): checked as text
TRAIT_NESTING = [
    ("term::eq", "api/src/term.rs", "eq", "Term",
     "TermKind::Triple => self.triple().unwrap().eq(other.triple().unwrap()),"),
    ("term::hash", "api/src/term.rs", "hash", "Term",
     "TermKind::Triple => { let t = self.triple().unwrap(); t.s().hash(state); t.p().hash(state); t.o().hash(state); }"),
]

# Call expressions between the members of a mutual recursion that pass a STRICT sub-structure of what
# the caller was given (a component of the quoted triple, an item of the collection, an arc of the node,
# the inner pattern of an operator, a sub-expression, the EXISTS pattern): the *descending* edges of
# the generated call graph.  Every other transcribed call between members hands on the same node
# (`write_term -> write_bnode(term)`, `select -> self.filter(..)`): a *level* edge.  Every self call
# whitelisted in SITES is descending.  Lean decides on the generated graph that the level edges
# alone have no cycle (`call_graph_well_ranked`), i.e. every recursion passes a descending edge.
DESCENDING = {
    "turtle/src/serializer/nt.rs": {"write_term(w, t.s())", "write_term(w, t.p())", "write_term(w, t.o())"},
    "sparql/src/exec.rs": {
        "self.select(inner, graph_matcher, binding)", "self.select(left, graph_matcher, binding)",
        "self.select(right, graph_matcher, binding)", "self.select(inner, &graph_matcher, binding)",
        "self.select(inner, &[], binding)", "self.select(inner, &graph_matcher, Some(&b))",
        "self.select(pattern, &[], None)"},
    "jsonld/src/serializer/engine.rs": {"self.convert_rdf_object(&map[RDF_FIRST][0])"},
    "turtle/src/serializer/_pretty.rs": {
        "self.write_node(item)", "self.write_term(p)", "self.write_properties(s)@write_object",
        "self.write_object(subject, predicate.unwrap(), t.o())", "self.write_object(subject, predicate, objects[0])",
        "self.write_object(subject, predicate, obj)"},
}

FILES = sorted({s[1] for s in SITES} | {c[1] for c in CYCLES} | {t[1] for t in TRAIT_NESTING})


def _sccs(nodes, edges):
    """Tarjan; returns list of sets"""
    index, low, on, stack, out = {}, {}, set(), [], []
    counter = [0]

    def visit(v):
        index[v] = low[v] = counter[0]
        counter[0] += 1
        stack.append(v)
        on.add(v)
        for w in edges.get(v, ()):
            if w not in index:
                visit(w)
                low[v] = min(low[v], low[w])
            elif w in on:
                low[v] = min(low[v], index[w])
        if low[v] == index[v]:
            comp = set()
            while True:
                w = stack.pop()
                on.discard(w)
                comp.add(w)
                if w == v:
                    break
            out.append(comp)

    for v in nodes:
        if v not in index:
            visit(v)
    return out


# crates whose every `fn next` is scanned for a self call
SCAN_CRATES = ["api", "c14n", "inmem", "isomorphism", "jsonld", "resource", "rio", "sparql", "term", "turtle", "xml"]
SCAN_FNS = ("next", "next_back")


def _scan_iterators(repo, skip):
    """fail closed on an unclassified self-recursive `fn next` anywhere in the workspace crates"""
    import glob
    import os
    scanned = 0
    for crate in SCAN_CRATES:
        for path in sorted(glob.glob(os.path.join(repo, crate, "src", "**", "*.rs"), recursive=True)):
            rel = os.path.relpath(path, repo)
            if rel in skip:
                continue
            text = read(repo, rel)  # noqa: F821
            if not re.search(r"\bfn\s+(?:next|next_back)\b", text):
                continue
            s, fns = _functions(rel, text)
            for f in fns:
                if f["name"] not in SCAN_FNS:
                    continue
                scanned += 1
                inner = [g for g in fns if g is not f and f["start"] < g["start"] and g["end"] < f["end"]]
                for callee, expr, pos in _calls(s, f, {f["name"]}):
                    if any(g["start"] <= pos <= g["end"] for g in inner):
                        continue
                    raise ExtractError(  # noqa: F821
                        "%s: iterator method %s%s calls itself (%s): one stack frame per element skipped" % (
                            rel, (f["owner"] + "::") if f["owner"] else "", f["name"], expr))
    return scanned


def _pretty_cap(repo):
    """`const MAX_BNODE_NESTING: usize = N;` that the code of _pretty.rs refers to -> N, else None.
    HOW the constant bounds the nesting is not read off the text (a counter, the indentation, ...): that it
    does, under every serializer configuration, is what the chain sites of the harness observe."""
    text = read(repo, "turtle/src/serializer/_pretty.rs")  # noqa: F821
    s = _sanitize(text, "turtle/src/serializer/_pretty.rs")
    m = re.search(r"\bconst\s+MAX_BNODE_NESTING\s*:\s*usize\s*=\s*(\d[\d_]*)\s*;", s)
    if not m:
        return None
    uses = [u for u in re.finditer(r"\bMAX_BNODE_NESTING\b", s) if not (m.start() <= u.start() < m.end())]
    if not uses:
        return None
    return int(m.group(1).replace("_", ""))


def extract_sites(repo):
    rows = []      # (lean name, class)
    detail = {}
    per_file = {}
    scanned = _scan_iterators(repo, set(FILES))
    cap = _pretty_cap(repo)
    g_nodes = []    # "file::fn" (name level: that is how callees are resolved)
    g_edges = set()  # (caller idx, callee idx, descending)
    def node(rel, name):
        k = "%s::%s" % (rel, name)
        if k not in g_nodes:
            g_nodes.append(k)
        return g_nodes.index(k)
    for rel in FILES:
        text = read(repo, rel)  # noqa: F821
        s, fns = _functions(rel, text)
        per_file[rel] = (s, fns)
    for rel in FILES:
        s, fns = per_file[rel]
        names = {f["name"] for f in fns}
        # innermost-function attribution: a call belongs to the innermost fn containing it
        def owner_fn(pos):
            best = None
            for f in fns:
                if f["start"] <= pos <= f["end"] and (best is None or f["start"] > best["start"]):
                    best = f
            return best
        calls = {}   # id(fn) -> [(callee name, expr)]
        for f in fns:
            for callee, expr, pos in _calls(s, f, names):
                if owner_fn(pos) is not f:
                    continue
                calls.setdefault(id(f), []).append((callee, expr))
        declared = {(fn, owner): (lean, wl) for lean, r, fn, owner, wl in SITES if r == rel}
        # ---- the call graph of this file (every function with a body, every resolved call)
        desc_here = DESCENDING.get(rel, set())
        cyc_wl = set()
        for c in CYCLES:
            if c[1] == rel:
                cyc_wl |= set(c[3])
        for f in fns:
            a = node(rel, f["name"])
            for callee, expr in calls.get(id(f), []):
                b = node(rel, callee)
                if callee == f["name"]:
                    wl0 = declared.get((f["name"], f["owner"]), (None, []))[1]
                    down = expr in wl0
                else:
                    down = expr in cyc_wl and (expr in desc_here or (expr + "@" + f["name"]) in desc_here)
                g_edges.add((a, b, down))
        for lean, r, fn, owner, arm in TRAIT_NESTING:
            if r == rel:
                # recursion through trait dispatch on the components of a quoted triple: no textual edge
                g_edges.add((node(rel, fn), node(rel, fn), True))
        # ---- direct self recursion
        seen_sites = set()
        for f in fns:
            selfcalls = [e for c, e in calls.get(id(f), []) if c == f["name"] and _same_fn(f, c, fns)]
            key = (f["name"], f["owner"])
            if key in declared:
                lean, wl = declared[key]
                seen_sites.add(key)
                other = [e for e in selfcalls if e not in wl]
                if not selfcalls:
                    cls = "loop"
                elif other:
                    cls = "selfRecursiveOnData"
                else:
                    cls = "recursiveOnNesting"
                rows.append((lean, cls))
                detail[lean] = {"class": cls, "self_calls": selfcalls}
            elif selfcalls:
                raise ExtractError(  # noqa: F821
                    "%s: function %s%s calls itself (%s) and is not a classified recursion site" % (
                        rel, (f["owner"] + "::") if f["owner"] else "", f["name"], "; ".join(selfcalls)))
        for key, (lean, _) in declared.items():
            if key not in seen_sites:
                raise ExtractError("%s: site %s (fn %s of %s) not found" % (rel, lean, key[0], key[1]))  # noqa: F821
        # ---- mutual recursion (name-level graph without self loops)
        edges = {}
        exprs = {}
        for f in fns:
            for c, e in calls.get(id(f), []):
                if c != f["name"]:
                    edges.setdefault(f["name"], set()).add(c)
                    exprs.setdefault((f["name"], c), set()).add(e)
        comps = [c for c in _sccs(sorted(names), edges) if len(c) > 1]
        cyc_here = [c for c in CYCLES if c[1] == rel]
        matched = set()
        for comp in comps:
            home = [c for c in cyc_here if comp <= c[2]]
            if not home:
                raise ExtractError("%s: unclassified mutual recursion through %s" % (rel, ", ".join(sorted(comp))))  # noqa: F821
            lean, _, members, wl = home[0]
            matched.add(lean)
            for a in comp:
                for b in comp:
                    for e in exprs.get((a, b), ()):
                        if e not in wl:
                            raise ExtractError(  # noqa: F821
                                "%s: recursion %s is entered through an untranscribed call `%s` (in %s)" % (
                                    rel, lean, e, a))
        for lean, _, members, wl in cyc_here:
            cls = "recursiveOnNesting" if lean in matched else "loop"
            rows.append((lean, cls))
            detail[lean] = {"class": cls}
        # ---- trait-dispatched nesting
        for lean, r, fn, owner, arm in TRAIT_NESTING:
            if r != rel:
                continue
            cand = [f for f in fns if f["name"] == fn and f["owner"] == owner]
            if not cand:
                raise ExtractError("%s: site %s not found" % (rel, lean))  # noqa: F821
            # the *default* method of the trait is the first one
            f = cand[0]
            body = re.sub(r"\s+", " ", s[f["start"]:f["end"] + 1])
            if re.sub(r"\s+", " ", arm) not in body:
                raise ExtractError("%s: %s: the quoted-triple arm is no longer `%s`" % (rel, lean, arm))  # noqa: F821
            rows.append((lean, "recursiveOnNesting"))
            detail[lean] = {"class": "recursiveOnNesting"}
    # a rank that decreases along every non-descending edge (longest path); all 0 if they have a cycle
    level = {}
    for a, b, down in g_edges:
        if not down:
            level.setdefault(a, set()).add(b)
    rank = {}
    cyclic = [False]
    def rk(v, stack):
        if v in rank:
            return rank[v]
        if v in stack:
            cyclic[0] = True
            return 0
        stack.add(v)
        r = 0
        for w in level.get(v, ()):
            r = max(r, rk(w, stack) + 1)
        stack.discard(v)
        rank[v] = r
        return r
    import sys
    sys.setrecursionlimit(10000)
    for v in range(len(g_nodes)):
        rk(v, set())
    ranks = [0 if cyclic[0] else rank.get(v, 0) for v in range(len(g_nodes))]
    edges_sorted = sorted(g_edges)
    order = {lean: i for i, lean in enumerate(
        [x[0] for x in SITES] + [x[0] for x in CYCLES] + [x[0] for x in TRAIT_NESTING])}
    rows.sort(key=lambda r: order[r[0]])
    out = [HEADER,  # noqa: F821
           "namespace SophiaModel.Gen.RecursionSites\n\n",
           "/-- how a function of /repo recurses, read off its source text by tools/extractors/c16.py -/\n",
           "inductive SiteClass where\n",
           "  /-- no self call -/\n  | loop\n",
           "  /-- self calls only into a quoted triple / nested collection / the rest of the query / half a slice -/\n"
           "  | recursiveOnNesting\n",
           "  /-- a self call on the remainder of the data -/\n  | selfRecursiveOnData\n",
           "  deriving DecidableEq, Repr, Inhabited\n\n",
           "/-- (function of /repo, class), in the order of tools/extractors/c16.py -/\n",
           "def sites : List (String × SiteClass) :=\n  [" +
           ",\n   ".join('("%s", .%s)' % r for r in rows) + "]\n\n",
           "/-- `MAX_BNODE_NESTING` of turtle/src/serializer/_pretty.rs (the prettifier labels a blank node\n"
           "instead of nesting its `[ ... ]` deeper than this); `none`: the nesting is not capped -/\n",
           "def prettyBnodeNestingCap : Option Nat := %s\n\n" % ("none" if cap is None else "some %d" % cap),
           "/-- every function with a body of the anchored files (name level, `file::fn`) -/\n",
           "def functions : List String :=\n  [" + ",\n   ".join('"%s"' % n for n in g_nodes) + "]\n\n",
           "/-- every call between functions of one anchored file: (caller, callee, descending) - indexes into\n"
           "`functions`; descending = the call expression is transcribed as passing a strict sub-structure\n"
           "(tools/extractors/c16.py SITES whitelists, DESCENDING) -/\n",
           "def callEdges : List (Nat × Nat × Bool) :=\n  [" +
           ",\n   ".join("(%d, %d, %s)" % (a, b, "true" if d else "false") for a, b, d in edges_sorted) + "]\n\n",
           "/-- a hint (checked in Lean, not trusted): longest path along non-descending edges -/\n",
           "def rankHint : List Nat :=\n  [" + ", ".join(str(r) for r in ranks) + "]\n\n",
           "end SophiaModel.Gen.RecursionSites\n"]
    return "".join(out), {"sites": detail, "iterator_methods_scanned": scanned, "pretty_bnode_nesting_cap": cap,
                          "call_graph": {"functions": len(g_nodes), "edges": len(edges_sorted),
                                         "descending": sum(1 for e in edges_sorted if e[2]),
                                         "level_edges_cyclic": cyclic[0], "max_rank": max(ranks or [0])}}


def _same_fn(f, callee_name, fns):
    """`self.next()` inside `impl Iterator for X` is X::next; a bare/self call to the fn's own name"""
    return True


EXTRACTORS = {"recursion_sites": ("RecursionSites.lean", extract_sites)}
