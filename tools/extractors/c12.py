"""C12: the one branch switch of jsonld/src/serializer/engine.rs that the Lean model
(lean/SophiaModel/Model/JsonLd.lean, `markListNode`) follows.

  uniqueParentGet   `mark_list_node` reads the parent with `&self.unique_parent[s_id]` (shipped text: `HashMap`
                    indexing, panics on an absent key -> false) or with `self.unique_parent.get(s_id)` and a
                    `Some(Some(..))` pattern (text of notes/fixes/C12-unreferenced-list-head.diff: an absent
                    key means "no unique parent" -> true)
Anything else fails closed.  `ExtractError`, `read`, `HEADER` are injected by tools/extract.py.
"""
import re

REL = "jsonld/src/serializer/engine.rs"


def _gen(repo):
    text = read(repo, REL)
    m = re.search(r"\n    fn mark_list_node\b", text)
    if not m:
        raise ExtractError("%s: fn mark_list_node not found" % REL)
    end = text.find("\n    }\n", m.end())
    if end < 0:
        raise ExtractError("%s: end of fn mark_list_node not found" % REL)
    body = re.sub(r"\s+", " ", re.sub(r"//[^\n]*", "", text[m.start():end]))
    shipped = "if let Some((iparent, pp)) = &self.unique_parent[s_id] {" in body
    fixed = "if let Some(Some((iparent, pp))) = self.unique_parent.get(s_id) {" in body
    uses = len(re.findall(r"unique_parent", body))
    if shipped and not fixed and uses == 1:
        flag = False
    elif fixed and not shipped and uses == 1:
        flag = True
    else:
        raise ExtractError("%s: the unique_parent lookup of mark_list_node is neither the shipped nor the fixed text" % REL)
    out = [HEADER, "namespace SophiaModel.Gen.JsonLdFlags\n",
           "/-- `mark_list_node` looks the parent up with `.get(s_id)` (absent key = no unique parent) instead of\n"
           "`self.unique_parent[s_id]` (absent key = panic) -/\n",
           "def uniqueParentGet : Bool := %s\n" % ("true" if flag else "false"),
           "end SophiaModel.Gen.JsonLdFlags\n"]
    return "".join(out), {"uniqueParentGet": flag}


EXTRACTORS = {"jsonldflags": ("JsonLdFlags.lean", _gen)}
