"""C12: the one branch switch of jsonld/src/serializer/engine.rs that the Lean model
(lean/SophiaModel/Model/JsonLd.lean, `markListNode`) follows.

  uniqueParentGet   `mark_list_node` reads the parent with `&self.unique_parent[s_id]` (shipped text: `HashMap`
                    indexing, panics on an absent key -> false) or with `self.unique_parent.get(s_id)` and a
                    `Some(Some(..))` pattern (text of notes/fixes/C12-unreferenced-list-head.diff: an absent
                    key means "no unique parent" -> true)
  NS_18N, RDF_*, XSD_STRING   the string constants at the end of engine.rs, copied verbatim; the model's own
                    constants (`rdfFirst`, `nsI18n`, ...) are proved equal to them (`constants_as_in_source`), and
                    the thresholds of `is_list_node` / `is_compound_literal` (`2 <= node.len() && node.len() <= 3`)
                    are checked to be the shipped text (listNodeLenMin/Max)
Anything else fails closed.  `ExtractError`, `read`, `HEADER` are injected by tools/extract.py.
"""
import re

REL = "jsonld/src/serializer/engine.rs"


def _gen(repo):
    text = read(repo, REL)
    m = re.search(r"\n    fn mark_list_node\b", text)
    if not m:
        raise ExtractError("%s: fn mark_list_node not found" % REL)
    end = text.find("\n    }\n", m.end())
    if end < 0:
        raise ExtractError("%s: end of fn mark_list_node not found" % REL)
    body = re.sub(r"\s+", " ", re.sub(r"//[^\n]*", "", text[m.start():end]))
    shipped = "if let Some((iparent, pp)) = &self.unique_parent[s_id] {" in body
    fixed = "if let Some(Some((iparent, pp))) = self.unique_parent.get(s_id) {" in body
    uses = len(re.findall(r"unique_parent", body))
    if shipped and not fixed and uses == 1:
        flag = False
    elif fixed and not shipped and uses == 1:
        flag = True
    else:
        raise ExtractError("%s: the unique_parent lookup of mark_list_node is neither the shipped nor the fixed text" % REL)
    consts = {}
    for name in ("NS_18N", "RDF_DIRECTION", "RDF_FIRST", "RDF_JSON", "RDF_LANGUAGE", "RDF_LIST", "RDF_NIL", "RDF_REST",
                 "RDF_VALUE", "XSD_STRING"):
        mm = re.findall(r'^const %s: &str = "([^"\\]*)";$' % name, text, flags=re.M)
        if len(mm) != 1:
            raise ExtractError("%s: constant %s not found exactly once in the expected form" % (REL, name))
        consts[name] = mm[0]
    lens = {}
    for fn in ("is_list_node", "is_compound_literal"):
        mm = re.search(r"\nfn %s\(node: &HashMap<Box<str>, Vec<RdfObject>>\) -> bool \{\s*(\d+) <= node\.len\(\)\s*&& node\.len\(\) <= (\d+)" % fn, text)
        if not mm:
            raise ExtractError("%s: length bounds of %s not in the expected form" % (REL, fn))
        lens[fn] = (int(mm.group(1)), int(mm.group(2)))
    if lens["is_list_node"] != lens["is_compound_literal"]:
        raise ExtractError("%s: is_list_node / is_compound_literal bounds differ: %r" % (REL, lens))
    out = [HEADER, "namespace SophiaModel.Gen.JsonLdFlags\n",
           "/-- `mark_list_node` looks the parent up with `.get(s_id)` (absent key = no unique parent) instead of\n"
           "`self.unique_parent[s_id]` (absent key = panic) -/\n",
           "def uniqueParentGet : Bool := %s\n" % ("true" if flag else "false")]
    out.append("/-- string constants of engrine.rs, verbatim -/\n".replace("engrine", "engine"))
    for name in sorted(consts):
        out.append('def %s : String := "%s"\n' % (name, consts[name]))
    out.append("/-- `lo <= node.len() && node.len() <= hi` in is_list_node and is_compound_literal -/\n")
    out.append("def nodeLenMin : Nat := %d\ndef nodeLenMax : Nat := %d\n" % lens["is_list_node"])
    out.append("end SophiaModel.Gen.JsonLdFlags\n")
    return "".join(out), {"uniqueParentGet": flag, "constants": len(consts), "nodeLen": list(lens["is_list_node"])}


EXTRACTORS = {"jsonldflags": ("JsonLdFlags.lean", _gen)}
