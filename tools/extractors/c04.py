"""C04: branch switches of turtle/src/serializer/_pretty.rs that the Lean model
(lean/SophiaModel/Model/Pretty.lean) follows.  For each of three places the shipped text and the
text of the proposed fix (notes/fixes/C04-*.diff) are recognised; anything else fails closed.

  nilNodeOnly  `()` for rdf:nil: everywhere (`write_iri`) / only through `write_node` (subject, object, list item)
  walkStamp    `build_labelled` cycle walk: `visited: bool` shortcut / per-walk stamp marking re-entered cycles
  singleRest   `list_item`: `continue` on every rdf:rest / a second rdf:rest disqualifies the node
  indentTurtleWs  `TurtleConfig::with_indentation` (turtle.rs): accepts any `char::is_whitespace` (Unicode White_Space) /
               only the white space of the Turtle grammar (notes/fixes/C04-indent-turtle-ws.diff)
`ExtractError`, `read`, `HEADER` are injected by tools/extract.py.
"""
import re

REL = "turtle/src/serializer/_pretty.rs"
REL_CFG = "turtle/src/serializer/turtle.rs"


def _squash(s):
    return re.sub(r"\s+", " ", s)


def _fn(text, name):
    m = re.search(r"\n(    )?(?:pub(?:\([a-z]+\))? )?(?:const )?fn %s\b" % name, text)
    if not m:
        return None
    indent = m.group(1) or ""
    end = text.find("\n%s}\n" % indent, m.end())
    if end < 0:
        raise ExtractError("%s: end of fn %s not found" % (REL, name))
    return _squash(text[m.start():end])


def _flags(repo):
    text = read(repo, REL)
    flags = {}
    # ---- rdf:nil
    wi = _fn(text, "write_iri")
    wn = _fn(text, "write_node")
    if wi is None:
        raise ExtractError("%s: fn write_iri not found" % REL)
    shipped_nil = 'if rdf::nil == iri { return self.write_bytes(b"()"); }' in wi
    if shipped_nil and wn is None:
        flags["nilNodeOnly"] = False
    elif (not shipped_nil and "rdf::nil" not in wi and wn is not None
          and 'if rdf::nil == term { self.write_bytes(b"()") } else { self.write_term(term) }' in wn):
        wt, wo, wb = _fn(text, "write_tree"), _fn(text, "write_object"), _fn(text, "write_bnode")
        if not (wt and "self.write_node(root)?" in wt and wo and "self.write_node(object)?" in wo
                and wb and "self.write_node(item)?" in wb):
            raise ExtractError("%s: write_node exists but is not used for root / object / list item as in the model" % REL)
        if len(re.findall(r"write_node\(", text)) != 4:
            raise ExtractError("%s: write_node is called from places the model does not know" % REL)
        flags["nilNodeOnly"] = True
    else:
        raise ExtractError("%s: rdf:nil handling in write_iri / write_node is neither the shipped nor the fixed text" % REL)
    # ---- cycle walk
    bl = _fn(text, "build_labelled")
    if bl is None:
        raise ExtractError("%s: fn build_labelled not found" % REL)
    if "visited: bool" in text and "} else if p.bad || p.visited { break; }" in bl and "if profile.bad || profile.visited { continue; }" in bl:
        flags["walkStamp"] = False
    elif ("visited: usize" in text and "if p.visited == walk { p.bad = true; }" in bl
          and "for (n, key) in keys.into_iter().enumerate() { let walk = n + 1;" in bl
          and "if profile.bad || profile.visited != 0 { continue; }" in bl
          and "} else if p.bad { break; } else if p.visited != 0 {" in bl):
        flags["walkStamp"] = True
    else:
        raise ExtractError("%s: the cycle walk of build_labelled is neither the shipped nor the fixed text" % REL)
    # ---- list_item
    li = _fn(text, "list_item")
    if li is None:
        raise ExtractError("%s: fn list_item not found" % REL)
    if "if rdf::rest == q.p() { continue; } else if rdf::first == q.p() && ret.is_none() {" in li and "rest_seen" not in li:
        flags["singleRest"] = False
    elif "if rdf::rest == q.p() { if rest_seen { return None; } rest_seen = true; continue; } else if rdf::first == q.p() && ret.is_none() {" in li:
        flags["singleRest"] = True
    else:
        raise ExtractError("%s: list_item is neither the shipped nor the fixed text" % REL)
    # ---- with_indentation
    cfg = read(repo, REL_CFG)
    wi = _fn(cfg, "with_indentation")
    if wi is None:
        raise ExtractError("%s: fn with_indentation not found" % REL_CFG)
    asserts = re.findall(r"assert!\((.*?)\);", wi)
    if asserts == ["indentation.chars().all(char::is_whitespace)"]:
        flags["indentTurtleWs"] = False
    elif asserts == ["indentation.chars().all(|c| matches!(c, ' ' | '\\t' | '\\r' | '\\n'))"]:
        flags["indentTurtleWs"] = True
    else:
        raise ExtractError("%s: the assertion of with_indentation is neither the shipped nor the fixed text: %r" % (REL_CFG, asserts))
    if "self.indentation = indentation;" not in wi:
        raise ExtractError("%s: with_indentation does not store the indentation as in the model" % REL_CFG)
    # prettify's own assertion concerns `base_indent`, which both serializers pass as ""
    for rel in (REL_CFG, "turtle/src/serializer/trig.rs"):
        calls = re.findall(r"\bprettify\((.*?)\)", _squash(read(repo, rel)))
        if calls != ['dataset, &mut self.write, &self.config, ""']:
            raise ExtractError("%s: prettify is not called (once) with an empty base indentation: %r" % (rel, calls))
    return flags


def _gen(repo):
    flags = _flags(repo)
    b = lambda x: "true" if x else "false"
    out = [HEADER, "namespace SophiaModel.Gen.PrettyFlags\n"]
    for k in ("nilNodeOnly", "walkStamp", "singleRest", "indentTurtleWs"):
        out.append("def %s : Bool := %s\n" % (k, b(flags[k])))
    out.append("end SophiaModel.Gen.PrettyFlags\n")
    return "".join(out), {"flags": flags}


EXTRACTORS = {"prettyflags": ("PrettyFlags.lean", _gen)}
