"""C04: branch switches of turtle/src/serializer/_pretty.rs that the Lean model
(lean/SophiaModel/Model/Pretty.lean) follows.  For each of three places the shipped text and the
text of the proposed fix (notes/fixes/C04-*.diff) are recognised; anything else fails closed.

  nilNodeOnly  `()` for rdf:nil: everywhere (`write_iri`) / only through `write_node` (subject, object, list item)
  walkStamp    `build_labelled` cycle walk: `visited: bool` shortcut / per-walk stamp marking re-entered cycles
  singleRest   `list_item`: `continue` on every rdf:rest / a second rdf:rest disqualifies the node
  maxBnodeNesting  `MAX_BNODE_NESTING`: `[ … ]` nested at most that deep, deeper SubTree nodes are labelled and deferred to a
               tree of their own after the roots of the graph (/repo da7f8f8); `none` for the code without cap
  indentTurtleWs  `TurtleConfig::with_indentation` (turtle.rs): accepts any `char::is_whitespace` (Unicode White_Space) /
               only the white space of the Turtle grammar (notes/fixes/C04-indent-turtle-ws.diff)
`ExtractError`, `read`, `HEADER` are injected by tools/extract.py.
"""
import re

REL = "turtle/src/serializer/_pretty.rs"
REL_CFG = "turtle/src/serializer/turtle.rs"


def _squash(s):
    return re.sub(r"\s+", " ", s)


def _fn(text, name):
    m = re.search(r"\n(    )?(?:pub(?:\([a-z]+\))? )?(?:const )?fn %s\b" % name, text)
    if not m:
        return None
    indent = m.group(1) or ""
    end = text.find("\n%s}\n" % indent, m.end())
    if end < 0:
        raise ExtractError("%s: end of fn %s not found" % (REL, name))
    return _squash(text[m.start():end])


def _flags(repo):
    text = read(repo, REL)
    flags = {}
    # ---- rdf:nil
    wi = _fn(text, "write_iri")
    wn = _fn(text, "write_node")
    if wi is None:
        raise ExtractError("%s: fn write_iri not found" % REL)
    shipped_nil = 'if rdf::nil == iri { return self.write_bytes(b"()"); }' in wi
    if shipped_nil and wn is None:
        flags["nilNodeOnly"] = False
    elif (not shipped_nil and "rdf::nil" not in wi and wn is not None
          and 'if rdf::nil == term { self.write_bytes(b"()") } else { self.write_term(term) }' in wn):
        wt, wo, wb = _fn(text, "write_tree"), _fn(text, "write_object"), _fn(text, "write_bnode")
        if not (wt and "self.write_node(root)?" in wt and wo and "self.write_node(object)?" in wo
                and wb and "self.write_node(item)?" in wb):
            raise ExtractError("%s: write_node exists but is not used for root / object / list item as in the model" % REL)
        if len(re.findall(r"write_node\(", text)) != 4:
            raise ExtractError("%s: write_node is called from places the model does not know" % REL)
        flags["nilNodeOnly"] = True
    else:
        raise ExtractError("%s: rdf:nil handling in write_iri / write_node is neither the shipped nor the fixed text" % REL)
    # ---- cycle walk
    bl = _fn(text, "build_labelled")
    if bl is None:
        raise ExtractError("%s: fn build_labelled not found" % REL)
    if "visited: bool" in text and "} else if p.bad || p.visited { break; }" in bl and "if profile.bad || profile.visited { continue; }" in bl:
        flags["walkStamp"] = False
    elif ("visited: usize" in text and "if p.visited == walk { p.bad = true; }" in bl
          and "for (n, key) in keys.into_iter().enumerate() { let walk = n + 1;" in bl
          and "if profile.bad || profile.visited != 0 { continue; }" in bl
          and "} else if p.bad { break; } else if p.visited != 0 {" in bl):
        flags["walkStamp"] = True
    else:
        raise ExtractError("%s: the cycle walk of build_labelled is neither the shipped nor the fixed text" % REL)
    # ---- list_item
    li = _fn(text, "list_item")
    if li is None:
        raise ExtractError("%s: fn list_item not found" % REL)
    if "if rdf::rest == q.p() { continue; } else if rdf::first == q.p() && ret.is_none() {" in li and "rest_seen" not in li:
        flags["singleRest"] = False
    elif "if rdf::rest == q.p() { if rest_seen { return None; } rest_seen = true; continue; } else if rdf::first == q.p() && ret.is_none() {" in li:
        flags["singleRest"] = True
    else:
        raise ExtractError("%s: list_item is neither the shipped nor the fixed text" % REL)
    # ---- with_indentation
    cfg = read(repo, REL_CFG)
    wi = _fn(cfg, "with_indentation")
    if wi is None:
        raise ExtractError("%s: fn with_indentation not found" % REL_CFG)
    asserts = re.findall(r"assert!\((.*?)\);", wi)
    if asserts == ["indentation.chars().all(char::is_whitespace)"]:
        flags["indentTurtleWs"] = False
    elif asserts == ["indentation.chars().all(|c| matches!(c, ' ' | '\\t' | '\\r' | '\\n'))"]:
        flags["indentTurtleWs"] = True
    else:
        raise ExtractError("%s: the assertion of with_indentation is neither the shipped nor the fixed text: %r" % (REL_CFG, asserts))
    if "self.indentation = indentation;" not in wi:
        raise ExtractError("%s: with_indentation does not store the indentation as in the model" % REL_CFG)
    # prettify's own assertion concerns `base_indent`, which both serializers pass as ""
    for rel in (REL_CFG, "turtle/src/serializer/trig.rs"):
        calls = re.findall(r"\bprettify\((.*?)\)", _squash(read(repo, rel)))
        if calls != ['dataset, &mut self.write, &self.config, ""']:
            raise ExtractError("%s: prettify is not called (once) with an empty base indentation: %r" % (rel, calls))
    # ---- nesting cap of anonymous blank nodes (/repo da7f8f8)
    sq = _squash(text)
    wb = _fn(text, "write_bnode")
    wg = _fn(text, "write_graph")
    if wb is None or wg is None:
        raise ExtractError("%s: fn write_bnode / write_graph not found" % REL)
    if "MAX_BNODE_NESTING" not in text and "nesting" not in sq and "deferred" not in sq:
        flags["maxBnodeNesting"] = None
    else:
        m = re.findall(r"const MAX_BNODE_NESTING: usize = (\d+);", text)
        if len(m) != 1:
            raise ExtractError("%s: MAX_BNODE_NESTING is not a single literal usize constant" % REL)
        want_bnode = ('SubjectType::SubTree if self.nesting >= MAX_BNODE_NESTING => { self.labelled.insert(bn); self.deferred.push(i); '
                      'write!(self.write, "_:{}", bn.bnode_id().unwrap().as_str())?; } '
                      'SubjectType::SubTree => { self.write_bytes(b"[")?; self.nesting += 1; self.write_properties(s)?; '
                      'self.nesting -= 1; self.write_bytes(b"]")?; self.subject_types[i].2 = SubjectType::Done; }')
        want_graph = ('self.subject_types[i].2 = SubjectType::Done; } '
                      '// blank nodes that were too deeply nested to be described inline '
                      'while let Some(i) = self.deferred.pop() { let (_, s, _) = self.subject_types[i]; self.write_tree(s)?; '
                      'self.subject_types[i].2 = SubjectType::Done; }')
        if want_bnode not in wb:
            raise ExtractError("%s: the nesting cap in write_bnode is not the text the model follows" % REL)
        if want_graph not in wg:
            raise ExtractError("%s: the deferred loop of write_graph is not the text the model follows" % REL)
        code = re.sub(r"//[^\n]*", "", text)
        counts = (len(re.findall(r"\bself\.nesting\b", code)), len(re.findall(r"\bself\.deferred\b", code)),
                  len(re.findall(r"\bMAX_BNODE_NESTING\b", code)), len(re.findall(r"\bnesting: 0,", code)),
                  len(re.findall(r"\bdeferred: vec!\[\],", code)), len(re.findall(r"self\.labelled\.insert\(", code)))
        if counts != (3, 2, 2, 1, 1, 1):
            raise ExtractError("%s: nesting / deferred / labelled are used in places the model does not know: %r" % (REL, counts))
        flags["maxBnodeNesting"] = int(m[0])
    return flags


def _gen(repo):
    flags = _flags(repo)
    b = lambda x: "true" if x else "false"
    out = [HEADER, "namespace SophiaModel.Gen.PrettyFlags\n"]
    for k in ("nilNodeOnly", "walkStamp", "singleRest", "indentTurtleWs"):
        out.append("def %s : Bool := %s\n" % (k, b(flags[k])))
    cap = flags["maxBnodeNesting"]
    out.append("/-- `MAX_BNODE_NESTING` of _pretty.rs (`none`: the code has no nesting cap) -/\n")
    out.append("def maxBnodeNesting : Option Nat := %s\n" % ("none" if cap is None else "some %d" % cap))
    out.append("end SophiaModel.Gen.PrettyFlags\n")
    return "".join(out), {"flags": flags}


EXTRACTORS = {"prettyflags": ("PrettyFlags.lean", _gen)}
