"""C13 extractor: sparql/src/exec.rs + sparql/src/wrapper.rs -> lean/SophiaModel/Gen/SparqlDispatch.lean
(fail-closed).

Regenerated from /repo's working tree on every run:
  * the `match pattern { ... }` of `ExecState::select`: per `GraphPattern` variant either the
    method it dispatches to (`self.<name>(...)`, possibly wrapped in `Ok(...)`) or
    `Err(SparqlWrapperError::NotImplemented("<what>"))`;
  * the `match &(query.borrow().algebra) { ... }` of `SparqlWrapper::query`: per query form
    `exec.select` / `exec.ask` / NotImplemented;
  * the `Some(_)` arm on `query_dataset.named` in `ExecState::new`;
  * two switches for the repairs of notes/fixes/ (committed in /repo as e4da433 and d984918; the
    theorems of Props/C13.lean now need both to be `true`, so the old forms break the proofs): whether `Or`/`And` in
    `ArcExpression::eval` still abort on an operand's evaluation error (`eval(..)?.is_truthy()`) or
    fold it into the three-valued table (`eval(..).and_then(|e| e.is_truthy())`,
    notes/fixes/C13-logical-or-and-error.diff), and what `ExecState::graph` does when the dataset
    has no named graph (`self.select(inner, &[], binding)` or an empty result,
    notes/fixes/C13-graph-var-no-named-graph.diff).
Any arm that is not one of these shapes, a wildcard arm, a missing or an unknown variant fails the
extraction.  `read`, `ExtractError`, `HEADER` are injected by tools/extract.py.
"""
import re

EXEC = "sparql/src/exec.rs"
EXPR = "sparql/src/expression.rs"
WRAP = "sparql/src/wrapper.rs"

GP_VARIANTS = ["Bgp", "Path", "Join", "LeftJoin", "Filter", "Union", "Graph", "Extend", "Minus", "Values",
               "OrderBy", "Project", "Distinct", "Reduced", "Slice", "Group", "Service"]
Q_VARIANTS = ["Select", "Construct", "Describe", "Ask"]


def _balanced(text, i, what):
    """text[i] == '{' -> index just after the matching '}' (string/char literals are skipped)"""
    depth = 0
    j = i
    n = len(text)
    while j < n:
        c = text[j]
        if c == '"':
            j += 1
            while j < n and text[j] != '"':
                j += 2 if text[j] == "\\" else 1
        elif c == "/" and text[j:j + 2] == "//":
            while j < n and text[j] != "\n":
                j += 1
        elif c in "{([":
            depth += 1
        elif c in "})]":
            depth -= 1
            if depth == 0:
                return j + 1
        j += 1
    raise ExtractError("unbalanced braces in %s" % what)  # noqa: F821


def _fn_body(text, header_re, what):
    m = re.search(header_re, text)
    if not m:
        raise ExtractError("%s not found" % what)  # noqa: F821
    i = text.index("{", m.end() - 1)
    return text[i + 1:_balanced(text, i, what) - 1]


def _match_arms(body, head_re, what):
    m = re.search(head_re, body)
    if not m:
        raise ExtractError("%s: match head not found" % what)  # noqa: F821
    i = m.end() - 1
    assert body[i] == "{"
    inner = body[i + 1:_balanced(body, i, what) - 1]
    arms = []
    pos = 0
    n = len(inner)
    arm_head = re.compile(r"\s*((?:[A-Za-z_][A-Za-z0-9_]*::)*[A-Za-z_][A-Za-z0-9_]*)\s*")
    while True:
        while pos < n and inner[pos].isspace():
            pos += 1
        if pos >= n:
            break
        if inner.startswith("//", pos):
            pos = inner.index("\n", pos)
            continue
        h = arm_head.match(inner, pos)
        if not h:
            raise ExtractError("%s: cannot parse arm at %r" % (what, inner[pos:pos + 40]))  # noqa: F821
        name = h.group(1).split("::")[-1]
        pos = h.end()
        if pos < n and inner[pos] in "{(":
            pos = _balanced(inner, pos, what)
        a = re.compile(r"\s*=>\s*").match(inner, pos)
        if not a:
            raise ExtractError("%s: arm %s: `=>` expected (guards are not understood)" % (what, name))  # noqa: F821
        pos = a.end()
        if inner[pos] == "{":
            end = _balanced(inner, pos, what)
            rhs = inner[pos + 1:end - 1]
            pos = end
            if pos < n and inner[pos] == ",":
                pos += 1
        else:
            depth = 0
            j = pos
            while j < n:
                c = inner[j]
                if c == '"':
                    j += 1
                    while j < n and inner[j] != '"':
                        j += 2 if inner[j] == "\\" else 1
                elif inner.startswith("::<", j):
                    # turbofish: skip the generic argument list
                    k = j + 3
                    g = 1
                    while k < n and g > 0:
                        if inner[k] == "<":
                            g += 1
                        elif inner[k] == ">":
                            g -= 1
                        k += 1
                    j = k
                    continue
                elif c in "{([":
                    depth += 1
                elif c in "})]":
                    depth -= 1
                elif c == "," and depth == 0:
                    break
                j += 1
            rhs = inner[pos:j]
            pos = j + 1
        arms.append((name, re.sub(r"\s+", " ", rhs).strip()))
    return arms


NOTIMPL = re.compile(r'^(?:return )?Err\(\s*SparqlWrapperError::NotImplemented\(\s*"([^"\\]*)"\s*\)\s*\)\s*;?$')
SELF_CALL = re.compile(r"^(?:Ok\(\s*)?self\s*\.\s*([a-z_][a-z0-9_]*)\s*\((.*)\)\s*\)?$")


def _lean_str(s):
    if not all(c.isascii() and (c.isalnum() or c in " _-.") for c in s):
        raise ExtractError("unexpected character in %r" % s)  # noqa: F821
    return '"%s"' % s


def _action(a):
    return ".handler %s" % _lean_str(a[1]) if a[0] == "handler" else ".notImplemented %s" % _lean_str(a[1])


def extract_dispatch(repo):
    text = read(repo, EXEC)  # noqa: F821
    sel = _fn_body(text, r"pub fn select\(\s*&mut self,\s*pattern: &GraphPattern,[^{]*\{", EXEC + ": ExecState::select")
    arms = _match_arms(sel, r"match\s+pattern\s*\{", EXEC + ": select")
    table = {}
    for name, rhs in arms:
        if name == "_" or name not in GP_VARIANTS:
            raise ExtractError("%s: select: arm %r is not a known GraphPattern variant" % (EXEC, name))  # noqa: F821
        if name in table:
            raise ExtractError("%s: select: variant %s matched twice" % (EXEC, name))  # noqa: F821
        m = NOTIMPL.match(rhs)
        if m:
            table[name] = ("notimpl", m.group(1))
            continue
        m = SELF_CALL.match(rhs)
        if m and rhs.count("self") == 1:
            table[name] = ("handler", m.group(1))
            continue
        raise ExtractError("%s: select: arm %s => %r is neither self.<method>(..) nor NotImplemented" % (EXEC, name, rhs))  # noqa: F821
    missing = [v for v in GP_VARIANTS if v not in table]
    if missing:
        raise ExtractError("%s: select: variants without an arm: %s" % (EXEC, missing))  # noqa: F821
    # everything in select after the match must be nothing (the match is the body's value)
    # --- ExecState::new: the FROM NAMED arm
    new = _fn_body(text, r"pub fn new\(\s*dataset: &'a D,\s*query_dataset: &Option<QueryDataset>,[^{]*\{", EXEC + ": ExecState::new")
    narms = _match_arms(new, r"let named_graphs = match query_dataset\.as_ref\(\)\.and_then\(\|qd\| qd\.named\.as_ref\(\)\)\s*\{",
                        EXEC + ": new")
    nd = dict(narms)
    if set(nd) != {"None", "Some"}:
        raise ExtractError("%s: new: arms on query_dataset.named are %s" % (EXEC, sorted(nd)))  # noqa: F821
    m = NOTIMPL.match(nd["Some"])
    if not m:
        raise ExtractError("%s: new: `Some(_)` arm on query_dataset.named is no longer NotImplemented: %r" % (EXEC, nd["Some"]))  # noqa: F821
    from_named = ("notimpl", m.group(1))
    if "graph_names()" not in nd["None"]:
        raise ExtractError("%s: new: `None` arm no longer enumerates dataset.graph_names()" % EXEC)  # noqa: F821
    # --- wrapper.rs
    wtext = read(repo, WRAP)  # noqa: F821
    q = _fn_body(wtext, r"fn query<Q>\(&self, query: Q\)[^{]*\{", WRAP + ": SparqlWrapper::query")
    qarms = _match_arms(q, r"match\s+&\(query\.borrow\(\)\.algebra\)\s*\{", WRAP + ": query")
    qtable = {}
    for name, rhs in qarms:
        if name not in Q_VARIANTS or name in qtable:
            raise ExtractError("%s: query: unexpected arm %r" % (WRAP, name))  # noqa: F821
        m = NOTIMPL.match(rhs)
        if m:
            qtable[name] = ("notimpl", m.group(1))
            continue
        m = re.fullmatch(r"let mut exec = ExecState::new\(self\.0, dataset\)\?; let cfg = exec\.config_cloned\(\); "
                         r"exec\.(select|ask)\(pattern, &cfg\.default_matcher, None\) ?"
                         r"\.map\(SparqlResult::(Bindings|Boolean)\)", rhs)
        if m and (m.group(1), m.group(2)) in (("select", "Bindings"), ("ask", "Boolean")):
            qtable[name] = ("handler", m.group(1))
            continue
        raise ExtractError("%s: query: arm %s => %r not understood" % (WRAP, name, rhs))  # noqa: F821
    missing = [v for v in Q_VARIANTS if v not in qtable]
    if missing:
        raise ExtractError("%s: query: forms without an arm: %s" % (WRAP, missing))  # noqa: F821
    # --- exec.rs graph(): no named graph
    gbody = _fn_body(text, r"fn graph\(\s*&mut self,\s*name: &NamedNodePattern,[^{]*\{", EXEC + ": ExecState::graph")
    m = re.search(r"if graph_names\.is_empty\(\) \{(.*?)\} else \{", gbody, re.S)
    if not m:
        raise ExtractError("%s: graph: `if graph_names.is_empty() {..} else {..}` not found" % EXEC)  # noqa: F821
    arm = re.sub(r"\s+", " ", m.group(1)).strip()
    if arm == "self.select(inner, &[], binding)":
        graph_empty_fixed = False
    elif re.fullmatch(r"Ok\(Bindings \{ variables, iter: Box::new\(std::iter::empty\(\)\),? \}\)", arm):
        graph_empty_fixed = True
    else:
        raise ExtractError("%s: graph: unknown handling of a dataset without named graphs: %r" % (EXEC, arm))  # noqa: F821
    # --- expression.rs Or / And
    etext = read(repo, EXPR)  # noqa: F821
    ev = _fn_body(etext, r"pub fn eval<D>\(\s*&self,\s*binding: &Binding,[^{]*\{", EXPR + ": ArcExpression::eval")
    strict = re.compile(r"let lhs = lhs\.eval\(binding, config, graph_matcher\)\?\.is_truthy\(\); "
                        r"let rhs = rhs\.eval\(binding, config, graph_matcher\)\?\.is_truthy\(\); match \(lhs, rhs\)")
    lenient = re.compile(r"let lhs = lhs \.eval\(binding, config, graph_matcher\) \.and_then\(\|e\| e\.is_truthy\(\)\); "
                         r"let rhs = rhs \.eval\(binding, config, graph_matcher\) \.and_then\(\|e\| e\.is_truthy\(\)\); match \(lhs, rhs\)")
    lenient2 = re.compile(r"let lhs = lhs\.eval\(binding, config, graph_matcher\)\.and_then\(\|e\| e\.is_truthy\(\)\); "
                          r"let rhs = rhs\.eval\(binding, config, graph_matcher\)\.and_then\(\|e\| e\.is_truthy\(\)\); match \(lhs, rhs\)")
    modes = []
    for k in ("Or", "And"):
        m = re.search(r"\b%s\(lhs, rhs\) => \{" % k, ev)
        if not m:
            raise ExtractError("%s: eval: arm %s(lhs, rhs) not found" % (EXPR, k))  # noqa: F821
        end = _balanced(ev, m.end() - 1, EXPR + ": eval")
        body = re.sub(r"\s+", " ", ev[m.end():end - 1]).strip()
        if strict.match(body):
            modes.append(False)
        elif lenient.match(body) or lenient2.match(body):
            modes.append(True)
        else:
            raise ExtractError("%s: eval: arm %s evaluates its operands in a way the model does not know: %r" % (EXPR, k, body[:160]))  # noqa: F821
    if modes[0] != modes[1]:
        raise ExtractError("%s: eval: Or and And treat operand errors differently" % EXPR)  # noqa: F821
    or_and_lenient = modes[0]
    # --- expression.rs In / If, exec.rs check_exists: switches for notes/fixes/C13-{in-first-error,
    # if-ebv-error,exists-swallows-refusal}.diff
    def arm_body(head, what):
        m = re.search(head, ev)
        if not m:
            raise ExtractError("%s: eval: arm %s not found" % (EXPR, what))  # noqa: F821
        end = _balanced(ev, m.end() - 1, EXPR + ": eval")
        return re.sub(r"\s+", " ", ev[m.end():end - 1]).strip()
    b = arm_body(r"\bIn\(lhs, rhs\) => \{", "In")
    if ".find(|res| res != &Some(false))" in b and "return Some(true.into())" not in b:
        in_lenient = False
    elif re.search(r"Some\(true\) => return Some\(true\.into\(\)\), Some\(false\) => \{\},? None => result = None", b) \
            and "let mut result = Some(false);" in b and ".find(" not in b:
        in_lenient = True
    else:
        raise ExtractError("%s: eval: arm In scans its list in a way the model does not know: %r" % (EXPR, b[:200]))  # noqa: F821
    b = arm_body(r"\bIf\(c, t, e\) => \{", "If")
    if re.match(r"if c\.eval\(binding, config, graph_matcher\)\? \.is_truthy\(\) \.unwrap_or\(false\) \{", b):
        if_ebv_strict = False
    elif re.match(r"if c\.eval\(binding, config, graph_matcher\)\?\.is_truthy\(\)\? \{", b):
        if_ebv_strict = True
    else:
        raise ExtractError("%s: eval: arm If tests its condition in a way the model does not know: %r" % (EXPR, b[:160]))  # noqa: F821
    b = arm_body(r"\bExists\(graph_pattern\) => \{", "Exists")
    if "Err(_) => false" not in b or "exec_state.select(graph_pattern, graph_matcher, Some(binding))" not in b:
        raise ExtractError("%s: eval: arm Exists changed: %r" % (EXPR, b[:200]))  # noqa: F821
    ntext = read(repo, "sparql/src/value/_number.rs")  # noqa: F821
    m = re.search(r"impl std::ops::Neg for &'_ SparqlNumber \{", ntext)
    if not m:
        raise ExtractError("sparql/src/value/_number.rs: impl Neg not found")  # noqa: F821
    nb = re.sub(r"\s+", " ", ntext[m.end():_balanced(ntext, m.end() - 1, "impl Neg")])
    if "SparqlNumber::NativeInt(inner) => Some((-inner).into())," in nb:
        neg_checked = False
    elif re.search(r"SparqlNumber::NativeInt\(inner\) => Some\( inner \.checked_neg\(\) "
                   r"\.map_or_else\(\|\| \(-BigInt::from\(\*inner\)\)\.into\(\), Into::into\), \),", nb):
        neg_checked = True
    else:
        raise ExtractError("sparql/src/value/_number.rs: Neg for NativeInt is written in a way the model does not know")  # noqa: F821
    n_calls = len(re.findall(r"self\.check_exists\(", text))
    if "fn check_exists" not in text and n_calls == 0:
        exists_checked = False
    elif "fn check_exists" in text and re.search(r"Exists\(pattern\) => self\.select\(pattern, &\[\], None\)\.map\(\|_\| \(\)\)", text) \
            and re.search(r"fn filter\([^{]*\{\s*self\.check_exists\(expression\)\?;", text) \
            and re.search(r"fn extend\([^{]*\{\s*self\.check_exists\(expression\)\?;", text):
        exists_checked = True
    else:
        raise ExtractError("%s: EXISTS patterns are pre-checked in a way the model does not know" % EXEC)  # noqa: F821
    out = [HEADER,  # noqa: F821
           "namespace SophiaModel.Gen.SparqlDispatch\n\n",
           "inductive Action\n  | handler (name : String)\n  | notImplemented (what : String)\n  deriving Repr, DecidableEq, Inhabited\n\n",
           "/-- `match pattern { .. }` of `ExecState::select` (sparql/src/exec.rs), source order -/\n",
           "def selectTable : List (String × Action) :=\n  [" +
           ",\n   ".join("(%s, %s)" % (_lean_str(n), _action(table[n])) for n, _ in arms) + "]\n\n",
           "/-- `match &(query.borrow().algebra) { .. }` of `SparqlWrapper::query` (sparql/src/wrapper.rs) -/\n",
           "def queryTable : List (String × Action) :=\n  [" +
           ",\n   ".join("(%s, %s)" % (_lean_str(n), _action(qtable[n])) for n, _ in qarms) + "]\n\n",
           "/-- `ExecState::new`: the arm taken when the query dataset has a `named` list -/\n",
           "def fromNamed : Action := %s\n\n" % _action(from_named),
           "/-- `Or`/`And` of `ArcExpression::eval` fold an operand's evaluation error into the three-valued\n"
           "truth table (`true` once notes/fixes/C13-logical-or-and-error.diff is applied) instead of aborting -/\n",
           "def orAndLenient : Bool := %s\n\n" % ("true" if or_and_lenient else "false"),
           "/-- `ExecState::graph` returns no solution for `GRAPH ?g` over a dataset without named graphs\n"
           "(`true` once notes/fixes/C13-graph-var-no-named-graph.diff is applied) -/\n",
           "def graphEmptyFixed : Bool := %s\n\n" % ("true" if graph_empty_fixed else "false"),
           "/-- `In` of `ArcExpression::eval` is `(x = e1) || ...` with the error semantics of `||` (`true` once\n"
           "notes/fixes/C13-in-first-error.diff is applied) instead of stopping at the first error -/\n",
           "def inLenient : Bool := %s\n\n" % ("true" if in_lenient else "false"),
           "/-- `If` raises an error when the effective boolean value of its condition is an error (`true` once\n"
           "notes/fixes/C13-if-ebv-error.diff is applied) instead of taking the else branch -/\n",
           "def ifEbvStrict : Bool := %s\n\n" % ("true" if if_ebv_strict else "false"),
           "/-- `ExecState::{filter, extend, order_by}` probe the EXISTS patterns of their expression and return\n"
           "their refusal (`true` once notes/fixes/C13-exists-swallows-refusal.diff is applied) -/\n",
           "def existsChecked : Bool := %s\n\n" % ("true" if exists_checked else "false"),
           "/-- unary minus on `NativeInt` is `checked_neg`, promoted to `BigInt` on overflow (commit 8d7de80): exact,\n"
           "as the model's unbounded integers; `false`: `-inner`, which panics on `isize::MIN` in a debug build -/\n",
           "def negChecked : Bool := %s\n\n" % ("true" if neg_checked else "false"),
           "end SophiaModel.Gen.SparqlDispatch\n"]
    return "".join(out), {"select": table, "query": qtable, "from_named": from_named,
                          "or_and_lenient": or_and_lenient, "graph_empty_fixed": graph_empty_fixed,
                          "in_lenient": in_lenient, "if_ebv_strict": if_ebv_strict, "exists_checked": exists_checked, "neg_checked": neg_checked}


EXTRACTORS = {"sparql_dispatch": ("SparqlDispatch.lean", extract_dispatch)}
