"""C14 extractor: sparql/src/value/_xsd_date_time.rs -> Gen/DateTimeFlags.lean

Facts about `XsdDateTime::new` / `heterogeneous_cmp` that select branches of the model (lean/SophiaModel/Model/OrderBy.lean
`parseDateTime`), so that the model follows the source and a regression flips it back:

  * dateTimeYearUnwrap     the year capture is parsed with `.parse().unwrap()` (an `i32` overflow panics)
                           rather than `.parse().ok()?` (such a lexical form is not a dateTime value);
  * dateTimeUnicodeDigits  the digit class of the regex is `\\d` (any Unicode Nd, whose captures then
                           fail `parse::<u32>().unwrap()`) rather than `[0-9]`;
  * dateTimeOffsetUnreachable  `naive_to_fixed` maps every result of `and_local_timezone` other than
                           `Single` to `unreachable!()` (it is `None` when `checked_sub_offset` leaves
                           chrono's range: the comparison panics) rather than returning an `Option` that
                           `heterogeneous_cmp` treats as "not beyond" (the exact answer).

FAIL-CLOSED: the regex must have exactly the skeleton the model transcribes, all its digit classes
must be of one kind, and the field-parsing statements must be the ones the model assumes; anything
else raises ExtractError (a check treats that as a broken tie, never as success).
`ExtractError`, `read`, `HEADER` are injected by tools/extract.py.
"""
import re

SRC = "sparql/src/value/_xsd_date_time.rs"
SKELETON = r"^(-)?(D{4,})-(D{2}-D{2}TD{2}:D{2}:D{2})(?:\.(D+))?(Z|[-+]D{2}:D{2})?$"
FIELDS = [
    ("month", "mdhms[..2]"), ("day", "mdhms[3..5]"), ("hour", "mdhms[6..8]"),
    ("minute", "mdhms[9..11]"), ("second", "mdhms[12..14]"),
]


def _norm(code):
    """comments stripped, whitespace removed"""
    code = re.sub(r"//[^\n]*", "", code)
    return re.sub(r"\s+", "", code)


# the two shapes of `heterogeneous_cmp` + `naive_to_fixed` the model knows (anything else: ExtractError)
HET_UNREACHABLE = _norm("""
fn heterogeneous_cmp(d1: &DateTime<FixedOffset>, d2: &NaiveDateTime) -> Option<Ordering> {
    if d1 < &naive_to_fixed(d2, 14) {
        Some(Ordering::Less)
    } else if d1 > &naive_to_fixed(d2, -14) {
        Some(Ordering::Greater)
    } else {
        None
    }
}
fn naive_to_fixed(d: &NaiveDateTime, offset: i8) -> DateTime<FixedOffset> {
    debug_assert!((-14..=14).contains(&offset));
    let fixed_offset = FixedOffset::east_opt(i32::from(offset) * 3600).unwrap();
    match d.and_local_timezone(fixed_offset) {
        chrono::offset::LocalResult::Single(r) => r,
        _ => unreachable!(),
    }
}
""")
HET_OPTION = _norm("""
fn heterogeneous_cmp(d1: &DateTime<FixedOffset>, d2: &NaiveDateTime) -> Option<Ordering> {
    if naive_to_fixed(d2, 14).is_some_and(|d2| d1 < &d2) {
        Some(Ordering::Less)
    } else if naive_to_fixed(d2, -14).is_some_and(|d2| d1 > &d2) {
        Some(Ordering::Greater)
    } else {
        None
    }
}
fn naive_to_fixed(d: &NaiveDateTime, offset: i8) -> Option<DateTime<FixedOffset>> {
    debug_assert!((-14..=14).contains(&offset));
    let fixed_offset = FixedOffset::east_opt(i32::from(offset) * 3600).unwrap();
    d.and_local_timezone(fixed_offset).single()
}
""")
PARTIAL_CMP = _norm("""
    fn partial_cmp(&self, other: &Self) -> Option<Ordering> {
        match (self, other) {
            (XsdDateTime::Naive(d1), XsdDateTime::Naive(d2)) => d1.partial_cmp(d2),
            (XsdDateTime::Naive(d1), XsdDateTime::Timezoned(d2)) => {
                heterogeneous_cmp(d2, d1).map(Ordering::reverse)
            }
            (XsdDateTime::Timezoned(d1), XsdDateTime::Naive(d2)) => heterogeneous_cmp(d1, d2),
            (XsdDateTime::Timezoned(d1), XsdDateTime::Timezoned(d2)) => d1.partial_cmp(d2),
        }
    }
""")


def offset_unreachable(text):
    """which of the two known shapes `heterogeneous_cmp` / `naive_to_fixed` have"""
    m = re.search(r"\nfn heterogeneous_cmp\(.*?\n}\n", text, re.S)
    n = re.search(r"\nfn naive_to_fixed\(.*?\n}\n", text, re.S)
    if not m or not n:
        raise ExtractError("%s: `fn heterogeneous_cmp` / `fn naive_to_fixed` not found" % SRC)  # noqa: F821
    got = _norm(m.group(0) + n.group(0))
    if PARTIAL_CMP not in _norm(text):
        raise ExtractError("%s: `PartialOrd for XsdDateTime` no longer has the transcribed shape" % SRC)  # noqa: F821
    if got == HET_UNREACHABLE:
        return True
    if got == HET_OPTION:
        return False
    raise ExtractError("%s: `heterogeneous_cmp` / `naive_to_fixed` have neither of the two transcribed shapes" % SRC)  # noqa: F821


def extract_datetime_flags(repo):
    text = read(repo, SRC)  # noqa: F821
    m = re.search(r'fn new\(s: &str\) -> Option<Self> \{(.*?)\n    \}\n', text, re.S)
    if not m:
        raise ExtractError("%s: `fn new(s: &str) -> Option<Self>` not found" % SRC)  # noqa: F821
    body = m.group(1)
    rx = re.search(r'Regex::new\(r"\(\?x\)(.*?)"\)', body, re.S)
    if not rx:
        raise ExtractError("%s: `Regex::new(r\"(?x)...\")` not found in XsdDateTime::new" % SRC)  # noqa: F821
    src = re.sub(r"\s+", "", rx.group(1))
    n_uni = src.count(r"\d")
    n_ascii = src.count("[0-9]")
    if (n_uni > 0) == (n_ascii > 0):
        raise ExtractError("%s: digit classes of the dateTime regex are mixed or absent: %r" % (SRC, src))  # noqa: F821
    skel = src.replace(r"\d", "D").replace("[0-9]", "D")
    if skel != SKELETON:
        raise ExtractError("%s: dateTime regex no longer has the transcribed shape: %r" % (SRC, src))  # noqa: F821
    if not re.search(r"let c = RE\.captures\(s\)\?;", body):
        raise ExtractError("%s: `let c = RE.captures(s)?;` not found" % SRC)  # noqa: F821
    y = re.search(r"let year: i32 = c\.get\(2\)\.unwrap\(\)\.as_str\(\)\.parse\(\)\.(unwrap\(\)|ok\(\)\?);", body)
    if not y:
        raise ExtractError("%s: year parsing statement not recognised" % SRC)  # noqa: F821
    year_unwrap = y.group(1) == "unwrap()"
    for name, sl in FIELDS:
        if "let %s: u32 = %s.parse().unwrap();" % (name, sl) not in body:
            raise ExtractError("%s: parsing of `%s` changed" % (SRC, name))  # noqa: F821
    for needle in ("fraction[..9].parse().unwrap()", "fraction.parse::<u32>().unwrap() * 10_u32.pow(9 - fraction.len() as u32)",
                   "NaiveDate::from_ymd_opt(sign * year, month, day)?", "(hour, minute, second, nano) != (24, 0, 0, 0)",
                   "let hh: i32 = tz[1..3].parse().unwrap();", "let mm: i32 = tz[4..6].parse().unwrap();",
                   "FixedOffset::east_opt(offset)?"):
        if needle not in body:
            raise ExtractError("%s: statement `%s` not found in XsdDateTime::new" % (SRC, needle))  # noqa: F821
    for needle in (".checked_add_days(Days::new(1))?", ".and_local_timezone(FixedOffset::east_opt(offset)?)", ".single()?;"):
        if needle not in body:
            raise ExtractError("%s: statement `%s` not found in XsdDateTime::new" % (SRC, needle))  # noqa: F821
    unreachable = offset_unreachable(text)
    b = lambda x: "true" if x else "false"  # noqa: E731
    out = [HEADER,  # noqa: F821
           "namespace SophiaModel.Gen\n\n",
           "/-- `XsdDateTime::new` (%s): the year capture is parsed with `.parse().unwrap()` (`true`: an\n"
           "`i32` overflow panics) or with `.parse().ok()?` (`false`: such a lexical form is not a dateTime value) -/\n" % SRC,
           "def dateTimeYearUnwrap : Bool := %s\n\n" % b(year_unwrap),
           "/-- the digit class of the dateTime regex is `\\\\d` (`true`: any Unicode decimal digit matches and the\n"
           "following integer parses are unwrapped) or `[0-9]` (`false`) -/\n",
           "def dateTimeUnicodeDigits : Bool := %s\n\n" % b(n_uni > 0),
           "/-- `naive_to_fixed` ends in `_ => unreachable!()` (`true`: comparing a timezoned with a non-timezoned\n"
           "dateTime panics when the latter +-14:00 leaves chrono's range) or returns an `Option` that\n"
           "`heterogeneous_cmp` reads as \"not beyond\" (`false`) -/\n",
           "def dateTimeOffsetUnreachable : Bool := %s\n\n" % b(unreachable),
           "end SophiaModel.Gen\n"]
    return "".join(out), {"year_unwrap": year_unwrap, "unicode_digits": n_uni > 0, "offset_unreachable": unreachable}


# ------------------------------------------------------------------ datatype dispatch of SparqlValue::try_from_literal

VALUE_SRC = "sparql/src/value.rs"
ARM_SHAPES = [
    (r"Some\(Self::Number\(SparqlNumber::try_parse_integer\(lex\)\?\)\)", lambda m: ".parseInteger"),
    (r"Some\(Self::Number\(SparqlNumber::try_parse::<(\w+)>\(lex\)\?\)\)", lambda m: '.parseAs "%s"' % m.group(1)),
    (r"Some\(Self::String\(lex\.clone\(\),None\)\)", lambda m: ".string"),
    (r"Some\(Self::Boolean\(lex\.parse\(\)\.ok\(\)\)\)", lambda m: ".boolean"),
    (r"Some\(Self::DateTime\(lex\.parse\(\)\.ok\(\)\)\)", lambda m: ".dateTime"),
    (r"Some\(Self::Number\(SparqlNumber::try_parse_integer\(lex\)\?\.check\(\|n\|!n\.(\w+)\(\)\)\?,?\)\)",
     lambda m: '.checked true "%s"' % m.group(1)),
    (r"Some\(Self::Number\(SparqlNumber::try_parse_integer\(lex\)\?\.check\(\|n\|n\.(\w+)\(\)\)\?,?\)\)",
     lambda m: '.checked false "%s"' % m.group(1)),
    (r"Some\(Self::Number\(SparqlNumber::try_parse_integer\(lex\)\?\.check\(_number::SparqlNumber::(\w+)\)\?,?\)\)",
     lambda m: '.checked false "%s"' % m.group(1)),
]


def extract_xsd_dispatch(repo):
    """the `match &dt[xsd::PREFIX.len()..] { "name" => arm, … , _ => None }` of try_from_literal as a table of
    (local datatype name, arm descriptor), in source order; any arm of an unknown shape: ExtractError"""
    text = read(repo, VALUE_SRC)  # noqa: F821
    m = re.search(r"pub fn try_from_literal\(genlit: &GenericLiteral<Arc<str>>\) -> Option<Self> \{(.*?)\n    \}\n", text, re.S)
    if not m:
        raise ExtractError("%s: `try_from_literal` not found" % VALUE_SRC)  # noqa: F821
    body = _norm(m.group(1))
    head = ("matchgenlit{GenericLiteral::LanguageString(lex,tag)=>{Some(Self::String(lex.clone(),Some(tag.clone())))}"
            "GenericLiteral::Typed(lex,dt)=>{letdt=dt.as_str();if!dt.starts_with(xsd::PREFIX.as_str()){returnNone;}"
            "match&dt[xsd::PREFIX.len()..]{")
    if not body.startswith(head) or not body.endswith("_=>None,}}}"):
        raise ExtractError("%s: `try_from_literal` no longer has the transcribed frame" % VALUE_SRC)  # noqa: F821
    arms = body[len(head):-len("_=>None,}}}")]
    out = []
    pos = 0
    arm_re = re.compile(r'"(\w+)"=>')
    starts = [(mm.start(), mm.end(), mm.group(1)) for mm in arm_re.finditer(arms)]
    if not starts or starts[0][0] != 0:
        raise ExtractError("%s: datatype arms not recognised" % VALUE_SRC)  # noqa: F821
    for i, (a, b, name) in enumerate(starts):
        end = starts[i + 1][0] if i + 1 < len(starts) else len(arms)
        rhs = arms[b:end]
        if not rhs.endswith(","):
            raise ExtractError("%s: arm %r does not end in a comma" % (VALUE_SRC, name))  # noqa: F821
        rhs = rhs[:-1]
        for rx, mk in ARM_SHAPES:
            mm = re.fullmatch(rx, rhs)
            if mm:
                out.append((name, mk(mm)))
                break
        else:
            raise ExtractError("%s: arm for %r has an unknown shape: %s" % (VALUE_SRC, name, rhs))  # noqa: F821
    lean = [HEADER,  # noqa: F821
            "namespace SophiaModel.Gen\n\n",
            "/-- right-hand side of one arm of the datatype `match` in `SparqlValue::try_from_literal` (%s) -/\n" % VALUE_SRC,
            "inductive XsdArm where\n",
            "  | parseInteger                           -- `Number(SparqlNumber::try_parse_integer(lex)?)`\n",
            "  | parseAs (ty : String)                  -- `Number(SparqlNumber::try_parse::<ty>(lex)?)`\n",
            "  | checked (negated : Bool) (pred : String) -- `Number(try_parse_integer(lex)?.check(|n| [!]n.pred())?)`\n",
            "  | string                                 -- `String(lex.clone(), None)`\n",
            "  | boolean                                -- `Boolean(lex.parse().ok())`\n",
            "  | dateTime                               -- `DateTime(lex.parse().ok())`\n",
            "  deriving Repr, DecidableEq\n\n",
            "/-- the arms in source order: (local name of the datatype in the XSD namespace, right-hand side); every other\n"
            "name, and every datatype outside the namespace, is `None` -/\n",
            "def xsdDispatch : List (String × XsdArm) := [\n",
            ",\n".join('  ("%s", %s)' % (n, a) for n, a in out),
            "]\n\nend SophiaModel.Gen\n"]
    return "".join(lean), {"arms": len(out)}


EXTRACTORS = {"datetime_flags": ("DateTimeFlags.lean", extract_datetime_flags),
              "xsd_dispatch": ("XsdDispatch.lean", extract_xsd_dispatch)}
