"""C02 extractor -> lean/SophiaModel/Gen/TermKind.lean (fail-closed).

What is read from /repo's working tree, and what the theorems of Props/C02.lean then demand of it:

  * `enum TermKind { Iri = 1, ... }` and its `#[derive(...)]` (api/src/term.rs)        -> `disc`, `derives`
      the model's `Kind.rank` must be these numbers (`gen_kind_disc`); `Ord`/`Hash` must be *derived*
      (derived `Ord` of a field-less enum compares discriminants, derived `Hash` hashes it)
  * the default `Term::eq` / `Term::cmp` / `Term::hash`: the statements the transcription
    `Basic/TermOrder.lean` mirrors must still be there                                 -> `defaultShape`
  * `LanguageTag`'s `PartialEq` / `Ord` / `Hash` fold ASCII case (language_tag.rs)     -> `tagFolds`
  * `NsTerm::eq` = prefix test + comparison of the rest (ns/_term.rs)                   -> `nsTermEqShape`
  * wrappers whose `Term` impl must forward every accessor to the wrapped term
    (`CmpTerm`, `IsoTerm`, `ResultTerm`, `&T`, `C14nTerm::Other`) — the last two of them and
    `IsoTerm` cannot be reached by the harness (private modules)                        -> `delegation`
  * every std `PartialEq<T>` / `PartialOrd<T>` / `Ord` / `Hash` impl of a term type is
    a one-line call of `Term::eq` / `Term::cmp` / `Term::hash`                          -> `stdImpls`

A shape that is not recognised yields `false` / status "other" in the table (then the theorem over the
table fails and names it); only an unreadable file or an enum that cannot be parsed raises ExtractError.
`read`, `ExtractError`, `HEADER` are injected by tools/extract.py.
"""
import re

TERM_RS = "api/src/term.rs"


def _strip(text):
    text = re.sub(r"/\*.*?\*/", "", text, flags=re.S)
    return re.sub(r"//[^\n]*", "", text)


def _squash(s):
    return re.sub(r"\s+", "", s)


def _block(text, start):
    """text[start] == '{' -> (body, index after the matching '}'); char/str literals containing braces do not occur
    in the files read here except '@' style char literals, which hold no brace"""
    assert text[start] == "{"
    depth = 0
    for j in range(start, len(text)):
        c = text[j]
        if c == "{":
            depth += 1
        elif c == "}":
            depth -= 1
            if depth == 0:
                return text[start + 1:j], j + 1
    raise ExtractError("unbalanced braces")  # noqa: F821


def _fns(body):
    """{name: squashed body} of the `fn`s directly inside an impl/trait body (bodiless declarations skipped)"""
    out = {}
    i = 0
    depth = 0
    n = len(body)
    while i < n:
        c = body[i]
        if c == "{":
            _, i = _block(body, i)
            continue
        m = re.compile(r"\bfn\s+(\w+)").match(body, i) if depth == 0 else None
        if m:
            # find the end of the signature: first '{' or ';' at paren depth 0
            j = m.end()
            par = 0
            while j < n:
                if body[j] in "([":
                    par += 1
                elif body[j] in ")]":
                    par -= 1
                elif body[j] == ";" and par == 0:
                    break
                elif body[j] == "{" and par == 0:
                    break
                j += 1
            if j < n and body[j] == "{":
                b, j2 = _block(body, j)
                out[m.group(1)] = _squash(b)
                i = j2
                continue
            i = j + 1
            continue
        i += 1
    return out


def _impl_body(text, header_re, what, rel):
    m = re.search(header_re, text)
    if not m:
        raise ExtractError("%s: `%s` not found" % (rel, what))  # noqa: F821
    i = text.index("{", m.end() - 1)
    b, _ = _block(text, i)
    return b


def _lean_str(s):
    return '"' + s.replace("\\", "\\\\").replace('"', '\\"') + '"'


# ---------------------------------------------------------------- pieces

def _term_kind(text):
    m = re.search(r"#\[derive\(([^)]*)\)\]\s*pub\s+enum\s+TermKind\s*\{", text)
    if not m:
        raise ExtractError("%s: `#[derive(..)] pub enum TermKind` not found" % TERM_RS)  # noqa: F821
    derives = sorted(d.strip() for d in m.group(1).split(",") if d.strip())
    body, _ = _block(text, m.end() - 1)
    disc = []
    for part in body.split(","):
        part = part.strip()
        if not part:
            continue
        mm = re.fullmatch(r"(\w+)\s*=\s*(\d+)", part)
        if not mm:
            raise ExtractError("%s: TermKind variant without explicit discriminant: %r" % (TERM_RS, part))  # noqa: F821
        disc.append((mm.group(1), int(mm.group(2))))
    if len(disc) < 1:
        raise ExtractError("%s: TermKind has no variants" % TERM_RS)  # noqa: F821
    return sorted(disc), derives


DEFAULT_SHAPE = [
    ("eq", "eq: kinds compared first", "letk1=self.kind();letk2=other.kind();ifk1!=k2{returnfalse;}"),
    ("eq", "eq: IRI arm", "TermKind::Iri=>self.iri()==other.iri(),"),
    ("eq", "eq: blank node arm", "TermKind::BlankNode=>self.bnode_id()==other.bnode_id(),"),
    ("eq", "eq: variable arm", "TermKind::Variable=>self.variable()==other.variable(),"),
    ("eq", "eq: literal arm",
     "TermKind::Literal=>{self.lexical_form()==other.lexical_form()&&match(self.language_tag(),other.language_tag()){"
     "(None,None)=>self.datatype()==other.datatype(),(Some(tag1),Some(tag2))iftag1==tag2=>true,_=>false,}}"),
    ("eq", "eq: triple arm", "TermKind::Triple=>self.triple().unwrap().eq(other.triple().unwrap()),"),
    ("cmp", "cmp: kinds compared first", "letk1=self.kind();letk2=other.kind();k1.cmp(&k2).then_with(||matchk1{"),
    ("cmp", "cmp: IRI arm", "TermKind::Iri=>Ord::cmp(&self.iri().unwrap(),&other.iri().unwrap()),"),
    ("cmp", "cmp: blank node arm", "TermKind::BlankNode=>Ord::cmp(&self.bnode_id().unwrap(),&other.bnode_id().unwrap()),"),
    ("cmp", "cmp: variable arm", "TermKind::Variable=>Ord::cmp(&self.variable().unwrap(),&other.variable().unwrap()),"),
    ("cmp", "cmp: literal arm",
     "TermKind::Literal=>{lettag1=self.language_tag();lettag2=other.language_tag();"
     "iflet(Some(tag1),Some(tag2))=(tag1,tag2){tag1.cmp(&tag2).then_with(||{self.lexical_form().unwrap().cmp(&other.lexical_form().unwrap())})}"
     "else{letdt1=self.datatype().unwrap();letdt2=other.datatype().unwrap();"
     "Ord::cmp(&dt1,&dt2).then_with(||{self.lexical_form().unwrap().cmp(&other.lexical_form().unwrap())})}}"),
    ("cmp", "cmp: triple arm",
     "TermKind::Triple=>{letspo1=self.triple().unwrap();letspo2=other.triple().unwrap();"
     "Term::cmp(&spo1[0],spo2[0]).then_with(||Term::cmp(&spo1[1],spo2[1])).then_with(||Term::cmp(&spo1[2],spo2[2]))}"),
    ("hash", "hash: kind first", "letk=self.kind();k.hash(state);matchk{"),
    ("hash", "hash: IRI arm", "TermKind::Iri=>Hash::hash(self.iri().unwrap().as_str(),state),"),
    ("hash", "hash: blank node arm", "TermKind::BlankNode=>Hash::hash(self.bnode_id().unwrap().as_str(),state),"),
    ("hash", "hash: variable arm", "TermKind::Variable=>Hash::hash(self.variable().unwrap().as_str(),state),"),
    ("hash", "hash: literal arm (tag through LanguageTag::hash)",
     "TermKind::Literal=>{self.lexical_form().unwrap().hash(state);matchself.language_tag(){"
     "None=>{Hash::hash(self.datatype().unwrap().as_str(),state);}Some(tag)=>{'@'.hash(state);tag.hash(state);}}}"),
    ("hash", "hash: triple arm",
     "TermKind::Triple=>{lett=self.triple().unwrap();t.s().hash(state);t.p().hash(state);t.o().hash(state);}"),
]


def _default_shape(text):
    body = _impl_body(text, r"pub\s+trait\s+Term\s*:[^{]*\{", "pub trait Term", TERM_RS)
    fns = _fns(body)
    rows = []
    for fn, label, needle in DEFAULT_SHAPE:
        rows.append((label, needle in fns.get(fn, "")))
    return rows


FOLD_ITER = ".chars().map(|c|c.to_ascii_lowercase())"


def _tag_folds(repo):
    rel = "api/src/term/language_tag.rs"
    text = _strip(read(repo, rel))  # noqa: F821
    rows = []
    eq = _fns(_impl_body(text, r"impl<T:\s*Borrow<str>,\s*U:\s*Borrow<str>>\s*PartialEq<LanguageTag<T>>\s*for\s*LanguageTag<U>\s*\{",
                         "PartialEq<LanguageTag<T>> for LanguageTag<U>", rel))
    rows.append(("LanguageTag == LanguageTag ignores ASCII case",
                 eq.get("eq") == "self.as_str().eq_ignore_ascii_case(other.as_str())"))
    eqs = _fns(_impl_body(text, r"impl<T:\s*Borrow<str>>\s*PartialEq<str>\s*for\s*LanguageTag<T>\s*\{", "PartialEq<str> for LanguageTag", rel))
    rows.append(("LanguageTag == str ignores ASCII case", eqs.get("eq") == "self.as_str().eq_ignore_ascii_case(other)"))
    po = _fns(_impl_body(text, r"impl<T:\s*Borrow<str>>\s*PartialOrd\s*for\s*LanguageTag<T>\s*\{", "PartialOrd for LanguageTag", rel))
    rows.append(("LanguageTag partial_cmp = Some(cmp)", po.get("partial_cmp") == "Some(self.cmp(other))"))
    o = _fns(_impl_body(text, r"impl<T:\s*Borrow<str>>\s*Ord\s*for\s*LanguageTag<T>\s*\{", "Ord for LanguageTag", rel))
    rows.append(("LanguageTag cmp compares ASCII-lowercased chars",
                 o.get("cmp") == "letiter1=self.as_str()%s;letiter2=other.as_str()%s;iter1.cmp(iter2)" % (FOLD_ITER, FOLD_ITER)))
    hh = _fns(_impl_body(text, r"impl<T:\s*Borrow<str>>\s*std::hash::Hash\s*for\s*LanguageTag<T>\s*\{", "Hash for LanguageTag", rel))
    rows.append(("LanguageTag hash feeds ASCII-lowercased chars",
                 hh.get("hash") == "self.as_str()%s.for_each(|c|c.hash(state));" % FOLD_ITER))
    return rows


def _ns_term(repo):
    rel = "api/src/ns/_term.rs"
    text = _strip(read(repo, rel))  # noqa: F821
    fns = _fns(_impl_body(text, r"impl<'a>\s*Term\s*for\s*NsTerm<'a>\s*\{", "impl Term for NsTerm", rel))
    want = ("matchother.iri(){Some(iri)=>{letns=self.ns.as_str();"
            "iri.as_str().starts_with(ns)&&&iri[ns.len()..]==self.suffix}None=>false,}")
    overridden = sorted(k for k in fns if k in ("eq", "cmp", "hash"))
    return fns.get("eq") == want and overridden == ["eq"]


ACCESSORS = ["kind", "iri", "bnode_id", "lexical_form", "datatype", "language_tag", "variable", "triple", "to_triple",
             "borrow_term", "eq", "cmp", "hash"]


def _delegation_rows(repo):
    rows = []

    def classify(name, body, inner, ctor):
        """inner: the expression of the wrapped term (`self.0`); ctor: wrapper constructor for mapped results"""
        if body is None:
            return "absent"
        b = body.rstrip(";")
        simple = {
            "kind": ["%s.kind()" % inner],
            "iri": ["%s.iri()" % inner],
            "bnode_id": ["%s.bnode_id()" % inner],
            "lexical_form": ["%s.lexical_form()" % inner],
            "datatype": ["%s.datatype()" % inner],
            "language_tag": ["%s.language_tag()" % inner],
            "variable": ["%s.variable()" % inner],
            "eq": ["%s.eq(other)" % inner],
            "cmp": ["%s.cmp(other)" % inner],
            "hash": ["%s.hash(state)" % inner],
        }
        if ctor:
            simple["triple"] = ["%s.triple().map(|a|a.map(%s))" % (inner, ctor), "%s.triple()" % inner]
            simple["to_triple"] = ["%s.to_triple().map(|a|a.map(%s))" % (inner, ctor), "%s.to_triple().map(|tr|tr.map(From::from))" % inner]
            simple["borrow_term"] = ["%s(%s.borrow_term())" % (ctor, inner), "&%s" % inner]
        else:
            simple["triple"] = ["%s.triple()" % inner]
            simple["to_triple"] = ["%s.triple()" % inner, "%s.to_triple()" % inner]
            simple["borrow_term"] = ["*self", "&%s" % inner]
        return "delegates" if b in simple.get(name, []) else "other"

    specs = [
        ("CmpTerm", "api/src/term/_cmp.rs", r"impl<T:\s*Term>\s*Term\s*for\s*CmpTerm<T>\s*\{", "self.0", "CmpTerm"),
        ("IsoTerm", "isomorphism/src/iso_term.rs", r"impl<T:\s*Term>\s*Term\s*for\s*IsoTerm<T>\s*\{", "self.0", "IsoTerm"),
        ("ResultTerm", "sparql/src/term.rs", r"impl\s+Term\s+for\s+ResultTerm\s*\{", "self.inner", "ResultTerm"),
        ("&T", TERM_RS, r"impl<'a,\s*T>\s*Term\s*for\s*&'a\s*T\s*where[^{]*\{", "(*self)", None),
    ]
    for ty, rel, hdr, inner, ctor in specs:
        text = _strip(read(repo, rel))  # noqa: F821
        fns = _fns(_impl_body(text, hdr, "impl Term for " + ty, rel))
        for a in ACCESSORS:
            rows.append((ty, a, classify(a, fns.get(a), inner, ctor)))
    # C14nTerm: `match self { Blank(..) => .., Other(t) => t.m(), }`
    rel = "c14n/src/_c14n_term.rs"
    text = _strip(read(repo, rel))  # noqa: F821
    fns = _fns(_impl_body(text, r"impl<T:\s*Term>\s*Term\s*for\s*C14nTerm<T>\s*\{", "impl Term for C14nTerm", rel))
    for a in ACCESSORS:
        b = fns.get(a)
        if b is None:
            st = "absent"
        elif a == "borrow_term":
            st = "delegates" if b == "self" else "other"
        elif re.fullmatch(r"matchself\{Blank\((_|b)\)=>[^,]+?,Other\(t\)=>t\.%s\(\),\}" % a, b):
            st = "delegates"
        elif b.startswith("unimplemented!(") or "unimplemented!(" in b:
            st = "unimplemented"
        else:
            st = "other"
        rows.append(("C14nTerm", a, st))
    return rows


STD_FILES = ["api/src/term/_simple.rs", "api/src/term/_cmp.rs", "api/src/ns/_term.rs", "term/src/_macro.rs",
             "term/src/_generic.rs", "sparql/src/term.rs"]
STD_OK = {
    "eq": ["Term::eq(self,other.borrow_term())", "Term::eq(&self.0,other.borrow_term())"],
    "partial_cmp": ["Some(Term::cmp(self,other.borrow_term()))", "Some(Term::cmp(&self.0,other.borrow_term()))"],
    "cmp": ["Term::cmp(self,other)", "Term::cmp(self,other.borrow_term())", "Term::cmp(&self.0,other.borrow_term())"],
    "hash": ["Term::hash(self,state)", "Term::hash(&self.0,state)"],
}
STD_EXPECT = {"api/src/term/_simple.rs": 4, "api/src/term/_cmp.rs": 4, "api/src/ns/_term.rs": 1, "term/src/_macro.rs": 4,
              "term/src/_generic.rs": 4, "sparql/src/term.rs": 4}


def _std_impls(repo):
    rows = []
    hdr = re.compile(r"impl\s*(?:<[^{]*?>)?\s*((?:std::hash::)?Hash|PartialEq<\w+>|PartialOrd<\w+>|Ord)\s+for\s+([\w$<>'_, ]+?)\s*\{")
    for rel in STD_FILES:
        text = _strip(read(repo, rel))  # noqa: F821
        n = 0
        for m in hdr.finditer(text):
            trait = m.group(1).replace("std::hash::", "")
            ty = _squash(m.group(2))
            body, _ = _block(text, m.end() - 1)
            fns = _fns(body)
            for fn, b in sorted(fns.items()):
                if fn not in STD_OK:
                    continue
                n += 1
                rows.append(("%s: %s for %s" % (rel, trait, ty), fn, b.rstrip(";") in STD_OK[fn]))
        if n < STD_EXPECT[rel]:
            raise ExtractError("%s: only %d std PartialEq/PartialOrd/Ord/Hash methods found, expected >= %d"  # noqa: F821
                               % (rel, n, STD_EXPECT[rel]))
    return rows


def extract_term_kind(repo):
    text = _strip(read(repo, TERM_RS))  # noqa: F821
    disc, derives = _term_kind(text)
    shape = _default_shape(text)
    tag = _tag_folds(repo)
    ns = _ns_term(repo)
    deleg = _delegation_rows(repo)
    std = _std_impls(repo)
    b = lambda x: "true" if x else "false"  # noqa: E731
    o = [HEADER, "namespace SophiaModel.Gen.TermKind\n\n"]  # noqa: F821
    o.append("/-- `enum TermKind` of %s: (variant, explicit discriminant), sorted by variant name -/\n" % TERM_RS)
    o.append("def disc : List (String × Nat) := [%s]\n\n" % ", ".join("(%s, %d)" % (_lean_str(n), v) for n, v in disc))
    o.append("/-- its `#[derive(...)]` list, sorted -/\n")
    o.append("def derives : List String := [%s]\n\n" % ", ".join(_lean_str(d) for d in derives))
    o.append("/-- statements of the default `Term::eq` / `Term::cmp` / `Term::hash` that `Basic/TermOrder.lean` transcribes:\n"
             "(what, still present verbatim up to white space) -/\n")
    o.append("def defaultShape : List (String × Bool) := [\n%s]\n\n" % ",\n".join("  (%s, %s)" % (_lean_str(l), b(v)) for l, v in shape))
    o.append("/-- `LanguageTag`'s std impls fold ASCII case (api/src/term/language_tag.rs) -/\n")
    o.append("def tagFolds : List (String × Bool) := [\n%s]\n\n" % ",\n".join("  (%s, %s)" % (_lean_str(l), b(v)) for l, v in tag))
    o.append("/-- `NsTerm::eq` is `iri.starts_with(ns) && &iri[ns.len()..] == suffix`, and `eq` is the only one of\n"
             "eq/cmp/hash that `NsTerm` overrides (api/src/ns/_term.rs) -/\n")
    o.append("def nsTermEqShape : Bool := %s\n\n" % b(ns))
    o.append("/-- wrappers: (type, `Term` method, \"delegates\" | \"absent\" | \"unimplemented\" | \"other\") -/\n")
    o.append("def delegation : List (String × String × String) := [\n%s]\n\n"
             % ",\n".join("  (%s, %s, %s)" % (_lean_str(t), _lean_str(m), _lean_str(s)) for t, m, s in deleg))
    o.append("/-- std impls of term types: (impl, method, body is the one-line call of the `Term` method) -/\n")
    o.append("def stdImpls : List (String × String × Bool) := [\n%s]\n\n"
             % ",\n".join("  (%s, %s, %s)" % (_lean_str(t), _lean_str(m), b(v)) for t, m, v in std))
    o.append("end SophiaModel.Gen.TermKind\n")
    info = {"disc": disc, "derives": derives,
            "default_shape_missing": [l for l, v in shape if not v],
            "tag_folds_missing": [l for l, v in tag if not v],
            "ns_term_eq_shape": ns,
            "delegation_not_delegating": ["%s::%s=%s" % r for r in deleg if r[2] != "delegates"],
            "std_impls": len(std), "std_impls_not_delegating": ["%s %s" % (t, m) for t, m, v in std if not v]}
    return "".join(o), info


EXTRACTORS = {"term_kind": ("TermKind.lean", extract_term_kind)}
