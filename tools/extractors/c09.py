"""C09 extractors (fail-closed).  `read`, `ExtractError`, `HEADER` are injected by tools/extract.py.

regexes_iri -> Gen/IriRegexes.lean   (namespace SophiaModel.Gen.Iri)
    IRI_REGEX / IRELATIVE_REF_REGEX regenerated from IRI_REGEX_SRC / IRELATIVE_REF_REGEX_SRC of
    iri/src/_regex.rs ONLY, plus IRI_REF_REGEX = RegexSet[abs, rel] and the three `is_*_iri_ref`
    bodies.  C09 depends on this table instead of the shared `regexes` one, so an unsupported but
    harmless syntax change in an unrelated regex (turtle's DOUBLE, LANG_TAG, ...) cannot turn C09 red.

iri_wiring -> Gen/IriWiring.lean     (namespace SophiaModel.Gen.IriWiring)
    which validator / resolver entry point each typed constructor calls:
      Iri::new, IriRef::new                       (iri/src/_wrapper.rs)
      Iri/IriRef::{as_base,to_base,resolve}       (iri/src/_wrapper.rs)
      BaseIri::new, BaseIriRef::new, output_abs/output_rel of the typed Resolvable (iri/src/resolve.rs)
      is_valid_suffixed_iri_ref                   (iri/src/_regex.rs)
      Namespace::new, Namespace::get, NsTerm's Display (api/src/ns/_namespace.rs, _term.rs)
    The validator names are RECORDED (the theorems of Props/C09.lean are stated over these constants: a
    constructor wired to the wrong validator makes `iri_new_exact` / `wiring_pinned` fail); every other
    shape is CHECKED and anything not understood raises ExtractError.
"""
import re
import rxparse

RX = "iri/src/_regex.rs"
WR = "iri/src/_wrapper.rs"
RS = "iri/src/resolve.rs"
NS = "api/src/ns/_namespace.rs"
NT = "api/src/ns/_term.rs"

STATIC_RE = re.compile(
    r'static\s+(?:ref\s+)?(\w+)\s*:\s*(?:&str|Regex)\s*=\s*(?:Regex::new\(\s*)?r(#*)"(.*?)"\2', re.S)


def _fail(msg):
    raise ExtractError(msg)  # noqa: F821


def _code(repo, rel):
    """source without the unit tests and without comments (whitespace squashed)"""
    text = read(repo, rel)  # noqa: F821
    m = re.search(r"\n#\[cfg\(test\)\]\s*\nmod test\b", text)
    if m:
        text = text[:m.start()]
    out = []
    for line in text.split("\n"):
        i = line.find("//")
        if i >= 0 and '"' not in line[:i]:
            line = line[:i]
        out.append(line)
    return re.sub(r"\s+", "", "\n".join(out))


def extract_regexes_iri(repo):
    t = read(repo, RX)  # noqa: F821
    srcs = {m.group(1): m.group(3) for m in STATIC_RE.finditer(t)}
    em = rxparse.Emitter()
    for lean_name, rust_name in (("IRI_REGEX", "IRI_REGEX_SRC"), ("IRELATIVE_REF_REGEX", "IRELATIVE_REF_REGEX_SRC")):
        if rust_name not in srcs:
            _fail("regex %s not found in %s" % (rust_name, RX))
        try:
            ast = rxparse.parse(srcs[rust_name])
        except rxparse.RxError as e:
            _fail("regex %s in %s: unsupported syntax: %s" % (rust_name, RX, e))
        em.define(lean_name, ast)
    if not re.search(r'RegexSet::new\(\[IRI_REGEX_SRC,\s*IRELATIVE_REF_REGEX_SRC\]\)', t):
        _fail("IRI_REF_REGEX is no longer RegexSet[IRI_REGEX_SRC, IRELATIVE_REF_REGEX_SRC]")
    for name, pat in (("IRI_REGEX", "IRI_REGEX_SRC"), ("IRELATIVE_REF_REGEX", "IRELATIVE_REF_REGEX_SRC")):
        if not re.search(r'static\s+%s\s*:\s*LazyLock<Regex>\s*=\s*LazyLock::new\(\|\|\s*Regex::new\(%s\)\.unwrap\(\)\)' % (name, pat), t):
            _fail("static %s is no longer Regex::new(%s)" % (name, pat))
    for fn, var in (("is_valid_iri_ref", "IRI_REF_REGEX"), ("is_absolute_iri_ref", "IRI_REGEX"),
                    ("is_relative_iri_ref", "IRELATIVE_REF_REGEX")):
        if not re.search(r'pub fn %s\(txt: &str\) -> bool \{\s*%s\.is_match\(txt\)\s*\}' % (fn, var), t):
            _fail("%s is no longer `%s.is_match(txt)`" % (fn, var))
    out = [HEADER, "import SophiaModel.Regex.Re\n", "namespace SophiaModel.Gen.Iri\nopen SophiaModel\n"]  # noqa: F821
    out += [l + "\n" for l in em.lines]
    out.append("/-- `IRI_REF_REGEX` = `RegexSet::new([IRI_REGEX_SRC, IRELATIVE_REF_REGEX_SRC])`, `is_match` = any -/\n")
    out.append("def IRI_REF_REGEX : Re := .alt IRI_REGEX IRELATIVE_REF_REGEX\n")
    out.append("end SophiaModel.Gen.Iri\n")
    return "".join(out), {"regexes": ["IRI_REGEX", "IRELATIVE_REF_REGEX", "IRI_REF_REGEX"]}


VALIDATORS = {"is_absolute_iri_ref": "abs", "is_relative_iri_ref": "rel", "is_valid_iri_ref": "ref"}


def _validator(fn, where):
    if fn not in VALIDATORS:
        _fail("%s calls `%s`, not one of the three validators" % (where, fn))
    return VALIDATORS[fn]


def _wrap_block(code, name):
    i = code.find("wrap!{%sborrowingstr:" % name)
    if i < 0:
        _fail("%s: `wrap! { %s borrowing str :` not found" % (WR, name))
    depth = 0
    j = code.index("{", i)
    for k in range(j, len(code)):
        if code[k] == "{":
            depth += 1
        elif code[k] == "}":
            depth -= 1
            if depth == 0:
                return code[j + 1:k]
    _fail("%s: unbalanced braces in wrap! { %s" % (WR, name))


def extract_wiring(repo):
    flags = {}
    w = _code(repo, WR)
    for ty, base, key in (("Iri", "BaseIri", "iri"), ("IriRef", "BaseIriRef", "iriRef")):
        blk = _wrap_block(w, ty)
        m = re.search(r"pubfnnew\(iri:T\)->Result<Self,InvalidIri>\{if(\w+)\(iri\.borrow\(\)\)\{Ok\(%s\(iri\)\)\}"
                      r"else\{Err\(InvalidIri\(iri\.borrow\(\)\.to_string\(\)\)\)\}\}" % ty, blk)
        if not m:
            _fail("%s: %s::new is no longer `if <validator>(iri.borrow()) { Ok(..) } else { Err(InvalidIri(..)) }`" % (WR, ty))
        flags[key + "New"] = _validator(m.group(1), "%s::new" % ty)
        if "pubfnas_base(&self)->%s<&str>{%s::new(self.0.borrow()).unwrap()}" % (base, base) not in blk:
            _fail("%s: %s::as_base is no longer `%s::new(self.0.borrow()).unwrap()`" % (WR, ty, base))
        if not re.search(r"pubfnto_base\(self\)->%s<T>whereT:std::ops::Deref<Target=str>,?\{%s::new\(self\.0\)\.unwrap\(\)\}" % (base, base), blk):
            _fail("%s: %s::to_base is no longer `%s::new(self.0).unwrap()`" % (WR, ty, base))
        if "pubfnresolve<U:IsIriRef>(&self,rel:U)->%s<String>{self.as_base().resolve(rel)}" % ty not in blk:
            _fail("%s: %s::resolve is no longer `self.as_base().resolve(rel)`" % (WR, ty))
    r = _code(repo, RS)
    for ty, ox in (("BaseIri", "Oxiri"), ("BaseIriRef", "OxiriRef")):
        if "pubfnnew(iri:T)->Result<Self,IriParseError>{%s::parse(iri).map(%s)}" % (ox, ty) not in r:
            _fail("%s: %s::new is no longer `%s::parse(iri).map(%s)`" % (RS, ty, ox, ty))
    if "pubuseoxiri::{IriasOxiri,IriRefasOxiriRef};" not in r:
        _fail("%s: Oxiri / OxiriRef are no longer oxiri::Iri / oxiri::IriRef" % RS)
    for what, body in (
            ("BaseIri::resolve", "pubfnresolve<R:Resolvable<String>>(&self,iri:R)->R::OutputAbs{R::output_abs(self.0.resolve(iri.borrow()).map(Oxiri::into_inner))}"),
            ("BaseIri::resolve_into", "->R::OutputAbs{R::output_abs(self.0.resolve_into(iri.borrow(),buf).map(|()|&buf[..]))}"),
            ("BaseIriRef::resolve", "pubfnresolve<R:Resolvable<String>>(&self,iri:R)->R::OutputRel{R::output_rel(self.0.resolve(iri.borrow()).map(OxiriRef::into_inner))}"),
            ("BaseIriRef::resolve_into", "->R::OutputRel{R::output_rel(self.0.resolve_into(iri.borrow(),buf).map(|()|&buf[..]))}"),
            ("typed Resolvable::output_abs", "fnoutput_abs(res:Result<T,IriParseError>)->Self::OutputAbs{Iri::new_unchecked(res.unwrap())}"),
            ("typed Resolvable::output_rel", "fnoutput_rel(res:Result<T,IriParseError>)->Self::OutputRel{IriRef::new_unchecked(res.unwrap())}"),
            ("&str Resolvable::output_abs", "fnoutput_abs(res:Result<T,IriParseError>)->Self::OutputAbs{res.map(|iri|Iri::new_unchecked(iri))}"),
            ("&str Resolvable::output_rel", "fnoutput_rel(res:Result<T,IriParseError>)->Self::OutputRel{res.map(|iri|IriRef::new_unchecked(iri))}")):
        if body not in r:
            _fail("%s: %s no longer has the transcribed body" % (RS, what))
    x = _code(repo, RX)
    m = re.search(r"pubfnis_valid_suffixed_iri_ref\(ns:&str,suffix:Option<&str>\)->bool\{matchsuffix\{None=>(\w+)\(ns\),"
                  r"Some\(suffix\)=>\{letmutbuffer=String::with_capacity\(ns\.len\(\)\+suffix\.len\(\)\);"
                  r"buffer\.push_str\((\w+)\);buffer\.push_str\((\w+)\);(\w+)\(&buffer\)\}\}\}", x)
    if not m:
        _fail("%s: is_valid_suffixed_iri_ref no longer has the transcribed shape" % RX)
    flags["suffixedNone"] = _validator(m.group(1), "is_valid_suffixed_iri_ref(ns, None)")
    flags["suffixedSome"] = _validator(m.group(4), "is_valid_suffixed_iri_ref(ns, Some(..))")
    if (m.group(2), m.group(3)) == ("ns", "suffix"):
        flags["suffixedNsFirst"] = "true"
    elif (m.group(2), m.group(3)) == ("suffix", "ns"):
        flags["suffixedNsFirst"] = "false"
    else:
        _fail("%s: is_valid_suffixed_iri_ref concatenates %s, %s" % (RX, m.group(2), m.group(3)))
    n = _code(repo, NS)
    if "pubfnnew(iri:T)->Result<Self,InvalidIri>{IriRef::new(iri).map(Namespace)}" not in n:
        _fail("%s: Namespace::new is no longer `IriRef::new(iri).map(Namespace)`" % NS)
    if ("pubfnget<'s>(&'sself,suffix:&'sstr)->Result<NsTerm<'s>,InvalidIri>{letns_term=NsTerm{ns:self.0.as_ref(),suffix,};"
            "IriRef::new(ns_term.to_string())?;Ok(ns_term)}") not in n:
        _fail("%s: Namespace::get is no longer `IriRef::new(NsTerm{ns, suffix}.to_string())?; Ok(ns_term)`" % NS)
    t = _code(repo, NT)
    m = re.search(r'implfmt::DisplayforNsTerm<\'_>\{fnfmt\(&self,f:&mutfmt::Formatter<\'_>\)->fmt::Result\{'
                  r'write!\(f,"\{\}\{\}",self\.(\w+)(?:\.as_str\(\))?,self\.(\w+)(?:\.as_str\(\))?\)\}\}', t)
    if not m or {m.group(1), m.group(2)} != {"ns", "suffix"}:
        _fail("%s: Display for NsTerm is no longer `write!(f, \"{}{}\", ns, suffix)`" % NT)
    flags["nsTermNsFirst"] = "true" if m.group(1) == "ns" else "false"
    L = [HEADER,  # noqa: F821
         "namespace SophiaModel.Gen.IriWiring\n",
         "/-- the three validators of iri/src/_regex.rs: `is_absolute_iri_ref`, `is_relative_iri_ref`, `is_valid_iri_ref` -/\n",
         "inductive Validator | abs | rel | ref\n  deriving Repr, DecidableEq, Inhabited\n\n",
         "/-- `Iri::new`: `if <this>(iri.borrow())` -/\n",
         "def iriNew : Validator := .%s\n" % flags["iriNew"],
         "/-- `IriRef::new`: `if <this>(iri.borrow())` -/\n",
         "def iriRefNew : Validator := .%s\n" % flags["iriRefNew"],
         "/-- `is_valid_suffixed_iri_ref(ns, None)` -/\n",
         "def suffixedNone : Validator := .%s\n" % flags["suffixedNone"],
         "/-- `is_valid_suffixed_iri_ref(ns, Some(suffix))`: validator applied to the buffer -/\n",
         "def suffixedSome : Validator := .%s\n" % flags["suffixedSome"],
         "/-- ... and whether the buffer is `ns` followed by `suffix` -/\n",
         "def suffixedNsFirst : Bool := %s\n" % flags["suffixedNsFirst"],
         "/-- `Display for NsTerm` (what `Namespace::get` validates through `IriRef::new`): `ns` first? -/\n",
         "def nsTermNsFirst : Bool := %s\n" % flags["nsTermNsFirst"],
         "/-- checked shapes (constant; anything else fails the extraction): `Iri::as_base/to_base` =\n"
         "`BaseIri::new(..).unwrap()` = `oxiri::Iri::parse(..).unwrap()`; `IriRef::as_base/to_base` =\n"
         "`oxiri::IriRef::parse(..).unwrap()`; `Iri/IriRef::resolve` = `self.as_base().resolve(rel)`; typed\n"
         "`Resolvable::output_abs/output_rel` = `new_unchecked(res.unwrap())`; `Namespace::new` = `IriRef::new`;\n"
         "`Namespace::get` = `IriRef::new(ns_term.to_string())?` -/\n",
         "def shapesChecked : Bool := true\n",
         "end SophiaModel.Gen.IriWiring\n"]
    return "".join(L), {"wiring": flags}


EXTRACTORS = {
    "regexes_iri": ("IriRegexes.lean", extract_regexes_iri),
    "iri_wiring": ("IriWiring.lean", extract_wiring),
}
