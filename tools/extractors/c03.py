"""C03: escape table of `quoted_string` (turtle/src/serializer/nt.rs) -> Gen/NtEscapes.lean.

Fail closed: the function body, with white space normalised, must be exactly the known control flow
(`loop {` search the first cut byte; write the prefix; `match cutchar` arms; return if the cut byte was
the last one; continue with the rest `}` — in exactly this order); only the cut
condition and the arms are free.  `ExtractError`, `read`, `HEADER` are injected by tools/extract.py.
"""
import re

REL = "turtle/src/serializer/nt.rs"

BYTE = r"b'(?:\\.|\\x[0-9a-fA-F]{2}|[^\\'])'"

TEMPLATE = (
    r"^loop \{ let mut cut = txt\.len\(\); let mut cutchar = b'\\0'; "
    r"for \(pos, chr\) in txt\.iter\(\)\.enumerate\(\) \{ let chr = \*chr; "
    r"if (?P<guard>.+?) \{ cut = pos; cutchar = chr; break; \} \} "
    r"w\.write_all\(&txt\[\.\.cut\]\)\?; "
    r"if cut < txt\.len\(\) \{ match cutchar \{ (?P<arms>.*?) _ => unreachable!\(\),? \} \};? "
    r"if cut \+ 1 >= txt\.len\(\) \{ return Ok\(\(\)\); \} "
    r"txt = &txt\[cut \+ 1\.\.\]; \}$"
)

ESC = {"n": 10, "r": 13, "t": 9, "0": 0, "\\": 92, "'": 39, '"': 34}


def _byte(lit):
    """b'..' -> int"""
    inner = lit[2:-1]
    if inner.startswith("\\x"):
        return int(inner[2:], 16)
    if inner.startswith("\\"):
        if inner[1] not in ESC:
            raise ExtractError("quoted_string: unknown byte escape %s" % lit)
        return ESC[inner[1]]
    if len(inner) != 1 or ord(inner) > 0x7F:
        raise ExtractError("quoted_string: unsupported byte literal %s" % lit)
    return ord(inner)


def _bytestr(body):
    """contents of b"..." -> [int]"""
    out, i = [], 0
    while i < len(body):
        c = body[i]
        if c == "\\":
            e = body[i + 1]
            if e == "x":
                out.append(int(body[i + 2:i + 4], 16)); i += 4
            elif e in ESC:
                out.append(ESC[e]); i += 2
            else:
                raise ExtractError("quoted_string: unknown escape \\%s in byte string" % e)
        else:
            if ord(c) > 0x7F:
                raise ExtractError("quoted_string: non-ASCII byte string")
            out.append(ord(c)); i += 1
    return out


def _lean_char(n):
    if n > 0x7F:
        raise ExtractError("quoted_string: byte 0x%02x >= 0x80: the scalar-value model does not apply" % n)
    special = {10: "'\\n'", 13: "'\\r'", 9: "'\\t'", 92: "'\\\\'", 39: "'\\''", 34: "'\"'"}
    if n in special:
        return special[n]
    if 32 <= n <= 126:
        return "'%s'" % chr(n)
    return "Char.ofNat %d" % n


def _function_body(text):
    m = re.search(r"fn quoted_string<W: io::Write>\(w: &mut W, mut txt: &\[u8\]\) -> io::Result<\(\)> \{", text)
    if not m:
        raise ExtractError("quoted_string: signature not found in " + REL)
    i = m.end()
    depth, j = 1, i
    in_str = None
    while j < len(text) and depth:
        c = text[j]
        if in_str:
            if c == "\\":
                j += 1
            elif c == in_str:
                in_str = None
        elif c == '"':
            in_str = '"'
        elif c == "'" and text[j - 1] == "b":
            in_str = "'"
        elif c == "{":
            depth += 1
        elif c == "}":
            depth -= 1
        j += 1
    if depth:
        raise ExtractError("quoted_string: unbalanced braces")
    return text[i:j - 1]


def extract(repo):
    text = read(repo, REL)
    body = _function_body(text)
    body = re.sub(r"//[^\n]*", "", body)
    norm = " ".join(body.split())
    m = re.match(TEMPLATE, norm)
    if not m:
        raise ExtractError("quoted_string: control flow not recognised (body: %s)" % norm[:300])
    guard = m.group("guard")
    g = re.match(r"^(?:chr <= (?P<bound>%s) && )?\((?P<alts>chr == %s(?: \|\| chr == %s)*)\)$" % (BYTE, BYTE, BYTE), guard)
    if not g:
        g2 = re.match(r"^(?P<alts>chr == %s(?: \|\| chr == %s)*)$" % (BYTE, BYTE), guard)
        if not g2:
            raise ExtractError("quoted_string: cut condition not recognised: %s" % guard)
        bound, alts = None, g2.group("alts")
    else:
        bound, alts = g.group("bound"), g.group("alts")
    cut = [_byte(x) for x in re.findall(BYTE, alts)]
    bound_n = _byte(bound) if bound else 255
    arms_src = m.group("arms")
    arm_re = re.compile(r"(%s) => \{ ((?:w\.write_all\(b\"(?:\\.|[^\"\\])*\"\)\?; ?)*)\},? ?" % BYTE)
    pos, arms = 0, []
    while pos < len(arms_src):
        a = arm_re.match(arms_src, pos)
        if not a:
            raise ExtractError("quoted_string: match arm not recognised at: %s" % arms_src[pos:pos + 80])
        written = []
        for w in re.findall(r"w\.write_all\(b\"((?:\\.|[^\"\\])*)\"\)\?;", a.group(2)):
            written += _bytestr(w)
        arms.append((_byte(a.group(1)), written))
        pos = a.end()
    if len(set(k for k, _ in arms)) != len(arms):
        raise ExtractError("quoted_string: duplicate match arm")
    lines = [HEADER,
             "-- source: %s, fn quoted_string\n" % REL,
             "namespace SophiaModel.Gen\n\n",
             "/-- upper bound of the cut search: `chr <= b'..'` (255 if absent) -/\n",
             "def ntCutBound : Nat := %d\n\n" % bound_n,
             "/-- bytes the cut search compares with (`chr == b'..'`), in source order -/\n",
             "def ntCutChars : List Char := [%s]\n\n" % ", ".join(_lean_char(c) for c in cut),
             "/-- `match cutchar` arms in source order: byte ↦ bytes written instead of it\n"
             "(any other cut byte reaches `unreachable!()`) -/\n",
             "def ntEscapeArms : List (Char × List Char) :=\n  [%s]\n\n" % ", ".join(
                 "(%s, [%s])" % (_lean_char(k), ", ".join(_lean_char(x) for x in v)) for k, v in arms),
             "end SophiaModel.Gen\n"]
    info = {"cut_bound": bound_n, "cut_bytes": cut, "arms": {str(k): v for k, v in arms}}
    return "".join(lines), info


# ---------------------------------------------------------------------------------------------
# pure-ASCII mode: today both serializers start with `if self.config.ascii { todo!(..) }`.
# The flags say whether that is still ALL the source does with the option; they never fail: when the
# mode gets implemented the model stops predicting a panic and the driver only keeps the oracles
# (round trip, ASCII-only output, one statement per line) for `ascii` requests.

def _ascii_flag(repo, rel, allowed):
    text = read(repo, rel)
    text = re.sub(r"//[^\n]*", "", text)          # comments (incl. doc comments)
    cut = text.find("#[cfg(test)]")
    if cut >= 0:
        text = text[:cut]
    norm = " ".join(text.split())
    guard = r"if self\.config\.ascii \{ todo!\((?:\"[^\"]*\")?\);? \}"
    n_guard = len(re.findall(guard, norm))
    rest = re.sub(guard, "", norm)
    for a in allowed:
        rest = rest.replace(a, "")
    other = len(re.findall(r"\bascii\b", rest))
    return n_guard == 1 and other == 0, {"todo_guards": n_guard, "other_uses_of_ascii": other}


def extract_ascii(repo):
    nt, i1 = _ascii_flag(repo, "turtle/src/serializer/nt.rs",
                         ["pub(super) ascii: bool,", "pub fn set_ascii(&mut self, ascii: bool) -> &mut Self { self.ascii = ascii; self }"])
    nq, i2 = _ascii_flag(repo, "turtle/src/serializer/nq.rs", [])
    lines = [HEADER,
             "-- source: turtle/src/serializer/nt.rs (NtSerializer::serialize_triples), nq.rs (NqSerializer::serialize_quads)\n",
             "namespace SophiaModel.Gen\n\n",
             "/-- `serialize_triples` starts with `if self.config.ascii { todo!(..) }` and nothing else reads the option -/\n",
             "def ntAsciiTodo : Bool := %s\n\n" % ("true" if nt else "false"),
             "/-- same for `NqSerializer::serialize_quads` -/\n",
             "def nqAsciiTodo : Bool := %s\n\n" % ("true" if nq else "false"),
             "end SophiaModel.Gen\n"]
    return "".join(lines), {"nt": i1, "nq": i2}


EXTRACTORS = {"ntescapes": ("NtEscapes.lean", extract), "ntascii": ("NtAscii.lean", extract_ascii)}
