"""C03: escape table of `quoted_string` (turtle/src/serializer/nt.rs) -> Gen/NtEscapes.lean.

Fail closed: the function body, with white space normalised, must be exactly the known control flow
(`loop {` search the first cut byte; write the prefix; `match cutchar` arms; return if the cut byte was
the last one; continue with the rest `}` — in exactly this order); only the cut
condition and the arms are free.  `ExtractError`, `read`, `HEADER` are injected by tools/extract.py.
"""
import re

REL = "turtle/src/serializer/nt.rs"

BYTE = r"b'(?:\\.|\\x[0-9a-fA-F]{2}|[^\\'])'"

TEMPLATE = (
    r"^loop \{ let mut cut = txt\.len\(\); let mut cutchar = b'\\0'; "
    r"for \(pos, chr\) in txt\.iter\(\)\.enumerate\(\) \{ let chr = \*chr; "
    r"if (?P<guard>.+?) \{ cut = pos; cutchar = chr; break; \} \} "
    r"w\.write_all\(&txt\[\.\.cut\]\)\?; "
    r"if cut < txt\.len\(\) \{ match cutchar \{ (?P<arms>.*?) _ => unreachable!\(\),? \} \};? "
    r"if cut \+ 1 >= txt\.len\(\) \{ return Ok\(\(\)\); \} "
    r"txt = &txt\[cut \+ 1\.\.\]; \}$"
)

ESC = {"n": 10, "r": 13, "t": 9, "0": 0, "\\": 92, "'": 39, '"': 34}


def _byte(lit):
    """b'..' -> int"""
    inner = lit[2:-1]
    if inner.startswith("\\x"):
        return int(inner[2:], 16)
    if inner.startswith("\\"):
        if inner[1] not in ESC:
            raise ExtractError("quoted_string: unknown byte escape %s" % lit)
        return ESC[inner[1]]
    if len(inner) != 1 or ord(inner) > 0x7F:
        raise ExtractError("quoted_string: unsupported byte literal %s" % lit)
    return ord(inner)


def _bytestr(body):
    """contents of b"..." -> [int]"""
    out, i = [], 0
    while i < len(body):
        c = body[i]
        if c == "\\":
            e = body[i + 1]
            if e == "x":
                out.append(int(body[i + 2:i + 4], 16)); i += 4
            elif e in ESC:
                out.append(ESC[e]); i += 2
            else:
                raise ExtractError("quoted_string: unknown escape \\%s in byte string" % e)
        else:
            if ord(c) > 0x7F:
                raise ExtractError("quoted_string: non-ASCII byte string")
            out.append(ord(c)); i += 1
    return out


def _lean_char(n):
    if n > 0x7F:
        raise ExtractError("quoted_string: byte 0x%02x >= 0x80: the scalar-value model does not apply" % n)
    special = {10: "'\\n'", 13: "'\\r'", 9: "'\\t'", 92: "'\\\\'", 39: "'\\''", 34: "'\"'"}
    if n in special:
        return special[n]
    if 32 <= n <= 126:
        return "'%s'" % chr(n)
    return "Char.ofNat %d" % n


def _function_body(text):
    m = re.search(r"fn quoted_string<W: io::Write>\(w: &mut W, mut txt: &\[u8\]\) -> io::Result<\(\)> \{", text)
    if not m:
        raise ExtractError("quoted_string: signature not found in " + REL)
    i = m.end()
    depth, j = 1, i
    in_str = None
    while j < len(text) and depth:
        c = text[j]
        if in_str:
            if c == "\\":
                j += 1
            elif c == in_str:
                in_str = None
        elif c == '"':
            in_str = '"'
        elif c == "'" and text[j - 1] == "b":
            in_str = "'"
        elif c == "{":
            depth += 1
        elif c == "}":
            depth -= 1
        j += 1
    if depth:
        raise ExtractError("quoted_string: unbalanced braces")
    return text[i:j - 1]


def extract(repo):
    text = read(repo, REL)
    body = _function_body(text)
    body = re.sub(r"//[^\n]*", "", body)
    norm = " ".join(body.split())
    m = re.match(TEMPLATE, norm)
    if not m:
        raise ExtractError("quoted_string: control flow not recognised (body: %s)" % norm[:300])
    guard = m.group("guard")
    g = re.match(r"^(?:chr <= (?P<bound>%s) && )?\((?P<alts>chr == %s(?: \|\| chr == %s)*)\)$" % (BYTE, BYTE, BYTE), guard)
    if not g:
        g2 = re.match(r"^(?P<alts>chr == %s(?: \|\| chr == %s)*)$" % (BYTE, BYTE), guard)
        if not g2:
            raise ExtractError("quoted_string: cut condition not recognised: %s" % guard)
        bound, alts = None, g2.group("alts")
    else:
        bound, alts = g.group("bound"), g.group("alts")
    cut = [_byte(x) for x in re.findall(BYTE, alts)]
    bound_n = _byte(bound) if bound else 255
    arms_src = m.group("arms")
    arm_re = re.compile(r"(%s) => \{ ((?:w\.write_all\(b\"(?:\\.|[^\"\\])*\"\)\?; ?)*)\},? ?" % BYTE)
    pos, arms = 0, []
    while pos < len(arms_src):
        a = arm_re.match(arms_src, pos)
        if not a:
            raise ExtractError("quoted_string: match arm not recognised at: %s" % arms_src[pos:pos + 80])
        written = []
        for w in re.findall(r"w\.write_all\(b\"((?:\\.|[^\"\\])*)\"\)\?;", a.group(2)):
            written += _bytestr(w)
        arms.append((_byte(a.group(1)), written))
        pos = a.end()
    if len(set(k for k, _ in arms)) != len(arms):
        raise ExtractError("quoted_string: duplicate match arm")
    lines = [HEADER,
             "-- source: %s, fn quoted_string\n" % REL,
             "namespace SophiaModel.Gen\n\n",
             "/-- upper bound of the cut search: `chr <= b'..'` (255 if absent) -/\n",
             "def ntCutBound : Nat := %d\n\n" % bound_n,
             "/-- bytes the cut search compares with (`chr == b'..'`), in source order -/\n",
             "def ntCutChars : List Char := [%s]\n\n" % ", ".join(_lean_char(c) for c in cut),
             "/-- `match cutchar` arms in source order: byte ↦ bytes written instead of it\n"
             "(any other cut byte reaches `unreachable!()`) -/\n",
             "def ntEscapeArms : List (Char × List Char) :=\n  [%s]\n\n" % ", ".join(
                 "(%s, [%s])" % (_lean_char(k), ", ".join(_lean_char(x) for x in v)) for k, v in arms),
             "end SophiaModel.Gen\n"]
    info = {"cut_bound": bound_n, "cut_bytes": cut, "arms": {str(k): v for k, v in arms}}
    return "".join(lines), info


# ---------------------------------------------------------------------------------------------
# pure-ASCII mode: today both serializers start with `if self.config.ascii { todo!(..) }`.
# The flags say whether that is still ALL the source does with the option; they never fail: when the
# mode gets implemented the model stops predicting a panic and the driver only keeps the oracles
# (round trip, ASCII-only output, one statement per line) for `ascii` requests.

def _ascii_flag(repo, rel, allowed):
    text = read(repo, rel)
    text = re.sub(r"//[^\n]*", "", text)          # comments (incl. doc comments)
    cut = text.find("#[cfg(test)]")
    if cut >= 0:
        text = text[:cut]
    norm = " ".join(text.split())
    guard = r"if self\.config\.ascii \{ todo!\((?:\"[^\"]*\")?\);? \}"
    n_guard = len(re.findall(guard, norm))
    rest = re.sub(guard, "", norm)
    for a in allowed:
        rest = rest.replace(a, "")
    other = len(re.findall(r"\bascii\b", rest))
    return n_guard == 1 and other == 0, {"todo_guards": n_guard, "other_uses_of_ascii": other}


def extract_ascii(repo):
    nt, i1 = _ascii_flag(repo, "turtle/src/serializer/nt.rs",
                         ["pub(super) ascii: bool,", "pub fn set_ascii(&mut self, ascii: bool) -> &mut Self { self.ascii = ascii; self }"])
    nq, i2 = _ascii_flag(repo, "turtle/src/serializer/nq.rs", [])
    lines = [HEADER,
             "-- source: turtle/src/serializer/nt.rs (NtSerializer::serialize_triples), nq.rs (NqSerializer::serialize_quads)\n",
             "namespace SophiaModel.Gen\n\n",
             "/-- `serialize_triples` starts with `if self.config.ascii { todo!(..) }` and nothing else reads the option -/\n",
             "def ntAsciiTodo : Bool := %s\n\n" % ("true" if nt else "false"),
             "/-- same for `NqSerializer::serialize_quads` -/\n",
             "def nqAsciiTodo : Bool := %s\n\n" % ("true" if nq else "false"),
             "end SophiaModel.Gen\n"]
    return "".join(lines), {"nt": i1, "nq": i2}


# ---------------------------------------------------------------------------------------------
# write_term / write_triple / the per-statement closures of serialize_triples, serialize_quads, and the
# default methods serialize_graph / serialize_dataset  ->  Gen/NtWriter.lean
#
# The bodies are parsed into a tiny op language (fail closed: every statement must be one of the known
# forms, each fallible call must be followed by `?` or be the tail expression):
#   raw "…"          w.write_all(b"…")
#   iri|bnode|tag|dt|var      w.write_all(<accessor>.as_bytes())   (the component, verbatim)
#   lex              quoted_string(w, t.lexical_form().unwrap().as_bytes())
#   triple           write_triple(w, <triple>)   /   sub s|p|o|g   write_term(w, <component>)
# and the literal arm's decision tree  `if let Some(tag) = t.language_tag() {A} else { let dt = …;
# if <ns>::<name> != dt {B} else {C} }`  with <ns>::<name> resolved through api/src/ns.rs.

def _fn_body(text, sig_re, what):
    m = re.search(sig_re, text)
    if not m:
        raise ExtractError("%s: signature not found" % what)
    i = text.index("{", m.end() - 1) if text[m.end() - 1] != "{" else m.end() - 1
    depth, j, in_str = 0, i, None
    while j < len(text):
        c = text[j]
        if in_str:
            if c == "\\":
                j += 1
            elif c == in_str:
                in_str = None
        elif c == '"':
            in_str = '"'
        elif c == "'" and text[j - 1] == "b":
            in_str = "'"
        elif c == "{":
            depth += 1
        elif c == "}":
            depth -= 1
            if depth == 0:
                return " ".join(re.sub(r"//[^\n]*", "", text[i + 1:j]).split())
        j += 1
    raise ExtractError("%s: unbalanced braces" % what)


_BSTR = r'b"((?:\\.|[^"\\])*)"'
_ACC = {"t.iri().unwrap()": "iri", "t.bnode_id().unwrap()": "bnode", "t.variable().unwrap()": "var", "tag": "tag", "dt": "dt"}


def _ops(src, what, subs=None, tail_ok=True):
    """sequence of `…?;` statements (the last one may be a tail expression without `?;`) -> [(op, arg)]"""
    ops, pos = [], 0
    src = src.strip()
    pats = [
        (re.compile(r"w\.write_all\(" + _BSTR + r"\)"), lambda m: ("raw", _bytestr(m.group(1)))),
        (re.compile(r"w\.write_all\((t\.iri\(\)\.unwrap\(\)|t\.bnode_id\(\)\.unwrap\(\)|t\.variable\(\)\.unwrap\(\)|tag|dt)\.as_bytes\(\)\)"),
         lambda m: (_ACC[m.group(1)], None)),
        (re.compile(r"quoted_string\(w, t\.lexical_form\(\)\.unwrap\(\)\.as_bytes\(\)\)"), lambda m: ("lex", None)),
        (re.compile(r"write_triple\(w, (t\.to_triple\(\)\.unwrap\(\)|t|tr)\)"), lambda m: ("triple", None)),
        (re.compile(r"write_term\(w, (t\.s\(\)|t\.p\(\)|t\.o\(\)|t)\)"),
         lambda m: ("sub", {"t.s()": "s", "t.p()": "p", "t.o()": "o", "t": "g"}[m.group(1)])),
    ]
    while pos < len(src):
        for rx, mk in pats:
            m = rx.match(src, pos)
            if m:
                op = mk(m)
                pos = m.end()
                rest = src[pos:]
                if rest.startswith("?;"):
                    pos += 2
                elif rest.strip() in ("", ",") and tail_ok:
                    pos = len(src)
                else:
                    raise ExtractError("%s: a fallible call is not followed by `?;`: %s" % (what, src[m.start():m.end() + 10]))
                ops.append(op)
                while pos < len(src) and src[pos] == " ":
                    pos += 1
                break
        else:
            raise ExtractError("%s: statement not recognised at: %s" % (what, src[pos:pos + 90]))
    return ops


def _ns_iri(repo, mod, name):
    text = read(repo, "api/src/ns.rs")
    m = re.search(r"pub mod %s \{\s*namespace!\(\s*\"([^\"]*)\",(.*?)\);\s*\}" % re.escape(mod), text, re.S)
    if not m:
        raise ExtractError("namespace %s not found in api/src/ns.rs" % mod)
    body = re.sub(r"//[^\n]*", "", m.group(2))
    plain = body.split(";")[0]
    names = [x.strip() for x in plain.split(",") if x.strip()]
    if name not in names:
        raise ExtractError("%s::%s is not a plain suffix of the namespace" % (mod, name))
    return m.group(1), name


def _lean_str(bs):
    return "[%s]" % ", ".join(_lean_char(b) for b in bs)


def _lean_ops(ops):
    out = []
    for op, arg in ops:
        if op == "raw":
            out.append(".raw %s" % _lean_str(arg))
        elif op == "sub":
            out.append(".sub .%s" % arg)
        else:
            out.append("." + op)
    return "[%s]" % ", ".join(out)


def extract_writer(repo):
    nt = read(repo, REL)
    nq = read(repo, "turtle/src/serializer/nq.rs")
    api = read(repo, "api/src/serializer.rs")
    # ---- write_term
    body = _fn_body(nt, r"pub fn write_term<W, T>\(w: &mut W, t: T\) -> io::Result<\(\)> where W: io::Write, T: Term, \{"
                    .replace(" ", r"\s+"), "write_term")
    m = re.match(r"^use TermKind::\{BlankNode, Iri, Literal, Triple, Variable\}; match t\.kind\(\) \{ (.*) \} Ok\(\(\)\)$", body)
    if not m:
        raise ExtractError("write_term: not `match t.kind() { … } Ok(())`: %s" % body[:200])
    arms_src = m.group(1)
    arms, pos = {}, 0
    while pos < len(arms_src):
        a = re.match(r"(Iri|BlankNode|Literal|Triple|Variable) => \{ ", arms_src[pos:])
        if not a:
            raise ExtractError("write_term: arm not recognised at: %s" % arms_src[pos:pos + 80])
        start = pos + a.end()
        depth, j = 1, start
        while depth:
            if j >= len(arms_src):
                raise ExtractError("write_term: unbalanced arm")
            c = arms_src[j]
            if c == '"':                      # skip byte-string literals (they contain no braces today, be safe)
                j += 1
                while arms_src[j] != '"':
                    j += 2 if arms_src[j] == "\\" else 1
            depth += (c == "{") - (c == "}")
            j += 1
        if a.group(1) in arms:
            raise ExtractError("write_term: duplicate arm " + a.group(1))
        arms[a.group(1)] = arms_src[start:j - 1].strip()
        pos = j
        while pos < len(arms_src) and arms_src[pos] in " ,":
            pos += 1
    if sorted(arms) != ["BlankNode", "Iri", "Literal", "Triple", "Variable"]:
        raise ExtractError("write_term: arms are %s" % sorted(arms))
    simple = {k: _ops(arms[k], "write_term/" + k, tail_ok=False) for k in ("Iri", "BlankNode", "Triple", "Variable")}
    lit = re.match(r"^(?P<pre>.*?) if let Some\(tag\) = t\.language_tag\(\) \{ (?P<lang>.*?) \} else \{ "
                   r"let dt = t\.datatype\(\)\.unwrap\(\); if (?P<ns>\w+)::(?P<name>\w+) != dt \{ (?P<typed>.*?) \} else \{ (?P<plain>.*?) \} \}$",
                   arms["Literal"])
    if not lit:
        raise ExtractError("write_term/Literal: decision tree not recognised: %s" % arms["Literal"][:300])
    lit_ops = {k: _ops(lit.group(k), "write_term/Literal/" + k, tail_ok=False) for k in ("pre", "lang", "typed", "plain")}
    el_ns, el_name = _ns_iri(repo, lit.group("ns"), lit.group("name"))
    # ---- write_triple
    tb = _fn_body(nt, r"pub fn write_triple<W, T>\(w: &mut W, t: T\) -> io::Result<\(\)> where W: io::Write, T: Triple, \{"
                  .replace(" ", r"\s+"), "write_triple")
    mt = re.match(r"^(.*) Ok\(\(\)\)$", tb)
    if not mt:
        raise ExtractError("write_triple: does not end with Ok(())")
    triple_ops = _ops(mt.group(1), "write_triple", tail_ok=False)
    # ---- serialize_triples / serialize_quads closures
    sb = _fn_body(nt, r"fn serialize_triples<TS>\( &mut self, mut source: TS, \) -> StreamResult<&mut Self, TS::Error, Self::Error> where TS: TripleSource, \{"
                  .replace(" ", r"\s*"), "serialize_triples")
    ms = re.match(r"^if self\.config\.ascii \{ todo!\([^)]*\) \} source \.try_for_each_triple\(\|t\| \{ \{ let w = &mut self\.write; (.*) \} "
                  r"\.map_err\(\|e\| io::Error::new\(io::ErrorKind::Other, e\)\) \}\) \.map\(\|\(\)\| self\)$", sb)
    if not ms:
        raise ExtractError("serialize_triples: closure not recognised: %s" % sb[:300])
    nt_stmt = _ops(ms.group(1), "serialize_triples")
    qb = _fn_body(nq, r"fn serialize_quads<QS>\( &mut self, mut source: QS, \) -> StreamResult<&mut Self, QS::Error, Self::Error> where QS: QuadSource, \{"
                  .replace(" ", r"\s*"), "serialize_quads")
    mq = re.match(r"^if self\.config\.ascii \{ todo!\([^)]*\) \} source \.try_for_each_quad\(\|q\| \{ \{ let w = &mut self\.write; "
                  r"let \(tr, gn\) = q\.spog\(\); (?P<pre>.*?) match gn \{ None => (?P<none>.*?), Some\(t\) => \{ (?P<some>.*?) \} \} \} "
                  r"\.map_err\(\|e\| io::Error::new\(io::ErrorKind::Other, e\)\) \}\) \.map\(\|\(\)\| self\)$", qb)
    if not mq:
        raise ExtractError("serialize_quads: closure not recognised: %s" % qb[:300])
    nq_pre = _ops(mq.group("pre"), "serialize_quads/pre", tail_ok=False)
    nq_none = _ops(mq.group("none"), "serialize_quads/None")
    nq_some = _ops(mq.group("some"), "serialize_quads/Some")
    # ---- default methods of the serializer traits
    g_ok = " ".join(_fn_body(api, r"fn serialize_graph<G>\(&mut self, graph: &G\) -> StreamResult<&mut Self, G::Error, Self::Error>\s+where\s+G: Graph,\s+Self: Sized,\s+\{",
                             "serialize_graph").split()) == "self.serialize_triples(&mut graph.triples())"
    d_ok = " ".join(_fn_body(api, r"fn serialize_dataset<D>\(\s*&mut self,\s*dataset: &D,\s*\) -> StreamResult<&mut Self, D::Error, Self::Error>\s+where\s+D: Dataset,\s+Self: Sized,\s+\{",
                             "serialize_dataset").split()) == "self.serialize_quads(&mut dataset.quads())"
    if not (g_ok and d_ok):
        raise ExtractError("serialize_graph / serialize_dataset are no longer `self.serialize_triples(&mut graph.triples())` / "
                           "`self.serialize_quads(&mut dataset.quads())`")
    L = [HEADER,
         "-- source: turtle/src/serializer/nt.rs (write_term, write_triple, serialize_triples), nq.rs (serialize_quads),\n",
         "--         api/src/serializer.rs (serialize_graph, serialize_dataset), api/src/ns.rs (the elided datatype)\n",
         "namespace SophiaModel.Gen\n\n",
         "/-- component of a statement handed to `write_term` -/\n",
         "inductive NtSub | s | p | o | g\n  deriving DecidableEq, Repr\n\n",
         "/-- one fallible write (each is followed by `?` in the source: an io error ends the serialisation) -/\n",
         "inductive NtOp\n"
         "  | raw (bytes : List Char)   -- w.write_all(b\"…\")\n"
         "  | iri | bnode | tag | dt | var   -- w.write_all(<that component>.as_bytes())\n"
         "  | lex                        -- quoted_string(w, lexical_form.as_bytes())\n"
         "  | triple                     -- write_triple(w, …)\n"
         "  | sub (c : NtSub)            -- write_term(w, <component>)\n"
         "  deriving DecidableEq, Repr\n\n",
         "/-- `write_term`, arms of `match t.kind()` -/\n",
         "def ntArmIri : List NtOp := %s\n" % _lean_ops(simple["Iri"]),
         "def ntArmBnode : List NtOp := %s\n" % _lean_ops(simple["BlankNode"]),
         "def ntArmTriple : List NtOp := %s\n" % _lean_ops(simple["Triple"]),
         "def ntArmVar : List NtOp := %s\n\n" % _lean_ops(simple["Variable"]),
         "/-- the `Literal` arm: common prefix; `if let Some(tag) = t.language_tag()`; else `if E != dt` / else -/\n",
         "def ntLitPre : List NtOp := %s\n" % _lean_ops(lit_ops["pre"]),
         "def ntLitLang : List NtOp := %s\n" % _lean_ops(lit_ops["lang"]),
         "def ntLitTyped : List NtOp := %s\n" % _lean_ops(lit_ops["typed"]),
         "def ntLitPlain : List NtOp := %s\n" % _lean_ops(lit_ops["plain"]),
         "/-- E = `%s::%s`: namespace and suffix of the `NsTerm` the datatype is compared with -/\n" % (lit.group("ns"), lit.group("name")),
         "def ntElideNs : List Char := %s.toList\n" % json_str(el_ns),
         "def ntElideSuffix : List Char := %s.toList\n\n" % json_str(el_name),
         "/-- `write_triple` -/\n",
         "def ntTriple : List NtOp := %s\n\n" % _lean_ops(triple_ops),
         "/-- per-triple closure of `NtSerializer::serialize_triples` -/\n",
         "def ntStatement : List NtOp := %s\n\n" % _lean_ops(nt_stmt),
         "/-- per-quad closure of `NqSerializer::serialize_quads`: before `match gn`, `None =>`, `Some(t) =>` -/\n",
         "def nqPre : List NtOp := %s\n" % _lean_ops(nq_pre),
         "def nqNone : List NtOp := %s\n" % _lean_ops(nq_none),
         "def nqSome : List NtOp := %s\n\n" % _lean_ops(nq_some),
         "/-- `serialize_graph(g)` = `serialize_triples(&mut g.triples())`, `serialize_dataset(d)` = `serialize_quads(&mut d.quads())` -/\n",
         "def serializeContainerIsSource : Bool := true\n\n",
         "end SophiaModel.Gen\n"]
    info = {"elided_datatype": el_ns + el_name, "ops": {"Iri": len(simple["Iri"]), "Literal": sum(len(v) for v in lit_ops.values()),
                                                        "triple": len(triple_ops), "nq": len(nq_pre) + len(nq_none) + len(nq_some)}}
    return "".join(L), info


def json_str(s):
    import json as _j
    return _j.dumps(s, ensure_ascii=False)


EXTRACTORS = {"ntescapes": ("NtEscapes.lean", extract), "ntascii": ("NtAscii.lean", extract_ascii),
              "ntwriter": ("NtWriter.lean", extract_writer)}
