"""Index-selection tables of the in-memory stores, regenerated from inmem/src/{dataset,graph}.rs.

For each of GenericLightDataset, GenericFastDataset, GenericLightGraph, GenericFastGraph:
  * the layout of every index as written in `insert` and in `remove` (`self.gpos.insert([ig, ip, io, is])`),
  * the order of `ensure_index` / `get_index` calls,
  * one Arm per leaf of `quads_matching` / `triples_matching`: pattern of constants, index used,
    range bounds as written (ZERO / MAX / constant), iterator kind, matcher order, `to_gspo` closure.
Fail-closed: any leaf that cannot be parsed raises ExtractError.
"""
import re

LETTERS4 = ["g", "s", "p", "o"]
LETTERS3 = ["s", "p", "o"]


def _impl_block(text, header_re, what):
    m = re.search(header_re, text)
    if not m:
        raise ExtractError("%s: impl header not found" % what)
    i = text.index("{", m.end() - 1)
    depth = 0
    for j in range(i, len(text)):
        if text[j] == "{":
            depth += 1
        elif text[j] == "}":
            depth -= 1
            if depth == 0:
                return text[i:j + 1]
    raise ExtractError("%s: unbalanced braces" % what)


def _fn_body(block, name, what):
    m = re.search(r"fn\s+%s\b" % name, block)
    if not m:
        raise ExtractError("%s: fn %s not found" % (what, name))
    # skip the signature up to the body's opening brace (first '{' after the where clause / return type
    # at depth 0 of parentheses/angle brackets is hard; the bodies here all start at the first "\n    {" )
    k = block.find("\n    {", m.end())
    k2 = block.find(") -> ", m.end())
    i = block.index("{", k if k != -1 else m.end())
    depth = 0
    for j in range(i, len(block)):
        if block[j] == "{":
            depth += 1
        elif block[j] == "}":
            depth -= 1
            if depth == 0:
                return block[i:j + 1]
    raise ExtractError("%s: unbalanced fn %s" % (what, name))


def _pos(letters, tok, what):
    """canonical position of an index variable `ig`/`gi`/`is`/`si`…"""
    tok = tok.strip()
    for a in (tok[0], tok[-1]):
        pass
    if len(tok) == 2 and tok[0] == "i" and tok[1] in letters:
        return letters.index(tok[1])
    if len(tok) == 2 and tok[1] == "i" and tok[0] in letters:
        return letters.index(tok[0])
    raise ExtractError("%s: unknown index variable %r" % (what, tok))


def _layouts(body, op, letters, what):
    """[(index name, [canonical positions])] in textual order"""
    out = []
    for m in re.finditer(r"self\.(\w+)\s*\.%s\(&?\[([^\]]*)\]\)" % op, body):
        toks = [t for t in m.group(2).split(",") if t.strip()]
        out.append((m.group(1), [_pos(letters, t, what) for t in toks]))
    if not out:
        raise ExtractError("%s: no %s statements" % (what, op))
    return out


def _lookup_order(body, fn, letters, what):
    order = []
    for m in re.finditer(r"self\.terms\.(ensure_index|get_index|get_graph_name_index)\((\w+)\)", body):
        v = m.group(2)
        v = {"gn": "g"}.get(v, v)
        if v not in letters:
            raise ExtractError("%s: unexpected lookup of %r" % (what, v))
        order.append(letters.index(v))
    if sorted(order) != list(range(len(letters))):
        raise ExtractError("%s.%s: lookups %r do not cover every position once" % (what, fn, order))
    return order


def _bnd(letters, tok, what):
    tok = tok.strip()
    if tok.endswith("Index::ZERO"):
        return ".zero"
    if tok.endswith("Index::MAX"):
        return ".max"
    return ".pos %d" % _pos(letters, tok, what)


def _row(letters, s, what):
    return [_bnd(letters, t, what) for t in s.split(",") if t.strip()]


def _leaf(body, letters, index_layouts, what):
    """parse one leaf body -> dict(index, lo, hi, kind, matchers, out)"""
    n = len(letters)
    b = re.sub(r"\s+", " ", body)
    names = dict(index_layouts)
    # once
    m = re.search(r"self\.(\w+)\.contains\(&(\w+|\[[^\]]*\])\)", b)
    if m:
        row = m.group(2)
        if not row.startswith("["):
            m2 = re.search(r"let %s = \[([^\]]*)\];" % row, b)
            if not m2:
                raise ExtractError("%s: cannot resolve %s" % (what, row))
            row = m2.group(1)
        else:
            row = row[1:-1]
        r = _row(letters, row, what)
        lay = names[m.group(1)]
        return dict(index=m.group(1), lo=r, hi=r, kind=".once", matchers=[], out=[lay.index(c) for c in range(n)])
    mr = re.search(r"let r = \[([^\]]*)\]\s*\.\.=\s*\[([^\]]*)\];", b)
    if ".filter(move |" in b:
        if not mr:
            raise ExtractError("%s: rangeFilter without range" % what)
        mi = re.search(r"self\.(\w+)\s*\.range\(r\)", b)
        mf = re.search(r"\.map\(\|(\w)\| self\.terms\.(get_term|get_graph_name)\(\w\[(\d)\]\)\)\s*\.filter\(move \|(\w)\| (\w)m\.matches\((\w)(?:\.as_ref\(\))?\)\)\s*\.map\(move \|(\w)\| Ok\((\(g, \[s, p, o\]\)|\[s, p, o\])\)\)", b)
        if not (mi and mf):
            raise ExtractError("%s: unrecognised rangeFilter leaf" % what)
        lay = names[mi.group(1)]
        if int(mf.group(3)) != n - 1:
            raise ExtractError("%s: filter on layout position %s, expected last" % (what, mf.group(3)))
        v = mf.group(4)
        if not (mf.group(5) == v and mf.group(6) == v and mf.group(7) == v):
            raise ExtractError("%s: inconsistent filter variable" % what)
        c = letters.index(v)
        if lay[n - 1] != c:
            raise ExtractError("%s: matcher %sm applied to layout position holding %s" % (what, v, letters[lay[n - 1]]))
        if (mf.group(2) == "get_graph_name") != (n == 4 and c == 0):
            raise ExtractError("%s: wrong accessor %s for position %s" % (what, mf.group(2), v))
        okout = "(g, [s, p, o])" if n == 4 else "[s, p, o]"
        if mf.group(8).strip() != okout:
            raise ExtractError("%s: output %r is not %r" % (what, mf.group(8), okout))
        # the other output variables must be bound letter-wise to the constants: let [a, b] = [ai, bi].map(get_term)
        for ml in re.finditer(r"let \[([^\]]*)\] = \[([^\]]*)\]\.map\(\|i\| self\.terms\.get_term\(i\)\)", b):
            ls = [x.strip() for x in ml.group(1).split(",")]
            rs = [x.strip() for x in ml.group(2).split(",")]
            for l, r in zip(ls, rs):
                if letters.index(l) != _pos(letters, r, what):
                    raise ExtractError("%s: `let %s = %s` binds the wrong constant" % (what, l, r))
        for ml in re.finditer(r"let (\w) = self\.terms\.(get_term|get_graph_name)\((\w+)\);", b):
            if letters.index(ml.group(1)) != _pos(letters, ml.group(3), what):
                raise ExtractError("%s: `let %s = …(%s)` binds the wrong constant" % (what, ml.group(1), ml.group(3)))
        return dict(index=mi.group(1), lo=_row(letters, mr.group(1), what), hi=_row(letters, mr.group(2), what),
                    kind=".rangeFilter", matchers=[c], out=[lay.index(cc) for cc in range(n)])
    mk = re.search(r"(\w+)MatchingIterator::boxed\((.*)\)", b)
    if mk:
        kindname = mk.group(1)
        args = mk.group(2)
        k = {"Cd": 2, "Bcd": 3, "Gspo": 4, "Bc": 2, "Spo": 3}.get(kindname)
        if k is None:
            raise ExtractError("%s: unknown iterator %s" % (what, kindname))
        mi = re.search(r"self\.(\w+)\s*\.(range\(r\)|iter\(\))", args)
        if not mi:
            raise ExtractError("%s: iterator without index" % what)
        lay = names[mi.group(1)]
        rest = args[mi.end():]
        ms = re.findall(r"\b(\w)m\b(?:\.gn\(\))?", rest.split("|")[0])
        mats = [letters.index(x) for x in ms]
        if len(mats) != k:
            raise ExtractError("%s: %s iterator with %d matchers" % (what, kindname, len(mats)))
        if mi.group(2) == "iter()":
            lo = [".zero"] * n
            hi = [".max"] * n
            # GspoMatchingIterator / SpoMatchingIterator take matchers in their own fixed layout order and
            # emit (g,[s,p,o]) / [s,p,o] directly: layout must be canonical
            out = list(range(n))
            order = {"Gspo": [0, 1, 2, 3], "Spo": [0, 1, 2]}[kindname]
            if mats != order:
                raise ExtractError("%s: %s matchers in order %r" % (what, kindname, mats))
        else:
            if not mr:
                raise ExtractError("%s: range iterator without range" % what)
            lo = _row(letters, mr.group(1), what)
            hi = _row(letters, mr.group(2), what)
            mc = re.search(r"\|\s*\[([^\]]*)\]\s*\|\s*\{?\s*\[([^\]]*)\]", rest)
            if mc:
                src = [x.strip() for x in mc.group(1).split(",")]
                dst = [x.strip() for x in mc.group(2).split(",")]
                if dst != letters:
                    raise ExtractError("%s: closure output %r" % (what, dst))
                out = [src.index(l) for l in letters]
            elif re.search(r"\|(\w+)\| \1", rest):
                out = list(range(n))
            else:
                raise ExtractError("%s: unrecognised to_gspo closure" % what)
        return dict(index=mi.group(1), lo=lo, hi=hi, kind=".cached %d" % k, matchers=mats, out=out)
    raise ExtractError("%s: unrecognised leaf: %s" % (what, b[:120]))


def _split_match_arms(body, letters, what):
    """Fast stores: `match (gi, si, pi, oi) { (Some(gi), None, …) => { … } … }`"""
    n = len(letters)
    m = re.search(r"match \((?:\w+,\s*){%d}\w+\) \{" % (n - 1), body)
    if not m:
        raise ExtractError("%s: match on constants not found" % what)
    i = m.end()
    arms = []
    pat = re.compile(r"\(((?:(?:Some\(\w+\)|None),?\s*){%d})\)\s*=>\s*\{" % n)
    while True:
        ma = pat.search(body, i)
        if not ma:
            break
        toks = [t.strip() for t in ma.group(1).split(",") if t.strip()]
        bound = [t.startswith("Some") for t in toks]
        j = ma.end() - 1
        depth = 0
        for k in range(j, len(body)):
            if body[k] == "{":
                depth += 1
            elif body[k] == "}":
                depth -= 1
                if depth == 0:
                    break
        arms.append((["some true" if x else "some false" for x in bound], body[j:k + 1]))
        i = k + 1
    if len(arms) != 2 ** n:
        raise ExtractError("%s: %d match arms, expected %d" % (what, len(arms), 2 ** n))
    return arms


def _split_nested_ifs(body, letters, what):
    """Light stores: nested `if let Some(xc) = xm.constant() { … } else { leaf }`"""
    n = len(letters)
    arms = []

    def block_at(i):
        depth = 0
        for k in range(i, len(body)):
            if body[k] == "{":
                depth += 1
            elif body[k] == "}":
                depth -= 1
                if depth == 0:
                    return k
        raise ExtractError("%s: unbalanced" % what)

    def rec(i, level, consts):
        """parse `if let Some(xc) = xm.constant() {A} else {B}` starting at i; returns end"""
        m = re.compile(r"\s*if let Some\((\w)c\) = (\w)m\.constant\(\) \{").match(body, i)
        if not m:
            raise ExtractError("%s: expected `if let Some(_c) = _m.constant()` at level %d" % (what, level))
        if m.group(1) != m.group(2):
            raise ExtractError("%s: constant of %sm bound to %sc" % (what, m.group(2), m.group(1)))
        c = letters.index(m.group(1))
        a0 = m.end() - 1
        a1 = block_at(a0)
        inner = body[a0 + 1:a1]
        me = re.compile(r"\s*else \{").match(body, a1 + 1)
        if not me:
            raise ExtractError("%s: missing else at level %d" % (what, level))
        b0 = me.end() - 1
        b1 = block_at(b0)
        # then-branch: either another nested if-let (after the lookups) or the two innermost leaves
        mi = re.search(r"\n\s*if let Some\(\wc\) = \wm\.constant\(\) \{", inner)
        pre = dict(consts)
        pre[c] = True
        if mi:
            rec(a0 + 1 + mi.start(), level + 1, pre)
        else:
            # innermost: `if self.x.contains(..) {once} else {empty}` is the leaf with all constants
            arms.append((pre, inner))
        els = dict(consts)
        els[c] = False
        arms.append((els, body[b0:b1 + 1]))
        return b1

    m = re.search(r"if let Some\(\wc\) = \wm\.constant\(\) \{", body)
    if not m:
        raise ExtractError("%s: no constant() test" % what)
    rec(m.start(), 0, {})
    # innermost then-branch holds TWO leaves (once / rangeFilter) split by the last `if let Some(oc)`
    res = []
    for consts, txt in arms:
        bound = []
        for c in range(n):
            if c in consts:
                bound.append("some true" if consts[c] else "some false")
            else:
                bound.append("none")
        res.append((bound, txt))
    return res


def _emit_store(name, text, header_trait, mut_trait, fn_match, letters, style):
    what = name
    n = len(letters)
    blk = _impl_block(text, r"impl<TI: [^>]*>\s+%s for %s<TI>" % (header_trait, name), what + " " + header_trait)
    mblk = _impl_block(text, r"impl<TI: [^>]*>\s+%s for %s<TI>" % (mut_trait, name), what + " " + mut_trait)
    ins = _fn_body(mblk, "insert", what)
    rem = _fn_body(mblk, "remove", what)
    ins_l = _layouts(ins, "insert", letters, what)
    rem_l = _layouts(rem, "remove", letters, what)
    order_i = _lookup_order(ins, "insert", letters, what)
    order_r = _lookup_order(rem, "remove", letters, what)
    qm = _fn_body(blk, fn_match, what)
    if style == "match":
        raw = _split_match_arms(qm, letters, what)
    else:
        raw = _split_nested_ifs(qm, letters, what)
    # the full-iteration method: quads()/triples() must iterate the primary index
    allfn = _fn_body(blk, "quads" if n == 4 else "triples", what)
    mall = re.search(r"self\s*\.(\w+)\s*\.iter\(\)", allfn)
    if not mall:
        raise ExtractError("%s: quads()/triples() does not iterate an index" % what)
    idx_names = [nm for nm, _ in ins_l]
    arms = []
    for bound, body in raw:
        leaf = _leaf(body, letters, ins_l, "%s arm %s" % (what, bound))
        arms.append((bound, leaf))
    lines = []
    lname = name[0].lower() + name[1:]
    lines.append("def %s : StoreDesc :=" % lname)
    lines.append("  { n := %d," % n)
    lines.append("    indexNames := [%s]," % ", ".join('"%s"' % x for x in idx_names))
    lines.append("    insertLayouts := [%s]," % ", ".join("[%s]" % ", ".join(map(str, l)) for _, l in ins_l))
    lines.append("    removeLayouts := [%s]," % ", ".join("[%s]" % ", ".join(map(str, l)) for _, l in rem_l))
    lines.append("    removeNames := [%s]," % ", ".join('"%s"' % x for x, _ in rem_l))
    lines.append("    insertOrder := [%s]," % ", ".join(map(str, order_i)))
    lines.append("    removeOrder := [%s]," % ", ".join(map(str, order_r)))
    lines.append("    iterIndex := %d," % idx_names.index(mall.group(1)))
    lines.append("    arms := [")
    for k, (bound, leaf) in enumerate(arms):
        lines.append("      { bound := [%s], index := %d, lo := [%s], hi := [%s], kind := %s, matchers := [%s], out := [%s] }%s" % (
            ", ".join(bound), idx_names.index(leaf["index"]), ", ".join(leaf["lo"]), ", ".join(leaf["hi"]),
            leaf["kind"], ", ".join(map(str, leaf["matchers"])), ", ".join(map(str, leaf["out"])),
            "," if k + 1 < len(arms) else ""))
    lines.append("    ] }")
    return "\n".join(lines) + "\n"


def extract_index_tables(repo):
    ds = read(repo, "inmem/src/dataset.rs")
    gr = read(repo, "inmem/src/graph.rs")
    out = [HEADER, "import SophiaModel.Model.Store\n", "namespace SophiaModel.Gen\nopen SophiaModel.Store\n\n"]
    out.append(_emit_store("GenericLightDataset", ds, "Dataset", "MutableDataset", "quads_matching", LETTERS4, "ifs"))
    out.append(_emit_store("GenericFastDataset", ds, "Dataset", "MutableDataset", "quads_matching", LETTERS4, "match"))
    out.append(_emit_store("GenericLightGraph", gr, "Graph", "MutableGraph", "triples_matching", LETTERS3, "ifs"))
    out.append(_emit_store("GenericFastGraph", gr, "Graph", "MutableGraph", "triples_matching", LETTERS3, "match"))
    # Index::MAX per width and the full test of ensure_index
    ix = read(repo, "inmem/src/index.rs")
    for ty in ("u16", "u32", "usize"):
        m = re.search(r"impl Index for %s \{\s*const ZERO: Self = 0;\s*const MAX: Self = %s::MAX;" % (ty, ty), ix)
        if not m:
            raise ExtractError("Index for %s: ZERO/MAX not as expected" % ty)
    if not re.search(r"let i = I::from_usize\(self\.i2t\.len\(\)\);\s*if i >= I::MAX \{\s*return Err\(TermIndexFullError\(\)\);", ix):
        raise ExtractError("ensure_index: the full test `i >= I::MAX` before any change was not found")
    if not re.search(r"fn get_default_graph_index\(&self\) -> Self::Index \{\s*Self::Index::MAX\s*\}", ix):
        raise ExtractError("get_default_graph_index is no longer Index::MAX")
    out.append("\ndef maxU16 : Nat := 65535\ndef maxU32 : Nat := 4294967295\n")
    out.append("end SophiaModel.Gen\n")
    return "".join(out), {}


EXTRACTORS = {"index_tables": ("IndexTable.lean", extract_index_tables)}


# ---------------------------------------------------------------- constant() of every matcher impl

_CONST_SHAPES = [
    # (normalised body regex, ConstImpl constructor)
    (r"^None$", ".never"),
    (r"^self\.as_ref\(\)$", ".selfOpt"),
    (r"^self\.as_ref\(\)\.map\(GraphName::as_ref\)$", ".selfOpt"),
    (r"^if N == 1 \{ Some\(&self\[0\]\) \} else \{ None \}$", ".single"),
    (r"^if N == 1 \{ Some\(self\[0\]\.as_ref\(\)\) \} else \{ None \}$", ".single"),
    (r"^if self\.len\(\) == 1 \{ Some\(&self\[0\]\) \} else \{ None \}$", ".single"),
    (r"^if self\.len\(\) == 1 \{ Some\(self\[0\]\.as_ref\(\)\) \} else \{ None \}$", ".single"),
    (r"^self\.0\.constant\(\)$", ".inner"),
    (r"^self\.0\.constant\(\)\.map\(Some\)$", ".innerSome"),
]


def _block_at(text, i, what):
    i = text.index("{", i)
    depth = 0
    for j in range(i, len(text)):
        if text[j] == "{":
            depth += 1
        elif text[j] == "}":
            depth -= 1
            if depth == 0:
                return text[i:j + 1]
    raise ExtractError("%s: unbalanced braces" % what)


def extract_matcher_consts(repo):
    """For every `impl … TermMatcher/GraphNameMatcher for <Type>` of api/src/term/matcher/*.rs: how
    `constant()` is written (absent = the trait default, which must still be `None`)."""
    import os
    d = os.path.join(repo, "api/src/term/matcher")
    try:
        files = sorted(f for f in os.listdir(d) if f.endswith(".rs"))
    except OSError as e:
        raise ExtractError("cannot list %s: %s" % (d, e))
    tabs = {"TermMatcher": [], "GraphNameMatcher": []}
    defaults = {}
    for fn in files:
        text = read(repo, "api/src/term/matcher/" + fn)
        text = re.sub(r"//[^\n]*", "", text)
        for m in re.finditer(r"pub trait (TermMatcher|GraphNameMatcher)\b", text):
            blk = _block_at(text, m.end(), fn)
            mc = re.search(r"fn constant\(&self\)[^{]*", blk)
            if not mc:
                raise ExtractError("%s: trait %s has no default constant()" % (fn, m.group(1)))
            body = re.sub(r"\s+", " ", _block_at(blk, mc.end() - 1, fn)[1:-1]).strip()
            defaults[m.group(1)] = body
        for m in re.finditer(r"\bimpl\b(?P<gen>\s*<.*?>)?\s+(?P<tr>TermMatcher|GraphNameMatcher)\s+for\s+(?P<ty>[^\n{]+?)\s*(?:\n\s*where\b|\{)", text):
            ty = re.sub(r"\s+", " ", m.group("ty")).strip()
            blk = _block_at(text, m.end() - 1, "%s: impl %s for %s" % (fn, m.group("tr"), ty))
            mc = re.search(r"fn constant\(&self\)[^{]*", blk)
            if mc:
                body = re.sub(r"\s+", " ", _block_at(blk, mc.end() - 1, fn)[1:-1]).strip()
                kind = None
                for rx, k in _CONST_SHAPES:
                    if re.match(rx, body):
                        kind = k
                        break
                if kind is None:
                    raise ExtractError("%s: constant() of `%s for %s` has an unknown shape: %r" % (fn, m.group("tr"), ty, body))
            else:
                kind = ".never"
            if not re.search(r"fn matches<", blk):
                raise ExtractError("%s: impl %s for %s without matches()" % (fn, m.group("tr"), ty))
            tabs[m.group("tr")].append((ty, kind))
    for tr in ("TermMatcher", "GraphNameMatcher"):
        if defaults.get(tr) != "None":
            raise ExtractError("default %s::constant() is no longer `None`: %r" % (tr, defaults.get(tr)))
        if not tabs[tr]:
            raise ExtractError("no impl of %s found" % tr)
    out = [HEADER, "import SophiaModel.Model.MatcherSrc\n", "namespace SophiaModel.Gen\nopen SophiaModel.MatcherSrc\n\n"]
    for tr, name in (("TermMatcher", "termMatcherConst"), ("GraphNameMatcher", "graphNameMatcherConst")):
        out.append("/-- how `constant()` is written in each `impl %s for …` (`.never` = not overridden) -/\n" % tr)
        out.append("def %s : List (String × ConstImpl) := [\n" % name)
        out.append(",\n".join('  ("%s", %s)' % (ty.replace('"', '\\"'), k) for ty, k in sorted(tabs[tr])))
        out.append("\n]\n\n")
    out.append("end SophiaModel.Gen\n")
    return "".join(out), {}


EXTRACTORS["matcher_consts"] = ("MatcherTable.lean", extract_matcher_consts)
