"""C15 extractor: the Rust text the Lean model of streams was transcribed from (fail-closed).

lean/SophiaModel/Model/Source.lean mirrors, function by function, a small number of Rust function
bodies (every definition there names the one it mirrors).  This extractor regenerates, from /repo's
working tree, the normalised text of exactly these bodies (comments stripped, white space collapsed)
into lean/SophiaModel/Gen/SourceShapes.lean; `SophiaProofs.C15.transcribed_text_is_current` states
that it equals the text recorded beside the model (lean/SophiaModel/Model/SourceText.lean) — so a
change of any mirrored body breaks an obligation instead of silently leaving the model behind — and
`no_bulk_override` that no store type overrides the provided `insert_all` / `remove_all` / `collect`
paths the model assumes to be the default ones.

`read`, `ExtractError`, `HEADER` are injected by tools/extract.py.
"""
import os
import re

# (file, fn name, occurrence index among `fn <name>` in that file)
SITES = [
    ("api/src/source.rs", "try_for_each_item", 0),
    ("api/src/source.rs", "for_some_item", 0),
    ("api/src/source.rs", "for_each_item", 0),
    ("api/src/source.rs", "try_for_some_item", 1),          # impl Source for Iterator<Item = Result<T, E>>
    ("api/src/source/filter.rs", "try_for_some_item", 0),   # FilterSource
    ("api/src/source/filter.rs", "try_for_some_item", 1),   # FilterTripleSource
    ("api/src/source/filter.rs", "try_for_some_item", 2),   # FilterQuadSource
    ("api/src/source/map.rs", "try_for_some_item", 0),
    ("api/src/source/map.rs", "next", 0),                   # MapSourceIterator
    ("api/src/source/filter_map.rs", "try_for_some_item", 0),
    ("api/src/source/filter_map.rs", "next", 0),            # FilterMapSourceIterator
    ("api/src/source/convert.rs", "try_for_some_item", 0),  # ToQuads
    ("api/src/source/convert.rs", "try_for_some_item", 1),  # ToTriples
    ("api/src/source/_triple.rs", "try_for_some_triple", 0),
    ("api/src/source/_triple.rs", "try_for_each_triple", 0),
    ("api/src/source/_triple.rs", "for_some_triple", 0),
    ("api/src/source/_triple.rs", "for_each_triple", 0),
    ("api/src/source/_triple.rs", "filter_triples", 0),
    ("api/src/source/_triple.rs", "filter_map_triples", 0),
    ("api/src/source/_triple.rs", "map_triples", 0),
    ("api/src/source/_triple.rs", "collect_triples", 0),
    ("api/src/source/_triple.rs", "add_to_graph", 0),
    ("api/src/source/_quad.rs", "try_for_some_quad", 0),
    ("api/src/source/_quad.rs", "try_for_each_quad", 0),
    ("api/src/source/_quad.rs", "for_some_quad", 0),
    ("api/src/source/_quad.rs", "for_each_quad", 0),
    ("api/src/source/_quad.rs", "filter_quads", 0),
    ("api/src/source/_quad.rs", "filter_map_quads", 0),
    ("api/src/source/_quad.rs", "map_quads", 0),
    ("api/src/source/_quad.rs", "collect_quads", 0),
    ("api/src/source/_quad.rs", "add_to_dataset", 0),
    ("rio/src/parser.rs", "try_for_some_item", 0),          # StrictRioTripleSource
    ("rio/src/parser.rs", "try_for_some_item", 1),          # StrictRioQuadSource
    ("rio/src/parser.rs", "try_for_some_item", 2),          # GeneralizedRioSource
    ("api/src/graph.rs", "insert_all", 0),
    ("api/src/graph.rs", "remove_all", 0),
    ("api/src/dataset.rs", "insert_all", 0),
    ("api/src/dataset.rs", "remove_all", 0),
    ("turtle/src/serializer/nt.rs", "serialize_triples", 0),
    ("turtle/src/serializer/nq.rs", "serialize_quads", 0),
    ("rio/src/serializer.rs", "rio_format_triples", 0),
]

# provided methods the model takes to be the default implementations everywhere
DEFAULTED = ["insert_all", "remove_all", "try_for_each_item", "for_some_item", "for_each_item",
             "try_for_each_triple", "try_for_each_quad", "for_each_triple", "for_each_quad",
             "try_for_some_triple", "try_for_some_quad", "for_some_triple", "for_some_quad"]
HOME = {"insert_all": {"api/src/graph.rs", "api/src/dataset.rs"},
        "remove_all": {"api/src/graph.rs", "api/src/dataset.rs"}}
CRATES = ["api", "inmem", "rio", "turtle", "xml", "jsonld", "resource", "c14n", "isomorphism", "term", "iri", "sparql"]


def _strip(text):
    text = re.sub(r"//[^\n]*", "", text)
    return re.sub(r"\s+", " ", text).strip()


def _body(text, name, k, rel):
    ms = list(re.finditer(r"\bfn\s+%s\b" % re.escape(name), text))
    if len(ms) <= k:
        raise ExtractError("%s: occurrence %d of fn %s not found" % (rel, k, name))  # noqa: F821
    i = text.find("{", ms[k].end())
    semi = text.find(";", ms[k].end())
    if i < 0 or (0 <= semi < i):
        raise ExtractError("%s: fn %s (#%d) has no body" % (rel, name, k))  # noqa: F821
    depth = 0
    for j in range(i, len(text)):
        if text[j] == "{":
            depth += 1
        elif text[j] == "}":
            depth -= 1
            if depth == 0:
                return _strip(text[i + 1:j])
    raise ExtractError("%s: unbalanced braces in fn %s" % (rel, name))  # noqa: F821


def _lean_str(s):
    out = []
    for c in s:
        if c == "\\":
            out.append("\\\\")
        elif c == '"':
            out.append('\\"')
        elif ord(c) < 32 or ord(c) > 126:
            out.append("\\u{%x}" % ord(c))
        else:
            out.append(c)
    return '"' + "".join(out) + '"'


def _non_test(text):
    """drop `#[cfg(test)] mod ... { ... }` blocks (coarsely: from the attribute to the end of file when the
    module is the trailing test module, which is the layout used throughout /repo)"""
    m = re.search(r"#\[cfg\(test\)\]\s*(pub(\(crate\))?\s+)?mod\s+\w+\s*\{", text)
    return text[:m.start()] if m else text


def _overrides(repo):
    found = []
    for crate in CRATES:
        root = os.path.join(repo, crate, "src")
        for dp, _, fs in sorted(os.walk(root)):
            for f in sorted(fs):
                if not f.endswith(".rs") or f == "test.rs":
                    continue
                rel = os.path.relpath(os.path.join(dp, f), repo)
                text = _non_test(read(repo, rel))  # noqa: F821
                for name in DEFAULTED:
                    n = len(re.findall(r"\bfn\s+%s\b" % name, text))
                    allowed = 1 if (rel in HOME.get(name, set())
                                    or (rel == "api/src/source.rs" and name in DEFAULTED[2:5])
                                    or (rel == "api/src/source/_triple.rs" and name.endswith("triple"))
                                    or (rel == "api/src/source/_quad.rs" and name.endswith("quad"))) else 0
                    # `&mut T` forwarding impls in _foreign_impl.rs re-declare insert_all/remove_all by delegation
                    if rel.endswith("_foreign_impl.rs") and name in ("insert_all", "remove_all"):
                        bodies = [_body(text, name, k, rel) for k in range(n)]
                        n = len([b for b in bodies if not re.fullmatch(r"T::%s\(\*self, src\)" % name, b)])
                    if n > allowed:
                        found.append("%s#%s" % (rel, name))
    return found


def _gen(repo):
    rows = []
    for rel, name, k in SITES:
        rows.append(("%s#%s#%d" % (rel, name, k), _body(read(repo, rel), name, k, rel)))  # noqa: F821
    ov = _overrides(repo)
    out = [HEADER, "namespace SophiaModel.Gen.SourceShapes\n\n",  # noqa: F821
           "/-- normalised text of the Rust function bodies mirrored by Model/Source.lean -/\n",
           "def shapes : List (String × String) := [\n"]
    out.append(",\n".join("  (%s,\n   %s)" % (_lean_str(a), _lean_str(b)) for a, b in rows))
    out.append("]\n\n/-- overrides of provided stream methods (`insert_all`, `remove_all`, the `for_*`/`try_for_*` loops) outside\n"
               "their defining traits, anywhere in the workspace (tests excluded) -/\n")
    out.append("def overrides : List String := [%s]\n\n" % ", ".join(_lean_str(x) for x in ov))
    out.append("end SophiaModel.Gen.SourceShapes\n")
    return "".join(out), {"sites": len(rows), "overrides": ov}


EXTRACTORS = {"sourceshapes": ("SourceShapes.lean", _gen)}
