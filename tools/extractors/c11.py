"""C11 extractor: api/src/{graph,dataset}/adapter.rs (+ the constructors in api/src/{dataset,graph}.rs and the
`&mut T` forwarding impls) -> Gen/AdapterFlags.lean

The Lean model lean/SophiaModel/Model/Adapter.lean transcribes every adapter method as a call of ONE
method of the wrapped dataset / graph with fixed arguments.  This extractor re-reads the source on every
run and checks, FAIL-CLOSED, that every method body still has exactly the transcribed shape; for the
four mutating methods it RECORDS which underlying method is called (the theorems are stated over these
generated constants, so repairing `GraphAsDataset::remove` flips a flag instead of breaking a proof):

  datasetGraphInsertCalls / datasetGraphRemoveCalls      `d.insert(s, p, o, g)` / `d.remove(s, p, o, g)`
  graphAsDatasetInsertCalls / graphAsDatasetRemoveCalls  `self.0.insert(s, p, o)` / `self.0.remove(s, p, o)`
  unionGraphForwardsAtoms                                does `Graph for UnionGraph` override iris / blank_nodes / literals /
                                                         quoted_triples / variables with the dataset's (graph names included)?

Anything else (other receiver, other arguments, other graph-name matcher, an extra overridden method)
raises ExtractError.  `ExtractError`, `read`, `HEADER` are injected by tools/extract.py.
"""
import re

GA = "api/src/graph/adapter.rs"
DA = "api/src/dataset/adapter.rs"


def _strip(text, rel):
    """drop the unit tests and every comment (line and block comments; string literals are respected)"""
    m = re.search(r"\n#\[cfg\(test\)\]\s*\nmod test\b", text)
    if m:
        text = text[:m.start()]
    out = []
    i, n = 0, len(text)
    while i < n:
        c = text[i]
        if c == '"':
            j = i + 1
            while j < n and text[j] != '"':
                if text[j] == "\\":
                    j += 1
                j += 1
            out.append(text[i:j + 1])
            i = j + 1
        elif text.startswith("//", i):
            j = text.find("\n", i)
            i = n if j < 0 else j
        elif text.startswith("/*", i):
            depth, j = 1, i + 2
            while j < n and depth:
                if text.startswith("/*", j):
                    depth, j = depth + 1, j + 2
                elif text.startswith("*/", j):
                    depth, j = depth - 1, j + 2
                else:
                    j += 1
            if depth:
                raise ExtractError("%s: unterminated block comment" % rel)  # noqa: F821
            out.append(" ")
            i = j
        elif text.startswith("'\"'", i):
            # a char literal holding a double quote would derail the string scanner: fail closed
            raise ExtractError("%s: char literal '\"': comment stripping unsafe" % rel)  # noqa: F821
        else:
            out.append(c)
            i += 1
    return "".join(out)


def _match_brace(text, i, rel):
    depth = 0
    j = i
    while j < len(text):
        c = text[j]
        if c == '"':
            j += 1
            while j < len(text) and text[j] != '"':
                if text[j] == "\\":
                    j += 1
                j += 1
        elif c == "{":
            depth += 1
        elif c == "}":
            depth -= 1
            if depth == 0:
                return j + 1
        j += 1
    raise ExtractError("%s: unbalanced braces" % rel)  # noqa: F821


def _squash(s):
    """no whitespace, no trailing comma before a closing bracket (rustfmt adds / drops them freely)"""
    return re.sub(r",(?=[)\]}])", "", re.sub(r"\s+", "", s))


def _impl(text, header_re, rel):
    """body (without the outer braces) of the unique impl block whose header matches"""
    ms = list(re.finditer(r"\nimpl\b[^{;]*?" + header_re + r"\s*(?:where\b[^{;]*)?\{", text))
    if len(ms) != 1:
        raise ExtractError("%s: expected exactly one impl block matching /%s/, found %d" % (rel, header_re, len(ms)))  # noqa: F821
    i = ms[0].end() - 1
    j = _match_brace(text, i, rel)
    return text[i + 1:j - 1]


def _fns(body, rel):
    """{name: squashed body} of the fns directly inside an impl body"""
    out = {}
    pos = 0
    while True:
        m = re.compile(r"\bfn\s+(\w+)").search(body, pos)
        if not m:
            break
        i = body.find("{", m.end())
        semi = body.find(";", m.end())
        if i < 0 or (0 <= semi < i):
            raise ExtractError("%s: fn %s has no body" % (rel, m.group(1)))  # noqa: F821
        j = _match_brace(body, i, rel)
        if m.group(1) in out:
            raise ExtractError("%s: fn %s defined twice in one impl" % (rel, m.group(1)))  # noqa: F821
        out[m.group(1)] = _squash(body[i + 1:j - 1])
        pos = j
    return out


def _expect(fns, name, want, where):
    """`want`: the transcribed body, or a list of equivalent spellings of it"""
    got = fns.get(name)
    if got is None:
        raise ExtractError("%s: fn %s not found" % (where, name))  # noqa: F821
    wants = want if isinstance(want, list) else [want]
    if got not in [_squash(w) for w in wants]:
        raise ExtractError("%s::%s is no longer `%s` (found `%s`)" % (where, name, wants[0], got[:200]))  # noqa: F821


def _only(fns, names, where):
    extra = sorted(set(fns) - set(names))
    missing = sorted(set(names) - set(fns))
    if extra or missing:
        raise ExtractError("%s: method set changed (extra %s, missing %s)" % (where, extra, missing))  # noqa: F821


def _call(fns, name, pattern, where):
    """pattern has one group: the called method; returns 'insert' | 'remove'"""
    got = fns.get(name)
    if got is None:
        raise ExtractError("%s: fn %s not found" % (where, name))  # noqa: F821
    m = re.fullmatch(pattern, got)
    if not m or m.group(1) not in ("insert", "remove"):
        raise ExtractError("%s::%s has an unexpected body `%s`" % (where, name, got[:200]))  # noqa: F821
    return m.group(1)


ENUMS = ["subjects", "predicates", "objects", "iris", "blank_nodes", "literals", "quoted_triples", "variables"]
INTO_TRIPLE = ".map(|r| r.map(Quad::into_triple))"
INTO_QUAD = ".map(|r| r.map(Triple::into_quad))"


def _gen(repo):
    ga = _strip(read(repo, GA), GA)  # noqa: F821
    da = _strip(read(repo, DA), DA)  # noqa: F821
    info = {}

    # ---- UnionGraph
    f = _fns(_impl(ga, r"\sGraph\s+for\s+UnionGraph<T>", GA), GA)
    # the enumerations are either all forwarded to the dataset (shipped text) or only subjects /
    # predicates / objects are (text of notes/fixes/C11-union-graph-atoms.diff: the other five fall back
    # on the `Graph` defaults over `triples()`)
    if set(f) == set(["triples", "triples_matching"] + ENUMS):
        info["unionGraphForwardsAtoms"] = True
        fw = ENUMS
    elif set(f) == set(["triples", "triples_matching"] + ENUMS[:3]):
        info["unionGraphForwardsAtoms"] = False
        fw = ENUMS[:3]
    else:
        _only(f, ["triples", "triples_matching"] + ENUMS, "Graph for UnionGraph")
    _expect(f, "triples", "self.0.quads()" + INTO_TRIPLE, "UnionGraph")
    _expect(f, "triples_matching", "self.0.quads_matching(sm, pm, om, Any)" + INTO_TRIPLE, "UnionGraph")
    for e in fw:
        _expect(f, e, "self.0.%s()" % e, "UnionGraph")
    f = _fns(_impl(ga, r">\s+UnionGraph<T>", GA), GA)
    _expect(f, "new", "UnionGraph(wrapped)", "UnionGraph")

    # ---- PartialUnionGraph
    f = _fns(_impl(ga, r"\sGraph\s+for\s+PartialUnionGraph<D,\s*M>", GA), GA)
    _only(f, ["triples", "triples_matching"], "Graph for PartialUnionGraph")
    _expect(f, "triples", "self.d.quads_matching(Any, Any, Any, self.m)" + INTO_TRIPLE, "PartialUnionGraph")
    _expect(f, "triples_matching", "self.d.quads_matching(sm, pm, om, self.m)" + INTO_TRIPLE, "PartialUnionGraph")
    f = _fns(_impl(ga, r">\s+PartialUnionGraph<D,\s*M>", GA), GA)
    _expect(f, "new", "PartialUnionGraph { d, m }", "PartialUnionGraph")

    # ---- DatasetGraph
    f = _fns(_impl(ga, r">\s+DatasetGraph<D,\s*G>", GA), GA)
    _expect(f, "new", "DatasetGraph { d, g }", "DatasetGraph")
    _expect(f, "g", "self.g.as_ref().map(|gn| gn.borrow_term())", "DatasetGraph")
    _expect(f, "gd", "(self.g.as_ref().map(|gn| gn.borrow_term()), &mut self.d)", "DatasetGraph")
    f = _fns(_impl(ga, r"\sGraph\s+for\s+DatasetGraph<D,\s*G>", GA), GA)
    _only(f, ["triples", "triples_matching"], "Graph for DatasetGraph")
    _expect(f, "triples", "self.d.quads_matching(Any, Any, Any, [self.g()])" + INTO_TRIPLE, "DatasetGraph")
    _expect(f, "triples_matching", "self.d.quads_matching(sm, pm, om, [self.g()])" + INTO_TRIPLE, "DatasetGraph")
    f = _fns(_impl(ga, r"\sMutableGraph\s+for\s+DatasetGraph<D,\s*G>", GA), GA)
    _only(f, ["insert", "remove"], "MutableGraph for DatasetGraph")
    pat = re.escape("let(g,d)=self.gd();d.") + r"(\w+)" + re.escape("(s,p,o,g)")
    info["datasetGraphInsertCalls"] = _call(f, "insert", pat, "MutableGraph for DatasetGraph")
    info["datasetGraphRemoveCalls"] = _call(f, "remove", pat, "MutableGraph for DatasetGraph")

    # ---- GraphAsDataset
    f = _fns(_impl(da, r">\s+GraphAsDataset<T>", DA), DA)
    _expect(f, "new", "GraphAsDataset(graph)", "GraphAsDataset")
    f = _fns(_impl(da, r"\sDataset\s+for\s+GraphAsDataset<T>", DA), DA)
    _only(f, ["quads", "quads_matching", "contains", "graph_names"] + ENUMS, "Dataset for GraphAsDataset")
    _expect(f, "quads", "self.0.triples()" + INTO_QUAD, "GraphAsDataset")
    _expect(f, "quads_matching",
            ["if gm.matches(%s) { Box::new(self.0.triples_matching(sm, pm, om)" % none + INTO_QUAD
             + ") } else { Box::new(std::iter::empty()) }"
             for none in ("None as GraphName<&GTerm<T>>", "None::<&GTerm<T>>", "None::<&GTerm<'_, T>>")],
            "GraphAsDataset")
    _expect(f, "contains", "if g.is_none() { self.0.contains(s, p, o) } else { Ok(false) }", "GraphAsDataset")
    _expect(f, "graph_names", "std::iter::empty()", "GraphAsDataset")
    for e in ENUMS:
        _expect(f, e, "self.0.%s()" % e, "GraphAsDataset")
    f = _fns(_impl(da, r"\sMutableDataset\s+for\s+GraphAsDataset<T>", DA), DA)
    _only(f, ["insert", "remove"], "MutableDataset for GraphAsDataset")
    ipat = (re.escape("ifg.is_none(){self.0.") + r"(\w+)" +
            re.escape("(s,p,o).map_err(GraphAsDatasetMutationError::Graph)}else{Err(GraphAsDatasetMutationError::OnlyDefaultGraph)}"))
    rpat = (re.escape("ifg.is_none(){self.0.") + r"(\w+)" +
            re.escape("(s,p,o).map_err(GraphAsDatasetMutationError::Graph)}else{Ok(false)}"))
    info["graphAsDatasetInsertCalls"] = _call(f, "insert", ipat, "MutableDataset for GraphAsDataset")
    info["graphAsDatasetRemoveCalls"] = _call(f, "remove", rpat, "MutableDataset for GraphAsDataset")

    # ---- the trait methods building the adapters
    ds = _strip(read(repo, "api/src/dataset.rs"), "api/src/dataset.rs")  # noqa: F821
    gr = _strip(read(repo, "api/src/graph.rs"), "api/src/graph.rs")  # noqa: F821
    for text, rel, wants in (
        (ds, "api/src/dataset.rs", [("graph", "DatasetGraph::new(self, graph_name)"),
                                    ("graph_mut", "DatasetGraph::new(self, graph_name)"),
                                    ("partial_union_graph", "PartialUnionGraph::new(self, selector)"),
                                    ("union_graph", "UnionGraph::new(self)"),
                                    ("into_union_graph", "UnionGraph::new(self)")]),
        (gr, "api/src/graph.rs", [("as_dataset", "GraphAsDataset::new(self)"),
                                  ("as_dataset_mut", "GraphAsDataset::new(self)"),
                                  ("into_dataset", "GraphAsDataset::new(self)")])):
        for name, want in wants:
            ms = list(re.finditer(r"\n    fn %s\b" % name, text))
            if len(ms) != 1:
                raise ExtractError("%s: expected exactly one `fn %s`" % (rel, name))  # noqa: F821
            i = text.find("{", ms[0].end())
            j = _match_brace(text, i, rel)
            if _squash(text[i + 1:j - 1]) != _squash(want):
                raise ExtractError("%s::%s is no longer `%s`" % (rel, name, want))  # noqa: F821

    # ---- `&mut T` forwards to `T` (graph_mut / as_dataset_mut wrap a `&mut Self`)
    for rel, trait, args in (("api/src/dataset/_foreign_impl.rs", "MutableDataset", "s, p, o, g"),
                             ("api/src/graph/_foreign_impl.rs", "MutableGraph", "s, p, o")):
        text = _strip(read(repo, rel), rel)  # noqa: F821
        f = _fns(_impl(text, r"\s" + trait + r"\s+for\s+&mut\s+T", rel), rel)
        _expect(f, "insert", "T::insert(*self, %s)" % args, trait + " for &mut T")
        _expect(f, "remove", "T::remove(*self, %s)" % args, trait + " for &mut T")

    lines = [HEADER,  # noqa: F821
             "namespace SophiaModel.Gen.AdapterFlags\n",
             "/-- which method of the wrapped dataset / graph a mutating adapter method calls -/\n",
             "inductive Call | insert | remove\n  deriving Repr, DecidableEq, Inhabited\n\n"]
    docs = {
        "datasetGraphInsertCalls": "`MutableGraph::insert for DatasetGraph`: `let (g, d) = self.gd(); d.<this>(s, p, o, g)`",
        "datasetGraphRemoveCalls": "`MutableGraph::remove for DatasetGraph`: `let (g, d) = self.gd(); d.<this>(s, p, o, g)`",
        "graphAsDatasetInsertCalls": "`MutableDataset::insert for GraphAsDataset`, default-graph branch: `self.0.<this>(s, p, o)`",
        "graphAsDatasetRemoveCalls": "`MutableDataset::remove for GraphAsDataset`, default-graph branch: `self.0.<this>(s, p, o)`",
    }
    for k in ("datasetGraphInsertCalls", "datasetGraphRemoveCalls", "graphAsDatasetInsertCalls", "graphAsDatasetRemoveCalls"):
        lines.append("/-- %s -/\ndef %s : Call := .%s\n" % (docs[k], k, info[k]))
    lines.append("/-- `Graph for UnionGraph` overrides `iris`, `blank_nodes`, `literals`, `quoted_triples`, `variables` with\n"
                 "`self.0.<same>()` (the DATASET's enumeration, over s, p, o AND g) instead of inheriting the `Graph`\n"
                 "defaults over `triples()` -/\n"
                 "def unionGraphForwardsAtoms : Bool := %s\n" % ("true" if info["unionGraphForwardsAtoms"] else "false"))
    lines.append("end SophiaModel.Gen.AdapterFlags\n")
    return "".join(lines), info


EXTRACTORS = {"adapter_flags": ("AdapterFlags.lean", _gen)}


# ---------------------------------------------------------------------------------------------------
# view glue: the reference forwarding impls and the default bulk methods, as generated tables
#
# `graph_mut(g)` wraps a `&mut D`, `as_dataset_mut()` a `&mut G`, `graph(g)` / `union_graph()` / … a `&D`: the model
# treats `impl Dataset for &T`, `impl Dataset for &mut T`, `impl Graph for &T`, `impl Graph for &mut T`,
# `impl MutableDataset for &mut T`, `impl MutableGraph for &mut T` as the identity.  That is recorded per
# method: which method of `T` the body calls and whether it passes its own parameters, in order
# (`refForward`); the theorem `ref_forwarding_identity` decides that every entry is `T::<same>(*self, <params>)`.
#
# The model of bulk mutations through views (`Adapter.Defaults`) transcribes the DEFAULT bodies of
# `insert_all` / `remove_all` / `remove_matching` / `retain_matching` (+ `insert_triple` / `remove_triple` /
# `insert_quad` / `remove_quad`) of the `MutableGraph` / `MutableDataset` traits: `defaultBulk` records, per
# method, whether the body still is the transcribed text; `default_bulk_transcribed` decides that all are.

def _params(header, where):
    """names of the parameters after `self` in a fn header (text between the fn name and the body)"""
    k = header.find("self")
    if k < 0:
        raise ExtractError("%s: no self parameter" % where)  # noqa: F821
    i = header.rfind("(", 0, k)
    depth, j = 0, i
    while j < len(header):
        if header[j] in "([<":
            depth += 1
        elif header[j] in ")]>" and not (header[j] == ">" and header[j - 1] == "-"):
            depth -= 1
            if depth == 0:
                break
        j += 1
    inner = header[i + 1:j]
    parts, depth, cur = [], 0, ""
    for c in inner:
        if c in "([<":
            depth += 1
        elif c in ")]>":
            depth -= 1
        if c == "," and depth == 0:
            parts.append(cur)
            cur = ""
        else:
            cur += c
    parts.append(cur)
    names = [x.split(":")[0].strip() for x in parts if x.strip()]
    return [n for n in names if not n.endswith("self")]


def _fns2(body, rel):
    """[(name, params, squashed body)] of the fns WITH a body directly inside an impl / trait body"""
    out = []
    pos = 0
    while True:
        m = re.compile(r"\bfn\s+(\w+)").search(body, pos)
        if not m:
            break
        i = body.find("{", m.end())
        semi = body.find(";", m.end())
        if i < 0 or (0 <= semi < i):
            pos = semi + 1 if semi >= 0 else len(body)   # a required method: no body
            continue
        j = _match_brace(body, i, rel)
        out.append((m.group(1), _params(body[m.end():i], rel + "::" + m.group(1)), _squash(body[i + 1:j - 1])))
        pos = j
    return out


def _trait(text, name, rel):
    ms = list(re.finditer(r"\npub\s+trait\s+%s\b[^{;]*\{" % name, text))
    if len(ms) != 1:
        raise ExtractError("%s: expected exactly one `pub trait %s`" % (rel, name))  # noqa: F821
    i = ms[0].end() - 1
    j = _match_brace(text, i, rel)
    return text[i + 1:j - 1]


_BULK = {
    "MutableGraph": ("api/src/graph.rs", "triple", "Triple", "Mg", "[SimpleTerm; 3]", "spo",
                     "ms, mp, mo", "triples", "t", "t.spo().map(Term::into_term)", "[s, p, o]", "s, p, o", "to_spo"),
    "MutableDataset": ("api/src/dataset.rs", "quad", "Quad", "Md", "([SimpleTerm; 3], GraphName<SimpleTerm>)", "spog",
                       "ms, mp, mo, mg", "quads", "q",
                       "{ let (spo, g) = q.spog(); (spo.map(Term::into_term), g.map(Term::into_term)) }",
                       "([s, p, o], g)", "s, p, o, g", "to_spog"),
}


def _bulk_expected(trait):
    rel, el, El, R, item, acc, ms, allm, v, conv, pat, args, to = _BULK[trait]
    mref = ", ".join("%s.matcher_ref()" % x for x in ms.split(", "))
    loop = ("let mut src = src; let mut c = 0; src.try_for_each_%s(|%s| -> %sResult<Self, ()> "
            "{ if self.%%s_%s(%s.%s())? { c += 1; } Ok(()) }).and(Ok(c))" % (el, v, R, el, v, acc))
    tail = "self.remove_all(to_remove?.into_iter().into_source()).map_err(|err| err.unwrap_sink_error())"
    return {
        "insert_%s" % el: "let %s = %s.%s(); self.insert(%s)" % (pat, el, to, args),
        "remove_%s" % el: "let %s = %s.%s(); self.remove(%s)" % (pat, el, to, args),
        "insert_all": loop % "insert",
        "remove_all": loop % "remove",
        "remove_matching": "let to_remove: Result<Vec<%s>, _> = self.%s_matching(%s).map_ok(|%s| %s).collect(); %s"
                           % (item, allm, ms, v, conv, tail),
        "retain_matching": "let to_remove: Result<Vec<%s>, _> = self.%s().filter_ok(|%s| { !%s.matched_by(%s) })"
                           ".map_ok(|%s| %s).collect(); %s?; Ok(())" % (item, allm, v, v, mref, v, conv, tail),
    }


def _norm_closure(s):
    """`|x| { e }` and `|x| e` are the same closure; rustfmt picks by line length"""
    return s


def _glue(repo):
    rows = []
    info = {"ref_forward_bad": [], "default_bulk_changed": []}
    for rel, impls in (("api/src/dataset/_foreign_impl.rs",
                        [("Dataset for &T", r"\sDataset\s+for\s+&T"), ("Dataset for &mut T", r"\sDataset\s+for\s+&mut\s+T"),
                         ("MutableDataset for &mut T", r"\sMutableDataset\s+for\s+&mut\s+T")]),
                       ("api/src/graph/_foreign_impl.rs",
                        [("Graph for &T", r"\sGraph\s+for\s+&T"), ("Graph for &mut T", r"\sGraph\s+for\s+&mut\s+T"),
                         ("MutableGraph for &mut T", r"\sMutableGraph\s+for\s+&mut\s+T")])):
        text = _strip(read(repo, rel), rel)  # noqa: F821
        for label, hre in impls:
            for name, params, body in _fns2(_impl(text, hre, rel), rel):
                m = re.fullmatch(r"T::(\w+)\(\*self((?:,\w+)*)\)", body)
                callee = m.group(1) if m else "?"
                same = bool(m) and [a for a in m.group(2).split(",") if a] == params
                rows.append((label, name, callee, same))
                if callee != name or not same:
                    info["ref_forward_bad"].append("%s::%s" % (label, name))
    bulk = []
    for trait in ("MutableGraph", "MutableDataset"):
        rel = _BULK[trait][0]
        text = _strip(read(repo, rel), rel)  # noqa: F821
        got = dict((n, b) for n, _, b in _fns2(_trait(text, trait, rel), rel))
        for name, want in _bulk_expected(trait).items():
            g = got.get(name)
            # rustfmt may or may not brace a one-expression closure body
            ok = g is not None and g.replace("|{", "|").replace("})", ")") == _squash(want).replace("|{", "|").replace("})", ")")
            bulk.append((trait, name, ok))
            if not ok:
                info["default_bulk_changed"].append("%s::%s" % (trait, name))
    lines = [HEADER,  # noqa: F821
             "namespace SophiaModel.Gen.ViewGlue\n\n",
             "/-- one method of a reference forwarding impl: the method of `T` its body calls (`?`: not of the form\n"
             "`T::<m>(*self, …)`), and whether it passes exactly its own parameters, in order -/\n",
             "structure Forward where\n  impl : String\n  method : String\n  callee : String\n  sameArgs : Bool\n"
             "  deriving Repr, DecidableEq, Inhabited\n\n",
             "def refForward : List Forward := [\n",
             ",\n".join('  ⟨"%s", "%s", "%s", %s⟩' % (a, b, c, "true" if d else "false") for a, b, c, d in rows),
             "]\n\n",
             "/-- the default bodies of the bulk / element methods of the `Mutable*` traits: is the body still the text\n"
             "transcribed by `SophiaModel.Adapter.Defaults`? -/\n",
             "def defaultBulk : List (String × String × Bool) := [\n",
             ",\n".join('  ("%s", "%s", %s)' % (a, b, "true" if c else "false") for a, b, c in bulk),
             "]\n\nend SophiaModel.Gen.ViewGlue\n"]
    return "".join(lines), info


EXTRACTORS["view_glue"] = ("ViewGlue.lean", _glue)
