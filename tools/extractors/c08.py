"""C08: how the toolkit's validators and the `Trusted<…>` accessors are WIRED, regenerated from /repo.

The theorems of lean/SophiaProofs/Props/C08.lean speak about the regexes of Gen/Regexes.lean; they say
something about /repo only as long as

  * `BnodeId::new` / `VarName::new` / `LanguageTag::new` are `REGEX.is_match(text)` and nothing else
    (tools/extract.py checks the same for the three IRI functions);
  * `Iri::new` is `is_absolute_iri_ref`, `IriRef::new` is `is_valid_iri_ref`;
  * `new_unchecked` (iri/src/_wrap_macro.rs) validates under `cfg!(debug_assertions)` and wraps otherwise, and this
    is the only place of the anchored files that looks at `debug_assertions` (debug and release differ nowhere else);
  * the accessors of rio/src/model.rs re-validate with the validator the Lean driver's `spec` assumes
    (`iri` -> IriRef, `datatype` -> Iri, `bnode_id` -> BnodeId, `variable` -> VarName, `language_tag` -> LanguageTag).

Each fact becomes a definition of `SophiaModel.Gen.ParserWiring`; `wiring_as_modelled` (Props/C08.lean) states the
values the model was written against, by `decide`, so that a change of the wiring fails a proof obligation instead
of silently detaching the theorems from the code.  Unrecognised text gives the value "?" / false, never an
exception (a missing file does raise).  `ExtractError`, `read`, `HEADER` are injected by tools/extract.py.
"""
import re

ANCHORS = ["rio/src/model.rs", "rio/src/parser.rs", "turtle/src/parser/nt.rs", "turtle/src/parser/nq.rs",
           "turtle/src/parser/turtle.rs", "turtle/src/parser/trig.rs", "turtle/src/parser/gnq.rs",
           "turtle/src/parser/gtrig.rs", "xml/src/parser.rs", "jsonld/src/parser.rs", "jsonld/src/parser/adapter.rs",
           "jsonld/src/parser/source.rs", "jsonld/src/vocabulary.rs", "iri/src/_wrap_macro.rs", "iri/src/_regex.rs",
           "iri/src/_wrapper.rs", "api/src/term/bnode_id.rs", "api/src/term/language_tag.rs", "api/src/term/var_name.rs"]


def _strip(text):
    """drop comments (line, doc) and the inline #[cfg(test)] module at the end; collapse white space"""
    text = re.sub(r"//[^\n]*", "", text)
    m = re.search(r"#\[cfg\(test\)\]\s*(?:pub\s+)?mod\s+\w+\s*\{", text)   # an inline test module ends the file
    if m:
        text = text[:m.start()]
    return re.sub(r"\s+", " ", text)


def _fn_body(text, header_re):
    """text of the first `{ … }` block after a match of header_re (brace matching), or None"""
    m = re.search(header_re, text)
    if not m:
        return None
    i = text.find("{", m.end() - 1)
    if i < 0:
        return None
    depth = 0
    for j in range(i, len(text)):
        if text[j] == "{":
            depth += 1
        elif text[j] == "}":
            depth -= 1
            if depth == 0:
                return text[i + 1:j].strip()
    return None


def _new_is(text, guard_re):
    """`pub fn new(x: T) -> Result<…> { if <guard>(x.borrow()) { Ok(W(x)) } else { Err(…) } }`"""
    b = _fn_body(text, r"pub fn new\(\s*\w+: T\s*\) -> Result<Self, \w+> \{")
    if b is None:
        return False
    return re.fullmatch(r"if %s\(\s*\w+\.borrow\(\)\s*\) \{ Ok\(\w+\(\w+\)\) \} else \{ Err\(.*\) \}" % guard_re, b) is not None


def _accessor(text, header_re, field_re):
    """the validator named in the debug assertion of a rio/src/model.rs helper"""
    b = _fn_body(text, header_re)
    if b is None:
        return "?"
    ms = re.findall(r"(debug_assert|assert)!\(\s*(\w+)::new\(%s\)\.is_ok\(\)\s*\)" % field_re, b)
    if len(ms) != 1:
        return "?"
    return ms[0][1] if ms[0][0] == "debug_assert" else ms[0][1] + "!"


def _gen(repo):
    raw = {rel: read(repo, rel) for rel in ANCHORS}
    t = {rel: _strip(s) for rel, s in raw.items()}
    bn = _new_is(t["api/src/term/bnode_id.rs"], r"BNODE_ID\.is_match")
    vn = _new_is(t["api/src/term/var_name.rs"], r"VARNAME\.is_match")
    lt = _new_is(t["api/src/term/language_tag.rs"], r"LANG_TAG\.is_match")
    w = t["iri/src/_wrapper.rs"]
    iri_new = _new_is(w[w.find("wrap! { Iri borrowing"):w.find("wrap! { IriRef borrowing")], r"is_absolute_iri_ref") if "wrap! { IriRef borrowing" in w else False
    iriref_new = _new_is(w[w.find("wrap! { IriRef borrowing"):], r"is_valid_iri_ref") if "wrap! { IriRef borrowing" in w else False
    nu = _fn_body(t["iri/src/_wrap_macro.rs"], r"pub fn new_unchecked\(inner: \$tid\) -> Self \{")
    unchecked_debug_only = nu is not None and re.fullmatch(
        r"if cfg!\(debug_assertions\) \{ Self::new\(inner\)\.unwrap\(\) \} else \{ Self\(inner\) \}", nu) is not None
    lu = _fn_body(t["api/src/term/language_tag.rs"], r"pub fn new_unchecked\(\s*\w+: T\s*\) -> Self \{")
    if lu is None:
        lang_unchecked = "?"
    elif re.fullmatch(r"assert!\(LANG_TAG\.is_match\(\w+\.borrow\(\)\)\); LanguageTag\(\w+\)", lu):
        lang_unchecked = "assert"
    elif re.fullmatch(r"debug_assert!\(LANG_TAG\.is_match\(\w+\.borrow\(\)\)\); LanguageTag\(\w+\)", lu):
        lang_unchecked = "debug_assert"
    else:
        lang_unchecked = "?"
    cfg_sites = sum(len(re.findall(r"debug_assertions", s)) for s in t.values())
    m = t["rio/src/model.rs"]
    acc = [
        ("iri", _accessor(m, r"fn iri\(n: NamedNode\) -> IriRef<MownStr> \{", r"n\.iri")),
        ("bnode_id", _accessor(m, r"fn bnode_id\(b: BlankNode\) -> BnodeId<MownStr> \{", r"b\.id")),
        ("variable", _accessor(m, r"fn variable\(v: Variable\) -> VarName<MownStr> \{", r"v\.name")),
        ("datatype", _accessor(m, r"fn datatype\(l: Literal\) -> IriRef<MownStr> \{", r"datatype\.iri")),
        ("language_tag", _accessor(m, r"fn language_tag\(l: Literal\) -> Option<LanguageTag<MownStr>> \{", r"language")),
    ]
    # every accessor builds its value with new_unchecked on the back-end string itself (no re-parsing, no copy through
    # another validator)
    unchecked_uses = len(re.findall(r"::new_unchecked\(", m))

    # jsonld/src/parser.rs parse_json: are blank node labels checked before the quads are handed out?
    # (text of notes/fixes/C08-jsonld-generalized-bnode-label.diff: `quads.iter().find_map(invalid_bnode)` -> error source)
    pj = _strip(read(repo, "jsonld/src/parser.rs"))
    ad = t["jsonld/src/parser/adapter.rs"]
    jsonld_checks = ("find_map(invalid_bnode)" in pj and "JsonLdQuadSource::from_err" in pj
                     and re.search(r"pub fn invalid_bnode\(q: &RdfQuad\) -> Option<&str>", ad) is not None
                     and "BnodeId::new(&b[2..]).is_err()" in ad)

    def b(x):
        return "true" if x else "false"
    out = [HEADER, "namespace SophiaModel.Gen.ParserWiring\n",
           "/-- `BnodeId::new` / `VarName::new` / `LanguageTag::new` are exactly `REGEX.is_match(text)` -/\n",
           "def bnodeNewIsRegex : Bool := %s\n" % b(bn),
           "def varNewIsRegex : Bool := %s\n" % b(vn),
           "def langNewIsRegex : Bool := %s\n" % b(lt),
           "/-- `Iri::new` is `is_absolute_iri_ref`, `IriRef::new` is `is_valid_iri_ref` -/\n",
           "def iriNewIsAbsolute : Bool := %s\n" % b(iri_new),
           "def iriRefNewIsValid : Bool := %s\n" % b(iriref_new),
           "/-- `wrap!`'s `new_unchecked` is `if cfg!(debug_assertions) { Self::new(inner).unwrap() } else { Self(inner) }` -/\n",
           "def uncheckedValidatesInDebugOnly : Bool := %s\n" % b(unchecked_debug_only),
           "/-- how `LanguageTag::new_unchecked` checks: \"assert\" (all builds), \"debug_assert\", \"?\" -/\n",
           "def langUnchecked : String := \"%s\"\n" % lang_unchecked,
           "/-- occurrences of `debug_assertions` in the anchored files (non-test code): debug and release builds can\n"
           "differ only there -/\n",
           "def debugAssertionSites : Nat := %d\n" % cfg_sites,
           "/-- validator named by the debug assertion of each rio/src/model.rs accessor (a trailing `!` = `assert!`) -/\n",
           "def accessorValidators : List (String × String) := [%s]\n" % ", ".join('("%s", "%s")' % a for a in acc),
           "/-- `…::new_unchecked(` call sites in rio/src/model.rs -/\n",
           "def modelUncheckedCalls : Nat := %d\n" % unchecked_uses,
           "/-- `JsonLdParser::parse_json` turns a quad with a blank node label `BnodeId::new` rejects into an error source\n"
           "(false: shipped text; true: notes/fixes/C08-jsonld-generalized-bnode-label.diff).  Not pinned by a theorem: the\n"
           "model follows it. -/\n",
           "def jsonldRejectsInvalidBnodeLabels : Bool := %s\n" % b(jsonld_checks),
           "end SophiaModel.Gen.ParserWiring\n"]
    info = {"bnodeNewIsRegex": bn, "varNewIsRegex": vn, "langNewIsRegex": lt, "iriNewIsAbsolute": iri_new,
            "iriRefNewIsValid": iriref_new, "uncheckedValidatesInDebugOnly": unchecked_debug_only,
            "langUnchecked": lang_unchecked, "debugAssertionSites": cfg_sites, "accessorValidators": acc,
            "modelUncheckedCalls": unchecked_uses, "jsonldRejectsInvalidBnodeLabels": jsonld_checks}
    return "".join(out), info


EXTRACTORS = {"parserwiring": ("ParserWiring.lean", _gen)}


# ------------------------------------------------------------------ third-party character classes
# The hand models of lean/SophiaModel/Model/Backend.lean transcribe recognisers of third-party crates.  Their
# character classes (the long, error-prone part) are regenerated here from the very sources cargo compiles:
# the crate versions pinned by /repo/Cargo.lock, read from the cargo registry.  Props/C08.lean proves each hand
# class equal (as a language) to the generated one, so a `cargo update` that changes a class, or a slip of the
# transcription, fails a proof obligation.

import glob
import os

_CRATES = ("rio_turtle", "oxiri", "oxilangtag", "rio_xml")


def _locked_versions(repo):
    lock = read(repo, "Cargo.lock")
    out = {}
    for m in re.finditer(r'\[\[package\]\]\s*name = "([^"]+)"\s*version = "([^"]+)"', lock):
        if m.group(1) in _CRATES:
            if m.group(1) in out:
                raise ExtractError("Cargo.lock pins two versions of %s" % m.group(1))
            out[m.group(1)] = m.group(2)
    for c in _CRATES:
        if c not in out:
            raise ExtractError("Cargo.lock does not pin %s" % c)
    return out


def _crate_file(crate, version, rel):
    home = os.environ.get("CARGO_HOME") or os.path.join(os.path.expanduser("~"), ".cargo")
    hits = sorted(glob.glob(os.path.join(home, "registry", "src", "*", "%s-%s" % (crate, version), rel)))
    if hits:
        with open(hits[0], encoding="utf-8") as f:
            return f.read()
    # not unpacked yet (cargo unpacks on the first build): read the member of the downloaded .crate archive
    import tarfile
    for arc in sorted(glob.glob(os.path.join(home, "registry", "cache", "*", "%s-%s.crate" % (crate, version)))):
        try:
            with tarfile.open(arc, "r:gz") as t:
                f = t.extractfile("%s-%s/%s" % (crate, version, rel))
                if f is not None:
                    return f.read().decode("utf-8")
        except (OSError, KeyError, tarfile.TarError):
            continue
    raise ExtractError("source of %s %s (%s) not found in the cargo registry" % (crate, version, rel))


_CHAR = r"'(?:\\u\{([0-9A-Fa-f]+)\}|\\(.)|([^'\\]))'"


_CHAR_RE = re.compile(_CHAR)


def _cp(m, off):
    if m.group(off + 1) is not None:
        return int(m.group(off + 1), 16)
    if m.group(off + 2) is not None:
        return ord({"n": "\n", "t": "\t", "r": "\r", "0": "\0"}.get(m.group(off + 2), m.group(off + 2)))
    return ord(m.group(off + 3))


def _arms(text):
    """code point ranges of the arms of a `matches!(c, 'a'..='z' | '_' | …)`: text between `matches!(c,` and its `)`"""
    out = []
    pos = 0
    arm = re.compile(r"\s*\|?\s*%s(?:\s*\.\.=\s*%s)?" % (_CHAR, _CHAR))
    while True:
        m = arm.match(text, pos)
        if not m:
            break
        lo = _cp(m, 0)
        hi = _cp(m, 3) if (m.group(4) is not None or m.group(5) is not None or m.group(6) is not None) else lo
        out.append((lo, hi))
        pos = m.end()
    if text[pos:].strip():
        raise ExtractError("unparsed arm text: %r" % text[pos:pos + 40])
    return out


def _matches_in(src, fn_header_re, nth=0):
    """arms of the nth `matches!(c, …)` inside the function whose header matches"""
    body = _fn_body(re.sub(r"//[^\n]*", "", src), fn_header_re)
    if body is None:
        raise ExtractError("function %s not found" % fn_header_re)
    ms = list(re.finditer(r"matches!\(\s*c\s*,", body))
    if len(ms) <= nth:
        raise ExtractError("no matches!(c, …) #%d in %s" % (nth, fn_header_re))
    i = ms[nth].end()
    depth, j = 1, i
    while j < len(body) and depth:
        # parentheses inside character literals ('(' and ')') must not count
        if body[j] == "'":
            lit = _CHAR_RE.match(body, j)
            j = lit.end() if lit else j + 1
            continue
        depth += body[j] == "("
        depth -= body[j] == ")"
        j += 1
    return _arms(body[i:j - 1]), body


def _lean_ranges(rs):
    return "[" + ", ".join("(%d, %d)" % r for r in rs) + "]"


def _classes(repo):
    v = _locked_versions(repo)
    shared = _crate_file("rio_turtle", v["rio_turtle"], "src/shared.rs")
    base, _ = _matches_in(shared, r"pub fn is_possible_pn_chars_base_unicode\(c: char\) -> bool \{")
    extra, pn_body = _matches_in(shared, r"pub fn is_possible_pn_chars_unicode\(c: char\) -> bool \{")
    u_body = _fn_body(shared, r"pub fn is_possible_pn_chars_u_unicode\(c: char\) -> bool \{") or ""
    u_is = re.fullmatch(r"is_possible_pn_chars_base_unicode\(c\) \|\| c == '_'", re.sub(r"\s+", " ", u_body).strip()) is not None
    pn_is = re.sub(r"\s+", " ", pn_body).strip().startswith("is_possible_pn_chars_u_unicode(c) || matches!(c,")
    ox = _crate_file("oxiri", v["oxiri"], "src/lib.rs")
    ius, _ = _matches_in(ox, r"fn is_iunreserved_or_sub_delims\(c: char\) -> bool \{")
    us, _ = _matches_in(ox, r"fn is_unreserved_or_sub_delims\(c: char\) -> bool \{")
    qm = re.search(r"is_iunreserved_or_sub_delims\(c\) \|\| matches!\(c, ((?:[^()]|'\('|'\)')*?'\\u\{100000\}'\.\.='\\u\{10FFFD\}')\)", ox)
    if not qm:
        raise ExtractError("oxiri: the query code point test was not found")
    query_extra = _arms(qm.group(1))
    xml = _crate_file("rio_xml", v["rio_xml"], "src/utils.rs")
    ns, _ = _matches_in(xml, r"pub fn is_name_start_char\(c: char\) -> bool \{")
    ne, nc_body = _matches_in(xml, r"pub fn is_name_char\(c: char\) -> bool \{")
    nc_is = re.sub(r"\s+", " ", nc_body).strip().startswith("is_name_start_char(c) || matches!(c,")
    lt = _crate_file("oxilangtag", v["oxilangtag"], "src/lib.rs")
    gm = re.search(r"const GRANDFATHEREDS: \[&str; (\d+)\] = \[(.*?)\];", lt, re.S)
    if not gm:
        raise ExtractError("oxilangtag: GRANDFATHEREDS not found")
    gf = re.findall(r'"([^"]*)"', gm.group(2))
    if len(gf) != int(gm.group(1)):
        raise ExtractError("oxilangtag: GRANDFATHEREDS length mismatch")
    out = [HEADER, "namespace SophiaModel.Gen.BackendClasses\n",
           "/-- crate versions pinned by /repo/Cargo.lock; the classes below are read from these sources in the cargo registry -/\n",
           "def versions : List (String × String) := [%s]\n" % ", ".join('("%s", "%s")' % (c, v[c]) for c in _CRATES),
           "/-- rio_turtle shared.rs `is_possible_pn_chars_base_unicode` -/\n",
           "def rioPnCharsBase : List (Nat × Nat) := %s\n" % _lean_ranges(base),
           "/-- `is_possible_pn_chars_u_unicode(c)` is `is_possible_pn_chars_base_unicode(c) || c == '_'` -/\n",
           "def rioPnCharsUIsBaseOrUnderscore : Bool := %s\n" % ("true" if u_is else "false"),
           "/-- the arms `is_possible_pn_chars_unicode` adds to `is_possible_pn_chars_u_unicode` -/\n",
           "def rioPnCharsExtra : List (Nat × Nat) := %s\n" % _lean_ranges(extra),
           "def rioPnCharsIsUOrExtra : Bool := %s\n" % ("true" if pn_is else "false"),
           "/-- oxiri `is_iunreserved_or_sub_delims` / `is_unreserved_or_sub_delims` -/\n",
           "def oxiriIus : List (Nat × Nat) := %s\n" % _lean_ranges(ius),
           "def oxiriUs : List (Nat × Nat) := %s\n" % _lean_ranges(us),
           "/-- what oxiri's query loop accepts beyond `is_iunreserved_or_sub_delims` (and `%` escapes) -/\n",
           "def oxiriQueryExtra : List (Nat × Nat) := %s\n" % _lean_ranges(query_extra),
           "/-- rio_xml utils.rs `is_name_start_char`, and the arms `is_name_char` adds -/\n",
           "def xmlNameStart : List (Nat × Nat) := %s\n" % _lean_ranges(ns),
           "def xmlNameExtra : List (Nat × Nat) := %s\n" % _lean_ranges(ne),
           "def xmlNameCharIsStartOrExtra : Bool := %s\n" % ("true" if nc_is else "false"),
           "/-- oxilangtag `GRANDFATHEREDS` (matched ignoring ASCII case) -/\n",
           "def grandfathered : List String := [%s]\n" % ", ".join('"%s"' % g for g in gf),
           "end SophiaModel.Gen.BackendClasses\n"]
    return "".join(out), {"versions": v, "classes": 8, "grandfathered": len(gf)}


EXTRACTORS["backendclasses"] = ("BackendClasses.lean", _classes)
