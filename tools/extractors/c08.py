"""C08: how the toolkit's validators and the `Trusted<…>` accessors are WIRED, regenerated from /repo.

The theorems of lean/SophiaProofs/Props/C08.lean speak about the regexes of Gen/Regexes.lean; they say
something about /repo only as long as

  * `BnodeId::new` / `VarName::new` / `LanguageTag::new` are `REGEX.is_match(text)` and nothing else
    (tools/extract.py checks the same for the three IRI functions);
  * `Iri::new` is `is_absolute_iri_ref`, `IriRef::new` is `is_valid_iri_ref`;
  * `new_unchecked` (iri/src/_wrap_macro.rs) validates under `cfg!(debug_assertions)` and wraps otherwise, and this
    is the only place of the anchored files that looks at `debug_assertions` (debug and release differ nowhere else);
  * the accessors of rio/src/model.rs re-validate with the validator the Lean driver's `spec` assumes
    (`iri` -> IriRef, `datatype` -> Iri, `bnode_id` -> BnodeId, `variable` -> VarName, `language_tag` -> LanguageTag).

Each fact becomes a definition of `SophiaModel.Gen.ParserWiring`; `wiring_as_modelled` (Props/C08.lean) states the
values the model was written against, by `decide`, so that a change of the wiring fails a proof obligation instead
of silently detaching the theorems from the code.  Unrecognised text gives the value "?" / false, never an
exception (a missing file does raise).  `ExtractError`, `read`, `HEADER` are injected by tools/extract.py.
"""
import re

ANCHORS = ["rio/src/model.rs", "rio/src/parser.rs", "turtle/src/parser/nt.rs", "turtle/src/parser/nq.rs",
           "turtle/src/parser/turtle.rs", "turtle/src/parser/trig.rs", "turtle/src/parser/gnq.rs",
           "turtle/src/parser/gtrig.rs", "xml/src/parser.rs", "jsonld/src/parser.rs", "jsonld/src/parser/adapter.rs",
           "jsonld/src/parser/source.rs", "jsonld/src/vocabulary.rs", "iri/src/_wrap_macro.rs", "iri/src/_regex.rs",
           "iri/src/_wrapper.rs", "api/src/term/bnode_id.rs", "api/src/term/language_tag.rs", "api/src/term/var_name.rs"]


def _strip(text):
    """drop comments (line, doc) and the inline #[cfg(test)] module at the end; collapse white space"""
    text = re.sub(r"//[^\n]*", "", text)
    m = re.search(r"#\[cfg\(test\)\]\s*(?:pub\s+)?mod\s+\w+\s*\{", text)   # an inline test module ends the file
    if m:
        text = text[:m.start()]
    return re.sub(r"\s+", " ", text)


def _fn_body(text, header_re):
    """text of the first `{ … }` block after a match of header_re (brace matching), or None"""
    m = re.search(header_re, text)
    if not m:
        return None
    i = text.find("{", m.end() - 1)
    if i < 0:
        return None
    depth = 0
    for j in range(i, len(text)):
        if text[j] == "{":
            depth += 1
        elif text[j] == "}":
            depth -= 1
            if depth == 0:
                return text[i + 1:j].strip()
    return None


def _new_is(text, guard_re):
    """`pub fn new(x: T) -> Result<…> { if <guard>(x.borrow()) { Ok(W(x)) } else { Err(…) } }`"""
    b = _fn_body(text, r"pub fn new\(\s*\w+: T\s*\) -> Result<Self, \w+> \{")
    if b is None:
        return False
    return re.fullmatch(r"if %s\(\s*\w+\.borrow\(\)\s*\) \{ Ok\(\w+\(\w+\)\) \} else \{ Err\(.*\) \}" % guard_re, b) is not None


def _accessor(text, header_re, field_re):
    """the validator named in the debug assertion of a rio/src/model.rs helper"""
    b = _fn_body(text, header_re)
    if b is None:
        return "?"
    ms = re.findall(r"(debug_assert|assert)!\(\s*(\w+)::new\(%s\)\.is_ok\(\)\s*\)" % field_re, b)
    if len(ms) != 1:
        return "?"
    return ms[0][1] if ms[0][0] == "debug_assert" else ms[0][1] + "!"


def _gen(repo):
    raw = {rel: read(repo, rel) for rel in ANCHORS}
    t = {rel: _strip(s) for rel, s in raw.items()}
    bn = _new_is(t["api/src/term/bnode_id.rs"], r"BNODE_ID\.is_match")
    vn = _new_is(t["api/src/term/var_name.rs"], r"VARNAME\.is_match")
    lt = _new_is(t["api/src/term/language_tag.rs"], r"LANG_TAG\.is_match")
    w = t["iri/src/_wrapper.rs"]
    iri_new = _new_is(w[w.find("wrap! { Iri borrowing"):w.find("wrap! { IriRef borrowing")], r"is_absolute_iri_ref") if "wrap! { IriRef borrowing" in w else False
    iriref_new = _new_is(w[w.find("wrap! { IriRef borrowing"):], r"is_valid_iri_ref") if "wrap! { IriRef borrowing" in w else False
    nu = _fn_body(t["iri/src/_wrap_macro.rs"], r"pub fn new_unchecked\(inner: \$tid\) -> Self \{")
    unchecked_debug_only = nu is not None and re.fullmatch(
        r"if cfg!\(debug_assertions\) \{ Self::new\(inner\)\.unwrap\(\) \} else \{ Self\(inner\) \}", nu) is not None
    lu = _fn_body(t["api/src/term/language_tag.rs"], r"pub fn new_unchecked\(\s*\w+: T\s*\) -> Self \{")
    if lu is None:
        lang_unchecked = "?"
    elif re.fullmatch(r"assert!\(LANG_TAG\.is_match\(\w+\.borrow\(\)\)\); LanguageTag\(\w+\)", lu):
        lang_unchecked = "assert"
    elif re.fullmatch(r"debug_assert!\(LANG_TAG\.is_match\(\w+\.borrow\(\)\)\); LanguageTag\(\w+\)", lu):
        lang_unchecked = "debug_assert"
    else:
        lang_unchecked = "?"
    cfg_sites = sum(len(re.findall(r"debug_assertions", s)) for s in t.values())
    m = t["rio/src/model.rs"]
    acc = [
        ("iri", _accessor(m, r"fn iri\(n: NamedNode\) -> IriRef<MownStr> \{", r"n\.iri")),
        ("bnode_id", _accessor(m, r"fn bnode_id\(b: BlankNode\) -> BnodeId<MownStr> \{", r"b\.id")),
        ("variable", _accessor(m, r"fn variable\(v: Variable\) -> VarName<MownStr> \{", r"v\.name")),
        ("datatype", _accessor(m, r"fn datatype\(l: Literal\) -> IriRef<MownStr> \{", r"datatype\.iri")),
        ("language_tag", _accessor(m, r"fn language_tag\(l: Literal\) -> Option<LanguageTag<MownStr>> \{", r"language")),
    ]
    # every accessor builds its value with new_unchecked on the back-end string itself (no re-parsing, no copy through
    # another validator)
    unchecked_uses = len(re.findall(r"::new_unchecked\(", m))

    # jsonld/src/parser.rs parse_json: are blank node labels checked before the quads are handed out?
    # (text of notes/fixes/C08-jsonld-generalized-bnode-label.diff: `quads.iter().find_map(invalid_bnode)` -> error source)
    pj = _strip(read(repo, "jsonld/src/parser.rs"))
    ad = t["jsonld/src/parser/adapter.rs"]
    jsonld_checks = ("find_map(invalid_bnode)" in pj and "JsonLdQuadSource::from_err" in pj
                     and re.search(r"pub fn invalid_bnode\(q: &RdfQuad\) -> Option<&str>", ad) is not None
                     and "BnodeId::new(&b[2..]).is_err()" in ad)

    def b(x):
        return "true" if x else "false"
    out = [HEADER, "namespace SophiaModel.Gen.ParserWiring\n",
           "/-- `BnodeId::new` / `VarName::new` / `LanguageTag::new` are exactly `REGEX.is_match(text)` -/\n",
           "def bnodeNewIsRegex : Bool := %s\n" % b(bn),
           "def varNewIsRegex : Bool := %s\n" % b(vn),
           "def langNewIsRegex : Bool := %s\n" % b(lt),
           "/-- `Iri::new` is `is_absolute_iri_ref`, `IriRef::new` is `is_valid_iri_ref` -/\n",
           "def iriNewIsAbsolute : Bool := %s\n" % b(iri_new),
           "def iriRefNewIsValid : Bool := %s\n" % b(iriref_new),
           "/-- `wrap!`'s `new_unchecked` is `if cfg!(debug_assertions) { Self::new(inner).unwrap() } else { Self(inner) }` -/\n",
           "def uncheckedValidatesInDebugOnly : Bool := %s\n" % b(unchecked_debug_only),
           "/-- how `LanguageTag::new_unchecked` checks: \"assert\" (all builds), \"debug_assert\", \"?\" -/\n",
           "def langUnchecked : String := \"%s\"\n" % lang_unchecked,
           "/-- occurrences of `debug_assertions` in the anchored files (non-test code): debug and release builds can\n"
           "differ only there -/\n",
           "def debugAssertionSites : Nat := %d\n" % cfg_sites,
           "/-- validator named by the debug assertion of each rio/src/model.rs accessor (a trailing `!` = `assert!`) -/\n",
           "def accessorValidators : List (String × String) := [%s]\n" % ", ".join('("%s", "%s")' % a for a in acc),
           "/-- `…::new_unchecked(` call sites in rio/src/model.rs -/\n",
           "def modelUncheckedCalls : Nat := %d\n" % unchecked_uses,
           "/-- `JsonLdParser::parse_json` turns a quad with a blank node label `BnodeId::new` rejects into an error source\n"
           "(false: shipped text; true: notes/fixes/C08-jsonld-generalized-bnode-label.diff).  Not pinned by a theorem: the\n"
           "model follows it. -/\n",
           "def jsonldRejectsInvalidBnodeLabels : Bool := %s\n" % b(jsonld_checks),
           "end SophiaModel.Gen.ParserWiring\n"]
    info = {"bnodeNewIsRegex": bn, "varNewIsRegex": vn, "langNewIsRegex": lt, "iriNewIsAbsolute": iri_new,
            "iriRefNewIsValid": iriref_new, "uncheckedValidatesInDebugOnly": unchecked_debug_only,
            "langUnchecked": lang_unchecked, "debugAssertionSites": cfg_sites, "accessorValidators": acc,
            "modelUncheckedCalls": unchecked_uses, "jsonldRejectsInvalidBnodeLabels": jsonld_checks}
    return "".join(out), info


EXTRACTORS = {"parserwiring": ("ParserWiring.lean", _gen)}
