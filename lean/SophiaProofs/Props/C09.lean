/-
C09 — IRI validation is exactly RFC 3987 and agrees with the resolver.

Stated over
  * `Gen.Iri.IRI_REGEX` / `Gen.Iri.IRELATIVE_REF_REGEX` / `Gen.Iri.IRI_REF_REGEX`, regenerated from
    iri/src/_regex.rs on every run (tools/extractors/c09.py, table `regexes_iri`);
  * `Gen.IriWiring.*`: which validator each typed constructor calls (table `iri_wiring`);
  * `IriWrapper.*` (Model/IriWrapper.lean): `Iri::new`, `IriRef::new`, `as_base`, `is_valid_suffixed_iri_ref`,
    `Namespace::get` — the functions the driver `smd_C09` executes;
  * `Rfc3986.resolve` (the RFC 3986 §5.2 oracle) and `OxiriResolve.resolve` (the algorithm that is
    really behind `Iri::resolve`).

Sections: 1 language exactness, 2 typed constructors, 3 "usable as a base", 4 namespaces,
5 resolution (oracle laws; the code's algorithm agrees with the oracle only PARTIALLY — the full
statement is kept and refuted by four kernel-checked witnesses = the four findings).
-/
import SophiaModel.Model.Iri3987
import SophiaModel.Model.IriWrapper
import SophiaModel.Model.Resolve3986
import SophiaModel.Model.OxiriResolve
import SophiaProofs.Lemmas.Resolve3986
import SophiaProofs.Lemmas.OxiriSim

namespace SophiaProofs.C09
open SophiaModel Re

/-! ## 1. the validators' languages -/

/-- `is_absolute_iri_ref` accepts exactly the RFC 3987 `IRI` production. -/
theorem iri_regex_exact : ∀ w, Matches Gen.Iri.IRI_REGEX w ↔ Matches Rfc3987.IRI w :=
  decideEquiv_sound _ _ (by native_decide)

/-- `is_relative_iri_ref` accepts exactly `irelative-ref`. -/
theorem irel_regex_exact : ∀ w, Matches Gen.Iri.IRELATIVE_REF_REGEX w ↔ Matches Rfc3987.irelativeRef w :=
  decideEquiv_sound _ _ (by native_decide)

/-- `is_valid_iri_ref` (the RegexSet) accepts exactly `IRI-reference`. -/
theorem iriref_is_union : ∀ w, Matches Gen.Iri.IRI_REF_REGEX w ↔ Matches Rfc3987.IRIreference w := by
  intro w
  simp only [Gen.Iri.IRI_REF_REGEX, Rfc3987.IRIreference, matches_alt, iri_regex_exact, irel_regex_exact]

/-- classification: no string is both absolute and relative -/
theorem abs_rel_disjoint : ∀ w, ¬ (Matches Gen.Iri.IRI_REGEX w ∧ Matches Gen.Iri.IRELATIVE_REF_REGEX w) :=
  decideDisj_sound _ _ (by native_decide)

-- non-vacuity: concrete members, including the shapes the shipped test table lacks
example : Matches Gen.Iri.IRI_REGEX (ofStr "http://[1:2::3:4:5:6:7]/a?b#c") := by decide
example : ¬ Matches Gen.Iri.IRI_REGEX (ofStr "http://[1::2::3:4:5:6:7]/") := by decide
example : ¬ Matches Gen.Iri.IRI_REGEX (ofStr "http://a:80junk") := by decide
example : Matches Gen.Iri.IRELATIVE_REF_REGEX (ofStr "../é/x?y") := by decide
example : ¬ Matches Gen.Iri.IRELATIVE_REF_REGEX (ofStr "//[1:2:3:4:5::6:7:8]") := by decide

/-! ## 2. the typed constructors, as wired in /repo -/

/-- The wiring the theorems below rely on, re-read from the source on every run: `Iri::new` calls
`is_absolute_iri_ref`, `IriRef::new` calls `is_valid_iri_ref`, the suffixed validator checks
`ns ++ suffix` with `is_valid_iri_ref`, an `NsTerm` displays `ns` then `suffix`.  A regression of any
flag fails this obligation (and the `*_exact` theorems). -/
theorem wiring_pinned :
    Gen.IriWiring.iriNew = .abs ∧ Gen.IriWiring.iriRefNew = .ref ∧
    Gen.IriWiring.suffixedNone = .ref ∧ Gen.IriWiring.suffixedSome = .ref ∧
    Gen.IriWiring.suffixedNsFirst = true ∧ Gen.IriWiring.nsTermNsFirst = true := by decide

theorem is_absolute_exact (w : List Nat) : IriWrapper.isAbsolute w = true ↔ Matches Rfc3987.IRI w := by
  unfold IriWrapper.isAbsolute IriWrapper.accepts
  rw [matchB_iff]; exact iri_regex_exact w

theorem is_relative_exact (w : List Nat) : IriWrapper.isRelative w = true ↔ Matches Rfc3987.irelativeRef w := by
  unfold IriWrapper.isRelative IriWrapper.accepts
  rw [matchB_iff]; exact irel_regex_exact w

theorem is_valid_ref_exact (w : List Nat) : IriWrapper.isValidRef w = true ↔ Matches Rfc3987.IRIreference w := by
  unfold IriWrapper.isValidRef IriWrapper.accepts
  rw [matchB_iff]; exact iriref_is_union w

/-- `Iri::new(w)` succeeds iff `w` is an RFC 3987 `IRI`. -/
theorem iri_new_exact (w : List Nat) : IriWrapper.iriNew w = true ↔ Matches Rfc3987.IRI w :=
  is_absolute_exact w

/-- `IriRef::new(w)` succeeds iff `w` is an RFC 3987 `IRI-reference`. -/
theorem iriref_new_exact (w : List Nat) : IriWrapper.iriRefNew w = true ↔ Matches Rfc3987.IRIreference w :=
  is_valid_ref_exact w

/-- "classified absolute/relative accordingly": every accepted reference is exactly one of absolute
(then `Iri::new` accepts it too) or relative. -/
theorem classification (w : List Nat) (h : IriWrapper.iriRefNew w = true) :
    (IriWrapper.isAbsolute w = true ∧ IriWrapper.isRelative w = false ∧ IriWrapper.iriNew w = true) ∨
    (IriWrapper.isAbsolute w = false ∧ IriWrapper.isRelative w = true ∧ IriWrapper.iriNew w = false) := by
  have hu := (iriref_new_exact w).1 h
  have hd := abs_rel_disjoint w
  have ha := is_absolute_exact w
  have hr := is_relative_exact w
  have hn := iri_new_exact w
  rw [Rfc3987.IRIreference, matches_alt] at hu
  rw [iri_regex_exact, irel_regex_exact] at hd
  cases hA : IriWrapper.isAbsolute w <;> cases hR : IriWrapper.isRelative w <;>
    cases hN : IriWrapper.iriNew w <;> simp_all

example : IriWrapper.iriRefNew (ofStr "//h/p?q") = true := by decide

/-! ## 3. every accepted value can be used as a base -/

/-- `IRI_REGEX ⊆ oxiri::Iri::parse` (hand model of oxiri's recogniser, `Backend.Oxiri.abs`) -/
theorem iri_sub_oxiri : ∀ w, Matches Gen.Iri.IRI_REGEX w → Matches Backend.Oxiri.abs w :=
  decideIncl_sound _ _ (by native_decide)

/-- `IRI_REF_REGEX ⊆ oxiri::IriRef::parse` (`Backend.Oxiri.ref`) -/
theorem iriref_sub_oxiri : ∀ w, Matches Gen.Iri.IRI_REF_REGEX w → Matches Backend.Oxiri.ref w :=
  decideIncl_sound _ _ (by native_decide)

/-- `Iri::as_base` / `Iri::to_base` never panic: the `unwrap` of `BaseIri::new` cannot fail on a
value `Iri::new` accepted. -/
theorem iri_as_base_never_panics (w : List Nat) : IriWrapper.iriAsBase w ≠ .panic := by
  unfold IriWrapper.iriAsBase
  by_cases h : IriWrapper.iriNew w = true
  · have hb : IriWrapper.baseIriNew w = true :=
      (matchB_iff _ _).2 (iri_sub_oxiri w ((matchB_iff _ _).1 h))
    simp [h, hb]
  · simp [h]

/-- `IriRef::as_base` / `IriRef::to_base` never panic. -/
theorem iriref_as_base_never_panics (w : List Nat) : IriWrapper.iriRefAsBase w ≠ .panic := by
  unfold IriWrapper.iriRefAsBase
  by_cases h : IriWrapper.iriRefNew w = true
  · have hb : IriWrapper.baseIriRefNew w = true :=
      (matchB_iff _ _).2 (iriref_sub_oxiri w ((matchB_iff _ _).1 h))
    simp [h, hb]
  · simp [h]

example : IriWrapper.iriAsBase (ofStr "http://[1:2::3:4:5:6:7]/") = .ok := by decide
example : IriWrapper.iriRefAsBase (ofStr "//u@[::1]:8/p") = .ok := by decide
example : IriWrapper.iriAsBase (ofStr "//h") = .notConstructible := by decide

/-! ## 4. namespaces -/

/-- `is_valid_suffixed_iri_ref(ns, Some(suffix))` ⇔ `ns ++ suffix` is an `IRI-reference`. -/
theorem suffixed_exact (ns sfx : List Nat) :
    IriWrapper.suffixed ns (some sfx) = true ↔ Matches Rfc3987.IRIreference (ns ++ sfx) :=
  is_valid_ref_exact (ns ++ sfx)

theorem suffixed_none_exact (ns : List Nat) :
    IriWrapper.suffixed ns none = true ↔ Matches Rfc3987.IRIreference ns :=
  is_valid_ref_exact ns

/-- `Namespace::new(ns)?.get(suffix)` succeeds iff `ns` and `ns ++ suffix` are `IRI-reference`s; and
the term it returns stands for `ns ++ suffix`. -/
theorem namespace_get_exact (ns sfx : List Nat) :
    IriWrapper.namespaceGet ns sfx = some true ↔
      (Matches Rfc3987.IRIreference ns ∧ Matches Rfc3987.IRIreference (ns ++ sfx)) := by
  have h1 := iriref_new_exact ns
  have h2 := iriref_new_exact (ns ++ sfx)
  unfold IriWrapper.namespaceGet IriWrapper.namespaceNew
  have e : IriWrapper.nsTermStr ns sfx = ns ++ sfx := rfl
  rw [e]
  cases hA : IriWrapper.iriRefNew ns <;> cases hB : IriWrapper.iriRefNew (ns ++ sfx) <;> simp_all

theorem ns_term_is_concatenation (ns sfx : List Nat) : IriWrapper.nsTermStr ns sfx = ns ++ sfx := rfl

example : IriWrapper.namespaceGet (ofStr "http://ex.org/ns#") (ofStr "foo") = some true := by decide
example : IriWrapper.namespaceGet (ofStr "http://ex.org/ns#") (ofStr "a b") = some false := by decide
example : IriWrapper.namespaceGet (ofStr "a b") (ofStr "c") = none := by decide

/-! ## 5. resolution

`Rfc3986.resolve` is the oracle the differential compares `Iri::resolve` with.  Laws of the oracle,
then the relation between the oracle and the algorithm the code really runs (`OxiriResolve.resolve`,
oxiri 0.2.11): they agree on same-document references, and NOT in general. -/

/-- RFC 3986 Appendix B split followed by §5.3 recomposition is the identity: no character of a
base or reference is lost or invented by the oracle's parser. -/
theorem recompose_split (s : Str) : Rfc3986.recompose (Rfc3986.split s) = s :=
  SophiaProofs.Resolve.recompose_split s

/-- §5.2.2 with an empty reference: the result is the base without its fragment (and nothing else
changes) — the "same-document reference" case. -/
theorem resolve_same_document (b : Str) :
    Rfc3986.resolve b [] ++ SophiaProofs.Resolve.showFrag (Rfc3986.split b).fragment = b :=
  SophiaProofs.Resolve.resolve_empty_ref b

example : Rfc3986.resolve "http://a/b?q#f".toList [] = "http://a/b?q".toList := by decide

/-- references for which oxiri's algorithm is the RFC's: empty, `#fragment`, `?query[#fragment]` -/
def SameDocumentRef (r : Str) : Prop := r = [] ∨ (∃ f, r = '#' :: f) ∨ (∃ q, r = '?' :: q)

/-- FULL statement of the resolution clause for the code's algorithm: on accepted inputs it returns
the RFC 3986 §5.2 result (in particular it never errs, i.e. the typed API never panics). -/
def OxiriAgrees : Prop :=
  ∀ b r : Str, IriWrapper.iriNew (b.map Char.toNat) = true → IriWrapper.iriRefNew (r.map Char.toNat) = true →
    OxiriResolve.resolve b r = some (Rfc3986.resolve b r)

/-- PARTIAL: proved for same-document references, any base (not even required to be accepted).
Missing obligation: references with a path (`OxiriAgrees` is false there, see the four refutations). -/
theorem oxiri_agrees_partial (b r : Str) (h : SameDocumentRef r) :
    OxiriResolve.resolve b r = some (Rfc3986.resolve b r) := by
  rcases h with h | ⟨f, h⟩ | ⟨q, h⟩ <;> subst h
  · exact SophiaProofs.Resolve.ox_empty b
  · exact SophiaProofs.Resolve.ox_fragment b f
  · exact SophiaProofs.Resolve.ox_query b q

example : SameDocumentRef "?y#s".toList := Or.inr (Or.inr ⟨"y#s".toList, rfl⟩)

/-- finding C09-oxiri-rootpop: `resolve("x:/a", "../g")` = `x:g`, RFC: `x:/g` -/
theorem oxiri_agrees_refuted_rootpop : ¬ OxiriAgrees := fun h =>
  absurd (h "x:/a".toList "../g".toList (by decide) (by decide)) (by decide)

/-- finding C09-resolve-panic-slashslash: `resolve("x:/a", ".//g")` errs (typed API: panic), RFC: `x://g` -/
theorem oxiri_agrees_refuted_panic : ¬ OxiriAgrees := fun h =>
  absurd (h "x:/a".toList ".//g".toList (by decide) (by decide)) (by decide)

/-- finding C09-base-dot-segments: `resolve("http://a/b/../c", "g")` = `http://a/b/../g`, RFC: `http://a/g` -/
theorem oxiri_agrees_refuted_base_dots : ¬ OxiriAgrees := fun h =>
  absurd (h "http://a/b/../c".toList "g".toList (by decide) (by decide)) (by decide)

/-- finding C09-ref-authority-dot-segments: `resolve("x:/", "//h/.")` = `x://h/.`, RFC: `x://h/` -/
theorem oxiri_agrees_refuted_ref_authority : ¬ OxiriAgrees := fun h =>
  absurd (h "x:/".toList "//h/.".toList (by decide) (by decide)) (by decide)

/-! ### round 3: the fuel hypothesis, panic-freedom and RFC agreement on bases with an authority -/

/-- the fuel of §5.2.4 (`removeDotSegments p = rdsLoop (p.length + 1) p []`) is never exhausted: every
larger fuel gives the same result (each step strictly shortens the input, `rdsStep_decreases`). -/
theorem remove_dot_segments_fuel (p : Str) (n : Nat) (h : p.length < n) :
    Rfc3986.rdsLoop n p [] = Rfc3986.removeDotSegments p :=
  SophiaProofs.OxiriSim.rdsLoop_fuel n (p.length + 1) p [] h (Nat.lt_succ_self _)

/-- no accepted reference begins with ':' (so oxiri's `NoScheme` error is unreachable) -/
theorem accepted_ref_no_leading_colon (t : List Nat) : IriWrapper.iriRefNew (58 :: t) = false := by
  cases h : IriWrapper.iriRefNew (58 :: t) with
  | false => rfl
  | true => exact absurd ((matchB_iff _ _).1 h) (SophiaProofs.OxiriSim.ref_no_leading_colon t)

/-- "every accepted value can be resolved without panicking", for every base that HAS an authority
(`http://…`, `file://…`, network-path bases): oxiri's algorithm returns a result, so the `unwrap` of the
typed `Resolvable::output_abs/output_rel` cannot fail.  The hypothesis is necessary:
`oxiri_agrees_refuted_panic` is an authority-less base on which it does fail. -/
theorem typed_resolve_never_panics_with_authority (b r : Str)
    (hr : IriWrapper.iriRefNew (r.map Char.toNat) = true)
    (hb : (Rfc3986.split b).authority.isSome = true) :
    OxiriResolve.resolve b r ≠ none := by
  have h := SophiaProofs.OxiriSim.resolve_isSome_of_authority b r hb (by
    intro t e
    subst e
    have := accepted_ref_no_leading_colon (t.map Char.toNat)
    simp at hr
    rw [this] at hr
    exact absurd hr (by simp))
  intro e
  rw [e] at h
  exact absurd h (by simp)

example : (Rfc3986.split "http://a/b/c/d;p?q".toList).authority.isSome = true := by decide
example : OxiriResolve.resolve "http://a/b".toList ".//g".toList = some "http://a//g".toList := by decide

/-- references `/path[?query][#fragment]` (absolute-path, not network-path) -/
def AbsPathRef (r : Str) : Prop :=
  ∃ rp tail : Str, r = '/' :: rp ++ tail ∧ (∀ c ∈ rp, c ≠ '?' ∧ c ≠ '#') ∧
    SophiaProofs.OxiriSim.Tail tail ∧ (∀ y, rp ≠ '/' :: y)

/-- PARTIAL (second part): for ANY base with an authority — dot segments in the base or not — and any
absolute-path reference, dot segments included, the code's one-pass algorithm returns exactly the
RFC 3986 §5.2 result (simulation of §5.2.4 by `parse_path::<true>`, `OxiriSim.sim`).
Still missing from `OxiriAgrees`: relative-path references (they need the base's own path to be
dot-free: `oxiri_agrees_refuted_base_dots`), references with a scheme or authority and dot segments
(`oxiri_agrees_refuted_ref_authority`), authority-less bases (`…_rootpop`, `…_panic`). -/
theorem oxiri_agrees_abs_path_partial (b r : Str) (hb : (Rfc3986.split b).authority.isSome = true)
    (h : AbsPathRef r) : OxiriResolve.resolve b r = some (Rfc3986.resolve b r) := by
  obtain ⟨rp, tail, e, hq, ht, hh⟩ := h
  subst e
  exact SophiaProofs.OxiriSim.ox_abs_path b rp tail hb hq ht hh

example : AbsPathRef "/a/./b/../c?q#f".toList :=
  ⟨"a/./b/../c".toList, "?q#f".toList, rfl, by decide, Or.inr ⟨'?', "q#f".toList, rfl, Or.inl rfl⟩, by
    intro y e; cases e⟩
example : Rfc3986.resolve "http://h/x/../y".toList "/a/./b/../c?q#f".toList = "http://h/a/c?q#f".toList := by decide

/-- FULL statement of "... which is itself an accepted absolute IRI" for the ORACLE: the RFC 3986
§5.2 result of accepted inputs is an RFC 3987 `IRI`. -/
def ResolveClosed : Prop :=
  ∀ b r : Str, IriWrapper.iriNew (b.map Char.toNat) = true → IriWrapper.iriRefNew (r.map Char.toNat) = true →
    Matches Rfc3987.IRI ((Rfc3986.resolve b r).map Char.toNat)

/-- It is false, for the RFC's own algorithm: §5.2.4 can leave a path that begins with "//" on an
authority-less base; recomposed, `x:a` + `a/..//b:c//` is `x://b:c//`, whose "authority" `b:c` has a
non-numeric port.  (This is the corner where oxiri reports `PathStartingWithTwoSlashes`.)  The
differential therefore demands acceptance of the IMPLEMENTATION's result only (`o.valid`). -/
theorem resolve_closed_refuted : ¬ ResolveClosed := fun h =>
  absurd (h "x:a".toList "a/..//b:c//".toList (by decide) (by decide)) (by decide)

/-- PARTIAL closure: same-document references never leave the grammar's five-part shape — the
result is the base minus its fragment (`resolve_same_document`), re-stated on one concrete value. -/
example : Matches Rfc3987.IRI (ofStr (String.ofList (Rfc3986.resolve "http://a/b?q#f".toList []))) := by decide

/-- the specific wrong values the known-finding predicates of tools/propcfg/C09.py demand -/
theorem oxiri_deviation_values :
    OxiriResolve.resolve "x:/a".toList "../g".toList = some "x:g".toList ∧
    OxiriResolve.resolve "x:/a".toList ".//g".toList = none ∧
    OxiriResolve.resolve "http://a/b/../c".toList "g".toList = some "http://a/b/../g".toList ∧
    OxiriResolve.resolve "x:/".toList "//h/.".toList = some "x://h/.".toList := by decide

end SophiaProofs.C09
