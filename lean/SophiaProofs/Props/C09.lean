/-
C09 — IRI validation is exactly RFC 3987.
Theorems are stated over `Gen.IRI_REGEX` / `Gen.IRELATIVE_REF_REGEX`, regenerated from
`iri/src/_regex.rs` on every run.
-/
import SophiaModel.Model.Iri3987
import SophiaModel.Gen.Regexes

namespace SophiaProofs.C09
open SophiaModel Re

/-- `Iri::new` / `is_absolute_iri_ref` accept exactly the RFC 3987 `IRI` production. -/
theorem iri_regex_exact : ∀ w, Matches Gen.IRI_REGEX w ↔ Matches Rfc3987.IRI w :=
  decideEquiv_sound _ _ (by native_decide)

/-- `is_relative_iri_ref` accepts exactly `irelative-ref`. -/
theorem irel_regex_exact : ∀ w, Matches Gen.IRELATIVE_REF_REGEX w ↔ Matches Rfc3987.irelativeRef w :=
  decideEquiv_sound _ _ (by native_decide)

/-- `IriRef::new` / `is_valid_iri_ref` (the RegexSet) accept exactly `IRI-reference`. -/
theorem iriref_is_union : ∀ w, Matches Gen.IRI_REF_REGEX w ↔ Matches Rfc3987.IRIreference w := by
  intro w
  simp only [Gen.IRI_REF_REGEX, Rfc3987.IRIreference, matches_alt, iri_regex_exact, irel_regex_exact]

/-- classification: no string is both absolute and relative -/
theorem abs_rel_disjoint : ∀ w, ¬ (Matches Gen.IRI_REGEX w ∧ Matches Gen.IRELATIVE_REF_REGEX w) :=
  decideDisj_sound _ _ (by native_decide)

-- non-vacuity: concrete members, including the shapes the shipped test table lacks
example : Matches Gen.IRI_REGEX (ofStr "http://[1:2::3:4:5:6:7]/a?b#c") := by decide
example : ¬ Matches Gen.IRI_REGEX (ofStr "http://[1::2::3:4:5:6:7]/") := by decide
example : ¬ Matches Gen.IRI_REGEX (ofStr "http://a:80junk") := by decide
example : Matches Gen.IRELATIVE_REF_REGEX (ofStr "../é/x?y") := by decide

end SophiaProofs.C09
