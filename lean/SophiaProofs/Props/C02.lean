/-
C02 — term equality, hashing and ordering are lawful (model: SophiaModel/Basic/TermOrder.lean,
a transcription of `Term::eq/cmp/hash` and `LanguageTag`'s folded `Eq/Ord/Hash`), do not depend on
the implementation (everything is written against the accessor methods: SophiaModel/Model/TermImpls.lean),
and conversions rebuild an equal term.

Part 1: the laws of `termEq` / `termCmp` / `termHash`.
Part 2: the accessor-style text of the default methods is the same function; kinds; language tags.
Part 3: conversions, `graph_name_eq`, string wrappers.
Part 4: obligations over the table regenerated from /repo (`SophiaModel/Gen/TermKind.lean`).
-/
import SophiaProofs.Lemmas.TermOrder
import SophiaProofs.Lemmas.TermImpls
import SophiaProofs.Lemmas.Utf8Order
import SophiaModel.Model.TermImpls
import SophiaModel.Gen.TermKind

namespace SophiaProofs.C02
open SophiaModel SophiaModel.Term SophiaModel.TermImpls SophiaProofs Std

/-- canonical representative: language tags ASCII-folded -/
def norm : Term → Term
  | .lang l t => .lang l (foldTag t)
  | .triple s p o => .triple (norm s) (norm p) (norm o)
  | t => t

theorem termEq_iff_norm (a b : Term) : termEq a b = true ↔ norm a = norm b := by
  induction a generalizing b with
  | iri s => cases b <;> simp [termEq, norm]
  | bnode s => cases b <;> simp [termEq, norm]
  | var s => cases b <;> simp [termEq, norm]
  | lit l d => cases b <;> simp [termEq, norm]
  | lang l t => cases b <;> simp [termEq, norm, tagEq]
  | triple s p o ihs ihp iho =>
    cases b <;> simp [termEq, norm, ihs, ihp, iho, and_assoc]

/-- term equality is an equivalence relation -/
theorem termEq_refl (a : Term) : termEq a a = true := (termEq_iff_norm a a).2 rfl
theorem termEq_symm (a b : Term) : termEq a b = termEq b a := by
  rw [Bool.eq_iff_iff, termEq_iff_norm, termEq_iff_norm]; exact eq_comm
theorem termEq_trans (a b c : Term) (h1 : termEq a b = true) (h2 : termEq b c = true) :
    termEq a c = true := by
  rw [termEq_iff_norm] at *; exact h1.trans h2

/-- equal terms feed the same byte sequence to *any* `Hasher`, hence hash identically -/
theorem eq_hash (a b : Term) (h : termEq a b = true) : termHash a = termHash b := by
  induction a generalizing b with
  | iri s => cases b <;> simp_all [termEq, termHash]
  | bnode s => cases b <;> simp_all [termEq, termHash]
  | var s => cases b <;> simp_all [termEq, termHash]
  | lit l d => cases b <;> simp_all [termEq, termHash]
  | lang l t => cases b <;> simp_all [termEq, termHash, tagEq]
  | triple s p o ihs ihp iho =>
    cases b with
    | triple s2 p2 o2 =>
      simp only [termEq, Bool.and_eq_true] at h
      simp [termHash, ihs s2 h.1.1, ihp p2 h.1.2, iho o2 h.2]
    | _ => simp [termEq] at h

theorem enc_of_termEq (a b : Term) (h : termEq a b = true) : enc a = enc b := by
  induction a generalizing b with
  | iri s => cases b <;> simp_all [termEq, enc]
  | bnode s => cases b <;> simp_all [termEq, enc]
  | var s => cases b <;> simp_all [termEq, enc]
  | lit l d => cases b <;> simp_all [termEq, enc]
  | lang l t => cases b <;> simp_all [termEq, enc, tagEq]
  | triple s p o ihs ihp iho =>
    cases b with
    | triple s2 p2 o2 =>
      simp only [termEq, Bool.and_eq_true] at h
      simp [enc, ihs s2 h.1.1, ihp p2 h.1.2, iho o2 h.2]
    | _ => simp [termEq] at h

theorem encS_inj (a b : Str) (r1 r2 : List Nat) (h : encS a ++ r1 = encS b ++ r2) : a = b ∧ r1 = r2 := by
  induction a generalizing b with
  | nil =>
    cases b with
    | nil => simpa [encS] using h
    | cons y ys => simp [encS] at h
  | cons x xs ih =>
    cases b with
    | nil => simp [encS] at h
    | cons y ys =>
      simp only [encS, List.map_cons, List.cons_append, List.cons.injEq, Nat.add_right_cancel_iff] at h
      obtain ⟨hxy, hrest⟩ := h
      obtain ⟨h1, h2⟩ := ih ys hrest
      exact ⟨by rw [Char.toNat_inj.1 hxy, h1], h2⟩

/-- the encoding is injective up to `termEq` on well-formed terms (prefix-free decoding) -/
theorem enc_inj (a b : Term) (ha : a.WF = true) (hb : b.WF = true) (r1 r2 : List Nat)
    (h : enc a ++ r1 = enc b ++ r2) : termEq a b = true ∧ r1 = r2 := by
  induction a generalizing b r1 r2 with
  | iri s =>
    cases b <;> simp [enc] at h
    obtain ⟨h1, h2⟩ := encS_inj _ _ _ _ h; simp [termEq, h1, h2]
  | bnode s =>
    cases b <;> simp [enc] at h
    obtain ⟨h1, h2⟩ := encS_inj _ _ _ _ h; simp [termEq, h1, h2]
  | var s =>
    cases b <;> simp [enc] at h
    obtain ⟨h1, h2⟩ := encS_inj _ _ _ _ h; simp [termEq, h1, h2]
  | lit l d =>
    cases b with
    | lit l2 d2 =>
      simp only [enc, List.cons_append, List.cons.injEq, true_and, List.append_assoc] at h
      obtain ⟨h1, h'⟩ := encS_inj _ _ _ _ h
      obtain ⟨_, h''⟩ := encS_inj _ _ _ _ h'
      obtain ⟨h3, h4⟩ := encS_inj _ _ _ _ h''
      simp [termEq, h1, h3, h4]
    | lang l2 t2 =>
      simp only [enc, List.cons_append, List.cons.injEq, true_and, List.append_assoc] at h
      obtain ⟨h1, _⟩ := encS_inj _ _ _ _ h
      simp [WF, h1] at ha
    | _ => simp [enc] at h
  | lang l t =>
    cases b with
    | lang l2 t2 =>
      simp only [enc, List.cons_append, List.cons.injEq, true_and, List.append_assoc] at h
      obtain ⟨_, h'⟩ := encS_inj _ _ _ _ h
      obtain ⟨h2, h''⟩ := encS_inj _ _ _ _ h'
      obtain ⟨h3, h4⟩ := encS_inj _ _ _ _ h''
      simp [termEq, tagEq, h2, h3, h4]
    | lit l2 d2 =>
      simp only [enc, List.cons_append, List.cons.injEq, true_and, List.append_assoc] at h
      obtain ⟨h1, _⟩ := encS_inj _ _ _ _ h
      simp [WF, ← h1] at hb
    | _ => simp [enc] at h
  | triple s p o ihs ihp iho =>
    cases b with
    | triple s2 p2 o2 =>
      simp only [WF, Bool.and_eq_true] at ha hb
      simp only [enc, List.cons_append, List.cons.injEq, true_and, List.append_assoc] at h
      obtain ⟨h1, h'⟩ := ihs _ ha.1.1 hb.1.1 _ _ h
      obtain ⟨h2, h''⟩ := ihp _ ha.1.2 hb.1.2 _ _ h'
      obtain ⟨h3, h4⟩ := iho _ ha.2 hb.2 _ _ h''
      simp [termEq, h1, h2, h3, h4]
    | _ => simp [enc] at h

/-- `cmp == Equal` exactly for equal terms -/
theorem cmp_eq_iff (a b : Term) (ha : a.WF = true) (hb : b.WF = true) :
    termCmp a b = .eq ↔ termEq a b = true := by
  rw [termCmp_eq_enc a b ha hb]
  constructor
  · intro h
    have := LawfulEqOrd.eq_of_compare h
    exact (enc_inj a b ha hb [] [] (by simpa using this)).1
  · intro h
    rw [enc_of_termEq a b h]
    exact ReflOrd.compare_self

/-- antisymmetry: swapping the arguments swaps the outcome -/
theorem cmp_swap (a b : Term) (ha : a.WF = true) (hb : b.WF = true) :
    termCmp b a = (termCmp a b).swap := by
  rw [termCmp_eq_enc a b ha hb, termCmp_eq_enc b a hb ha]
  exact OrientedOrd.eq_swap

/-- transitivity (≤ form) -/
theorem cmp_trans (a b c : Term) (ha : a.WF = true) (hb : b.WF = true) (hc : c.WF = true)
    (h1 : (termCmp a b).isLE = true) (h2 : (termCmp b c).isLE = true) : (termCmp a c).isLE = true := by
  rw [termCmp_eq_enc _ _ ha hb] at h1
  rw [termCmp_eq_enc _ _ hb hc] at h2
  rw [termCmp_eq_enc _ _ ha hc]
  exact TransOrd.isLE_trans h1 h2

/-- transitivity (strict form) -/
theorem cmp_trans_lt (a b c : Term) (ha : a.WF = true) (hb : b.WF = true) (hc : c.WF = true)
    (h1 : termCmp a b = .lt) (h2 : termCmp b c = .lt) : termCmp a c = .lt := by
  rw [termCmp_eq_enc _ _ ha hb] at h1
  rw [termCmp_eq_enc _ _ hb hc] at h2
  rw [termCmp_eq_enc _ _ ha hc]
  exact TransCmp.lt_trans h1 h2

/-- kinds are ordered blank node < IRI < literal < quoted triple < variable -/
theorem cmp_kind (a b : Term) (h : a.kind.rank < b.kind.rank) : termCmp a b = .lt := by
  cases a <;> cases b <;> simp_all [termCmp, kind, Kind.rank, Nat.compare_eq_ite_lt]

/-- the hand-written `NsTerm::eq` agrees with the default `Term::eq` on the concatenated IRI -/
theorem nsterm_eq (ns suffix : Str) (t : Term) :
    nsTermEq ns suffix t = termEq (.iri (ns ++ suffix)) t := by
  cases t with
  | iri s =>
    simp only [nsTermEq, termEq]
    rw [Bool.eq_iff_iff]
    simp only [Bool.and_eq_true, beq_iff_eq, List.isPrefixOf_iff_prefix]
    constructor
    · rintro ⟨⟨r, rfl⟩, h2⟩
      simp at h2; rw [h2]
    · intro h
      subst h
      simp
  | _ => simp [nsTermEq, termEq]

-- non-vacuity: a well-formed nested quoted triple with case-variant tags
example : (Term.triple (.bnode "b".toList) (.iri "http://x/p".toList)
    (.triple (.iri "http://x/s".toList) (.iri "http://x/p".toList) (.lang "chat".toList "EN-gb".toList))).WF = true := by
  decide
example : termEq (.lang "chat".toList "EN-gb".toList) (.lang "chat".toList "en-GB".toList) = true := by decide
/-- the guard of `cmp_eq_iff` is necessary: the ill-formed untagged `rdf:langString` literal
compares Equal to a tagged one without being equal to it -/
example : termCmp (.lit "a".toList rdfLangString) (.lang "a".toList "en".toList) = .eq ∧
    termEq (.lit "a".toList rdfLangString) (.lang "a".toList "en".toList) = false := by decide

-- non-vacuity of the hypotheses of `termEq_trans`, `cmp_trans`, `cmp_trans_lt`, `gn_trans`:
-- three pairwise different spellings of one term, and a strictly increasing chain through all five kinds
example : termEq (.lang "a".toList "EN".toList) (.lang "a".toList "en".toList) = true ∧
    termEq (.lang "a".toList "en".toList) (.lang "a".toList "En".toList) = true ∧
    graphNameEq (some (.lang "a".toList "EN".toList)) (some (.lang "a".toList "en".toList)) = true := by decide
example : termCmp (.bnode "z".toList) (.iri "a".toList) = .lt ∧
    termCmp (.iri "a".toList) (.lit "".toList "x:d".toList) = .lt ∧
    termCmp (.lit "".toList "x:d".toList) (.triple (.bnode "b".toList) (.iri "p".toList) (.var "v".toList)) = .lt ∧
    termCmp (.triple (.bnode "b".toList) (.iri "p".toList) (.var "v".toList)) (.var "a".toList) = .lt ∧
    (termCmp (.lit "10".toList "x:int".toList) (.lit "2".toList "x:int".toList)).isLE = true := by decide

/-! ## Part 2 — the default methods as written (accessor style), kinds, language tags -/

/-- `Term::eq` as written in term.rs (kind test, then one accessor comparison per kind) is `termEq` -/
theorem eqA_eq (a b : Term) : eqA a b = termEq a b := by
  induction a generalizing b with
  | triple s p o ihs ihp iho =>
    cases b <;> simp [eqA, termEq, kind, ihs, ihp, iho]
  | iri s => cases b <;> simp [eqA, termEq, kind, iri?]
  | bnode s => cases b <;> simp [eqA, termEq, kind, bnodeId?]
  | var s => cases b <;> simp [eqA, termEq, kind, variable?]
  | lit l d => cases b <;> simp [eqA, termEq, kind, lexicalForm?, languageTag?, optTagEq, datatype]
  | lang l t => cases b <;> simp [eqA, termEq, kind, lexicalForm?, languageTag?, optTagEq]

/-- `Term::cmp` as written (`k1.cmp(&k2).then_with(..)`) is `termCmp` -/
theorem cmpA_eq (a b : Term) : cmpA a b = termCmp a b := by
  induction a generalizing b with
  | triple s p o ihs ihp iho =>
    cases b <;> simp [cmpA, termCmp, kind, Kind.rank, ihs, ihp, iho, Nat.compare_eq_ite_lt]
  | iri s => cases b <;> simp [cmpA, termCmp, kind, Kind.rank, iri?, optStrCmp, Nat.compare_eq_ite_lt]
  | bnode s => cases b <;> simp [cmpA, termCmp, kind, Kind.rank, bnodeId?, optStrCmp, Nat.compare_eq_ite_lt]
  | var s => cases b <;> simp [cmpA, termCmp, kind, Kind.rank, variable?, optStrCmp, Nat.compare_eq_ite_lt]
  | lit l d => cases b <;> simp [cmpA, termCmp, kind, Kind.rank, lexicalForm?, languageTag?, optStrCmp, datatype, Nat.compare_eq_ite_lt]
  | lang l t => cases b <;> simp [cmpA, termCmp, kind, Kind.rank, lexicalForm?, languageTag?, optStrCmp, datatype, Nat.compare_eq_ite_lt]

/-- `Term::hash` as written (`k.hash(state)`, then per kind) feeds what `termHash` says -/
theorem hashA_eq (a : Term) : hashA a = termHash a := by
  induction a with
  | triple s p o ihs ihp iho => simp [hashA, termHash, ihs, ihp, iho, Kind.rank]
  | iri s => simp [hashA, termHash, kind, Kind.rank, iri?]
  | bnode s => simp [hashA, termHash, kind, Kind.rank, bnodeId?]
  | var s => simp [hashA, termHash, kind, Kind.rank, variable?]
  | lit l d => simp [hashA, termHash, kind, Kind.rank, lexicalForm?, languageTag?, datatype]
  | lang l t => simp [hashA, termHash, kind, Kind.rank, lexicalForm?, languageTag?]

/-- equal terms have the same kind -/
theorem eq_kind (a b : Term) (h : termEq a b = true) : a.kind = b.kind := by
  cases a <;> cases b <;> simp_all [termEq, kind]

/-- the other half of the kind order -/
theorem cmp_kind_gt (a b : Term) (h : b.kind.rank < a.kind.rank) : termCmp a b = .gt := by
  cases a <;> cases b <;> simp_all [termCmp, kind, Kind.rank, Nat.compare_eq_ite_lt]

/-- `cmp` is reflexive on *every* term (no well-formedness needed) -/
theorem cmp_refl (a : Term) : termCmp a a = .eq := by
  induction a with
  | triple s p o ihs ihp iho => simp [termCmp, ihs, ihp, iho]
  | iri s => simp [termCmp, strCmp_refl]
  | bnode s => simp [termCmp, strCmp_refl]
  | var s => simp [termCmp, strCmp_refl]
  | lit l d => simp [termCmp, strCmp_refl]
  | lang l t => simp [termCmp, tagCmp, strCmp_refl]

/-- `LanguageTag::cmp` is `Equal` exactly when `LanguageTag::eq` holds -/
theorem tagCmp_eq_iff (a b : Str) : tagCmp a b = .eq ↔ tagEq a b = true := by
  unfold tagCmp tagEq
  constructor
  · intro h
    by_cases hab : foldTag a = foldTag b
    · simp [hab]
    · exact absurd h (strCmp_ne_of_ne hab)
  · intro h
    rw [beq_iff_eq] at h
    rw [h]; exact strCmp_refl _

/-- language tags are compared ignoring ASCII case: changing the case of any characters of a tag
(any `f` that lower-casing forgets: `to_ascii_uppercase`, `to_ascii_lowercase`, a mixture) gives an equal tag -/
theorem tag_case_insensitive (f : Char → Char) (hf : ∀ c, lowerAscii (f c) = lowerAscii c) (t : Str) :
    tagEq (t.map f) t = true := by
  simp [tagEq, foldTag, List.map_map, Function.comp_def, hf]

theorem tag_upper (t : Str) : tagEq (t.map upperAscii) t = true := tag_case_insensitive _ lower_upper t
theorem tag_lower (t : Str) : tagEq (foldTag t) t = true := tag_case_insensitive _ lowerAscii_idem t

/-- … hence so are the literals carrying them, their hashes and their order -/
theorem lang_case_insensitive (l t : Str) :
    termEq (.lang l (t.map upperAscii)) (.lang l t) = true ∧
    termHash (.lang l (t.map upperAscii)) = termHash (.lang l t) ∧
    termCmp (.lang l (t.map upperAscii)) (.lang l t) = .eq := by
  have h : termEq (.lang l (t.map upperAscii)) (.lang l t) = true := by simp [termEq, tag_upper]
  exact ⟨h, eq_hash _ _ h, (cmp_eq_iff _ _ (by simp [WF]) (by simp [WF])).2 h⟩

example : tagEq "EN-gb".toList "en-GB".toList = true ∧ tagCmp "EN-gb".toList "en-GB".toList = .eq := by decide
example : "zh-Hant".toList.map upperAscii = "ZH-HANT".toList := by decide

/-! ## Part 3 — conversions, graph names, string wrappers -/

/-- `from_term` / `from_term_ref` / `copy_term` (rebuild from `kind()` and the accessors of that kind)
return the term they were given … -/
theorem fromTerm_id (t : Term) : fromTerm t = t := by
  induction t with
  | triple s p o ihs ihp iho => simp [fromTerm, ihs, ihp, iho]
  | iri s => simp [fromTerm, kind, iri?]
  | bnode s => simp [fromTerm, kind, bnodeId?]
  | var s => simp [fromTerm, kind, variable?]
  | lit l d => simp [fromTerm, kind, lexicalForm?, languageTag?, datatype]
  | lang l t => simp [fromTerm, kind, lexicalForm?, languageTag?]

/-- … so "converting or copying a term yields an equal term", with the same hash and comparing Equal -/
theorem conv_eq (t : Term) :
    termEq (fromTerm t) t = true ∧ termHash (fromTerm t) = termHash t ∧ termCmp (fromTerm t) t = .eq := by
  rw [fromTerm_id]; exact ⟨termEq_refl t, rfl, cmp_refl t⟩

/-- the `unwrap()`s of the conversions never fail: a term of a kind answers that kind's accessors -/
theorem accessors_total (t : Term) :
    (t.kind = .iri → (iri? t).isSome) ∧ (t.kind = .bnode → (bnodeId? t).isSome) ∧
    (t.kind = .variable → (variable? t).isSome) ∧ (t.kind = .triple → (triple? t).isSome) ∧
    (t.kind = .literal → (lexicalForm? t).isSome ∧ t.datatype.isSome) := by
  cases t <;> simp [kind, iri?, bnodeId?, variable?, triple?, lexicalForm?, datatype]

/-- `GenericLiteral::try_from_term` succeeds exactly on literals, and then returns the same literal -/
theorem genericLiteral_spec (t : Term) :
    genericLiteral? t = if t.kind = .literal then some t else none := by
  cases t <;> simp [genericLiteral?, kind, lexicalForm?, languageTag?, datatype]

/-- `graph_name_eq` is an equivalence on optional terms -/
theorem gn_refl (g : Option Term) : graphNameEq g g = true := by
  cases g <;> simp [graphNameEq, termEq_refl]
theorem gn_symm (g h : Option Term) : graphNameEq g h = graphNameEq h g := by
  cases g <;> cases h <;> simp [graphNameEq, termEq_symm]
theorem gn_trans (g h k : Option Term) (h1 : graphNameEq g h = true) (h2 : graphNameEq h k = true) :
    graphNameEq g k = true := by
  cases g <;> cases h <;> cases k <;> simp_all [graphNameEq]
  exact termEq_trans _ _ _ h1 h2

/-- the `wrap!`-generated std impls: `cmp` is Equal exactly for `==`, and `==` values hash alike;
an IRI / blank node / variable *term* is equal to another iff their wrappers are -/
theorem wrap_laws (a b : Str) :
    (wrapCmp a b = .eq ↔ wrapEq a b = true) ∧ (wrapEq a b = true → wrapHash a = wrapHash b) ∧
    termEq (.iri a) (.iri b) = wrapEq a b ∧ termEq (.bnode a) (.bnode b) = wrapEq a b ∧
    termEq (.var a) (.var b) = wrapEq a b := by
  refine ⟨⟨fun h => ?_, fun h => ?_⟩, fun h => ?_, rfl, rfl, rfl⟩
  · by_cases hab : a = b
    · simp [wrapEq, hab]
    · exact absurd h (strCmp_ne_of_ne hab)
  · simp only [wrapEq, beq_iff_eq] at h; subst h; exact strCmp_refl _
  · simp only [wrapEq, beq_iff_eq] at h; simp [wrapHash, h]

/-! ## Part 4 — obligations over the table regenerated from /repo on every run
(`SophiaModel/Gen/TermKind.lean`, tools/extractors/c02.py) -/

/-- the numbers `Kind.rank` uses (in `cmp_kind`, `termHash`) are the discriminants of `enum TermKind`,
and `Ord`/`Hash` of `TermKind` are derived (= by discriminant) -/
theorem gen_kind_disc :
    Gen.TermKind.disc = [("BlankNode", Kind.rank .bnode), ("Iri", Kind.rank .iri), ("Literal", Kind.rank .literal),
      ("Triple", Kind.rank .triple), ("Variable", Kind.rank .variable)] ∧
    "Ord" ∈ Gen.TermKind.derives ∧ "PartialOrd" ∈ Gen.TermKind.derives ∧ "Hash" ∈ Gen.TermKind.derives ∧
    "PartialEq" ∈ Gen.TermKind.derives ∧ "Eq" ∈ Gen.TermKind.derives := by decide

/-- every statement of the default `Term::eq/cmp/hash` that the model transcribes is still in the source -/
theorem gen_default_shape :
    Gen.TermKind.defaultShape.all (·.2) = true ∧ Gen.TermKind.defaultShape.length = 18 := by decide

/-- `LanguageTag`'s `==`, `cmp`, `hash` still fold ASCII case -/
theorem gen_tag_folds : Gen.TermKind.tagFolds.all (·.2) = true ∧ Gen.TermKind.tagFolds.length = 5 := by decide

/-- `NsTerm::eq` still has the shape `nsTermEq` models (and `NsTerm` overrides nothing else of eq/cmp/hash) -/
theorem gen_nsterm_shape : Gen.TermKind.nsTermEqShape = true := by decide

/-- what a wrapper must do with each `Term` method: forward it (accessors), forward it or leave the default
(`eq`/`cmp`/`hash`); `C14nTerm` may leave variables and quoted triples unimplemented (RDFC-1.0 has neither) -/
def delegationRowOk (r : String × String × String) : Bool :=
  let (ty, m, st) := r
  if m ∈ ["eq", "cmp", "hash"] then st == "delegates" || st == "absent"
  else if ty == "C14nTerm" && m ∈ ["variable", "triple", "to_triple"] then st == "delegates" || st == "unimplemented"
  else st == "delegates"

/-- `CmpTerm`, `IsoTerm`, `ResultTerm`, `&T`, `C14nTerm` expose exactly the wrapped term (5 types × 13 methods) -/
theorem gen_delegation :
    Gen.TermKind.delegation.all delegationRowOk = true ∧ Gen.TermKind.delegation.length = 65 := by decide

/-- every std `PartialEq<T>` / `PartialOrd<T>` / `Ord` / `Hash` impl of a term type is the one-line call of
`Term::eq` / `Term::cmp` / `Term::hash` -/
theorem gen_std_impls :
    Gen.TermKind.stdImpls.all (·.2.2) = true ∧ 21 ≤ Gen.TermKind.stdImpls.length := by decide

-- the row predicate is not vacuous: it rejects a wrapper that answers an accessor itself
example : delegationRowOk ("IsoTerm", "language_tag", "other") = false ∧
    delegationRowOk ("CmpTerm", "eq", "other") = false ∧ delegationRowOk ("CmpTerm", "triple", "unimplemented") = false := by
  decide

/-! ## Part 5 — independence of the implementation

The default methods only call the accessors. For ANY two implementations (`Impl α`, `Impl β`: arbitrary
carrier types with arbitrary accessor functions) and any values exposing the abstract terms `t` and `u`,
the default `eq` / `cmp` / `hash` return `termEq t u` / `termCmp t u` / `termHash t`: the answer depends on
the terms only, never on the type holding them. -/

theorem eqI_eq {α β : Type} (I : Impl α) (J : Impl β) (n : Nat) (x : α) (y : β) (t u : Term)
    (hx : Views I x t) (hy : Views J y u) (hn : depth t < n) : eqI I J n x y = termEq t u := by
  induction n generalizing x y t u with
  | zero => omega
  | succ n ih =>
    cases hx with
    | atom _ _ hnt hk hi hb hv hl hg hd =>
      cases hy with
      | atom _ _ hnt2 hk2 hi2 hb2 hv2 hl2 hg2 hd2 =>
        rw [← eqA_eq]
        simp only [eqI, hk, hi, hb, hv, hl, hg, hd, hk2, hi2, hb2, hv2, hl2, hg2, hd2]
        cases t <;> cases u <;> simp_all [eqA, kind, iri?, bnodeId?, variable?, lexicalForm?, languageTag?, optTagEq, datatype]
      | triple _ ys yp yo s2 p2 o2 hk2 ht2 h1 h2 h3 =>
        simp only [eqI, hk, hk2]
        cases t <;> simp_all [termEq, kind]
    | triple _ xs xp xo s p o hk ht h1 h2 h3 =>
      cases hy with
      | atom _ _ hnt2 hk2 hi2 hb2 hv2 hl2 hg2 hd2 =>
        simp only [eqI, hk, hk2]
        cases u <;> simp_all [termEq, kind]
      | triple _ ys yp yo s2 p2 o2 hk2 ht2 g1 g2 g3 =>
        simp only [depth] at hn
        simp only [eqI, hk, hk2, ht, ht2, termEq]
        rw [ih xs ys s s2 h1 g1 (by omega), ih xp yp p p2 h2 g2 (by omega), ih xo yo o o2 h3 g3 (by omega)]
        simp

theorem cmpI_eq {α β : Type} (I : Impl α) (J : Impl β) (n : Nat) (x : α) (y : β) (t u : Term)
    (hx : Views I x t) (hy : Views J y u) (hn : depth t < n) : cmpI I J n x y = termCmp t u := by
  induction n generalizing x y t u with
  | zero => omega
  | succ n ih =>
    cases hx with
    | atom _ _ hnt hk hi hb hv hl hg hd =>
      cases hy with
      | atom _ _ hnt2 hk2 hi2 hb2 hv2 hl2 hg2 hd2 =>
        rw [← cmpA_eq]
        simp only [cmpI, hk, hi, hb, hv, hl, hg, hd, hk2, hi2, hb2, hv2, hl2, hg2, hd2]
        cases t <;> cases u <;> simp_all [cmpA, kind, Kind.rank, iri?, bnodeId?, variable?, lexicalForm?, languageTag?, optStrCmp, datatype]
      | triple _ ys yp yo s2 p2 o2 hk2 ht2 h1 h2 h3 =>
        simp only [cmpI, hk, hk2]
        cases t <;> simp_all [termCmp, kind, Kind.rank, Nat.compare_eq_ite_lt]
    | triple _ xs xp xo s p o hk ht h1 h2 h3 =>
      cases hy with
      | atom _ _ hnt2 hk2 hi2 hb2 hv2 hl2 hg2 hd2 =>
        simp only [cmpI, hk, hk2]
        cases u <;> simp_all [termCmp, kind, Kind.rank, Nat.compare_eq_ite_lt]
      | triple _ ys yp yo s2 p2 o2 hk2 ht2 g1 g2 g3 =>
        simp only [depth] at hn
        simp only [cmpI, hk, hk2, ht, ht2, termCmp]
        rw [ih xs ys s s2 h1 g1 (by omega), ih xp yp p p2 h2 g2 (by omega), ih xo yo o o2 h3 g3 (by omega)]
        simp [Kind.rank]

theorem hashI_eq {α : Type} (I : Impl α) (n : Nat) (x : α) (t : Term)
    (hx : Views I x t) (hn : depth t < n) : hashI I n x = termHash t := by
  induction n generalizing x t with
  | zero => omega
  | succ n ih =>
    cases hx with
    | atom _ _ hnt hk hi hb hv hl hg hd =>
      rw [← hashA_eq]
      simp only [hashI, hk, hi, hb, hv, hl, hg, hd]
      cases t <;> simp_all [hashA, kind, Kind.rank, iri?, bnodeId?, variable?, lexicalForm?, languageTag?, datatype]
    | triple _ xs xp xo s p o hk ht h1 h2 h3 =>
      simp only [depth] at hn
      simp only [hashI, hk, ht, termHash]
      rw [ih xs s h1 (by omega), ih xp p h2 (by omega), ih xo o h3 (by omega)]
      simp [Kind.rank]

/-- "never on the Rust type holding it": two pairs of values, held by four arbitrary implementations, that
expose the same two terms get the same `eq`, the same `cmp` and the same hash input -/
theorem impl_independent {α β γ δ : Type} (I : Impl α) (J : Impl β) (I' : Impl γ) (J' : Impl δ)
    (x : α) (y : β) (x' : γ) (y' : δ) (t u : Term) (n m : Nat)
    (hx : Views I x t) (hy : Views J y u) (hx' : Views I' x' t) (hy' : Views J' y' u)
    (hn : depth t < n) (hm : depth t < m) :
    eqI I J n x y = eqI I' J' m x' y' ∧ cmpI I J n x y = cmpI I' J' m x' y' ∧ hashI I n x = hashI I' m x' := by
  rw [eqI_eq I J n x y t u hx hy hn, eqI_eq I' J' m x' y' t u hx' hy' hm,
    cmpI_eq I J n x y t u hx hy hn, cmpI_eq I' J' m x' y' t u hx' hy' hm,
    hashI_eq I n x t hx hn, hashI_eq I' m x' t hx' hm]
  exact ⟨rfl, rfl, rfl⟩

/-- `Views` is inhabited at every term (the term itself) … -/
theorem views_self (t : Term) : Views termImpl t t := by
  induction t with
  | triple s p o ihs ihp iho => exact Views.triple _ s p o s p o rfl rfl ihs ihp iho
  | iri s => exact Views.atom _ _ (by simp [kind]) rfl rfl rfl rfl rfl rfl rfl
  | bnode s => exact Views.atom _ _ (by simp [kind]) rfl rfl rfl rfl rfl rfl rfl
  | var s => exact Views.atom _ _ (by simp [kind]) rfl rfl rfl rfl rfl rfl rfl
  | lit l d => exact Views.atom _ _ (by simp [kind]) rfl rfl rfl rfl rfl rfl rfl
  | lang l t => exact Views.atom _ _ (by simp [kind]) rfl rfl rfl rfl rfl rfl rfl

/-- … and by a structurally different implementation (`NsTerm`: namespace + suffix) -/
theorem views_ns (ns suffix : Str) : Views nsImpl (ns, suffix) (.iri (ns ++ suffix)) :=
  Views.atom _ _ (by simp [kind]) rfl rfl rfl rfl rfl rfl rfl

/-- so e.g. an `NsTerm` compared with any implementation exposing `u` behaves as the concatenated IRI -/
example (ns suffix : Str) (u : Term) :
    eqI nsImpl termImpl 1 (ns, suffix) u = termEq (.iri (ns ++ suffix)) u :=
  eqI_eq _ _ _ _ _ _ _ (views_ns ns suffix) (views_self u) (by simp [depth])

/-! ## Part 6 — hypotheses discharged or shown necessary

`cmp_swap` and the `termEq → cmp = Equal` half of `cmp_eq_iff` hold for ALL terms (`cmp_swap_all`,
`cmp_eq_of_eq`); the `WF` guard of `cmp_trans` / of the other half of `cmp_eq_iff` is necessary
(`cmp_trans_needs_wf`; the witness is replayed on the implementation by corpus/C02/classes.req: the
implementation answers `cmp=eq eq=0` like the model, and is not asked for more). The fuel of
`eqI`/`cmpI`/`hashI`/`fromImpl` is irrelevant once it exceeds the nesting depth (`fuel_irrelevant`). -/

theorem strCmp_swap (a b : Str) : strCmp b a = (strCmp a b).swap := by
  unfold strCmp; exact OrientedOrd.eq_swap
theorem tagCmp_swap (a b : Str) : tagCmp b a = (tagCmp a b).swap := strCmp_swap _ _

/-- antisymmetry holds for ALL terms: the `WF` guard of `cmp_swap` is discharged -/
theorem cmp_swap_all (a b : Term) : termCmp b a = (termCmp a b).swap := by
  induction a generalizing b with
  | triple s p o ihs ihp iho =>
    cases b <;> simp [termCmp, kind, Kind.rank, Ordering.swap_then, ihs, ihp, iho, Nat.compare_eq_ite_lt]
  | iri s => cases b <;> simp [termCmp, kind, Kind.rank, strCmp_swap s, Nat.compare_eq_ite_lt]
  | bnode s => cases b <;> simp [termCmp, kind, Kind.rank, strCmp_swap s, Nat.compare_eq_ite_lt]
  | var s => cases b <;> simp [termCmp, kind, Kind.rank, strCmp_swap s, Nat.compare_eq_ite_lt]
  | lit l d =>
    cases b <;> simp [termCmp, kind, Kind.rank, Ordering.swap_then, strCmp_swap l, strCmp_swap d, Nat.compare_eq_ite_lt]
  | lang l t =>
    cases b <;> simp [termCmp, kind, Kind.rank, Ordering.swap_then, strCmp_swap l, tagCmp_swap t, strCmp_swap rdfLangString, Nat.compare_eq_ite_lt]

/-- equal terms compare Equal, for ALL terms (this direction of `cmp_eq_iff` needs no guard) -/
theorem cmp_eq_of_eq (a b : Term) (h : termEq a b = true) : termCmp a b = .eq := by
  induction a generalizing b with
  | triple s p o ihs ihp iho =>
    cases b with
    | triple s2 p2 o2 =>
      simp only [termEq, Bool.and_eq_true] at h
      simp [termCmp, ihs s2 h.1.1, ihp p2 h.1.2, iho o2 h.2]
    | _ => simp [termEq] at h
  | iri s => cases b <;> simp_all [termEq, termCmp, strCmp_refl]
  | bnode s => cases b <;> simp_all [termEq, termCmp, strCmp_refl]
  | var s => cases b <;> simp_all [termEq, termCmp, strCmp_refl]
  | lit l d => cases b <;> simp_all [termEq, termCmp, strCmp_refl]
  | lang l t =>
    cases b with
    | lang l2 t2 =>
      simp only [termEq, Bool.and_eq_true, beq_iff_eq] at h
      simp [termCmp, h.1, (tagCmp_eq_iff t t2).2 h.2, strCmp_refl]
    | _ => simp [termEq] at h

/-- the `WF` guard of `cmp_trans` (and of `cmp_eq_iff`) is NECESSARY: with an untagged `rdf:langString`
literal in the middle, `fr ≤ x ≤ en` but not `fr ≤ en` -/
theorem cmp_trans_needs_wf :
    ∃ a b c : Term, a.WF = true ∧ b.WF = false ∧ c.WF = true ∧
      (termCmp a b).isLE = true ∧ (termCmp b c).isLE = true ∧ (termCmp a c).isLE = false ∧
      termCmp b c = .eq ∧ termEq b c = false :=
  ⟨.lang "a".toList "fr".toList, .lit "a".toList rdfLangString, .lang "a".toList "en".toList, by decide⟩

/-- any two amounts of fuel above the nesting depth give the same answers -/
theorem fuel_irrelevant {α β : Type} (I : Impl α) (J : Impl β) (x : α) (y : β) (t u : Term) (n m : Nat)
    (hx : Views I x t) (hy : Views J y u) (hn : depth t < n) (hm : depth t < m) :
    eqI I J n x y = eqI I J m x y ∧ cmpI I J n x y = cmpI I J m x y ∧ hashI I n x = hashI I m x :=
  impl_independent I J I J x y x y t u n m hx hy hx hy hn hm

example : depth (.triple (.bnode []) (.iri []) (.triple (.iri []) (.iri []) (.var []))) < 3 := by decide

/-! ## Part 7 — conversions from ANY implementation, any `Hasher`, prefixes, more implementations -/

theorem fromImpl_views {α : Type} (I : Impl α) (n : Nat) (x : α) (t : Term)
    (hx : Views I x t) (hn : depth t < n) : fromImpl I n x = t := by
  induction n generalizing x t with
  | zero => omega
  | succ n ih =>
    cases hx with
    | atom _ _ hnt hk hi hb hv hl hg hd =>
      simp only [fromImpl, hk, hi, hb, hv, hl, hg, hd]
      cases t <;> simp_all [kind, iri?, bnodeId?, variable?, lexicalForm?, languageTag?, datatype]
    | triple _ xs xp xo s p o hk ht h1 h2 h3 =>
      simp only [depth] at hn
      simp only [fromImpl, hk, ht]
      rw [ih xs s h1 (by omega), ih xp p h2 (by omega), ih xo o h3 (by omega)]

theorem conv_any {α : Type} (I : Impl α) (n : Nat) (x : α) (t : Term) (hx : Views I x t) (hn : depth t < n) :
    termEq (fromImpl I n x) t = true ∧ termHash (fromImpl I n x) = termHash t ∧ termCmp (fromImpl I n x) t = .eq := by
  rw [fromImpl_views I n x t hx hn]; exact ⟨termEq_refl t, rfl, cmp_refl t⟩

theorem eq_hash_any_hasher {σ : Type} (write : σ → HashEv → σ) (init : σ) (a b : Term) (h : termEq a b = true) :
    runHasher write init a = runHasher write init b := by
  unfold runHasher; rw [eq_hash a b h]

theorem strCmp_prefix_lt (a r : Str) (c : Char) : strCmp a (a ++ c :: r) = .lt := by
  induction a with
  | nil => simp [strCmp]
  | cons x xs ih =>
    simp only [strCmp, List.map_cons, List.cons_append, List.compare_cons_cons, List.map_append] at *
    simp [ih]

theorem tagCmp_prefix_lt (a r : Str) (c : Char) : tagCmp a (a ++ c :: r) = .lt := by
  simp only [tagCmp, foldTag, List.map_append, List.map_cons]
  exact strCmp_prefix_lt _ _ _

theorem lang_prefix_lt (l a r : Str) (c : Char) :
    termCmp (.lang l a) (.lang l (a ++ c :: r)) = .lt ∧ termEq (.lang l a) (.lang l (a ++ c :: r)) = false := by
  constructor
  · simp [termCmp, tagCmp_prefix_lt]
  · have h := tagCmp_prefix_lt a r c
    have : tagEq a (a ++ c :: r) = false := by
      cases hh : tagEq a (a ++ c :: r)
      · rfl
      · rw [(tagCmp_eq_iff _ _).2 hh] at h; cases h
    simp [termEq, this]

-- non-vacuity: converting an `NsTerm` (namespace + suffix) gives the concatenated IRI
example (ns suffix : Str) : fromImpl nsImpl 1 (ns, suffix) = .iri (ns ++ suffix) :=
  fromImpl_views _ _ _ _ (views_ns ns suffix) (by simp [depth])

theorem views_rio (l : RioLit) : Views rioLitImpl l l.term := by
  cases l <;> exact Views.atom _ _ (by simp [RioLit.term, kind]) rfl rfl rfl rfl rfl rfl rfl

/-- Rio's two spellings of a plain string are the same term for every implementation on the other side -/
example (v : Str) : eqI rioLitImpl rioLitImpl 1 (.simple v) (.typed v xsdString) = true := by
  rw [eqI_eq _ _ _ _ _ _ _ (views_rio _) (views_rio _) (by simp [RioLit.term, depth])]
  simp [RioLit.term, termEq]

/-- a forwarding wrapper exposes exactly the term the wrapped value exposes -/
theorem views_wrapped {α β : Type} (I : Impl α) (unwrap : β → α) (wrap : α → β)
    (h : ∀ a, unwrap (wrap a) = a) (x : α) (t : Term) (hx : Views I x t) :
    ∀ y, unwrap y = x → Views (I.wrapped unwrap wrap) y t := by
  induction hx with
  | atom x t hnt hk hi hb hv hl hg hd =>
    intro y hy
    subst hy
    exact Views.atom _ _ hnt hk hi hb hv hl hg hd
  | triple x xs xp xo s p o hk ht _ _ _ ihs ihp iho =>
    intro y hy
    subst hy
    exact Views.triple _ (wrap xs) (wrap xp) (wrap xo) s p o hk (by simp [Impl.wrapped, ht])
      (ihs _ (h xs)) (ihp _ (h xp)) (iho _ (h xo))

/-! ## Part 8 — `str::cmp` is `strCmp`: UTF-8 byte order = code point order (was an assumption) -/

/-- Rust compares `str`s bytewise; the model compares code points; they are the same comparison -/
theorem str_cmp_is_bytewise (a b : Str) : compare (Utf8.utf8Bytes a) (Utf8.utf8Bytes b) = strCmp a b :=
  Utf8.utf8_order a b

/-- e.g. for IRIs (same for blank node labels, variable names, lexical forms, datatypes) -/
theorem cmp_iri_bytewise (a b : Str) :
    termCmp (.iri a) (.iri b) = compare (Utf8.utf8Bytes a) (Utf8.utf8Bytes b) := by
  rw [str_cmp_is_bytewise]; rfl

-- the encoder is the real one: 1-, 2-, 3- and 4-byte sequences at the length boundaries
example : Utf8.utf8Bytes [Char.ofNat 0x7f, Char.ofNat 0x80, Char.ofNat 0x7ff, Char.ofNat 0x800, Char.ofNat 0xffff, Char.ofNat 0x10000] =
    [0x7f, 0xc2, 0x80, 0xdf, 0xbf, 0xe0, 0xa0, 0x80, 0xef, 0xbf, 0xbf, 0xf0, 0x90, 0x80, 0x80] := by decide

/-! ## Part 9 — the laws on values held by different implementations -/

theorem views_native (b : Bool) (s : Str) :
    Views boolImpl b (.lit (if b then "true".toList else "false".toList) xsdBoolean) ∧
    Views strImpl s (.lit s xsdString) :=
  ⟨Views.atom _ _ (by simp [kind]) rfl rfl rfl rfl rfl rfl rfl,
   Views.atom _ _ (by simp [kind]) rfl rfl rfl rfl rfl rfl rfl⟩

/-- the laws, stated on values held by DIFFERENT implementations (three arbitrary ones): symmetry of `eq`,
antisymmetry of `cmp`, `eq ⇒ same hash`, `cmp = Equal ⇔ eq`, transitivity of `eq` and of `cmp` -/
theorem laws_across_impls {α β γ : Type} (I : Impl α) (J : Impl β) (K : Impl γ)
    (x : α) (y : β) (z : γ) (t u v : Term) (n : Nat)
    (hx : Views I x t) (hy : Views J y u) (hz : Views K z v)
    (ht : depth t < n) (hu : depth u < n) :
    eqI J I n y x = eqI I J n x y ∧
    cmpI J I n y x = (cmpI I J n x y).swap ∧
    (eqI I J n x y = true → hashI I n x = hashI J n y) ∧
    (eqI I J n x y = true → eqI J K n y z = true → eqI I K n x z = true) ∧
    (t.WF = true → u.WF = true → (cmpI I J n x y = .eq ↔ eqI I J n x y = true)) ∧
    (t.WF = true → u.WF = true → v.WF = true →
      (cmpI I J n x y).isLE = true → (cmpI J K n y z).isLE = true → (cmpI I K n x z).isLE = true) := by
  rw [eqI_eq J I n y x u t hy hx hu, eqI_eq I J n x y t u hx hy ht, cmpI_eq J I n y x u t hy hx hu,
    cmpI_eq I J n x y t u hx hy ht, hashI_eq I n x t hx ht, hashI_eq J n y u hy hu,
    eqI_eq J K n y z u v hy hz hu, eqI_eq I K n x z t v hx hz ht,
    cmpI_eq J K n y z u v hy hz hu, cmpI_eq I K n x z t v hx hz ht]
  exact ⟨(termEq_symm t u).symm, cmp_swap_all t u, eq_hash t u, termEq_trans t u v,
    fun h1 h2 => cmp_eq_iff t u h1 h2, fun h1 h2 h3 => cmp_trans t u v h1 h2 h3⟩

-- non-vacuity: a `bool`, a Rio literal and a `str`, pairwise different implementations of literals
example : eqI boolImpl rioLitImpl 1 true (.typed "true".toList xsdBoolean) = true ∧
    eqI rioLitImpl strImpl 1 (.simple "x".toList) "x".toList = true := by
  rw [eqI_eq _ _ _ _ _ _ _ (views_native true []).1 (views_rio _) (by simp [depth]),
    eqI_eq _ _ _ _ _ _ _ (views_rio _) (views_native true "x".toList).2 (by simp [RioLit.term, depth])]
  decide

end SophiaProofs.C02
