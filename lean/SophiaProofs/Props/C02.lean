/-
C02 — term equality, hashing and ordering are lawful (model: SophiaModel/Basic/TermOrder.lean,
a transcription of `Term::eq/cmp/hash` and `LanguageTag`'s folded `Eq/Ord/Hash`).
-/
import SophiaProofs.Lemmas.TermOrder

namespace SophiaProofs.C02
open SophiaModel SophiaModel.Term SophiaProofs Std

/-- canonical representative: language tags ASCII-folded -/
def norm : Term → Term
  | .lang l t => .lang l (foldTag t)
  | .triple s p o => .triple (norm s) (norm p) (norm o)
  | t => t

theorem termEq_iff_norm (a b : Term) : termEq a b = true ↔ norm a = norm b := by
  induction a generalizing b with
  | iri s => cases b <;> simp [termEq, norm]
  | bnode s => cases b <;> simp [termEq, norm]
  | var s => cases b <;> simp [termEq, norm]
  | lit l d => cases b <;> simp [termEq, norm]
  | lang l t => cases b <;> simp [termEq, norm, tagEq]
  | triple s p o ihs ihp iho =>
    cases b <;> simp [termEq, norm, ihs, ihp, iho, and_assoc]

/-- term equality is an equivalence relation -/
theorem termEq_refl (a : Term) : termEq a a = true := (termEq_iff_norm a a).2 rfl
theorem termEq_symm (a b : Term) : termEq a b = termEq b a := by
  rw [Bool.eq_iff_iff, termEq_iff_norm, termEq_iff_norm]; exact eq_comm
theorem termEq_trans (a b c : Term) (h1 : termEq a b = true) (h2 : termEq b c = true) :
    termEq a c = true := by
  rw [termEq_iff_norm] at *; exact h1.trans h2

/-- equal terms feed the same byte sequence to *any* `Hasher`, hence hash identically -/
theorem eq_hash (a b : Term) (h : termEq a b = true) : termHash a = termHash b := by
  induction a generalizing b with
  | iri s => cases b <;> simp_all [termEq, termHash]
  | bnode s => cases b <;> simp_all [termEq, termHash]
  | var s => cases b <;> simp_all [termEq, termHash]
  | lit l d => cases b <;> simp_all [termEq, termHash]
  | lang l t => cases b <;> simp_all [termEq, termHash, tagEq]
  | triple s p o ihs ihp iho =>
    cases b with
    | triple s2 p2 o2 =>
      simp only [termEq, Bool.and_eq_true] at h
      simp [termHash, ihs s2 h.1.1, ihp p2 h.1.2, iho o2 h.2]
    | _ => simp [termEq] at h

theorem enc_of_termEq (a b : Term) (h : termEq a b = true) : enc a = enc b := by
  induction a generalizing b with
  | iri s => cases b <;> simp_all [termEq, enc]
  | bnode s => cases b <;> simp_all [termEq, enc]
  | var s => cases b <;> simp_all [termEq, enc]
  | lit l d => cases b <;> simp_all [termEq, enc]
  | lang l t => cases b <;> simp_all [termEq, enc, tagEq]
  | triple s p o ihs ihp iho =>
    cases b with
    | triple s2 p2 o2 =>
      simp only [termEq, Bool.and_eq_true] at h
      simp [enc, ihs s2 h.1.1, ihp p2 h.1.2, iho o2 h.2]
    | _ => simp [termEq] at h

theorem encS_inj (a b : Str) (r1 r2 : List Nat) (h : encS a ++ r1 = encS b ++ r2) : a = b ∧ r1 = r2 := by
  induction a generalizing b with
  | nil =>
    cases b with
    | nil => simpa [encS] using h
    | cons y ys => simp [encS] at h
  | cons x xs ih =>
    cases b with
    | nil => simp [encS] at h
    | cons y ys =>
      simp only [encS, List.map_cons, List.cons_append, List.cons.injEq, Nat.add_right_cancel_iff] at h
      obtain ⟨hxy, hrest⟩ := h
      obtain ⟨h1, h2⟩ := ih ys hrest
      exact ⟨by rw [Char.toNat_inj.1 hxy, h1], h2⟩

/-- the encoding is injective up to `termEq` on well-formed terms (prefix-free decoding) -/
theorem enc_inj (a b : Term) (ha : a.WF = true) (hb : b.WF = true) (r1 r2 : List Nat)
    (h : enc a ++ r1 = enc b ++ r2) : termEq a b = true ∧ r1 = r2 := by
  induction a generalizing b r1 r2 with
  | iri s =>
    cases b <;> simp [enc] at h
    obtain ⟨h1, h2⟩ := encS_inj _ _ _ _ h; simp [termEq, h1, h2]
  | bnode s =>
    cases b <;> simp [enc] at h
    obtain ⟨h1, h2⟩ := encS_inj _ _ _ _ h; simp [termEq, h1, h2]
  | var s =>
    cases b <;> simp [enc] at h
    obtain ⟨h1, h2⟩ := encS_inj _ _ _ _ h; simp [termEq, h1, h2]
  | lit l d =>
    cases b with
    | lit l2 d2 =>
      simp only [enc, List.cons_append, List.cons.injEq, true_and, List.append_assoc] at h
      obtain ⟨h1, h'⟩ := encS_inj _ _ _ _ h
      obtain ⟨_, h''⟩ := encS_inj _ _ _ _ h'
      obtain ⟨h3, h4⟩ := encS_inj _ _ _ _ h''
      simp [termEq, h1, h3, h4]
    | lang l2 t2 =>
      simp only [enc, List.cons_append, List.cons.injEq, true_and, List.append_assoc] at h
      obtain ⟨h1, _⟩ := encS_inj _ _ _ _ h
      simp [WF, h1] at ha
    | _ => simp [enc] at h
  | lang l t =>
    cases b with
    | lang l2 t2 =>
      simp only [enc, List.cons_append, List.cons.injEq, true_and, List.append_assoc] at h
      obtain ⟨_, h'⟩ := encS_inj _ _ _ _ h
      obtain ⟨h2, h''⟩ := encS_inj _ _ _ _ h'
      obtain ⟨h3, h4⟩ := encS_inj _ _ _ _ h''
      simp [termEq, tagEq, h2, h3, h4]
    | lit l2 d2 =>
      simp only [enc, List.cons_append, List.cons.injEq, true_and, List.append_assoc] at h
      obtain ⟨h1, _⟩ := encS_inj _ _ _ _ h
      simp [WF, ← h1] at hb
    | _ => simp [enc] at h
  | triple s p o ihs ihp iho =>
    cases b with
    | triple s2 p2 o2 =>
      simp only [WF, Bool.and_eq_true] at ha hb
      simp only [enc, List.cons_append, List.cons.injEq, true_and, List.append_assoc] at h
      obtain ⟨h1, h'⟩ := ihs _ ha.1.1 hb.1.1 _ _ h
      obtain ⟨h2, h''⟩ := ihp _ ha.1.2 hb.1.2 _ _ h'
      obtain ⟨h3, h4⟩ := iho _ ha.2 hb.2 _ _ h''
      simp [termEq, h1, h2, h3, h4]
    | _ => simp [enc] at h

/-- `cmp == Equal` exactly for equal terms -/
theorem cmp_eq_iff (a b : Term) (ha : a.WF = true) (hb : b.WF = true) :
    termCmp a b = .eq ↔ termEq a b = true := by
  rw [termCmp_eq_enc a b ha hb]
  constructor
  · intro h
    have := LawfulEqOrd.eq_of_compare h
    exact (enc_inj a b ha hb [] [] (by simpa using this)).1
  · intro h
    rw [enc_of_termEq a b h]
    exact ReflOrd.compare_self

/-- antisymmetry: swapping the arguments swaps the outcome -/
theorem cmp_swap (a b : Term) (ha : a.WF = true) (hb : b.WF = true) :
    termCmp b a = (termCmp a b).swap := by
  rw [termCmp_eq_enc a b ha hb, termCmp_eq_enc b a hb ha]
  exact OrientedOrd.eq_swap

/-- transitivity (≤ form) -/
theorem cmp_trans (a b c : Term) (ha : a.WF = true) (hb : b.WF = true) (hc : c.WF = true)
    (h1 : (termCmp a b).isLE = true) (h2 : (termCmp b c).isLE = true) : (termCmp a c).isLE = true := by
  rw [termCmp_eq_enc _ _ ha hb] at h1
  rw [termCmp_eq_enc _ _ hb hc] at h2
  rw [termCmp_eq_enc _ _ ha hc]
  exact TransOrd.isLE_trans h1 h2

/-- transitivity (strict form) -/
theorem cmp_trans_lt (a b c : Term) (ha : a.WF = true) (hb : b.WF = true) (hc : c.WF = true)
    (h1 : termCmp a b = .lt) (h2 : termCmp b c = .lt) : termCmp a c = .lt := by
  rw [termCmp_eq_enc _ _ ha hb] at h1
  rw [termCmp_eq_enc _ _ hb hc] at h2
  rw [termCmp_eq_enc _ _ ha hc]
  exact TransCmp.lt_trans h1 h2

/-- kinds are ordered blank node < IRI < literal < quoted triple < variable -/
theorem cmp_kind (a b : Term) (h : a.kind.rank < b.kind.rank) : termCmp a b = .lt := by
  cases a <;> cases b <;> simp_all [termCmp, kind, Kind.rank, Nat.compare_eq_ite_lt]

/-- the hand-written `NsTerm::eq` agrees with the default `Term::eq` on the concatenated IRI -/
theorem nsterm_eq (ns suffix : Str) (t : Term) :
    nsTermEq ns suffix t = termEq (.iri (ns ++ suffix)) t := by
  cases t with
  | iri s =>
    simp only [nsTermEq, termEq]
    rw [Bool.eq_iff_iff]
    simp only [Bool.and_eq_true, beq_iff_eq, List.isPrefixOf_iff_prefix]
    constructor
    · rintro ⟨⟨r, rfl⟩, h2⟩
      simp at h2; rw [h2]
    · intro h
      subst h
      simp
  | _ => simp [nsTermEq, termEq]

-- non-vacuity: a well-formed nested quoted triple with case-variant tags
example : (Term.triple (.bnode "b".toList) (.iri "http://x/p".toList)
    (.triple (.iri "http://x/s".toList) (.iri "http://x/p".toList) (.lang "chat".toList "EN-gb".toList))).WF = true := by
  decide
example : termEq (.lang "chat".toList "EN-gb".toList) (.lang "chat".toList "en-GB".toList) = true := by decide
/-- the guard of `cmp_eq_iff` is necessary: the ill-formed untagged `rdf:langString` literal
compares Equal to a tagged one without being equal to it -/
example : termCmp (.lit "a".toList rdfLangString) (.lang "a".toList "en".toList) = .eq ∧
    termEq (.lit "a".toList rdfLangString) (.lang "a".toList "en".toList) = false := by decide

end SophiaProofs.C02
