/-
C04 — Turtle / TriG output (plain or pretty) parses back to an isomorphic dataset.

Theorems about `SophiaModel.Pretty` (the model the driver `smd_C04` executes and the harness compares
byte for byte with `turtle/src/serializer/_pretty.rs`) and about the regexes regenerated from /repo.

Layer 0  the state of the checked tree: the branch switches regenerated from /repo (`repo_flags`) — a regression
         of one of the repaired defects flips a flag and this obligation fails.
Layer 1  token safety: what the writer's tests accept is a token of the W3C Turtle production that
         re-reads with the same datatype / the same local name.
Layer 2  `get_checked_prefixed_pair`, `write_literal` (bare and quoted), indentation.
Layer 3  graph-shape analysis: `build_lists`, `build_labelled`.
Layer 4  collecting the dataset and classifying its subjects: nothing dropped, nothing invented.
Layer 5  the writer: every `Root` subject of every graph is handed to `write_tree`; the nesting cap.
Layer 6  streaming mode: which statements `convert_triple` hands to Rio's formatters.
-/
import SophiaModel.Model.Pretty
import SophiaModel.Model.TurtleTokens
import SophiaModel.Gen.Regexes
import SophiaProofs.Lemmas.InclVerdict
import SophiaProofs.Lemmas.Pretty
import SophiaProofs.Lemmas.PrettyLists
import SophiaProofs.Lemmas.PrettyLabelled
import SophiaProofs.Lemmas.PrettyCycle
import SophiaProofs.Lemmas.PrettyEmit
import SophiaProofs.Lemmas.PrettyWriter
import SophiaProofs.Lemmas.StreamSer

namespace SophiaProofs.C04
open SophiaModel Re Pretty

/-! ## Layer 0 — the checked tree -/

/-- the four repaired branches are the repaired ones on the checked tree (tools/extractors/c04.py recognises the
shipped and the repaired text of each and fails closed on anything else): `()` only in node position, the
per-walk stamp of the cycle walk, a second rdf:rest disqualifies a list cell (`_pretty.rs`), and
`with_indentation` asserts Turtle white space (`turtle.rs`, d9e6461); and the writer has a nesting cap for
anonymous blank nodes (`MAX_BNODE_NESTING`, da7f8f8; its value is regenerated, not fixed here).  The theorems below that are conditional on
a flag are instantiated with it (`cycle_has_labelled_holds`, `list_cell_one_rest_holds`, `indent_safe_holds`),
so a regression of /repo fails a proof obligation and not only the differential. -/
theorem repo_flags :
    Gen.PrettyFlags.nilNodeOnly = true ∧ Gen.PrettyFlags.walkStamp = true ∧ Gen.PrettyFlags.singleRest = true ∧
    Gen.PrettyFlags.indentTurtleWs = true ∧ Gen.PrettyFlags.maxBnodeNesting.isSome = true := by
  decide

/-! ## Layer 1 — token safety -/

/-- `INTEGER.is_match` ⇒ Turtle INTEGER -/
theorem integer_safe : ∀ w, Matches Gen.TTL_INTEGER w → Matches TurtleTokens.INTEGER w :=
  decideIncl_sound _ _ (by native_decide)

/-- `BOOLEAN.is_match` ⇒ Turtle BooleanLiteral -/
theorem boolean_safe : ∀ w, Matches Gen.TTL_BOOLEAN w → Matches TurtleTokens.BOOLEAN w :=
  decideIncl_sound _ _ (by native_decide)

/-- the suffix test of `write_iri` ⇒ Turtle PN_LOCAL -/
theorem pn_local_safe : ∀ w, Matches Gen.PN_LOCAL w → Matches TurtleTokens.PN_LOCAL w :=
  decideIncl_sound _ _ (by native_decide)

/-- `Prefix::new` (non-empty case) ⇒ Turtle PN_PREFIX -/
theorem pn_prefix_safe : ∀ w, Matches Gen.PN_PREFIX w → Matches TurtleTokens.PN_PREFIX w :=
  decideIncl_sound _ _ (by native_decide)

/-- `BnodeId::new` ⇒ label part of Turtle BLANK_NODE_LABEL -/
theorem bnode_label_safe : ∀ w, Matches Gen.BNODE_ID w → Matches TurtleTokens.BNODE_LABEL w :=
  decideIncl_sound _ _ (by native_decide)

/-- FULL STATEMENT (false on the shipped tree: finding C04-numeric-dot):
`∀ w, Matches Gen.TTL_DECIMAL w → Matches TurtleTokens.DECIMAL w`.
Carried as a verdict: the inclusion, or the decision procedure's word checked to lie in the difference.
With the shipped regex `^[+-]?[0-9]*.[0-9]+$` the word is "\x000" (any character for the dot);
with notes/fixes/C04-regex-dots.diff the verdict is the inclusion. -/
theorem decimal_safe_verdict : InclVerdict Gen.TTL_DECIMAL TurtleTokens.DECIMAL :=
  inclVerdict_of_check _ _ (by native_decide)

/-- FULL STATEMENT (false on the shipped tree: finding C04-numeric-dot):
`∀ w, Matches Gen.TTL_DOUBLE w → Matches TurtleTokens.DOUBLE w`. -/
theorem double_safe_verdict : InclVerdict Gen.TTL_DOUBLE TurtleTokens.DOUBLE :=
  inclVerdict_of_check _ _ (by native_decide)

/-- `DECIMAL.is_match` ⇒ Turtle DECIMAL (fails to compile if the unescaped `.` comes back) -/
theorem decimal_safe : ∀ w, Matches Gen.TTL_DECIMAL w → Matches TurtleTokens.DECIMAL w :=
  decideIncl_sound _ _ (by native_decide)

/-- `DOUBLE.is_match` ⇒ Turtle DOUBLE -/
theorem double_safe : ∀ w, Matches Gen.TTL_DOUBLE w → Matches TurtleTokens.DOUBLE w :=
  decideIncl_sound _ _ (by native_decide)

/-- the shape of a well-formed BCP47 tag (subtags of 1–8 alphanumerics, the first one alphabetic) -/
def wfLangTag : Re :=
  seqs [between 1 8 (.cls [(0x41, 0x5A), (0x61, 0x7A)]),
        .star (seqs [chr '-', between 1 8 (.cls [(0x41, 0x5A), (0x61, 0x7A), (0x30, 0x39)])])]

/-- every tag of that shape is accepted by `LanguageTag::new` and, written after `@`, is a Turtle LANGTAG.
(`LANG_TAG` itself is wider — "A0", see `langtag_safe_verdict` — and says so in its doc; such tags are outside the
property's quantifier.) -/
theorem langtag_wf_safe : ∀ w, Matches wfLangTag w → Matches Gen.LANG_TAG w ∧ Matches TurtleTokens.LANGTAG w :=
  fun w h => ⟨decideIncl_sound _ _ (by native_decide) w h, decideIncl_sound _ _ (by native_decide) w h⟩

example : Matches wfLangTag (ofStr "de-CH-1996") ∧ ¬ Matches wfLangTag (ofStr "A0-x") := by decide

/-- `LanguageTag::new` vs Turtle LANGTAG (`[a-zA-Z]+ ('-' [a-zA-Z0-9]+)*`): verdict.  The shipped
`LANG_TAG` admits digits in the first subtag ("A0"), which is not BCP47 and not a Turtle LANGTAG;
such tags are outside the property's quantifier (well-formed tags) and are not generated. -/
theorem langtag_safe_verdict : InclVerdict Gen.LANG_TAG TurtleTokens.LANGTAG :=
  inclVerdict_of_check _ _ (by native_decide)

/-- classification on the reader's side: a bare token belongs to exactly one numeric production,
so "is a token of the production of datatype D" determines the datatype on re-reading -/
theorem turtle_integer_decimal_disjoint : ∀ w, ¬ (Matches TurtleTokens.INTEGER w ∧ Matches TurtleTokens.DECIMAL w) :=
  decideDisj_sound _ _ (by native_decide)
theorem turtle_integer_double_disjoint : ∀ w, ¬ (Matches TurtleTokens.INTEGER w ∧ Matches TurtleTokens.DOUBLE w) :=
  decideDisj_sound _ _ (by native_decide)
theorem turtle_decimal_double_disjoint : ∀ w, ¬ (Matches TurtleTokens.DECIMAL w ∧ Matches TurtleTokens.DOUBLE w) :=
  decideDisj_sound _ _ (by native_decide)

/-- a valid absolute IRI contains no backslash: a suffix of it written as local name is read back
verbatim (no `PN_LOCAL_ESC` to undo) -/
theorem iri_no_backslash : ∀ w, ¬ (Matches Gen.IRI_REGEX w ∧ Matches TurtleTokens.hasBackslash w) :=
  decideDisj_sound _ _ (by native_decide)

-- the reader's grammar on the words of the finding (independent of the tree's state)
example : Matches TurtleTokens.INTEGER (ofStr "12") ∧ ¬ Matches TurtleTokens.DECIMAL (ofStr "12") := by decide
example : ¬ Matches TurtleTokens.DOUBLE (ofStr "1x5e3") ∧ Matches TurtleTokens.DOUBLE (ofStr "+1.0e-3") := by decide
example : Matches TurtleTokens.DECIMAL (ofStr ".5") ∧ ¬ Matches TurtleTokens.DECIMAL (ofStr "1.") := by decide
example : Matches TurtleTokens.PN_LOCAL (ofStr "a.b:c%41") ∧ ¬ Matches TurtleTokens.PN_LOCAL (ofStr "a.") := by decide

/-! ## Layer 2 — prefixed names and bare literals -/

/-- `get_checked_prefixed_pair`: the returned pair is an entry of the map whose namespace followed by the
suffix is the IRI, and the suffix passed the check -/
theorem prefix_pick_sound (pm : List (Str × Str)) (iri : Str) (check : Str → Bool) (p suf : Str)
    (h : getCheckedPrefixedPair pm iri check = some (p, suf)) :
    ∃ ns, (p, ns) ∈ pm ∧ ns ++ suf = iri ∧ check suf = true :=
  Lemmas.Pretty.pick_sound pm iri check p suf h

/-- … and for a map with distinct prefixes `ns` is *the* namespace a reader associates with `p` -/
theorem prefix_pick_unique (pm : List (Str × Str)) (hd : (pm.map (·.1)).Nodup) (p ns ns' : Str)
    (h : (p, ns) ∈ pm) (h' : (p, ns') ∈ pm) : ns = ns' :=
  Lemmas.Pretty.nodup_keys_unique pm hd p ns ns' h h'

/-- longest-namespace choice: no entry with a longer matching namespace has an acceptable suffix -/
theorem prefix_pick_longest (pm : List (Str × Str)) (iri : Str) (check : Str → Bool) (p suf : Str)
    (h : getCheckedPrefixedPair pm iri check = some (p, suf)) :
    ∀ p' ns', (p', ns') ∈ pm → ns'.isPrefixOf iri = true → check (iri.drop ns'.length) = true →
      ns'.length ≤ iri.length - suf.length :=
  Lemmas.Pretty.pick_longest pm iri check p suf h

/-- `write_iri` producing a prefixed name `p:suf`: `suf` is a Turtle PN_LOCAL without escapes and
`ns(p) ++ suf` is the IRI -/
theorem prefixed_name_sound (cfg : Cfg) (iri p suf : Str)
    (habs : isAbsoluteIri iri = true)
    (h : getCheckedPrefixedPair cfg.prefixMap iri pnLocalOk = some (p, suf)) :
    writeIriPlain cfg iri = p ++ ':' :: suf ∧
    (∃ ns, (p, ns) ∈ cfg.prefixMap ∧ ns ++ suf = iri) ∧
    Matches TurtleTokens.PN_LOCAL (suf.map Char.toNat) ∧ '\\' ∉ suf := by
  obtain ⟨ns, hmem, hcat, hchk⟩ := prefix_pick_sound _ _ _ _ _ h
  refine ⟨?_, ⟨ns, hmem, hcat⟩, ?_, ?_⟩
  · simp [writeIriPlain, habs, h]
  · exact pn_local_safe _ ((matchB_iff _ _).mp hchk)
  · intro hb
    have hm : Matches Gen.IRI_REGEX (iri.map Char.toNat) := (matchB_iff _ _).mp habs
    apply iri_no_backslash _ ⟨hm, ?_⟩
    rw [← hcat]
    exact Lemmas.Pretty.hasBackslash_of_mem (ns ++ suf) (List.mem_append_right _ hb)

example : getCheckedPrefixedPair [("a".toList, "http://e/".toList), ("ab".toList, "http://e/a/".toList)]
    "http://e/a/x".toList pnLocalOk = some ("ab".toList, "x".toList) := by native_decide

/-- `write_literal` writes a literal bare only if the text is a token of the Turtle production that
re-reads with the same datatype (and, the token being the lexical form itself, the same lexical form).
FULL statement, for every datatype and lexical form (it was `…_partial` while DECIMAL / DOUBLE had the
unescaped dot: finding C04-numeric-dot, repaired). -/
theorem bare_literal_sound (dt lex : Str) (h : shorthand dt lex = true) : turtleTokenOk dt lex = true :=
  Lemmas.Pretty.bare_sound_full dt lex integer_safe boolean_safe decimal_safe double_safe h

/-- … and the datatype is one of the four that have a shorthand, and the text written is the lexical form -/
theorem bare_literal_written (cfg : Cfg) (dt lex : Str) (h : shorthand dt lex = true) :
    writeLiteral cfg (.lit lex dt) = lex ∧
    (dt = xsdInteger ∨ dt = xsdDecimal ∨ dt = xsdDouble ∨ dt = xsdBoolean) := by
  refine ⟨by simp [writeLiteral, h], Lemmas.Pretty.shorthand_dt dt lex h⟩

example : shorthand xsdInteger "+12".toList = true := by native_decide
example : shorthand xsdDecimal "12".toList = false ∧ shorthand xsdDecimal ".5".toList = true := by native_decide
example : shorthand xsdDouble "1x5e3".toList = false ∧ shorthand xsdDouble "1.e+3".toList = true := by native_decide

/-- a literal that is not written bare is written as a STRING_LITERAL_QUOTE whose decoding (the reader of C03:
ECHAR / UCHAR, no raw quote, backslash, LF, CR) gives back exactly the lexical form; what follows the closing
quote is `@tag`, nothing (xsd:string) or `^^` and the datatype IRI. -/
theorem quoted_literal_reads_back (cfg : Cfg) (lex dt : Str) (h : shorthand dt lex = false) :
    ∃ body, writeLiteral cfg (.lit lex dt) = '"' :: body ∧
      NT.readStrBody body = some (lex, if dt != xsdString then '^' :: '^' :: writeIri cfg .other dt else []) := by
  refine ⟨quotedString lex ++ '"' :: (if dt != xsdString then '^' :: '^' :: writeIri cfg .other dt else []), ?_, ?_⟩
  · simp [writeLiteral, h]
  · exact SophiaProofs.NTL.read_quoted lex _

theorem lang_literal_reads_back (cfg : Cfg) (lex tag : Str) :
    ∃ body, writeLiteral cfg (.lang lex tag) = '"' :: body ∧ NT.readStrBody body = some (lex, '@' :: tag) :=
  ⟨quotedString lex ++ '"' :: '@' :: tag, by simp [writeLiteral], SophiaProofs.NTL.read_quoted lex _⟩

/-- the escaped text never contains a raw line end or an unescaped quote: `unescape` inverts `quoted_string` -/
theorem quoted_string_roundtrip (s : Str) : NT.unescape (quotedString s) = some s := by
  simp [NT.unescape, quotedString, SophiaProofs.NTL.read_quoted]

example : quotedString "a\"b\\c\nd\r".toList = "a\\\"b\\\\c\\nd\\r".toList := by decide

/-! ### indentation -/

/-- FULL STATEMENT: an indentation a configuration can carry consists of white space of the Turtle grammar
(`WS ::= #x20 | #x9 | #xD | #xA`) — only then do the line breaks + indentation the writer inserts between tokens
separate them. -/
def IndentSafe : Prop := ∀ ind : Str, indentAccepted ind = true → ∀ c ∈ ind, isTurtleWs c = true

/-- holds for the repaired assertion (notes/fixes/C04-indent-turtle-ws.diff, /repo d9e6461) -/
theorem indent_safe_partial (h : Gen.PrettyFlags.indentTurtleWs = true) : IndentSafe := by
  intro ind ha c hc
  simp only [indentAccepted, h, ↓reduceIte, List.all_eq_true] at ha
  exact ha c hc

/-- the FULL statement on the checked tree (instantiated with `repo_flags`) -/
theorem indent_safe_holds : IndentSafe := indent_safe_partial repo_flags.2.2.2.1

/-- kernel-checked refutation for the formerly shipped assertion (`char::is_whitespace`), finding
C04-indent-unicode-ws (fixed): U+00A0 is accepted -/
theorem indent_safe_refuted (h : Gen.PrettyFlags.indentTurtleWs = false) : ¬ IndentSafe := by
  intro hs
  have ha : indentAccepted [Char.ofNat 0xA0] = true := by
    simp only [indentAccepted, h]
    decide
  have := hs [Char.ofNat 0xA0] ha (Char.ofNat 0xA0) (by simp)
  revert this
  decide

/-- the property's clause holds exactly for the repaired assertion -/
theorem indent_safe_iff : IndentSafe ↔ Gen.PrettyFlags.indentTurtleWs = true := by
  constructor
  · intro hs
    cases hf : Gen.PrettyFlags.indentTurtleWs with
    | true => rfl
    | false => exact absurd hs (indent_safe_refuted hf)
  · exact indent_safe_partial

/-- conversely, both variants accept every indentation made of Turtle white space (what the driver demands as
`o.cfg=ok`) -/
theorem indent_turtle_ws_accepted (ind : Str) (h : ∀ c ∈ ind, isTurtleWs c = true) : indentAccepted ind = true := by
  unfold indentAccepted
  split
  · exact List.all_eq_true.mpr h
  · exact List.all_eq_true.mpr (fun c hc => Lemmas.PrettyEmit.turtleWs_unicodeWs c (h c hc))

/-- `unindent` after `indent` restores the indentation (also for multi-byte indentations: both are measured in the
same unit) -/
theorem indent_unindent (w : W) (env : Env) : ((w.more env).less env).indent = w.indent :=
  Lemmas.PrettyEmit.less_more w env

example : indentAccepted "\t  \r\n".toList = true := by decide
example : indentAccepted [Char.ofNat 0xA0] = false ∧ indentAccepted [Char.ofNat 0xC] = false := by decide

/-! ## Layer 3 — graph-shape analysis -/

open Lemmas.PrettyLists Lemmas.PrettyLabelled

/-- `list_item(c, d) = Some(v)`: `c` has only rdf:first / rdf:rest properties (in any graph), exactly one
rdf:first, whose object is `v`; with notes/fixes/C04-single-rest.diff also at most one rdf:rest.
(Shipped code: any number of rdf:rest arcs is accepted — finding C04-multi-rest; the field `singleRest`
of `ItemSpec` is conditional on the regenerated flag.) -/
theorem list_item_spec (d : List Quad) (c v : Term) (h : listItem c d = some v) : ItemSpec d c v :=
  listItem_spec d c v h

/-- `build_lists`: every `(head, items)` it returns is a well-formed collection: reading from `head`, each
cell is a blank node that `build_subject_types` classified `SubTree`, `list_item` of the cell is the
corresponding item (see `list_item_spec`), consecutive cells are linked by an rdf:rest quad of the dataset and
the last cell by rdf:rest to rdf:nil. -/
theorem list_sound (d : List Quad) (sts0 : List STEntry) (lists : Lists) (sts : List STEntry)
    (h : buildLists d sts0 = some (lists, sts)) :
    ∀ e ∈ lists, WfList d (CellOk sts0) e.1 e.2 := by
  intro e he
  have := chainRev_wf (buildLists_ok d sts0 lists sts h e he)
  rwa [List.reverse_reverse] at this

/-- … and a `SubTree` cell is unlabelled and has exactly one incoming arc in its graph (unique predecessor) -/
theorem list_cell_unique_pred (d : List Quad) (c : Term)
    (h : CellOk (buildSubjectTypes d (buildLabelled d)) c) :
    isLabelled (buildLabelled d) c = false ∧ ∃ g, inArcs d c g = 1 := by
  obtain ⟨hb, e, he, hst, hcmp⟩ := h
  obtain ⟨h1, h2, h3⟩ := subTree_spec d _ e he hst
  have : e.s = c := bnode_cmp_eq h1 hb hcmp
  rw [this] at h2 h3
  exact ⟨h2, e.g, h3⟩

/-- with notes/fixes/C04-single-rest.diff a cell of a collection has exactly one rdf:rest arc: together with
`list_sound` / `list_item_spec` the FULL statement "exactly one rdf:first, exactly one rdf:rest, no other
property, unique predecessor".  (Shipped code: refuted by the input of finding C04-multi-rest, see
`multi_rest_witness`.) -/
theorem list_cell_one_rest (hs : Gen.PrettyFlags.singleRest = true) (d : List Quad) (c v o : Term)
    (hi : listItem c d = some v) (hl : RestLink d c o) :
    (d.filter (fun q => Term.termEq q.s c && isRest q)).length = 1 := by
  have hle := (listItem_spec d c v hi).singleRest hs
  obtain ⟨q, hq, hqs, hqp, _⟩ := hl
  have hmem : q ∈ d.filter (fun q => Term.termEq q.s c && isRest q) := by
    refine List.mem_filter.mpr ⟨hq, ?_⟩
    simp only [Bool.and_eq_true]
    exact ⟨by rw [hqs]; exact SophiaProofs.C02.termEq_refl c, hqp⟩
  have : 0 < (d.filter (fun q => Term.termEq q.s c && isRest q)).length := List.length_pos_of_mem hmem
  omega

/-- the FULL statement on the checked tree (instantiated with `repo_flags`) -/
theorem list_cell_one_rest_holds (d : List Quad) (c v o : Term)
    (hi : listItem c d = some v) (hl : RestLink d c o) :
    (d.filter (fun q => Term.termEq q.s c && isRest q)).length = 1 :=
  list_cell_one_rest repo_flags.2.2.1 d c v o hi hl

/-- the minimal input of finding C04-multi-rest (GSPO order): `<x:s> <x:p> _:a. _:a rdf:first <x:1>; rdf:rest _:b, rdf:nil.
_:b <x:p> <x:o>.` -/
def multiRestExample : List Quad :=
  [⟨.bnode "a".toList, .iri rdfFirst, .iri "x:1".toList, none⟩,
   ⟨.bnode "a".toList, .iri rdfRest, .bnode "b".toList, none⟩,
   ⟨.bnode "a".toList, .iri rdfRest, .iri rdfNil, none⟩,
   ⟨.bnode "b".toList, .iri "x:p".toList, .iri "x:o".toList, none⟩,
   ⟨.iri "x:s".toList, .iri "x:p".toList, .bnode "a".toList, none⟩]

/-- `list_item` on the two-rest node: accepted by the shipped code, rejected by the fixed one -/
theorem multi_rest_witness :
    listItem (.bnode "a".toList) multiRestExample =
      if Gen.PrettyFlags.singleRest then none else some (.iri "x:1".toList) := by
  native_decide

-- non-vacuity: a two-element collection is found, with its items in order
example :
    let d := mkDataset [⟨.iri "x:s".toList, .iri "x:p".toList, .bnode "a".toList, none⟩,
      ⟨.bnode "a".toList, .iri rdfFirst, .iri "x:1".toList, none⟩, ⟨.bnode "a".toList, .iri rdfRest, .bnode "b".toList, none⟩,
      ⟨.bnode "b".toList, .iri rdfFirst, .iri "x:2".toList, none⟩, ⟨.bnode "b".toList, .iri rdfRest, .iri rdfNil, none⟩]
    (buildLists d (buildSubjectTypes d (buildLabelled d))).map (·.1) =
      some [(.bnode "a".toList, [.iri "x:1".toList, .iri "x:2".toList])] := by native_decide

/-- `build_labelled`, the occurrence rules.  PARTIAL statement of `unlabelled_sound`: a blank node that is not
labelled never occurs as predicate, never as graph name, and never inside a quoted triple (in any position of
any quad).  Proved through "`bad` is never cleared" for the whole of `build_labelled` including the cycle walk.
FULL STATEMENT additionally: it has at most one incoming arc (`unlabelled_in_arcs`), occurs in one graph only
(`unlabelled_one_graph`) — both proved below — and is not on a cycle of unlabelled nodes: `CycleHasLabelled`
below, which is refuted for the shipped walk (`cycle_has_labelled_refuted`) and proved for the walk of
notes/fixes/C04-cycle-tail.diff (`cycle_has_labelled`). -/
theorem unlabelled_sound_partial (d : List Quad) (l : Str) (hl : l ∉ buildLabelled d) :
    ∀ q ∈ d, q.p ≠ .bnode l ∧ q.g ≠ some (.bnode l) ∧
      ∀ t ∈ [q.s, q.p, q.o] ++ q.g.toList, ∀ a b c, t = .triple a b c → .bnode l ∉ atoms t := by
  intro q hq
  have hnf : ¬ ForcedIn l q := fun hf => hl (labelled_of_bad d l (buildProfiles_sets d q hq l hf))
  refine ⟨?_, ?_, ?_⟩
  · intro hp
    exact hnf ⟨(1, q.p), by simp [spogEnum], Or.inl ⟨hp, Or.inl rfl⟩⟩
  · intro hg
    exact hnf ⟨(3, .bnode l), by simp [spogEnum, hg], Or.inl ⟨rfl, Or.inr rfl⟩⟩
  · intro t ht a b c htr hmem
    have hin : ∃ i, (i, t) ∈ spogEnum q := by
      simp only [List.mem_append, List.mem_cons, List.not_mem_nil, or_false] at ht
      rcases ht with (rfl | rfl | rfl) | hg
      · exact ⟨0, by simp [spogEnum]⟩
      · exact ⟨1, by simp [spogEnum]⟩
      · exact ⟨2, by simp [spogEnum]⟩
      · cases hqg : q.g with
        | none => rw [hqg] at hg; simp at hg
        | some g =>
          rw [hqg] at hg
          simp only [Option.toList_some, List.mem_cons, List.not_mem_nil, or_false] at hg
          exact ⟨3, by simp [spogEnum, hqg, hg]⟩
    obtain ⟨i, hi⟩ := hin
    exact hnf ⟨(i, t), hi, Or.inr ⟨⟨a, b, c, htr⟩, hmem⟩⟩

/-- an unlabelled blank node is the object of at most one quad of the whole dataset, hence has at most one
incoming arc in any graph (the `inArcs … == 1` test of `build_subject_types` then says: exactly one) -/
theorem unlabelled_in_arcs (d : List Quad) (l : Str) (hl : l ∉ buildLabelled d) :
    (d.filter (fun q => q.o == Term.bnode l)).length ≤ 1 ∧ ∀ g, inArcs d (.bnode l) g ≤ 1 :=
  ⟨unlabelled_obj_le_one d l hl, unlabelled_inArcs_le_one d l hl⟩

/-- all quads having an unlabelled blank node as subject or object lie in one graph -/
theorem unlabelled_one_graph (d : List Quad) (l : Str) (hl : l ∉ buildLabelled d)
    (q1 q2 : Quad) (h1 : q1 ∈ d) (h2 : q2 ∈ d)
    (ho1 : q1.s = .bnode l ∨ q1.o = .bnode l) (ho2 : q2.s = .bnode l ∨ q2.o = .bnode l) :
    gEq q1.g q2.g = true :=
  Lemmas.PrettyLabelled.unlabelled_one_graph d l hl q1 q2 h1 h2 ho1 ho2

-- non-vacuity: an unlabelled node exists (the inlinable `_:b` of `<x:s> <x:p> _:b. _:b <x:q> <x:o>.`)
example : "b".toList ∉ buildLabelled [⟨.bnode "b".toList, .iri "x:q".toList, .iri "x:o".toList, none⟩,
    ⟨.iri "x:s".toList, .iri "x:p".toList, .bnode "b".toList, none⟩] := by native_decide

example : "g".toList ∈ buildLabelled [⟨.iri "x:s".toList, .iri "x:p".toList, .iri "x:o".toList, some (.bnode "g".toList)⟩] := by
  native_decide

/-- the minimal input of finding C04-cycle-tail (already in GSPO order): `_:b <x:p> _:a. _:b <x:p> _:b.` -/
def cycleTailExample : List Quad :=
  [⟨.bnode "b".toList, .iri "x:p".toList, .bnode "a".toList, none⟩,
   ⟨.bnode "b".toList, .iri "x:p".toList, .bnode "b".toList, none⟩]

/-- what `build_labelled` answers on it: nothing with the shipped walk (the self-loop `_:b` stays unlabelled),
`_:b` with notes/fixes/C04-cycle-tail.diff -/
theorem cycle_tail_witness :
    buildLabelled cycleTailExample = if Gen.PrettyFlags.walkStamp then ["b".toList] else [] := by
  native_decide

/-- `cycle_has_labelled`: every non-empty set of blank nodes in which each member has an incoming arc from a
member (in particular every blank-node cycle) contains a labelled node — so no cycle is made of nodes that are
all written inline (and therefore never written at all). -/
def CycleHasLabelled : Prop :=
  ∀ (d : List Quad) (c : List Str), c ≠ [] →
    (∀ l ∈ c, ∃ l' ∈ c, ∃ q ∈ d, q.s = Term.bnode l' ∧ q.o = Term.bnode l) →
    ∃ l ∈ c, l ∈ buildLabelled d

/-- the cycle walk of notes/fixes/C04-cycle-tail.diff is correct (full proof: Lemmas/PrettyCycle.lean —
every predecessor chain ends or reaches a `bad` node after `detectCycles`, including the fuel bound) -/
theorem cycle_has_labelled (hs : Gen.PrettyFlags.walkStamp = true) : CycleHasLabelled :=
  fun d c hne hc => Lemmas.PrettyCycle.closed_set_has_labelled hs d c hne hc

/-- `cycle_has_labelled` on the checked tree: unconditional (instantiated with `repo_flags`) -/
theorem cycle_has_labelled_holds : CycleHasLabelled := cycle_has_labelled repo_flags.2.1

-- non-vacuity: a two-cycle with a tail, the closed set {a, b}
example : ∃ l ∈ ["a".toList, "b".toList], l ∈ buildLabelled
    [⟨.bnode "a".toList, .iri "x:p".toList, .bnode "b".toList, none⟩,
     ⟨.bnode "b".toList, .iri "x:p".toList, .bnode "a".toList, none⟩,
     ⟨.bnode "b".toList, .iri "x:p".toList, .bnode "c".toList, none⟩] :=
  cycle_has_labelled_holds _ _ (by simp) (by
    intro l hl
    simp only [List.mem_cons, List.not_mem_nil, or_false] at hl
    rcases hl with rfl | rfl
    · exact ⟨"b".toList, by simp, ⟨.bnode "b".toList, .iri "x:p".toList, .bnode "a".toList, none⟩, by simp, rfl, rfl⟩
    · exact ⟨"a".toList, by simp, ⟨.bnode "a".toList, .iri "x:p".toList, .bnode "b".toList, none⟩, by simp, rfl, rfl⟩)

/-- kernel-checked refutation for the shipped walk (finding C04-cycle-tail) -/
theorem cycle_has_labelled_refuted (hs : Gen.PrettyFlags.walkStamp = false) : ¬ CycleHasLabelled := by
  intro h
  have hw := cycle_tail_witness
  rw [hs] at hw
  simp only [Bool.false_eq_true, ↓reduceIte] at hw
  obtain ⟨l, _, hl⟩ := h cycleTailExample ["b".toList] (by simp) (by
    intro l hl
    simp only [List.mem_singleton] at hl
    subst hl
    exact ⟨"b".toList, by simp, ⟨.bnode "b".toList, .iri "x:p".toList, .bnode "b".toList, none⟩,
      by simp [cycleTailExample], rfl, rfl⟩)
  rw [hw] at hl
  cases hl

/-- the property holds exactly for the fixed walk -/
theorem cycle_has_labelled_iff : CycleHasLabelled ↔ Gen.PrettyFlags.walkStamp = true := by
  constructor
  · intro h
    cases hf : Gen.PrettyFlags.walkStamp with
    | true => rfl
    | false => exact absurd h (cycle_has_labelled_refuted hf)
  · exact cycle_has_labelled

/-! ## Layer 4 — collecting the dataset, classifying its subjects -/

open Lemmas.PrettyEmit

/-- pretty mode first collects the stream into a `BTreeSet` (`mkDataset`): nothing is invented — every quad of the
set is a quad of the stream -/
theorem dataset_no_invention (qs : List Quad) (q : Quad) (h : q ∈ mkDataset qs) : q ∈ qs := by
  rcases foldl_insert_sub qs [] q h with h | h
  · exact h
  · cases h

/-- … and nothing is dropped: every quad of the stream has a representative in the set that the set's order
identifies with it (`Ord::cmp = Equal`) -/
theorem dataset_no_loss (qs : List Quad) (q : Quad) (h : q ∈ qs) : ∃ q' ∈ mkDataset qs, quadCmp q q' = .eq :=
  foldl_insert_has qs [] q h

/-- … which, for well-formed terms, is the same RDF statement (`Term::eq` on subject, predicate, object and graph
name; C02's `cmp_eq_iff`) -/
theorem dataset_no_loss_wf (qs : List Quad) (hwf : ∀ q ∈ qs, QuadWF q) (q : Quad) (h : q ∈ qs) :
    ∃ q' ∈ mkDataset qs, Term.termEq q.s q'.s = true ∧ Term.termEq q.p q'.p = true ∧ Term.termEq q.o q'.o = true ∧
      gEq q.g q'.g = true := by
  obtain ⟨q', hq', he⟩ := dataset_no_loss qs q h
  exact ⟨q', hq', quadCmp_eq_same q q' (hwf q h) (hwf q' (dataset_no_invention qs q' hq')) he⟩

/-- `build_subject_types` has an entry for the (graph, subject) of every quad, and only for those: the table the
writer walks (`write_graph` over the Roots, `find_subject` for SubTrees / Annotations) misses no subject.
(That each entry is then *written* exactly once is not proved: it is the differential's and the round trip's
job — see the ghost counter `undone` of the driver.) -/
theorem every_subject_classified (d : List Quad) (lab : List Str) (q : Quad) (h : q ∈ d) :
    ∃ e ∈ buildSubjectTypes d lab, gEq q.g e.g = true ∧ Term.termEq q.s e.s = true ∧ e.st = classify d lab e.g e.s := by
  obtain ⟨y, hy, e1, e2⟩ := dedupGS_covers (d.map (fun q => (q.g, q.s))) (q.g, q.s) (List.mem_map.mpr ⟨q, h, rfl⟩)
  exact ⟨⟨y.1, y.2, classify d lab y.1 y.2⟩, List.mem_map.mpr ⟨y, hy, rfl⟩, e1, e2, rfl⟩

theorem subject_types_no_invention (d : List Quad) (lab : List Str) (e : STEntry) (h : e ∈ buildSubjectTypes d lab) :
    ∃ q ∈ d, q.g = e.g ∧ q.s = e.s := by
  obtain ⟨y, hy, rfl⟩ := List.mem_map.mp h
  obtain ⟨q, hq, rfl⟩ := List.mem_map.mp (dedupGS_sub _ y hy)
  exact ⟨q, hq, rfl, rfl⟩

-- non-vacuity: the duplicate is collapsed, both subjects are classified
example :
    let d := mkDataset [⟨.iri "x:s".toList, .iri "x:p".toList, .bnode "b".toList, none⟩,
      ⟨.bnode "b".toList, .iri "x:q".toList, .iri "x:o".toList, none⟩,
      ⟨.iri "x:s".toList, .iri "x:p".toList, .bnode "b".toList, none⟩]
    d.length = 2 ∧ (buildSubjectTypes d (buildLabelled d)).map (·.st) = [.subTree, .root] := by native_decide

/-! ## Layer 5 — the writer -/

open Lemmas.PrettyWriter

/-- `write_graph` (the loop `for i in self.graph_range`): every entry of the current graph's range that is a `Root`
when the loop starts is `Done` when it ends — it was handed to `write_tree` (the only place that marks a Root) —
and still names the same subject. -/
theorem write_graph_roots_done (env : Env) (fuel : Nat) (w : W) (i : Nat) (e : STEntry)
    (hlo : w.lo ≤ i) (hhi : i < w.hi) (he : w.sts[i]? = some e) (hst : e.st = .root) :
    ∃ e', (writeGraph env fuel w).sts[i]? = some e' ∧ e'.st = .done ∧ e'.s = e.s :=
  writeGraph_roots_done env fuel w i e hlo hhi he hst

/-- `TurtleSerializer/TrigSerializer{pretty}.serialize_*` = collect + `Prettifier::new` + `write_all`, on ANY stream
of quads.  PARTIAL statement of `every_subject_once` (DESIGN 4.4):
(1) the writer never changes which (graph, subject) an entry of the subject table stands for, and a type only ever
changes to `Done`; (2) NO `Root` is left at the end: every Root subject of the default graph and of every named
graph has been handed to `write_tree` (the loop over the named graphs covers the whole table and never meets
`g1.unwrap()` on `None`, because the collected set puts the default graph first — `mkDataset_nonePrefix` — and
`build_subject_types` / `build_lists` keep the order).
FULL STATEMENT additionally: every `SubTree` / `Annotation` entry is `Done` at the end (reached from its unique
parent) and nothing is written twice — not proved; observed per request by the driver's ghost counter `undone`
and by the round-trip oracle (`FAIL.not_isomorphic`, `FAIL.duplicate_statement`). -/
theorem roots_all_written_partial (cfg : Cfg) (quads : List Quad) (lists : Lists) (sts : List STEntry) (w : W)
    (hl : buildLists (mkDataset quads) (buildSubjectTypes (mkDataset quads) (buildLabelled (mkDataset quads))) = some (lists, sts))
    (h : serialize cfg quads = .done w) :
    (w.sts.length = sts.length ∧
      ∀ (i : Nat) (e : STEntry), sts[i]? = some e →
        ∃ e', w.sts[i]? = some e' ∧ e'.g = e.g ∧ e'.s = e.s ∧ (e'.st = e.st ∨ e'.st = .done)) ∧
    ∀ e ∈ w.sts, e.st ≠ .root :=
  serialize_roots_done cfg quads lists sts w hl h

/-- the nesting cap (`MAX_BNODE_NESTING`, /repo da7f8f8): a SubTree blank node met at the cap is labelled, pushed on
`deferred` and described by a `write_tree` of its own after the Roots of the graph.  `write_graph`, started with an
empty stack, ends with an empty stack, and every entry that was deferred while the Roots were written is `Done` at
the end (entries deferred by deferred trees too: `Lemmas.PrettyWriter.drain_total` is about the loop from any state
that keeps the stack discipline).  Unconditional: the model's iteration bound of the `while let Some(i) = pop()`
loop is proved sufficient (every push adds a new label to `labelled`, so at most one push per table entry) and
every stacked index is inside the table — the former `fault` escape is discharged. -/
theorem deferred_all_written (env : Env) (fuel : Nat) (w : W) (h0 : w.deferred = []) :
    (writeGraph env fuel w).deferred = [] ∧
      ∀ i ∈ (writeRoots env fuel w).deferred, ∀ e, (writeRoots env fuel w).sts[i]? = some e →
        ∃ e', (writeGraph env fuel w).sts[i]? = some e' ∧ e'.st = .done ∧ e'.s = e.s :=
  writeGraph_deferred_done env fuel w h0

/-- … and at the end of `serialize`, on any stream of quads, nothing is left on the deferred stack -/
theorem nothing_left_deferred (cfg : Cfg) (quads : List Quad) (w : W) (h : serialize cfg quads = .done w) :
    w.deferred = [] :=
  serialize_drained cfg quads w h

/-- a chain `<x:s> <x:p> _:c0 . _:c0 <x:p> _:c1 . … _:c(n-1) <x:p> <x:o>` -/
def chainQuads (n : Nat) : List Quad :=
  let b (k : Nat) : Term := .bnode (("c" ++ toString k).toList)
  ⟨.iri "x:s".toList, .iri "x:p".toList, b 0, none⟩ ::
    ((List.range n).map (fun k => ⟨b k, .iri "x:p".toList, if k + 1 < n then b (k + 1) else .iri "x:o".toList, none⟩))

-- non-vacuity: a chain of 150 blank nodes hits the cap twice (two nodes are labelled), nothing stays deferred,
-- every subject is Done, no fault
example :
    (match serialize ⟨[], "".toList⟩ (chainQuads 150) with
     | .done w => !w.fault && w.deferred.isEmpty && w.labx.length == 2 && w.sts.length == 151 &&
         w.sts.all (fun e => e.st == .done)
     | .diverges => false) = true := by native_decide

-- non-vacuity: two graphs, a Root with an inlined SubTree and an annotated statement; nothing is left undone
example :
    (match serialize ⟨[], "  ".toList⟩ (
        [⟨.iri "x:s".toList, .iri "x:p".toList, .bnode "b".toList, none⟩,
         ⟨.bnode "b".toList, .iri "x:q".toList, .iri "x:o".toList, none⟩,
         ⟨.iri "x:s".toList, .iri "x:p".toList, .iri "x:o".toList, some (.iri "x:g".toList)⟩,
         ⟨.triple (.iri "x:s".toList) (.iri "x:p".toList) (.iri "x:o".toList), .iri "x:by".toList, .iri "x:me".toList,
           some (.iri "x:g".toList)⟩]) with
     | .done w => !w.fault && w.sts.length == 4 && w.sts.all (fun e => e.st == .done)
     | .diverges => false) = true := by native_decide

/-- FULL STATEMENT of `every_subject_once`, first half (DESIGN 4.4): at the end of `serialize` every entry of the subject
table is `Done`.  Neither proved nor refuted: `roots_all_written_partial` gives it for the Roots, `deferred_all_written`
for the blank nodes deferred at the nesting cap, `subtree_reached_written_partial` for every SubTree that `write_bnode`
reaches; MISSING: that every SubTree / Annotation *is* reached from a written subject (its unique parent is a Root, a
reached SubTree, a collection item or an annotation — a well-founded argument over `cycle_has_labelled_holds`,
`list_sound` and the correctness of `find_subject` on the graph's range), and that the writers' fuel `fuelFor`
suffices.  The driver reports the number of entries left as ghost `undone` for every request. -/
def EverySubjectWritten : Prop :=
  ∀ (cfg : Cfg) (quads : List Quad) (w : W), serialize cfg quads = .done w → w.fault = false → ∀ e ∈ w.sts, e.st = .done

/-- `write_bnode` reaching an unlabelled blank node (not a collection head) whose entry in the current graph is a
`SubTree`: afterwards the entry is `Done` — its property list was written between `[` and `]` — or, at the nesting
cap, it is on the deferred stack, which `deferred_all_written` empties through `write_tree` -/
theorem subtree_reached_written_partial (env : Env) (f : Nat) (w : W) (l : Str) (i : Nat) (e : STEntry)
    (hlist : listsRemove w.lists (.bnode l) = none)
    (hlab : (isLabelled env.lab (.bnode l) || isLabelled w.labx (.bnode l)) = false)
    (hfind : w.findSt (.bnode l) = some i) (he : w.sts[i]? = some e) (hst : e.st = .subTree) :
    (∃ e', (writeBnode env (f + 1) w (.bnode l)).sts[i]? = some e' ∧ e'.st = .done ∧ e'.s = e.s) ∨
      i ∈ (writeBnode env (f + 1) w (.bnode l)).deferred :=
  writeBnode_subTree_reached env f w l i e hlist hlab hfind he hst

/-! ## Layer 6 — streaming (non-pretty) mode: `rio/src/serializer.rs` -/

open StreamSer Lemmas.StreamSer

/-- `rio_format_quads` hands a statement to Rio's formatter iff it is in the stream and is a strict RDF-star
statement (`StrictQuad`: the inductive specification, independent of `convert_triple`'s recursion) with an absent /
IRI / blank-node graph name: nothing representable is skipped, nothing else is written -/
theorem stream_keeps_exactly_strict (qs : List Quad) (q : Quad) : q ∈ streamQuads qs ↔ q ∈ qs ∧ StrictQuad q := by
  unfold streamQuads
  rw [List.mem_filter, keep_iff]

/-- … in stream order, each as often as it occurs (the kept statements are a sublist of the stream) -/
theorem stream_order (qs : List Quad) : List.Sublist (streamQuads qs) qs := List.filter_sublist

/-- for the datasets the property quantifies over (strict RDF / RDF-star) streaming mode formats every statement,
exactly as often as the source yields it and in its order: `rio_format_quads` is the identity on them -/
theorem stream_strict_identity (qs : List Quad) (h : ∀ q ∈ qs, StrictQuad q) : streamQuads qs = qs := by
  unfold streamQuads
  exact List.filter_eq_self.mpr (fun q hq => (keep_iff q).mpr (h q hq))

/-- the same for `rio_format_triples` (Turtle: no graph name is looked at) -/
theorem stream_triples_strict_identity (qs : List Quad)
    (h : ∀ q ∈ qs, SubjOk q.s ∧ (∃ i, q.p = .iri i) ∧ ObjOk q.o) : streamTriples qs = qs := by
  unfold streamTriples
  refine List.filter_eq_self.mpr (fun q hq => ?_)
  obtain ⟨hs, hp, ho⟩ := h q hq
  simp only [rioTriple, Bool.and_eq_true]
  exact ⟨⟨rio_of_subj hs, (isIri_iff _).mpr hp⟩, rio_of_obj ho⟩

-- non-vacuity: a nested quoted triple is kept, a variable subject / a literal graph name are skipped
example : (streamQuads
    [⟨.triple (.triple (.bnode "b".toList) (.iri "x:p".toList) (.lit "1".toList "x:d".toList)) (.iri "x:q".toList) (.iri "x:o".toList),
        .iri "x:r".toList, .lang "a".toList "en".toList, some (.bnode "g".toList)⟩,
     ⟨.var "x".toList, .iri "x:p".toList, .iri "x:o".toList, none⟩,
     ⟨.iri "x:s".toList, .iri "x:p".toList, .iri "x:o".toList, some (.lit "g".toList "x:d".toList)⟩,
     ⟨.iri "x:s".toList, .bnode "p".toList, .iri "x:o".toList, none⟩]).length = 1 := by decide

end SophiaProofs.C04
