/-
C04 — Turtle / TriG output (plain or pretty) parses back to an isomorphic dataset.

Theorems about `SophiaModel.Pretty` (the model the driver `smd_C04` executes and the harness compares
byte for byte with `turtle/src/serializer/_pretty.rs`) and about the regexes regenerated from /repo.

Layer 1  token safety: what the writer's tests accept is a token of the W3C Turtle production that
         re-reads with the same datatype / the same local name.
Layer 2  `get_checked_prefixed_pair`, `write_literal`.
Layer 3  graph-shape analysis: `build_lists`, `build_labelled`.
-/
import SophiaModel.Model.Pretty
import SophiaModel.Model.TurtleTokens
import SophiaModel.Gen.Regexes
import SophiaProofs.Lemmas.InclVerdict
import SophiaProofs.Lemmas.Pretty
import SophiaProofs.Lemmas.PrettyLists
import SophiaProofs.Lemmas.PrettyLabelled
import SophiaProofs.Lemmas.PrettyCycle

namespace SophiaProofs.C04
open SophiaModel Re Pretty

/-! ## Layer 1 — token safety -/

/-- `INTEGER.is_match` ⇒ Turtle INTEGER -/
theorem integer_safe : ∀ w, Matches Gen.TTL_INTEGER w → Matches TurtleTokens.INTEGER w :=
  decideIncl_sound _ _ (by native_decide)

/-- `BOOLEAN.is_match` ⇒ Turtle BooleanLiteral -/
theorem boolean_safe : ∀ w, Matches Gen.TTL_BOOLEAN w → Matches TurtleTokens.BOOLEAN w :=
  decideIncl_sound _ _ (by native_decide)

/-- the suffix test of `write_iri` ⇒ Turtle PN_LOCAL -/
theorem pn_local_safe : ∀ w, Matches Gen.PN_LOCAL w → Matches TurtleTokens.PN_LOCAL w :=
  decideIncl_sound _ _ (by native_decide)

/-- `Prefix::new` (non-empty case) ⇒ Turtle PN_PREFIX -/
theorem pn_prefix_safe : ∀ w, Matches Gen.PN_PREFIX w → Matches TurtleTokens.PN_PREFIX w :=
  decideIncl_sound _ _ (by native_decide)

/-- `BnodeId::new` ⇒ label part of Turtle BLANK_NODE_LABEL -/
theorem bnode_label_safe : ∀ w, Matches Gen.BNODE_ID w → Matches TurtleTokens.BNODE_LABEL w :=
  decideIncl_sound _ _ (by native_decide)

/-- FULL STATEMENT (false on the shipped tree: finding C04-numeric-dot):
`∀ w, Matches Gen.TTL_DECIMAL w → Matches TurtleTokens.DECIMAL w`.
Carried as a verdict: the inclusion, or the decision procedure's word checked to lie in the difference.
With the shipped regex `^[+-]?[0-9]*.[0-9]+$` the word is "\x000" (any character for the dot);
with notes/fixes/C04-regex-dots.diff the verdict is the inclusion. -/
theorem decimal_safe_verdict : InclVerdict Gen.TTL_DECIMAL TurtleTokens.DECIMAL :=
  inclVerdict_of_check _ _ (by native_decide)

/-- FULL STATEMENT (false on the shipped tree: finding C04-numeric-dot):
`∀ w, Matches Gen.TTL_DOUBLE w → Matches TurtleTokens.DOUBLE w`. -/
theorem double_safe_verdict : InclVerdict Gen.TTL_DOUBLE TurtleTokens.DOUBLE :=
  inclVerdict_of_check _ _ (by native_decide)

/-- `LanguageTag::new` vs Turtle LANGTAG (`[a-zA-Z]+ ('-' [a-zA-Z0-9]+)*`): verdict.  The shipped
`LANG_TAG` admits digits in the first subtag ("A0"), which is not BCP47 and not a Turtle LANGTAG;
such tags are outside the property's quantifier (well-formed tags) and are not generated. -/
theorem langtag_safe_verdict : InclVerdict Gen.LANG_TAG TurtleTokens.LANGTAG :=
  inclVerdict_of_check _ _ (by native_decide)

/-- classification on the reader's side: a bare token belongs to exactly one numeric production,
so "is a token of the production of datatype D" determines the datatype on re-reading -/
theorem turtle_integer_decimal_disjoint : ∀ w, ¬ (Matches TurtleTokens.INTEGER w ∧ Matches TurtleTokens.DECIMAL w) :=
  decideDisj_sound _ _ (by native_decide)
theorem turtle_integer_double_disjoint : ∀ w, ¬ (Matches TurtleTokens.INTEGER w ∧ Matches TurtleTokens.DOUBLE w) :=
  decideDisj_sound _ _ (by native_decide)
theorem turtle_decimal_double_disjoint : ∀ w, ¬ (Matches TurtleTokens.DECIMAL w ∧ Matches TurtleTokens.DOUBLE w) :=
  decideDisj_sound _ _ (by native_decide)

/-- a valid absolute IRI contains no backslash: a suffix of it written as local name is read back
verbatim (no `PN_LOCAL_ESC` to undo) -/
theorem iri_no_backslash : ∀ w, ¬ (Matches Gen.IRI_REGEX w ∧ Matches TurtleTokens.hasBackslash w) :=
  decideDisj_sound _ _ (by native_decide)

-- the reader's grammar on the words of the finding (independent of the tree's state)
example : Matches TurtleTokens.INTEGER (ofStr "12") ∧ ¬ Matches TurtleTokens.DECIMAL (ofStr "12") := by decide
example : ¬ Matches TurtleTokens.DOUBLE (ofStr "1x5e3") ∧ Matches TurtleTokens.DOUBLE (ofStr "+1.0e-3") := by decide
example : Matches TurtleTokens.DECIMAL (ofStr ".5") ∧ ¬ Matches TurtleTokens.DECIMAL (ofStr "1.") := by decide
example : Matches TurtleTokens.PN_LOCAL (ofStr "a.b:c%41") ∧ ¬ Matches TurtleTokens.PN_LOCAL (ofStr "a.") := by decide

/-! ## Layer 2 — prefixed names and bare literals -/

/-- `get_checked_prefixed_pair`: the returned pair is an entry of the map whose namespace followed by the
suffix is the IRI, and the suffix passed the check -/
theorem prefix_pick_sound (pm : List (Str × Str)) (iri : Str) (check : Str → Bool) (p suf : Str)
    (h : getCheckedPrefixedPair pm iri check = some (p, suf)) :
    ∃ ns, (p, ns) ∈ pm ∧ ns ++ suf = iri ∧ check suf = true :=
  Lemmas.Pretty.pick_sound pm iri check p suf h

/-- … and for a map with distinct prefixes `ns` is *the* namespace a reader associates with `p` -/
theorem prefix_pick_unique (pm : List (Str × Str)) (hd : (pm.map (·.1)).Nodup) (p ns ns' : Str)
    (h : (p, ns) ∈ pm) (h' : (p, ns') ∈ pm) : ns = ns' :=
  Lemmas.Pretty.nodup_keys_unique pm hd p ns ns' h h'

/-- longest-namespace choice: no entry with a longer matching namespace has an acceptable suffix -/
theorem prefix_pick_longest (pm : List (Str × Str)) (iri : Str) (check : Str → Bool) (p suf : Str)
    (h : getCheckedPrefixedPair pm iri check = some (p, suf)) :
    ∀ p' ns', (p', ns') ∈ pm → ns'.isPrefixOf iri = true → check (iri.drop ns'.length) = true →
      ns'.length ≤ iri.length - suf.length :=
  Lemmas.Pretty.pick_longest pm iri check p suf h

/-- `write_iri` producing a prefixed name `p:suf`: `suf` is a Turtle PN_LOCAL without escapes and
`ns(p) ++ suf` is the IRI -/
theorem prefixed_name_sound (cfg : Cfg) (iri p suf : Str)
    (habs : isAbsoluteIri iri = true)
    (h : getCheckedPrefixedPair cfg.prefixMap iri pnLocalOk = some (p, suf)) :
    writeIriPlain cfg iri = p ++ ':' :: suf ∧
    (∃ ns, (p, ns) ∈ cfg.prefixMap ∧ ns ++ suf = iri) ∧
    Matches TurtleTokens.PN_LOCAL (suf.map Char.toNat) ∧ '\\' ∉ suf := by
  obtain ⟨ns, hmem, hcat, hchk⟩ := prefix_pick_sound _ _ _ _ _ h
  refine ⟨?_, ⟨ns, hmem, hcat⟩, ?_, ?_⟩
  · simp [writeIriPlain, habs, h]
  · exact pn_local_safe _ ((matchB_iff _ _).mp hchk)
  · intro hb
    have hm : Matches Gen.IRI_REGEX (iri.map Char.toNat) := (matchB_iff _ _).mp habs
    apply iri_no_backslash _ ⟨hm, ?_⟩
    rw [← hcat]
    exact Lemmas.Pretty.hasBackslash_of_mem (ns ++ suf) (List.mem_append_right _ hb)

example : getCheckedPrefixedPair [("a".toList, "http://e/".toList), ("ab".toList, "http://e/a/".toList)]
    "http://e/a/x".toList pnLocalOk = some ("ab".toList, "x".toList) := by native_decide

/-- `write_literal` writes a literal bare only if the text is a token of the Turtle production that
re-reads with the same datatype (and, the token being the lexical form itself, the same lexical form).
PARTIAL: for xsd:decimal / xsd:double only under "the decision procedure found no witness"
(true with notes/fixes/C04-regex-dots.diff; on the shipped tree see `decimal_safe_verdict`).
FULL STATEMENT: `∀ dt lex, shorthand dt lex = true → turtleTokenOk dt lex = true`. -/
theorem bare_literal_sound_partial (dt lex : Str) (hp : Lemmas.Pretty.shorthandProved dt)
    (h : shorthand dt lex = true) : turtleTokenOk dt lex = true :=
  Lemmas.Pretty.bare_sound dt lex
    integer_safe boolean_safe
    (fun hn => incl_of_verdict _ _ decimal_safe_verdict hn)
    (fun hn => incl_of_verdict _ _ double_safe_verdict hn) hp h

example : Lemmas.Pretty.shorthandProved xsdInteger := Or.inl rfl
example : shorthand xsdInteger "+12".toList = true := by native_decide

/-! ## Layer 3 — graph-shape analysis -/

open Lemmas.PrettyLists Lemmas.PrettyLabelled

/-- `list_item(c, d) = Some(v)`: `c` has only rdf:first / rdf:rest properties (in any graph), exactly one
rdf:first, whose object is `v`; with notes/fixes/C04-single-rest.diff also at most one rdf:rest.
(Shipped code: any number of rdf:rest arcs is accepted — finding C04-multi-rest; the field `singleRest`
of `ItemSpec` is conditional on the regenerated flag.) -/
theorem list_item_spec (d : List Quad) (c v : Term) (h : listItem c d = some v) : ItemSpec d c v :=
  listItem_spec d c v h

/-- `build_lists`: every `(head, items)` it returns is a well-formed collection: reading from `head`, each
cell is a blank node that `build_subject_types` classified `SubTree`, `list_item` of the cell is the
corresponding item (see `list_item_spec`), consecutive cells are linked by an rdf:rest quad of the dataset and
the last cell by rdf:rest to rdf:nil. -/
theorem list_sound (d : List Quad) (sts0 : List STEntry) (lists : Lists) (sts : List STEntry)
    (h : buildLists d sts0 = some (lists, sts)) :
    ∀ e ∈ lists, WfList d (CellOk sts0) e.1 e.2 := by
  intro e he
  have := chainRev_wf (buildLists_ok d sts0 lists sts h e he)
  rwa [List.reverse_reverse] at this

/-- … and a `SubTree` cell is unlabelled and has exactly one incoming arc in its graph (unique predecessor) -/
theorem list_cell_unique_pred (d : List Quad) (c : Term)
    (h : CellOk (buildSubjectTypes d (buildLabelled d)) c) :
    isLabelled (buildLabelled d) c = false ∧ ∃ g, inArcs d c g = 1 := by
  obtain ⟨hb, e, he, hst, hcmp⟩ := h
  obtain ⟨h1, h2, h3⟩ := subTree_spec d _ e he hst
  have : e.s = c := bnode_cmp_eq h1 hb hcmp
  rw [this] at h2 h3
  exact ⟨h2, e.g, h3⟩

/-- with notes/fixes/C04-single-rest.diff a cell of a collection has exactly one rdf:rest arc: together with
`list_sound` / `list_item_spec` the FULL statement "exactly one rdf:first, exactly one rdf:rest, no other
property, unique predecessor".  (Shipped code: refuted by the input of finding C04-multi-rest, see
`multi_rest_witness`.) -/
theorem list_cell_one_rest (hs : Gen.PrettyFlags.singleRest = true) (d : List Quad) (c v o : Term)
    (hi : listItem c d = some v) (hl : RestLink d c o) :
    (d.filter (fun q => Term.termEq q.s c && isRest q)).length = 1 := by
  have hle := (listItem_spec d c v hi).singleRest hs
  obtain ⟨q, hq, hqs, hqp, _⟩ := hl
  have hmem : q ∈ d.filter (fun q => Term.termEq q.s c && isRest q) := by
    refine List.mem_filter.mpr ⟨hq, ?_⟩
    simp only [Bool.and_eq_true]
    exact ⟨by rw [hqs]; exact SophiaProofs.C02.termEq_refl c, hqp⟩
  have : 0 < (d.filter (fun q => Term.termEq q.s c && isRest q)).length := List.length_pos_of_mem hmem
  omega

/-- the minimal input of finding C04-multi-rest (GSPO order): `<x:s> <x:p> _:a. _:a rdf:first <x:1>; rdf:rest _:b, rdf:nil.
_:b <x:p> <x:o>.` -/
def multiRestExample : List Quad :=
  [⟨.bnode "a".toList, .iri rdfFirst, .iri "x:1".toList, none⟩,
   ⟨.bnode "a".toList, .iri rdfRest, .bnode "b".toList, none⟩,
   ⟨.bnode "a".toList, .iri rdfRest, .iri rdfNil, none⟩,
   ⟨.bnode "b".toList, .iri "x:p".toList, .iri "x:o".toList, none⟩,
   ⟨.iri "x:s".toList, .iri "x:p".toList, .bnode "a".toList, none⟩]

/-- `list_item` on the two-rest node: accepted by the shipped code, rejected by the fixed one -/
theorem multi_rest_witness :
    listItem (.bnode "a".toList) multiRestExample =
      if Gen.PrettyFlags.singleRest then none else some (.iri "x:1".toList) := by
  native_decide

-- non-vacuity: a two-element collection is found, with its items in order
example :
    let d := mkDataset [⟨.iri "x:s".toList, .iri "x:p".toList, .bnode "a".toList, none⟩,
      ⟨.bnode "a".toList, .iri rdfFirst, .iri "x:1".toList, none⟩, ⟨.bnode "a".toList, .iri rdfRest, .bnode "b".toList, none⟩,
      ⟨.bnode "b".toList, .iri rdfFirst, .iri "x:2".toList, none⟩, ⟨.bnode "b".toList, .iri rdfRest, .iri rdfNil, none⟩]
    (buildLists d (buildSubjectTypes d (buildLabelled d))).map (·.1) =
      some [(.bnode "a".toList, [.iri "x:1".toList, .iri "x:2".toList])] := by native_decide

/-- `build_labelled`, the occurrence rules.  PARTIAL statement of `unlabelled_sound`: a blank node that is not
labelled never occurs as predicate, never as graph name, and never inside a quoted triple (in any position of
any quad).  Proved through "`bad` is never cleared" for the whole of `build_labelled` including the cycle walk.
FULL STATEMENT additionally: it has at most one incoming arc (`unlabelled_in_arcs`), occurs in one graph only
(`unlabelled_one_graph`) — both proved below — and is not on a cycle of unlabelled nodes: `CycleHasLabelled`
below, which is refuted for the shipped walk (`cycle_has_labelled_refuted`) and proved for the walk of
notes/fixes/C04-cycle-tail.diff (`cycle_has_labelled`). -/
theorem unlabelled_sound_partial (d : List Quad) (l : Str) (hl : l ∉ buildLabelled d) :
    ∀ q ∈ d, q.p ≠ .bnode l ∧ q.g ≠ some (.bnode l) ∧
      ∀ t ∈ [q.s, q.p, q.o] ++ q.g.toList, ∀ a b c, t = .triple a b c → .bnode l ∉ atoms t := by
  intro q hq
  have hnf : ¬ ForcedIn l q := fun hf => hl (labelled_of_bad d l (buildProfiles_sets d q hq l hf))
  refine ⟨?_, ?_, ?_⟩
  · intro hp
    exact hnf ⟨(1, q.p), by simp [spogEnum], Or.inl ⟨hp, Or.inl rfl⟩⟩
  · intro hg
    exact hnf ⟨(3, .bnode l), by simp [spogEnum, hg], Or.inl ⟨rfl, Or.inr rfl⟩⟩
  · intro t ht a b c htr hmem
    have hin : ∃ i, (i, t) ∈ spogEnum q := by
      simp only [List.mem_append, List.mem_cons, List.not_mem_nil, or_false] at ht
      rcases ht with (rfl | rfl | rfl) | hg
      · exact ⟨0, by simp [spogEnum]⟩
      · exact ⟨1, by simp [spogEnum]⟩
      · exact ⟨2, by simp [spogEnum]⟩
      · cases hqg : q.g with
        | none => rw [hqg] at hg; simp at hg
        | some g =>
          rw [hqg] at hg
          simp only [Option.toList_some, List.mem_cons, List.not_mem_nil, or_false] at hg
          exact ⟨3, by simp [spogEnum, hqg, hg]⟩
    obtain ⟨i, hi⟩ := hin
    exact hnf ⟨(i, t), hi, Or.inr ⟨⟨a, b, c, htr⟩, hmem⟩⟩

/-- an unlabelled blank node is the object of at most one quad of the whole dataset, hence has at most one
incoming arc in any graph (the `inArcs … == 1` test of `build_subject_types` then says: exactly one) -/
theorem unlabelled_in_arcs (d : List Quad) (l : Str) (hl : l ∉ buildLabelled d) :
    (d.filter (fun q => q.o == Term.bnode l)).length ≤ 1 ∧ ∀ g, inArcs d (.bnode l) g ≤ 1 :=
  ⟨unlabelled_obj_le_one d l hl, unlabelled_inArcs_le_one d l hl⟩

/-- all quads having an unlabelled blank node as subject or object lie in one graph -/
theorem unlabelled_one_graph (d : List Quad) (l : Str) (hl : l ∉ buildLabelled d)
    (q1 q2 : Quad) (h1 : q1 ∈ d) (h2 : q2 ∈ d)
    (ho1 : q1.s = .bnode l ∨ q1.o = .bnode l) (ho2 : q2.s = .bnode l ∨ q2.o = .bnode l) :
    gEq q1.g q2.g = true :=
  Lemmas.PrettyLabelled.unlabelled_one_graph d l hl q1 q2 h1 h2 ho1 ho2

-- non-vacuity: an unlabelled node exists (the inlinable `_:b` of `<x:s> <x:p> _:b. _:b <x:q> <x:o>.`)
example : "b".toList ∉ buildLabelled [⟨.bnode "b".toList, .iri "x:q".toList, .iri "x:o".toList, none⟩,
    ⟨.iri "x:s".toList, .iri "x:p".toList, .bnode "b".toList, none⟩] := by native_decide

example : "g".toList ∈ buildLabelled [⟨.iri "x:s".toList, .iri "x:p".toList, .iri "x:o".toList, some (.bnode "g".toList)⟩] := by
  native_decide

/-- the minimal input of finding C04-cycle-tail (already in GSPO order): `_:b <x:p> _:a. _:b <x:p> _:b.` -/
def cycleTailExample : List Quad :=
  [⟨.bnode "b".toList, .iri "x:p".toList, .bnode "a".toList, none⟩,
   ⟨.bnode "b".toList, .iri "x:p".toList, .bnode "b".toList, none⟩]

/-- what `build_labelled` answers on it: nothing with the shipped walk (the self-loop `_:b` stays unlabelled),
`_:b` with notes/fixes/C04-cycle-tail.diff -/
theorem cycle_tail_witness :
    buildLabelled cycleTailExample = if Gen.PrettyFlags.walkStamp then ["b".toList] else [] := by
  native_decide

/-- `cycle_has_labelled`: every non-empty set of blank nodes in which each member has an incoming arc from a
member (in particular every blank-node cycle) contains a labelled node — so no cycle is made of nodes that are
all written inline (and therefore never written at all). -/
def CycleHasLabelled : Prop :=
  ∀ (d : List Quad) (c : List Str), c ≠ [] →
    (∀ l ∈ c, ∃ l' ∈ c, ∃ q ∈ d, q.s = Term.bnode l' ∧ q.o = Term.bnode l) →
    ∃ l ∈ c, l ∈ buildLabelled d

/-- the cycle walk of notes/fixes/C04-cycle-tail.diff is correct (full proof: Lemmas/PrettyCycle.lean —
every predecessor chain ends or reaches a `bad` node after `detectCycles`, including the fuel bound) -/
theorem cycle_has_labelled (hs : Gen.PrettyFlags.walkStamp = true) : CycleHasLabelled :=
  fun d c hne hc => Lemmas.PrettyCycle.closed_set_has_labelled hs d c hne hc

/-- kernel-checked refutation for the shipped walk (finding C04-cycle-tail) -/
theorem cycle_has_labelled_refuted (hs : Gen.PrettyFlags.walkStamp = false) : ¬ CycleHasLabelled := by
  intro h
  have hw := cycle_tail_witness
  rw [hs] at hw
  simp only [Bool.false_eq_true, ↓reduceIte] at hw
  obtain ⟨l, _, hl⟩ := h cycleTailExample ["b".toList] (by simp) (by
    intro l hl
    simp only [List.mem_singleton] at hl
    subst hl
    exact ⟨"b".toList, by simp, ⟨.bnode "b".toList, .iri "x:p".toList, .bnode "b".toList, none⟩,
      by simp [cycleTailExample], rfl, rfl⟩)
  rw [hw] at hl
  cases hl

/-- the property holds exactly for the fixed walk -/
theorem cycle_has_labelled_iff : CycleHasLabelled ↔ Gen.PrettyFlags.walkStamp = true := by
  constructor
  · intro h
    cases hf : Gen.PrettyFlags.walkStamp with
    | true => rfl
    | false => exact absurd h (cycle_has_labelled_refuted hf)
  · exact cycle_has_labelled

end SophiaProofs.C04
