/-
C20 — native Rust values map to valid typed literals and back without loss.

Everything is stated over `SophiaModel.Native` (the functions `smd_C20` executes) and over
`Gen.Native.*`, the whitelists / datatypes / lexical-form shapes regenerated from
`api/src/term/_native_literal.rs` on every run.  No theorem below mentions a tree-specific constant
other than through `Gen.Native`, so a change of the source that keeps the property keeps the file
compiling, and one that breaks a statement breaks the corresponding proof.

Integers, `bool`, `str`: all values, no hypotheses.
`f64`: `core`'s float printing/parsing is a parameter (`fmt`, `parse`) constrained by `StdF64`
(H1–H4 of DESIGN §4.20); the harness re-validates H1–H4 on the real implementation on every run.

FINDINGS carried here (kernel-checked):
* `f64_nonfinite_valid` is REFUTED for the shape `display` (`format!("{}", self)` for every value, the
  shape of the unrepaired tree): `f64_nonfinite_refuted_of_display`, because `"inf" ∉ L(xsd:double)`
  (`std_display_nonfinite_invalid`).  It holds exactly for the special-casing shape with XSD spellings:
  `f64_nonfinite_valid_iff`.
* `str_lexical_valid` holds only for strings of XML `Char`s (`str_lexical_valid_partial`,
  `str_lexical_valid_iff`); `"\u{0}"` (also U+FFFE, U+FFFF) is a Rust `str` outside `L(xsd:string)`
  (`str_nul_invalid`).
* success on ill-typed literals: `int_parse_denotes` gives the value under the `xsd:integer` mapping, NOT
  membership in the datatype's own value space; `int_parse_welltyped_refuted` is the witness
  (`"-5"^^xsd:positiveInteger ↦ Ok(-5)`).  Recorded as an observation, not as a violation.
-/
import SophiaProofs.Lemmas.Native

namespace SophiaProofs.C20
open SophiaModel SophiaModel.Native SophiaModel.Re SophiaProofs.Native

/-- code points of a string -/
abbrev cps (s : Str) : List Nat := s.map Char.toNat

/-! ## integers: `i32`, `isize`, `usize` -/

theorem i32_sane : i32.Sane := ⟨by decide, by decide, by decide⟩
theorem isize_sane : isize.Sane := ⟨by decide, by decide, by decide⟩
theorem usize_sane : usize.Sane := ⟨by decide, by decide, by decide⟩

/-- the datatype of the three integer impls is `xsd:integer` and their lexical form is `Display` -/
theorem int_term_shape (n : Int) :
    i32Term n = .lit (showInt n) (xsdIri "integer".toList) ∧
    isizeTerm n = .lit (showInt n) (xsdIri "integer".toList) ∧
    usizeTerm n = .lit (showInt n) (xsdIri "integer".toList) := by
  have h1 : Gen.Native.asI32.datatype = "integer".toList := by decide
  have h2 : Gen.Native.asIsize.datatype = "integer".toList := by decide
  have h3 : Gen.Native.asUsize.datatype = "integer".toList := by decide
  refine ⟨?_, ?_, ?_⟩
  · unfold i32Term asTerm intLex; rw [h1]; cases Gen.Native.asI32.lex <;> rfl
  · unfold isizeTerm asTerm intLex; rw [h2]; cases Gen.Native.asIsize.lex <;> rfl
  · unfold usizeTerm asTerm intLex; rw [h3]; cases Gen.Native.asUsize.lex <;> rfl

/-- **int_lexical_valid** — for every integer (hence every `i32`, `isize`, `usize`) what `Display`
prints is in the lexical space of `xsd:integer` -/
theorem int_lexical_valid (n : Int) : Matches Xsd.integer (cps (showInt n)) := by
  rw [integer_iff]
  unfold showInt
  by_cases h : n < 0
  · rw [if_pos h]
    refine ⟨cps (showNat n.natAbs), .inr (.inr (by simp [cps, minus_toNat])), ?_, ?_⟩
    · simpa [cps] using showNat_ne_nil _
    · intro x hx
      obtain ⟨y, hy, rfl⟩ := List.mem_map.mp hx
      exact showNat_isDigit _ y hy
  · rw [if_neg h]
    refine ⟨cps (showNat n.natAbs), .inl rfl, ?_, ?_⟩
    · simpa [cps] using showNat_ne_nil _
    · intro x hx
      obtain ⟨y, hy, rfl⟩ := List.mem_map.mp hx
      exact showNat_isDigit _ y hy

/-- the lexical form of the term itself (not only of `showInt`) is valid -/
theorem int_term_lexical_valid (n : Int) :
    (∃ lex, lexicalForm (i32Term n) = some lex ∧ Matches Xsd.integer (cps lex)) ∧
    (∃ lex, lexicalForm (isizeTerm n) = some lex ∧ Matches Xsd.integer (cps lex)) ∧
    (∃ lex, lexicalForm (usizeTerm n) = some lex ∧ Matches Xsd.integer (cps lex)) := by
  obtain ⟨h1, h2, h3⟩ := int_term_shape n
  rw [h1, h2, h3]
  exact ⟨⟨_, rfl, int_lexical_valid n⟩, ⟨_, rfl, int_lexical_valid n⟩, ⟨_, rfl, int_lexical_valid n⟩⟩

theorem datatypeIs_self (lex name : Str) : datatypeIs (.lit lex (xsdIri name)) name = true := by
  simp [datatypeIs, Term.datatype]

/-- a native value's own datatype is on the whitelist ⇒ `try_from_term` reaches `lex.parse()` -/
theorem tryFrom_asTerm {ε α : Type} (cfg : Gen.Native.TryFrom) (a : Gen.Native.AsTerm)
    (parse : Str → Except ε α) (lex : Str) (h : a.datatype ∈ cfg.whitelist) :
    tryFromTermWith cfg parse (asTerm a lex) = parse lex := by
  unfold tryFromTermWith asTerm
  simp only [lexicalForm]
  have : accepted cfg (.lit lex (xsdIri a.datatype)) = true := by
    unfold accepted
    rw [List.any_eq_true]
    exact ⟨a.datatype, h, datatypeIs_self _ _⟩
  rw [if_pos this]

/-- **int_roundtrip** (i32): every `i32`, used as a term, converts back to itself -/
theorem i32_roundtrip (n : Int) (h : i32.InRange n) : i32TryFromTerm (i32Term n) = .ok n := by
  unfold i32TryFromTerm i32Term
  rw [tryFrom_asTerm _ _ _ _ (by decide)]
  have : intLex Gen.Native.asI32 n = showInt n := by unfold intLex; cases Gen.Native.asI32.lex <;> rfl
  rw [this]; exact parseInt_showInt i32_sane h

/-- **int_roundtrip** (isize) -/
theorem isize_roundtrip (n : Int) (h : isize.InRange n) : isizeTryFromTerm (isizeTerm n) = .ok n := by
  unfold isizeTryFromTerm isizeTerm
  rw [tryFrom_asTerm _ _ _ _ (by decide)]
  have : intLex Gen.Native.asIsize n = showInt n := by unfold intLex; cases Gen.Native.asIsize.lex <;> rfl
  rw [this]; exact parseInt_showInt isize_sane h

/-- **int_roundtrip** (usize) -/
theorem usize_roundtrip (n : Int) (h : usize.InRange n) : usizeTryFromTerm (usizeTerm n) = .ok n := by
  unfold usizeTryFromTerm usizeTerm
  rw [tryFrom_asTerm _ _ _ _ (by decide)]
  have : intLex Gen.Native.asUsize n = showInt n := by unfold intLex; cases Gen.Native.asUsize.lex <;> rfl
  rw [this]; exact parseInt_showInt usize_sane h

-- non-vacuity: the extremes are in range and round-trip through the executable model
example : i32.InRange (-2147483648) ∧ i32TryFromTerm (i32Term (-2147483648)) = .ok (-2147483648) :=
  ⟨by decide, i32_roundtrip _ (by decide)⟩
example : usize.InRange 18446744073709551615 := by decide
example : ¬ usize.InRange (-1) := by decide

/-- what a successful integer conversion means: the term is a literal whose datatype is one of the
whitelisted names, its lexical form is in `L(xsd:integer)`, the result is the value the XSD
lexical-to-value mapping assigns, and it is in the native type's range -/
def IntDenotes (ty : IntTy) (cfg : Gen.Native.TryFrom) (t : Term) (v : Int) : Prop :=
  ∃ lex name, lexicalForm t = some lex ∧ name ∈ cfg.whitelist ∧ t.datatype = some (xsdIri name) ∧
    Matches Xsd.integer (cps lex) ∧ Xsd.intVal lex = v ∧ ty.InRange v ∧
    (ty.signed = false → lex.head? ≠ some '-')

theorem accepted_iff (cfg : Gen.Native.TryFrom) (t : Term) :
    accepted cfg t = true ↔ ∃ name, name ∈ cfg.whitelist ∧ t.datatype = some (xsdIri name) := by
  unfold accepted datatypeIs
  rw [List.any_eq_true]
  constructor
  · rintro ⟨n, hn, h⟩; exact ⟨n, hn, by simpa using h⟩
  · rintro ⟨n, hn, h⟩; exact ⟨n, hn, by simp [h]⟩

/-- generic form of `int_parse_denotes` + completeness: success is *characterised* -/
theorem int_try_ok_iff {ty : IntTy} (hs : ty.Sane) {cfg : Gen.Native.TryFrom}
    (hw : ∃ e, parseInt ty cfg.wrongDatatype = .error e) (hn : ∃ e, parseInt ty cfg.notALiteral = .error e)
    (t : Term) (v : Int) :
    tryFromTermWith cfg (parseInt ty) t = .ok v ↔ IntDenotes ty cfg t v := by
  unfold tryFromTermWith IntDenotes
  cases hl : lexicalForm t with
  | none =>
    simp only
    obtain ⟨e, he⟩ := hn
    rw [he]
    constructor
    · intro h; cases h
    · rintro ⟨lex, _, h, _⟩; cases h
  | some lex =>
    simp only
    by_cases ha : accepted cfg t = true
    · rw [if_pos ha]
      obtain ⟨name, hname, hdt⟩ := (accepted_iff cfg t).mp ha
      constructor
      · intro h
        obtain ⟨h1, h2, h3, h4⟩ := parseInt_ok h
        exact ⟨lex, name, rfl, hname, hdt, h1, h2, h3, h4⟩
      · rintro ⟨lex', _, hl', _, _, h1, h2, h3, h4⟩
        injection hl' with hl'
        subst hl'
        rw [← h2]
        exact parseInt_complete hs h1 (h2 ▸ h3) h4
    · rw [if_neg ha]
      obtain ⟨e, he⟩ := hw
      rw [he]
      constructor
      · intro h; cases h
      · rintro ⟨_, name, _, hname, hdt, _⟩
        exact absurd ((accepted_iff cfg t).mpr ⟨name, hname, hdt⟩) ha

/-- **int_parse_denotes** (i32), with its converse: `i32::try_from_term(t)` is `Ok(v)` exactly when `t`
is a literal of a whitelisted datatype whose lexical form is a valid `xsd:integer` form denoting `v`
and `v` fits — signed (`+5`, `-0`), padded (`007`) forms included; out-of-range and malformed forms
are errors -/
theorem i32_parse_denotes (t : Term) (v : Int) :
    i32TryFromTerm t = .ok v ↔ IntDenotes i32 Gen.Native.tryI32 t v :=
  int_try_ok_iff i32_sane ⟨.invalidDigit, by decide⟩ ⟨.invalidDigit, by decide⟩ t v

theorem isize_parse_denotes (t : Term) (v : Int) :
    isizeTryFromTerm t = .ok v ↔ IntDenotes isize Gen.Native.tryIsize t v :=
  int_try_ok_iff isize_sane ⟨.invalidDigit, by decide⟩ ⟨.invalidDigit, by decide⟩ t v

theorem usize_parse_denotes (t : Term) (v : Int) :
    usizeTryFromTerm t = .ok v ↔ IntDenotes usize Gen.Native.tryUsize t v :=
  int_try_ok_iff usize_sane ⟨.invalidDigit, by decide⟩ ⟨.invalidDigit, by decide⟩ t v

-- non-vacuity: signed / padded / out-of-range / malformed / wrong datatype / not a literal
example : i32TryFromTerm (.lit "+007".toList (xsdIri "unsignedByte".toList)) = .ok 7 := by decide
example : i32TryFromTerm (.lit "-0".toList (xsdIri "integer".toList)) = .ok 0 := by decide
example : i32TryFromTerm (.lit "2147483648".toList (xsdIri "long".toList)) = .error .posOverflow := by decide
example : i32TryFromTerm (.lit "-2147483649".toList (xsdIri "long".toList)) = .error .negOverflow := by decide
example : usizeTryFromTerm (.lit "-0".toList (xsdIri "integer".toList)) = .error .invalidDigit := by decide
example : i32TryFromTerm (.lit "".toList (xsdIri "integer".toList)) = .error .empty := by decide
example : i32TryFromTerm (.lit "1".toList (xsdIri "byte".toList)) = .error .invalidDigit := by decide
example : i32TryFromTerm (.lang "1".toList "en".toList) = .error .invalidDigit := by decide
example : i32TryFromTerm (.iri (xsdIri "integer".toList)) = .error .invalidDigit := by decide

/-- **no_panic** — `try_from_term` is total (a Lean function; the two partial operations of the Rust
code are `term.datatype().unwrap()`, reached only when `lexical_form()` is `Some`, i.e. on literals,
which always have a datatype, and `str::parse`, which returns `Err`).  Every outcome is classified:
not a literal / datatype not whitelisted ⇒ the error of parsing the sentinel (`InvalidDigit`);
whitelisted ⇒ `Ok(v)` with `v` in range, or `Empty` / `InvalidDigit` / `PosOverflow` / `NegOverflow`. -/
theorem no_panic (t : Term) :
    (lexicalForm t = none → i32TryFromTerm t = .error .invalidDigit ∧
        isizeTryFromTerm t = .error .invalidDigit ∧ usizeTryFromTerm t = .error .invalidDigit ∧
        boolTryFromTerm t = .error ()) ∧
    (accepted Gen.Native.tryI32 t = false → i32TryFromTerm t = .error .invalidDigit) ∧
    (accepted Gen.Native.tryIsize t = false → isizeTryFromTerm t = .error .invalidDigit) ∧
    (accepted Gen.Native.tryUsize t = false → usizeTryFromTerm t = .error .invalidDigit) ∧
    (accepted Gen.Native.tryBool t = false → boolTryFromTerm t = .error ()) ∧
    (∀ v, i32TryFromTerm t = .ok v → i32.InRange v) ∧
    (∀ v, isizeTryFromTerm t = .ok v → isize.InRange v) ∧
    (∀ v, usizeTryFromTerm t = .ok v → usize.InRange v) := by
  have w1 : parseInt i32 Gen.Native.tryI32.wrongDatatype = .error .invalidDigit := by decide
  have w2 : parseInt isize Gen.Native.tryIsize.wrongDatatype = .error .invalidDigit := by decide
  have w3 : parseInt usize Gen.Native.tryUsize.wrongDatatype = .error .invalidDigit := by decide
  have w4 : parseBool Gen.Native.tryBool.wrongDatatype = .error () := by decide
  have n1 : parseInt i32 Gen.Native.tryI32.notALiteral = .error .invalidDigit := by decide
  have n2 : parseInt isize Gen.Native.tryIsize.notALiteral = .error .invalidDigit := by decide
  have n3 : parseInt usize Gen.Native.tryUsize.notALiteral = .error .invalidDigit := by decide
  have n4 : parseBool Gen.Native.tryBool.notALiteral = .error () := by decide
  refine ⟨?_, ?_, ?_, ?_, ?_, ?_, ?_, ?_⟩
  · intro h
    unfold i32TryFromTerm isizeTryFromTerm usizeTryFromTerm boolTryFromTerm tryFromTermWith
    rw [h]; exact ⟨n1, n2, n3, n4⟩
  · intro h
    unfold i32TryFromTerm tryFromTermWith
    cases lexicalForm t with
    | none => exact n1
    | some lex => simp only [h]; exact w1
  · intro h
    unfold isizeTryFromTerm tryFromTermWith
    cases lexicalForm t with
    | none => exact n2
    | some lex => simp only [h]; exact w2
  · intro h
    unfold usizeTryFromTerm tryFromTermWith
    cases lexicalForm t with
    | none => exact n3
    | some lex => simp only [h]; exact w3
  · intro h
    unfold boolTryFromTerm tryFromTermWith
    cases lexicalForm t with
    | none => exact n4
    | some lex => simp only [h]; exact w4
  · intro v h; obtain ⟨_, _, _, _, _, _, _, hr, _⟩ := (i32_parse_denotes t v).mp h; exact hr
  · intro v h; obtain ⟨_, _, _, _, _, _, _, hr, _⟩ := (isize_parse_denotes t v).mp h; exact hr
  · intro v h; obtain ⟨_, _, _, _, _, _, _, hr, _⟩ := (usize_parse_denotes t v).mp h; exact hr

/-- **whitelist_sound** — every datatype an integer type accepts is an XSD type derived from
`xsd:integer` (value space ⊆ ℤ, lexical space ⊆ `L(xsd:integer)`), is declared in `ns.rs`, and its
value space meets the native type's range (no entry that could only ever yield wrong successes);
`f64` accepts only real-valued XSD types; `bool` only `xsd:boolean`. Decided over the generated
tables against the hand table `Xsd.integerDerived`. -/
theorem whitelist_sound :
    (∀ n ∈ Gen.Native.tryI32.whitelist, n ∈ Gen.Native.xsdNames ∧
      ∃ b, Xsd.boundsOf n = some b ∧ Xsd.intersects b i32.min i32.max = true) ∧
    (∀ n ∈ Gen.Native.tryIsize.whitelist, n ∈ Gen.Native.xsdNames ∧
      ∃ b, Xsd.boundsOf n = some b ∧ Xsd.intersects b isize.min isize.max = true) ∧
    (∀ n ∈ Gen.Native.tryUsize.whitelist, n ∈ Gen.Native.xsdNames ∧
      ∃ b, Xsd.boundsOf n = some b ∧ Xsd.intersects b usize.min usize.max = true) ∧
    (∀ n ∈ Gen.Native.tryF64.whitelist, n ∈ Gen.Native.xsdNames ∧ n ∈ Xsd.realValued) ∧
    Gen.Native.tryBool.whitelist = ["boolean".toList] := by
  have key : ∀ (wl : List Str) (lo hi : Int),
      (wl.all fun n => Gen.Native.xsdNames.contains n &&
        (match Xsd.boundsOf n with | some b => Xsd.intersects b lo hi | none => false)) = true →
      ∀ n ∈ wl, n ∈ Gen.Native.xsdNames ∧ ∃ b, Xsd.boundsOf n = some b ∧ Xsd.intersects b lo hi = true := by
    intro wl lo hi h n hn
    rw [List.all_eq_true] at h
    have := h n hn
    simp only [Bool.and_eq_true, List.contains_iff_mem] at this
    refine ⟨this.1, ?_⟩
    cases hb : Xsd.boundsOf n with
    | none => rw [hb] at this; simp at this
    | some b => rw [hb] at this; exact ⟨b, rfl, this.2⟩
  refine ⟨key _ _ _ (by decide), key _ _ _ (by decide), key _ _ _ (by decide), ?_, by decide⟩
  have h : (Gen.Native.tryF64.whitelist.all fun n =>
      Gen.Native.xsdNames.contains n && Xsd.realValued.contains n) = true := by decide
  intro n hn
  rw [List.all_eq_true] at h
  have := h n hn
  simpa [List.contains_iff_mem] using this

/-- the *own* datatype of each native type is on its own whitelist (needed for the round trip) -/
theorem own_datatype_whitelisted :
    Gen.Native.asI32.datatype ∈ Gen.Native.tryI32.whitelist ∧
    Gen.Native.asIsize.datatype ∈ Gen.Native.tryIsize.whitelist ∧
    Gen.Native.asUsize.datatype ∈ Gen.Native.tryUsize.whitelist ∧
    Gen.Native.asBool.datatype ∈ Gen.Native.tryBool.whitelist ∧
    Gen.Native.asF64.datatype ∈ Gen.Native.tryF64.whitelist := by decide

/-- OBSERVATION (not counted as a violation): success does not imply that the literal is well-typed
for its *own* datatype — the facets of the derived type are not checked.  Statement that would say
so, and its refutation. -/
def IntParseWellTyped : Prop :=
  ∀ t v, i32TryFromTerm t = .ok v → ∀ name, t.datatype = some (xsdIri name) →
    ∀ b, Xsd.boundsOf name = some b → Xsd.intersects b v v = true

theorem int_parse_welltyped_refuted : ¬ IntParseWellTyped := by
  intro h
  have := h (.lit "-5".toList (xsdIri "positiveInteger".toList)) (-5) (by decide)
    "positiveInteger".toList rfl (some 1, none) (by decide)
  revert this; decide

/-! ## `bool` -/

/-- **bool_lexical_valid** -/
theorem bool_lexical_valid (b : Bool) :
    boolTerm b = .lit (boolLex Gen.Native.asBool b) (xsdIri "boolean".toList) ∧
    Matches Xsd.boolean (cps (boolLex Gen.Native.asBool b)) := by
  cases b <;> exact ⟨by decide, by decide⟩

/-- **bool_roundtrip** -/
theorem bool_roundtrip (b : Bool) : boolTryFromTerm (boolTerm b) = .ok b := by
  cases b <;> decide

theorem parseBool_ok {s : Str} {v : Bool} (h : parseBool s = .ok v) :
    Matches Xsd.boolean (cps s) ∧ Xsd.boolVal s = some v := by
  unfold parseBool at h
  split at h
  · rename_i hs; subst hs; injection h with h; subst h; exact ⟨by decide, by decide⟩
  · split at h
    · rename_i hs; subst hs; injection h with h; subst h; exact ⟨by decide, by decide⟩
    · cases h

/-- **bool_parse_denotes** — success ⇒ literal typed `xsd:boolean` (the only whitelisted name, see
`whitelist_sound`) whose lexical form is valid and denotes the result.  (`"1"`/`"0"` are valid XSD
forms that `bool::from_str` refuses: an error, which the property allows.) -/
theorem bool_parse_denotes (t : Term) (v : Bool) (h : boolTryFromTerm t = .ok v) :
    ∃ lex name, lexicalForm t = some lex ∧ name ∈ Gen.Native.tryBool.whitelist ∧
      t.datatype = some (xsdIri name) ∧ Matches Xsd.boolean (cps lex) ∧ Xsd.boolVal lex = some v := by
  have w : parseBool Gen.Native.tryBool.wrongDatatype = .error () := by decide
  have n : parseBool Gen.Native.tryBool.notALiteral = .error () := by decide
  unfold boolTryFromTerm tryFromTermWith at h
  cases hl : lexicalForm t with
  | none => rw [hl] at h; simp only at h; rw [n] at h; cases h
  | some lex =>
    rw [hl] at h
    simp only at h
    by_cases ha : accepted Gen.Native.tryBool t = true
    · rw [if_pos ha] at h
      obtain ⟨name, hname, hdt⟩ := (accepted_iff _ t).mp ha
      obtain ⟨h1, h2⟩ := parseBool_ok h
      exact ⟨lex, name, rfl, hname, hdt, h1, h2⟩
    · rw [if_neg ha, w] at h; cases h

example : boolTryFromTerm (.lit "1".toList (xsdIri "boolean".toList)) = .error () := by decide
example : boolTryFromTerm (.lit "true".toList (xsdIri "string".toList)) = .error () := by decide

/-! ## `str` -/

/-- a `str` is the literal with itself as lexical form, typed `xsd:string` -/
theorem str_term_shape (s : Str) : strTerm s = .lit s (xsdIri "string".toList) := by
  have h : Gen.Native.asStr.datatype = "string".toList := by decide
  unfold strTerm asTerm strLex; rw [h]

/-- `Char` of XML 1.1 (⊇ `Char` of XML 1.0, see `Xsd.xmlChar`) -/
def IsXmlChar (c : Nat) : Prop :=
  (0x1 ≤ c ∧ c ≤ 0xD7FF) ∨ (0xE000 ≤ c ∧ c ≤ 0xFFFD) ∨ (0x10000 ≤ c ∧ c ≤ 0x10FFFF)

theorem inCls_xmlChar (c : Nat) :
    inCls [(0x1, 0xD7FF), (0xE000, 0xFFFD), (0x10000, 0x10FFFF)] c = true ↔ IsXmlChar c := by
  simp [inCls, IsXmlChar]

/-- **str_lexical_valid** characterised: the lexical form of a `str` is in `L(xsd:string)` iff all its
characters are XML `Char`s -/
theorem str_lexical_valid_iff (s : Str) :
    Matches Xsd.string (cps s) ↔ ∀ c ∈ s, IsXmlChar c.toNat := by
  unfold Xsd.string Xsd.xmlChar
  rw [star_cls_iff]
  constructor
  · intro h c hc; exact (inCls_xmlChar _).mp (h _ (List.mem_map.mpr ⟨c, hc, rfl⟩))
  · intro h x hx
    obtain ⟨c, hc, rfl⟩ := List.mem_map.mp hx
    exact (inCls_xmlChar _).mpr (h c hc)

/-- the part of `str_lexical_valid` that holds -/
theorem str_lexical_valid_partial (s : Str) (h : ∀ c ∈ s, IsXmlChar c.toNat) :
    Matches Xsd.string (cps s) := (str_lexical_valid_iff s).mpr h

/-- the full statement `∀ s, Matches Xsd.string (cps s)` is refuted by a Rust `str` containing U+0000 -/
theorem str_nul_invalid : ¬ ∀ s : Str, Matches Xsd.string (cps s) := by
  intro h
  have := h [Char.ofNat 0]
  revert this; decide

example : Matches Xsd.string (cps "hello wörld\n\t𐀀".toList) := by decide

/-! ## `f64` -/

/-- H1–H4: the contract of `core`'s `impl Display for f64` / `impl FromStr for f64` that the proofs
assume (`fmt`, `parse` work on bit patterns `< 2^64`).  Validated against the real implementation by
the harness on every run (edge table + random doubles; `h3` request for H3/H4). -/
structure StdF64 (fmt : F64 → Str) (parse : Str → Except Unit F64) : Prop where
  /-- H1: finite values print as `-?[0-9]+(\.[0-9]+)?` (never an exponent) -/
  H1 : ∀ x, x < 2 ^ 64 → F64.isFinite x = true → Matches Xsd.rustFiniteDisplay (cps (fmt x))
  /-- H2: printing then parsing a finite value is the identity on bit patterns (incl. `-0.0`) -/
  H2 : ∀ x, x < 2 ^ 64 → F64.isFinite x = true → parse (fmt x) = .ok x
  /-- H3: non-finite values print as `inf`, `-inf`, `NaN` -/
  H3 : fmt F64.posInf = "inf".toList ∧ fmt F64.negInf = "-inf".toList ∧
       ∀ x, F64.isNaN x = true → fmt x = "NaN".toList
  /-- H4: `inf`/`nan` are parsed case-insensitively with an optional sign -/
  H4 : parse "inf".toList = .ok F64.posInf ∧ parse "-inf".toList = .ok F64.negInf ∧
       parse "INF".toList = .ok F64.posInf ∧ parse "-INF".toList = .ok F64.negInf ∧
       ∃ y, parse "NaN".toList = .ok y ∧ F64.isNaN y = true

theorem star_of_plus {a : Re} {w : List Nat} (h : Matches (plus a) w) : Matches (.star a) w := by
  unfold plus at h
  rw [matches_cat] at h
  obtain ⟨u, v, rfl, h1, h2⟩ := h
  exact .starS h1 h2

/-- `-?[0-9]+(\.[0-9]+)?  ⊆  L(xsd:double)`: proved by hand on the denotational semantics (kernel only; the
verified decision procedure gives the same answer, see `rustFiniteDisplay_incl_double_decided`) -/
theorem rustFiniteDisplay_incl_double : ∀ w, Matches Xsd.rustFiniteDisplay w → Matches Xsd.double w := by
  intro w h
  have h' : Matches (.cat (opt (chr '-')) (.cat (plus Xsd.digit) (opt (.cat (chr '.') (plus Xsd.digit))))) w := h
  rw [matches_cat] at h'
  obtain ⟨u, v, rfl, h1, h2⟩ := h'
  rw [matches_cat] at h2
  obtain ⟨d, f, rfl, hd, hf⟩ := h2
  -- the sign
  have hs : Matches (opt Xsd.sign) u := by
    unfold opt at h1 ⊢
    rw [matches_alt] at h1
    rcases h1 with h1 | h1
    · unfold chr at h1
      rw [matches_cls] at h1
      obtain ⟨c, rfl, hc⟩ := h1
      have : c = 45 := by
        have : 45 ≤ c ∧ c ≤ 45 := by simpa [inCls] using hc
        omega
      subst this
      exact .altL (.cls ((sign_iff 45).mpr (.inr rfl)))
    · exact .altR h1
  -- the fraction
  have hfr : Matches (opt (.cat (chr '.') (.star Xsd.digit))) f := by
    unfold opt at hf ⊢
    rw [matches_alt] at hf
    rcases hf with hf | hf
    · rw [matches_cat] at hf
      obtain ⟨p, q, rfl, hp, hq⟩ := hf
      exact .altL (.cat hp (star_of_plus hq))
    · exact .altR hf
  have hdec : Matches Xsd.decimalNoSign (d ++ f) := .altL (.cat hd hfr)
  have hnum : Matches Xsd.doubleNumeric (u ++ ((d ++ f) ++ [])) := .cat hs (.cat hdec (.altR .eps))
  rw [List.append_nil] at hnum
  exact .altL hnum
/-- the same inclusion through the verified decision procedure (cross-check of the procedure; `native_decide`) -/
theorem rustFiniteDisplay_incl_double_decided : ∀ w, Matches Xsd.rustFiniteDisplay w → Matches Xsd.double w :=
  decideIncl_sound _ _ (by native_decide)

/-- … and it never collides with the special values -/
theorem rustFiniteDisplay_disj_special : ∀ w, ¬ (Matches Xsd.rustFiniteDisplay w ∧ Matches Xsd.doubleSpecial w) :=
  decideDisj_sound _ _ (by native_decide)

theorem f64_datatype : Gen.Native.asF64.datatype = "double".toList := by decide

theorem f64Lex_finite (a : Gen.Native.AsTerm) (fmt : F64 → Str) (x : F64) (hf : F64.isFinite x = true) :
    f64Lex a fmt x = fmt x := by
  unfold f64Lex
  have h1 : F64.isNaN x = false := by
    unfold F64.isNaN; unfold F64.isFinite at hf; simp at hf ⊢; intro h; exact absurd h hf
  have h2 : F64.isInfinite x = false := by
    unfold F64.isInfinite; unfold F64.isFinite at hf; simp at hf ⊢; intro h; exact absurd h hf
  cases a.lex <;> simp [h1, h2]

/-- **f64_finite_valid** — H1 ⇒ every finite `f64` used as a term has a lexical form in `L(xsd:double)`
(whatever shape `lexical_form` has among those the extractor accepts) -/
theorem f64_finite_valid {fmt parse} (H : StdF64 fmt parse) (x : F64) (hx : x < 2 ^ 64)
    (hf : F64.isFinite x = true) :
    f64Term fmt x = .lit (fmt x) (xsdIri "double".toList) ∧ Matches Xsd.double (cps (fmt x)) := by
  refine ⟨?_, rustFiniteDisplay_incl_double _ (H.H1 x hx hf)⟩
  unfold f64Term asTerm
  rw [f64Lex_finite _ _ _ hf, f64_datatype]

/-- **f64_roundtrip** — H2 ⇒ every finite `f64` (incl. `-0.0`, subnormals, `f64::MAX`) converts back
to the same bit pattern -/
theorem f64_roundtrip {fmt parse} (H : StdF64 fmt parse) (x : F64) (hx : x < 2 ^ 64)
    (hf : F64.isFinite x = true) : f64TryFromTerm parse (f64Term fmt x) = .ok x := by
  unfold f64TryFromTerm f64Term
  rw [tryFrom_asTerm _ _ _ _ own_datatype_whitelisted.2.2.2.2, f64Lex_finite _ _ _ hf]
  exact H.H2 x hx hf

/-- class of a non-finite bit pattern -/
def classOf (x : F64) : Xsd.Special :=
  if F64.isNaN x then .nan else if F64.signBit x then .negInf else .posInf

/-- **f64_nonfinite_valid** (the full statement for non-finite values): the lexical form is in
`L(xsd:double)` and denotes the value -/
def F64NonfiniteValid (a : Gen.Native.AsTerm) (fmt : F64 → Str) : Prop :=
  ∀ x, x < 2 ^ 64 → F64.isFinite x = false →
    Matches Xsd.double (cps (f64Lex a fmt x)) ∧ Xsd.specialVal (f64Lex a fmt x) = some (classOf x)

/-- what `Display for f64` prints for non-finite values is not XSD: `inf`, `-inf` are outside
`L(xsd:double)` (only `NaN` is fine) -/
theorem std_display_nonfinite_invalid :
    ¬ Matches Xsd.double (cps "inf".toList) ∧ ¬ Matches Xsd.double (cps "-inf".toList) ∧
    Matches Xsd.double (cps "NaN".toList) := by decide

theorem posInf_facts : F64.posInf < 2 ^ 64 ∧ F64.isFinite F64.posInf = false ∧ F64.isNaN F64.posInf = false ∧
    F64.isInfinite F64.posInf = true ∧ F64.signBit F64.posInf = false := by decide
theorem negInf_facts : F64.negInf < 2 ^ 64 ∧ F64.isFinite F64.negInf = false ∧ F64.isNaN F64.negInf = false ∧
    F64.isInfinite F64.negInf = true ∧ F64.signBit F64.negInf = true := by decide
theorem qNaN_facts : F64.qNaN < 2 ^ 64 ∧ F64.isFinite F64.qNaN = false ∧ F64.isNaN F64.qNaN = true := by decide

/-- REFUTATION of `f64_nonfinite_valid` for the shape of the unrepaired tree: when `lexical_form` is
`format!("{}", self)` for every value, `f64::INFINITY` is the literal `"inf"^^xsd:double` -/
theorem f64_nonfinite_refuted_of_display {fmt parse} (H : StdF64 fmt parse) (a : Gen.Native.AsTerm)
    (ha : a.lex = .display) : ¬ F64NonfiniteValid a fmt := by
  intro h
  have := (h F64.posInf posInf_facts.1 posInf_facts.2.1).1
  have e : f64Lex a fmt F64.posInf = "inf".toList := by unfold f64Lex; rw [ha]; exact H.H3.1
  rw [e] at this
  exact std_display_nonfinite_invalid.1 this

/-- the three strings a special-casing `lexical_form` must use -/
def xsdSpecialOK (nan inf ninf : Str) : Bool :=
  Xsd.specialVal nan == some .nan && Xsd.specialVal inf == some .posInf && Xsd.specialVal ninf == some .negInf

theorem specialVal_matches {s : Str} {k : Xsd.Special} (h : Xsd.specialVal s = some k) :
    Matches Xsd.double (cps s) := by
  unfold Xsd.specialVal at h
  split at h
  · rename_i hs; rcases hs with rfl | rfl <;> decide
  · split at h
    · rename_i hs; subst hs; decide
    · split at h
      · rename_i hs; subst hs; decide
      · cases h

theorem nonfinite_cases (x : F64) (hf : F64.isFinite x = false) :
    F64.isNaN x = true ∨ (F64.isNaN x = false ∧ F64.isInfinite x = true) := by
  unfold F64.isFinite at hf
  unfold F64.isNaN F64.isInfinite
  cases h : (F64.mantBits x != 0) <;> simp_all

/-- **f64_nonfinite_valid_iff** — the full statement holds exactly when `lexical_form` special-cases the
non-finite values with XSD spellings (`NaN`; `INF` or `+INF`; `-INF`) -/
theorem f64_nonfinite_valid_iff {fmt parse} (H : StdF64 fmt parse) (a : Gen.Native.AsTerm) :
    F64NonfiniteValid a fmt ↔
      ∃ nan inf ninf, a.lex = .displaySpecial nan inf ninf ∧ xsdSpecialOK nan inf ninf = true := by
  constructor
  · intro h
    cases ha : a.lex with
    | displaySpecial nan inf ninf =>
      refine ⟨nan, inf, ninf, rfl, ?_⟩
      have h1 := (h F64.qNaN qNaN_facts.1 qNaN_facts.2.1).2
      have h2 := (h F64.posInf posInf_facts.1 posInf_facts.2.1).2
      have h3 := (h F64.negInf negInf_facts.1 negInf_facts.2.1).2
      unfold f64Lex at h1 h2 h3
      rw [ha] at h1 h2 h3
      simp only [qNaN_facts.2.2, if_true] at h1
      simp only [posInf_facts.2.2.1, posInf_facts.2.2.2.1, posInf_facts.2.2.2.2, Bool.false_eq_true, if_false, if_true,
        Bool.not_false] at h2
      simp only [negInf_facts.2.2.1, negInf_facts.2.2.2.1, negInf_facts.2.2.2.2, Bool.false_eq_true, if_false, if_true,
        Bool.not_true] at h3
      have c1 : classOf F64.qNaN = .nan := by decide
      have c2 : classOf F64.posInf = .posInf := by decide
      have c3 : classOf F64.negInf = .negInf := by decide
      rw [c1] at h1; rw [c2] at h2; rw [c3] at h3
      simp [xsdSpecialOK, h1, h2, h3]
    | display =>
      exact absurd h (f64_nonfinite_refuted_of_display H a ha)
    | identity =>
      exfalso
      have := (h F64.posInf posInf_facts.1 posInf_facts.2.1).1
      have e : f64Lex a fmt F64.posInf = "inf".toList := by unfold f64Lex; rw [ha]; exact H.H3.1
      rw [e] at this; exact std_display_nonfinite_invalid.1 this
    | boolTable t f =>
      exfalso
      have := (h F64.posInf posInf_facts.1 posInf_facts.2.1).1
      have e : f64Lex a fmt F64.posInf = "inf".toList := by unfold f64Lex; rw [ha]; exact H.H3.1
      rw [e] at this; exact std_display_nonfinite_invalid.1 this
  · rintro ⟨nan, inf, ninf, ha, hok⟩ x _ hf
    simp only [xsdSpecialOK, Bool.and_eq_true, beq_iff_eq] at hok
    obtain ⟨⟨h1, h2⟩, h3⟩ := hok
    unfold f64Lex classOf
    rw [ha]
    rcases nonfinite_cases x hf with hn | ⟨hn, hi⟩
    · simp only [hn, if_true]; exact ⟨specialVal_matches h1, h1⟩
    · cases hs : F64.signBit x
      · simp [hn, hi]; exact ⟨specialVal_matches h2, h2⟩
      · simp [hn, hi]; exact ⟨specialVal_matches h3, h3⟩

/-- the conditional theorem in the form the finding's repair is judged by: with the XSD spellings
`NaN` / `INF` / `-INF` the statement holds -/
theorem f64_nonfinite_valid_of_special {fmt parse} (H : StdF64 fmt parse) (a : Gen.Native.AsTerm)
    (ha : a.lex = .displaySpecial "NaN".toList "INF".toList "-INF".toList) : F64NonfiniteValid a fmt :=
  (f64_nonfinite_valid_iff H a).mpr ⟨_, _, _, ha, by decide⟩

/-- **f64_nonfinite_roundtrip** — ±∞ convert back to themselves and NaN to a NaN, both for the
`display` shape (`inf` is parsed back: the round trip is *not* what fails on the unrepaired tree) and
for the repaired shape (H4: `INF` is parsed case-insensitively) -/
theorem f64_nonfinite_roundtrip {fmt parse} (H : StdF64 fmt parse)
    (ha : Gen.Native.asF64.lex = .display ∨
          Gen.Native.asF64.lex = .displaySpecial "NaN".toList "INF".toList "-INF".toList) :
    f64TryFromTerm parse (f64Term fmt F64.posInf) = .ok F64.posInf ∧
    f64TryFromTerm parse (f64Term fmt F64.negInf) = .ok F64.negInf ∧
    ∀ x, F64.isNaN x = true → ∃ y, f64TryFromTerm parse (f64Term fmt x) = .ok y ∧ F64.isNaN y = true := by
  obtain ⟨h3a, h3b, h3c⟩ := H.H3
  obtain ⟨h4a, h4b, h4c, h4d, y, h4e, hy⟩ := H.H4
  unfold f64TryFromTerm f64Term
  simp only [tryFrom_asTerm _ _ _ _ own_datatype_whitelisted.2.2.2.2]
  unfold f64Lex
  rcases ha with ha | ha <;> rw [ha]
  · refine ⟨by rw [h3a]; exact h4a, by rw [h3b]; exact h4b, ?_⟩
    intro x hx; exact ⟨y, by simp only; rw [h3c x hx]; exact h4e, hy⟩
  · refine ⟨?_, ?_, ?_⟩
    · simp only [posInf_facts.2.2.1, posInf_facts.2.2.2.1, posInf_facts.2.2.2.2, Bool.false_eq_true, if_false, if_true,
        Bool.not_false]; exact h4c
    · simp only [negInf_facts.2.2.1, negInf_facts.2.2.2.1, negInf_facts.2.2.2.2, Bool.false_eq_true, if_false, if_true,
        Bool.not_true]; exact h4d
    · intro x hx; exact ⟨y, by simp only [hx, if_true]; exact h4e, hy⟩

/-- the shape read from the current tree is one of the two the theorems above speak about -/
theorem f64_shape_known :
    Gen.Native.asF64.lex = .display ∨
    Gen.Native.asF64.lex = .displaySpecial "NaN".toList "INF".toList "-INF".toList := by decide

/-! ### H1–H4 are satisfiable (by a non-trivial pair: a printer/parser of the *bit pattern* in decimal;
not Rust's, but a witness that `StdF64` is consistent and the theorems above are not vacuous) -/

def bits64 : IntTy := ⟨false, 0, 18446744073709551615⟩

def toyFmt (x : F64) : Str :=
  if F64.isNaN x then ['N', 'a', 'N']
  else if x = F64.posInf then ['i', 'n', 'f']
  else if x = F64.negInf then ['-', 'i', 'n', 'f']
  else showNat x

def toyParse (s : Str) : Except Unit F64 :=
  if s = ['N', 'a', 'N'] then .ok F64.qNaN
  else if s = ['i', 'n', 'f'] ∨ s = ['I', 'N', 'F'] then .ok F64.posInf
  else if s = ['-', 'i', 'n', 'f'] ∨ s = ['-', 'I', 'N', 'F'] then .ok F64.negInf
  else match parseInt bits64 s with
    | .ok v => .ok v.toNat
    | .error _ => .error ()

theorem finite_not_special (x : F64) (hf : F64.isFinite x = true) :
    F64.isNaN x = false ∧ x ≠ F64.posInf ∧ x ≠ F64.negInf := by
  refine ⟨?_, ?_, ?_⟩
  · unfold F64.isNaN; unfold F64.isFinite at hf; simp at hf ⊢; intro h; exact absurd h hf
  · rintro rfl; revert hf; decide
  · rintro rfl; revert hf; decide

theorem toy_std : StdF64 toyFmt toyParse := by
  refine ⟨?_, ?_, ⟨by decide, by decide, ?_⟩, ⟨by decide, by decide, by decide, by decide, F64.qNaN, by decide, by decide⟩⟩
  · intro x _ hf
    obtain ⟨h1, h2, h3⟩ := finite_not_special x hf
    unfold toyFmt
    rw [h1, if_neg (by simp), if_neg h2, if_neg h3]
    -- [0-9]+ ⊆ -?[0-9]+(\.[0-9]+)?
    have hd : Matches (plus Xsd.digit) (cps (showNat x)) := by
      rw [plus_digit_iff]
      refine ⟨by simpa [cps] using showNat_ne_nil x, ?_⟩
      intro c hc
      obtain ⟨y, hy, rfl⟩ := List.mem_map.mp hc
      exact showNat_isDigit _ y hy
    have := Matches.cat (a := opt (chr '-')) (b := .cat (plus Xsd.digit) (opt (.cat (chr '.') (plus Xsd.digit))))
      (Matches.altR Matches.eps) (Matches.cat hd (Matches.altR Matches.eps))
    have e : [] ++ (cps (showNat x) ++ []) = cps (showNat x) := by simp
    rw [e] at this
    exact this
  · intro x hx hf
    obtain ⟨h1, h2, h3⟩ := finite_not_special x hf
    have hd : ∀ c ∈ showNat x, isDigitCp c.toNat := showNat_isDigit x
    have hne := showNat_ne_nil x
    have e : toyFmt x = showNat x := by unfold toyFmt; rw [h1, if_neg (by simp), if_neg h2, if_neg h3]
    rw [e]
    -- a digit string is none of the special spellings
    have first : ∀ s : Str, (∃ c rest, s = c :: rest ∧ ¬ isDigitCp c.toNat) → showNat x ≠ s := by
      rintro s ⟨c, rest, rfl, hc⟩ h
      exact hc (hd c (by rw [h]; exact List.mem_cons_self ..))
    have nd : ∀ c : Char, c = 'N' ∨ c = 'i' ∨ c = 'I' ∨ c = '-' → ¬ isDigitCp c.toNat := by
      rintro c (rfl | rfl | rfl | rfl) <;> (unfold isDigitCp; decide)
    unfold toyParse
    rw [if_neg (first _ ⟨'N', _, rfl, nd _ (.inl rfl)⟩),
        if_neg (by rintro (h | h); exact first _ ⟨'i', _, rfl, nd _ (.inr (.inl rfl))⟩ h;
                   exact first _ ⟨'I', _, rfl, nd _ (.inr (.inr (.inl rfl)))⟩ h),
        if_neg (by rintro (h | h); exact first _ ⟨'-', _, rfl, nd _ (.inr (.inr (.inr rfl)))⟩ h;
                   exact first _ ⟨'-', _, rfl, nd _ (.inr (.inr (.inr rfl)))⟩ h)]
    have hx' : @LT.lt Nat _ x 18446744073709551616 := hx
    have hr : bits64.InRange (x : Int) := by
      unfold IntTy.InRange bits64; simp only; constructor <;> omega
    have := parseInt_showInt (ty := bits64) ⟨by decide, by decide, by decide⟩ hr
    have e2 : showInt (x : Int) = showNat x := by unfold showInt; simp
    rw [e2] at this
    rw [this]; simp
  · intro x hx; unfold toyFmt; rw [hx]; rfl

-- the theorems instantiate: for the toy pair, every finite bit pattern is valid and round-trips
example : Matches Xsd.double (cps (toyFmt 0x3ff0000000000000)) :=
  (f64_finite_valid toy_std _ (by decide) (by decide)).2

end SophiaProofs.C20
