/-
C20 — native Rust values map to valid typed literals and back without loss.

Everything is stated over `SophiaModel.Native` (the functions `smd_C20` executes) and over
`Gen.Native.*`, the whitelists / datatypes / lexical-form shapes regenerated from
`api/src/term/_native_literal.rs` on every run.  No theorem below mentions a tree-specific constant
other than through `Gen.Native`, so a change of the source that keeps the property keeps the file
compiling, and one that breaks a statement breaks the corresponding proof.

Integers, `bool`, `str`: all values, no hypotheses.
`f64`: `core`'s float printing/parsing is a parameter (`fmt`, `parse`) constrained by `StdF64`
(H1–H4 of DESIGN §4.20); the harness re-validates H1–H4 on the real implementation on every run.

FINDINGS carried here (kernel-checked):
* `f64_nonfinite_valid` is REFUTED for the shape `display` (`format!("{}", self)` for every value, the
  shape of the unrepaired tree): `f64_nonfinite_refuted_of_display`, because `"inf" ∉ L(xsd:double)`
  (`std_display_nonfinite_invalid`).  It holds exactly for the special-casing shape with XSD spellings:
  `f64_nonfinite_valid_iff`.
* `str_lexical_valid` holds only for strings of XML `Char`s (`str_lexical_valid_partial`,
  `str_lexical_valid_iff`); `"\u{0}"` (also U+FFFE, U+FFFF) is a Rust `str` outside `L(xsd:string)`
  (`str_nul_invalid`).
* `f64_parse_denotes` (success ⇒ the value the lexical form denotes) holds only below an exponent of
  655360 (`f64_parse_denotes_partial`): `core`'s `dec2flt` reads the exponent with a bounded accumulator
  that DROPS digits (`expClamped`, `expClamped_limit_witness`), so
  `f64::try_from_term("0.<655359 zeros>1e655360"^^xsd:double)` is `Ok(0.0)` for a literal denoting 1
  (differential corpus case; a kernel witness would need a 655 KB string).
* success on ill-typed literals: `int_parse_denotes` gives the value under the `xsd:integer` mapping, NOT
  membership in the datatype's own value space; `int_parse_welltyped_refuted` is the witness
  (`"-5"^^xsd:positiveInteger ↦ Ok(-5)`).  Recorded as an observation, not as a violation.
-/
import SophiaProofs.Lemmas.Native

namespace SophiaProofs.C20
open SophiaModel SophiaModel.Native SophiaModel.Re SophiaProofs.Native

/-- code points of a string -/
abbrev cps (s : Str) : List Nat := s.map Char.toNat

/-! ## integers: `i32`, `isize`, `usize` -/

theorem i32_sane : i32.Sane := ⟨by decide, by decide, by decide⟩
theorem isize_sane : isize.Sane := ⟨by decide, by decide, by decide⟩
theorem usize_sane : usize.Sane := ⟨by decide, by decide, by decide⟩

/-- the datatype of the three integer impls is `xsd:integer` and their lexical form is `Display` -/
theorem int_term_shape (n : Int) :
    i32Term n = .lit (showInt n) (xsdIri "integer".toList) ∧
    isizeTerm n = .lit (showInt n) (xsdIri "integer".toList) ∧
    usizeTerm n = .lit (showInt n) (xsdIri "integer".toList) := by
  have h1 : Gen.Native.asI32.datatype = "integer".toList := by decide
  have h2 : Gen.Native.asIsize.datatype = "integer".toList := by decide
  have h3 : Gen.Native.asUsize.datatype = "integer".toList := by decide
  refine ⟨?_, ?_, ?_⟩
  · unfold i32Term asTerm intLex; rw [h1]; cases Gen.Native.asI32.lex <;> rfl
  · unfold isizeTerm asTerm intLex; rw [h2]; cases Gen.Native.asIsize.lex <;> rfl
  · unfold usizeTerm asTerm intLex; rw [h3]; cases Gen.Native.asUsize.lex <;> rfl

/-- **int_lexical_valid** — for every integer (hence every `i32`, `isize`, `usize`) what `Display`
prints is in the lexical space of `xsd:integer` -/
theorem int_lexical_valid (n : Int) : Matches Xsd.integer (cps (showInt n)) := by
  rw [integer_iff]
  unfold showInt
  by_cases h : n < 0
  · rw [if_pos h]
    refine ⟨cps (showNat n.natAbs), .inr (.inr (by simp [cps, minus_toNat])), ?_, ?_⟩
    · simpa [cps] using showNat_ne_nil _
    · intro x hx
      obtain ⟨y, hy, rfl⟩ := List.mem_map.mp hx
      exact showNat_isDigit _ y hy
  · rw [if_neg h]
    refine ⟨cps (showNat n.natAbs), .inl rfl, ?_, ?_⟩
    · simpa [cps] using showNat_ne_nil _
    · intro x hx
      obtain ⟨y, hy, rfl⟩ := List.mem_map.mp hx
      exact showNat_isDigit _ y hy

/-- the lexical form of the term itself (not only of `showInt`) is valid -/
theorem int_term_lexical_valid (n : Int) :
    (∃ lex, lexicalForm (i32Term n) = some lex ∧ Matches Xsd.integer (cps lex)) ∧
    (∃ lex, lexicalForm (isizeTerm n) = some lex ∧ Matches Xsd.integer (cps lex)) ∧
    (∃ lex, lexicalForm (usizeTerm n) = some lex ∧ Matches Xsd.integer (cps lex)) := by
  obtain ⟨h1, h2, h3⟩ := int_term_shape n
  rw [h1, h2, h3]
  exact ⟨⟨_, rfl, int_lexical_valid n⟩, ⟨_, rfl, int_lexical_valid n⟩, ⟨_, rfl, int_lexical_valid n⟩⟩

theorem datatypeIs_self (lex name : Str) : datatypeIs (.lit lex (xsdIri name)) name = true := by
  simp [datatypeIs, Term.datatype]

/-- a native value's own datatype is on the whitelist ⇒ `try_from_term` reaches `lex.parse()` -/
theorem tryFrom_asTerm {ε α : Type} (cfg : Gen.Native.TryFrom) (a : Gen.Native.AsTerm)
    (parse : Str → Except ε α) (lex : Str) (h : a.datatype ∈ cfg.whitelist) :
    tryFromTermWith cfg parse (asTerm a lex) = parse lex := by
  unfold tryFromTermWith asTerm
  simp only [lexicalForm]
  have : accepted cfg (.lit lex (xsdIri a.datatype)) = true := by
    unfold accepted
    rw [List.any_eq_true]
    exact ⟨a.datatype, h, datatypeIs_self _ _⟩
  rw [if_pos this]

/-- **int_roundtrip** (i32): every `i32`, used as a term, converts back to itself -/
theorem i32_roundtrip (n : Int) (h : i32.InRange n) : i32TryFromTerm (i32Term n) = .ok n := by
  unfold i32TryFromTerm i32Term
  rw [tryFrom_asTerm _ _ _ _ (by decide)]
  have : intLex Gen.Native.asI32 n = showInt n := by unfold intLex; cases Gen.Native.asI32.lex <;> rfl
  rw [this]; exact parseInt_showInt i32_sane h

/-- **int_roundtrip** (isize) -/
theorem isize_roundtrip (n : Int) (h : isize.InRange n) : isizeTryFromTerm (isizeTerm n) = .ok n := by
  unfold isizeTryFromTerm isizeTerm
  rw [tryFrom_asTerm _ _ _ _ (by decide)]
  have : intLex Gen.Native.asIsize n = showInt n := by unfold intLex; cases Gen.Native.asIsize.lex <;> rfl
  rw [this]; exact parseInt_showInt isize_sane h

/-- **int_roundtrip** (usize) -/
theorem usize_roundtrip (n : Int) (h : usize.InRange n) : usizeTryFromTerm (usizeTerm n) = .ok n := by
  unfold usizeTryFromTerm usizeTerm
  rw [tryFrom_asTerm _ _ _ _ (by decide)]
  have : intLex Gen.Native.asUsize n = showInt n := by unfold intLex; cases Gen.Native.asUsize.lex <;> rfl
  rw [this]; exact parseInt_showInt usize_sane h

-- non-vacuity: the extremes are in range and round-trip through the executable model
example : i32.InRange (-2147483648) ∧ i32TryFromTerm (i32Term (-2147483648)) = .ok (-2147483648) :=
  ⟨by decide, i32_roundtrip _ (by decide)⟩
example : usize.InRange 18446744073709551615 := by decide
example : ¬ usize.InRange (-1) := by decide

/-- what a successful integer conversion means: the term is a literal whose datatype is one of the
whitelisted names, its lexical form is in `L(xsd:integer)`, the result is the value the XSD
lexical-to-value mapping assigns, and it is in the native type's range -/
def IntDenotes (ty : IntTy) (cfg : Gen.Native.TryFrom) (t : Term) (v : Int) : Prop :=
  ∃ lex name, lexicalForm t = some lex ∧ name ∈ cfg.whitelist ∧ t.datatype = some (xsdIri name) ∧
    Matches Xsd.integer (cps lex) ∧ Xsd.intVal lex = v ∧ ty.InRange v ∧
    (ty.signed = false → lex.head? ≠ some '-')

theorem accepted_iff (cfg : Gen.Native.TryFrom) (t : Term) :
    accepted cfg t = true ↔ ∃ name, name ∈ cfg.whitelist ∧ t.datatype = some (xsdIri name) := by
  unfold accepted datatypeIs
  rw [List.any_eq_true]
  constructor
  · rintro ⟨n, hn, h⟩; exact ⟨n, hn, by simpa using h⟩
  · rintro ⟨n, hn, h⟩; exact ⟨n, hn, by simp [h]⟩

/-- generic form of `int_parse_denotes` + completeness: success is *characterised* -/
theorem int_try_ok_iff {ty : IntTy} (hs : ty.Sane) {cfg : Gen.Native.TryFrom}
    (hw : ∃ e, parseInt ty cfg.wrongDatatype = .error e) (hn : ∃ e, parseInt ty cfg.notALiteral = .error e)
    (t : Term) (v : Int) :
    tryFromTermWith cfg (parseInt ty) t = .ok v ↔ IntDenotes ty cfg t v := by
  unfold tryFromTermWith IntDenotes
  cases hl : lexicalForm t with
  | none =>
    simp only
    obtain ⟨e, he⟩ := hn
    rw [he]
    constructor
    · intro h; cases h
    · rintro ⟨lex, _, h, _⟩; cases h
  | some lex =>
    simp only
    by_cases ha : accepted cfg t = true
    · rw [if_pos ha]
      obtain ⟨name, hname, hdt⟩ := (accepted_iff cfg t).mp ha
      constructor
      · intro h
        obtain ⟨h1, h2, h3, h4⟩ := parseInt_ok h
        exact ⟨lex, name, rfl, hname, hdt, h1, h2, h3, h4⟩
      · rintro ⟨lex', _, hl', _, _, h1, h2, h3, h4⟩
        injection hl' with hl'
        subst hl'
        rw [← h2]
        exact parseInt_complete hs h1 (h2 ▸ h3) h4
    · rw [if_neg ha]
      obtain ⟨e, he⟩ := hw
      rw [he]
      constructor
      · intro h; cases h
      · rintro ⟨_, name, _, hname, hdt, _⟩
        exact absurd ((accepted_iff cfg t).mpr ⟨name, hname, hdt⟩) ha

/-- **int_parse_denotes** (i32), with its converse: `i32::try_from_term(t)` is `Ok(v)` exactly when `t`
is a literal of a whitelisted datatype whose lexical form is a valid `xsd:integer` form denoting `v`
and `v` fits — signed (`+5`, `-0`), padded (`007`) forms included; out-of-range and malformed forms
are errors -/
theorem i32_parse_denotes (t : Term) (v : Int) :
    i32TryFromTerm t = .ok v ↔ IntDenotes i32 Gen.Native.tryI32 t v :=
  int_try_ok_iff i32_sane ⟨.invalidDigit, by decide⟩ ⟨.invalidDigit, by decide⟩ t v

theorem isize_parse_denotes (t : Term) (v : Int) :
    isizeTryFromTerm t = .ok v ↔ IntDenotes isize Gen.Native.tryIsize t v :=
  int_try_ok_iff isize_sane ⟨.invalidDigit, by decide⟩ ⟨.invalidDigit, by decide⟩ t v

theorem usize_parse_denotes (t : Term) (v : Int) :
    usizeTryFromTerm t = .ok v ↔ IntDenotes usize Gen.Native.tryUsize t v :=
  int_try_ok_iff usize_sane ⟨.invalidDigit, by decide⟩ ⟨.invalidDigit, by decide⟩ t v

-- non-vacuity: signed / padded / out-of-range / malformed / wrong datatype / not a literal
example : i32TryFromTerm (.lit "+007".toList (xsdIri "unsignedByte".toList)) = .ok 7 := by decide
example : i32TryFromTerm (.lit "-0".toList (xsdIri "integer".toList)) = .ok 0 := by decide
example : i32TryFromTerm (.lit "2147483648".toList (xsdIri "long".toList)) = .error .posOverflow := by decide
example : i32TryFromTerm (.lit "-2147483649".toList (xsdIri "long".toList)) = .error .negOverflow := by decide
example : usizeTryFromTerm (.lit "-0".toList (xsdIri "integer".toList)) = .error .invalidDigit := by decide
example : i32TryFromTerm (.lit "".toList (xsdIri "integer".toList)) = .error .empty := by decide
example : i32TryFromTerm (.lit "1".toList (xsdIri "byte".toList)) = .error .invalidDigit := by decide
example : i32TryFromTerm (.lang "1".toList "en".toList) = .error .invalidDigit := by decide
example : i32TryFromTerm (.iri (xsdIri "integer".toList)) = .error .invalidDigit := by decide

/-- **no_panic** — `try_from_term` is total (a Lean function; the two partial operations of the Rust
code are `term.datatype().unwrap()`, reached only when `lexical_form()` is `Some`, i.e. on literals,
which always have a datatype, and `str::parse`, which returns `Err`).  Every outcome is classified:
not a literal / datatype not whitelisted ⇒ the error of parsing the sentinel (`InvalidDigit`);
whitelisted ⇒ `Ok(v)` with `v` in range, or `Empty` / `InvalidDigit` / `PosOverflow` / `NegOverflow`. -/
theorem no_panic (t : Term) :
    (lexicalForm t = none → i32TryFromTerm t = .error .invalidDigit ∧
        isizeTryFromTerm t = .error .invalidDigit ∧ usizeTryFromTerm t = .error .invalidDigit ∧
        boolTryFromTerm t = .error ()) ∧
    (accepted Gen.Native.tryI32 t = false → i32TryFromTerm t = .error .invalidDigit) ∧
    (accepted Gen.Native.tryIsize t = false → isizeTryFromTerm t = .error .invalidDigit) ∧
    (accepted Gen.Native.tryUsize t = false → usizeTryFromTerm t = .error .invalidDigit) ∧
    (accepted Gen.Native.tryBool t = false → boolTryFromTerm t = .error ()) ∧
    (∀ v, i32TryFromTerm t = .ok v → i32.InRange v) ∧
    (∀ v, isizeTryFromTerm t = .ok v → isize.InRange v) ∧
    (∀ v, usizeTryFromTerm t = .ok v → usize.InRange v) := by
  have w1 : parseInt i32 Gen.Native.tryI32.wrongDatatype = .error .invalidDigit := by decide
  have w2 : parseInt isize Gen.Native.tryIsize.wrongDatatype = .error .invalidDigit := by decide
  have w3 : parseInt usize Gen.Native.tryUsize.wrongDatatype = .error .invalidDigit := by decide
  have w4 : parseBool Gen.Native.tryBool.wrongDatatype = .error () := by decide
  have n1 : parseInt i32 Gen.Native.tryI32.notALiteral = .error .invalidDigit := by decide
  have n2 : parseInt isize Gen.Native.tryIsize.notALiteral = .error .invalidDigit := by decide
  have n3 : parseInt usize Gen.Native.tryUsize.notALiteral = .error .invalidDigit := by decide
  have n4 : parseBool Gen.Native.tryBool.notALiteral = .error () := by decide
  refine ⟨?_, ?_, ?_, ?_, ?_, ?_, ?_, ?_⟩
  · intro h
    unfold i32TryFromTerm isizeTryFromTerm usizeTryFromTerm boolTryFromTerm tryFromTermWith
    rw [h]; exact ⟨n1, n2, n3, n4⟩
  · intro h
    unfold i32TryFromTerm tryFromTermWith
    cases lexicalForm t with
    | none => exact n1
    | some lex => simp only [h]; exact w1
  · intro h
    unfold isizeTryFromTerm tryFromTermWith
    cases lexicalForm t with
    | none => exact n2
    | some lex => simp only [h]; exact w2
  · intro h
    unfold usizeTryFromTerm tryFromTermWith
    cases lexicalForm t with
    | none => exact n3
    | some lex => simp only [h]; exact w3
  · intro h
    unfold boolTryFromTerm tryFromTermWith
    cases lexicalForm t with
    | none => exact n4
    | some lex => simp only [h]; exact w4
  · intro v h; obtain ⟨_, _, _, _, _, _, _, hr, _⟩ := (i32_parse_denotes t v).mp h; exact hr
  · intro v h; obtain ⟨_, _, _, _, _, _, _, hr, _⟩ := (isize_parse_denotes t v).mp h; exact hr
  · intro v h; obtain ⟨_, _, _, _, _, _, _, hr, _⟩ := (usize_parse_denotes t v).mp h; exact hr

/-! ### `no_panic` with the partial operation made explicit: ANY implementation of the `Term` trait

`tryFromViewWith` is the same skeleton over what the trait lets the code observe, with
`term.datatype().unwrap()` as an outcome.  The conversion unwinds exactly on the views that break the
trait's contract (a lexical form but no datatype); the view of every well-formed term is not one of
them, and there the outcome is the one of the total functions above (so every theorem about
`…TryFromTerm` is a theorem about the `View` skeleton on well-formed terms). -/

theorem view_panic_iff {ε α : Type} (cfg : Gen.Native.TryFrom) (parse : Str → Except ε α) (v : View) :
    tryFromViewWith cfg parse v = .panic ↔ (v.lex ≠ none ∧ v.dt = none) := by
  unfold tryFromViewWith
  cases hl : v.lex with
  | none =>
    simp only
    constructor
    · intro h; cases hp : parse cfg.notALiteral <;> rw [hp] at h <;> cases h
    · rintro ⟨h, _⟩; exact absurd rfl h
  | some lex =>
    cases hd : v.dt with
    | none => simp
    | some d =>
      simp only
      constructor
      · intro h
        split at h
        · cases hp : parse lex <;> rw [hp] at h <;> cases h
        · cases hp : parse cfg.wrongDatatype <;> rw [hp] at h <;> cases h
      · rintro ⟨_, h⟩; cases h

theorem lexicalForm_datatype {t : Term} {lex : Str} (h : lexicalForm t = some lex) : ∃ d, t.datatype = some d := by
  cases t <;> simp [lexicalForm] at h <;> simp [Term.datatype]

theorem view_of_term {ε α : Type} (cfg : Gen.Native.TryFrom) (parse : Str → Except ε α) (t : Term) :
    tryFromViewWith cfg parse (viewOf t) = .ofExcept (tryFromTermWith cfg parse t) := by
  unfold tryFromViewWith tryFromTermWith viewOf
  cases hl : lexicalForm t with
  | none => simp
  | some lex =>
    obtain ⟨d, hd⟩ := lexicalForm_datatype hl
    simp only [hd]
    have : accepted cfg t = cfg.whitelist.any (fun n => d == xsdIri n) := by
      unfold accepted datatypeIs
      rw [hd]
      congr 1
    rw [this]
    split <;> rfl

/-- **no_panic** (all five native types, every well-formed term): the outcome is never `panic` -/
theorem no_panic_any_term (t : Term) :
    tryFromViewWith Gen.Native.tryI32 (parseInt i32) (viewOf t) ≠ .panic ∧
    tryFromViewWith Gen.Native.tryIsize (parseInt isize) (viewOf t) ≠ .panic ∧
    tryFromViewWith Gen.Native.tryUsize (parseInt usize) (viewOf t) ≠ .panic ∧
    tryFromViewWith Gen.Native.tryBool parseBool (viewOf t) ≠ .panic ∧
    tryFromViewWith Gen.Native.tryF64 RustF64.parse (viewOf t) ≠ .panic := by
  have key : ∀ {ε α : Type} (cfg : Gen.Native.TryFrom) (parse : Str → Except ε α),
      tryFromViewWith cfg parse (viewOf t) ≠ .panic := by
    intro ε α cfg parse h
    rw [view_of_term] at h
    cases hp : tryFromTermWith cfg parse t <;> rw [hp] at h <;> cases h
  exact ⟨key _ _, key _ _, key _ _, key _ _, key _ _⟩

-- non-vacuity: the panic is real on a contract-breaking view, and the skeleton computes on a proper one
example : tryFromViewWith Gen.Native.tryI32 (parseInt i32) ⟨some "5".toList, none⟩ = .panic := by decide
example : tryFromViewWith Gen.Native.tryI32 (parseInt i32) ⟨some "5".toList, some (xsdIri "int".toList)⟩ = .ok 5 := by
  decide
example : tryFromViewWith Gen.Native.tryBool parseBool ⟨none, none⟩ = .err () := by decide

/-- **whitelist_sound** — every datatype an integer type accepts is an XSD type on which reading an
`xsd:integer` lexical form gives the value the datatype's own mapping gives (`Xsd.intCompatible`: the
types derived from `xsd:integer`, and `xsd:decimal`), is declared in `ns.rs`, and its
value space meets the native type's range (no entry that could only ever yield wrong successes);
`f64` accepts only real-valued XSD types; `bool` only `xsd:boolean`. Decided over the generated
tables against the hand table `Xsd.intCompatible`. -/
theorem whitelist_sound :
    (∀ n ∈ Gen.Native.tryI32.whitelist, n ∈ Gen.Native.xsdNames ∧
      ∃ b, Xsd.compatBoundsOf n = some b ∧ Xsd.intersects b i32.min i32.max = true) ∧
    (∀ n ∈ Gen.Native.tryIsize.whitelist, n ∈ Gen.Native.xsdNames ∧
      ∃ b, Xsd.compatBoundsOf n = some b ∧ Xsd.intersects b isize.min isize.max = true) ∧
    (∀ n ∈ Gen.Native.tryUsize.whitelist, n ∈ Gen.Native.xsdNames ∧
      ∃ b, Xsd.compatBoundsOf n = some b ∧ Xsd.intersects b usize.min usize.max = true) ∧
    (∀ n ∈ Gen.Native.tryF64.whitelist, n ∈ Gen.Native.xsdNames ∧ n ∈ Xsd.realValued) ∧
    Gen.Native.tryBool.whitelist = ["boolean".toList] := by
  have key : ∀ (wl : List Str) (lo hi : Int),
      (wl.all fun n => Gen.Native.xsdNames.contains n &&
        (match Xsd.compatBoundsOf n with | some b => Xsd.intersects b lo hi | none => false)) = true →
      ∀ n ∈ wl, n ∈ Gen.Native.xsdNames ∧ ∃ b, Xsd.compatBoundsOf n = some b ∧ Xsd.intersects b lo hi = true := by
    intro wl lo hi h n hn
    rw [List.all_eq_true] at h
    have := h n hn
    simp only [Bool.and_eq_true, List.contains_iff_mem] at this
    refine ⟨this.1, ?_⟩
    cases hb : Xsd.compatBoundsOf n with
    | none => rw [hb] at this; simp at this
    | some b => rw [hb] at this; exact ⟨b, rfl, this.2⟩
  refine ⟨key _ _ _ (by decide), key _ _ _ (by decide), key _ _ _ (by decide), ?_, by decide⟩
  have h : (Gen.Native.tryF64.whitelist.all fun n =>
      Gen.Native.xsdNames.contains n && Xsd.realValued.contains n) = true := by decide
  intro n hn
  rw [List.all_eq_true] at h
  have := h n hn
  simpa [List.contains_iff_mem] using this

/-- the *own* datatype of each native type is on its own whitelist (needed for the round trip) -/
theorem own_datatype_whitelisted :
    Gen.Native.asI32.datatype ∈ Gen.Native.tryI32.whitelist ∧
    Gen.Native.asIsize.datatype ∈ Gen.Native.tryIsize.whitelist ∧
    Gen.Native.asUsize.datatype ∈ Gen.Native.tryUsize.whitelist ∧
    Gen.Native.asBool.datatype ∈ Gen.Native.tryBool.whitelist ∧
    Gen.Native.asF64.datatype ∈ Gen.Native.tryF64.whitelist := by decide

/-- OBSERVATION (not counted as a violation): success does not imply that the literal is well-typed
for its *own* datatype — the facets of the derived type are not checked.  Statement that would say
so, and its refutation. -/
def IntParseWellTyped : Prop :=
  ∀ t v, i32TryFromTerm t = .ok v → ∀ name, t.datatype = some (xsdIri name) →
    ∀ b, Xsd.boundsOf name = some b → Xsd.intersects b v v = true

theorem int_parse_welltyped_refuted : ¬ IntParseWellTyped := by
  intro h
  have := h (.lit "-5".toList (xsdIri "positiveInteger".toList)) (-5) (by decide)
    "positiveInteger".toList rfl (some 1, none) (by decide)
  revert this; decide

/-! ## `bool` -/

/-- **bool_lexical_valid** -/
theorem bool_lexical_valid (b : Bool) :
    boolTerm b = .lit (boolLex Gen.Native.asBool b) (xsdIri "boolean".toList) ∧
    Matches Xsd.boolean (cps (boolLex Gen.Native.asBool b)) := by
  cases b <;> exact ⟨by decide, by decide⟩

/-- **bool_roundtrip** -/
theorem bool_roundtrip (b : Bool) : boolTryFromTerm (boolTerm b) = .ok b := by
  cases b <;> decide

theorem parseBool_ok {s : Str} {v : Bool} (h : parseBool s = .ok v) :
    Matches Xsd.boolean (cps s) ∧ Xsd.boolVal s = some v := by
  unfold parseBool at h
  split at h
  · rename_i hs; subst hs; injection h with h; subst h; exact ⟨by decide, by decide⟩
  · split at h
    · rename_i hs; subst hs; injection h with h; subst h; exact ⟨by decide, by decide⟩
    · cases h

/-- **bool_parse_denotes** — success ⇒ literal typed `xsd:boolean` (the only whitelisted name, see
`whitelist_sound`) whose lexical form is valid and denotes the result.  (`"1"`/`"0"` are valid XSD
forms that `bool::from_str` refuses: an error, which the property allows.) -/
theorem bool_parse_denotes (t : Term) (v : Bool) (h : boolTryFromTerm t = .ok v) :
    ∃ lex name, lexicalForm t = some lex ∧ name ∈ Gen.Native.tryBool.whitelist ∧
      t.datatype = some (xsdIri name) ∧ Matches Xsd.boolean (cps lex) ∧ Xsd.boolVal lex = some v := by
  have w : parseBool Gen.Native.tryBool.wrongDatatype = .error () := by decide
  have n : parseBool Gen.Native.tryBool.notALiteral = .error () := by decide
  unfold boolTryFromTerm tryFromTermWith at h
  cases hl : lexicalForm t with
  | none => rw [hl] at h; simp only at h; rw [n] at h; cases h
  | some lex =>
    rw [hl] at h
    simp only at h
    by_cases ha : accepted Gen.Native.tryBool t = true
    · rw [if_pos ha] at h
      obtain ⟨name, hname, hdt⟩ := (accepted_iff _ t).mp ha
      obtain ⟨h1, h2⟩ := parseBool_ok h
      exact ⟨lex, name, rfl, hname, hdt, h1, h2⟩
    · rw [if_neg ha, w] at h; cases h

example : boolTryFromTerm (.lit "1".toList (xsdIri "boolean".toList)) = .error () := by decide
example : boolTryFromTerm (.lit "true".toList (xsdIri "string".toList)) = .error () := by decide

/-! ## `str` -/

/-- a `str` is the literal with itself as lexical form, typed `xsd:string` -/
theorem str_term_shape (s : Str) : strTerm s = .lit s (xsdIri "string".toList) := by
  have h : Gen.Native.asStr.datatype = "string".toList := by decide
  unfold strTerm asTerm strLex; rw [h]

/-- `Char` of XML 1.1 (⊇ `Char` of XML 1.0, see `Xsd.xmlChar`) -/
def IsXmlChar (c : Nat) : Prop :=
  (0x1 ≤ c ∧ c ≤ 0xD7FF) ∨ (0xE000 ≤ c ∧ c ≤ 0xFFFD) ∨ (0x10000 ≤ c ∧ c ≤ 0x10FFFF)

theorem inCls_xmlChar (c : Nat) :
    inCls [(0x1, 0xD7FF), (0xE000, 0xFFFD), (0x10000, 0x10FFFF)] c = true ↔ IsXmlChar c := by
  simp [inCls, IsXmlChar]

/-- **str_lexical_valid** characterised: the lexical form of a `str` is in `L(xsd:string)` iff all its
characters are XML `Char`s -/
theorem str_lexical_valid_iff (s : Str) :
    Matches Xsd.string (cps s) ↔ ∀ c ∈ s, IsXmlChar c.toNat := by
  unfold Xsd.string Xsd.xmlChar
  rw [star_cls_iff]
  constructor
  · intro h c hc; exact (inCls_xmlChar _).mp (h _ (List.mem_map.mpr ⟨c, hc, rfl⟩))
  · intro h x hx
    obtain ⟨c, hc, rfl⟩ := List.mem_map.mp hx
    exact (inCls_xmlChar _).mpr (h c hc)

/-- the part of `str_lexical_valid` that holds -/
theorem str_lexical_valid_partial (s : Str) (h : ∀ c ∈ s, IsXmlChar c.toNat) :
    Matches Xsd.string (cps s) := (str_lexical_valid_iff s).mpr h

/-- the full statement `∀ s, Matches Xsd.string (cps s)` is refuted by a Rust `str` containing U+0000 -/
theorem str_nul_invalid : ¬ ∀ s : Str, Matches Xsd.string (cps s) := by
  intro h
  have := h [Char.ofNat 0]
  revert this; decide

example : Matches Xsd.string (cps "hello wörld\n\t𐀀".toList) := by decide

/-! ## `f64` -/

/-- H1–H4: the contract of `core`'s `impl Display for f64` / `impl FromStr for f64` that the proofs
assume (`fmt`, `parse` work on bit patterns `< 2^64`).  Validated against the real implementation by
the harness on every run (edge table + random doubles; `h3` request for H3/H4). -/
structure StdF64 (fmt : F64 → Str) (parse : Str → Except Unit F64) : Prop where
  /-- H1: finite values print as `-?[0-9]+(\.[0-9]+)?` (never an exponent) -/
  H1 : ∀ x, x < 2 ^ 64 → F64.isFinite x = true → Matches Xsd.rustFiniteDisplay (cps (fmt x))
  /-- H2: printing then parsing a finite value is the identity on bit patterns (incl. `-0.0`) -/
  H2 : ∀ x, x < 2 ^ 64 → F64.isFinite x = true → parse (fmt x) = .ok x
  /-- H3: non-finite values print as `inf`, `-inf`, `NaN` -/
  H3 : fmt F64.posInf = "inf".toList ∧ fmt F64.negInf = "-inf".toList ∧
       ∀ x, F64.isNaN x = true → fmt x = "NaN".toList
  /-- H4: `inf`/`nan` are parsed case-insensitively with an optional sign -/
  H4 : parse "inf".toList = .ok F64.posInf ∧ parse "-inf".toList = .ok F64.negInf ∧
       parse "INF".toList = .ok F64.posInf ∧ parse "-INF".toList = .ok F64.negInf ∧
       ∃ y, parse "NaN".toList = .ok y ∧ F64.isNaN y = true

theorem star_of_plus {a : Re} {w : List Nat} (h : Matches (plus a) w) : Matches (.star a) w := by
  unfold plus at h
  rw [matches_cat] at h
  obtain ⟨u, v, rfl, h1, h2⟩ := h
  exact .starS h1 h2

/-- `-?[0-9]+(\.[0-9]+)?  ⊆  L(xsd:double)`: proved by hand on the denotational semantics (kernel only; the
verified decision procedure gives the same answer, see `rustFiniteDisplay_incl_double_decided`) -/
theorem rustFiniteDisplay_incl_double : ∀ w, Matches Xsd.rustFiniteDisplay w → Matches Xsd.double w := by
  intro w h
  have h' : Matches (.cat (opt (chr '-')) (.cat (plus Xsd.digit) (opt (.cat (chr '.') (plus Xsd.digit))))) w := h
  rw [matches_cat] at h'
  obtain ⟨u, v, rfl, h1, h2⟩ := h'
  rw [matches_cat] at h2
  obtain ⟨d, f, rfl, hd, hf⟩ := h2
  -- the sign
  have hs : Matches (opt Xsd.sign) u := by
    unfold opt at h1 ⊢
    rw [matches_alt] at h1
    rcases h1 with h1 | h1
    · unfold chr at h1
      rw [matches_cls] at h1
      obtain ⟨c, rfl, hc⟩ := h1
      have : c = 45 := by
        have : 45 ≤ c ∧ c ≤ 45 := by simpa [inCls] using hc
        omega
      subst this
      exact .altL (.cls ((sign_iff 45).mpr (.inr rfl)))
    · exact .altR h1
  -- the fraction
  have hfr : Matches (opt (.cat (chr '.') (.star Xsd.digit))) f := by
    unfold opt at hf ⊢
    rw [matches_alt] at hf
    rcases hf with hf | hf
    · rw [matches_cat] at hf
      obtain ⟨p, q, rfl, hp, hq⟩ := hf
      exact .altL (.cat hp (star_of_plus hq))
    · exact .altR hf
  have hdec : Matches Xsd.decimalNoSign (d ++ f) := .altL (.cat hd hfr)
  have hnum : Matches Xsd.doubleNumeric (u ++ ((d ++ f) ++ [])) := .cat hs (.cat hdec (.altR .eps))
  rw [List.append_nil] at hnum
  exact .altL hnum
/-- the same inclusion through the verified decision procedure (cross-check of the procedure; `native_decide`) -/
theorem rustFiniteDisplay_incl_double_decided : ∀ w, Matches Xsd.rustFiniteDisplay w → Matches Xsd.double w :=
  decideIncl_sound _ _ (by native_decide)

/-- … and it never collides with the special values -/
theorem rustFiniteDisplay_disj_special : ∀ w, ¬ (Matches Xsd.rustFiniteDisplay w ∧ Matches Xsd.doubleSpecial w) :=
  decideDisj_sound _ _ (by native_decide)

theorem f64_datatype : Gen.Native.asF64.datatype = "double".toList := by decide

theorem f64Lex_finite (a : Gen.Native.AsTerm) (fmt : F64 → Str) (x : F64) (hf : F64.isFinite x = true) :
    f64Lex a fmt x = fmt x := by
  unfold f64Lex
  have h1 : F64.isNaN x = false := by
    unfold F64.isNaN; unfold F64.isFinite at hf; simp at hf ⊢; intro h; exact absurd h hf
  have h2 : F64.isInfinite x = false := by
    unfold F64.isInfinite; unfold F64.isFinite at hf; simp at hf ⊢; intro h; exact absurd h hf
  cases a.lex <;> simp [h1, h2]

/-- **f64_finite_valid** — H1 ⇒ every finite `f64` used as a term has a lexical form in `L(xsd:double)`
(whatever shape `lexical_form` has among those the extractor accepts) -/
theorem f64_finite_valid {fmt parse} (H : StdF64 fmt parse) (x : F64) (hx : x < 2 ^ 64)
    (hf : F64.isFinite x = true) :
    f64Term fmt x = .lit (fmt x) (xsdIri "double".toList) ∧ Matches Xsd.double (cps (fmt x)) := by
  refine ⟨?_, rustFiniteDisplay_incl_double _ (H.H1 x hx hf)⟩
  unfold f64Term asTerm
  rw [f64Lex_finite _ _ _ hf, f64_datatype]

/-- **f64_roundtrip** — H2 ⇒ every finite `f64` (incl. `-0.0`, subnormals, `f64::MAX`) converts back
to the same bit pattern -/
theorem f64_roundtrip {fmt parse} (H : StdF64 fmt parse) (x : F64) (hx : x < 2 ^ 64)
    (hf : F64.isFinite x = true) : f64TryFromTerm parse (f64Term fmt x) = .ok x := by
  unfold f64TryFromTerm f64Term
  rw [tryFrom_asTerm _ _ _ _ own_datatype_whitelisted.2.2.2.2, f64Lex_finite _ _ _ hf]
  exact H.H2 x hx hf

/-- class of a non-finite bit pattern -/
def classOf (x : F64) : Xsd.Special :=
  if F64.isNaN x then .nan else if F64.signBit x then .negInf else .posInf

/-- **f64_nonfinite_valid** (the full statement for non-finite values): the lexical form is in
`L(xsd:double)` and denotes the value -/
def F64NonfiniteValid (a : Gen.Native.AsTerm) (fmt : F64 → Str) : Prop :=
  ∀ x, x < 2 ^ 64 → F64.isFinite x = false →
    Matches Xsd.double (cps (f64Lex a fmt x)) ∧ Xsd.specialVal (f64Lex a fmt x) = some (classOf x)

/-- what `Display for f64` prints for non-finite values is not XSD: `inf`, `-inf` are outside
`L(xsd:double)` (only `NaN` is fine) -/
theorem std_display_nonfinite_invalid :
    ¬ Matches Xsd.double (cps "inf".toList) ∧ ¬ Matches Xsd.double (cps "-inf".toList) ∧
    Matches Xsd.double (cps "NaN".toList) := by decide

theorem posInf_facts : F64.posInf < 2 ^ 64 ∧ F64.isFinite F64.posInf = false ∧ F64.isNaN F64.posInf = false ∧
    F64.isInfinite F64.posInf = true ∧ F64.signBit F64.posInf = false := by decide
theorem negInf_facts : F64.negInf < 2 ^ 64 ∧ F64.isFinite F64.negInf = false ∧ F64.isNaN F64.negInf = false ∧
    F64.isInfinite F64.negInf = true ∧ F64.signBit F64.negInf = true := by decide
theorem qNaN_facts : F64.qNaN < 2 ^ 64 ∧ F64.isFinite F64.qNaN = false ∧ F64.isNaN F64.qNaN = true := by decide

/-- REFUTATION of `f64_nonfinite_valid` for the shape of the unrepaired tree: when `lexical_form` is
`format!("{}", self)` for every value, `f64::INFINITY` is the literal `"inf"^^xsd:double` -/
theorem f64_nonfinite_refuted_of_display {fmt parse} (H : StdF64 fmt parse) (a : Gen.Native.AsTerm)
    (ha : a.lex = .display) : ¬ F64NonfiniteValid a fmt := by
  intro h
  have := (h F64.posInf posInf_facts.1 posInf_facts.2.1).1
  have e : f64Lex a fmt F64.posInf = "inf".toList := by unfold f64Lex; rw [ha]; exact H.H3.1
  rw [e] at this
  exact std_display_nonfinite_invalid.1 this

/-- the three strings a special-casing `lexical_form` must use -/
def xsdSpecialOK (nan inf ninf : Str) : Bool :=
  Xsd.specialVal nan == some .nan && Xsd.specialVal inf == some .posInf && Xsd.specialVal ninf == some .negInf

theorem specialVal_matches {s : Str} {k : Xsd.Special} (h : Xsd.specialVal s = some k) :
    Matches Xsd.double (cps s) := by
  unfold Xsd.specialVal at h
  split at h
  · rename_i hs; rcases hs with rfl | rfl <;> decide
  · split at h
    · rename_i hs; subst hs; decide
    · split at h
      · rename_i hs; subst hs; decide
      · cases h

theorem nonfinite_cases (x : F64) (hf : F64.isFinite x = false) :
    F64.isNaN x = true ∨ (F64.isNaN x = false ∧ F64.isInfinite x = true) := by
  unfold F64.isFinite at hf
  unfold F64.isNaN F64.isInfinite
  cases h : (F64.mantBits x != 0) <;> simp_all

/-- **f64_nonfinite_valid_iff** — the full statement holds exactly when `lexical_form` special-cases the
non-finite values with XSD spellings (`NaN`; `INF` or `+INF`; `-INF`) -/
theorem f64_nonfinite_valid_iff {fmt parse} (H : StdF64 fmt parse) (a : Gen.Native.AsTerm) :
    F64NonfiniteValid a fmt ↔
      ∃ nan inf ninf, a.lex = .displaySpecial nan inf ninf ∧ xsdSpecialOK nan inf ninf = true := by
  constructor
  · intro h
    cases ha : a.lex with
    | displaySpecial nan inf ninf =>
      refine ⟨nan, inf, ninf, rfl, ?_⟩
      have h1 := (h F64.qNaN qNaN_facts.1 qNaN_facts.2.1).2
      have h2 := (h F64.posInf posInf_facts.1 posInf_facts.2.1).2
      have h3 := (h F64.negInf negInf_facts.1 negInf_facts.2.1).2
      unfold f64Lex at h1 h2 h3
      rw [ha] at h1 h2 h3
      simp only [qNaN_facts.2.2, if_true] at h1
      simp only [posInf_facts.2.2.1, posInf_facts.2.2.2.1, posInf_facts.2.2.2.2, Bool.false_eq_true, if_false, if_true,
        Bool.not_false] at h2
      simp only [negInf_facts.2.2.1, negInf_facts.2.2.2.1, negInf_facts.2.2.2.2, Bool.false_eq_true, if_false, if_true,
        Bool.not_true] at h3
      have c1 : classOf F64.qNaN = .nan := by decide
      have c2 : classOf F64.posInf = .posInf := by decide
      have c3 : classOf F64.negInf = .negInf := by decide
      rw [c1] at h1; rw [c2] at h2; rw [c3] at h3
      simp [xsdSpecialOK, h1, h2, h3]
    | display =>
      exact absurd h (f64_nonfinite_refuted_of_display H a ha)
    | identity =>
      exfalso
      have := (h F64.posInf posInf_facts.1 posInf_facts.2.1).1
      have e : f64Lex a fmt F64.posInf = "inf".toList := by unfold f64Lex; rw [ha]; exact H.H3.1
      rw [e] at this; exact std_display_nonfinite_invalid.1 this
    | boolTable t f =>
      exfalso
      have := (h F64.posInf posInf_facts.1 posInf_facts.2.1).1
      have e : f64Lex a fmt F64.posInf = "inf".toList := by unfold f64Lex; rw [ha]; exact H.H3.1
      rw [e] at this; exact std_display_nonfinite_invalid.1 this
  · rintro ⟨nan, inf, ninf, ha, hok⟩ x _ hf
    simp only [xsdSpecialOK, Bool.and_eq_true, beq_iff_eq] at hok
    obtain ⟨⟨h1, h2⟩, h3⟩ := hok
    unfold f64Lex classOf
    rw [ha]
    rcases nonfinite_cases x hf with hn | ⟨hn, hi⟩
    · simp only [hn, if_true]; exact ⟨specialVal_matches h1, h1⟩
    · cases hs : F64.signBit x
      · simp [hn, hi]; exact ⟨specialVal_matches h2, h2⟩
      · simp [hn, hi]; exact ⟨specialVal_matches h3, h3⟩

/-- the conditional theorem in the form the finding's repair is judged by: with the XSD spellings
`NaN` / `INF` / `-INF` the statement holds -/
theorem f64_nonfinite_valid_of_special {fmt parse} (H : StdF64 fmt parse) (a : Gen.Native.AsTerm)
    (ha : a.lex = .displaySpecial "NaN".toList "INF".toList "-INF".toList) : F64NonfiniteValid a fmt :=
  (f64_nonfinite_valid_iff H a).mpr ⟨_, _, _, ha, by decide⟩

/-- **f64_nonfinite_roundtrip** — ±∞ convert back to themselves and NaN to a NaN, both for the
`display` shape (`inf` is parsed back: the round trip is *not* what fails on the unrepaired tree) and
for the repaired shape (H4: `INF` is parsed case-insensitively) -/
theorem f64_nonfinite_roundtrip {fmt parse} (H : StdF64 fmt parse)
    (ha : Gen.Native.asF64.lex = .display ∨
          Gen.Native.asF64.lex = .displaySpecial "NaN".toList "INF".toList "-INF".toList) :
    f64TryFromTerm parse (f64Term fmt F64.posInf) = .ok F64.posInf ∧
    f64TryFromTerm parse (f64Term fmt F64.negInf) = .ok F64.negInf ∧
    ∀ x, F64.isNaN x = true → ∃ y, f64TryFromTerm parse (f64Term fmt x) = .ok y ∧ F64.isNaN y = true := by
  obtain ⟨h3a, h3b, h3c⟩ := H.H3
  obtain ⟨h4a, h4b, h4c, h4d, y, h4e, hy⟩ := H.H4
  unfold f64TryFromTerm f64Term
  simp only [tryFrom_asTerm _ _ _ _ own_datatype_whitelisted.2.2.2.2]
  unfold f64Lex
  rcases ha with ha | ha <;> rw [ha]
  · refine ⟨by rw [h3a]; exact h4a, by rw [h3b]; exact h4b, ?_⟩
    intro x hx; exact ⟨y, by simp only; rw [h3c x hx]; exact h4e, hy⟩
  · refine ⟨?_, ?_, ?_⟩
    · simp only [posInf_facts.2.2.1, posInf_facts.2.2.2.1, posInf_facts.2.2.2.2, Bool.false_eq_true, if_false, if_true,
        Bool.not_false]; exact h4c
    · simp only [negInf_facts.2.2.1, negInf_facts.2.2.2.1, negInf_facts.2.2.2.2, Bool.false_eq_true, if_false, if_true,
        Bool.not_true]; exact h4d
    · intro x hx; exact ⟨y, by simp only [hx, if_true]; exact h4e, hy⟩

/-- the shape read from the current tree is one of the two the theorems above speak about -/
theorem f64_shape_known :
    Gen.Native.asF64.lex = .display ∨
    Gen.Native.asF64.lex = .displaySpecial "NaN".toList "INF".toList "-INF".toList := by decide

theorem finite_not_special (x : F64) (hf : F64.isFinite x = true) :
    F64.isNaN x = false ∧ x ≠ F64.posInf ∧ x ≠ F64.negInf := by
  refine ⟨?_, ?_, ?_⟩
  · unfold F64.isNaN; unfold F64.isFinite at hf; simp at hf ⊢; intro h; exact absurd h hf
  · rintro rfl; revert hf; decide
  · rintro rfl; revert hf; decide

/-! ### the shape flag: the statements above that are conditional on the generated shape are instantiated on
the CURRENT tree, so a regression of `lexical_form` (back to `format!("{}", self)`, or to non-XSD spellings)
fails an obligation here and not only in the differential -/

/-- the generated shape special-cases the non-finite values with XSD spellings -/
def shapeOK (a : Gen.Native.AsTerm) : Bool :=
  match a.lex with
  | .displaySpecial nan inf ninf => xsdSpecialOK nan inf ninf
  | _ => false

theorem shapeOK_iff (a : Gen.Native.AsTerm) :
    shapeOK a = true ↔ ∃ nan inf ninf, a.lex = .displaySpecial nan inf ninf ∧ xsdSpecialOK nan inf ninf = true := by
  unfold shapeOK
  cases h : a.lex with
  | displaySpecial nan inf ninf =>
    constructor
    · intro hh; exact ⟨nan, inf, ninf, rfl, hh⟩
    · rintro ⟨_, _, _, he, hh⟩; injection he with h1 h2 h3; subst h1 h2 h3; exact hh
  | display => simp
  | identity => simp
  | boolTable t f => simp

theorem f64_shape_valid : shapeOK Gen.Native.asF64 = true := by decide

theorem f64_nonfinite_valid {fmt parse} (H : StdF64 fmt parse) : F64NonfiniteValid Gen.Native.asF64 fmt :=
  (f64_nonfinite_valid_iff H _).mpr ((shapeOK_iff _).mp f64_shape_valid)

theorem nonfinite_nonnan (x : F64) (hx : x < 2 ^ 64) (hf : F64.isFinite x = false) (hn : F64.isNaN x = false) :
    x = F64.posInf ∨ x = F64.negInf := by
  unfold F64.isFinite F64.isNaN F64.expBits F64.mantBits at *
  unfold F64.posInf F64.negInf
  simp at hf hn
  have hm := hn hf
  have hx' : @LT.lt Nat _ x 18446744073709551616 := hx
  have hf' : @Eq Nat (x / 4503599627370496 % 2048) 2047 := hf
  have hm' : @Eq Nat (x % 4503599627370496) 0 := hm
  show @Eq Nat x 9218868437227405312 ∨ @Eq Nat x 18442240474082181120
  omega

/-- the first sentence of the property for `f64`, all bit patterns, relative to the std contract -/
theorem f64_all_values {fmt parse} (H : StdF64 fmt parse) (x : F64) (hx : x < 2 ^ 64) :
    (∃ lex, f64Term fmt x = .lit lex (xsdIri "double".toList) ∧ Matches Xsd.double (cps lex)) ∧
    (∃ y, f64TryFromTerm parse (f64Term fmt x) = .ok y ∧
      (F64.isNaN x = false → y = x) ∧ (F64.isNaN x = true → F64.isNaN y = true)) := by
  cases hf : F64.isFinite x with
  | true =>
    obtain ⟨h1, h2⟩ := f64_finite_valid H x hx hf
    refine ⟨⟨_, h1, h2⟩, x, f64_roundtrip H x hx hf, fun _ => rfl, ?_⟩
    intro hn
    have := (finite_not_special x hf).1
    rw [this] at hn; cases hn
  | false =>
    have hv := f64_nonfinite_valid H x hx hf
    have hsh : f64Term fmt x = .lit (f64Lex Gen.Native.asF64 fmt x) (xsdIri "double".toList) := by
      unfold f64Term asTerm; rw [f64_datatype]
    obtain ⟨r1, r2, r3⟩ := f64_nonfinite_roundtrip H f64_shape_known
    refine ⟨⟨_, hsh, hv.1⟩, ?_⟩
    cases hn : F64.isNaN x with
    | true =>
      obtain ⟨y, hy1, hy2⟩ := r3 x hn
      exact ⟨y, hy1, fun h => Bool.noConfusion h, fun _ => hy2⟩
    | false =>
      rcases nonfinite_nonnan x hx hf hn with rfl | rfl
      · exact ⟨_, r1, fun _ => rfl, fun h => Bool.noConfusion h⟩
      · exact ⟨_, r2, fun _ => rfl, fun h => Bool.noConfusion h⟩

/-! ### arbitrary literals → `f64` (the executable model `RustF64` of `f64::from_str` that the driver runs) -/

/-- generic skeleton: success of `try_from_term` is success of `parse` on the lexical form of a literal of a
whitelisted datatype (given that the two sentinel strings do not parse) -/
theorem try_ok_iff {ε α : Type} (cfg : Gen.Native.TryFrom) (parse : Str → Except ε α)
    (hw : ∃ e, parse cfg.wrongDatatype = .error e) (hn : ∃ e, parse cfg.notALiteral = .error e)
    (t : Term) (v : α) :
    tryFromTermWith cfg parse t = .ok v ↔
      ∃ lex name, lexicalForm t = some lex ∧ name ∈ cfg.whitelist ∧ t.datatype = some (xsdIri name) ∧
        parse lex = .ok v := by
  unfold tryFromTermWith
  cases hl : lexicalForm t with
  | none =>
    simp only
    obtain ⟨e, he⟩ := hn
    rw [he]
    constructor
    · intro h; cases h
    · rintro ⟨_, _, h, _⟩; cases h
  | some lex =>
    simp only
    by_cases ha : accepted cfg t = true
    · rw [if_pos ha]
      obtain ⟨name, hname, hdt⟩ := (accepted_iff cfg t).mp ha
      constructor
      · intro h; exact ⟨lex, name, rfl, hname, hdt, h⟩
      · rintro ⟨lex', _, hl', _, _, h⟩
        injection hl' with hl'; subst hl'; exact h
    · rw [if_neg ha]
      obtain ⟨e, he⟩ := hw
      rw [he]
      constructor
      · intro h; cases h
      · rintro ⟨_, name, _, hname, hdt, _⟩
        exact absurd ((accepted_iff cfg t).mpr ⟨name, hname, hdt⟩) ha

theorem f64_sentinels :
    RustF64.parse Gen.Native.tryF64.wrongDatatype = .error .invalid ∧
    RustF64.parse Gen.Native.tryF64.notALiteral = .error .invalid := by decide

theorem f64_try_ok_iff (t : Term) (v : F64) :
    RustF64.tryFromTerm t = .ok v ↔
      ∃ lex name, lexicalForm t = some lex ∧ name ∈ Gen.Native.tryF64.whitelist ∧
        t.datatype = some (xsdIri name) ∧ RustF64.parse lex = .ok v :=
  try_ok_iff _ _ ⟨_, f64_sentinels.1⟩ ⟨_, f64_sentinels.2⟩ t v


-- non-vacuity
example : RustF64.tryFromTerm (.lit "-INF".toList (xsdIri "float".toList)) = .ok F64.negInf := by decide
example : RustF64.tryFromTerm (.lit "1".toList (xsdIri "integer".toList)) = .error .invalid := by decide

/-! exponent reader of `dec2flt` -/

theorem natOfDigits_foldl_ge (ds : Str) (a : Nat) :
    a ≤ ds.foldl (fun a c => a * 10 + (c.toNat - 48)) a := by
  induction ds generalizing a with
  | nil => exact Nat.le_refl _
  | cons c cs ih =>
    simp only [List.foldl_cons]
    exact Nat.le_trans (by omega) (ih _)

theorem expClamped_foldl_eq (ds : Str) (a : Nat)
    (h : ds.foldl (fun a c => a * 10 + (c.toNat - 48)) a < 655360) :
    ds.foldl (fun e c => if e < 0x10000 then e * 10 + (c.toNat - 48) else e) a =
    ds.foldl (fun a c => a * 10 + (c.toNat - 48)) a := by
  induction ds generalizing a with
  | nil => rfl
  | cons c cs ih =>
    simp only [List.foldl_cons] at h ⊢
    have hge := natOfDigits_foldl_ge cs (a * 10 + (c.toNat - 48))
    have ha : a < 0x10000 := by omega
    rw [if_pos ha]
    exact ih _ h

/-- `core` reads every exponent below 655360 exactly -/
theorem expClamped_exact_below_limit (ds : Str) (h : Dec.natOfDigits ds < RustF64.expClampLimit) :
    RustF64.expClamped ds = Dec.natOfDigits ds := by
  unfold RustF64.expClamped Dec.natOfDigits at *
  exact expClamped_foldl_eq ds 0 h

/-- … and misreads 655360 (as 65536): the limit is sharp -/
theorem expClamped_limit_witness :
    RustF64.expClamped "655360".toList = 65536 ∧ Dec.natOfDigits "655360".toList = RustF64.expClampLimit := by
  decide

theorem doubleOfNumericWith_congr (f g : Str → Nat) (s : Str) (h : f (Dec.expPart s).2 = g (Dec.expPart s).2) :
    Dec.doubleOfNumericWith f s = Dec.doubleOfNumericWith g s := by
  unfold Dec.doubleOfNumericWith
  rw [h]

theorem numeric_not_nil : Xsd.matchesS Xsd.doubleNumeric [] = false := by decide

/-- what a successful `f64::from_str` was given: one of the three syntactic classes of `dec2flt` -/
theorem f64_parse_ok_lexical {s : Str} {v : F64} (h : RustF64.parse s = .ok v) :
    Xsd.matchesS RustF64.numeric s = true ∨ Xsd.matchesS RustF64.infRe s = true ∨
      Xsd.matchesS RustF64.nanRe s = true := by
  unfold RustF64.parse at h
  split at h
  · cases h
  · split at h
    · rename_i h1; exact .inl h1
    · simp only at h
      split at h
      · rename_i h2; exact .inr (.inl h2)
      · split at h
        · rename_i h3; exact .inr (.inr h3)
        · cases h

theorem specialVal_cases {s : Str} {k : Xsd.Special} (h : Xsd.specialVal s = some k) :
    (k = .posInf ∧ (s = "INF".toList ∨ s = "+INF".toList)) ∨ (k = .negInf ∧ s = "-INF".toList) ∨
      (k = .nan ∧ s = "NaN".toList) := by
  unfold Xsd.specialVal at h
  split at h
  · rename_i hs; injection h with h; exact .inl ⟨h.symm, hs⟩
  · split at h
    · rename_i hs; injection h with h; exact .inr (.inl ⟨h.symm, hs⟩)
    · split at h
      · rename_i hs; injection h with h; exact .inr (.inr ⟨h.symm, hs⟩)
      · cases h

def F64Denoted (d : Option F64) (v : F64) : Prop :=
  match d with
  | some b => v = b
  | none => F64.isNaN v = true

theorem f64_parse_denotes_partial (s : Str) (d : Option F64)
    (hlim : Dec.natOfDigits (Dec.expPart s).2 < RustF64.expClampLimit)
    (hd : Dec.doubleVal s = some d) :
    ∃ v, RustF64.parse s = .ok v ∧ F64Denoted d v := by
  unfold Dec.doubleVal at hd
  split at hd
  · rename_i hnum
    injection hd with hd
    subst hd
    have hne : s ≠ [] := by rintro rfl; rw [numeric_not_nil] at hnum; cases hnum
    refine ⟨Dec.doubleOfNumeric s, ?_, rfl⟩
    unfold RustF64.parse
    rw [if_neg hne]
    have : Xsd.matchesS RustF64.numeric s = true := hnum
    rw [if_pos this]
    congr 1
    exact doubleOfNumericWith_congr _ _ s (expClamped_exact_below_limit _ hlim)
  · rename_i hnum
    split at hd
    · rename_i hk
      injection hd with hd; subst hd
      rcases specialVal_cases hk with ⟨_, rfl | rfl⟩ | ⟨h, _⟩ | ⟨h, _⟩
      · exact ⟨F64.posInf, by decide, rfl⟩
      · exact ⟨F64.posInf, by decide, rfl⟩
      · cases h
      · cases h
    · rename_i hk
      injection hd with hd; subst hd
      rcases specialVal_cases hk with ⟨h, _⟩ | ⟨_, rfl⟩ | ⟨h, _⟩
      · cases h
      · exact ⟨F64.negInf, by decide, rfl⟩
      · cases h
    · rename_i hk
      injection hd with hd; subst hd
      rcases specialVal_cases hk with ⟨h, _⟩ | ⟨h, _⟩ | ⟨_, rfl⟩
      · cases h
      · cases h
      · exact ⟨F64.qNaN, by decide, (by decide : F64.isNaN F64.qNaN = true)⟩
    · cases hd

/-- the FULL statement (no bound on the exponent).  Not provable: `expClamped_limit_witness` shows the
exponent 655360 is misread; a refutation needs a numeric form whose value is finite although its exponent
is that large, i.e. ≥ 655359 padding zeros — checked by the differential (corpus/C20/exp-clamp.req), where
the model reproduces the implementation's `Ok(0.0)` and the exact oracle says 1. -/
def F64ParseDenotes : Prop :=
  ∀ s d, Dec.doubleVal s = some d → ∃ v, RustF64.parse s = .ok v ∧ F64Denoted d v

-- non-vacuity of `f64_parse_denotes_partial`
example : Dec.doubleVal "1.5e3".toList = some (some 0x4097700000000000) ∧
    Dec.natOfDigits (Dec.expPart "1.5e3".toList).2 < RustF64.expClampLimit ∧
    RustF64.parse "1.5e3".toList = .ok 0x4097700000000000 := by decide

/-! ### H1–H4 are satisfiable (by a non-trivial pair: a printer/parser of the *bit pattern* in decimal;
not Rust's, but a witness that `StdF64` is consistent and the theorems above are not vacuous) -/

def bits64 : IntTy := ⟨false, 0, 18446744073709551615⟩

def toyFmt (x : F64) : Str :=
  if F64.isNaN x then ['N', 'a', 'N']
  else if x = F64.posInf then ['i', 'n', 'f']
  else if x = F64.negInf then ['-', 'i', 'n', 'f']
  else showNat x

def toyParse (s : Str) : Except Unit F64 :=
  if s = ['N', 'a', 'N'] then .ok F64.qNaN
  else if s = ['i', 'n', 'f'] ∨ s = ['I', 'N', 'F'] then .ok F64.posInf
  else if s = ['-', 'i', 'n', 'f'] ∨ s = ['-', 'I', 'N', 'F'] then .ok F64.negInf
  else match parseInt bits64 s with
    | .ok v => .ok v.toNat
    | .error _ => .error ()

theorem toy_std : StdF64 toyFmt toyParse := by
  refine ⟨?_, ?_, ⟨by decide, by decide, ?_⟩, ⟨by decide, by decide, by decide, by decide, F64.qNaN, by decide, by decide⟩⟩
  · intro x _ hf
    obtain ⟨h1, h2, h3⟩ := finite_not_special x hf
    unfold toyFmt
    rw [h1, if_neg (by simp), if_neg h2, if_neg h3]
    -- [0-9]+ ⊆ -?[0-9]+(\.[0-9]+)?
    have hd : Matches (plus Xsd.digit) (cps (showNat x)) := by
      rw [plus_digit_iff]
      refine ⟨by simpa [cps] using showNat_ne_nil x, ?_⟩
      intro c hc
      obtain ⟨y, hy, rfl⟩ := List.mem_map.mp hc
      exact showNat_isDigit _ y hy
    have := Matches.cat (a := opt (chr '-')) (b := .cat (plus Xsd.digit) (opt (.cat (chr '.') (plus Xsd.digit))))
      (Matches.altR Matches.eps) (Matches.cat hd (Matches.altR Matches.eps))
    have e : [] ++ (cps (showNat x) ++ []) = cps (showNat x) := by simp
    rw [e] at this
    exact this
  · intro x hx hf
    obtain ⟨h1, h2, h3⟩ := finite_not_special x hf
    have hd : ∀ c ∈ showNat x, isDigitCp c.toNat := showNat_isDigit x
    have hne := showNat_ne_nil x
    have e : toyFmt x = showNat x := by unfold toyFmt; rw [h1, if_neg (by simp), if_neg h2, if_neg h3]
    rw [e]
    -- a digit string is none of the special spellings
    have first : ∀ s : Str, (∃ c rest, s = c :: rest ∧ ¬ isDigitCp c.toNat) → showNat x ≠ s := by
      rintro s ⟨c, rest, rfl, hc⟩ h
      exact hc (hd c (by rw [h]; exact List.mem_cons_self ..))
    have nd : ∀ c : Char, c = 'N' ∨ c = 'i' ∨ c = 'I' ∨ c = '-' → ¬ isDigitCp c.toNat := by
      rintro c (rfl | rfl | rfl | rfl) <;> (unfold isDigitCp; decide)
    unfold toyParse
    rw [if_neg (first _ ⟨'N', _, rfl, nd _ (.inl rfl)⟩),
        if_neg (by rintro (h | h); exact first _ ⟨'i', _, rfl, nd _ (.inr (.inl rfl))⟩ h;
                   exact first _ ⟨'I', _, rfl, nd _ (.inr (.inr (.inl rfl)))⟩ h),
        if_neg (by rintro (h | h); exact first _ ⟨'-', _, rfl, nd _ (.inr (.inr (.inr rfl)))⟩ h;
                   exact first _ ⟨'-', _, rfl, nd _ (.inr (.inr (.inr rfl)))⟩ h)]
    have hx' : @LT.lt Nat _ x 18446744073709551616 := hx
    have hr : bits64.InRange (x : Int) := by
      unfold IntTy.InRange bits64; simp only; constructor <;> omega
    have := parseInt_showInt (ty := bits64) ⟨by decide, by decide, by decide⟩ hr
    have e2 : showInt (x : Int) = showNat x := by unfold showInt; simp
    rw [e2] at this
    rw [this]; simp
  · intro x hx; unfold toyFmt; rw [hx]; rfl

-- the theorems instantiate: for the toy pair, every finite bit pattern is valid and round-trips
example : Matches Xsd.double (cps (toyFmt 0x3ff0000000000000)) :=
  (f64_finite_valid toy_std _ (by decide) (by decide)).2

/-! ## `f64` printing: an executable model of `impl Display for f64` (`RustF64.display`, compared with the
implementation's `lexical_form()` on every generated double) and what it discharges of H1–H4

* H1 is a THEOREM of the model (`render_matches`, `display_spec`): whatever the digits and the exponent,
  `digits_to_dec_str`'s layout is `-?[0-9]+(\.[0-9]+)?`.
* H2 is a THEOREM of the model pair (`display_roundtrip`): what `display` prints is read back by the model of
  `f64::from_str` as the same bit pattern (the search keeps only candidates that read back — the very
  definition of "shortest representation that round-trips").
* H3 is not needed (`f64_nonfinite_valid_nohyp`: `lexical_form` never prints a non-finite value with `Display`),
  H4 is a computation on the model of `from_str` (`f64_nonfinite_roundtrip_model`).
* what remains assumed: `DisplayTotal` — the search succeeds within 17 digits (checked per value by the run), and
  the tie of both models to `core` (differential: every generated double's lexical form, every parse request).
* necessity: `H2_necessary`, `H1_or_similar_necessary`. -/

/-- digit strings (as characters) -/
def DigitStr (D : Str) : Prop := D ≠ [] ∧ ∀ c ∈ D, isDigitCp c.toNat

theorem digitStr_plus {D : Str} (h : DigitStr D) : Matches (plus Xsd.digit) (cps D) := by
  rw [plus_digit_iff]
  refine ⟨by simpa [cps] using h.1, ?_⟩
  intro c hc
  obtain ⟨y, hy, rfl⟩ := List.mem_map.mp hc
  exact h.2 y hy

theorem zero_isDigit : isDigitCp ('0' : Char).toNat := by unfold isDigitCp; decide

/-- the unsigned part of `-?[0-9]+(\.[0-9]+)?` -/
def unsignedDisplay : Re := .cat (plus Xsd.digit) (opt (.cat (chr '.') (plus Xsd.digit)))

theorem unsigned_int {A : Str} (hA : DigitStr A) : Matches unsignedDisplay (cps A) := by
  have := Matches.cat (digitStr_plus hA) (Matches.altR (a := .cat (chr '.') (plus Xsd.digit)) Matches.eps)
  simpa [unsignedDisplay, opt] using this

theorem unsigned_frac {A B : Str} (hA : DigitStr A) (hB : DigitStr B) :
    Matches unsignedDisplay (cps (A ++ '.' :: B)) := by
  have hdot : Matches (chr '.') [46] := .cls (by decide)
  have h2 : Matches (opt (.cat (chr '.') (plus Xsd.digit))) ([46] ++ cps B) := .altL (.cat hdot (digitStr_plus hB))
  have := Matches.cat (digitStr_plus hA) h2
  have e : cps (A ++ '.' :: B) = cps A ++ ([46] ++ cps B) := by simp [cps]
  rw [e]; exact this

theorem layout_matches (D : Str) (p : Int) (hD : DigitStr D) : Matches unsignedDisplay (cps (RustF64.layout D p)) := by
  unfold RustF64.layout
  split
  · -- 0.000D
    have hB : DigitStr (List.replicate (-p).toNat '0' ++ D) := by
      refine ⟨by simp [hD.1], ?_⟩
      intro c hc
      rcases List.mem_append.mp hc with h | h
      · rw [List.mem_replicate] at h; rw [h.2]; exact zero_isDigit
      · exact hD.2 c h
    have hA : DigitStr ['0'] := ⟨by simp, by intro c hc; simp at hc; subst hc; exact zero_isDigit⟩
    exact unsigned_frac hA hB
  · split
    · rename_i hp hlt
      have hp' : 0 < p.toNat := by omega
      have hA : DigitStr (D.take p.toNat) := by
        refine ⟨?_, fun c hc => hD.2 c (List.mem_of_mem_take hc)⟩
        intro h
        rcases List.take_eq_nil_iff.mp h with h0 | h0
        · omega
        · exact hD.1 h0
      have hB : DigitStr (D.drop p.toNat) := by
        refine ⟨?_, fun c hc => hD.2 c (List.mem_of_mem_drop hc)⟩
        intro h
        have := List.drop_eq_nil_iff.mp h
        omega
      exact unsigned_frac hA hB
    · have hA : DigitStr (D ++ List.replicate (p.toNat - D.length) '0') := by
        refine ⟨by simp [hD.1], ?_⟩
        intro c hc
        rcases List.mem_append.mp hc with h | h
        · exact hD.2 c h
        · rw [List.mem_replicate] at h; rw [h.2]; exact zero_isDigit
      exact unsigned_int hA

theorem decDigitsAux_isDigit (fuel n : Nat) (acc : Str) (h : ∀ c ∈ acc, isDigitCp c.toNat) :
    ∀ c ∈ RustF64.decDigitsAux fuel n acc, isDigitCp c.toNat := by
  induction fuel generalizing n acc with
  | zero => exact h
  | succ f ih =>
    unfold RustF64.decDigitsAux
    have dig : ∀ k, k < 10 → isDigitCp (digitChar k).toNat := by
      intro k hk; rw [digitChar_toNat k hk]; unfold isDigitCp; omega
    split
    · rename_i hn
      intro c hc
      rcases List.mem_cons.mp hc with rfl | hc
      · exact dig n hn
      · exact h c hc
    · apply ih
      intro c hc
      rcases List.mem_cons.mp hc with rfl | hc
      · exact dig _ (Nat.mod_lt _ (by decide))
      · exact h c hc

theorem decDigits_isDigit (n : Nat) : ∀ c ∈ RustF64.decDigits n, isDigitCp c.toNat :=
  decDigitsAux_isDigit _ _ [] (by intro c hc; cases hc)

theorem sigDigits_digitStr (d : Nat) : DigitStr (RustF64.sigDigits d) := by
  unfold RustF64.sigDigits
  cases h : ((RustF64.decDigits d).reverse.dropWhile (· == '0')).reverse with
  | nil => exact ⟨by simp, by intro c hc; simp at hc; subst hc; exact zero_isDigit⟩
  | cons a l =>
    refine ⟨by simp, ?_⟩
    intro c hc
    simp only at hc
    rw [← h] at hc
    have h1 := List.mem_reverse.mp hc
    have h2 := (List.dropWhile_suffix _).subset h1
    exact decDigits_isDigit d c (List.mem_reverse.mp h2)

theorem signed_of_unsigned {w : List Nat} (neg : Bool) (h : Matches unsignedDisplay w) :
    Matches Xsd.rustFiniteDisplay (if neg then 45 :: w else w) := by
  show Matches (.cat (opt (chr '-')) unsignedDisplay) _
  cases neg with
  | true =>
    have hm : Matches (opt (chr '-')) [45] := .altL (.cls (by decide))
    exact Matches.cat hm h
  | false =>
    have hm : Matches (opt (chr '-')) [] := .altR .eps
    exact Matches.cat hm h

/-- **display_shape (H1 for the model)**: whatever digits and exponent, the layout is `-?[0-9]+(\.[0-9]+)?` -/
theorem render_matches (neg : Bool) (d : Nat) (q : Int) :
    Matches Xsd.rustFiniteDisplay (cps (RustF64.render neg d q)) := by
  unfold RustF64.render
  have := signed_of_unsigned neg (layout_matches (RustF64.sigDigits d) ((RustF64.decDigits d).length + q) (sigDigits_digitStr d))
  cases neg <;> simpa [cps] using this

theorem firstGood_spec (x : F64) (neg : Bool) (l : List (Nat × Int)) (s : Str)
    (h : RustF64.firstGood x neg l = some s) :
    (∃ d q, s = RustF64.render neg d q) ∧ RustF64.readBack s = x := by
  induction l with
  | nil => cases h
  | cons a rest ih =>
    obtain ⟨d, q⟩ := a
    unfold RustF64.firstGood at h
    simp only at h
    split at h
    · rename_i hg
      injection h with h; subst h
      exact ⟨⟨d, q, rfl⟩, hg.2⟩
    · exact ih h

theorem searchDigits_spec (x : F64) (neg : Bool) (num den : Nat) (k : Int) (fuel n : Nat) (s : Str)
    (h : RustF64.searchDigits x neg num den k fuel n = some s) :
    (∃ d q, s = RustF64.render neg d q) ∧ RustF64.readBack s = x := by
  induction fuel generalizing n with
  | zero => cases h
  | succ f ih =>
    unfold RustF64.searchDigits at h
    split at h
    · rename_i s' hs'
      injection h with h; subst h
      exact firstGood_spec _ _ _ _ hs'
    · exact ih _ h

/-- everything the model of `Display` can print for a finite bit pattern: the H1 shape, and it READS BACK -/
theorem display_spec (x : F64) (hx : x < 2 ^ 64) (s : Str) (h : RustF64.display x = some s) :
    F64.isFinite x = true ∧ Matches Xsd.rustFiniteDisplay (cps s) ∧ RustF64.readBack s = x := by
  unfold RustF64.display at h
  cases hf : F64.isFinite x with
  | false => rw [hf] at h; simp at h
  | true =>
    rw [hf] at h
    simp only [Bool.not_true, Bool.false_eq_true, if_false] at h
    refine ⟨rfl, ?_⟩
    split at h
    · rename_i hz
      have hz' : @Eq Nat (x % 9223372036854775808) 0 := by simpa using hz
      have hx' : @LT.lt Nat _ x 18446744073709551616 := hx
      cases hs : F64.signBit x with
      | true =>
        rw [hs] at h; simp only [if_true] at h
        injection h with h; subst h
        have hs' : @Eq Nat (x / 9223372036854775808 % 2) 1 := by
          unfold F64.signBit at hs; simpa using hs
        have : @Eq Nat x 9223372036854775808 := by omega
        refine ⟨by decide, ?_⟩
        rw [show x = (9223372036854775808 : Nat) from this]; decide
      | false =>
        rw [hs] at h; simp only [Bool.false_eq_true, if_false] at h
        injection h with h; subst h
        have hs' : ¬ @Eq Nat (x / 9223372036854775808 % 2) 1 := by
          unfold F64.signBit at hs; simpa using hs
        have : @Eq Nat x 0 := by omega
        refine ⟨by decide, ?_⟩
        rw [show x = (0 : Nat) from this]; decide
    · obtain ⟨⟨d, q, rfl⟩, hr⟩ := searchDigits_spec _ _ _ _ _ _ _ _ h
      exact ⟨render_matches _ _ _, hr⟩

theorem rustFiniteDisplay_incl_numeric : ∀ w, Matches Xsd.rustFiniteDisplay w → Matches Xsd.doubleNumeric w := by
  intro w h
  have h' : Matches (.cat (opt (chr '-')) (.cat (plus Xsd.digit) (opt (.cat (chr '.') (plus Xsd.digit))))) w := h
  rw [matches_cat] at h'
  obtain ⟨u, v, rfl, h1, h2⟩ := h'
  rw [matches_cat] at h2
  obtain ⟨d, f, rfl, hd, hf⟩ := h2
  have hs : Matches (opt Xsd.sign) u := by
    unfold opt at h1 ⊢
    rw [matches_alt] at h1
    rcases h1 with h1 | h1
    · unfold chr at h1
      rw [matches_cls] at h1
      obtain ⟨c, rfl, hc⟩ := h1
      have : c = 45 := by
        have : 45 ≤ c ∧ c ≤ 45 := by simpa [inCls] using hc
        omega
      subst this
      exact .altL (.cls ((sign_iff 45).mpr (.inr rfl)))
    · exact .altR h1
  have hfr : Matches (opt (.cat (chr '.') (.star Xsd.digit))) f := by
    unfold opt at hf ⊢
    rw [matches_alt] at hf
    rcases hf with hf | hf
    · rw [matches_cat] at hf
      obtain ⟨p, q, rfl, hp, hq⟩ := hf
      exact .altL (.cat hp (star_of_plus hq))
    · exact .altR hf
  have hdec : Matches Xsd.decimalNoSign (d ++ f) := .altL (.cat hd hfr)
  have hnum : Matches Xsd.doubleNumeric (u ++ ((d ++ f) ++ [])) := .cat hs (.cat hdec (.altR .eps))
  rw [List.append_nil] at hnum
  exact hnum

/-- a string of the H1 shape is parsed by the model of `f64::from_str` as a numeric form -/
theorem parse_of_finiteDisplay (s : Str) (h : Matches Xsd.rustFiniteDisplay (cps s)) :
    RustF64.parse s = .ok (RustF64.readBack s) := by
  have hm : Xsd.matchesS RustF64.numeric s = true :=
    (matchB_iff _ _).mpr (rustFiniteDisplay_incl_numeric _ h)
  have hne : s ≠ [] := by rintro rfl; rw [show Xsd.matchesS RustF64.numeric [] = false from numeric_not_nil] at hm; cases hm
  unfold RustF64.parse
  rw [if_neg hne, if_pos hm]
  rfl

/-- **H2 for the model pair** -/
theorem display_roundtrip (x : F64) (hx : x < 2 ^ 64) (s : Str) (h : RustF64.display x = some s) :
    RustF64.parse s = .ok x := by
  obtain ⟨_, h1, h2⟩ := display_spec x hx s h
  rw [parse_of_finiteDisplay s h1, h2]

/-! ### H1–H4 for the MODEL pair (`displayStd`, `parseU`): nothing about `core` is assumed any more except
that the search of `display` succeeds (`DisplayTotal`, the classical 17-digit theorem — validated on every
generated double, where the model's output is also compared with the implementation's) -/

/-- `impl Display for f64`, all values: the three spellings `core` uses for the non-finite ones -/
def displayStd (x : F64) : Str :=
  if F64.isNaN x then "NaN".toList
  else if F64.isFinite x then (RustF64.display x).getD []
  else if F64.signBit x then "-inf".toList else "inf".toList

/-- `f64::from_str` with the error forgotten -/
def parseU (s : Str) : Except Unit F64 :=
  match RustF64.parse s with
  | .ok v => .ok v
  | .error _ => .error ()

/-- the ONE residual hypothesis: a decimal of at most 17 digits reads back -/
def DisplayTotal : Prop :=
  ∀ x, x < 2 ^ 64 → F64.isFinite x = true → (RustF64.display x).isSome = true

theorem displayStd_finite (x : F64) (hf : F64.isFinite x = true) :
    displayStd x = (RustF64.display x).getD [] := by
  unfold displayStd
  rw [(finite_not_special x hf).1, hf]; simp

/-- **H1–H4 discharged for the model pair**, down to `DisplayTotal` -/
theorem stdF64_of_model (hT : DisplayTotal) : StdF64 displayStd parseU := by
  refine ⟨?_, ?_, ⟨by decide, by decide, ?_⟩, ⟨by decide, by decide, by decide, by decide, F64.qNaN, by decide, by decide⟩⟩
  · intro x hx hf
    rw [displayStd_finite x hf]
    cases hd : RustF64.display x with
    | none => have := hT x hx hf; rw [hd] at this; cases this
    | some s => exact (display_spec x hx s hd).2.1
  · intro x hx hf
    rw [displayStd_finite x hf]
    cases hd : RustF64.display x with
    | none => have := hT x hx hf; rw [hd] at this; cases this
    | some s =>
      show parseU s = .ok x
      unfold parseU; rw [display_roundtrip x hx s hd]
  · intro x hx; unfold displayStd; rw [hx]; rfl

/-- the first sentence of the property for `f64`, all bit patterns, over the executable models of
`Display` and `FromStr` -/
theorem f64_all_values_model (hT : DisplayTotal) (x : F64) (hx : x < 2 ^ 64) :
    (∃ lex, f64Term displayStd x = .lit lex (xsdIri "double".toList) ∧ Matches Xsd.double (cps lex)) ∧
    (∃ y, f64TryFromTerm parseU (f64Term displayStd x) = .ok y ∧
      (F64.isNaN x = false → y = x) ∧ (F64.isNaN x = true → F64.isNaN y = true)) :=
  f64_all_values (stdF64_of_model hT) x hx

/-- per value, with NO hypothesis: whenever the search succeeds on `x` (a computation), `x` is a valid
`xsd:double` literal and converts back to itself -/
theorem f64_finite_model (x : F64) (hx : x < 2 ^ 64) (s : Str) (hd : RustF64.display x = some s) :
    f64Term displayStd x = .lit s (xsdIri "double".toList) ∧ Matches Xsd.double (cps s) ∧
    RustF64.tryFromTerm (f64Term displayStd x) = .ok x := by
  obtain ⟨hf, h1, _⟩ := display_spec x hx s hd
  have hl : f64Lex Gen.Native.asF64 displayStd x = s := by
    rw [f64Lex_finite _ _ _ hf, displayStd_finite x hf, hd]; rfl
  refine ⟨?_, rustFiniteDisplay_incl_double _ h1, ?_⟩
  · unfold f64Term asTerm; rw [hl, f64_datatype]
  · unfold RustF64.tryFromTerm f64Term
    rw [tryFrom_asTerm _ _ _ _ own_datatype_whitelisted.2.2.2.2, hl]
    exact display_roundtrip x hx s hd

-- non-vacuity: the search succeeds (kernel evaluation) on 1.0, 0.1, -0.0, 0.1+0.2, 1e21, 1e-7
example : RustF64.display 0x3ff0000000000000 = some "1".toList := by decide
example : RustF64.display 0x3fb999999999999a = some "0.1".toList := by decide
example : RustF64.display 0x8000000000000000 = some "-0".toList := by decide
example : RustF64.display 0x3fd3333333333334 = some "0.30000000000000004".toList := by decide
example : RustF64.display 0x444b1ae4d6e2ef50 = some "1000000000000000000000".toList := by decide
example : RustF64.display 0x3e7ad7f29abcaf48 = some "0.0000001".toList := by decide

/-! ### H3 / H4 are not needed at all on the current tree -/

/-- non-finite values: valid and denoting, for EVERY `fmt` (the special-casing `lexical_form` never calls
`Display` on them): no hypothesis -/
theorem f64_nonfinite_valid_nohyp (fmt : F64 → Str) : F64NonfiniteValid Gen.Native.asF64 fmt := by
  obtain ⟨nan, inf, ninf, ha, hok⟩ := (shapeOK_iff _).mp f64_shape_valid
  intro x _ hf
  simp only [xsdSpecialOK, Bool.and_eq_true, beq_iff_eq] at hok
  obtain ⟨⟨h1, h2⟩, h3⟩ := hok
  unfold f64Lex classOf
  rw [ha]
  rcases nonfinite_cases x hf with hn | ⟨hn, hi⟩
  · simp only [hn, if_true]; exact ⟨specialVal_matches h1, h1⟩
  · cases hs : F64.signBit x
    · simp [hn, hi]; exact ⟨specialVal_matches h2, h2⟩
    · simp [hn, hi]; exact ⟨specialVal_matches h3, h3⟩

/-- … and they convert back through the model of `f64::from_str` (H4 is a computation), for every `fmt` -/
theorem f64_nonfinite_roundtrip_model (fmt : F64 → Str) :
    RustF64.tryFromTerm (f64Term fmt F64.posInf) = .ok F64.posInf ∧
    RustF64.tryFromTerm (f64Term fmt F64.negInf) = .ok F64.negInf ∧
    ∀ x, F64.isNaN x = true → ∃ y, RustF64.tryFromTerm (f64Term fmt x) = .ok y ∧ F64.isNaN y = true := by
  have hsh : Gen.Native.asF64.lex = .displaySpecial "NaN".toList "INF".toList "-INF".toList := by decide
  unfold RustF64.tryFromTerm f64Term
  simp only [tryFrom_asTerm _ _ _ _ own_datatype_whitelisted.2.2.2.2]
  unfold f64Lex
  rw [hsh]
  have p1 : RustF64.parse "INF".toList = .ok F64.posInf := by decide
  have p2 : RustF64.parse "-INF".toList = .ok F64.negInf := by decide
  have p3 : RustF64.parse "NaN".toList = .ok F64.qNaN := by decide
  refine ⟨?_, ?_, ?_⟩
  · simp only [posInf_facts.2.2.1, posInf_facts.2.2.2.1, posInf_facts.2.2.2.2, Bool.false_eq_true, if_false, if_true,
      Bool.not_false]; exact p1
  · simp only [negInf_facts.2.2.1, negInf_facts.2.2.2.1, negInf_facts.2.2.2.2, Bool.false_eq_true, if_false, if_true,
      Bool.not_true]; exact p2
  · intro x hx
    exact ⟨F64.qNaN, by simp only [hx, if_true]; exact p3, by decide⟩

/-! ### … while SOME contract on `fmt` is necessary for the finite values (kernel-checked witnesses) -/

/-- H2 cannot be dropped: a printer with the H1 shape that loses digits breaks the round trip -/
theorem H2_necessary : ∃ fmt : F64 → Str,
    (∀ x, Matches Xsd.rustFiniteDisplay (cps (fmt x))) ∧
    f64TryFromTerm parseU (f64Term fmt 0x3ff8000000000000) ≠ .ok 0x3ff8000000000000 := by
  refine ⟨fun _ => "1".toList, fun _ => (by decide : Matches Xsd.rustFiniteDisplay (cps "1".toList)), ?_⟩
  decide

/-- validity needs a hypothesis on the printer too: H1 (or any other inclusion in `L(xsd:double)`) -/
theorem H1_or_similar_necessary : ∃ fmt : F64 → Str,
    ¬ Matches Xsd.double (cps (f64Lex Gen.Native.asF64 fmt 0x3ff8000000000000)) :=
  ⟨fun _ => "1,5".toList, by decide⟩

/-! ### … and the printed form DENOTES the value under the XSD lexical-to-value mapping (what the driver's oracle
`valid ∧ Dec.doubleVal L = x` asks of the implementation's lexical form, proved here of the model's) -/

theorem finiteDisplay_chars {w : List Nat} (h : Matches Xsd.rustFiniteDisplay w) :
    ∀ c ∈ w, c = 45 ∨ c = 46 ∨ isDigitCp c := by
  have h' : Matches (.cat (opt (chr '-')) (.cat (plus Xsd.digit) (opt (.cat (chr '.') (plus Xsd.digit))))) w := h
  rw [matches_cat] at h'
  obtain ⟨u, v, rfl, h1, h2⟩ := h'
  rw [matches_cat] at h2
  obtain ⟨d, f, rfl, hd, hf⟩ := h2
  have hu : ∀ c ∈ u, c = 45 := by
    unfold opt at h1
    rw [matches_alt] at h1
    rcases h1 with h1 | h1
    · unfold chr at h1
      rw [matches_cls] at h1
      obtain ⟨c, rfl, hc⟩ := h1
      have : 45 ≤ c ∧ c ≤ 45 := by simpa [inCls] using hc
      intro x hx; simp at hx; omega
    · cases h1; intro c hc; cases hc
  have hdd := ((plus_digit_iff d).mp hd).2
  have hff : ∀ c ∈ f, c = 46 ∨ isDigitCp c := by
    unfold opt at hf
    rw [matches_alt] at hf
    rcases hf with hf | hf
    · rw [matches_cat] at hf
      obtain ⟨p, q, rfl, hp, hq⟩ := hf
      unfold chr at hp
      rw [matches_cls] at hp
      obtain ⟨c, rfl, hc⟩ := hp
      have : 46 ≤ c ∧ c ≤ 46 := by simpa [inCls] using hc
      have hq' := ((plus_digit_iff q).mp hq).2
      intro x hx
      rcases List.mem_append.mp hx with hx | hx
      · simp at hx; left; omega
      · exact .inr (hq' x hx)
    · cases hf; intro c hc; cases hc
  intro c hc
  rcases List.mem_append.mp hc with hc | hc
  · exact .inl (hu c hc)
  · rcases List.mem_append.mp hc with hc | hc
    · exact .inr (.inr (hdd c hc))
    · rcases hff c hc with h | h
      · exact .inr (.inl h)
      · exact .inr (.inr h)

theorem splitAt_none (p : Char → Bool) (s : Str) (h : ∀ c ∈ s, p c = false) : Dec.splitAt p s = (s, []) := by
  induction s with
  | nil => rfl
  | cons c cs ih =>
    unfold Dec.splitAt
    rw [h c (List.mem_cons_self ..)]
    simp only [Bool.false_eq_true, if_false]
    rw [ih (fun x hx => h x (List.mem_cons_of_mem _ hx))]

theorem unsignedBody_subset (s : Str) : ∀ c ∈ (Dec.unsignedBody s).2, c ∈ s := by
  unfold Dec.unsignedBody
  split
  · intro c hc; exact List.mem_cons_of_mem _ hc
  · intro c hc; exact List.mem_cons_of_mem _ hc
  · intro c hc; exact hc

/-- a string of the H1 shape has no exponent part -/
theorem expPart_of_finiteDisplay (s : Str) (h : Matches Xsd.rustFiniteDisplay (cps s)) :
    Dec.expPart s = (false, []) := by
  have hc := finiteDisplay_chars h
  have hne : ∀ c ∈ (Dec.unsignedBody s).2, (c == 'e' || c == 'E') = false := by
    intro c hcs
    have hm : c.toNat ∈ cps s := List.mem_map.mpr ⟨c, unsignedBody_subset s c hcs, rfl⟩
    have := hc _ hm
    have he : c ≠ 'e' := by rintro rfl; revert this; unfold isDigitCp; decide
    have hE : c ≠ 'E' := by rintro rfl; revert this; unfold isDigitCp; decide
    simp [he, hE]
  unfold Dec.expPart
  rw [splitAt_none _ _ hne]
  rfl

/-- **the lexical form of a finite `f64` DENOTES it** under the XSD lexical-to-value mapping (the oracle of the
differential): exact exponent reader = `core`'s on exponent-free strings -/
theorem display_denotes (x : F64) (hx : x < 2 ^ 64) (s : Str) (h : RustF64.display x = some s) :
    Dec.doubleVal s = some (some x) := by
  obtain ⟨_, h1, h2⟩ := display_spec x hx s h
  have hm : Xsd.matchesS Xsd.doubleNumeric s = true :=
    (matchB_iff _ _).mpr (rustFiniteDisplay_incl_numeric _ h1)
  unfold Dec.doubleVal
  rw [if_pos hm]
  congr 2
  unfold Dec.doubleOfNumeric
  rw [← h2]
  unfold RustF64.readBack
  apply doubleOfNumericWith_congr
  rw [expPart_of_finiteDisplay s h1]
  rfl


example : Dec.doubleVal "0.30000000000000004".toList = some (some 0x3fd3333333333334) :=
  display_denotes _ (by decide) _ (by decide)

end SophiaProofs.C20
