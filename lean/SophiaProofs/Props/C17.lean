/-
C17 — relativising an IRI against a base is the inverse of resolving.

All theorems are about `SophiaModel.Relativize.new` / `relativize` (the functions the driver `smd_C17`
executes, tied to `iri/src/relativize.rs` by the differential) and `SophiaModel.Rfc3986.resolve`
(RFC 3986 §5.2).  Strings are octet strings (one `Char` per UTF-8 octet, see Model/Relativize.lean).

The code has defects, so the full statements `RelInverse`, `RelIsRef`, `RelParents`,
`RelBoundaries` below are FALSE for the code as written: each is refuted by a kernel-checked witness
on valid IRIs, and carried as a `_partial` theorem under the decidable side condition `cleanCase`
(defined next to the model; the driver evaluates it on every differential case as `m.clean`).
`cleanCase` looks at the returned reference; `rel_input_partial` (last section; regions S, P, X, E) states the whole
property (`Correct`) under hypotheses on the INPUTS only, and each hypothesis is shown necessary by a witness.  The clause "same-document IRIs are always
relativised" (`RelSameDoc`) holds in full for UTF-8 inputs (`rel_same_doc_some`), and `RelBoundaries` holds for
UTF-8 inputs except on one base shape (`rel_boundaries_utf8_partial`).
-/
import SophiaModel.Model.Relativize
import SophiaModel.Regex.Decide
import SophiaModel.Gen.Regexes
import SophiaProofs.Lemmas.RelativizePath
import SophiaProofs.Lemmas.RelativizeUtf8
import SophiaProofs.Lemmas.RelativizeInput
import SophiaProofs.Lemmas.RelativizeStrings

namespace SophiaProofs.C17
open SophiaModel SophiaModel.Rfc3986 SophiaModel.Relativize SophiaProofs.Relativize

/-- `Iri::new` accepts the (ASCII) octet string: sophia's own validator, regenerated from /repo -/
abbrev ValidIri (o : Octets) : Prop := Re.Matches Gen.IRI_REGEX (o.map Char.toNat)

/-! ### the full statements (false for the code as written) -/

/-- whenever relativisation returns a reference, resolving it against the base gives back the IRI -/
def RelInverse : Prop := ∀ (base : Octets) (n : Nat) (iri : Octets) ins t,
  ValidIri base → ValidIri iri → relativize (new base n) iri = .some ins t → resolve base (ins.str ++ t) = iri

/-- the result is a relative reference: `split` finds neither a scheme nor an authority in it -/
def RelIsRef : Prop := ∀ (base : Octets) (n : Nat) (iri : Octets) ins t,
  ValidIri base → ValidIri iri → relativize (new base n) iri = .some ins t →
    (split (ins.str ++ t)).scheme = none ∧ (split (ins.str ++ t)).authority = none

/-- the reference uses no more parent steps than allowed -/
def RelParents : Prop := ∀ (base : Octets) (n : Nat) (iri : Octets) ins t,
  ValidIri base → ValidIri iri → relativize (new base n) iri = .some ins t → countDotDot (ins.str ++ t) ≤ n

/-- no slice of the IRI cuts a multi-byte character (or leaves the string) -/
def RelBoundaries : Prop := ∀ (base : Octets) (n : Nat) (iri : Octets), relativize (new base n) iri ≠ .panic

/-- `RelBoundaries` restricted to the inputs that exist in Rust: both strings have the shape of UTF-8 (every `str`
has) and the base has a scheme. Still false (`rel_boundaries_utf8_refuted`). -/
def RelBoundariesUtf8 : Prop := ∀ (base : Octets) (n : Nat) (iri : Octets),
  (split base).scheme.isSome → utf8Shaped 0 base = true → utf8Shaped 0 iri = true →
    relativize (new base n) iri ≠ .panic

/-- "an IRI equal to the base or differing only in query/fragment is always relativised": a reference is returned
(not `None`, not a panic). TRUE for UTF-8 inputs: `rel_same_doc_some`. -/
def RelSameDoc : Prop := ∀ (base : Octets) (n : Nat) (iri : Octets),
  (split base).scheme.isSome → utf8Shaped 0 base = true → utf8Shaped 0 iri = true →
  (split iri).scheme = (split base).scheme → (split iri).authority = (split base).authority →
  (split iri).path = (split base).path → ∃ ins t, relativize (new base n) iri = .some ins t

/-! ### kernel-checked refutations (each is a finding, see findings/C17.json) -/

private def s (x : String) : Octets := x.toList   -- ASCII literals only

/-- ':' in the first segment of the tail: `relativize("http://a/b/c", "http://a/b/x:y") = "x:y"`, which
resolves to `x:y` -/
theorem rel_inverse_refuted_colon : ¬ RelInverse := fun h =>
  absurd (h (s "http://a/b/c") 0 (s "http://a/b/x:y") .nothing (s "x:y") (by decide) (by decide) (by decide))
    (by decide)

/-- empty segment after the common directory: `relativize("http://a/b/d", "http://a/b//c") = "/c"`, which
resolves to `http://a/c` -/
theorem rel_inverse_refuted_empty_segment : ¬ RelInverse := fun h =>
  absurd (h (s "http://a/b/d") 0 (s "http://a/b//c") .nothing (s "/c") (by decide) (by decide) (by decide))
    (by decide)

/-- the IRI extends the last segment of the base: `relativize("http://a/b", "http://a/bc") = "c"`, which
resolves to `http://a/c` (the first branch takes any common prefix reaching `query_end` for "differs in
the fragment only") -/
theorem rel_inverse_refuted_extension : ¬ RelInverse := fun h =>
  absurd (h (s "http://a/b") 3 (s "http://a/bc") .nothing (s "c") (by decide) (by decide) (by decide))
    (by decide)

/-- same path, base with query, IRI without: `relativize("http://a/b?q", "http://a/b") = ""`, which
resolves to `http://a/b?q` -/
theorem rel_inverse_refuted_query_dropped : ¬ RelInverse := fun h =>
  absurd (h (s "http://a/b?q") 3 (s "http://a/b") .nothing [] (by decide) (by decide) (by decide))
    (by decide)

/-- dot segment in the tail: `relativize("http://a/b/c", "http://a/b/../x") = "../x"` with `parents = 0`,
which resolves to `http://a/x` -/
theorem rel_inverse_refuted_dot_segment : ¬ RelInverse := fun h =>
  absurd (h (s "http://a/b/c") 0 (s "http://a/b/../x") .nothing (s "../x") (by decide) (by decide) (by decide))
    (by decide)

/-- the result `x:y` has a scheme; the result `//c` of `relativize("http://a", "http://a//c")` has an authority -/
theorem rel_is_ref_refuted : ¬ RelIsRef := fun h =>
  absurd (h (s "http://a/b/c") 0 (s "http://a/b/x:y") .nothing (s "x:y") (by decide) (by decide) (by decide)).1
    (by decide)

theorem rel_is_ref_refuted_authority : ¬ RelIsRef := fun h =>
  absurd (h (s "http://a") 0 (s "http://a//c") .nothing (s "//c") (by decide) (by decide) (by decide)).2
    (by decide)

/-- `parents = 0`, yet the result `../x` starts with a parent step -/
theorem rel_parents_refuted : ¬ RelParents := fun h =>
  absurd (h (s "http://a/b/c") 0 (s "http://a/b/../x") .nothing (s "../x") (by decide) (by decide) (by decide))
    (by decide)

/-- `relativize("http://é?q", "http://é/x")` slices `iri[pseudoroot - 1..]` inside the two-octet `é`
(C3 A9): panic -/
theorem rel_boundaries_refuted : ¬ RelBoundaries := fun h =>
  absurd (show relativize (new (s "http://" ++ [Char.ofNat 0xC3, Char.ofNat 0xA9] ++ s "?q") 0)
      (s "http://" ++ [Char.ofNat 0xC3, Char.ofNat 0xA9] ++ s "/x") = .panic by decide) (h _ _ _)

/-- the same for a three-octet character (`€` = E2 82 AC), on inputs that have the shape of UTF-8: the panic is not
an artefact of the octet model accepting arbitrary octet strings -/
theorem rel_boundaries_utf8_refuted : ¬ RelBoundariesUtf8 := fun h =>
  absurd (show relativize (new (s "http://" ++ [Char.ofNat 0xE2, Char.ofNat 0x82, Char.ofNat 0xAC] ++ s "?q") 3)
      (s "http://" ++ [Char.ofNat 0xE2, Char.ofNat 0x82, Char.ofNat 0xAC] ++ s "/x") = .panic by decide)
    (h _ _ _ (by decide) (by decide) (by decide))

/-! ### what holds for every input -/

/-- `rel_parents`, the part that is true of the code: the number of "../" that `relativize` *inserts* never
exceeds `parents` (for all bases, IRIs and limits, valid or not) -/
theorem rel_parents_inserted (base : Octets) (n : Nat) (iri : Octets) (k : Nat) (t : Octets)
    (h : relativize (new base n) iri = .some (.up k) t) : 1 ≤ k ∧ k ≤ n :=
  inserted_le h

example : relativize (new (s "http://a/b/c/d") 2) (s "http://a/x") = .some (.up 2) (s "x") := by decide
example : relativize (new (s "http://a/b/c/d") 1) (s "http://a/x") = .none := by decide

/-- `rel_same_doc`: an IRI that has the scheme, authority and path of the base (so differs from it at most
in query / fragment) is never answered with `None`. (No validity assumption; the base needs a scheme.) -/
theorem rel_same_doc (base : Octets) (n : Nat) (iri : Octets)
    (hs : (split base).scheme.isSome)
    (h1 : (split iri).scheme = (split base).scheme) (h2 : (split iri).authority = (split base).authority)
    (h3 : (split iri).path = (split base).path) :
    relativize (new base n) iri ≠ .none :=
  same_doc_ne_none hs h1 h2 h3

example : (split (s "http://a/b?q#f")).scheme.isSome ∧ (split (s "http://a/b#g")).path = (split (s "http://a/b?q#f")).path ∧
    relativize (new (s "http://a/b?q#f") 0) (s "http://a/b#g") = .some .nothing (s "#g") := by decide

/-- `rel_boundaries`, the part that is true: every slice is taken at an index inside the common prefix
(`≤ lcp`); if those indices are char boundaries of the IRI there is no panic. For valid UTF-8 inputs the
common prefix has the same boundaries in base and IRI, and all indices are positions of (or one past) ASCII
delimiters of the base — except `pseudoroot - 1`, which `rel_boundaries_refuted` exploits. -/
theorem rel_boundaries_partial (R : Relativizer) (iri : Octets)
    (h : ∀ k ∈ sliceIndices R, k ≤ lcp R.base iri → isCharBoundary iri k = true) :
    relativize R iri ≠ .panic :=
  no_panic R iri h

example : ∀ k ∈ sliceIndices (new (s "http://a/b/c") 1), k ≤ lcp (new (s "http://a/b/c") 1).base (s "http://a/x") →
    isCharBoundary (s "http://a/x") k = true := by decide

/-- `rel_boundaries` for the inputs that exist in Rust (strings with the shape of UTF-8), at full strength except for
ONE base shape: `relativize` never panics unless the base is `scheme://authority` with the authority ending in a
multi-byte character and an EMPTY path (`authEndsMultibyteNoPath`, the shape of `rel_boundaries_utf8_refuted`).
The hypothesis of `rel_boundaries_partial` is discharged here: every slice index is the position of, or one past, an
ASCII delimiter of the base (or its end), and char boundaries inside the common byte prefix are shared
(`icb_transfer`) - wherever the two strings diverge, also in the middle of a 2-, 3- or 4-octet character. -/
theorem rel_boundaries_utf8_partial (base : Octets) (n : Nat) (iri : Octets)
    (hs : (split base).scheme.isSome) (hb : utf8Shaped 0 base = true) (hi : utf8Shaped 0 iri = true)
    (hx : authEndsMultibyteNoPath base = false) :
    relativize (new base n) iri ≠ .panic :=
  no_panic_utf8 hs hb hi hx

-- non-vacuity: divergence INSIDE a character (é C3 A9 / ê C3 AA share C3; € E2 82 AC / ₠ E2 82 A0 share two octets),
-- an authority ending in a multi-byte character with a non-empty path
example : let b := s "http://" ++ [Char.ofNat 0xC3, Char.ofNat 0xA9] ++ s "/b/" ++ [Char.ofNat 0xE2, Char.ofNat 0x82, Char.ofNat 0xAC]
    let i := s "http://" ++ [Char.ofNat 0xC3, Char.ofNat 0xA9] ++ s "/b/" ++ [Char.ofNat 0xE2, Char.ofNat 0x82, Char.ofNat 0xA0]
    (split b).scheme.isSome ∧ utf8Shaped 0 b = true ∧ utf8Shaped 0 i = true ∧ authEndsMultibyteNoPath b = false ∧
      lcp b i = 14 ∧ isCharBoundary i (lcp b i) = false ∧
      relativize (new b 0) i = .some .nothing [Char.ofNat 0xE2, Char.ofNat 0x82, Char.ofNat 0xA0] := by decide
-- the shape predicate rejects what is not UTF-8 (a lone continuation octet, a truncated character)
example : utf8Shaped 0 [Char.ofNat 0xA9] = false ∧ utf8Shaped 0 [Char.ofNat 0xE2, Char.ofNat 0x82] = false ∧
    utf8Shaped 0 [Char.ofNat 0xF0, Char.ofNat 0x9D, Char.ofNat 0x84, Char.ofNat 0x9E] = true := by decide

/-- `rel_same_doc` at full strength (`RelSameDoc`): an IRI that has the scheme, authority and path of the base is
always answered with a reference - never `None`, never a panic - namely a slice of the IRI with nothing inserted.
(What the slice resolves to is another matter: `rel_inverse_refuted_query_dropped`.) -/
theorem rel_same_doc_some : RelSameDoc := by
  intro base n iri hs hb hi h1 h2 h3
  obtain ⟨t, ht⟩ := same_doc_some (n := n) hs hb hi h1 h2 h3
  exact ⟨.nothing, t, ht⟩

example : let b := s "http://" ++ [Char.ofNat 0xC3, Char.ofNat 0xA9] ++ s "?" ++ [Char.ofNat 0xC3, Char.ofNat 0xA9]
    let i := s "http://" ++ [Char.ofNat 0xC3, Char.ofNat 0xA9] ++ s "?" ++ [Char.ofNat 0xC3, Char.ofNat 0xAA]
    (split b).scheme.isSome ∧ utf8Shaped 0 b = true ∧ utf8Shaped 0 i = true ∧ (split i).scheme = (split b).scheme ∧
      (split i).authority = (split b).authority ∧ (split i).path = (split b).path ∧ authEndsMultibyteNoPath b = true ∧
      relativize (new b 2) i = .some .nothing (s "?" ++ [Char.ofNat 0xC3, Char.ofNat 0xAA]) := by decide

/-- when `None` is answered: only if the common byte prefix of base and IRI stops before `pseudoroot` - the position
right after the `(parents+1)`-th '/' of the base path counted from its end, or the start of the path when it has fewer
(`new_cuts` in Lemmas/RelativizeSlashes.lean) - i.e. the IRI lies outside the deepest directory reachable with
`parents` steps. (All octet strings, all limits.) -/
theorem rel_none_only_outside (base : Octets) (n : Nat) (iri : Octets)
    (h : relativize (new base n) iri = .none) : lcp base iri < (new base n).pseudoroot := by
  have := none_outside h
  rwa [new_base] at this

/-- and conversely (completeness inside that directory, UTF-8 inputs, same exception as `rel_boundaries_utf8_partial`):
an IRI sharing the base up to `pseudoroot` always gets a reference -/
theorem rel_some_inside (base : Octets) (n : Nat) (iri : Octets)
    (hs : (split base).scheme.isSome) (hb : utf8Shaped 0 base = true) (hi : utf8Shaped 0 iri = true)
    (hx : authEndsMultibyteNoPath base = false) (hl : lcp base iri ≥ (new base n).pseudoroot) :
    ∃ ins t, relativize (new base n) iri = .some ins t := by
  have h1 : relativize (new base n) iri ≠ .none := some_inside (by rw [new_base]; exact hl)
  have h2 := no_panic_utf8 (n := n) hs hb hi hx
  cases h : relativize (new base n) iri with
  | panic => exact absurd h h2
  | none => exact absurd h h1
  | some ins t => exact ⟨ins, t, rfl⟩

example : (new (s "http://a/b/c/d") 1).pseudoroot = 11 ∧ lcp (s "http://a/b/c/d") (s "http://a/b/x") = 11 ∧
    lcp (s "http://a/b/c/d") (s "http://a/x") = 9 ∧ relativize (new (s "http://a/b/c/d") 1) (s "http://a/x") = .none ∧
    relativize (new (s "http://a/b/c/d") 1) (s "http://a/b/x") = .some (.up 1) (s "x") := by decide

/-! ### the partial theorems: inside the decidable region `cleanCase` the code is right -/

/-- everything the property demands, inside `cleanCase` (see Model/Relativize.lean):
(Q) `lcp ≥ path_end` and the IRI continues with '?' (base without query if `lcp ≥ query_end`);
(F) `lcp ≥ query_end` and the IRI continues with nothing or '#';
(P) dot-free base path (rooted or rootless), tail cut strictly inside it, `CleanTail` (no dot segment in the
    emitted tail; when nothing is inserted: non-empty, no leading '/', no ':' in the first segment), path
    branches or directory extension;
(E) empty base path and a tail that is an absolute path ("/…", not "//…") without dot segments. -/
theorem rel_partial_all (base : Octets) (n : Nat) (iri : Octets) (ins : Ins) (t : Octets)
    (h : relativize (new base n) iri = .some ins t) (hc : cleanCase base n iri = true) :
    resolve base (ins.str ++ t) = iri ∧
      (split (ins.str ++ t)).scheme = none ∧ (split (ins.str ++ t)).authority = none ∧
      countDotDot (ins.str ++ t) = insUps ins := by
  unfold cleanCase at hc
  simp only [h, Bool.and_eq_true, Bool.or_eq_true, decide_eq_true_eq] at hc
  obtain ⟨hs, hreg⟩ := hc
  rcases hreg with ((⟨⟨hl, hq⟩, hb⟩ | ⟨hl, ht⟩) | ⟨⟨⟨⟨hl, hpos⟩, hbd⟩, hct⟩, _⟩) | ⟨⟨⟨⟨hp, hreg⟩, ht1⟩, ht2⟩, hnd⟩
  · -- (Q)
    have hb' : lcp base iri < (new base n).query_end ∨ (split base).query = none := by
      rcases hb with hb | hb
      · left; exact hb
      · right; simpa using hb
    exact inverse_query hs h hl hq hb'
  · -- (F)
    have hbase := new_base base n
    have ht' : t = [] ∨ ∃ f, t = '#' :: f := by
      have htd : t = iri.drop (new base n).query_end := by
        rcases relativize_cases h with ⟨_, _, hsl⟩ | ⟨_, h2, _⟩ | ⟨_, h2, _⟩ | ⟨h2, _⟩
        · exact sliceFrom_some hsl
        · rw [hbase] at h2; omega
        · rw [hbase] at h2; omega
        · rw [hbase] at h2; omega
      rw [← htd] at ht
      rcases ht with ht | ht
      · left; simpa using ht
      · right; exact startsWith_cons ht
    exact inverse_fragment hs h hl ht'
  · -- (P)
    rw [pathBegin_eq hs] at hpos
    rcases hl with ⟨hl1, hl2⟩ | ⟨⟨hl, hq⟩, hdir⟩
    · exact inverse_path hs hpos hbd h hl1 hl2 hct
    · exact inverse_extension hs hbd h hl (by simpa using hq) (by simpa using hdir) hct
  · -- (E)
    obtain ⟨t', ht'⟩ := startsWith_cons ht1
    have hreg' : (lcp base iri ≥ (new base n).query_end ∧ (split base).query = none) ∨
        (lcp base iri < (new base n).query_end ∧ lcp base iri ≤ (new base n).path_end) := by
      rcases hreg with ⟨a, b⟩ | ⟨a, b⟩
      · left; exact ⟨a, by simpa using b⟩
      · right; exact ⟨a, b⟩
    refine inverse_empty_path hs (by simpa using hp) h hreg' t' ht' ?_ hnd
    rw [ht'] at ht2
    simpa using ht2

/-- `rel_inverse` inside `cleanCase`: resolving the returned reference (RFC 3986 §5.2) gives back the IRI -/
theorem rel_inverse_partial (base : Octets) (n : Nat) (iri : Octets) (ins : Ins) (t : Octets)
    (h : relativize (new base n) iri = .some ins t) (hc : cleanCase base n iri = true) :
    resolve base (ins.str ++ t) = iri :=
  (rel_partial_all base n iri ins t h hc).1

/-- `rel_is_ref` inside `cleanCase`: the result has neither scheme nor authority -/
theorem rel_is_ref_partial (base : Octets) (n : Nat) (iri : Octets) (ins : Ins) (t : Octets)
    (h : relativize (new base n) iri = .some ins t) (hc : cleanCase base n iri = true) :
    (split (ins.str ++ t)).scheme = none ∧ (split (ins.str ++ t)).authority = none :=
  ⟨(rel_partial_all base n iri ins t h hc).2.1, (rel_partial_all base n iri ins t h hc).2.2.1⟩

/-- `rel_parents` inside `cleanCase`: the leading ".." segments of the result are exactly the inserted ones,
hence at most `parents` -/
theorem rel_parents_partial (base : Octets) (n : Nat) (iri : Octets) (ins : Ins) (t : Octets)
    (h : relativize (new base n) iri = .some ins t) (hc : cleanCase base n iri = true) :
    countDotDot (ins.str ++ t) ≤ n := by
  rw [(rel_partial_all base n iri ins t h hc).2.2.2]
  cases ins with
  | nothing => simp [insUps]
  | dotSlash => simp [insUps]
  | up k => exact (inserted_le h).2

-- the region is inhabited by every kind of branch (non-vacuity of the hypotheses)
example : relativize (new (s "http://a/b/c/d?q#f") 2) (s "http://a/b/x/y?z") = .some (.up 1) (s "x/y?z") ∧
    cleanCase (s "http://a/b/c/d?q#f") 2 (s "http://a/b/x/y?z") = true := by decide
example : relativize (new (s "http://a/b/c/d") 0) (s "http://a/b/c/") = .some .dotSlash [] ∧
    cleanCase (s "http://a/b/c/d") 0 (s "http://a/b/c/") = true := by decide
example : relativize (new (s "http://a/b/c/d") 0) (s "http://a/b/c/e/f#g") = .some .nothing (s "e/f#g") ∧
    cleanCase (s "http://a/b/c/d") 0 (s "http://a/b/c/e/f#g") = true := by decide
example : cleanCase (s "http://a/b/c/d?q") 0 (s "http://a/b/c/d?r/s#t") = true := by decide
example : cleanCase (s "http://a/b/c/d?q#f") 0 (s "http://a/b/c/d?q#g") = true := by decide
example : cleanCase (s "http://a/b/") 0 (s "http://a/b/c") = true := by decide
example : cleanCase (s "x-ample:bb/c/d") 1 (s "x-ample:bb/P1?Q2") = true ∧
    cleanCase (s "x-ample:bb/c/d") 2 (s "x-ample:P2") = false := by decide
example : cleanCase (s "http://a?q") 0 (s "http://a/b/c?r") = true ∧ cleanCase (s "http://a") 0 (s "http://a/b") = true := by decide
-- and it excludes the refuted shapes
example : cleanCase (s "http://a/b/c") 0 (s "http://a/b/x:y") = false := by decide
example : cleanCase (s "http://a/b/d") 0 (s "http://a/b//c") = false := by decide
example : cleanCase (s "http://a/b") 3 (s "http://a/bc") = false := by decide

/-! ### INPUT-side theorems (hypotheses on base, IRI and limit only) -/

/-- what the property demands of `relativize (new base n) iri`: a reference is returned, RFC 3986 5.2 resolution of it
against the base gives back the IRI, it has neither scheme nor authority, and it starts with at most `n` '..' segments -/
def Correct (base : Octets) (n : Nat) (iri : Octets) : Prop :=
  ∃ ins t, relativize (new base n) iri = .some ins t ∧ resolve base (ins.str ++ t) = iri ∧
    (split (ins.str ++ t)).scheme = none ∧ (split (ins.str ++ t)).authority = none ∧
    countDotDot (ins.str ++ t) ≤ n

/-- the hypothesis `utf8Shaped 0 _` of the theorems below is satisfied by the octets of EVERY string: it excludes
nothing that can be a Rust `&str` / Lean `String` (proved from core's description of `String.utf8EncodeChar`) -/
theorem utf8_shape_of_every_string (x : String) : utf8Shaped 0 (ofUtf8 x) = true :=
  utf8Shaped_ofUtf8 x

example : ofUtf8 "a€𝄞" = [Char.ofNat 0x61, Char.ofNat 0xE2, Char.ofNat 0x82, Char.ofNat 0xAC,
    Char.ofNat 0xF0, Char.ofNat 0x9D, Char.ofNat 0x84, Char.ofNat 0x9E] := by decide

/-- (S) same document from the inputs: the IRI has the scheme, authority and path of the base and either the same
query, or the base has no query, or the IRI has a query that does not extend the base's -/
theorem rel_same_doc_inverse_partial (base : Octets) (n : Nat) (iri : Octets)
    (hb : utf8Shaped 0 base = true) (hi : utf8Shaped 0 iri = true) (hc : sameDocInputCase base n iri = true) :
    Correct base n iri := by
  unfold sameDocInputCase at hc
  simp only [Bool.and_eq_true, Bool.or_eq_true, beq_iff_eq, decide_eq_true_eq, Option.isNone_iff_eq_none] at hc
  obtain ⟨⟨⟨⟨hs, h1⟩, h2⟩, h3⟩, hq⟩ := hc
  obtain ⟨t, ht⟩ := same_doc_some (n := n) hs hb hi h1 h2 h3
  have hq' : (split iri).query = (split base).query ∨ (split base).query = none ∨
      ((split iri).query.isSome ∧ lcp base iri < (new base n).query_end) := by
    rcases hq with (hq | hq) | hq
    · exact Or.inl hq
    · exact Or.inr (Or.inl hq)
    · exact Or.inr (Or.inr hq)
  have hcl := same_doc_clean hs h1 h2 h3 hq' ht
  obtain ⟨r1, r2, r3, r4⟩ := rel_partial_all base n iri .nothing t ht hcl
  exact ⟨.nothing, t, ht, r1, r2, r3, by rw [r4]; simp [insUps]⟩

example : sameDocInputCase (s "http://a/b?q#f") 0 (s "http://a/b?q#g") = true ∧
    sameDocInputCase (s "http://a/b#f") 3 (s "http://a/b?r") = true ∧
    sameDocInputCase (s "http://a/b?q") 0 (s "http://a/b?r#g") = true := by decide

/-- (P) the path branches over an INPUT-side region (`pathInputCase`): for UTF-8 inputs, a base path free of dot
segments with `pseudoroot` strictly inside it (every rooted path; rootless ones unless '../' climbs to the very top), a
common byte prefix that ends inside the base path (strictly, or at its end when the base has a query and the IRI's
path goes on) at or after `pseudoroot` (the IRI is inside the deepest directory reachable with `parents` steps), and an
IRI whose remaining path is plain (`cleanSuffixes` from `pseudoroot` on: every suffix starting right after a '/' of the
common prefix has no dot segment and is empty or starts with a non-empty segment without ':'). -/
theorem rel_path_input_partial (base : Octets) (n : Nat) (iri : Octets)
    (hb : utf8Shaped 0 base = true) (hi : utf8Shaped 0 iri = true) (hc : pathInputCase base n iri = true) :
    Correct base n iri := by
  unfold pathInputCase at hc
  simp only [Bool.and_eq_true, Bool.or_eq_true, decide_eq_true_eq, Bool.not_eq_true'] at hc
  obtain ⟨⟨⟨⟨⟨⟨⟨hs, hbd⟩, hpr⟩, hl0⟩, hl1⟩, hl2⟩, hl3⟩, hcl⟩ := hc
  rw [pathBegin_eq hs] at hpr
  exact inverse_path_input hs hb hi hbd hpr hl0 hl1 hl2 hl3 hcl

-- the region is inhabited ('../' inserted, './' inserted, plain tail, rootless base) and excludes the refuted shapes
example : pathInputCase (s "http://a/b/c/d?q#f") 2 (s "http://a/b/x/y?z") = true ∧
    pathInputCase (s "http://a/b/c/d") 0 (s "http://a/b/c/") = true ∧
    pathInputCase (s "http://a/b/c/d") 0 (s "http://a/b/c/e/f#g") = true ∧
    pathInputCase (s "x:/a/b/c") 1 (s "x:/a/y") = true ∧
    pathInputCase (s "x-ample:bb/c/d") 1 (s "x-ample:bb/P1?Q2") = true ∧
    pathInputCase (s "http://a/b/c?q") 1 (s "http://a/b/c/d") = true ∧
    pathInputCase (s "http://a//b/c/d") 1 (s "http://a//b/c/x") = true := by decide
example : pathInputCase (s "http://a/b/c") 0 (s "http://a/b/x:y") = false ∧
    pathInputCase (s "http://a/b/d") 0 (s "http://a/b//c") = false ∧
    pathInputCase (s "http://a/b/c") 0 (s "http://a/b/../x") = false ∧
    pathInputCase (s "http://a/b/c/d") 1 (s "http://a/x") = false ∧
    pathInputCase (s "x-ample:bb/c/d") 2 (s "x-ample:P2") = false := by decide

/-- a rooted base path always has `pseudoroot` strictly inside it (so (P) needs nothing about `new` for such bases) -/
theorem rel_pseudoroot_inside_rooted (base : Octets) (n : Nat) (hs : (split base).scheme.isSome)
    (hroot : startsSlash (split base).path = true) : (new base n).pseudoroot > pathBegin (split base) := by
  rw [pathBegin_eq hs]; exact pseudoroot_gt_of_rooted n hs hroot

/-- (X) a query-less directory base extended by a clean non-empty relative path -/
theorem rel_extension_input_partial (base : Octets) (n : Nat) (iri : Octets)
    (hb : utf8Shaped 0 base = true) (hi : utf8Shaped 0 iri = true) (hc : extInputCase base n iri = true) :
    Correct base n iri :=
  inverse_extension_input hb hi hc

example : extInputCase (s "http://a/b/") 0 (s "http://a/b/c") = true ∧
    extInputCase (s "http://a/b/#f") 2 (s "http://a/b/c/d?q") = true ∧
    extInputCase (s "http://a/b/") 0 (s "http://a/b/x:y") = false ∧
    extInputCase (s "http://a/b") 0 (s "http://a/bc") = false := by decide

/-- (E) empty base path, IRI continuing with an absolute path -/
theorem rel_empty_path_input_partial (base : Octets) (n : Nat) (iri : Octets)
    (hb : utf8Shaped 0 base = true) (hi : utf8Shaped 0 iri = true) (hc : emptyPathInputCase base n iri = true) :
    Correct base n iri :=
  inverse_empty_path_input hb hi hc

example : emptyPathInputCase (s "http://a?q") 0 (s "http://a/b/c?r") = true ∧
    emptyPathInputCase (s "http://a") 0 (s "http://a/b") = true ∧
    emptyPathInputCase (s "http://a") 0 (s "http://a//c") = false ∧
    emptyPathInputCase (s "http://a") 0 (s "http://ab") = false := by decide

/-- the property on the union of the input-side regions: hypotheses on (base, limit, IRI) only -/
theorem rel_input_partial (base : Octets) (n : Nat) (iri : Octets)
    (hb : utf8Shaped 0 base = true) (hi : utf8Shaped 0 iri = true) (hc : inputCase base n iri = true) :
    Correct base n iri := by
  unfold inputCase at hc
  simp only [Bool.or_eq_true] at hc
  rcases hc with ((h | h) | h) | h
  · exact rel_same_doc_inverse_partial base n iri hb hi h
  · exact rel_path_input_partial base n iri hb hi h
  · exact rel_extension_input_partial base n iri hb hi h
  · exact rel_empty_path_input_partial base n iri hb hi h

/-! ### the hypotheses are needed: dropping any of them admits a kernel-checked counterexample
(each witness pair is also in the harness' fixed corpus, i.e. replayed on the implementation on every run, except the
last one, which is no UTF-8 and cannot be a Rust string) -/

/-- (P) without "base path free of dot segments": `http://a/b/../c/d` / `http://a/b/../c/x` gives "x", which RFC 3986
resolves to `http://a/c/x` -/
theorem rel_input_needs_dotfree_base : ¬ Correct (s "http://a/b/../c/d") 0 (s "http://a/b/../c/x") := by
  intro ⟨ins, t, h, hr, _⟩
  have : relativize (new (s "http://a/b/../c/d") 0) (s "http://a/b/../c/x") = .some .nothing (s "x") := by decide
  rw [this] at h; injection h with h1 h2; subst h1; subst h2
  exact absurd hr (by decide)

/-- (P) without "`pseudoroot` strictly inside the path" (rootless base, '../' to the very top): `x-ample:ab/c/d` /
`x-ample:x` gives "../../x", which RFC 3986 5.2.4 resolves to `x-ample:/x` -/
theorem rel_input_needs_pseudoroot_inside : ¬ Correct (s "x-ample:ab/c/d") 2 (s "x-ample:x") := by
  intro ⟨ins, t, h, hr, _⟩
  have : relativize (new (s "x-ample:ab/c/d") 2) (s "x-ample:x") = .some (.up 2) (s "x") := by decide
  rw [this] at h; injection h with h1 h2; subst h1; subst h2
  exact absurd hr (by decide)

/-- (P) without "common prefix at or after `pseudoroot`": nothing is returned -/
theorem rel_input_needs_inside_pseudoroot : ¬ Correct (s "http://a/b/c/d") 1 (s "http://a/x") := by
  intro ⟨ins, t, h, _⟩
  have : relativize (new (s "http://a/b/c/d") 1) (s "http://a/x") = .none := by decide
  rw [this] at h; cases h

/-- (S) without the query condition (base with a query, IRI without): "" keeps the base's query -/
theorem rel_input_needs_query_condition : ¬ Correct (s "http://a/b?q") 3 (s "http://a/b") := by
  intro ⟨ins, t, h, hr, _⟩
  have : relativize (new (s "http://a/b?q") 3) (s "http://a/b") = .some .nothing [] := by decide
  rw [this] at h; injection h with h1 h2; subst h1; subst h2
  exact absurd hr (by decide)

/-- the UTF-8 shape of the IRI is needed for `rel_boundaries_utf8_partial` (a continuation octet right after a '/'
of the common prefix; the base is fine and is not of the excluded shape) -/
theorem rel_boundaries_needs_utf8_shape :
    utf8Shaped 0 (s "http://a/b/c") = true ∧ authEndsMultibyteNoPath (s "http://a/b/c") = false ∧
    utf8Shaped 0 (s "http://a/b/" ++ [Char.ofNat 0xA9]) = false ∧
    relativize (new (s "http://a/b/c") 0) (s "http://a/b/" ++ [Char.ofNat 0xA9]) = .panic := by decide

end SophiaProofs.C17
