/-
C01 — in-memory graphs/datasets are mathematical sets of quads.

Model: SophiaModel/Model/{Matcher,Store}.lean; index-selection tables regenerated from
inmem/src/{dataset,graph}.rs on every run (SophiaModel/Gen/IndexTable.lean).
Lemmas: SophiaProofs/Lemmas/{StoreDefs,StoreMut,StoreScan,StoreQuery}.lean.
-/
import SophiaProofs.Lemmas.StoreMut
import SophiaProofs.Lemmas.StoreScan

namespace SophiaProofs.C01
open SophiaModel SophiaModel.Term SophiaModel.Store SophiaProofs.StoreP

/-- Obligations on the GENERATED tables of the four store types: every index layout is a
permutation and `insert`/`remove` use the same layouts in the same lookup order; `quads()` iterates
the primary (canonical) index; every arm of `quads_matching`/`triples_matching` uses an index whose
layout starts with exactly the arm's constant positions, lower/upper bounds pad that prefix with
ZERO../..MAX, the iterator receives exactly the matchers of the remaining positions in layout
order, and the `to_gspo` closure inverts the layout; every constant-pattern selects an arm. -/
theorem tables_ok :
    descOK Gen.genericLightDataset = true ∧ descOK Gen.genericFastDataset = true ∧
    descOK Gen.genericLightGraph = true ∧ descOK Gen.genericFastGraph = true := by
  decide

/-- the four generated shapes are well-formed (layouts are permutations, the primary one is the
identity, every position is looked up exactly once by insert/remove) -/
theorem shapes_ok :
    shapeOK Gen.genericLightDataset.shape = true ∧ shapeOK Gen.genericFastDataset.shape = true ∧
    shapeOK Gen.genericLightGraph.shape = true ∧ shapeOK Gen.genericFastGraph.shape = true := by
  decide

/-- non-vacuity: the tables are the real ones (6 resp. 3 indexes, 16 resp. 8 arms) -/
example : Gen.genericFastDataset.arms.length = 16 ∧ Gen.genericFastDataset.insertLayouts.length = 6 ∧
    Gen.genericFastGraph.arms.length = 8 ∧ Gen.genericLightDataset.arms.length = 5 := by decide

/-! ### the representation invariant holds in every reachable state -/

/-- a new store of any well-formed shape and any index width satisfies the invariant -/
theorem inv_init (sh : Shape) (max : Nat) (h : shapeOK sh = true) :
    Inv (St.new sh max) ∧ lookupOrderOK (St.new sh max) := by
  obtain ⟨h1, h2, h3, h4⟩ := shapeOK_spec h
  exact ⟨inv_new sh max h1 h2 h3, by simpa [lookupOrderOK, St.new] using h4⟩

/-- `insert` and `remove` preserve it (also when `insert` fails with index-full) -/
theorem inv_step_insert {s : St} (q : Quad) (h : Inv s) (hlo : lookupOrderOK s) :
    Inv (Store.insert s q).1 ∧ lookupOrderOK (Store.insert s q).1 :=
  ⟨inv_insert h hlo, lookupOrderOK_insert q hlo⟩

theorem inv_step_remove {s : St} (q : Quad) (h : Inv s) (hlo : lookupOrderOK s) :
    Inv (Store.remove s q).1 ∧ lookupOrderOK (Store.remove s q).1 :=
  ⟨inv_remove h hlo, lookupOrderOK_remove q hlo⟩

/-! ### every mutation refines the mathematical set; flags say whether the set changed -/

/-- what a store holds is a set: no quad twice (modulo `Term::eq`) -/
theorem holds_each_once {s : St} (h : Inv s) : NodupQ (abs s) := abs_nodup h

/-- `insert` returns `true` iff the quad was absent, and afterwards the store holds exactly the
old quads plus the new one — for every shape (Light/Fast, graph/dataset) and index width -/
theorem insert_refines {s s' : St} {q : Quad} {b : Bool} (h : Inv s) (hlo : lookupOrderOK s)
    (hg : s.shape.n = 3 → q.g = none) (hi : Store.insert s q = (s', some b)) :
    b = !qmem q (abs s) ∧ SameSet (abs s') (q :: abs s) :=
  ⟨insert_flag h hlo hg hi, insert_abs h hlo hg hi⟩

/-- term index full ⇒ the error is raised with the quad sets unchanged (the term list may have
grown: terms looked up before the failing one stay in the index, as in the source) -/
theorem insert_index_full_no_change {s s' : St} {q : Quad} (h : Inv s) (hlo : lookupOrderOK s)
    (hi : Store.insert s q = (s', none)) : abs s' = abs s :=
  insert_full_abs h hlo hi

/-- `remove` returns `true` iff the quad was present, and removes exactly it -/
theorem remove_refines {s s' : St} {q : Quad} {b : Bool} (h : Inv s) (hlo : lookupOrderOK s)
    (hg : s.shape.n = 3 → q.g = none) (hr : Store.remove s q = (s', b)) :
    b = qmem q (abs s) ∧ SameSet (abs s') ((abs s).filter (fun x => !quadEq x q)) :=
  ⟨remove_flag h hlo hg hr, remove_abs h hlo hg hr⟩

/-! ### matchers -/

/-- `TermMatcher::constant()` is `Some(t)` only if the matcher matches exactly the terms equal to `t`
(every shipped matcher type) -/
theorem constant_sound_tm {m : TM} {t : Term} (h : m.constant = some t) :
    ∀ x, m.matches x = termEq t x := tm_constant_sound h

theorem constant_sound_gm {m : GM} {g : GName} (h : m.constant = some g) :
    ∀ x, m.matches x = gnameEq g x := gm_constant_sound h

/-- the matching iterators' per-position cached flags never change the result: a scan is the plain
filter by all its matchers (any rows, any order, any matchers) -/
theorem cached_scan_is_filter (max : Nat) (terms : List Term) (ms : List GM) (skip : Nat) (rows : List Row) :
    cachedScan max terms ms skip rows = rows.filter (allMatch (getName max terms) ms skip) :=
  cachedScan_eq_filter max terms ms skip rows

/-- an inclusive range scan `[bound.., ZERO..]..=[bound.., MAX..]` selects exactly the rows with the
bound prefix -/
theorem range_is_prefix_filter (pre : List Nat) (k max : Nat) (ix : List Row)
    (hrows : ∀ r ∈ ix, r.length = pre.length + k ∧ ∀ v ∈ r, v ≤ max) :
    range (pre ++ List.replicate k 0) (pre ++ List.replicate k max) ix =
      ix.filter (fun r => r.take pre.length == pre) :=
  range_prefix pre k max ix hrows

-- non-vacuity of the refinement theorems: a fresh 16-bit Fast dataset meets the hypotheses and an
-- insertion into it succeeds with flag `true`
example : (Store.insert (St.new Gen.genericFastDataset.shape Gen.maxU16)
    ⟨.iri "x:s".toList, .iri "x:p".toList, .lang "chat".toList "EN".toList, none⟩).2 = some true := by
  decide

end SophiaProofs.C01
