/-
C01 — in-memory graphs/datasets are mathematical sets of quads.

Model: SophiaModel/Model/{Matcher,Store}.lean; index-selection tables regenerated from
inmem/src/{dataset,graph}.rs on every run (SophiaModel/Gen/IndexTable.lean).
Lemmas: SophiaProofs/Lemmas/{StoreDefs,StoreMut,StoreScan,StoreQuery,StoreBulk,StoreStd}.lean.
Std-collection stores, enumerations, from_quad_source: SophiaModel/Model/StoreStd.lean.
-/
import SophiaProofs.Lemmas.StoreBulk
import SophiaProofs.Lemmas.StoreStd
import SophiaModel.Gen.MatcherTable

namespace SophiaProofs.C01
open SophiaModel SophiaModel.Term SophiaModel.Store SophiaModel.StdStore SophiaProofs.StoreP SophiaProofs.StdP

/-- Obligations on the GENERATED tables of the four store types: every index layout is a
permutation and `insert`/`remove` use the same layouts in the same lookup order; `quads()` iterates
the primary (canonical) index; every arm of `quads_matching`/`triples_matching` uses an index whose
layout starts with exactly the arm's constant positions, lower/upper bounds pad that prefix with
ZERO../..MAX, the iterator receives exactly the matchers of the remaining positions in layout
order, and the `to_gspo` closure inverts the layout; every constant-pattern selects an arm. -/
theorem tables_ok :
    descOK Gen.genericLightDataset = true ∧ descOK Gen.genericFastDataset = true ∧
    descOK Gen.genericLightGraph = true ∧ descOK Gen.genericFastGraph = true := by
  decide

/-- the four generated shapes are well-formed (layouts are permutations, the primary one is the
identity, every position is looked up exactly once by insert/remove) -/
theorem shapes_ok :
    shapeOK Gen.genericLightDataset.shape = true ∧ shapeOK Gen.genericFastDataset.shape = true ∧
    shapeOK Gen.genericLightGraph.shape = true ∧ shapeOK Gen.genericFastGraph.shape = true := by
  decide

/-- non-vacuity: the tables are the real ones (6 resp. 3 indexes, 16 resp. 8 arms) -/
example : Gen.genericFastDataset.arms.length = 16 ∧ Gen.genericFastDataset.insertLayouts.length = 6 ∧
    Gen.genericFastGraph.arms.length = 8 ∧ Gen.genericLightDataset.arms.length = 5 := by decide

/-! ### the representation invariant holds in every reachable state -/

/-- a new store of any well-formed shape and any index width satisfies the invariant -/
theorem inv_init (sh : Shape) (max : Nat) (h : shapeOK sh = true) :
    Inv (St.new sh max) ∧ lookupOrderOK (St.new sh max) := by
  obtain ⟨h1, h2, h3, h4⟩ := shapeOK_spec h
  exact ⟨inv_new sh max h1 h2 h3, by simpa [lookupOrderOK, St.new] using h4⟩

/-- `insert` and `remove` preserve it (also when `insert` fails with index-full) -/
theorem inv_step_insert {s : St} (q : Quad) (h : Inv s) (hlo : lookupOrderOK s) :
    Inv (Store.insert s q).1 ∧ lookupOrderOK (Store.insert s q).1 :=
  ⟨inv_insert h hlo, lookupOrderOK_insert q hlo⟩

theorem inv_step_remove {s : St} (q : Quad) (h : Inv s) (hlo : lookupOrderOK s) :
    Inv (Store.remove s q).1 ∧ lookupOrderOK (Store.remove s q).1 :=
  ⟨inv_remove h hlo, lookupOrderOK_remove q hlo⟩

/-! ### every mutation refines the mathematical set; flags say whether the set changed -/

/-- what a store holds is a set: no quad twice (modulo `Term::eq`) -/
theorem holds_each_once {s : St} (h : Inv s) : NodupQ (abs s) := abs_nodup h

/-- `insert` returns `true` iff the quad was absent, and afterwards the store holds exactly the
old quads plus the new one — for every shape (Light/Fast, graph/dataset) and index width -/
theorem insert_refines {s s' : St} {q : Quad} {b : Bool} (h : Inv s) (hlo : lookupOrderOK s)
    (hg : s.shape.n = 3 → q.g = none) (hi : Store.insert s q = (s', some b)) :
    b = !qmem q (abs s) ∧ SameSet (abs s') (q :: abs s) :=
  ⟨insert_flag h hlo hg hi, insert_abs h hlo hg hi⟩

/-- term index full ⇒ the error is raised with the quad sets unchanged (the term list may have
grown: terms looked up before the failing one stay in the index, as in the source) -/
theorem insert_index_full_no_change {s s' : St} {q : Quad} (h : Inv s) (hlo : lookupOrderOK s)
    (hi : Store.insert s q = (s', none)) : abs s' = abs s :=
  insert_full_abs h hlo hi

/-- `remove` returns `true` iff the quad was present, and removes exactly it -/
theorem remove_refines {s s' : St} {q : Quad} {b : Bool} (h : Inv s) (hlo : lookupOrderOK s)
    (hg : s.shape.n = 3 → q.g = none) (hr : Store.remove s q = (s', b)) :
    b = qmem q (abs s) ∧ SameSet (abs s') ((abs s).filter (fun x => !quadEq x q)) :=
  ⟨remove_flag h hlo hg hr, remove_abs h hlo hg hr⟩

/-! ### user-facing corollaries of the two refinement steps -/

/-- a quad that was just inserted is contained (whether or not it was there before) -/
theorem insert_then_contains {s s' : St} {q : Quad} {b : Bool} (h : Inv s) (hlo : lookupOrderOK s)
    (hg : s.shape.n = 3 → q.g = none) (hi : Store.insert s q = (s', some b)) :
    qmem q (abs s') = true := by
  rw [(insert_refines h hlo hg hi).2 q, qmem_cons, quadEq_refl]; rfl

/-- a quad that was just removed is not contained any more: `remove` drops EVERY stored quad equal
to it modulo `Term::eq`, not only one representative -/
theorem remove_then_absent {s s' : St} {q : Quad} {b : Bool} (h : Inv s) (hlo : lookupOrderOK s)
    (hg : s.shape.n = 3 → q.g = none) (hr : Store.remove s q = (s', b)) :
    qmem q (abs s') = false := by
  have hf : Resp (fun x => !quadEq x q) := fun a c hac => by
    show (!quadEq a q) = (!quadEq c q); rw [quadEq_congr_left q hac]
  rw [(remove_refines h hlo hg hr).2 q, qmem_filter hf, quadEq_refl]; rfl

/-- `insert` is idempotent: a second insertion of the same quad (or of any quad equal to it modulo
`Term::eq`) that succeeds reports "no change" and leaves the same set -/
theorem insert_idempotent {s s' s'' : St} {q q' : Quad} {b b' : Bool} (h : Inv s) (hlo : lookupOrderOK s)
    (hg : s.shape.n = 3 → q.g = none) (hi : Store.insert s q = (s', some b))
    (hg' : s.shape.n = 3 → q'.g = none) (hqq : quadEq q' q = true)
    (hi' : Store.insert s' q' = (s'', some b')) :
    b' = false ∧ SameSet (abs s'') (abs s') := by
  have hsh : s'.shape = s.shape := by have := insert_shape s q; rw [hi] at this; exact this
  have h1 := inv_step_insert q h hlo
  rw [hi] at h1
  have hc : qmem q' (abs s') = true := by
    rw [qmem_congr (abs s') hqq]; exact insert_then_contains h hlo hg hi
  have h2 := insert_refines h1.1 h1.2 (by rw [hsh]; exact hg') hi'
  refine ⟨by rw [h2.1, hc]; rfl, fun x => ?_⟩
  rw [h2.2 x, qmem_cons]
  cases hx : quadEq q' x with
  | false => rfl
  | true => rw [← qmem_congr (abs s') hx, hc]; rfl

/-- inserting an absent quad and removing it again gives back the set held before -/
theorem insert_remove_restores {s s' s'' : St} {q : Quad} {b b' : Bool} (h : Inv s) (hlo : lookupOrderOK s)
    (hg : s.shape.n = 3 → q.g = none) (habs : qmem q (abs s) = false)
    (hi : Store.insert s q = (s', some b))
    (hr : Store.remove s' q = (s'', b')) :
    b = true ∧ b' = true ∧ SameSet (abs s'') (abs s) := by
  have hsh : s'.shape = s.shape := by have := insert_shape s q; rw [hi] at this; exact this
  have h1 := inv_step_insert q h hlo
  rw [hi] at h1
  have hI := insert_refines h hlo hg hi
  have hR := remove_refines h1.1 h1.2 (by rw [hsh]; exact hg) hr
  have hf : Resp (fun x => !quadEq x q) := fun a c hac => by
    show (!quadEq a q) = (!quadEq c q); rw [quadEq_congr_left q hac]
  refine ⟨by rw [hI.1, habs]; rfl, by rw [hR.1]; exact insert_then_contains h hlo hg hi, fun x => ?_⟩
  rw [hR.2 x, qmem_filter hf, hI.2 x, qmem_cons]
  cases hx : quadEq x q with
  | false => rw [quadEq_symm q x, hx]; rfl
  | true => rw [qmem_congr (abs s) hx, habs]; simp

/-- removing an absent quad reports "no change" and leaves the same set -/
theorem remove_absent_noop {s s' : St} {q : Quad} {b : Bool} (h : Inv s) (hlo : lookupOrderOK s)
    (hg : s.shape.n = 3 → q.g = none) (habs : qmem q (abs s) = false)
    (hr : Store.remove s q = (s', b)) :
    b = false ∧ SameSet (abs s') (abs s) := by
  have hR := remove_refines h hlo hg hr
  have hf : Resp (fun x => !quadEq x q) := fun a c hac => by
    show (!quadEq a q) = (!quadEq c q); rw [quadEq_congr_left q hac]
  refine ⟨by rw [hR.1, habs], fun x => ?_⟩
  rw [hR.2 x, qmem_filter hf]
  cases hx : quadEq x q with
  | false => rfl
  | true => rw [qmem_congr (abs s) hx, habs]; rfl

/-- `remove` is idempotent: a second removal of the same quad reports "no change" -/
theorem remove_idempotent {s s' s'' : St} {q : Quad} {b b' : Bool} (h : Inv s) (hlo : lookupOrderOK s)
    (hg : s.shape.n = 3 → q.g = none) (hr : Store.remove s q = (s', b))
    (hr' : Store.remove s' q = (s'', b')) :
    b' = false ∧ SameSet (abs s'') (abs s') := by
  have hsh : s'.shape = s.shape := by have := remove_shape s q; rw [hr] at this; exact this
  have h1 := inv_step_remove q h hlo
  rw [hr] at h1
  exact remove_absent_noop h1.1 h1.2 (by rw [hsh]; exact hg) (remove_then_absent h hlo hg hr) hr'

/-- the hypotheses are met by a concrete history: insert an absent quad into a fresh FastDataset -/
example : ∃ s' b, Store.insert (St.new Gen.genericFastDataset.shape Gen.maxU16)
      ⟨.iri ['a'], .iri ['p'], .lit ['1'] ['d'], some (.iri ['g'])⟩ = (s', some b) ∧ b = true := by
  refine ⟨_, _, rfl, ?_⟩; decide

/-! ### matchers -/

/-- `TermMatcher::constant()` is `Some(t)` only if the matcher matches exactly the terms equal to `t`
(every shipped matcher type) -/
theorem constant_sound_tm {m : TM} {t : Term} (h : m.constant = some t) :
    ∀ x, m.matches x = termEq t x := tm_constant_sound h

theorem constant_sound_gm {m : GM} {g : GName} (h : m.constant = some g) :
    ∀ x, m.matches x = gnameEq g x := gm_constant_sound h

/-- the matching iterators' per-position cached flags never change the result: a scan is the plain
filter by all its matchers (any rows, any order, any matchers) -/
theorem cached_scan_is_filter (max : Nat) (terms : List Term) (ms : List GM) (skip : Nat) (rows : List Row) :
    cachedScan max terms ms skip rows = rows.filter (allMatch (getName max terms) ms skip) :=
  cachedScan_eq_filter max terms ms skip rows

/-- an inclusive range scan `[bound.., ZERO..]..=[bound.., MAX..]` selects exactly the rows with the
bound prefix -/
theorem range_is_prefix_filter (pre : List Nat) (k max : Nat) (ix : List Row)
    (hrows : ∀ r ∈ ix, r.length = pre.length + k ∧ ∀ v ∈ r, v ≤ max) :
    range (pre ++ List.replicate k 0) (pre ++ List.replicate k max) ix =
      ix.filter (fun r => r.take pre.length == pre) :=
  range_prefix pre k max ix hrows

/-! ### queries -/

/-- **Every pattern query returns exactly the matching members, each once** — for every arm of
every generated index-selection table (`descOK`, re-decided on every run), every store state
satisfying the invariant, every mix of matchers on s / p / o / g. -/
theorem scan_eq_filter {d : StoreDesc} {s : St} (hd : descOK d = true) (hs : s.shape = d.shape)
    (h : Inv s) (p : Pat) (hp : p.ms.length = d.n) :
    SameSet (quadsMatching d.arms s p) ((abs s).filter (quadMatched d.n p)) ∧
    NodupQ (quadsMatching d.arms s p) :=
  quadsMatching_spec hd hs h p hp

/-- `contains` (the default method: `quads_matching([s],[p],[o],[g])` non-empty) is set membership -/
theorem contains_is_membership {d : StoreDesc} {s : St} (hd : descOK d = true) (hs : s.shape = d.shape)
    (h : Inv s) (q : Quad) (hg : d.n = 3 → q.g = none) :
    contains d.arms s q = qmem q (abs s) :=
  contains_spec hd hs h q hg

/-- matchers cannot tell `Term::eq`-equal terms apart, so "the matching members" is well defined -/
theorem matching_respects_term_eq (n : Nat) (p : Pat) (a b : Quad) (h : quadEq a b = true) :
    quadMatched n p a = quadMatched n p b :=
  quadMatched_resp n p a b h

/-! ### bulk and pattern-selected mutations: counts state how often the set really changed -/

theorem insert_all_refines {d : StoreDesc} {qs : List Quad} {s s' : St} {c c' : Nat} (hG : Good d s)
    (hq : ∀ q ∈ qs, QOK d q) (h : insertAll s qs c = (s', some c')) :
    SameSet (abs s') (qs.reverse ++ abs s) ∧ c' = c + (specInsertAll (abs s) qs 0).2 :=
  ⟨(insertAll_spec hG hq h).1, insertAll_count hG hq h⟩

/-- index-full in the middle of a bulk insertion: exactly the quads before the failing one were added -/
theorem insert_all_full_prefix {d : StoreDesc} {qs : List Quad} {s s' : St} {c : Nat} (hG : Good d s)
    (hq : ∀ q ∈ qs, QOK d q) (h : insertAll s qs c = (s', none)) :
    ∃ k, k < qs.length ∧ SameSet (abs s') ((qs.take k).reverse ++ abs s) :=
  insertAll_full hG hq h

theorem remove_all_refines {d : StoreDesc} (qs : List Quad) {s : St} (c : Nat) (hG : Good d s)
    (hq : ∀ q ∈ qs, QOK d q) :
    SameSet (abs (removeAll s qs c).1) ((abs s).filter (fun x => !qmem x qs)) :=
  (removeAll_spec qs c hG hq).1

/-- `remove_matching` (collect the matches, then `remove_all`) removes exactly the matching quads
and returns their number -/
theorem remove_matching_refines {d : StoreDesc} {s s' : St} {p : Pat} {c : Nat} (hG : Good d s)
    (hp : p.ms.length = d.n) (h : removeMatching d.arms s p = (s', c)) :
    SameSet (abs s') ((abs s).filter (fun q => !quadMatched d.n p q)) ∧
    c = ((abs s).filter (quadMatched d.n p)).length :=
  removeMatching_spec hG hp h

theorem retain_matching_refines {d : StoreDesc} {s : St} (p : Pat) (hG : Good d s) :
    SameSet (abs (retainMatching s p)) ((abs s).filter (quadMatched d.n p)) :=
  retainMatching_spec p hG

/-! ### every finite history -/

/-- **After any finite operation history** (insert / remove / insert_all / remove_all /
remove_matching / retain_matching, in any order, on any of the generated store types, with any
index width `max`, *including histories that exhaust the term index*) the store is in a good
state, holds exactly — modulo `Term::eq`, each quad once — the quads of the plain-set
specification `stepSF` (which knows nothing about indexes, rows or arm tables; it only tracks
which terms have been seen so far, because that alone decides when `TermIndexFullError` occurs),
and has interned exactly those terms. -/
theorem run_refines_spec (d : StoreDesc) (hd : descOK d = true) (max : Nat) (ops : List Op)
    (hq : ∀ op ∈ ops, OpOK d op) :
    let s := ops.foldl (stepM d) (St.new d.shape max)
    let σ := ops.foldl (stepSF max d.n) ⟨[], []⟩
    Good d s ∧ SameSet (abs s) σ.quads ∧ NodupQ (abs s) ∧ s.terms = σ.seen :=
  run_refines_full d hd max ops hq

/-- observables after any history: membership and pattern queries answer as the specification -/
theorem run_contains_spec (d : StoreDesc) (hd : descOK d = true) (max : Nat) (ops : List Op)
    (hq : ∀ op ∈ ops, OpOK d op) (q : Quad) (hqq : QOK d q) :
    contains d.arms (ops.foldl (stepM d) (St.new d.shape max)) q =
      qmem q (ops.foldl (stepSF max d.n) ⟨[], []⟩).quads :=
  run_contains_full d hd max ops hq q hqq

theorem run_query_spec (d : StoreDesc) (hd : descOK d = true) (max : Nat) (ops : List Op)
    (hq : ∀ op ∈ ops, OpOK d op) (p : Pat) (hp : p.ms.length = d.n) :
    SameSet (quadsMatching d.arms (ops.foldl (stepM d) (St.new d.shape max)) p)
      (Spec.matching d.n (ops.foldl (stepSF max d.n) ⟨[], []⟩).quads p) ∧
    NodupQ (quadsMatching d.arms (ops.foldl (stepM d) (St.new d.shape max)) p) :=
  run_quadsMatching_full d hd max ops hq p hp

/-- when the index cannot fill up (at most `max / 4` quads ever inserted) the specification is the
plain list of quads with `Spec.insert` / `Spec.remove` and nothing else: all shipped
implementations (Light/Fast, 16/32-bit, graph/dataset) refine the SAME specification -/
theorem run_refines_plain_set (d : StoreDesc) (hd : descOK d = true) (max : Nat) (ops : List Op)
    (hq : ∀ op ∈ ops, OpOK d op) (hsz : 4 * histSize ops ≤ max) :
    let s := ops.foldl (stepM d) (St.new d.shape max)
    let t := ops.foldl (stepS d.n) []
    Good d s ∧ SameSet (abs s) t ∧ NodupQ (abs s) :=
  run_refines_small d hd max ops hq hsz

-- non-vacuity of the refinement theorems: a fresh 16-bit Fast dataset meets the hypotheses and an
-- insertion into it succeeds with flag `true`
example : (Store.insert (St.new Gen.genericFastDataset.shape Gen.maxU16)
    ⟨.iri "x:s".toList, .iri "x:p".toList, .lang "chat".toList "EN".toList, none⟩).2 = some true := by
  decide

/-! ### enumerations (`subjects` … `quoted_triples`) -/

/-- **every enumeration is a function of the set of quads held**: two representations of the same
set (modulo `Term::eq`) enumerate the same terms (modulo `Term::eq`), for each of the nine
enumerating methods, graphs and datasets -/
theorem enumerations_respect_set (n : Nat) (k : EnumKind) {a b : List Quad} (h : SameSet a b) (t : Term) :
    tmem t (enumTerms n k a) = tmem t (enumTerms n k b) :=
  enumTerms_sameset n k h t

/-- after any history (index-full included) every enumeration of the indexed store answers as the
same enumeration of the plain-set specification -/
theorem run_enum_spec (d : StoreDesc) (hd : descOK d = true) (max : Nat) (ops : List Op)
    (hq : ∀ op ∈ ops, OpOK d op) (k : EnumKind) (t : Term) :
    tmem t (enumTerms d.n k (Store.quads (ops.foldl (stepM d) (St.new d.shape max)))) =
      tmem t (enumTerms d.n k (ops.foldl (stepSF max d.n) ⟨[], []⟩).quads) :=
  enumTerms_sameset d.n k (run_refines_full d hd max ops hq).2.1 t

-- non-vacuity: a quoted triple contributes its atoms to `iris` and itself to `quoted_triples`
example : enumTerms 4 .iris [⟨.triple (.iri ['a']) (.iri ['p']) (.bnode ['b']), .iri ['p'], .lit ['1'] ['d'], some (.iri ['g'])⟩]
    = [.iri ['a'], .iri ['p'], .iri ['p'], .iri ['g']] := by decide
example : (enumTerms 3 .qtriples [⟨.triple (.iri ['a']) (.iri ['p']) (.bnode ['b']), .iri ['p'], .lit ['1'] ['d'], none⟩]).length = 1 := by
  decide

/-! ### `from_quad_source` / `from_triple_source` -/

/-- a store built from a source holds exactly the set of the source's quads, each once (any of the
generated store types, any index width) -/
theorem from_source_is_set (d : StoreDesc) (hd : descOK d = true) (max : Nat) (qs : List Quad)
    (hq : ∀ q ∈ qs, QOK d q) {s : St} (h : collect d.shape max qs = some s) :
    Good d s ∧ SameSet (abs s) qs ∧ NodupQ (abs s) :=
  collect_spec d hd max qs hq h

/-- … and it fails exactly when inserting the quads in turn into a fresh store exhausts the index -/
theorem from_source_fails_iff_full (sh : Shape) (max : Nat) (qs : List Quad) :
    collect sh max qs = none ↔ (insertAll (St.new sh max) qs 0).2 = none :=
  collect_none_iff sh max qs

-- non-vacuity: a duplicate in the source is stored once
example : (collect Gen.genericFastGraph.shape Gen.maxU16
    [⟨.iri ['s'], .iri ['p'], .lang ['x'] ['e', 'n'], none⟩, ⟨.iri ['s'], .iri ['p'], .lang ['x'] ['E', 'N'], none⟩]).map
      (fun s => (Store.quads s).length) = some 1 := by decide

/-! ### `constant()` of the transcribed matchers is what the SOURCE says

`Gen/MatcherTable.lean` is regenerated on every run from `api/src/term/matcher/*.rs`: for every
`impl TermMatcher/GraphNameMatcher for T`, the shape in which `constant()` is written (or that it is
not overridden, the default being `None`). The transcribed `TM.constant` / `GM.constant` are exactly
the meaning of those shapes, and every impl of the source is transcribed; `constant_sound_tm/gm`
then say the source's `constant()`s are sound. A new or changed `constant()` fails these obligations. -/

open SophiaModel.MatcherSrc in
theorem tm_constant_from_source (m : TM) : ∀ ty ∈ TM.implTypes m,
    ∃ c, lookupImpl Gen.termMatcherConst ty = some c ∧ m.constant = TM.interp c m := by
  cases m with
  | arr ts =>
    intro ty hty
    simp only [TM.implTypes, List.mem_cons, List.mem_nil_iff, or_false] at hty
    rcases hty with rfl | rfl
    all_goals
      refine ⟨.single, by decide, ?_⟩
      match ts with
      | [] => rfl
      | [_] => rfl
      | _ :: _ :: _ => rfl
  | opt o =>
    intro ty hty
    simp only [TM.implTypes, List.mem_cons, List.mem_nil_iff, or_false] at hty
    subst hty
    exact ⟨.selfOpt, by decide, rfl⟩
  | _ =>
    intro ty hty
    simp only [TM.implTypes, List.mem_cons, List.mem_nil_iff, or_false] at hty
    subst hty
    exact ⟨.never, by decide, rfl⟩

open SophiaModel.MatcherSrc in
theorem gm_constant_from_source (m : GM) : ∀ ty ∈ GM.implTypes m,
    ∃ c, lookupImpl Gen.graphNameMatcherConst ty = some c ∧ m.constant = GM.interp c m := by
  cases m with
  | arr gs =>
    intro ty hty
    simp only [GM.implTypes, List.mem_cons, List.mem_nil_iff, or_false] at hty
    rcases hty with rfl | rfl
    all_goals
      refine ⟨.single, by decide, ?_⟩
      match gs with
      | [] => rfl
      | [_] => rfl
      | _ :: _ :: _ => rfl
  | opt o =>
    intro ty hty
    simp only [GM.implTypes, List.mem_cons, List.mem_nil_iff, or_false] at hty
    subst hty
    exact ⟨.selfOpt, by decide, rfl⟩
  | gn tm =>
    intro ty hty
    simp only [GM.implTypes, List.mem_cons, List.mem_nil_iff, or_false] at hty
    subst hty
    exact ⟨.innerSome, by decide, rfl⟩
  | _ =>
    intro ty hty
    simp only [GM.implTypes, List.mem_cons, List.mem_nil_iff, or_false] at hty
    subst hty
    exact ⟨.never, by decide, rfl⟩

open SophiaModel.MatcherSrc in
/-- every matcher impl of the source is transcribed (`MatcherRef` is the borrow of another matcher:
`self.0.constant()`) -/
theorem matcher_impls_covered :
    (∀ e ∈ Gen.termMatcherConst, e.1 ∈ tmTypes ∨ e = ("MatcherRef<'_, T>", .inner)) ∧
    (∀ e ∈ Gen.graphNameMatcherConst, e.1 ∈ gmTypes ∨ e = ("MatcherRef<'_, T>", .inner)) := by
  decide


-- non-vacuity: the table is the real one
example : Gen.termMatcherConst.length = 11 ∧ Gen.graphNameMatcherConst.length = 10 := by decide

/-! ### the pre-load of the index-full histories

The driver's `fill` / `collectfill` requests put 65 000 quads into a store through
`StdStore.bulkInsert`, whose fast path writes the resulting state down directly. It is not a separate,
hand-built state: it IS the state `insert_all` produces, so the histories that exhaust a 16-bit term
index are histories of `Store.insert`, covered by `run_refines_spec`. -/

/-- `bulkInsert` (either path) equals `Store.insertAll` on the same quads, for every store in a good
state, every fixed subject/predicate, every offset and length of the literal sequence -/
theorem fill_is_insert_all {d : StoreDesc} {s : St} (hG : Good d s) (sT pT : Term) (off m : Nat) :
    bulkInsert s sT pT (fillTerms off m) = insertAll s (objQuads sT pT (fillTerms off m)) 0 :=
  bulkInsert_eq_insertAll hG sT pT (fillTerms_pairwise off m)

/-- the fast path alone, at full generality: any never-seen pairwise different objects -/
theorem bulk_fresh_is_insert_all {d : StoreDesc} {s : St} {sT pT : Term} {is ip : Nat} (ts : List Term) (c : Nat)
    (hG : Good d s) (hs : getIndex s.terms sT = some is) (hp : getIndex s.terms pT = some ip)
    (hf : FreshList s.terms ts) (hroom : s.terms.length + ts.length ≤ s.max) :
    insertAll s (objQuads sT pT ts) c = (bulkFresh s is ip ts, some (c + ts.length)) :=
  bulkFresh_eq_insertAll ts c hG hs hp hf hroom

/-- hence the pre-loaded state satisfies the representation invariant -/
theorem fill_state_good {d : StoreDesc} {s : St} (hG : Good d s) (sT pT : Term) (off m : Nat) :
    Good d (bulkInsert s sT pT (fillTerms off m)).1 := by
  rw [fill_is_insert_all hG]; exact good_insertAll _ 0 hG

-- non-vacuity: fresh stores of the generated types are in a good state; the fill literals differ
example : Good Gen.genericFastDataset (St.new Gen.genericFastDataset.shape Gen.maxU16) :=
  good_new tables_ok.2.1 _
example : termEq (fillTerm 7) (fillTerm 65532) = false := fillTerm_ne (by decide)

/-! ### vector-backed stores behave as the corresponding list

`Vec::push`, `Vec::swap_remove`, the `while i < self.len()` loop of `Vec<Spog<T>>::remove` /
`Vec<[T;3]>::remove` and `position` + `swap_remove` of `Vec<Gspo<T>>::remove` are modelled literally
(`SophiaModel.StdStore`). The returned flags are "not significant" (trait docs) and not part of the
statements, except where the implementation does compute one (`Vec<Gspo<T>>::remove`). -/

/-- `Vec<Spog<T>>::remove` / `Vec<[T;3]>::remove`: every occurrence of the quad goes, every other
entry stays with its multiplicity -/
theorem vec_remove_all_is_filter (d : List Quad) (q : Quad) :
    (vecRemoveAll d q).1.Perm (d.filter (fun x => !quadEq x q)) :=
  vecRemoveAll_perm d q

/-- `Vec<Gspo<T>>::remove`: absent ⇒ nothing changes and the flag is `false`; present ⇒ the flag is
`true` and exactly the first occurrence goes -/
theorem vec_remove_first_removes_one (d : List Quad) (q : Quad) :
    (qmem q d = false → vecRemoveFirst d q = (d, false)) ∧
    (qmem q d = true → (vecRemoveFirst d q).2 = true ∧
      (vecRemoveFirst d q).1.Perm (d.eraseP (fun x => quadEq x q))) :=
  vecRemoveFirst_spec d q

/-- after ANY history of insert / remove / insert_all / remove_all / remove_matching /
retain_matching a `Vec<Spog<T>>` (n = 4) or `Vec<[T;3]>` (n = 3) holds, as a multiset, exactly the
corresponding list (`listStep`: append; drop every `Term::eq`-occurrence) -/
theorem vec_history_is_list (n : Nat) (ops : List Op) :
    (ops.foldl (vecStep true n) []).Perm (ops.foldl (listStep n) []) :=
  vec_run_perm n ops

-- non-vacuity: the loop really removes adjacent and trailing duplicates (the `swap_remove` cases)
example : (vecRemoveAll [⟨.iri ['a'], .iri ['p'], .iri ['a'], none⟩, ⟨.iri ['b'], .iri ['p'], .iri ['a'], none⟩,
    ⟨.iri ['a'], .iri ['p'], .iri ['a'], none⟩, ⟨.iri ['a'], .iri ['p'], .iri ['a'], none⟩]
    ⟨.iri ['a'], .iri ['p'], .iri ['a'], none⟩).1 = [⟨.iri ['b'], .iri ['p'], .iri ['a'], none⟩] := by decide

/-- after ANY history a `Vec<Gspo<T>>` (whose `remove` drops the first occurrence only) holds, as a
bag modulo `Term::eq`, exactly the corresponding list (`listStepFirst`: append; drop one occurrence) -/
theorem vec_gspo_history_is_list (n : Nat) (ops : List Op) :
    SameBag (ops.foldl (vecStep false n) []) (ops.foldl (listStepFirst n) []) :=
  vec_first_run_bag n ops

-- non-vacuity: one of two equal entries survives a removal, and the flag says so
example : (vecRemoveFirst [⟨.iri ['a'], .iri ['p'], .lang ['x'] ['e', 'n'], none⟩, ⟨.iri ['b'], .iri ['p'], .iri ['a'], none⟩,
    ⟨.iri ['a'], .iri ['p'], .lang ['x'] ['E', 'N'], none⟩] ⟨.iri ['a'], .iri ['p'], .lang ['x'] ['e', 'n'], none⟩) =
    ([⟨.iri ['a'], .iri ['p'], .lang ['x'] ['E', 'N'], none⟩, ⟨.iri ['b'], .iri ['p'], .iri ['a'], none⟩], true) := by decide

/-! ### the one over-demand of `descOK`, and why it is there -/

/-- the lookup-order clause of `descOK` is what `run_refines_spec`'s conclusion `s.terms = σ.seen`
needs, and nothing else fails for the reordered store: with room for 3 terms and a quad of 4 new
terms, the reordered store leaves `g, s, p` interned where the specification `stepSF` (order
s, p, o, g) has `s, p, o` — the quad sets agree (both empty) -/
theorem lookup_order_needed :
    let q : Quad := ⟨.iri ['s'], .iri ['p'], .iri ['o'], some (.iri ['g'])⟩
    let s := [Op.ins q].foldl (stepM gFirst) (St.new gFirst.shape 3)
    let σ := [Op.ins q].foldl (stepSF 3 4) ⟨[], []⟩
    descOK gFirst = false ∧ descOK { gFirst with insertOrder := [1, 2, 3, 0], removeOrder := [1, 2, 3, 0] } = true ∧
    s.terms = [.iri ['g'], .iri ['s'], .iri ['p']] ∧ σ.seen = [.iri ['s'], .iri ['p'], .iri ['o']] ∧
    abs s = [] ∧ σ.quads = [] := by
  decide

end SophiaProofs.C01
