import SophiaProofs.Lemmas.JsonLdRender
import SophiaProofs.Lemmas.JsonLdMark

/-!
C12 — JSON-LD serialisation round-trips every representable dataset.

All statements are about `SophiaModel.JsonLd.serialize` / `toRdf`, the functions the driver
`smd_C12` executes and the harness compares with the real `JsonLdSerializer` / `JsonLdParser`.

`Shipped` is the switch regenerated from `jsonld/src/serializer/engine.rs` on every run: the
source indexes `self.unique_parent[s_id]` (shipped) or uses `.get(s_id)` (text of
notes/fixes/C12-unreferenced-list-head.diff).  Statements that are only true of one of the two
texts carry the switch as a hypothesis, so that the file checks against either.
-/
namespace SophiaProofs.C12
open SophiaModel SophiaModel.JsonLd SophiaProofs.JsonLdLemmas
open SophiaModel.JsonLd.RdfObject (startsBn)

abbrev Shipped : Prop := Gen.JsonLdFlags.uniqueParentGet = false

/-! ## 1. no panic -/

/-- full-strength statement; FALSE for the code as shipped (`no_panic_refuted`) -/
def NoPanic : Prop := ∀ (o : Opts) (D : List Quad), isPanic (serialize o D) = false

/-- `_:l rdf:first <http://x/a> . _:l rdf:rest rdf:nil .` — nothing refers to `_:l` -/
def unreferencedHead : List Quad :=
  [⟨.bnode ['l'], .iri rdfFirst, .iri "http://x/a".toList, none⟩,
   ⟨.bnode ['l'], .iri rdfRest, .iri rdfNil, none⟩]

theorem no_panic_witness : Shipped → isPanic (serialize {} unreferencedHead) = true := by decide

theorem no_panic_refuted : Shipped → ¬ NoPanic := fun hs h => by
  have := h {} unreferencedHead
  rw [no_panic_witness hs] at this
  cases this

/-- What guards the indexing `self.unique_parent[s_id]`: every node id beginning with `_:` that is the
subject of an expressible `rdf:rest` quad is the id of the (blank) object of some expressible quad.
For well-formed IRIs (which never begin with `_:`) this reads: every blank node that is the subject
of `rdf:rest` occurs as the object of some quad. -/
def RestSubjectsReferenced (D : List Quad) : Prop :=
  ∀ q ∈ D, isJsonLd q = true → isIriC rdfRest q.p = true → startsBn (asId q.s) = true →
    ∃ q' ∈ D, isJsonLd q' = true ∧ isBnode q'.o = true ∧ asId q'.o = asId q.s

/-- the hypothesis is satisfiable by a dataset with a list -/
example : RestSubjectsReferenced
    (⟨.iri "http://x/s".toList, .iri "http://x/p".toList, .bnode ['l'], none⟩ :: unreferencedHead) := by
  intro q hq _ _ _
  exact ⟨_, List.mem_cons_self, by decide, by decide, by
    simp only [unreferencedHead, List.mem_cons, List.not_mem_nil, or_false] at hq
    rcases hq with rfl | rfl | rfl <;> first | rfl | (exfalso; revert ‹isIriC rdfRest _ = true›; decide)⟩

/-- and excludes the witness -/
example : ¬ RestSubjectsReferenced unreferencedHead := by
  intro h
  obtain ⟨q', hq', _, hb, _⟩ := h ⟨.bnode ['l'], .iri rdfRest, .iri rdfNil, none⟩ (by simp [unreferencedHead])
    (by decide) (by decide) (by decide)
  simp only [unreferencedHead, List.mem_cons, List.not_mem_nil, or_false] at hq'
  rcases hq' with rfl | rfl <;> revert hb <;> decide

/-- **no_panic_partial**: the marking phase of `into_json` — the only code that indexes
`unique_parent` — does not panic on any dataset in which the subjects of `rdf:rest` are referenced
(or on any dataset at all once the lookup is `.get(..)`).

Full statement still open: `∀ o D, RestSubjectsReferenced D → (IRIs have ≥ 2 leading ASCII bytes) →
isPanic (serialize o D) = false`.  Missing obligation: the rendering phase (`populate_list`'s
`map[RDF_FIRST][0]`, `map[RDF_REST][0]`) — it needs the invariant "a `Node(i, id)` value whose id is in
`list_node` sits in the unique parent's slot, hence `i` is the marked slot", which is argued in
notes but not formalised; the differential has never seen it fail. -/
theorem no_panic_partial (o : Opts) (D : List Quad)
    (h : Gen.JsonLdFlags.uniqueParentGet = true ∨ RestSubjectsReferenced D) :
    isPanic (markAll o (processQuads o D) (processQuads o D).listSeeds []) = false := by
  have inv := inv_processQuads o D
  refine markAll_no_panic o _ D inv.parents ?_ _ _ inv.seeds
  rcases h with h | h
  · exact Or.inl h
  · right
    intro s hbn ⟨q, hq, hj, hr, hs⟩
    obtain ⟨q', hq', hj', hb', hs'⟩ := h q hq hj hr (hs ▸ hbn)
    have := inv.keys q' hq' hj' hb'
    rwa [hs', hs] at this

/-! ## 2. the only quads omitted from the engine's input are those `is_jsonld` rejects -/

/-- **dropped_iff_not_jsonld** (engine level): the document depends on the quads `is_jsonld` keeps and
on nothing else — dropping the rejected quads beforehand changes nothing, and (`isJsonLd_spec`)
`is_jsonld` is exactly the property's notion of "expressible".  That every kept quad is *rendered*
is the round-trip statement (sections 3, 4). -/
theorem dropped_iff_not_jsonld (o : Opts) (D : List Quad) :
    serialize o D = serialize o (D.filter isJsonLd) := by
  unfold serialize processQuads
  rw [foldl_filter]

/-- `is_jsonld` = "IRI or blank subject and graph name, IRI predicate, IRI / blank / literal object" -/
theorem isJsonLd_spec (q : Quad) : isJsonLd q = true ↔
    ((∃ s, q.s = .iri s) ∨ (∃ b, q.s = .bnode b)) ∧ (∃ p, q.p = .iri p) ∧
    ((∃ s, q.o = .iri s) ∨ (∃ b, q.o = .bnode b) ∨ (∃ l d, q.o = .lit l d) ∨ (∃ l t, q.o = .lang l t)) ∧
    (q.g = none ∨ ∃ g, q.g = some g ∧ ((∃ s, g = .iri s) ∨ (∃ b, g = .bnode b))) := by
  unfold isJsonLd
  simp only [Bool.and_eq_true, isSubject_spec, isIri_spec, isObject_spec, and_assoc]
  cases q.g with
  | none => simp
  | some g => simp [isSubject_spec]

example : isJsonLd ⟨.lit ['a'] xsdString, .iri ['p'], .iri ['o'], none⟩ = false := by decide
example : isJsonLd ⟨.iri ['s'], .iri ['p'], .lang ['o'] ['e', 'n'], some (.bnode ['g'])⟩ = true := by decide

/-! ## 3. round trip, and the safety condition of list compaction -/

def renameT (f : Str → Str) : Term → Term
  | .bnode b => .bnode (f b)
  | t => t

def renameQ (f : Str → Str) (q : Quad) : Quad :=
  ⟨renameT f q.s, q.p, renameT f q.o, q.g.map (renameT f)⟩

/-- blank-node isomorphism of two datasets (lists read as sets) -/
def Iso (A B : List Quad) : Prop :=
  ∃ f : Str → Str, (∀ a b, f a = f b → a = b) ∧ ∀ q, q ∈ B ↔ ∃ q' ∈ A, q = renameQ f q'

/-- the property, on the model: reading the document back gives the expressible quads up to isomorphism -/
def RoundTrips (o : Opts) (D : List Quad) : Prop :=
  ∃ doc, serialize o D = .ok doc ∧ Iso (D.filter isJsonLd) (toRdf o doc)

/-- the goal (FALSE for the code as written: `roundtrip_refuted_*`) -/
def RoundTripAll : Prop := ∀ o D, o.dir = .none → RoundTrips o D

/-- what comes back (empty when the serializer fails) -/
def outQuads (o : Opts) (D : List Quad) : List Quad :=
  match serialize o D with
  | .ok d => toRdf o d
  | .error _ => []

theorem outQuads_of_ok {o : Opts} {D : List Quad} {doc : Doc} (h : serialize o D = .ok doc) :
    toRdf o doc = outQuads o D := by simp [outQuads, h]

/-- an isomorphism preserves predicates, non-blank objects and non-blank graph names -/
theorem Iso.image {A B : List Quad} (h : Iso A B) {q : Quad} (hq : q ∈ A) :
    ∃ q2 ∈ B, q2.p = q.p ∧ (isBnode q.o = false → q2.o = q.o) ∧
      ((∀ b, q.g ≠ some (.bnode b)) → q2.g = q.g) := by
  obtain ⟨f, _, hf⟩ := h
  refine ⟨renameQ f q, (hf _).mpr ⟨q, hq, rfl⟩, rfl, ?_, ?_⟩
  · intro hb
    cases ho : q.o <;> simp_all [renameQ, renameT, isBnode]
  · intro hg
    cases hgq : q.g with
    | none => simp [renameQ, hgq]
    | some g =>
      cases g <;> simp_all [renameQ, renameT]

/-! ### the no-list case -/

private def s : Term := .iri "http://x/s".toList
private def p : Term := .iri "http://x/p".toList
private def a : Term := .iri "http://x/a".toList
private def g : Term := .iri "http://x/g".toList
private def b : Term := .bnode ['b']


/-- `D` uses none of rdf:first / rdf:rest / rdf:nil -/
def NoListVocab (D : List Quad) : Prop :=
  ∀ q ∈ D, isIriC rdfFirst q.p = false ∧ isIriC rdfRest q.p = false ∧ isIriC rdfNil q.o = false

/-- **roundtrip_nolist**, full statement (open): for modes 1.0 / 1.1 × use_rdf_type, rdf_direction unset,
well-formed IRIs, a dataset without list vocabulary round-trips.  Proved below:
`roundtrip_nolist_partial` = (1) `process_quads` stores exactly the expressible quads, nothing dropped,
nothing invented, and (2) nothing is marked, so `jsonify` suppresses no slot on account of lists and the
document is `jsonifyAll` over all slots; `node_object_roundtrip` = (3) for one node map, `make_node_object`
followed by the reader gives back exactly the triples the map holds (every literal kind, IRIs, blank
nodes, rdf:nil, `@type`), with no auxiliary triples.  Missing obligation: the traversal — the node maps
satisfy the side conditions of (3) (`@type` values are nodes, ids have two leading ASCII bytes), and
`jsonify`'s root / `@graph` nesting reaches every non-empty named-graph slot under the right graph name
(the `@graph` link invariant of `process_quads`). -/
def RoundtripNoList : Prop :=
  ∀ o D, o.dir = .none → (∀ q ∈ D, quadOk q = true) → NoListVocab D → RoundTrips o D

example : NoListVocab [⟨s, p, a, some g⟩, ⟨b, .iri rdfType, .lang ['x'] ['e', 'n'], none⟩] ∧
    (∀ q ∈ [⟨s, p, a, some g⟩, (⟨b, .iri rdfType, .lang ['x'] ['e', 'n'], none⟩ : Quad)], quadOk q = true) := by
  constructor
  · intro q hq
    simp only [List.mem_cons, List.not_mem_nil, or_false] at hq
    rcases hq with rfl | rfl <;> decide
  · intro q hq
    simp only [List.mem_cons, List.not_mem_nil, or_false] at hq
    rcases hq with rfl | rfl <;> decide

theorem roundtrip_nolist_partial (o : Opts) (D : List Quad) (hd : o.dir = .none)
    (hok : ∀ q ∈ D, quadOk q = true) (hnl : NoListVocab D) :
    -- (1) the engine holds exactly the expressible quads
    (∀ q, Denotes (processQuads o D) q ↔ q ∈ D.filter isJsonLd) ∧
    -- (2) no list node is marked and the document renders every slot that is non-empty
    --     (default-graph slots at the root, the others below their graph's node)
    serialize o D = jsonifyAll o { processQuads o D with listSeeds := [], listNode := [] }
        (List.range (processQuads o D).node.length) ∧
    (∀ E : Engine, E.listNode = [] → ∀ i root, skipped o E i root =
        ((E.node.getD i []).isEmpty || (root && (E.gsId.getD i ([], [])).1 != dflt))) := by
  refine ⟨denotes_processQuads o D hok, ?_, ?_⟩
  · have hs := nolist_no_seeds o D (fun q hq => (hnl q hq).2.1)
    simp [serialize, intoJson, hs, markAll, hd]
  · intro E hE i root
    simp [skipped, hE, hd, lookup]

/-- rendering half of the no-list round trip at node-object level (see `RoundtripNoList`) -/
theorem node_object_roundtrip (o : Opts) (E : Engine) (base : Str) (s : Term)
    (hd : o.dir = .none) (hln : E.listNode = []) (m : NodeMap) (n : Nat)
    (hm : ∀ k vs, (k, vs) ∈ m → ∀ v ∈ vs, (k = kType → v.isNode = true) ∧
      ∀ i id, v = .node i id → (prefix2 id).isSome = true) :
    ∃ es, makeEntries o E m = .ok es ∧ entriesRdf o base s es n = (slotTriples s m, n) :=
  entries_roundtrip o E base s hd hln m n hm

/-- its side conditions are satisfiable by a map with every kind of value -/
example : ∀ k vs, (k, vs) ∈ ([(kType, [.node 1 rdfList]), ("http://x/p".toList, [.typed ['5'] xsdString,
      .langString ['a'] ['e', 'n'], .node 2 ['_', ':', 'b'], .node 3 rdfNil, .typed ['1'] rdfJson])] : NodeMap) →
    ∀ v ∈ vs, (k = kType → v.isNode = true) ∧ ∀ i id, v = .node i id → (prefix2 id).isSome = true := by
  intro k vs hm v hv
  simp only [List.mem_cons, List.not_mem_nil, or_false, Prod.mk.injEq] at hm
  rcases hm with ⟨rfl, rfl⟩ | ⟨rfl, rfl⟩
  · simp only [List.mem_cons, List.not_mem_nil, or_false] at hv
    subst hv
    exact ⟨fun _ => rfl, fun i id h => by cases h; decide⟩
  · simp only [List.mem_cons, List.not_mem_nil, or_false] at hv
    refine ⟨fun h => absurd h (by decide), fun i id h => ?_⟩
    rcases hv with rfl | rfl | rfl | rfl | rfl <;> cases h <;> decide

/-- **suppressed_compensated**, full statement: whenever `jsonify` omits a non-empty slot because its label
is in `list_node`, the quads of that slot come back (inside an `@list`).  As every other slot is
rendered verbatim, this is what `RoundTrips` adds to the no-list case; it is stated through
`RoundTrips` because list cells are renamed by the reader.  FALSE for the code as written: -/
def SuppressedCompensated : Prop := ∀ o D, o.dir = .none → isPanic (serialize o D) = false → RoundTrips o D

/-- `list_node` is keyed by label only: `_:b` is a list cell in the default graph, its description in
graph `<http://x/g>` is suppressed -/
def crossGraph : List Quad :=
  [⟨s, p, b, none⟩, ⟨b, .iri rdfFirst, a, none⟩, ⟨b, .iri rdfRest, .iri rdfNil, none⟩, ⟨b, p, a, some g⟩]

theorem roundtrip_refuted_cross_graph : ¬ RoundTrips {} crossGraph := by
  rintro ⟨doc, hdoc, hiso⟩
  rw [outQuads_of_ok hdoc] at hiso
  obtain ⟨q2, hq2, _, _, hg⟩ := hiso.image (q := ⟨b, p, a, some g⟩) (by decide)
  have hg' : q2.g = some g := hg (by intro x hx; cases hx)
  have : (outQuads {} crossGraph).all (fun q => q.g != some g) = true := by decide
  have := List.all_eq_true.mp this q2 hq2
  simp [hg'] at this

/-- a list that contains itself: its only cell is its own unique parent, marked, suppressed, rendered nowhere -/
def selfList : List Quad :=
  [⟨b, .iri rdfFirst, b, none⟩, ⟨b, .iri rdfRest, .iri rdfNil, none⟩]

theorem roundtrip_refuted_self_list : ¬ RoundTrips {} selfList := by
  rintro ⟨doc, hdoc, hiso⟩
  rw [outQuads_of_ok hdoc] at hiso
  obtain ⟨q2, hq2, _⟩ := hiso.image (q := ⟨b, .iri rdfFirst, b, none⟩) (by decide)
  have : outQuads {} selfList = [] := by decide
  rw [this] at hq2
  cases hq2

/-- a cell typed `rdf:List` is compacted and its type quad is not rendered (use_rdf_type = false) -/
def typedList : List Quad :=
  [⟨s, p, b, none⟩, ⟨b, .iri rdfFirst, a, none⟩, ⟨b, .iri rdfRest, .iri rdfNil, none⟩,
   ⟨b, .iri rdfType, .iri rdfList, none⟩]

theorem roundtrip_refuted_typed_list : ¬ RoundTrips {} typedList := by
  rintro ⟨doc, hdoc, hiso⟩
  rw [outQuads_of_ok hdoc] at hiso
  obtain ⟨q2, hq2, _, ho, _⟩ := hiso.image (q := ⟨b, .iri rdfType, .iri rdfList, none⟩) (by decide)
  have ho' : q2.o = .iri rdfList := ho (by decide)
  have : (outQuads {} typedList).all (fun q => q.o != .iri rdfList) = true := by decide
  have := List.all_eq_true.mp this q2 hq2
  simp [ho'] at this

theorem suppressed_compensated_refuted : ¬ SuppressedCompensated := fun h =>
  roundtrip_refuted_cross_graph (h {} crossGraph rfl (by decide))

theorem roundtrip_all_refuted : ¬ RoundTripAll := fun h =>
  roundtrip_refuted_cross_graph (h {} crossGraph rfl)

/-- the well-formed, singly referenced list does round-trip on the model (the suppression *is*
compensated there): the reader's output for it, cell label renamed -/
example : outQuads {} [⟨s, p, b, none⟩, ⟨b, .iri rdfFirst, a, none⟩, ⟨b, .iri rdfRest, .iri rdfNil, none⟩]
    = [⟨s, p, .bnode "ccccccccccc0".toList, none⟩,
       ⟨.bnode "ccccccccccc0".toList, .iri rdfFirst, a, none⟩,
       ⟨.bnode "ccccccccccc0".toList, .iri rdfRest, .iri rdfNil, none⟩] := by decide

end SophiaProofs.C12
