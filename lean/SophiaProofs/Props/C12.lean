import SophiaProofs.Lemmas.JsonLdRender
import SophiaProofs.Lemmas.JsonLdMark
import SophiaProofs.Lemmas.JsonLdRoundTrip
import SophiaProofs.Lemmas.JsonLdTerm
import SophiaProofs.Lemmas.JsonLdLists

/-!
C12 — JSON-LD serialisation round-trips every representable dataset.

All statements are about `SophiaModel.JsonLd.serialize` / `toRdf`, the functions the driver
`smd_C12` executes and the harness compares with the real `JsonLdSerializer` / `JsonLdParser`.

`Gen.JsonLdFlags.uniqueParentGet` is the switch regenerated from `jsonld/src/serializer/engine.rs` on every run:
`mark_list_node` reads `unique_parent` with `.get(s_id)` (true; fix 949b852) or indexes `self.unique_parent[s_id]`
(false; panics on an absent key).  `unique_parent_lookup_is_get` pins it: a regression of the source to indexing
fails that obligation (and `no_panic_partial`, which uses it), and the panic is then found on `unreferencedHead`.
-/
namespace SophiaProofs.C12
open SophiaModel SophiaModel.JsonLd SophiaProofs.JsonLdLemmas
open SophiaModel.JsonLd.RdfObject (startsBn)

/-- the source uses `self.unique_parent.get(s_id)` (regenerated table; `rfl` fails if /repo goes back to indexing) -/
theorem unique_parent_lookup_is_get : Gen.JsonLdFlags.uniqueParentGet = true := rfl

/-- the model's string constants and the size bounds of `is_list_node` / `is_compound_literal` are those of engine.rs
(table regenerated from the source on every run; fails if a constant of the source changes) -/
theorem constants_as_in_source :
    rdfFirst = Gen.JsonLdFlags.RDF_FIRST.toList ∧ rdfRest = Gen.JsonLdFlags.RDF_REST.toList ∧
    rdfNil = Gen.JsonLdFlags.RDF_NIL.toList ∧ rdfList = Gen.JsonLdFlags.RDF_LIST.toList ∧
    rdfJson = Gen.JsonLdFlags.RDF_JSON.toList ∧ rdfValue = Gen.JsonLdFlags.RDF_VALUE.toList ∧
    rdfDirection = Gen.JsonLdFlags.RDF_DIRECTION.toList ∧ rdfLanguage = Gen.JsonLdFlags.RDF_LANGUAGE.toList ∧
    xsdString = Gen.JsonLdFlags.XSD_STRING.toList ∧ nsI18n = Gen.JsonLdFlags.NS_18N.toList ∧
    (∀ m : NodeMap, isListNode m = true → Gen.JsonLdFlags.nodeLenMin ≤ m.length ∧ m.length ≤ Gen.JsonLdFlags.nodeLenMax) ∧
    (∀ m : NodeMap, isCompoundLiteral m = true →
      Gen.JsonLdFlags.nodeLenMin ≤ m.length ∧ m.length ≤ Gen.JsonLdFlags.nodeLenMax) := by
  refine ⟨by decide, by decide, by decide, by decide, by decide, by decide, by decide, by decide, by decide, by decide,
    fun m h => ?_, fun m h => ?_⟩
  · unfold isListNode at h
    simp only [Bool.and_eq_true, decide_eq_true_eq] at h
    exact ⟨h.1.1.1.1, h.1.1.1.2⟩
  · unfold isCompoundLiteral at h
    simp only [Bool.and_eq_true, decide_eq_true_eq] at h
    exact ⟨h.1.1.1.1, h.1.1.1.2⟩

/-! ## 1. no panic, termination -/

/-- full-strength statement: on every dataset with absolute IRIs the serializer returns a document — no `HashMap` /
slice / `[0]` panic, no loop that fails to terminate (`Fail.fuel`).  PROVED: `no_panic` (no panicking expression is
ever reached: all datasets, all option settings), `no_panic_partial` (the marking phase returns: no panic AND it
terminates), `no_panic_nolist` (the whole statement for datasets without list vocabulary).  OPEN: termination of the
RENDERING of marked lists (`populate_list` is a `loop`, `convert_rdf_object` recurses into nested lists): missing
obligation "no cell is reachable from itself through `rdf:first` / `rdf:rest` links of marked cells starting at a
rendered (= unmarked) node" — cyclic marked structures exist (`selfList`), but by `Marked` each of their cells has its
only occurrence inside the cycle, so no rendered node refers to them; the differential has never seen `fuel`
(15 k cases per quick run, 200 k thorough).  The hypothesis is necessary: `no_panic_needs_absolute_iris`. -/
def NoPanic : Prop := ∀ (o : Opts) (D : List Quad), (∀ q ∈ D, quadAbs q = true) → ∃ doc, serialize o D = .ok doc

/-- a small dataset with every shape the renderer treats specially -/
def crossGraphDemo : List Quad :=
  [⟨.iri "http://x/s".toList, .iri "http://x/p".toList, .bnode ['l'], none⟩,
   ⟨.bnode ['l'], .iri rdfFirst, .bnode ['n'], none⟩, ⟨.bnode ['l'], .iri rdfRest, .iri rdfNil, none⟩,
   ⟨.bnode ['n'], .iri rdfFirst, .lit ['1'] rdfJson, none⟩, ⟨.bnode ['n'], .iri rdfRest, .iri rdfNil, none⟩,
   ⟨.bnode ['n'], .iri rdfType, .iri rdfList, none⟩,
   ⟨.bnode ['c'], .iri rdfValue, .lit ['v'] xsdString, some (.bnode ['l'])⟩,
   ⟨.bnode ['c'], .iri rdfDirection, .lit ['r', 't', 'l'] xsdString, some (.bnode ['l'])⟩]

/-- `_:l rdf:first <http://x/a> . _:l rdf:rest rdf:nil .` — nothing refers to `_:l`; the input that panicked
(`no entry found for key`) before 949b852 -/
def unreferencedHead : List Quad :=
  [⟨.bnode ['l'], .iri rdfFirst, .iri "http://x/a".toList, none⟩,
   ⟨.bnode ['l'], .iri rdfRest, .iri rdfNil, none⟩]

example : (match serialize {} unreferencedHead with | .ok doc => toRdf {} doc | .error _ => []) = unreferencedHead := by
  decide

/-- **no_panic_partial**: the marking phase of `into_json` — `mark_list_node` for every seed: the only code that reads
`unique_parent`, and a `loop` — returns normally on EVERY dataset, in both modes: it neither panics nor fails to
terminate (the model's fuel `gs_id.len() + 1` is never exhausted: the walk up the `rdf:rest` parents passes each slot at
most once, `Lemmas/JsonLdTerm.lean`).  Full statement: `NoPanic` above. -/
theorem no_panic_partial (o : Opts) (D : List Quad) :
    ∃ ln, markAll o (processQuads o D) (processQuads o D).listSeeds [] = .ok ln := by
  have inv := inv_processQuads o D
  have h1 : isPanic (markAll o (processQuads o D) (processQuads o D).listSeeds []) = false :=
    markAll_no_panic o _ D inv.parents (Or.inl unique_parent_lookup_is_get) _ _ inv.seeds
  have h2 : isFuel (markAll o (processQuads o D) (processQuads o D).listSeeds []) = false :=
    markAll_no_fuel o _ D (pinv_processQuads o D) inv _ _ (fun _ h => h)
  cases hm : markAll o (processQuads o D) (processQuads o D).listSeeds [] with
  | ok ln => exact ⟨ln, rfl⟩
  | error e =>
    rw [hm] at h1 h2
    cases e
    · simp [isPanic] at h1
    · simp [isFuel] at h2

/-- not vacuous: on this 5-quad dataset (a two-cell list below a blank parent, in a named graph) the walk marks two
cells -/
example : (match markAll {} (processQuads {} (
    [⟨.bnode ['x'], .iri rdfRest, .bnode ['y'], some (.iri "http://x/g".toList)⟩,
     ⟨.bnode ['y'], .iri rdfRest, .iri rdfNil, some (.iri "http://x/g".toList)⟩,
     ⟨.bnode ['x'], .iri rdfFirst, .iri "http://x/a".toList, some (.iri "http://x/g".toList)⟩,
     ⟨.bnode ['y'], .iri rdfFirst, .iri "http://x/a".toList, some (.iri "http://x/g".toList)⟩,
     ⟨.bnode ['p'], .iri "http://x/p".toList, .bnode ['x'], some (.iri "http://x/g".toList)⟩])) [2] [] with
    | .ok ln => ln | .error _ => []) = [("_:y".toList, 0), ("_:x".toList, 5)] := by decide

/-- the engine `into_json` renders, given the outcome `ln` of the marking phase -/
def rendered (o : Opts) (E : Engine) (ln : List (Id × Nat)) : Engine :=
  let E1 := { E with listSeeds := [], listNode := ln }
  if o.dir == .compound then
    { E1 with compound := E1.compound.filter (fun i => isCompoundLiteral (E1.node.getD i [])) }
  else E1

theorem intoJson_eq (o : Opts) (E : Engine) (ln : List (Id × Nat)) (h : markAll o E E.listSeeds [] = .ok ln) :
    intoJson o E = jsonifyAll o (rendered o E ln) (List.range E.node.length) := by
  unfold intoJson rendered
  rw [h]
  simp only
  split <;> rfl

theorem renderOk_processQuads (o : Opts) (D : List Quad) (hq : ∀ q ∈ D, quadAbs q = true) (ln : List (Id × Nat))
    (h : markAll o (processQuads o D) (processQuads o D).listSeeds [] = .ok ln) :
    RenderOk o (rendered o (processQuads o D) ln) := by
  have hp := pinv_processQuads o D
  have ho := oinv_processQuads o D hq
  have hg := ginv_processQuads o D hq
  have hm := markAll_marked o _ D hp (inv_processQuads o D) _ [] ln (fun _ h => h) (marked_nil _) h
  generalize processQuads o D = E at hp ho hg hm
  unfold rendered
  split
  · rename_i hc
    refine ⟨hp.aligned, hp.uniq, ⟨ho.slot, ho.recd⟩, hm, hg.maps, fun _ i hi => ?_⟩
    simp only [List.contains_eq_mem, List.mem_filter, decide_eq_true_eq] at hi
    exact hi.2
  · rename_i hc
    refine ⟨hp.aligned, hp.uniq, ⟨ho.slot, ho.recd⟩, hm, hg.maps, fun hd => ?_⟩
    rw [hd] at hc; simp at hc

/-- **no_panic** (half of `NoPanic`): on every dataset with absolute IRIs, in every mode and with every option setting
(use_rdf_type, rdf_direction none / i18n-datatype / compound-literal), the serializer never reaches a panicking
expression: not `unique_parent[..]`, not `&id[..2]`, not `map[RDF_FIRST][0]` / `map[RDF_REST][0]` in `populate_list`,
not `node[RDF_VALUE][0]` / `node[RDF_DIRECTION][0]`, not `unreachable!()` in `make_node_object`. -/
theorem no_panic (o : Opts) (D : List Quad) (hq : ∀ q ∈ D, quadAbs q = true) : isPanic (serialize o D) = false := by
  obtain ⟨ln, hln⟩ := no_panic_partial o D
  unfold serialize
  rw [intoJson_eq o _ ln hln]
  exact jsonifyAll_no_panic o _ (renderOk_processQuads o D hq ln hln) _

/-- **suppressed_only_list_cells** (the mechanism "a node is suppressed only if it is a list node whose unique parent is
in the same graph"): every label `jsonify` suppresses on account of `list_node` is, in ONE graph `g`, a blank node of
list shape whose unique parent `ip` (the only slot, under the only key, where the label occurs as an object) lies in
`g` as well, and whose single `rdf:rest` value is `rdf:nil` or again such a cell of `g`.  (What is NOT guaranteed — the
suppression is by label, so the descriptions of the same label in OTHER graphs are suppressed too — is
`roundtrip_refuted_cross_graph`.) -/
theorem suppressed_only_list_cells (o : Opts) (D : List Quad) :
    ∃ ln, markAll o (processQuads o D) (processQuads o D).listSeeds [] = .ok ln ∧ Marked (processQuads o D) ln := by
  obtain ⟨ln, hln⟩ := no_panic_partial o D
  exact ⟨ln, hln, markAll_marked o _ D (pinv_processQuads o D) (inv_processQuads o D) _ [] ln (fun _ h => h)
    (marked_nil _) hln⟩

/-- with a one-byte IRI `&id[..2]` does panic (and so does the real serializer: generator shape `relative_iri`, where
model and implementation agree on `panic=1`): the hypothesis of `no_panic` cannot be dropped -/
theorem no_panic_needs_absolute_iris :
    isPanic (serialize {} [⟨.iri "http://x/s".toList, .iri "http://x/p".toList, .iri ['a'], none⟩]) = true := by decide

/-- `no_panic` is not vacuous: a dataset with a nested list, a typed list cell and a compound literal shape -/
example : ∀ q ∈ (crossGraphDemo : List Quad), quadAbs q = true := by decide

/-! ## 2. the only quads omitted from the engine's input are those `is_jsonld` rejects -/

/-- **dropped_iff_not_jsonld** (engine level): the document depends on the quads `is_jsonld` keeps and
on nothing else — dropping the rejected quads beforehand changes nothing, and (`isJsonLd_spec`)
`is_jsonld` is exactly the property's notion of "expressible".  That every kept quad is *rendered*
is the round-trip statement (sections 3, 4). -/
theorem dropped_iff_not_jsonld (o : Opts) (D : List Quad) :
    serialize o D = serialize o (D.filter isJsonLd) := by
  unfold serialize processQuads
  rw [foldl_filter]

/-- `is_jsonld` = "IRI or blank subject and graph name, IRI predicate, IRI / blank / literal object" -/
theorem isJsonLd_spec (q : Quad) : isJsonLd q = true ↔
    ((∃ s, q.s = .iri s) ∨ (∃ b, q.s = .bnode b)) ∧ (∃ p, q.p = .iri p) ∧
    ((∃ s, q.o = .iri s) ∨ (∃ b, q.o = .bnode b) ∨ (∃ l d, q.o = .lit l d) ∨ (∃ l t, q.o = .lang l t)) ∧
    (q.g = none ∨ ∃ g, q.g = some g ∧ ((∃ s, g = .iri s) ∨ (∃ b, g = .bnode b))) := by
  unfold isJsonLd
  simp only [Bool.and_eq_true, isSubject_spec, isIri_spec, isObject_spec, and_assoc]
  cases q.g with
  | none => simp
  | some g => simp [isSubject_spec]

example : isJsonLd ⟨.lit ['a'] xsdString, .iri ['p'], .iri ['o'], none⟩ = false := by decide
example : isJsonLd ⟨.iri ['s'], .iri ['p'], .lang ['o'] ['e', 'n'], some (.bnode ['g'])⟩ = true := by decide

/-! ## 3. round trip, and the safety condition of list compaction -/

def renameT (f : Str → Str) : Term → Term
  | .bnode b => .bnode (f b)
  | t => t

def renameQ (f : Str → Str) (q : Quad) : Quad :=
  ⟨renameT f q.s, q.p, renameT f q.o, q.g.map (renameT f)⟩

/-- blank-node isomorphism of two datasets (lists read as sets) -/
def Iso (A B : List Quad) : Prop :=
  ∃ f : Str → Str, (∀ a b, f a = f b → a = b) ∧ ∀ q, q ∈ B ↔ ∃ q' ∈ A, q = renameQ f q'

/-- the property, on the model: reading the document back gives the expressible quads up to isomorphism -/
def RoundTrips (o : Opts) (D : List Quad) : Prop :=
  ∃ doc, serialize o D = .ok doc ∧ Iso (D.filter isJsonLd) (toRdf o doc)

/-- the goal (FALSE for the code as written: `roundtrip_refuted_*`) -/
def RoundTripAll : Prop := ∀ o D, o.dir = .none → RoundTrips o D

/-- what comes back (empty when the serializer fails) -/
def outQuads (o : Opts) (D : List Quad) : List Quad :=
  match serialize o D with
  | .ok d => toRdf o d
  | .error _ => []

theorem outQuads_of_ok {o : Opts} {D : List Quad} {doc : Doc} (h : serialize o D = .ok doc) :
    toRdf o doc = outQuads o D := by simp [outQuads, h]

/-- an isomorphism preserves predicates, non-blank objects and non-blank graph names -/
theorem Iso.image {A B : List Quad} (h : Iso A B) {q : Quad} (hq : q ∈ A) :
    ∃ q2 ∈ B, q2.p = q.p ∧ (isBnode q.o = false → q2.o = q.o) ∧
      ((∀ b, q.g ≠ some (.bnode b)) → q2.g = q.g) := by
  obtain ⟨f, _, hf⟩ := h
  refine ⟨renameQ f q, (hf _).mpr ⟨q, hq, rfl⟩, rfl, ?_, ?_⟩
  · intro hb
    cases ho : q.o <;> simp_all [renameQ, renameT, isBnode]
  · intro hg
    cases hgq : q.g with
    | none => simp [renameQ, hgq]
    | some g =>
      cases g <;> simp_all [renameQ, renameT]

/-! ### the no-list case -/

private def s : Term := .iri "http://x/s".toList
private def p : Term := .iri "http://x/p".toList
private def a : Term := .iri "http://x/a".toList
private def g : Term := .iri "http://x/g".toList
private def b : Term := .bnode ['b']


/-- `D` uses none of rdf:first / rdf:rest / rdf:nil -/
def NoListVocab (D : List Quad) : Prop :=
  ∀ q ∈ D, isIriC rdfFirst q.p = false ∧ isIriC rdfRest q.p = false ∧ isIriC rdfNil q.o = false

/-- when the `rdf_direction` setting (the same on both sides) is lossless for `D`: unset — always; `i18n-datatype` —
every literal datatype in the i18n namespace is a well-formed `…i18n#<lang>_<dir>` with both parts non-empty (`…#_rtl`
and `…#en_` are not: finding C12-i18n-datatype-without-language, `roundtrip_refuted_i18n`); `compound-literal` — no
quad has the predicate rdf:direction (with one, the node is turned into a value object that json-ld 0.15.1 reads back
without its triples: finding C12-compound-literal-lost, `roundtrip_refuted_compound`) -/
def DirOk (o : Opts) (D : List Quad) : Prop :=
  match o.dir with
  | .none => True
  | .i18n => ∀ q ∈ D, ∀ lex dt, q.o = .lit lex dt → startsWith dt nsI18n = true →
      ∃ tag d, tag ≠ [] ∧ d ≠ [] ∧ splitUnderscore (dt.drop nsI18n.length) = (tag, some d)
  | .compound => ∀ q ∈ D, isIriC rdfDirection q.p = false

/-- statement of the no-list round trip: for modes 1.0 / 1.1 × use_rdf_type × every rdf_direction setting that is lossless for the dataset (`DirOk`), absolute IRIs, a
dataset without list vocabulary — default and named graphs, blank graph names, blank nodes shared between graphs,
every kind of literal, rdf:type with IRI / blank / literal objects — round-trips.  PROVED: `roundtrip_nolist`. -/
def RoundtripNoList : Prop :=
  ∀ o D, DirOk o D → (∀ q ∈ D, quadAbs q = true) → NoListVocab D → RoundTrips o D

example : NoListVocab [⟨s, p, a, some g⟩, ⟨b, .iri rdfType, .lang ['x'] ['e', 'n'], none⟩, ⟨b, p, b, some b⟩] ∧
    (∀ q ∈ [⟨s, p, a, some g⟩, ⟨b, .iri rdfType, .lang ['x'] ['e', 'n'], none⟩, (⟨b, p, b, some b⟩ : Quad)],
      quadAbs q = true) := by
  constructor
  · intro q hq
    simp only [List.mem_cons, List.not_mem_nil, or_false] at hq
    rcases hq with rfl | rfl | rfl <;> decide
  · intro q hq
    simp only [List.mem_cons, List.not_mem_nil, or_false] at hq
    rcases hq with rfl | rfl | rfl <;> decide

theorem roundtrip_nolist_partial (o : Opts) (D : List Quad)
    (hc : o.dir = .compound → (processQuads o D).compound = [])
    (hok : ∀ q ∈ D, quadOk q = true) (hnl : NoListVocab D) :
    -- (1) the engine holds exactly the expressible quads
    (∀ q, Denotes (processQuads o D) q ↔ q ∈ D.filter isJsonLd) ∧
    -- (2) no list node is marked (and no compound-literal candidate kept): the document is the root loop over the
    --     engine as `process_quads` left it
    serialize o D = jsonifyAll o { processQuads o D with listSeeds := [], listNode := [] }
        (List.range (processQuads o D).node.length) := by
  refine ⟨denotes_processQuads o D hok, ?_⟩
  have hs := nolist_no_seeds o D (fun q hq => (hnl q hq).2.1)
  unfold serialize
  generalize processQuads o D = E at hc hs ⊢
  cases hdir : o.dir with
  | none => simp [intoJson, hs, markAll, hdir]
  | i18n => simp [intoJson, hs, markAll, hdir]
  | compound =>
    have hce := hc hdir
    simp [intoJson, hs, markAll, hdir, hce]

/-- rendering half of the no-list round trip at node-object level (see `RoundtripNoList`) -/
theorem node_object_roundtrip (o : Opts) (E : Engine) (base : Str) (s : Term)
    (hc : o.dir = .compound → E.compound = []) (hln : E.listNode = []) (m : NodeMap) (n : Nat)
    (hm : ∀ k vs, (k, vs) ∈ m → ∀ v ∈ vs, (k = kType → v.isNode = true) ∧
      (∀ i id, v = .node i id → (prefix2 id).isSome = true) ∧ (k ≠ kGraph → LitOk o v)) :
    ∃ es, makeEntries o E m = .ok es ∧ entriesRdf o base s es n = (slotTriples s m, n) :=
  entries_roundtrip o E base s hc hln m n hm

/-- its side conditions are satisfiable by a map with every kind of value -/
example : ∀ k vs, (k, vs) ∈ ([(kType, [.node 1 rdfList]), ("http://x/p".toList, [.typed ['5'] xsdString,
      .langString ['a'] ['e', 'n'], .node 2 ['_', ':', 'b'], .node 3 rdfNil, .typed ['1'] rdfJson])] : NodeMap) →
    ∀ v ∈ vs, (k = kType → v.isNode = true) ∧ (∀ i id, v = .node i id → (prefix2 id).isSome = true) ∧
      (k ≠ kGraph → LitOk {} v) := by
  intro k vs hm v hv
  simp only [List.mem_cons, List.not_mem_nil, or_false, Prod.mk.injEq] at hm
  rcases hm with ⟨rfl, rfl⟩ | ⟨rfl, rfl⟩
  · simp only [List.mem_cons, List.not_mem_nil, or_false] at hv
    subst hv
    exact ⟨fun _ => rfl, fun i id h => by cases h; decide, fun _ => trivial⟩
  · simp only [List.mem_cons, List.not_mem_nil, or_false] at hv
    refine ⟨fun h => absurd h (by decide), fun i id h => ?_, fun _ => ?_⟩
    · rcases hv with rfl | rfl | rfl | rfl | rfl <;> cases h <;> decide
    · rcases hv with rfl | rfl | rfl | rfl | rfl <;> first | trivial | (intro h; cases h)

theorem renameT_id (t : Term) : renameT id t = t := by cases t <;> rfl

theorem renameQ_id (q : Quad) : renameQ id q = q := by
  cases q with
  | mk s p o g =>
    simp only [renameQ, renameT_id]
    cases g <;> simp [renameT_id]

/-- **roundtrip_nolist** (the no-list fragment of the property, every graph shape): serialising and reading back gives
the expressible quads of the input — none dropped, none duplicated (as sets), none invented, blank labels unchanged
(the isomorphism is the identity: without lists the reader creates no node).  Ingredients: `denotes_processQuads` (the
engine holds exactly the expressible quads), `GInv` (the `@graph` links are sound and complete, the stored values
satisfy the side conditions of the renderer), `jsonifyAll_rt2` (root loop + `@graph` children render every slot,
`node_object_roundtrip` per slot), `mem_rootQ_iff`. -/
theorem roundtrip_nolist (o : Opts) (D : List Quad) (hdir : DirOk o D)
    (hok : ∀ q ∈ D, quadAbs q = true) (hnl : NoListVocab D) : RoundTrips o D := by
  have hok' : ∀ q ∈ D, quadOk q = true := fun q hq => quadAbs_ok (hok q hq)
  -- the option is lossless here: no compound-literal candidate, every i18n literal well-formed
  have hc : o.dir = .compound → (processQuads o D).compound = [] := by
    intro hd
    unfold DirOk at hdir; rw [hd] at hdir
    exact nodir_no_compound o D hdir
  obtain ⟨hden, hser⟩ := roundtrip_nolist_partial o D hc hok' hnl
  have inv := ginv_processQuads o D hok
  have hlits : ∀ m ∈ (processQuads o D).node, LitsOk o m := by
    intro m hm k vs hk hkg v hv
    cases v with
    | typed lex dt =>
      intro hd hsw
      obtain ⟨q, hq, hqo⟩ := stored_typed_from_input inv.aligned hm hk hkg hv
      have hqD : q ∈ D := (List.mem_filter.mp ((hden q).mp hq)).1
      unfold DirOk at hdir; rw [hd] at hdir
      exact hdir q hqD lex dt hqo hsw
    | langString _ _ => trivial
    | node _ _ => trivial
  generalize hE : processQuads o D = E at hden hser inv hc hlits
  have inv' : GInv { E with listSeeds := [], listNode := [] } :=
    ⟨inv.aligned, inv.ids, inv.maps, inv.sound, inv.complete⟩
  obtain ⟨doc, hdoc, hrdf⟩ := jsonifyAll_rt2 o { E with listSeeds := [], listNode := [] }
    (List.replicate (maxIdLen (match serialize o D with | .ok d => d | .error _ => []) + 1) 'c')
    hc rfl (List.range E.node.length) 0 (fun i hi => rootOk_of_ginv inv' hlits (List.mem_range.mp hi))
  have hs : serialize o D = .ok doc := hser.trans hdoc
  refine ⟨doc, hs, id, fun a b h => h, fun q => ?_⟩
  simp only [hs] at hrdf
  have hto : toRdf o doc = (List.range E.node.length).flatMap (rootQ { E with listSeeds := [], listNode := [] }) := by
    simp [toRdf, hrdf]
  rw [hto, mem_rootQ_iff inv' q]
  have hsame : (List.range E.node.length).flatMap (slotQ { E with listSeeds := [], listNode := [] }) =
      (List.range E.node.length).flatMap (slotQ E) := rfl
  show q ∈ (List.range E.node.length).flatMap (slotQ { E with listSeeds := [], listNode := [] }) ↔ _
  rw [hsame, ← denotes_iff_slotQ inv.aligned, hden]
  constructor
  · intro h; exact ⟨q, h, (renameQ_id q).symm⟩
  · rintro ⟨q', h, rfl⟩; rw [renameQ_id]; exact h


theorem roundtrip_nolist_closed : RoundtripNoList := fun o D hd hok hnl => roundtrip_nolist o D hd hok hnl

/-- hence no panic / non-termination anywhere in the serializer on that fragment (cf. `NoPanic`) -/
theorem no_panic_nolist (o : Opts) (D : List Quad) (hd : DirOk o D) (hok : ∀ q ∈ D, quadAbs q = true)
    (hnl : NoListVocab D) : ∃ doc, serialize o D = .ok doc :=
  let ⟨doc, h, _⟩ := roundtrip_nolist o D hd hok hnl; ⟨doc, h⟩

/-- **suppressed_compensated**, full statement: whenever `jsonify` omits a non-empty slot because its label
is in `list_node`, the quads of that slot come back (inside an `@list`).  As every other slot is
rendered verbatim, this is what `RoundTrips` adds to the no-list case; it is stated through
`RoundTrips` because list cells are renamed by the reader.  FALSE for the code as written: -/
def SuppressedCompensated : Prop := ∀ o D, o.dir = .none → isPanic (serialize o D) = false → RoundTrips o D

/-- `list_node` is keyed by label only: `_:b` is a list cell in the default graph, its description in
graph `<http://x/g>` is suppressed -/
def crossGraph : List Quad :=
  [⟨s, p, b, none⟩, ⟨b, .iri rdfFirst, a, none⟩, ⟨b, .iri rdfRest, .iri rdfNil, none⟩, ⟨b, p, a, some g⟩]

theorem roundtrip_refuted_cross_graph : ¬ RoundTrips {} crossGraph := by
  rintro ⟨doc, hdoc, hiso⟩
  rw [outQuads_of_ok hdoc] at hiso
  obtain ⟨q2, hq2, _, _, hg⟩ := hiso.image (q := ⟨b, p, a, some g⟩) (by decide)
  have hg' : q2.g = some g := hg (by intro x hx; cases hx)
  have : (outQuads {} crossGraph).all (fun q => q.g != some g) = true := by decide
  have := List.all_eq_true.mp this q2 hq2
  simp [hg'] at this

/-- a list that contains itself: its only cell is its own unique parent, marked, suppressed, rendered nowhere -/
def selfList : List Quad :=
  [⟨b, .iri rdfFirst, b, none⟩, ⟨b, .iri rdfRest, .iri rdfNil, none⟩]

theorem roundtrip_refuted_self_list : ¬ RoundTrips {} selfList := by
  rintro ⟨doc, hdoc, hiso⟩
  rw [outQuads_of_ok hdoc] at hiso
  obtain ⟨q2, hq2, _⟩ := hiso.image (q := ⟨b, .iri rdfFirst, b, none⟩) (by decide)
  have : outQuads {} selfList = [] := by decide
  rw [this] at hq2
  cases hq2

/-- a cell typed `rdf:List` is compacted and its type quad is not rendered (use_rdf_type = false) -/
def typedList : List Quad :=
  [⟨s, p, b, none⟩, ⟨b, .iri rdfFirst, a, none⟩, ⟨b, .iri rdfRest, .iri rdfNil, none⟩,
   ⟨b, .iri rdfType, .iri rdfList, none⟩]

theorem roundtrip_refuted_typed_list : ¬ RoundTrips {} typedList := by
  rintro ⟨doc, hdoc, hiso⟩
  rw [outQuads_of_ok hdoc] at hiso
  obtain ⟨q2, hq2, _, ho, _⟩ := hiso.image (q := ⟨b, .iri rdfType, .iri rdfList, none⟩) (by decide)
  have ho' : q2.o = .iri rdfList := ho (by decide)
  have : (outQuads {} typedList).all (fun q => q.o != .iri rdfList) = true := by decide
  have := List.all_eq_true.mp this q2 hq2
  simp [ho'] at this

/-! ### the `rdf_direction` settings: `DirOk` is satisfiable, and necessary -/

/-- `"x"^^i18n:en_ltr` -/
def i18nGood : List Quad := [⟨s, p, .lit ['x'] (nsI18n ++ "en_ltr".toList), none⟩, ⟨s, p, .lang ['y'] ['f', 'r'], some g⟩]
/-- `"x"^^i18n:_rtl` (direction without language) -/
def i18nBad : List Quad := [⟨s, p, .lit ['x'] (nsI18n ++ "_rtl".toList), none⟩]

example : DirOk { dir := .i18n } i18nGood := by
  intro q hq lex dt ho _
  simp only [i18nGood, List.mem_cons, List.not_mem_nil, or_false] at hq
  rcases hq with rfl | rfl
  · injection ho with _ h2
    subst h2
    exact ⟨"en".toList, "ltr".toList, by decide, by decide, by decide⟩
  · cases ho

example : outQuads { dir := .i18n } i18nGood = i18nGood := by decide

/-- with `i18n-datatype` on both sides `…i18n#_rtl` comes back as `…i18n#rtl` (json-ld 0.15.1 drops the underscore
when there is no language): `DirOk` cannot be weakened to "any i18n datatype" -/
theorem roundtrip_refuted_i18n : ¬ RoundTrips { dir := .i18n } i18nBad := by
  rintro ⟨doc, hdoc, hiso⟩
  rw [outQuads_of_ok hdoc] at hiso
  obtain ⟨q2, hq2, _, ho, _⟩ := hiso.image (q := ⟨s, p, .lit ['x'] (nsI18n ++ "_rtl".toList), none⟩) (by decide)
  have ho' : q2.o = .lit ['x'] (nsI18n ++ "_rtl".toList) := ho (by decide)
  have : (outQuads { dir := .i18n } i18nBad).all (fun q => q.o != .lit ['x'] (nsI18n ++ "_rtl".toList)) = true := by
    decide
  have := List.all_eq_true.mp this q2 hq2
  simp [ho'] at this

/-- `<s> <p> _:b . _:b rdf:value "v" . _:b rdf:direction "rtl" .` -/
def compoundShape : List Quad :=
  [⟨s, p, b, none⟩, ⟨b, .iri rdfValue, .lit ['v'] xsdString, none⟩, ⟨b, .iri rdfDirection, .lit ['r', 't', 'l'] xsdString, none⟩]

example : DirOk { dir := .compound } [⟨s, p, b, none⟩, ⟨b, .iri rdfValue, .lit ['v'] xsdString, some g⟩] := by
  intro q hq
  simp only [List.mem_cons, List.not_mem_nil, or_false] at hq
  rcases hq with rfl | rfl <;> decide

/-- with `compound-literal` on both sides the rdf:value / rdf:direction quads of a compound-literal shape never come back -/
theorem roundtrip_refuted_compound : ¬ RoundTrips { dir := .compound } compoundShape := by
  rintro ⟨doc, hdoc, hiso⟩
  rw [outQuads_of_ok hdoc] at hiso
  obtain ⟨q2, hq2, hp2, _⟩ := hiso.image (q := ⟨b, .iri rdfValue, .lit ['v'] xsdString, none⟩) (by decide)
  have : (outQuads { dir := .compound } compoundShape).all (fun q => q.p != .iri rdfValue) = true := by decide
  have := List.all_eq_true.mp this q2 hq2
  simp [hp2] at this

theorem suppressed_compensated_refuted : ¬ SuppressedCompensated := fun h =>
  roundtrip_refuted_cross_graph (h {} crossGraph rfl (by decide))

theorem roundtrip_all_refuted : ¬ RoundTripAll := fun h =>
  roundtrip_refuted_cross_graph (h {} crossGraph rfl)

/-- the well-formed, singly referenced list does round-trip on the model (the suppression *is*
compensated there): the reader's output for it, cell label renamed -/
example : outQuads {} [⟨s, p, b, none⟩, ⟨b, .iri rdfFirst, a, none⟩, ⟨b, .iri rdfRest, .iri rdfNil, none⟩]
    = [⟨s, p, .bnode "ccccccccccc0".toList, none⟩,
       ⟨.bnode "ccccccccccc0".toList, .iri rdfFirst, a, none⟩,
       ⟨.bnode "ccccccccccc0".toList, .iri rdfRest, .iri rdfNil, none⟩] := by decide

/-- a nested list `( (a) a )` inside a named graph: compacted twice, read back with fresh cells -/
example : (outQuads {} [⟨s, p, b, some g⟩, ⟨b, .iri rdfFirst, .bnode ['n'], some g⟩, ⟨b, .iri rdfRest, .bnode ['c'], some g⟩,
      ⟨.bnode ['c'], .iri rdfFirst, a, some g⟩, ⟨.bnode ['c'], .iri rdfRest, .iri rdfNil, some g⟩,
      ⟨.bnode ['n'], .iri rdfFirst, a, some g⟩, ⟨.bnode ['n'], .iri rdfRest, .iri rdfNil, some g⟩]).length = 7 := by decide

/-- a list head with two parents is NOT compacted (every quad is rendered verbatim, labels kept) -/
example : outQuads {} [⟨s, p, b, none⟩, ⟨a, p, b, none⟩, ⟨b, .iri rdfFirst, a, none⟩, ⟨b, .iri rdfRest, .iri rdfNil, none⟩]
    = [⟨s, p, b, none⟩, ⟨b, .iri rdfFirst, a, none⟩, ⟨b, .iri rdfRest, .iri rdfNil, none⟩, ⟨a, p, b, none⟩] := by decide

/-- nor is one referenced twice by the SAME subject through two predicates (the two parents share a slot) -/
example : outQuads {} [⟨s, p, b, none⟩, ⟨s, .iri "http://x/q".toList, b, none⟩, ⟨b, .iri rdfFirst, a, none⟩,
      ⟨b, .iri rdfRest, .iri rdfNil, none⟩]
    = [⟨s, p, b, none⟩, ⟨s, .iri "http://x/q".toList, b, none⟩, ⟨b, .iri rdfFirst, a, none⟩,
       ⟨b, .iri rdfRest, .iri rdfNil, none⟩] := by decide

end SophiaProofs.C12
