/-
C03 — N-Triples / N-Quads serialisation round-trips every dataset exactly.

Writer = model of `turtle/src/serializer/{nt,nq}.rs` (`SophiaModel.NT.write*`, `quotedString`
defined over the escape table regenerated from the `match cutchar` arms of `quoted_string`).
Reader = independent transcription of the W3C grammar (`SophiaModel.NT.read*`).
The theorems say: reader ∘ writer = identity, for *all* lexical forms (every Unicode scalar
value) and all well-formed labels / tags / IRIs; the output is one statement per line.
-/
import SophiaProofs.Lemmas.NTLang
import SophiaProofs.Lemmas.NTBytes
import SophiaModel.Gen.TermKind

namespace SophiaProofs.C03
open SophiaModel SophiaModel.NT SophiaProofs.NTL SophiaProofs.NTB SophiaModel.Re

/-! ## escaping -/

/-- **unescaping inverts escaping, for every string of Unicode scalar values** -/
theorem unescape_quoted : ∀ s : Str, unescape (quotedString s) = some s := by
  intro s; simp [unescape, read_quoted]

/-- stronger form used by the term theorems: the reader stops exactly at the closing quote,
whatever follows -/
theorem read_quoted_string (s r : Str) : readStrBody (quotedString s ++ '"' :: r) = some (s, r) :=
  read_quoted s r

/-- **the generated escape table has the shape every theorem below rests on** (decided on the
table `tools/extractors/c03.py` regenerates from `quoted_string`, so an edit of the source that
breaks it fails this obligation by name): every arm writes a backslash and the ECHAR code of the
byte it replaces; `"`, `\`, LF, CR are cut bytes; every cut byte has an arm (`tableOk`,
`tableOkB` for the byte loop); every cut byte and every written byte is ASCII (`tableAscii`) -/
theorem escape_table_ok : tableOk = true ∧ tableAscii = true ∧ tableOkB = true := by decide

/-- the `unreachable!()` arm of `quoted_string` is dead: every cut byte has an arm -/
theorem quoted_no_panic : ∀ s : Str, quotedPanics s = false := by
  intro s
  simp only [quotedPanics, List.any_eq_false, Bool.and_eq_true, not_and, Bool.not_eq_true, Option.isNone_eq_false_iff]
  intro c _ hc
  rw [escArm_of_cut c hc]; rfl

/-- the char-wise definition the theorems use is what the source's `loop` computes, effect by
effect (prefix, then escape arm, then end test, then advance): in particular an escapable
character that is the last byte of the text is escaped, not dropped -/
theorem quoted_rs_eq : ∀ s : Str, quotedStringRs s = some (quotedString s) := by
  intro s
  simpa [quotedStringRs] using quotedLoop_eq (s.length + 1) [] s (Nat.lt_succ_self _)

/-- the loop invariant itself: whatever was already written stays, the rest is appended -/
theorem quoted_loop_inv (w s : Str) : quotedLoop (s.length + 1) w s = some (w ++ quotedString s) :=
  quotedLoop_eq _ w s (Nat.lt_succ_self _)

/-! ## bytes: `quoted_string` works on `lexical_form().as_bytes()` -/

/-- **the byte loop of the source, run on the UTF-8 encoding of any text, writes the UTF-8
encoding of `quotedString` of that text**: a cut never splits a multi-byte sequence, no
continuation byte is taken for a cut byte, the arms write the same ASCII bytes.  (This was a
modelling assumption; `utf8` is Lean's `String.utf8EncodeChar`.) -/
theorem quoted_bytes_eq : ∀ s : Str, quotedBytesRs (utf8 s) = some (utf8 (quotedString s)) := by
  intro s
  rw [quotedBytesRs, quotedLoopB_eq _ [] (utf8 s) (Nat.lt_succ_self _), List.nil_append, quotedB_utf8]

/-- `utf8` is what `String.toUTF8` yields, i.e. the bytes the driver prints and the differential
compares with the serializer's -/
theorem utf8_is_toUTF8 : ∀ s : Str, (String.ofList s).toUTF8.data.toList = utf8 s := utf8_toUTF8

/-- the byte-level `unreachable!()` is dead as well -/
theorem quoted_bytes_no_panic : ∀ bs : Bytes, (quotedBytesRs bs).isSome = true := by
  intro bs; rw [quotedBytesRs, quotedLoopB_eq _ [] bs (Nat.lt_succ_self _)]; rfl

/-- and unescaping is inverse at the byte level: the reader applied to the decoded output of the
byte loop gives back the text (composition of `quoted_bytes_eq` and `unescape_quoted`) -/
theorem unescape_quoted_bytes (s : Str) :
    ∃ out, quotedBytesRs (utf8 s) = some (utf8 out) ∧ unescape out = some s :=
  ⟨quotedString s, quoted_bytes_eq s, unescape_quoted s⟩

/-- a text in which `"`, LF, CR never occur raw and every `\` starts an ECHAR -/
def cleanAux : Bool → Str → Bool
  | esc, [] => !esc
  | true, e :: r => (echar e).isSome && cleanAux false r
  | false, c :: r =>
    if c = '\\' then cleanAux true r
    else c != '"' && c != '\n' && c != '\r' && cleanAux false r

def clean (s : Str) : Bool := cleanAux false s

theorem clean_plain (c : Char) (r : Str) (h1 : c ≠ '\n') (h2 : c ≠ '\r') (h3 : c ≠ '\\') (h4 : c ≠ '"') :
    clean (c :: r) = clean r := by
  simp [clean, cleanAux, h1, h2, h3, h4]

/-- **the output of `quoted_string` contains no raw `"`, `\`, LF or CR** -/
theorem quoted_clean : ∀ s : Str, clean (quotedString s) = true := by
  intro s
  induction s with
  | nil => rfl
  | cons c s ih =>
    rw [quotedString_cons]
    rcases escChar_cases c with ⟨h1, h2, h3, h4, e⟩ | ⟨x, e, hx, _, _⟩
    · rw [e]; simpa [clean_plain c _ h1 h2 h3 h4] using ih
    · rw [e]; simpa [clean, cleanAux, hx] using ih

/-- in particular no CR / LF at all -/
theorem quoted_no_eol (s : Str) : ∀ c ∈ quotedString s, c ≠ '\n' ∧ c ≠ '\r' := by
  intro c hc
  have := noEol_quoted s
  simp only [noEol, List.all_eq_true, Bool.not_eq_true'] at this
  have h := this c hc
  simp only [isEol, Bool.or_eq_false_iff, decide_eq_false_iff_not] at h
  exact h

/-! ## one statement per line -/

/-- **a written quad is one line**: no CR, exactly one LF, and it is the last character -/
theorem one_line (q : Quad) (hq : quadOk q = true) :
    (writeQuad q).count '\n' = 1 ∧ (writeQuad q).getLast? = some '\n' ∧ '\r' ∉ writeQuad q := by
  have hb := noEol_quadBody q hq
  simp only [noEol, List.all_eq_true, Bool.not_eq_true', isEol, Bool.or_eq_false_iff,
    decide_eq_false_iff_not] at hb
  rw [writeQuad_eq]
  refine ⟨?_, by simp, ?_⟩
  · rw [List.count_append, List.count_eq_zero_of_not_mem (fun h => (hb _ h).1 rfl)]; decide
  · intro h
    rcases List.mem_append.1 h with h | h
    · exact (hb _ h).2 rfl
    · simp at h

/-- **a written document has exactly one line per statement**: as many LF as quads, no CR, and
(unless empty) it ends with LF -/
theorem doc_lines (d : List Quad) (hd : ∀ q ∈ d, quadOk q = true) :
    (writeDoc d).count '\n' = d.length ∧ '\r' ∉ writeDoc d ∧ (d ≠ [] → (writeDoc d).getLast? = some '\n') := by
  induction d with
  | nil => simp [writeDoc]
  | cons q d ih =>
    obtain ⟨h1, h2, h3⟩ := one_line q (hd q (by simp))
    obtain ⟨i1, i2, _⟩ := ih (fun q' h => hd q' (by simp [h]))
    have e : writeDoc (q :: d) = writeQuad q ++ writeDoc d := by simp [writeDoc]
    refine ⟨?_, ?_, ?_⟩
    · rw [e, List.count_append, h1, i1]; simp; omega
    · rw [e]; intro h
      rcases List.mem_append.1 h with h | h
      · exact h3 h
      · exact i2 h
    · intro _
      rw [e]
      cases hd' : d with
      | nil => simpa [writeDoc] using h2
      | cons q' d' =>
        obtain ⟨_, _, i3⟩ := ih (fun q'' h => hd q'' (by simp [h]))
        rw [hd'] at i3
        rw [List.getLast?_append, i3 (by simp)]; rfl

/-- **each line is a complete statement of its own**: the line written for a quad (without its
LF) is read, by itself, as that quad — by the N-Quads reader, and by the N-Triples reader when
the quad is in the default graph -/
theorem each_line_reads (nq : Bool) (q : Quad) (hq : quadOk q = true) (hnq : q.g ≠ none → nq = true) :
    ∃ line, writeQuad q = line ++ ['\n'] ∧ readLine nq line = some (some q) :=
  ⟨quadBody q ++ ['.'], by rw [writeQuad_eq]; simp, read_write_line nq q hq hnq⟩

/-! ## reader ∘ writer = identity -/

/-- **terms**: for every well-formed term (IRIs free of the characters IRIREF forbids, labels
in BLANK_NODE_LABEL, tags in LANGTAG, any lexical form, quoted triples nested arbitrarily)
the reader returns the term and stops exactly where the writer stopped -/
theorem read_write_term (t : Term) (ht : termOk t = true) (n : Nat) (r : Str)
    (hn : depth t < n) (hr : delim r = true) :
    readTerm n (writeTerm t ++ r) = some (t, r) :=
  NTL.read_write_term t ht n r hn hr

/-- **quads**: the line written for a well-formed strict RDF-star quad reads back as exactly
that quad -/
theorem read_write_quad (q : Quad) (hq : quadOk q = true) : readDoc true (writeQuad q) = some [q] := by
  have := read_doc_aux true [q] (by intro q' h; simp at h; subst h; exact ⟨hq, fun _ => rfl⟩)
    ((writeDoc [q]).length + 1) (Nat.lt_succ_self _)
  simpa [readDoc, writeDoc] using this

/-- **N-Quads documents**: the same list of quads, in order — nothing lost, added or merged -/
theorem read_write_doc (d : List Quad) (hd : ∀ q ∈ d, quadOk q = true) :
    readDoc true (writeDoc d) = some d :=
  read_doc_aux true d (fun q h => ⟨hd q h, fun _ => rfl⟩) _ (Nat.lt_succ_self _)

/-- **N-Triples documents** (the N-Triples reader rejects graph labels) -/
theorem read_write_doc_nt (d : List Quad) (hd : ∀ q ∈ d, quadOk q = true ∧ q.g = none) :
    readDoc false (writeDoc d) = some d :=
  read_doc_aux false d (fun q h => ⟨(hd q h).1, fun hne => absurd (hd q h).2 hne⟩) _ (Nat.lt_succ_self _)

/-- serialisation is injective on well-formed datasets (used by C05) -/
theorem write_injective (d₁ d₂ : List Quad) (h₁ : ∀ q ∈ d₁, quadOk q = true) (h₂ : ∀ q ∈ d₂, quadOk q = true)
    (h : writeDoc d₁ = writeDoc d₂) : d₁ = d₂ := by
  have e₁ := read_write_doc d₁ h₁
  have e₂ := read_write_doc d₂ h₂
  rw [h, e₂] at e₁
  exact (Option.some.inj e₁).symm

theorem writeTerm_injective (a b : Term) (ha : termOk a = true) (hb : termOk b = true)
    (h : writeTerm a = writeTerm b) : a = b := by
  have e₁ := read_write_term a ha (depth a + depth b + 1) [] (by omega) (by decide)
  have e₂ := read_write_term b hb (depth a + depth b + 1) [] (by omega) (by decide)
  rw [h, e₂] at e₁
  exact (Prod.mk.inj (Option.some.inj e₁)).1.symm

/-! ## the toolkit's own validators put a term in the domain of the theorems

`termOk` (character classes of the grammar) is implied by what `Iri::new`, `BnodeId::new`
accept, and — for tags — by BCP 47 well-formedness.  Whole-regex obligations are discharged by
the verified decision procedure of `SophiaModel/Regex/Decide.lean` (evaluated natively). -/

/-- no RFC 3987 IRI (as validated by `Iri::new`) contains a character IRIREF forbids -/
theorem iri_regex_sub_iriref : ∀ w, Matches Gen.IRI_REGEX w → Matches G.IRIREF_RAW w :=
  decideIncl_sound _ _ (by native_decide)

/-- `BnodeId::new` accepts only BLANK_NODE_LABELs of the grammar (it is stricter: no `..`) -/
theorem bnode_id_sub_label : ∀ w, Matches Gen.BNODE_ID w → Matches G.BLANK_NODE_LABEL w :=
  decideIncl_sound _ _ (by native_decide)

/-- every well-formed BCP 47 tag is a LANGTAG of the grammar … -/
theorem bcp47_sub_langtag : ∀ w, Matches G.BCP47 w → Matches G.LANGTAG w :=
  decideIncl_sound _ _ (by native_decide)

/-- … and is accepted by `LanguageTag::new` -/
theorem bcp47_sub_lang_tag : ∀ w, Matches G.BCP47 w → Matches Gen.LANG_TAG w :=
  decideIncl_sound _ _ (by native_decide)

/-- tags whose first subtag contains a digit -/
def digitInFirst : Re := Re.seqs [Re.plus G.alpha, G.digit, .star (.alt G.alnum G.dash)]

/-- the guard made explicit: what `LanguageTag::new` accepts is a LANGTAG unless its first
subtag contains a digit (and the two cases exclude each other) -/
theorem lang_tag_guard : ∀ w, Matches Gen.LANG_TAG w → Matches G.LANGTAG w ∨ Matches digitInFirst w := by
  intro w h
  exact matches_alt.1 (decideIncl_sound Gen.LANG_TAG (.alt G.LANGTAG digitInFirst) (by native_decide) w h)

theorem lang_tag_guard_excl : ∀ w, ¬ (Matches G.LANGTAG w ∧ Matches digitInFirst w) :=
  decideDisj_sound _ _ (by native_decide)

/-- observation recorded in the evidence: the validator is wider than the grammar (`a1`) -/
theorem lang_tag_wider : Matches Gen.LANG_TAG (ofStr "a1") ∧ ¬ Matches G.LANGTAG (ofStr "a1") := by
  decide

/-- a term accepted by the toolkit's validators whose tags are BCP 47 is well-formed in the
sense of the round-trip theorems -/
theorem valid_termOk (t : Term) (hv : termValid t = true) (hb : termBcp t = true) : termOk t = true := by
  induction t with
  | iri s =>
    simp only [termValid, matchB_iff] at hv
    exact iriOk_of_matches s (iri_regex_sub_iriref _ hv)
  | bnode l =>
    simp only [termValid, matchB_iff] at hv
    exact labelOk_of_matches l (bnode_id_sub_label _ hv)
  | lit lex dt =>
    simp only [termValid, matchB_iff] at hv
    exact iriOk_of_matches dt (iri_regex_sub_iriref _ hv)
  | lang lex tag =>
    simp only [termBcp, matchB_iff] at hb
    exact tagOk_of_matches tag (bcp47_sub_langtag _ hb)
  | var v => simp [termValid] at hv
  | triple s p o ihs ihp iho =>
    simp only [termValid, termBcp, Bool.and_eq_true] at hv hb
    simp only [termOk, Bool.and_eq_true]
    exact ⟨⟨ihs hv.1.1 hb.1.1, ihp hv.1.2 hb.1.2⟩, iho hv.2 hb.2⟩

theorem domain_quadOk (q : Quad) (hv : quadAll termValid q = true) (hb : quadAll termBcp q = true)
    (hs : strictQuad q = true) : quadOk q = true := by
  simp only [quadAll, Bool.and_eq_true] at hv hb
  simp only [quadOk, Bool.and_eq_true]
  refine ⟨⟨⟨⟨valid_termOk _ hv.1.1.1 hb.1.1.1, valid_termOk _ hv.1.1.2 hb.1.1.2⟩,
    valid_termOk _ hv.1.2 hb.1.2⟩, ?_⟩, hs⟩
  cases hg : q.g with
  | none => rfl
  | some g =>
    have h1 := hv.2; have h2 := hb.2
    rw [hg] at h1 h2
    exact valid_termOk g h1 h2

/-- **the property, in the toolkit's own terms**: every finite dataset of strict RDF-star quads
whose IRIs pass `Iri::new`, whose labels pass `BnodeId::new` and whose tags are BCP 47 is read
back exactly from its serialisation -/
theorem read_write_doc_valid (d : List Quad)
    (hd : ∀ q ∈ d, quadAll termValid q = true ∧ quadAll termBcp q = true ∧ strictQuad q = true) :
    readDoc true (writeDoc d) = some d :=
  read_write_doc d (fun q h => domain_quadOk q (hd q h).1 (hd q h).2.1 (hd q h).2.2)

/-! ## the writer as the source spells it (generated op tables) is the writer of the theorems

`writeTermT … writeDocT` interpret `Gen/NtWriter.lean` — `write_term`'s arms, the literal decision
tree with the `NsTerm` it compares the datatype with, `write_triple`, the closures of
`serialize_triples` / `serialize_quads`, all regenerated from the source — and are what the driver
prints.  They are equal, for every input, to `writeTerm … writeDoc`, so every theorem of this
file is about the bytes the differential compares; a change of the source inside the op language
(another separator, another elided datatype, a reordered arm) changes the table and fails these
obligations, one outside it fails the extractor. -/

/-- `NsTerm::eq` (prefix test, then comparison of the rest) is equality with `ns ++ suffix` -/
theorem nsTermEq_iff (ns sfx iri : Str) : nsTermEq ns sfx iri = true ↔ iri = ns ++ sfx := by
  simp only [nsTermEq, Bool.and_eq_true, beq_iff_eq]
  constructor
  · rintro ⟨h1, h2⟩
    obtain ⟨t, rfl⟩ := List.isPrefixOf_iff_prefix.1 h1
    simp at h2; rw [h2]
  · rintro rfl
    exact ⟨List.isPrefixOf_iff_prefix.2 (List.prefix_append _ _), by simp⟩

/-- the flags other tables contribute: `NsTerm::eq` still has the shape `nsTermEq` models (C02's
extractor), `serialize_graph` / `serialize_dataset` still are `serialize_triples(g.triples())` /
`serialize_quads(d.quads())`, and the datatype the literal arm elides is `xsd:string` -/
theorem writer_flags_ok :
    Gen.TermKind.nsTermEqShape = true ∧ Gen.serializeContainerIsSource = true ∧
      Gen.ntElideNs ++ Gen.ntElideSuffix = xsdString := by decide

/-- **the datatype elision rule**: `"^^<dt>` is written unless `dt` is exactly `xsd:string` — no
other IRI (same namespace and `string` as a suffix, other case, other namespace) is elided -/
theorem elide_iff (dt : Str) : nsTermEq Gen.ntElideNs Gen.ntElideSuffix dt = true ↔ dt = xsdString := by
  simp only [nsTermEq_iff, writer_flags_ok.2.2]

theorem elide_eq (dt : Str) : (!nsTermEq Gen.ntElideNs Gen.ntElideSuffix dt) = decide (xsdString ≠ dt) := by
  by_cases h : dt = xsdString
  · have := (elide_iff dt).2 h
    subst h; simp [this]
  · have : nsTermEq Gen.ntElideNs Gen.ntElideSuffix dt = false := by
      cases e : nsTermEq Gen.ntElideNs Gen.ntElideSuffix dt with
      | false => rfl
      | true => exact absurd ((elide_iff dt).1 e) h
    simp [this, Ne.symm h]

/-- **`write_term` as generated = `writeTerm`**, every term -/
theorem writeTermT_eq : ∀ t : Term, writeTermT t = writeTerm t := by
  intro t
  induction t with
  | iri s => simp [writeTermT, writeTerm, interp, Gen.ntArmIri]
  | bnode l => simp [writeTermT, writeTerm, interp, Gen.ntArmBnode]
  | var v => simp [writeTermT, writeTerm, interp, Gen.ntArmVar]
  | lit lex dt =>
    simp only [writeTermT, writeTerm, elide_eq]
    by_cases h : xsdString = dt <;> simp [interp, Gen.ntLitPre, Gen.ntLitTyped, Gen.ntLitPlain, h]
  | lang lex tag => simp [writeTermT, writeTerm, interp, Gen.ntLitPre, Gen.ntLitLang]
  | triple s p o ihs ihp iho =>
    simp [writeTermT, writeTerm, interp, Gen.ntTriple, Gen.ntArmTriple, ihs, ihp, iho]

theorem writeTripleT_eq (s p o : Term) : writeTripleT s p o = writeTriple s p o := by
  simp [writeTripleT, writeTriple, interp, Gen.ntTriple, writeTermT_eq]

/-- **the closure of `serialize_quads` as generated = `writeQuad`**; the closure of
`serialize_triples` too, on what it can be given (no graph name) -/
theorem writeQuadT_eq (q : Quad) :
    writeQuadT true q = writeQuad q ∧ (q.g = none → writeQuadT false q = writeQuad q) := by
  constructor
  · cases hg : q.g <;>
      simp [writeQuadT, writeQuad, interp, Gen.nqPre, Gen.nqNone, Gen.nqSome, writeTripleT_eq, writeTermT_eq, hg]
  · intro h
    simp [writeQuadT, writeQuad, interp, Gen.ntStatement, writeTripleT_eq, h]

/-- **documents** -/
theorem writeDocT_eq (d : List Quad) :
    writeDocT true d = writeDoc d ∧ ((∀ q ∈ d, q.g = none) → writeDocT false d = writeDoc d) := by
  constructor
  · have : writeQuadT true = writeQuad := funext fun q => (writeQuadT_eq q).1
    simp [writeDocT, writeDoc, this]
  · intro h
    induction d with
    | nil => rfl
    | cons q d ih =>
      have e := (writeQuadT_eq q).2 (h q (by simp))
      have ih' := ih (fun q' hq' => h q' (by simp [hq']))
      simp only [writeDocT, writeDoc, List.flatMap_cons] at ih' ⊢
      rw [e, ih']

/-- **the property for the generated writer**: what the source's own spelling writes for a dataset
of the domain is read back, by the grammar reader, as exactly that dataset (N-Quads; N-Triples
for datasets without graph names) -/
theorem read_write_doc_generated (d : List Quad)
    (hd : ∀ q ∈ d, quadAll termValid q = true ∧ quadAll termBcp q = true ∧ strictQuad q = true) :
    readDoc true (writeDocT true d) = some d ∧
      ((∀ q ∈ d, q.g = none) → readDoc false (writeDocT false d) = some d) := by
  have hok : ∀ q ∈ d, quadOk q = true := fun q h => domain_quadOk q (hd q h).1 (hd q h).2.1 (hd q h).2.2
  refine ⟨by rw [(writeDocT_eq d).1]; exact read_write_doc d hok, fun hg => ?_⟩
  rw [(writeDocT_eq d).2 hg]
  exact read_write_doc_nt d (fun q h => ⟨hok q h, hg q h⟩)

/-! ## UCHAR: the reader's other escape branch, and the pending pure-ASCII mode -/

theorem hexVal_digit : ∀ d : Fin 16, NT.hexVal (hexDigitU d.val) = some d.val := by decide

theorem hexVal_digit' (d : Nat) (h : d < 16) : NT.hexVal (hexDigitU d) = some d := hexVal_digit ⟨d, h⟩

theorem hexNum_hex4 (n : Nat) (h : n < 65536) : hexNum (hex4 n) = some n := by
  simp only [hexNum, hex4, List.foldl_cons, List.foldl_nil, Option.bind_some, Option.map_some,
    hexVal_digit' _ (Nat.mod_lt _ (by decide : 16 > 0))]
  congr 1; omega

theorem hexNum_hex8 (n : Nat) (h : n < 4294967296) : hexNum (hex8 n) = some n := by
  simp only [hexNum, hex8, hex4, List.cons_append, List.nil_append, List.foldl_cons, List.foldl_nil, Option.bind_some, Option.map_some,
    hexVal_digit' _ (Nat.mod_lt _ (by decide : 16 > 0))]
  congr 1; omega

theorem ucharOf_hex4 (c : Char) (h : c.toNat < 65536) : ucharOf (hex4 c.toNat) = some c := by
  have hv : c.toNat.isValidChar := c.valid
  simp [ucharOf, hexNum_hex4 _ h, hv, Char.ofNat_toNat]

theorem ucharOf_hex8 (c : Char) : ucharOf (hex8 c.toNat) = some c := by
  have hv : c.toNat.isValidChar := c.valid
  have hlt : c.toNat < 4294967296 := by
    rcases hv with h | h <;> omega
  simp [ucharOf, hexNum_hex8 _ hlt, hv, Char.ofNat_toNat]

/-- the reader decodes `\uXXXX` -/
theorem read_uchar4 (c : Char) (h : c.toNat < 65536) (r : Str) :
    readStrBody ('\\' :: 'u' :: (hex4 c.toNat ++ r)) = pushFst c (readStrBody r) := by
  have e := ucharOf_hex4 c h
  simp only [hex4] at e
  rw [readStrBody.eq_def]
  simp [hex4, e]

/-- … and `\UXXXXXXXX`, for every scalar value -/
theorem read_uchar8 (c : Char) (r : Str) :
    readStrBody ('\\' :: 'U' :: (hex8 c.toNat ++ r)) = pushFst c (readStrBody r) := by
  have e := ucharOf_hex8 c
  rw [readStrBody.eq_def]
  simp [hex8, hex4] at e ⊢
  rw [e]

theorem read_quotedAscii (s r : Str) : readStrBody (quotedAscii s ++ '"' :: r) = some (s, r) := by
  induction s with
  | nil => simp [quotedAscii, readStrBody_quote]
  | cons c s ih =>
    have hc : quotedAscii (c :: s) = escAscii c ++ quotedAscii s := by simp [quotedAscii]
    rw [hc, List.append_assoc]
    unfold escAscii
    split
    · rcases escChar_cases c with ⟨h1, h2, h3, h4, e⟩ | ⟨x, e, hx, hu, hU⟩
      · rw [e]; simp [readStrBody_plain c _ h1 h2 h3 h4, ih, pushFst]
      · rw [e]; simp [readStrBody_echar x c _ hx hu hU, ih, pushFst]
    · split
      · rw [List.cons_append, List.cons_append, read_uchar4 c (by assumption), ih]; rfl
      · rw [List.cons_append, List.cons_append, read_uchar8 c, ih]; rfl

theorem unescape_quotedAscii (s : Str) : unescape (quotedAscii s) = some s := by
  simp [unescape, read_quotedAscii]

theorem hexDigitU_ascii : ∀ d : Fin 16, (hexDigitU d.val).toNat < 128 := by decide

theorem escChar_ascii (c : Char) (h : c.toNat < 128) : ∀ x ∈ escChar c, x.toNat < 128 := by
  intro x hx
  by_cases hc : isCut c = true
  · have e := escArm_of_cut c hc
    exact (SophiaProofs.NTB.arms_ascii c (escChar c) (mem_of_lookup c (escChar c) Gen.ntEscapeArms e)).2 x hx
  · have : escChar c = [c] := by simp [escChar, hc]
    rw [this] at hx; simp at hx; subst hx; exact h

theorem quotedAscii_is_ascii (s : Str) : ∀ x ∈ quotedAscii s, x.toNat < 128 := by
  intro x hx
  simp only [quotedAscii, List.mem_flatMap] at hx
  obtain ⟨c, _, hxc⟩ := hx
  unfold escAscii at hxc
  have hd : ∀ n, (hexDigitU (n % 16)).toNat < 128 := fun n => hexDigitU_ascii ⟨n % 16, Nat.mod_lt _ (by decide)⟩
  split at hxc
  · exact escChar_ascii c (by assumption) x hxc
  · split at hxc
    · simp only [hex4, List.mem_cons, List.not_mem_nil, or_false] at hxc
      rcases hxc with rfl | rfl | rfl | rfl | rfl | rfl <;> first | decide | exact hd _
    · simp only [hex8, hex4, List.cons_append, List.nil_append, List.mem_cons, List.not_mem_nil, or_false] at hxc
      rcases hxc with rfl | rfl | rfl | rfl | rfl | rfl | rfl | rfl | rfl | rfl <;> first | decide | exact hd _

theorem read_iri_uchar4 (c : Char) (h : c.toNat < 65536) (r : Str) :
    readIriBody ('\\' :: 'u' :: (hex4 c.toNat ++ r)) = pushFst c (readIriBody r) := by
  have e := ucharOf_hex4 c h
  simp only [hex4] at e
  rw [readIriBody.eq_def]
  simp [hex4, e]

theorem read_iri_uchar8 (c : Char) (r : Str) :
    readIriBody ('\\' :: 'U' :: (hex8 c.toNat ++ r)) = pushFst c (readIriBody r) := by
  have e := ucharOf_hex8 c
  rw [readIriBody.eq_def]
  simp [hex8, hex4] at e ⊢
  rw [e]

example : unescape (quotedAscii "é😀\n\"".toList) = some "é😀\n\"".toList := unescape_quotedAscii _

-- the classic bug (a UTF-16 surrogate pair instead of the scalar value) is rejected by the reader
example : unescape "\\uD83D\\uDE00".toList = none := by decide +kernel
example : unescape "\\u00E9\\U0001F600".toList = some "é😀".toList := by decide +kernel

/-! ## set containers and failing sinks (the other entry points the driver models) -/

/-- the quad a single written line denotes -/
def lineQuad (line : Str) : Quad := ((readDoc true line).getD []).headD default

theorem lineQuad_write (q : Quad) (hq : quadOk q = true) : lineQuad (writeQuad q) = q := by
  simp [lineQuad, read_write_quad q hq]

/-- **comparing a set container's output as a sorted sequence of lines is sound**: if the sorted
lines of two well-formed datasets coincide (whatever the order `le`), the datasets are
permutations of each other — no quad lost, added or merged by a `HashSet` source either -/
theorem sorted_lines_sound (le : Str → Str → Bool) (d d' : List Quad)
    (hd : ∀ q ∈ d, quadOk q = true) (hd' : ∀ q ∈ d', quadOk q = true)
    (h : (d.map (writeQuadT true)).mergeSort le = (d'.map (writeQuadT true)).mergeSort le) : d.Perm d' := by
  have hw : writeQuadT true = writeQuad := funext fun q => (writeQuadT_eq q).1
  rw [hw] at h
  have p1 : (d.map writeQuad).Perm (d'.map writeQuad) :=
    ((List.mergeSort_perm _ le).symm.trans (h ▸ List.Perm.refl _)).trans (List.mergeSort_perm _ le)
  have p2 := p1.map lineQuad
  have e : ∀ l : List Quad, (∀ q ∈ l, quadOk q = true) → (l.map writeQuad).map lineQuad = l := by
    intro l hl
    rw [List.map_map]
    conv => rhs; rw [← List.map_id l]
    exact List.map_congr_left (fun q hq => lineQuad_write q (hl q hq))
  rw [e d hd, e d' hd'] at p2
  exact p2

/-- **a sink with room for n bytes**: however the serializer splits its output into `write_all`
calls, the serialisation succeeds iff the whole output fits (so `Err` ⇔ longer than n bytes) -/
theorem sink_ok_iff (n : Nat) (chunks : List Bytes) :
    (sinkRun n chunks).isSome = true ↔ chunks.flatten.length ≤ n := by
  induction chunks generalizing n with
  | nil => simp [sinkRun]
  | cons c cs ih =>
    simp only [sinkRun, List.flatten_cons, List.length_append]
    split
    · rw [ih]; omega
    · simp; omega

example : (sinkRun 5 [[1, 2], [], [3, 4, 5]]).isSome = true ∧ (sinkRun 4 [[1, 2], [], [3, 4, 5]]).isSome = false := by decide

/-! ## the hypotheses: discharged where they are internal, shown necessary where they are guards -/

/-- **the fuel hypothesis of `read_write_term` is internal**: the fuel the line reader actually
passes (the length of the text) always suffices, whatever the nesting depth -/
theorem read_term_fuel (t : Term) (ht : termOk t = true) (r : Str) (hr : delim r = true) :
    readTerm (writeTerm t ++ r).length (writeTerm t ++ r) = some (t, r) :=
  read_write_term t ht _ r (by have := depth_lt t; simp only [List.length_append]; omega) hr

def q3 (s p o : Term) : Quad := ⟨s, p, o, none⟩
def ix (s : String) : Term := .iri s.toList

/-- **every guard of `quadOk` is necessary**: for each clause a quad violating only that clause
whose serialisation does NOT read back as itself (so `read_write_doc` cannot be stated without it):
an IRI containing `>` / a space; a label ending in `.`; a tag whose first subtag has a digit (the
`a1` that `LanguageTag::new` accepts), with an empty subtag, empty; a variable; a literal subject, a
blank-node predicate, a literal graph name (strictness); and `read_write_doc_nt`'s "no graph name" -/
theorem guards_necessary :
    readDoc true (writeDoc [q3 (ix "a>b") (ix "x:p") (ix "x:o")]) ≠ some [q3 (ix "a>b") (ix "x:p") (ix "x:o")] ∧
    readDoc true (writeDoc [q3 (ix "a b") (ix "x:p") (ix "x:o")]) ≠ some [q3 (ix "a b") (ix "x:p") (ix "x:o")] ∧
    readDoc true (writeDoc [q3 (.bnode "a.".toList) (ix "x:p") (ix "x:o")]) ≠ some [q3 (.bnode "a.".toList) (ix "x:p") (ix "x:o")] ∧
    readDoc true (writeDoc [q3 (ix "x:s") (ix "x:p") (.lang ['v'] "a1".toList)]) ≠ some [q3 (ix "x:s") (ix "x:p") (.lang ['v'] "a1".toList)] ∧
    readDoc true (writeDoc [q3 (ix "x:s") (ix "x:p") (.lang ['v'] "en--a".toList)]) ≠ some [q3 (ix "x:s") (ix "x:p") (.lang ['v'] "en--a".toList)] ∧
    readDoc true (writeDoc [q3 (ix "x:s") (ix "x:p") (.lang ['v'] [])]) ≠ some [q3 (ix "x:s") (ix "x:p") (.lang ['v'] [])] ∧
    readDoc true (writeDoc [q3 (ix "x:s") (ix "x:p") (.var ['v'])]) ≠ some [q3 (ix "x:s") (ix "x:p") (.var ['v'])] ∧
    readDoc true (writeDoc [q3 (.lit ['v'] xsdString) (ix "x:p") (ix "x:o")]) ≠ some [q3 (.lit ['v'] xsdString) (ix "x:p") (ix "x:o")] ∧
    readDoc true (writeDoc [q3 (ix "x:s") (.bnode ['b']) (ix "x:o")]) ≠ some [q3 (ix "x:s") (.bnode ['b']) (ix "x:o")] ∧
    readDoc true (writeDoc [⟨ix "x:s", ix "x:p", ix "x:o", some (.lit ['g'] xsdString)⟩]) ≠
      some [⟨ix "x:s", ix "x:p", ix "x:o", some (.lit ['g'] xsdString)⟩] ∧
    readDoc false (writeDoc [⟨ix "x:s", ix "x:p", ix "x:o", some (ix "x:g")⟩]) ≠ some [⟨ix "x:s", ix "x:p", ix "x:o", some (ix "x:g")⟩] := by
  decide +kernel

/-- **the `delim` hypothesis of `read_write_term` is necessary**: a label followed by a label
character, a tag followed by `-x`, a plain literal followed by `@…` are read as something else -/
theorem delim_necessary :
    readTerm 2 (writeTerm (.bnode ['a']) ++ ['b']) ≠ some (.bnode ['a'], ['b']) ∧
    readTerm 2 (writeTerm (.lang ['v'] "en".toList) ++ "-x".toList) ≠ some (.lang ['v'] "en".toList, "-x".toList) ∧
    readTerm 2 (writeTerm (.lit ['v'] xsdString) ++ "@en".toList) ≠ some (.lit ['v'] xsdString, "@en".toList) := by
  decide +kernel

/-- … and it holds at every place the writer puts a term: before the separating space, before
`>>`, before the final `.` followed by LF — which is why `read_write_quad` carries no such
hypothesis -/
theorem delim_at_writer_positions (t : Term) (r : Str) :
    delim (' ' :: writeTerm t ++ r) = true ∧ delim ('>' :: r) = true ∧ delim ['.', '\n'] = true ∧ delim ['.'] = true :=
  ⟨by
      obtain ⟨c, rest, e, hc⟩ := writeTerm_head t
      exact delim_sp _ ⟨c, rest ++ r, by rw [e]; rfl, hc⟩,
    delim_gt r, by decide, by decide⟩

/-! ## non-vacuity -/

/-- a well-formed quad exercising every production: nested quoted triple, label with inner
dot and digit after the dot, mixed-case tag, every escape class in one lexical form, blank
graph name with leading digit and middle dot -/
def sampleQuad : Quad :=
  ⟨.triple (.bnode "a.1".toList) (.iri "http://ex.org/é".toList)
      (.triple (.iri "x:s".toList) (.iri "x:p".toList) (.lang "a\"b\\c\nd\re\t\x00\x7f😀é".toList "EN-gb".toList)),
   .iri "x:p".toList,
   .lit "\\\"\r\n".toList "http://ex.org/dt".toList,
   some (.bnode "0·.x".toList)⟩

example : quadOk sampleQuad = true := by decide
example : quadAll termValid sampleQuad = true ∧ quadAll termBcp sampleQuad = true := by decide +kernel
example : readDoc true (writeDoc [sampleQuad, sampleQuad]) = some [sampleQuad, sampleQuad] :=
  read_write_doc _ (by intro q h; simp at h; subst h; decide)
example : unescape (quotedString "a\"b\\c\nd\r".toList) = some "a\"b\\c\nd\r".toList := unescape_quoted _
-- a text ending in each escapable character keeps it (the end test comes after the escape arm)
example : quotedStringRs "a\n".toList = some "a\\n".toList ∧ quotedStringRs "\r".toList = some "\\r".toList ∧
    quotedStringRs "\"".toList = some "\\\"".toList ∧ quotedStringRs "x\\".toList = some "x\\\\".toList := by decide
-- bytes: a text with 1-, 2-, 3- and 4-byte characters around every escapable one
example : quotedBytesRs (utf8 "é\n€\"😀\\\r".toList) = some (utf8 "é\\n€\\\"😀\\\\\\r".toList) := quoted_bytes_eq _
example : utf8 "é\n😀".toList = [0xC3, 0xA9, 0x0A, 0xF0, 0x9F, 0x98, 0x80] := by decide
example : (writeDoc [sampleQuad, sampleQuad]).count '\n' = 2 :=
  (doc_lines _ (by intro q h; simp at h; subst h; decide)).1
example : delim ".\n".toList = true ∧ delim " <g>.".toList = true ∧ delim ">> .".toList = true := by decide
-- the reader is not the trivial one: it rejects what the grammar rejects
example : unescape "a\"b".toList = none := by decide
example : unescape "a\\".toList = none := by decide
example : unescape "a\nb".toList = none := by decide
example : readDoc true "<a> <b> \"x\" .\n<a> <b> ?v .\n".toList = none := by decide +kernel
example : readDoc false "<a> <b> <c> <g> .\n".toList = none := by decide +kernel
example : readDoc true "<a> <b> \"x\" @en-GB <g> . # c\r\n\n_:a.b<b><<<a><b>\"\\u00e9\\t\"^^ <x>>>.".toList =
    some [⟨.iri ['a'], .iri ['b'], .lang ['x'] "en-GB".toList, some (.iri ['g'])⟩,
          ⟨.bnode "a.b".toList, .iri ['b'], .triple (.iri ['a']) (.iri ['b']) (.lit "é\t".toList ['x']), none⟩] := by
  decide +kernel

end SophiaProofs.C03
