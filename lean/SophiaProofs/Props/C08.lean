/-
C08 — the contract between parser back-ends and toolkit validators.

Terms leave the back-ends wrapped as `Trusted<…>` (rio) or through `new_unchecked` (json-ld) and
are re-validated only by `debug_assert!`; so "parsers yield well-formed terms and never panic"
holds iff, per token kind, the language the back-end can emit is included in the language of the
toolkit's validator.  Back-end languages: hand models in `SophiaModel/Model/Backend.lean` (tied to
the real crates by the differential harness); validators: `SophiaModel.Gen.*`, regenerated from
/repo on every run.  Each inclusion is decided by the verified procedure of `Regex/Decide.lean`.

Where an inclusion is false the full statement is kept as a `def … : Prop`, refuted by a
kernel-checked witness (`…_refuted`), and the largest natural sub-language for which it holds is
proved as `…_partial`.  The refuted ones are genuine defects (findings/C08.json).

NOT covered here: termination / panic-freedom / stack use of the third-party parsers themselves on
arbitrary bytes (exploration by the harness only).
-/
import SophiaModel.Model.Backend
import SophiaModel.Model.ParserGlue
import SophiaModel.Gen.Regexes

namespace SophiaProofs.C08
open SophiaModel Re Backend

/-! ### inclusions that hold -/

/-- N-Triples, N-Quads, generalized N-Quads (any position) and Turtle, TriG, generalized TriG
(subject / graph-name position): every blank node label rio_turtle emits is accepted by
`BnodeId::new` (inner dots included). -/
theorem rio_bnode_sub_validator : ∀ w, Matches rioBnode w → Matches Gen.BNODE_ID w :=
  decideIncl_sound _ _ (by native_decide)

/-- generalized N-Quads / TriG: every variable name emitted is accepted by `VarName::new`. -/
theorem rio_var_sub_validator : ∀ w, Matches rioVar w → Matches Gen.VARNAME w :=
  decideIncl_sound _ _ (by native_decide)

/-- Turtle family and RDF/XML: every (lower-cased, oxilangtag-checked) language tag emitted is
accepted by `LanguageTag::new`. -/
theorem rio_lang_sub_validator : ∀ w, Matches rioLang w → Matches Gen.LANG_TAG w :=
  decideIncl_sound _ _ (by native_decide)

/-- JSON-LD: generated blank node labels are accepted by `BnodeId::new`. -/
theorem jsonld_bnode_sub_validator : ∀ w, Matches jsonldBnode w → Matches Gen.BNODE_ID w :=
  decideIncl_sound _ _ (by native_decide)

/-- `TurtleParser/TriGParser/GTriGParser/RdfXmlParser::parse` re-parse the configured base
(an `Iri<String>`, i.e. accepted by `IRI_REGEX`) with `oxiri::Iri::parse(..).unwrap()`:
the unwrap never fails. -/
theorem base_unwrap_safe : ∀ w, Matches Gen.IRI_REGEX w → Matches Oxiri.abs w :=
  decideIncl_sound _ _ (by native_decide)

/-! ### IRIs checked by oxiri (upper- and lower-case IPvFuture marker alike, since /repo 94adeaf) -/

/-- strict syntaxes (`<…>` without base, datatypes), RDF/XML IRI attributes without base: every IRI
`oxiri::Iri::parse` lets through is accepted by `Iri::new`. -/
theorem oxiri_abs_sub_validator : ∀ w, Matches rioIriAbs w → Matches Gen.IRI_REGEX w :=
  decideIncl_sound _ _ (by native_decide)

/-- generalized N-Quads: every reference `oxiri::IriRef::parse` lets through is accepted by `IriRef::new`. -/
theorem oxiri_ref_sub_validator : ∀ w, Matches rioIriRef w → Matches Gen.IRI_REF_REGEX w :=
  decideIncl_sound _ _ (by native_decide)

/-! ### recognisers that consult no validator at all -/

def GtrigIriSubValidator : Prop := ∀ w, Matches gtrigIri w → Matches Gen.IRI_REF_REGEX w
/-- generalized TriG without base: `<a b>` is handed over as the IRI `a b`. -/
theorem gtrig_iri_sub_validator_refuted : ¬ GtrigIriSubValidator := fun h =>
  absurd (h (ofStr "a b") (by decide)) (by decide)

def TtlPnameSubValidator : Prop := ∀ w, Matches ttlPnameOut w → Matches Gen.IRI_REGEX w
/-- Turtle / TriG: with `@prefix p: <x:>`, `p:\%` is handed over as the IRI `x:%`. -/
theorem ttl_pname_sub_validator_refuted : ¬ TtlPnameSubValidator := fun h =>
  absurd (h (ofStr "x:%") (by decide)) (by decide)

def XmlQNameSubValidator : Prop := ∀ w, Matches xmlQNameOut w → Matches Gen.IRI_REGEX w
/-- RDF/XML: `<e:p xmlns:e="x y">` is handed over as the predicate IRI `x yp`. -/
theorem xml_qname_sub_validator_refuted : ¬ XmlQNameSubValidator := fun h =>
  absurd (h (ofStr "x yp") (by decide)) (by decide)

/-! ### Turtle-family blank node labels in object position -/

def TtlBnodeObjSubValidator : Prop := ∀ w, Matches rioBnodeReturned w → Matches Gen.BNODE_ID w
/-- `<x:s> <x:p> _:a.×` (any non-ASCII character that is not a name character after the dot):
the triple is emitted with the label `a.` before the parser reports its error. -/
theorem ttl_bnode_obj_sub_validator_refuted : ¬ TtlBnodeObjSubValidator := fun h =>
  absurd (h (ofStr "a.") (by decide)) (by decide)

/-! ### RDF/XML `rdf:nodeID` -/

def XmlNodeIdSubValidator : Prop := ∀ w, Matches xmlNodeId w → Matches Gen.BNODE_ID w
/-- NCNames may end in `.` or contain `..`; `BNODE_ID` (Turtle's BLANK_NODE_LABEL) may not. -/
theorem xml_nodeid_sub_validator_refuted : ¬ XmlNodeIdSubValidator := fun h =>
  absurd (h (ofStr "A.") (by decide)) (by decide)

theorem xml_nodeid_sub_validator_partial :
    ∀ w, Matches xmlNodeIdNoTrailingDot w → Matches Gen.BNODE_ID w :=
  decideIncl_sound _ _ (by native_decide)

/-! ### rio/src/parser.rs: errors are mapped, never unwrapped -/
section Glue
open SophiaModel.ParserGlue

/-- every path through `try_for_some_item` returns a `StreamResult`; none panics -/
theorem glue_no_unwrap (sink : Option Nat) (s : St) : (trySome sink s).1 ≠ Out.panic := by
  unfold trySome
  cases s.script with
  | nil => simp
  | cons st rest =>
    cases sink with
    | none =>
      by_cases hf : st.fails = true <;> simp [hf]
    | some k =>
      by_cases hk : s.delivered ≤ k ∧ k < s.delivered + st.items
      · simp [hk]
      · by_cases hf : st.fails = true <;> simp [hk, hf]

/-- a back-end error surfaces as `SourceError` (when the callback did not fail first) -/
theorem glue_source_error (s : St) (st : Step) (rest : List Step) (h : s.script = st :: rest)
    (hf : st.fails = true) : (trySome none s).1 = Out.sourceErr := by
  unfold trySome
  rw [h]
  simp [hf]

/-- an exhausted back-end gives `Ok(false)`, for ever -/
theorem glue_end (sink : Option Nat) (n : Nat) : (trySome sink ⟨[], n⟩) = (Out.okFalse, ⟨[], n⟩) := rfl

example : run (some 2) 4 ⟨[⟨2, false⟩, ⟨0, true⟩, ⟨3, false⟩], 0⟩ = [.okTrue, .sourceErr, .sinkErr, .okFalse] := by decide
end Glue

/-! ### non-vacuity: the hypotheses are satisfiable by the shapes the property names -/
example : Matches rioBnode (ofStr "a.b-c.1") := by decide
example : ¬ Matches rioBnode (ofStr "a..b") := by decide
example : Matches rioBnodeReturned (ofStr "a.") := by decide
example : Matches rioVar (ofStr "9é_") := by decide
example : Matches rioLang (ofStr "zh-hant-cn-x-private") := by decide
example : Matches rioLang (ofStr "i-klingon") := by decide
example : ¬ Matches rioLang (ofStr "e") := by decide
example : Matches rioIriAbs (ofStr "http://u@[1:2::3:4:5:6:7]:80/a//b?c#d") := by decide
example : Matches rioIriAbs (ofStr "A://[V0.!]") := by decide
example : Matches rioIriRef (ofStr "../é/%41?q") := by decide
example : ¬ Matches Oxiri.ref (ofStr "//:!") := by decide
example : Matches Gen.IRI_REGEX (ofStr "http://[v7.a:b]/") := by decide
example : Matches xmlNodeIdNoTrailingDot (ofStr "a.b") := by decide
example : Matches jsonldBnode (ofStr "12") := by decide

end SophiaProofs.C08
