/-
C08 — the contract between parser back-ends and toolkit validators.

Terms leave the back-ends wrapped as `Trusted<…>` (rio) or through `new_unchecked` (json-ld) and
are re-validated only by `debug_assert!`; so "parsers yield well-formed terms and never panic"
holds iff, per token kind, the language the back-end can emit is included in the language of the
toolkit's validator.  Back-end languages: hand models in `SophiaModel/Model/Backend.lean` (tied to
the real crates by the differential harness); validators: `SophiaModel.Gen.*`, regenerated from
/repo on every run.  Each inclusion is decided by the verified procedure of `Regex/Decide.lean`.

Where an inclusion is false the full statement is kept as a `def … : Prop`, refuted by a
kernel-checked witness (`…_refuted`), and the largest natural sub-language for which it holds is
proved as `…_partial`.  The refuted ones are genuine defects (findings/C08.json).

NOT covered here: termination / panic-freedom / stack use of the third-party parsers themselves on
arbitrary bytes (exploration by the harness only).
-/
import SophiaModel.Model.Backend
import SophiaModel.Model.ParserGlue
import SophiaModel.Model.ParserContract
import SophiaModel.Gen.Regexes
import SophiaModel.Gen.ParserWiring
import SophiaModel.Gen.BackendClasses

namespace SophiaProofs.C08
open SophiaModel Re Backend

/-! ### inclusions that hold -/

/-- N-Triples, N-Quads, generalized N-Quads (any position) and Turtle, TriG, generalized TriG
(subject / graph-name position): every blank node label rio_turtle emits is accepted by
`BnodeId::new` (inner dots included). -/
theorem rio_bnode_sub_validator : ∀ w, Matches rioBnode w → Matches Gen.BNODE_ID w :=
  decideIncl_sound _ _ (by native_decide)

/-- generalized N-Quads / TriG: every variable name emitted is accepted by `VarName::new`. -/
theorem rio_var_sub_validator : ∀ w, Matches rioVar w → Matches Gen.VARNAME w :=
  decideIncl_sound _ _ (by native_decide)

/-- Turtle family and RDF/XML: every (lower-cased, oxilangtag-checked) language tag emitted is
accepted by `LanguageTag::new`. -/
theorem rio_lang_sub_validator : ∀ w, Matches rioLang w → Matches Gen.LANG_TAG w :=
  decideIncl_sound _ _ (by native_decide)

/-- Turtle, TriG, generalized TriG do not hand over the label they read but `disambiguate label`
(rio_turtle's `BlankNodeIdGenerator`: labels shaped like its own generated ones, `riog` + 8 digits + `d`*, get one
more `d`).  The relabelled ones are valid too … -/
theorem riog_suffix_sub_validator : ∀ w, Matches (.cat riogShape (chr 'd')) w → Matches Gen.BNODE_ID w :=
  decideIncl_sound _ _ (by native_decide)

/-- … so what is handed over is accepted by `BnodeId::new` whichever branch `disambiguate` takes. -/
theorem ttl_bnode_disambiguated_sub_validator :
    ∀ w, Matches rioBnode w → Matches Gen.BNODE_ID (disambiguate w) := by
  intro w h
  unfold disambiguate
  by_cases hs : matchB riogShape w = true
  · rw [if_pos hs]
    apply riog_suffix_sub_validator
    exact Matches.cat ((matchB_iff _ _).1 hs) (Matches.cls (by decide))
  · rw [if_neg hs]
    exact rio_bnode_sub_validator w h

/-- JSON-LD: generated blank node labels are accepted by `BnodeId::new`. -/
theorem jsonld_bnode_sub_validator : ∀ w, Matches jsonldBnode w → Matches Gen.BNODE_ID w :=
  decideIncl_sound _ _ (by native_decide)

/-- `TurtleParser/TriGParser/GTriGParser/RdfXmlParser::parse` re-parse the configured base
(an `Iri<String>`, i.e. accepted by `IRI_REGEX`) with `oxiri::Iri::parse(..).unwrap()`:
the unwrap never fails. -/
theorem base_unwrap_safe : ∀ w, Matches Gen.IRI_REGEX w → Matches Oxiri.abs w :=
  decideIncl_sound _ _ (by native_decide)

/-! ### IRIs checked by oxiri (upper- and lower-case IPvFuture marker alike, since /repo 94adeaf) -/

/-- strict syntaxes (`<…>` without base, datatypes), RDF/XML IRI attributes without base: every IRI
`oxiri::Iri::parse` lets through is accepted by `Iri::new`. -/
theorem oxiri_abs_sub_validator : ∀ w, Matches rioIriAbs w → Matches Gen.IRI_REGEX w :=
  decideIncl_sound _ _ (by native_decide)

/-- generalized N-Quads: every reference `oxiri::IriRef::parse` lets through is accepted by `IriRef::new`. -/
theorem oxiri_ref_sub_validator : ∀ w, Matches rioIriRef w → Matches Gen.IRI_REF_REGEX w :=
  decideIncl_sound _ _ (by native_decide)

/-! ### recognisers that consult no validator at all -/

def GtrigIriSubValidator : Prop := ∀ w, Matches gtrigIri w → Matches Gen.IRI_REF_REGEX w
/-- generalized TriG without base: `<a b>` is handed over as the IRI `a b`. -/
theorem gtrig_iri_sub_validator_refuted : ¬ GtrigIriSubValidator := fun h =>
  absurd (h (ofStr "a b") (by decide)) (by decide)

def TtlPnameSubValidator : Prop := ∀ w, Matches ttlPnameOut w → Matches Gen.IRI_REGEX w
/-- Turtle / TriG: with `@prefix p: <x:>`, `p:\%` is handed over as the IRI `x:%`. -/
theorem ttl_pname_sub_validator_refuted : ¬ TtlPnameSubValidator := fun h =>
  absurd (h (ofStr "x:%") (by decide)) (by decide)

def XmlQNameSubValidator : Prop := ∀ w, Matches xmlQNameOut w → Matches Gen.IRI_REGEX w
/-- RDF/XML: `<e:p xmlns:e="x y">` is handed over as the predicate IRI `x yp`. -/
theorem xml_qname_sub_validator_refuted : ¬ XmlQNameSubValidator := fun h =>
  absurd (h (ofStr "x yp") (by decide)) (by decide)

/-! ### Turtle-family blank node labels in object position -/

def TtlBnodeObjSubValidator : Prop := ∀ w, Matches rioBnodeReturned w → Matches Gen.BNODE_ID w
/-- `<x:s> <x:p> _:a.×` (any non-ASCII character that is not a name character after the dot):
the triple is emitted with the label `a.` before the parser reports its error. -/
theorem ttl_bnode_obj_sub_validator_refuted : ¬ TtlBnodeObjSubValidator := fun h =>
  absurd (h (ofStr "a.") (by decide)) (by decide)

/-! ### RDF/XML `rdf:nodeID` -/

def XmlNodeIdSubValidator : Prop := ∀ w, Matches xmlNodeId w → Matches Gen.BNODE_ID w
/-- NCNames may end in `.` or contain `..`; `BNODE_ID` (Turtle's BLANK_NODE_LABEL) may not. -/
theorem xml_nodeid_sub_validator_refuted : ¬ XmlNodeIdSubValidator := fun h =>
  absurd (h (ofStr "A.") (by decide)) (by decide)

theorem xml_nodeid_sub_validator_partial :
    ∀ w, Matches xmlNodeIdNoTrailingDot w → Matches Gen.BNODE_ID w :=
  decideIncl_sound _ _ (by native_decide)

/-! ### JSON-LD blank node properties under `produce_generalized_rdf` -/

def JsonldBnodePredSubValidator : Prop := ∀ w, Matches jsonldBnodePred w → Matches Gen.BNODE_ID w
/-- `{"@id":"x:s","_:a:b":"o"}` parsed with `produce_generalized_rdf`: the predicate is the blank node `a:b`
(`rdf_types::BlankId` allows `:`; node-map generation does not relabel properties). -/
theorem jsonld_bnode_pred_sub_validator_refuted : ¬ JsonldBnodePredSubValidator := fun h =>
  absurd (h (ofStr "a:b") (by decide)) (by decide)

/-- Since /repo ea054b4 `JsonLdParser::parse_json` answers with an error source when a quad carries a blank node
label `BnodeId::new` rejects.  The flag is regenerated from /repo (tools/extractors/c08.py); the driver's model
and `specOf_contract` (class `jsonldPred`) depend on it, so a regression of the repair fails this obligation
(and the `tok jsonld@gen bnode_p` differential). -/
theorem jsonld_rejects_invalid_bnode_labels : Gen.ParserWiring.jsonldRejectsInvalidBnodeLabels = true := by decide

/-- without `:` every such label is accepted by `BnodeId::new` -/
theorem jsonld_bnode_pred_sub_validator_partial :
    ∀ w, Matches jsonldBnodePredNoColon w → Matches Gen.BNODE_ID w :=
  decideIncl_sound _ _ (by native_decide)

/-! ### rio/src/parser.rs: errors are mapped, never unwrapped -/
section Glue
open SophiaModel.ParserGlue

/-- every path through `try_for_some_item` returns a `StreamResult`; none panics -/
theorem glue_no_unwrap (sink : Option Nat) (s : St) : (trySome sink s).1 ≠ Out.panic := by
  unfold trySome
  cases s.script with
  | nil => simp
  | cons st rest =>
    cases sink with
    | none =>
      by_cases hf : st.fails = true <;> simp [hf]
    | some k =>
      by_cases hk : s.delivered ≤ k ∧ k < s.delivered + st.items
      · simp [hk]
      · by_cases hf : st.fails = true <;> simp [hk, hf]

/-- a back-end error surfaces as `SourceError` (when the callback did not fail first) -/
theorem glue_source_error (s : St) (st : Step) (rest : List Step) (h : s.script = st :: rest)
    (hf : st.fails = true) : (trySome none s).1 = Out.sourceErr := by
  unfold trySome
  rw [h]
  simp [hf]

example : ∃ s st rest, s.script = st :: rest ∧ st.fails = true ∧ (trySome none s).1 = Out.sourceErr :=
  ⟨⟨[⟨2, true⟩], 0⟩, ⟨2, true⟩, [], rfl, rfl, by decide⟩

/-- an exhausted back-end gives `Ok(false)`, for ever -/
theorem glue_end (sink : Option Nat) (n : Nat) : (trySome sink ⟨[], n⟩) = (Out.okFalse, ⟨[], n⟩) := rfl

example : run (some 2) 4 ⟨[⟨2, false⟩, ⟨0, true⟩, ⟨3, false⟩], 0⟩ = [.okTrue, .sourceErr, .sinkErr, .okFalse] := by decide

/-! The three statements above are about ONE call and follow the definition closely.  What the property
needs is about the whole stream (`try_for_each_item` / the harness keep calling): -/

/-- one call on a non-exhausted back-end consumes exactly one `parse_step` and answers neither
`Ok(false)` nor a panic -/
theorem trySome_step (sink : Option Nat) (st : Step) (rest : List Step) (d : Nat) :
    ∃ d', (trySome sink ⟨st :: rest, d⟩).2 = ⟨rest, d'⟩ ∧ (trySome sink ⟨st :: rest, d⟩).1 ≠ Out.panic
      ∧ (trySome sink ⟨st :: rest, d⟩).1 ≠ Out.okFalse := by
  unfold trySome
  cases sink with
  | none => by_cases hf : st.fails = true <;> simp [hf]
  | some k =>
    by_cases hk : d ≤ k ∧ k < d + st.items
    · simp [hk]
    · by_cases hf : st.fails = true <;> simp [hk, hf]

theorem glue_run_exhausted (sink : Option Nat) (n d : Nat) : run sink n ⟨[], d⟩ = List.replicate n Out.okFalse := by
  induction n with
  | zero => rfl
  | succ n ih => simp [run, trySome, ih, List.replicate_succ]

/-- TERMINATION and NO PANIC of the stream, for every script, every callback failure position and however long the
caller goes on: the first `script.length` calls answer `Ok(true)` or an error (never `Ok(false)`, never a
panic), every later call answers `Ok(false)`.  So a back-end whose `parse_step` sequence is finite gives a
finite stream, and errors never end it early with a false "end of input". -/
theorem glue_run_terminates (sink : Option Nat) : ∀ (script : List Step) (d m : Nat),
    ∃ outs, run sink (script.length + m) ⟨script, d⟩ = outs ++ List.replicate m Out.okFalse
      ∧ outs.length = script.length ∧ Out.okFalse ∉ outs ∧ Out.panic ∉ outs := by
  intro script
  induction script with
  | nil => intro d m; exact ⟨[], by simp [glue_run_exhausted], rfl, by simp, by simp⟩
  | cons st rest ih =>
    intro d m
    obtain ⟨d', h2, h1, h0⟩ := trySome_step sink st rest d
    obtain ⟨outs, e, l, nf, np⟩ := ih d' m
    refine ⟨(trySome sink ⟨st :: rest, d⟩).1 :: outs, ?_, by simp [l], ?_, ?_⟩
    · have : (st :: rest).length + m = (rest.length + m) + 1 := by simp; omega
      rw [this]
      simp only [run, h2, e, List.cons_append]
    · intro hm; rcases List.mem_cons.1 hm with h | h
      · exact h0 h.symm
      · exact nf h
    · intro hm; rcases List.mem_cons.1 hm with h | h
      · exact h1 h.symm
      · exact np h

/-- no call ever panics, whatever the state -/
theorem glue_run_no_panic (sink : Option Nat) : ∀ (n : Nat) (s : St), Out.panic ∉ run sink n s := by
  intro n
  induction n with
  | zero => intro s; simp [run]
  | succ n ih =>
    intro s
    obtain ⟨script, d⟩ := s
    cases script with
    | nil => rw [glue_run_exhausted]; simp
    | cons st rest =>
      obtain ⟨d', h2, h1, _⟩ := trySome_step sink st rest d
      simp only [run]
      intro hm
      rcases List.mem_cons.1 hm with h | h
      · exact h1 h.symm
      · exact ih _ h

/-- with a callback that never fails the stream of outcomes IS the script: every back-end error is
reported, as `SourceError`, exactly where it happened; nothing is swallowed, nothing invented -/
theorem glue_run_faithful : ∀ (script : List Step) (d : Nat),
    run none script.length ⟨script, d⟩ = script.map (fun st => if st.fails then Out.sourceErr else Out.okTrue) := by
  intro script
  induction script with
  | nil => intro d; rfl
  | cons st rest ih =>
    intro d
    simp only [List.length_cons, run, List.map_cons]
    have : trySome none ⟨st :: rest, d⟩ = (if st.fails then Out.sourceErr else Out.okTrue, ⟨rest, d + st.items⟩) := by
      unfold trySome; by_cases hf : st.fails = true <;> simp [hf]
    rw [this]
    simp only [ih]

example : run none 5 ⟨[⟨1, false⟩, ⟨0, true⟩, ⟨2, true⟩], 7⟩ = [.okTrue, .sourceErr, .sourceErr, .okFalse, .okFalse] := by decide

/-! #### jsonld/src/parser/source.rs `JsonLdQuadSource` (the JSON-LD parser's stream): same three facts -/

theorem json_run_done (sink : Option Nat) (m d : Nat) : jsonRun sink m (.quads 0 d) = List.replicate m Out.okFalse := by
  induction m with
  | zero => rfl
  | succ m ih => simp [jsonRun, jsonTry, ih, List.replicate_succ]

theorem json_run_err_done (sink : Option Nat) (m : Nat) : jsonRun sink m (.err false) = List.replicate m Out.okFalse := by
  induction m with
  | zero => rfl
  | succ m ih => simp [jsonRun, jsonTry, ih, List.replicate_succ]

/-- all quads, one per call, a callback failure exactly where the callback failed, then `Ok(false)` for ever -/
theorem json_run_quads (sink : Option Nat) : ∀ (n d m : Nat),
    jsonRun sink (n + m) (.quads n d)
      = (List.range n).map (fun i => if sink = some (d + i) then Out.sinkErr else Out.okTrue) ++ List.replicate m Out.okFalse := by
  intro n
  induction n with
  | zero => intro d m; simp [json_run_done]
  | succ n ih =>
    intro d m
    have : n + 1 + m = (n + m) + 1 := by omega
    rw [this]
    simp only [jsonRun, jsonTry, ih (d + 1) m, List.range_succ_eq_map, List.map_cons, List.map_map, Nat.add_zero, List.cons_append]
    congr 2
    apply List.map_congr_left
    intro i _
    simp [Function.comp, Nat.add_assoc, Nat.add_comm 1 i]

/-- the error is reported once, as `SourceError`, whatever the callback; then `Ok(false)` for ever -/
theorem json_run_err (sink : Option Nat) (m : Nat) :
    jsonRun sink (m + 1) (.err true) = Out.sourceErr :: List.replicate m Out.okFalse := by
  simp [jsonRun, jsonTry, json_run_err_done]

theorem json_run_no_panic (sink : Option Nat) : ∀ (m : Nat) (s : JsonSrc), Out.panic ∉ jsonRun sink m s := by
  intro m
  induction m with
  | zero => intro s; simp [jsonRun]
  | succ m ih =>
    intro s
    cases s with
    | quads l d =>
      cases l with
      | zero => simp only [jsonRun, jsonTry]; intro h; rcases List.mem_cons.1 h with h | h; exact absurd h (by decide); exact ih _ h
      | succ l =>
        simp only [jsonRun, jsonTry]; intro h; rcases List.mem_cons.1 h with h | h
        · split at h <;> exact absurd h (by decide)
        · exact ih _ h
    | err p =>
      cases p <;> (simp only [jsonRun, jsonTry]; intro h; rcases List.mem_cons.1 h with h | h; exact absurd h (by decide); exact ih _ h)

example : jsonRun (some 1) 5 (.quads 3 0) = [.okTrue, .sinkErr, .okTrue, .okFalse, .okFalse] := by decide
example : jsonRun (some 0) 3 (.err true) = [.sourceErr, .okFalse, .okFalse] := by decide
end Glue

/-! ### the contract over the function the driver executes -/
section Contract
open SophiaModel.ParserContract

theorem abs_sub_iriV (syn : String) (w : List Nat) (h : Matches rioIriAbs w) :
    Matches (if strict syn then Gen.IRI_REGEX else Gen.IRI_REF_REGEX) w := by
  cases strict syn
  · exact Matches.altL (oxiri_abs_sub_validator w h)
  · exact oxiri_abs_sub_validator w h

/-- For every recogniser class of the `safe` list and every syntax: a token the back-end accepts is handed
over as a string the demanded validator accepts (after lower-casing for language tags, after `riog…`
relabelling for Turtle-family blank nodes; "absolute" demanded of strict syntaxes). -/
theorem specOf_contract (syn : String) (c : Cls) (hs : c.safe = true) :
    ∀ w, (specOf syn c).accept w = true → Matches (specOf syn c).validator ((specOf syn c).out w) := by
  intro w ha
  cases c with
  | bnode =>
    have hb := (matchB_iff _ _).1 ha
    show Matches Gen.BNODE_ID ((if turtleLike syn then disambiguate else id) w)
    by_cases ht : turtleLike syn = true
    · rw [if_pos ht]; exact ttl_bnode_disambiguated_sub_validator w hb
    · rw [if_neg ht]; exact rio_bnode_sub_validator w hb
  | lang => exact rio_lang_sub_validator _ ((matchB_iff _ _).1 ha)
  | var => exact rio_var_sub_validator _ ((matchB_iff _ _).1 ha)
  | iriRef => exact oxiri_ref_sub_validator _ ((matchB_iff _ _).1 ha)
  | iriAbs => exact abs_sub_iriV syn _ ((matchB_iff _ _).1 ha)
  | dt => exact oxiri_abs_sub_validator _ ((matchB_iff _ _).1 ha)
  | jsonldPred =>
    -- accepted = recognised by rdf_types AND (the repaired parser) accepted by `BnodeId::new`
    have h2 : (matchB jsonldBnodePred w && (!Gen.ParserWiring.jsonldRejectsInvalidBnodeLabels || matchB Gen.BNODE_ID w)) = true := ha
    rw [jsonld_rejects_invalid_bnode_labels] at h2
    simp only [Bool.not_true, Bool.false_or, Bool.and_eq_true] at h2
    exact (matchB_iff _ _).1 h2.2
  | nodeid | iriGtrig | pname | pnameD | pnameDt | xmlns => exact absurd hs (by decide)

/-- The same about `spec`, the function `smd_C08` evaluates for every `tok` request (so the differential ties
this statement to the code): whenever the driver answers `accepted=1` for a (syntax, kind) of the safe
list it answers `valid=1`.  The full statement (without `safe`) is false: see the `…_refuted` theorems. -/
theorem spec_contract (syn kind : String) (sp : Spec) (h : spec syn kind = some sp) (hs : safe syn kind = true) :
    ∀ w, sp.accept w = true → matchB sp.validator (sp.out w) = true := by
  intro w ha
  unfold spec at h
  unfold safe at hs
  cases hc : classify syn kind with
  | none => rw [hc] at h; simp at h
  | some c =>
    rw [hc] at h hs
    simp only [Option.map_some, Option.some.injEq] at h
    subst h
    exact (matchB_iff _ _).2 (specOf_contract syn c hs w ha)

/-- `SpecContractFull` — the property's clause at full strength over the model — is refuted -/
def SpecContractFull : Prop :=
  ∀ syn kind sp, spec syn kind = some sp → ∀ w, sp.accept w = true → matchB sp.validator (sp.out w) = true
theorem spec_contract_full_refuted : ¬ SpecContractFull := fun h =>
  have hc : classify "gtrig" "iri" = some .iriGtrig := by decide
  have hsp : spec "gtrig" "iri" = some (specOf "gtrig" .iriGtrig) := by unfold spec; rw [hc]; rfl
  absurd (h "gtrig" "iri" (specOf "gtrig" .iriGtrig) hsp (ofStr "a b") (by decide)) (by decide)

-- non-vacuity: the safe list covers the positions / attributes the harness drives, the exclusions are the findings
example : (spec "trig" "bnode_g").isSome = true ∧ safe "trig" "bnode_g" = true := by decide
example : (spec "gnq" "iri_q").isSome = true ∧ safe "gnq" "iri_q" = true := by decide
example : safe "xml" "resource" = true ∧ safe "nq" "dt_q" = true ∧ safe "xml" "lang_p" = true := by decide
example : safe "gtrig" "iri" = false ∧ safe "ttl" "pname_o" = false ∧ safe "xml" "nodeid_o" = false := by decide
example : safe "jsonld@gen" "bnode_p" = true ∧ (specOf "jsonld@gen" .jsonldPred).accept (ofStr "a:b") = false
    ∧ (specOf "jsonld@gen" .jsonldPred).accept (ofStr "a-b") = true := by decide
example : (specOf "ttl" .bnode).accept (ofStr "riog00000001") = true
    ∧ (specOf "ttl" .bnode).out (ofStr "riog00000001") = ofStr "riog00000001d" := by decide
end Contract

/-! ### the wiring the theorems rely on (regenerated from /repo by tools/extractors/c08.py) -/

open SophiaModel.Gen.ParserWiring in
/-- The validators are `REGEX.is_match` and nothing else; `new_unchecked` validates in debug builds only and that is
the only place where debug and release differ; each rio accessor re-validates with the validator `specOf` demands
(`iri` → `IriRef`: the accessor itself does not demand "absolute", the property does); `LanguageTag::new_unchecked`
is `assert!(LANG_TAG.is_match(tag))` — the same regex as `LanguageTag::new`, in every build.  A change of any of these
in /repo regenerates the table and fails THIS obligation: the inclusion theorems would otherwise keep holding
about regexes that no longer decide validity. -/
theorem wiring_as_modelled :
    bnodeNewIsRegex = true ∧ varNewIsRegex = true ∧ langNewIsRegex = true ∧ iriNewIsAbsolute = true
    ∧ iriRefNewIsValid = true ∧ uncheckedValidatesInDebugOnly = true ∧ debugAssertionSites = 1
    ∧ accessorValidators = [("iri", "IriRef"), ("bnode_id", "BnodeId"), ("variable", "VarName"), ("datatype", "Iri"),
        ("language_tag", "LanguageTag")]
    ∧ modelUncheckedCalls = 5 ∧ langUnchecked = "assert" := by decide

/-! ### the hand models' character classes are the ones of the sources cargo compiles

`Gen/BackendClasses.lean` is regenerated (tools/extractors/c08.py) from the `matches!` arms of rio_turtle's
`is_possible_pn_chars_*_unicode`, oxiri's `is_(i)unreserved_or_sub_delims` and query loop, rio_xml's `is_name_(start_)char`
and oxilangtag's `GRANDFATHEREDS`, in the crate versions /repo/Cargo.lock pins, read from the cargo registry.  Each class
of `Model/Backend.lean` denotes the same set.  What stays hand-transcribed (tied by the `tok` differential only) is the
control structure around the classes: label / tag state machines, oxiri's component order, the IPv6 production. -/
section Classes
open SophiaModel.Gen.BackendClasses

/-- `cargo` compiles exactly the crate versions the hand models were transcribed from -/
theorem backend_versions_as_transcribed :
    versions = [("rio_turtle", "0.8.6"), ("oxiri", "0.2.11"), ("oxilangtag", "0.1.6"), ("rio_xml", "0.8.6")]
    ∧ rioPnCharsUIsBaseOrUnderscore = true ∧ rioPnCharsIsUOrExtra = true ∧ xmlNameCharIsStartOrExtra = true := by decide

theorem rio_pn_chars_base_as_source : ∀ w, Matches pnCharsBase w ↔ Matches (.cls rioPnCharsBase) w :=
  decideEquiv_sound _ _ (by native_decide)
theorem rio_pn_chars_u_as_source : ∀ w, Matches pnCharsU w ↔ Matches (.cls (rioPnCharsBase ++ [(95, 95)])) w :=
  decideEquiv_sound _ _ (by native_decide)
theorem rio_pn_chars_as_source :
    ∀ w, Matches pnChars w ↔ Matches (.cls (rioPnCharsBase ++ [(95, 95)] ++ rioPnCharsExtra)) w :=
  decideEquiv_sound _ _ (by native_decide)
theorem oxiri_ius_as_source : ∀ w, Matches Oxiri.ius w ↔ Matches (.cls oxiriIus) w :=
  decideEquiv_sound _ _ (by native_decide)
theorem oxiri_us_as_source : ∀ w, Matches Oxiri.us w ↔ Matches (.cls oxiriUs) w :=
  decideEquiv_sound _ _ (by native_decide)
/-- one step of oxiri's query loop: a code point of the class, or a `%HH` escape -/
theorem oxiri_query_as_source :
    ∀ w, Matches Oxiri.query w ↔ Matches (.star (.alt (.cls (oxiriIus ++ oxiriQueryExtra)) Oxiri.pct)) w :=
  decideEquiv_sound _ _ (by native_decide)
theorem xml_name_start_as_source : ∀ w, Matches (.alt ncStart (chr ':')) w ↔ Matches (.cls xmlNameStart) w :=
  decideEquiv_sound _ _ (by native_decide)
theorem xml_name_char_as_source :
    ∀ w, Matches (alts [ncCharNoDot, chr '.', chr ':']) w ↔ Matches (.cls (xmlNameStart ++ xmlNameExtra)) w :=
  decideEquiv_sound _ _ (by native_decide)
/-- oxilangtag compares ignoring ASCII case; the model works on the lower-cased tag -/
theorem grandfathered_as_source :
    ∀ w, Matches Backend.grandfathered w ↔ Matches (alts (SophiaModel.Gen.BackendClasses.grandfathered.map (fun s => lit s.toLower))) w :=
  decideEquiv_sound _ _ (by native_decide)

example : Matches (.cls rioPnCharsBase) [0xE9] ∧ ¬ Matches (.cls rioPnCharsBase) [0xD7] := by decide
end Classes

/-! ### the accessor layer: what a caller gets when it reads a yielded term, in debug and in release builds

`access debug syn c out` (Model/ParserContract.lean) reads the validator each accessor asserts from the table
regenerated from /repo, so these theorems are about the wiring that exists, and the driver answers `acc=` with the
same function (compared with the real accessors on every `tok` request). -/
section Access
open SophiaModel.ParserContract

/-- the validator each accessor asserts is at least as wide as the one the property demands of the class -/
theorem demanded_sub_asserted (syn : String) (c : Cls) :
    ∃ v, (Gen.ParserWiring.accessorValidators.lookup c.accessor).bind validatorByName = some v
      ∧ (c.safe = true → ∀ w, Matches (specOf syn c).validator w → Matches v w) := by
  cases c <;> first
    | exact ⟨Gen.BNODE_ID, by decide, fun _ _ h => h⟩
    | exact ⟨Gen.LANG_TAG, by decide, fun _ _ h => h⟩
    | exact ⟨Gen.VARNAME, by decide, fun _ _ h => h⟩
    | exact ⟨Gen.IRI_REGEX, by decide, fun _ _ h => h⟩
    | exact ⟨Gen.IRI_REF_REGEX, by decide, fun _ _ h => h⟩
    | exact ⟨Gen.IRI_REF_REGEX, by decide, fun hs => absurd hs (by decide)⟩
    | (refine ⟨Gen.IRI_REF_REGEX, by decide, fun _ w h => ?_⟩
       show Matches (.alt Gen.IRI_REGEX Gen.IRELATIVE_REF_REGEX) w
       have h' : Matches (if strict syn then Gen.IRI_REGEX else Gen.IRI_REF_REGEX) w := h
       cases hst : strict syn <;> rw [hst] at h'
       · exact h'
       · exact Matches.altL h')

theorem access_safe_ok (syn : String) (c : Cls) (hs : c.safe = true) (debug : Bool) :
    ∀ w, (specOf syn c).accept w = true → access debug syn c ((specOf syn c).out w) = .ok := by
  intro w ha
  have hv := specOf_contract syn c hs w ha
  obtain ⟨v, hl, hsub⟩ := demanded_sub_asserted syn c
  have h1 : matchB v ((specOf syn c).out w) = true := (matchB_iff _ _).2 (hsub hs _ hv)
  have h2 : matchB (specOf syn c).validator ((specOf syn c).out w) = true := (matchB_iff _ _).2 hv
  unfold access
  rw [hl]
  simp [h1, h2]

/-- for every class outside the safe list there is an accepted token whose term panics when read in a debug
build and is handed out invalid, silently, in a release build -/
theorem unsafe_debug_panic_release_invalid (c : Cls) (hu : c.safe = false) :
    ∃ syn w, (specOf syn c).accept w = true ∧ access true syn c ((specOf syn c).out w) = .panic
      ∧ access false syn c ((specOf syn c).out w) = .invalid := by
  cases c with
  | nodeid => exact ⟨"xml", ofStr "A.", by decide, by decide, by decide⟩
  | iriGtrig => exact ⟨"gtrig", ofStr "a b", by decide, by decide, by decide⟩
  | pname => exact ⟨"ttl", ofStr "%", by decide, by decide, by decide⟩
  | pnameD => exact ⟨"ttl", ofStr "%", by decide, by decide, by decide⟩
  | pnameDt => exact ⟨"gtrig", ofStr "a b", by decide, by decide, by decide⟩
  | xmlns => exact ⟨"xml", ofStr "x y", by decide, by decide, by decide⟩
  | bnode | lang | var | iriRef | iriAbs | dt | jsonldPred => exact absurd hu (by decide)

/-- the safe list is exact -/
theorem safe_is_exact (c : Cls) :
    c.safe = true ↔
      ∀ syn w debug, (specOf syn c).accept w = true → access debug syn c ((specOf syn c).out w) = .ok := by
  constructor
  · intro hs syn w debug; exact access_safe_ok syn c hs debug w
  · intro h
    cases hc : c.safe with
    | true => rfl
    | false =>
      obtain ⟨syn, w, ha, hp, _⟩ := unsafe_debug_panic_release_invalid c hc
      have := h syn w true ha
      rw [hp] at this
      cases this

/-- release builds: only `LanguageTag::new_unchecked` can panic (it uses `assert!`) … -/
theorem release_panics_only_lang (syn : String) (c : Cls) (out : List Nat) (hc : c ≠ .lang) :
    access false syn c out ≠ .panic := by
  obtain ⟨v, hl, _⟩ := demanded_sub_asserted syn c
  unfold access
  rw [hl]
  have : (c.accessor == "language_tag") = false := by cases c <;> first | rfl | exact absurd rfl hc
  by_cases hm : matchB (specOf syn c).validator out = true <;> simp [this, hm]

/-- … and it does, in every build, on a tag `LANG_TAG` rejects -/
theorem lang_unchecked_panics_in_release (syn : String) (debug : Bool) (out : List Nat) (h : ¬ Matches Gen.LANG_TAG out) :
    access debug syn .lang out = .panic := by
  have hm : matchB Gen.LANG_TAG out = false := by
    cases hb : matchB Gen.LANG_TAG out with
    | false => rfl
    | true => exact absurd ((matchB_iff _ _).1 hb) h
  have hl : (Gen.ParserWiring.accessorValidators.lookup Cls.lang.accessor).bind validatorByName = some Gen.LANG_TAG := by decide
  have ha : (Cls.lang.accessor == "language_tag" && Gen.ParserWiring.langUnchecked == "assert") = true := by decide
  unfold access
  rw [hl]
  simp [ha, hm]

-- non-vacuity and the property's WHY clause on concrete tokens
example : access true "nt" .iriAbs (ofStr "http://[::1]:/x") = .ok ∧ access false "nt" .iriAbs (ofStr "http://[::1]:/x") = .ok := by decide
example : access true "xml" .xmlns (ofStr "rel/p") = .invalid := by decide   -- a relative IRI from a strict parser: no panic, not valid
example : access false "ttl" .lang (ofStr "en--a") = .panic := by decide      -- `assert!`, release too
example : ¬ Matches Gen.LANG_TAG (ofStr "en--a") := by decide
end Access

/-! ### non-vacuity: the hypotheses are satisfiable by the shapes the property names -/
example : Matches rioBnode (ofStr "a.b-c.1") := by decide
example : ¬ Matches rioBnode (ofStr "a..b") := by decide
example : Matches rioBnodeReturned (ofStr "a.") := by decide
example : Matches rioVar (ofStr "9é_") := by decide
example : Matches rioLang (ofStr "zh-hant-cn-x-private") := by decide
example : Matches rioLang (ofStr "i-klingon") := by decide
example : ¬ Matches rioLang (ofStr "e") := by decide
example : Matches rioIriAbs (ofStr "http://u@[1:2::3:4:5:6:7]:80/a//b?c#d") := by decide
example : Matches rioIriAbs (ofStr "A://[V0.!]") := by decide
example : Matches rioIriRef (ofStr "../é/%41?q") := by decide
example : ¬ Matches Oxiri.ref (ofStr "//:!") := by decide
example : Matches Gen.IRI_REGEX (ofStr "http://[v7.a:b]/") := by decide
example : Matches xmlNodeIdNoTrailingDot (ofStr "a.b") := by decide
example : Matches jsonldBnode (ofStr "12") := by decide
example : Matches jsonldBnodePredNoColon (ofStr "b-1é") := by decide
example : Matches jsonldBnodePred (ofStr ":") := by decide

end SophiaProofs.C08
