import SophiaModel.Model.Heap
import SophiaModel.Gen.CloneKind
namespace SophiaProofs.C10
open SophiaModel SophiaModel.Heap
end SophiaProofs.C10
