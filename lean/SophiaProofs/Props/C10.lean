/-
C10 — clones of in-memory stores are independent and memory-safe.

Model: SophiaModel/Model/Heap.lean (ownership model: heap of allocations, owning / borrowing
`MownStr`s, `SimpleTermIndex`, stores, worlds of named stores, `World.step ck` with the `Clone`
the source defines: `ck = Gen.cloneKind`, regenerated from inmem/src/index.rs on every run).
Lemmas: SophiaProofs/Lemmas/{HeapBasic,HeapIndex,HeapWorld}.lean.

The theorems are about `World.step` / `World.run`, the very functions the driver `smd_C10`
executes.  What is proved is a statement about the OWNERSHIP MODEL; that rustc / std / mownstr
behave as the model says is the trusted part, tied to the code by the differential check
(hook `verif_audit` + content of every readable store after every operation).
-/
import SophiaProofs.Lemmas.HeapWorld
import SophiaProofs.Lemmas.HeapX
import SophiaProofs.Lemmas.HeapSized
import SophiaProofs.Lemmas.HeapRefine
import SophiaProofs.Lemmas.HeapReach
import SophiaProofs.Lemmas.StoreQuery
import SophiaModel.Gen.CloneKind
import SophiaModel.Gen.MownStrShape

namespace SophiaProofs.C10
open SophiaModel SophiaModel.Term SophiaModel.Store SophiaModel.Heap SophiaProofs.HeapP SophiaProofs.StoreP

/-! ### the invariant -/

/-- the empty world satisfies the invariant -/
theorem winv_init : WInv {} := WInv.init

/-- `sc_preserved`: with the MANUAL `Clone`, every operation (insert, ensure_index, remove, clone,
clone_from, drop, swap, move, Box, mem::take, growth, iteration) on any world of stores preserves:
every store's `i2t` is self-contained (borrowed strings point into buffers owned by keys of the SAME
store), keys own their buffers, no buffer has two owners (inside a store or across stores), owned
buffers are live, `i2t` and `t2i` are in sync, and no UB has happened. -/
theorem sc_preserved {w : World} (inv : WInv w) (op : Op) : WInv (World.step .manual w op).1 := inv.step op

/-- in particular every live store is `SelfContained` (the Bool the driver reports as audit) -/
theorem winv_self_contained {w : World} (inv : WInv w) {e : Nat × HStore} (he : e ∈ w.stores) :
    SelfContained e.2.ix ∧ e.2.ix.selfContained = true :=
  ⟨(inv.ix e he).sc, (selfContained_iff _).2 (inv.ix e he).sc⟩

/-- the audit vector the hook `verif_audit` computes (model: `TIndex.audit`) decides self-containment:
if every entry is `(found, inside) = (true, true)` the index is `SelfContained` -/
theorem audit_clean_self_contained (ix : TIndex) (h : ∀ p ∈ ix.audit, p = (true, true)) : SelfContained ix := by
  intro t ht r hr
  obtain ⟨i, hi, hti⟩ := List.getElem_of_mem ht
  have hm : ix.auditEntry i ∈ ix.audit := List.mem_map.2 ⟨i, List.mem_range.2 hi, rfl⟩
  have ha := h _ hm
  unfold TIndex.auditEntry at ha
  rw [List.getElem?_eq_getElem hi, hti] at ha
  cases hk : ix.keyAt i with
  | none => simp [hk] at ha
  | some k =>
    simp only [hk, Prod.mk.injEq, Bool.and_eq_true] at ha
    have hin := ha.2.2
    simp only [insideKey, List.all_eq_true, Bool.or_eq_true, beq_iff_eq, List.contains_eq_mem,
      decide_eq_true_eq] at hin
    unfold TIndex.keyAt at hk
    cases hf : ix.t2i.find? (fun e => e.2 == i) with
    | none => simp [hf] at hk
    | some e =>
      rw [hf] at hk
      simp only [Option.map_some, Option.some.injEq] at hk
      have hem := List.mem_of_find?_eq_some hf
      rcases hin r hr with (h1 | h1) | h1
      · exact Or.inl h1
      · exact Or.inr (Or.inl h1)
      · exact Or.inr (Or.inr (mem_keyIds hem (hk ▸ h1)))

/-- non-vacuity: a world with a store, its clone and a swapped / boxed copy satisfies the invariant -/
example : WInv (World.run .manual {} [.new 0 ⟨0, [], []⟩ 9, .ens 0 (.lit ['a'] ['d']),
    .ens 0 (.triple (.iri ['s']) (.iri ['p']) (.lang [] ['e', 'n'])), .clone 0 1, .swap 0 1, .box 1, .drop 0]) :=
  WInv.init.run _

/-- what "safe" means for a world: no UB so far, and every string of every `i2t` entry of every
live store dereferences into a LIVE allocation -/
def Safe (w : World) : Prop :=
  w.heap.ub = false ∧
  ∀ e ∈ w.stores, ∀ t ∈ e.2.ix.i2t, ∀ r ∈ t.refs, ∃ s, w.heap.deref r = some s

theorem safe_of_winv {w : World} (inv : WInv w) : Safe w :=
  ⟨inv.ub, fun e he _ ht _ hr => (inv.ix e he).entry_deref ht hr⟩

/-- the model reads keys (hashing / comparing in `get_index`, `ensure_index`, the manual `Clone`) and the
entries of `view` through the TOTALISED `keyTerm` (`getD`), which by itself would never raise `ub`.  In
every world satisfying the invariant the default is never taken: each key and each entry reads, as an
effect-free `readTerm?`, exactly the term `keyTerm` returns. -/
theorem key_reads_defined {w : World} (inv : WInv w) {e : Nat × HStore} (he : e ∈ w.stores) :
    (∀ k ∈ e.2.ix.t2i, readTerm? w.heap k.1 = some (keyTerm w.heap k.1)) ∧
    (∀ t ∈ e.2.ix.i2t, readTerm? w.heap t = some (keyTerm w.heap t)) := by
  refine ⟨fun k hk => ?_, fun t ht => ?_⟩
  · obtain ⟨x, hx⟩ := (inv.ix e he).keysRead k hk
    simp [keyTerm, hx]
  · obtain ⟨_, _, x, _, hx⟩ := (inv.ix e he).sync t ht
    simp [keyTerm, hx]

/-- `no_dangling`: for ALL histories — any interleaving of insert / remove / clone / clone_from / drop
of the original or of the clone / swap / move / Box / take / growth / iteration, on any number of
stores of any shape and index width — every read of a live store hits a live allocation, nothing is
released twice, iterating (`readAll`) is never UB.  Manual `Clone`. -/
theorem no_dangling (ops : List Op) : Safe (World.run .manual {} ops) :=
  safe_of_winv (WInv.init.run ops)

/-- iterating any live store right after any history is not UB and reads every entry -/
theorem read_after_history (ops : List Op) (a : Nat) {s : HStore}
    (hg : (World.run .manual {} ops).get a = some s) :
    s.readable (World.run .manual {} ops).heap = true ∧
    (World.step .manual (World.run .manual {} ops) (.readAll a)).1.heap.ub = false :=
  ⟨readable_of_inv ((WInv.init.run ops).ix _ (get_mem hg)), ((WInv.init.run ops).step (.readAll a)).ub⟩

example : Safe (World.run .manual {} [.new 0 ⟨0, [], []⟩ 9, .ens 0 (.iri ['x']), .clone 0 1, .drop 0, .readAll 1]) :=
  no_dangling _

/-! ### clones are independent -/

/-- `clone_independent`, part 1 (at clone time): the manual `Clone` of a store never panics; the
original is untouched; the clone has the same rows, and its `i2t` reads — entry by entry, in the heap
where both exist — `Term::eq`-equal to the original's. -/
theorem clone_same_content {w : World} (inv : WInv w) {a b : Nat} {s : HStore}
    (ha : w.get a = some s) (hb : w.get b = none) :
    ∃ w' c, World.step .manual w (.clone a b) = (w', .ok) ∧ w'.get b = some c ∧ w'.get a = some s ∧
      c.idx = s.idx ∧ c.shape = s.shape ∧ c.max = s.max ∧
      Pointwise (SameRead w'.heap) s.ix.i2t c.ix.i2t := by
  obtain ⟨h', c, hc, _, _, _, _, hp, h1, h2, h3⟩ := cloneStore_manual_spec (inv.ix _ (get_mem ha))
  have hab : a ≠ b := fun e => by rw [e, hb] at ha; cases ha
  refine ⟨({ w with heap := h' } : World).add b c, c, ?_, ?_, ?_, h1, h2, h3, hp⟩
  · simp only [World.step, ha, hb, hc]
  · exact get_of_mem ((inv.step (.clone a b)).names |> fun h => by
      simpa only [World.step, ha, hb, hc] using h) (by simp [World.add])
  · rw [get_add_other _ _ hab]; exact ha

/-- two term lists of the same length whose entries are pairwise `Term::eq` -/
def TermsEq (ts ts' : List Term) : Prop := Pointwise (fun t t' => termEq t' t = true) ts ts'

theorem TermsEq.get {ts ts' : List Term} (h : TermsEq ts ts') (i : Nat) :
    (ts[i]? = none ∧ ts'[i]? = none) ∨ ∃ t t', ts[i]? = some t ∧ ts'[i]? = some t' ∧ termEq t' t = true := by
  by_cases hi : i < ts.length
  · have hi' : i < ts'.length := by rw [h.1]; exact hi
    exact Or.inr ⟨ts[i], ts'[i], List.getElem?_eq_getElem hi, List.getElem?_eq_getElem hi',
      h.2 i _ _ (List.getElem?_eq_getElem hi) (List.getElem?_eq_getElem hi')⟩
  · have hi' : ¬ i < ts'.length := by rw [h.1]; exact hi
    exact Or.inl ⟨List.getElem?_eq_none (Nat.le_of_not_lt hi), List.getElem?_eq_none (Nat.le_of_not_lt hi')⟩

/-- names (optional terms) equal up to `Term::eq` -/
def NameEq (a b : GName) : Prop := (a = none ∧ b = none) ∨ ∃ t t', a = some t ∧ b = some t' ∧ termEq t' t = true

theorem nameEq_getName {max : Nat} {ts ts' : List Term} (h : TermsEq ts ts') (i : Nat) :
    NameEq (getName max ts i) (getName max ts' i) := by
  unfold getName
  split
  · exact Or.inl ⟨rfl, rfl⟩
  · exact h.get i

theorem quadEq_mk {s p o s' p' o' : Term} {g g' : GName} (e1 : termEq s' s = true) (e2 : termEq p' p = true)
    (e3 : termEq o' o = true) (eg : NameEq g g') : quadEq ⟨s', p', o', g'⟩ ⟨s, p, o, g⟩ = true := by
  rcases eg with ⟨rfl, rfl⟩ | ⟨t, t', rfl, rfl, e⟩
  · simp [quadEq, e1, e2, e3, gnameEq]
  · simp [quadEq, e1, e2, e3, gnameEq, e]

theorem quadOfNames_eq {n : Nat} {a b : List GName} (hl : a.length = b.length)
    (h : ∀ i, NameEq (a.getD i none) (b.getD i none)) :
    (quadOfNames n a = none ∧ quadOfNames n b = none) ∨
    ∃ q q', quadOfNames n a = some q ∧ quadOfNames n b = some q' ∧ quadEq q' q = true := by
  have h0 := h 0; have h1 := h 1; have h2 := h 2; have h3 := h 3
  unfold quadOfNames
  by_cases hn : n = 4
  · simp only [hn, if_true]
    rcases a with _ | ⟨g, _ | ⟨s, _ | ⟨p, _ | ⟨o, _ | ⟨x, r⟩⟩⟩⟩⟩ <;>
    rcases b with _ | ⟨g', _ | ⟨s', _ | ⟨p', _ | ⟨o', _ | ⟨x', r'⟩⟩⟩⟩⟩ <;>
    simp at hl <;> try (left; simp; done)
    · simp only [List.getD_cons_zero, List.getD_cons_succ] at h0 h1 h2 h3
      rcases h1 with ⟨rfl, rfl⟩ | ⟨t1, t1', rfl, rfl, e1⟩
      · left; simp
      rcases h2 with ⟨rfl, rfl⟩ | ⟨t2, t2', rfl, rfl, e2⟩
      · left; simp
      rcases h3 with ⟨rfl, rfl⟩ | ⟨t3, t3', rfl, rfl, e3⟩
      · left; simp
      right
      exact ⟨_, _, rfl, rfl, quadEq_mk e1 e2 e3 h0⟩
  · simp only [hn, if_false]
    rcases a with _ | ⟨s, _ | ⟨p, _ | ⟨o, _ | ⟨x, r⟩⟩⟩⟩ <;>
    rcases b with _ | ⟨s', _ | ⟨p', _ | ⟨o', _ | ⟨x', r'⟩⟩⟩⟩ <;>
    simp at hl <;> try (left; simp; done)
    · simp only [List.getD_cons_zero, List.getD_cons_succ] at h0 h1 h2
      rcases h0 with ⟨rfl, rfl⟩ | ⟨t1, t1', rfl, rfl, e1⟩
      · left; simp
      rcases h1 with ⟨rfl, rfl⟩ | ⟨t2, t2', rfl, rfl, e2⟩
      · left; simp
      rcases h2 with ⟨rfl, rfl⟩ | ⟨t3, t3', rfl, rfl, e3⟩
      · left; simp
      right
      exact ⟨_, _, rfl, rfl, quadEq_mk e1 e2 e3 (Or.inl ⟨rfl, rfl⟩)⟩

theorem filterMap_pointwise {α β : Type} {R : β → β → Prop} {f f' : α → Option β} (l : List α)
    (h : ∀ x ∈ l, (f x = none ∧ f' x = none) ∨ ∃ q q', f x = some q ∧ f' x = some q' ∧ R q q') :
    Pointwise R (l.filterMap f) (l.filterMap f') := by
  induction l with
  | nil => exact Pointwise.nil _
  | cons x l ih =>
    have ih' := ih (fun y hy => h y (List.mem_cons_of_mem _ hy))
    rcases h x (List.mem_cons_self ..) with ⟨h1, h2⟩ | ⟨q, q', h1, h2, hr⟩
    · simpa [List.filterMap_cons, h1, h2] using ih'
    · simpa [List.filterMap_cons, h1, h2] using Pointwise.cons hr ih'

/-- stores with the same rows over `Term::eq`-equal term lists enumerate `quadEq`-equal quads, in the same order -/
theorem quads_eq_of_termsEq {v v' : St} (hs : v'.shape = v.shape) (hm : v'.max = v.max) (hi : v'.idx = v.idx)
    (ht : TermsEq v.terms v'.terms) :
    Pointwise (fun q q' => quadEq q' q = true) (Store.quads v) (Store.quads v') := by
  unfold Store.quads
  rw [hi, hs]
  apply filterMap_pointwise
  intro c _
  apply quadOfNames_eq
  · simp [namesOfRow, hs]
  · intro i
    by_cases hin : i < v.shape.n
    · simp only [namesOfRow, hs, hm, List.getD_eq_getElem?_getD, List.getElem?_map,
        List.getElem?_range hin, Option.map_some, Option.getD_some]
      split
      · exact nameEq_getName ht _
      · exact ht.get _
    · have hge : v.shape.n ≤ i := Nat.le_of_not_lt hin
      simp [namesOfRow, hs, List.getD_eq_getElem?_getD, hge, NameEq]

theorem termsEq_of_sameRead {h : Heap.Heap} {ts ts' : List TermRef} (hp : Pointwise (SameRead h) ts ts') :
    TermsEq (ts.map (keyTerm h)) (ts'.map (keyTerm h)) := by
  refine ⟨by simp [hp.1], fun i t t' h1 h2 => ?_⟩
  simp only [List.getElem?_map, Option.map_eq_some_iff] at h1 h2
  obtain ⟨r, hr, rfl⟩ := h1
  obtain ⟨r', hr', rfl⟩ := h2
  obtain ⟨x, x', hx, hx', e⟩ := hp.2 i r r' hr hr'
  simpa [keyTerm, hx, hx'] using e

/-- `clone_independent`, part 1 at the level of the API: right after `clone`, iterating the clone
(`quads()` / `triples()`; `get_term(0..len)` for a bare index) yields, position by position,
`Term::eq`-equal terms / quads to what iterating the original yields. -/
theorem clone_same_quads {w : World} (inv : WInv w) {a b : Nat} {s : HStore}
    (ha : w.get a = some s) (hb : w.get b = none) :
    ∃ w' c, World.step .manual w (.clone a b) = (w', .ok) ∧ w'.get b = some c ∧ w'.get a = some s ∧
      TermsEq (s.ix.i2t.map (keyTerm w'.heap)) (c.ix.i2t.map (keyTerm w'.heap)) ∧
      Pointwise (fun q q' => quadEq q' q = true) (Store.quads (s.view w'.heap)) (Store.quads (c.view w'.heap)) := by
  obtain ⟨w', c, h1, h2, h3, h4, h5, h6, h7⟩ := clone_same_content inv ha hb
  have ht := termsEq_of_sameRead h7
  exact ⟨w', c, h1, h2, h3, ht, quads_eq_of_termsEq h5 h6 h4 ht⟩

/-- `clone_independent`, part 2 (afterwards): an operation that does not name a store changes neither
which value the name is bound to nor what any of its entries reads — whatever happens to the
others: mutation, growth, drop of the original or of the clone, moves. -/
theorem clone_independent {w : World} (inv : WInv w) (op : Op) {n : Nat} {s : HStore}
    (hn : n ∉ opNames op) (hg : w.get n = some s) :
    (World.step .manual w op).1.get n = some s ∧
    ∀ t ∈ s.ix.i2t, readTerm? (World.step .manual w op).1.heap t = readTerm? w.heap t := by
  refine ⟨by rw [step_get_other _ _ _ hn]; exact hg, fun t ht => ?_⟩
  have hm := get_mem hg
  exact (inv.ix _ hm).read_same (step_same_other inv op hm hn) ht

/-- … and along a whole history that never names the store -/
theorem clone_independent_run {w : World} (inv : WInv w) (ops : List Op) {n : Nat} {s : HStore}
    (hn : ∀ op ∈ ops, n ∉ opNames op) (hg : w.get n = some s) :
    (World.run .manual w ops).get n = some s ∧
    ∀ t ∈ s.ix.i2t, readTerm? (World.run .manual w ops).heap t = readTerm? w.heap t := by
  induction ops generalizing w with
  | nil => exact ⟨hg, fun _ _ => rfl⟩
  | cons op ops ih =>
    obtain ⟨h1, h2⟩ := clone_independent inv op (hn op (List.mem_cons_self ..)) hg
    obtain ⟨h3, h4⟩ := ih (inv.step op) (fun o ho => hn o (List.mem_cons_of_mem _ ho)) h1
    exact ⟨h3, fun t ht => by rw [show World.run .manual w (op :: ops) = World.run .manual (World.step .manual w op).1 ops from rfl,
      h4 t ht, h2 t ht]⟩

/-- non-vacuity of the hypotheses: store `1` (a clone) is not named by dropping `0` (its original) -/
example : (1 : Nat) ∉ opNames (.drop 0) := by decide

/-! ### clones are VALUES: the ownership model refines the value-semantics specification

"A clone has the same content as its original at the time of cloning, and afterwards the two are fully
independent: mutating, dropping or moving either one never changes what the other returns" — at full strength:
read through the heap (`World.vview`: every store as a value of the model `SophiaModel.Store` C01's theorems are
about), the world of stores behaves EXACTLY like a world of values (`VWorld.step`: `clone` copies the value,
every other operation acts on the named value(s) only, a refused insertion leaves the value as far as it got).
This is the driver's oracle `o.k.C` as a theorem. -/

/-- one operation -/
theorem value_semantics_step {w : World} (inv : WInv w) (op : Op) :
    (World.step .manual w op).1.vview = VWorld.step w.vview op := vview_step inv op

/-- `value_semantics`: after ANY history (manual `Clone`) what every live store returns — its terms, in index
order, and its rows — is what the value-semantics specification computes for the same history -/
theorem value_semantics (ops : List Op) : (World.run .manual {} ops).vview = ops.foldl VWorld.step [] := by
  have key : ∀ (w : World), WInv w → (World.run .manual w ops).vview = ops.foldl VWorld.step w.vview := by
    induction ops with
    | nil => intro w _; rfl
    | cons op ops ih =>
      intro w inv
      simp only [World.run, List.foldl_cons] at ih ⊢
      rw [ih _ (inv.step op), vview_step inv op]
  exact key {} WInv.init

/-- the refinement of the single functions, for ANY feeding mode: `get_index`, `ensure_index`, `insert`,
`remove` of the ownership model, read through the heap, ARE the value-level functions -/
theorem index_refines {h : Heap.Heap} {s : HStore} (inv : IxInv h s.ix) (own : Bool) (q : Quad) (t : Term) :
    s.ix.getIndex h t = Store.getIndex (s.view h).terms t ∧
    Store.insert (s.view h) q = ((s.insert own h q).2.1.view (s.insert own h q).1, (s.insert own h q).2.2) ∧
    Store.remove (s.view h) q = ((s.remove h q).1.view h, (s.remove h q).2) :=
  ⟨getIndex_refines inv t, insert_refines own q inv, remove_refines q inv⟩

/-- the manual `Clone` is a COPY: the clone's terms, read through the heap, are EXACTLY the original's (not only
up to `Term::eq`), in the same order -/
theorem clone_is_copy {h h' : Heap.Heap} {ix ix' : TIndex} (inv : IxInv h ix)
    (hc : cloneIndex .manual h ix = (h', some ix')) : TIndex.view h' ix' = TIndex.view h ix :=
  cloneIndex_view inv hc

/-- non-vacuity / sanity: a concrete history evaluated both ways -/
example : ((World.run .manual {} [.new 0 ⟨0, [], []⟩ 9, .ens 0 (.iri ['a']), .clone 0 1, .ens 1 (.iri ['b']), .drop 0]).vview.map
      (fun e => (e.1, e.2.terms))) = [(1, [.iri ['a'], .iri ['b']])] ∧
    (([Op.new 0 ⟨0, [], []⟩ 9, .ens 0 (.iri ['a']), .clone 0 1, .ens 1 (.iri ['b']), .drop 0].foldl VWorld.step []).map
      (fun e => (e.1, e.2.terms))) = [(1, [.iri ['a'], .iri ['b']])] := by decide

/-! ### the derived `Clone`: the same statement is FALSE -/

def tiShape : Shape := ⟨0, [], []⟩

/-- one empty `SimpleTermIndex` named `0` -/
def w0 : World := (World.step .derived {} (.new 0 tiShape 9)).1

/-- the 3-step history: insert one IRI; clone; drop the original -/
def witness : List Op := [.ens 0 (.iri ['x']), .clone 0 1, .drop 0]

/-- `derive_clone_dangles`: with `#[derive(Clone)]` there is a history of length 3 (insert; clone;
drop the original) after which the clone is live, its only `i2t` entry points into a RELEASED
allocation (the original's key), it is not self-contained already right after `clone`, and
iterating it is UB.  Kernel-checked by evaluation of the model. -/
theorem derive_clone_dangles :
    ∃ ops : List Op, ops.length = 3 ∧
      (∃ c, (World.run .derived w0 ops).get 1 = some c ∧
        c.ix.selfContained = false ∧
        c.readable (World.run .derived w0 ops).heap = false ∧
        (∃ t ∈ c.ix.i2t, ∃ r ∈ t.refs, (World.run .derived w0 ops).heap.deref r = none)) ∧
      (World.run .derived w0 ops).heap.ub = false ∧
      (World.step .derived (World.run .derived w0 ops) (.readAll 1)).1.heap.ub = true ∧
      -- latent already before the original goes
      (∃ c, (World.run .derived w0 (ops.take 2)).get 1 = some c ∧ c.ix.selfContained = false) :=
  ⟨witness, by decide⟩

/-- hence `no_dangling` fails for the derived `Clone` -/
theorem derive_not_safe : ¬ ∀ ops, Safe (World.run .derived {} ops) := by
  intro h
  obtain ⟨_, hs⟩ := h (.new 0 tiShape 9 :: witness)
  have hw : ∃ e ∈ (World.run .derived {} (.new 0 tiShape 9 :: witness)).stores, ∃ t ∈ e.2.ix.i2t,
      ∃ r ∈ t.refs, (World.run .derived {} (.new 0 tiShape 9 :: witness)).heap.deref r = none := by decide
  obtain ⟨e, he, t, ht, r, hr, hd⟩ := hw
  obtain ⟨s, hs'⟩ := hs e he t ht r hr
  rw [hd] at hs'; cases hs'

/-- the same history with the manual `Clone`: the clone owns what it points to -/
example : ∃ c, (World.run .manual w0 witness).get 1 = some c ∧ c.ix.selfContained = true ∧
    c.readable (World.run .manual w0 witness).heap = true := by decide

/-! ### what still holds for the derived `Clone` (the `_partial` statement for the current tree) -/

def cloneFree : Op → Bool
  | .clone _ _ => false
  | .cloneFrom _ _ => false
  | _ => true

theorem step_cloneFree (ck : CloneKind) (w : World) {op : Op} (h : cloneFree op = true) :
    World.step ck w op = World.step .manual w op := by
  cases op <;> first | rfl | (simp [cloneFree] at h)

/-- `no_dangling_partial`: whatever `Clone` the source defines, every history WITHOUT `clone` /
`clone_from` — inserts, removals, growth across any number of reallocations, drops, swaps, moves,
Box, mem::take, iteration, on any number of stores — is safe.  The full statement (`no_dangling`,
all histories) needs the manual `Clone`; for the derived one it is refuted (`derive_clone_dangles`). -/
theorem no_dangling_partial (ck : CloneKind) (ops : List Op) (h : ops.all cloneFree = true) :
    Safe (World.run ck {} ops) := by
  have : World.run ck {} ops = World.run .manual {} ops := by
    generalize ({} : World) = w
    induction ops generalizing w with
    | nil => rfl
    | cons op ops ih =>
      simp only [List.all_cons, Bool.and_eq_true] at h
      simp only [World.run, List.foldl_cons] at ih ⊢
      rw [step_cloneFree ck w h.1]
      exact ih h.2 _
  rw [this]; exact no_dangling ops

example : [Op.new 0 tiShape 9, .ens 0 (.iri ['x']), .take 0 1, .drop 0, .readAll 1].all cloneFree = true := by decide

/-! ### the property over the GENERATED clone kind -/

/-- `c10_holds`: if the source defines `Clone for SimpleTermIndex` manually (the shape recognised by
tools/extractors/c10.py), the property holds for every history of the model the driver runs -/
theorem c10_holds (hk : Gen.cloneKind = .manual) (ops : List Op) : Safe (World.run Gen.cloneKind {} ops) := by
  rw [hk]; exact no_dangling ops

/-- what the CURRENT tree has (re-checked against the regenerated `Gen.cloneKind` on every run):
either the manual `Clone` and the property holds for all histories, or the derived one and the
3-step history refutes it. -/
theorem c10_verdict :
    (Gen.cloneKind = .manual ∧ ∀ ops, Safe (World.run Gen.cloneKind {} ops)) ∨
    (Gen.cloneKind = .derived ∧ ¬ ∀ ops, Safe (World.run Gen.cloneKind {} ops)) := by
  cases hk : Gen.cloneKind with
  | manual => exact Or.inl ⟨rfl, no_dangling⟩
  | derived => exact Or.inr ⟨rfl, derive_not_safe⟩

/-- the flag the theorems above are conditional on, as REGENERATED from inmem/src/index.rs: if the source
goes back to `#[derive(Clone)]` (or to any other shape) this obligation fails -/
theorem cloneKind_is : Gen.cloneKind = .manual := rfl

/-- … hence, unconditionally, for the `Clone` the source has: every history of store operations is safe -/
theorem c10_holds_gen (ops : List Op) : Safe (World.run Gen.cloneKind {} ops) := c10_holds cloneKind_is ops

/-- `mownstr_as_modelled`: the five facts about the crate `mownstr` the ownership model is built on — the bytes
of a `MownStr` live out of line (pointer + length), `Clone` of a borrowed one copies the pointer and of an owned
one the bytes, `Drop` releases the buffer iff owned, `From<Box<str>>` / `From<String>` take the buffer over
without copying, `borrowed()` is a pointer copy — are each RECOGNISED IN ITS SOURCE (the version the harness is
locked to, regenerated on every run: `Gen.mownStr`); a version with, say, inline small strings fails this. -/
theorem mownstr_as_modelled : Gen.mownStr = MownStrShape.modelled := rfl

/-- growth / rehash of the table, reallocation of the vector, moves, `Box`, `swap`, `take` -/
def isMove : Op → Bool
  | .grow _ | .mv _ _ | .box _ | .swap _ _ | .take _ _ => true
  | _ => false

/-- `moves_keep_buffers`: table growth, moves, Box, swap and take touch no string buffer, allocate nothing and
release nothing — under either `Clone`, in any world.  In the model this is what "the bytes live out of line"
(`mownstr_as_modelled`, `outOfLine`) MEANS: these operations move `MownStr` structs (pointer + length), and the
model's `StrRef`s are such structs; that std's `HashMap` / `Vec` / `Box` move their elements bitwise is the
remaining assumption (CONFIG.assumptions), supported by the audit after every growth history. -/
theorem moves_keep_buffers (ck : CloneKind) (w : World) (op : Op) (h : isMove op = true) :
    (World.step ck w op).1.heap = w.heap := by
  cases op <;> simp only [isMove, Bool.false_eq_true] at h <;> simp only [World.step] <;> (repeat' split) <;> rfl

example : isMove (.swap 0 1) = true ∧ isMove (.grow 3) = true ∧ isMove (.drop 0) = false := by decide

/-! ### moves: the value is the same, only its name / place changes

`clone_independent` speaks about stores an operation does NOT name.  These are the missing cases of the
clause "mutating, dropping or MOVING either one never changes what the other returns": the moved store
itself keeps its index, its rows, and — the heap is untouched — everything it reads. -/

/-- `let b = a;` -/
theorem mv_same_content {w : World} (inv : WInv w) {a b : Nat} {s : HStore}
    (ha : w.get a = some s) (hb : w.get b = none) :
    (World.step .manual w (.mv a b)).1.get b = some s ∧ (World.step .manual w (.mv a b)).1.get a = none ∧
    (World.step .manual w (.mv a b)).1.heap = w.heap := by
  have hab : a ≠ b := fun e => by rw [e, hb] at ha; cases ha
  have hw := inv.step (.mv a b)
  simp only [World.step, ha, hb] at hw ⊢
  refine ⟨get_of_mem hw.names (by simp [World.add]), ?_, rfl⟩
  rw [get_add_other _ _ hab]
  simp only [World.get, World.del, Option.map_eq_none_iff, List.find?_eq_none, List.mem_filter]
  intro e he
  simpa using he.2

/-- `Box::new(a)` / `*a` -/
theorem box_same_content {w : World} (inv : WInv w) {a : Nat} {s : HStore} (ha : w.get a = some s) :
    (World.step .manual w (.box a)).1.get a = some { s with boxed := !s.boxed } ∧
    (World.step .manual w (.box a)).1.heap = w.heap := by
  have hw := inv.step (.box a)
  simp only [World.step, ha] at hw ⊢
  refine ⟨get_of_mem hw.names ?_, rfl⟩
  simp only [World.set, List.mem_map]
  exact ⟨(a, s), get_mem ha, by simp⟩

/-- `std::mem::swap(&mut a, &mut b)` -/
theorem swap_same_content {w : World} (inv : WInv w) {a b : Nat} {sa sb : HStore}
    (ha : w.get a = some sa) (hb : w.get b = some sb) (hab : a ≠ b) :
    (World.step .manual w (.swap a b)).1.get a = some sb ∧ (World.step .manual w (.swap a b)).1.get b = some sa ∧
    (World.step .manual w (.swap a b)).1.heap = w.heap := by
  have hw := inv.step (.swap a b)
  have hne : (a == b) = false := by simpa using hab
  simp only [World.step, ha, hb, hne, Bool.false_eq_true, if_false] at hw ⊢
  refine ⟨get_of_mem hw.names ?_, get_of_mem hw.names ?_, rfl⟩
  · simp only [World.set, List.mem_map]
    refine ⟨(a, sb), ⟨(a, sa), get_mem ha, by simp⟩, ?_⟩
    simp [hne]
  · simp only [World.set, List.mem_map]
    exact ⟨(b, sb), ⟨(b, sb), get_mem hb, by simp [show (b == a) = false by simpa using Ne.symm hab]⟩, by simp⟩

/-- `let b = std::mem::take(&mut a);` -/
theorem take_same_content {w : World} (inv : WInv w) {a b : Nat} {s : HStore}
    (ha : w.get a = some s) (hb : w.get b = none) :
    (World.step .manual w (.take a b)).1.get b = some s ∧
    (World.step .manual w (.take a b)).1.get a = some (HStore.new s.shape s.max) ∧
    (World.step .manual w (.take a b)).1.heap = w.heap := by
  have hab : a ≠ b := fun e => by rw [e, hb] at ha; cases ha
  have hw := inv.step (.take a b)
  simp only [World.step, ha, hb] at hw ⊢
  refine ⟨get_of_mem hw.names (by simp [World.add]), get_of_mem hw.names ?_, rfl⟩
  simp only [World.add, World.set, List.mem_append, List.mem_map]
  exact Or.inl ⟨(a, s), get_mem ha, by simp⟩

/-- `clone a b` leaves the ORIGINAL as it was: same value under the same name, and every entry reads what
it read before (the clone only adds cells to the heap) -/
theorem clone_original_unchanged {w : World} (inv : WInv w) {a b : Nat} {s : HStore}
    (ha : w.get a = some s) (hb : w.get b = none) :
    (World.step .manual w (.clone a b)).1.get a = some s ∧
    ∀ t ∈ s.ix.i2t, readTerm? (World.step .manual w (.clone a b)).1.heap t = readTerm? w.heap t := by
  obtain ⟨h', c, hc, he, _, _, _, _, _, _, _⟩ := cloneStore_manual_spec (inv.ix _ (get_mem ha))
  have hab : a ≠ b := fun e => by rw [e, hb] at ha; cases ha
  simp only [World.step, ha, hb, hc]
  refine ⟨by rw [get_add_other _ _ hab]; exact ha, fun t ht => ?_⟩
  obtain ⟨_, _, x, _, hx⟩ := (inv.ix _ (get_mem ha)).sync t ht
  show readTerm? h' t = readTerm? w.heap t
  rw [hx]; exact readTerm?_ext he hx

example : ∃ s, (World.run .manual {} [.new 0 ⟨0, [], []⟩ 9, .ens 0 (.iri ['x'])]).get 0 = some s ∧
    (World.run .manual {} [.new 0 ⟨0, [], []⟩ 9, .ens 0 (.iri ['x'])]).get 1 = none := by decide

/-! ### index full: a refused insertion leaves nothing behind -/

/-- `ensure_index` on a full index (`len() ≥ MAX`) for a term it does not know: `TermIndexFullError`, the
index is EXACTLY what it was (in particular no `i2t` entry whose key is gone), and the only effect on the
heap is that the owned copy made for the lookup is released again -/
theorem ensure_index_full_refused (own : Bool) (max : Nat) (h : Heap.Heap) (ix : TIndex) (t : Term)
    (hfull : max ≤ ix.i2t.length) (hnew : ix.getIndex (allocTerm own h t).1 t = none) :
    ix.ensureIndex own max h t = ((allocTerm own h t).1.freeAll (allocTerm own h t).2.ownedIds, ix, none) := by
  simp only [TIndex.ensureIndex, hnew, ge_iff_le, hfull, if_true]

/-- … and a known term is still answered when the index is full -/
theorem ensure_index_known (own : Bool) (max : Nat) (h : Heap.Heap) (ix : TIndex) (t : Term) {i : Nat}
    (hk : ix.getIndex (allocTerm own h t).1 t = some i) :
    ix.ensureIndex own max h t = ((allocTerm own h t).1.freeAll (allocTerm own h t).2.ownedIds, ix, some i) := by
  simp only [TIndex.ensureIndex, hk]

/-- non-vacuity, on the six-term index the harness uses: six terms fit, the seventh is refused, twice,
the index is unchanged, self-contained and `Debug`-printable, and so is its clone -/
example :
    let w := World.run .manual {} [.new 0 ⟨0, [], []⟩ 6, .ens 0 (.iri ['a']), .ens 0 (.iri ['b']), .ens 0 (.iri ['c']),
      .ens 0 (.iri ['d']), .ens 0 (.iri ['e']), .ens 0 (.iri ['f'])]
    (World.step .manual w (.ens 0 (.iri ['g']))).2 = .full ∧
    (World.step .manual (World.step .manual w (.ens 0 (.iri ['g']))).1 (.ens 0 (.iri ['h']))).2 = .full ∧
    (World.step .manual (World.step .manual w (.ens 0 (.iri ['g']))).1 (.ens 0 (.iri ['a']))).2 = .idx 0 ∧
    ((World.step .manual w (.ens 0 (.iri ['g']))).1.get 0).map (·.ix) = (w.get 0).map (·.ix) := by decide

/-- `index_sized`: after ANY history, under EITHER `Clone` (no invariant assumed, no heap reasoning): every
index of every live store has exactly one key per `i2t` entry, the `j`-th key is mapped to `j`, and there
are at most `MAX` entries — `len()` never exceeds `MAX`, and a refused insertion, alone or in the middle of
a quad, before or after cloning / moving, leaves no entry without a key. -/
theorem index_sized (ck : CloneKind) (ops : List Op) : ∀ e ∈ (World.run ck {} ops).stores,
    e.2.ix.t2i.length = e.2.ix.i2t.length ∧ e.2.ix.i2t.length ≤ e.2.max ∧
    e.2.ix.t2i.map (·.2) = List.range e.2.ix.i2t.length :=
  fun e he => ⟨((WSized.init.run ck ops) e he).len, ((WSized.init.run ck ops) e he).le, ((WSized.init.run ck ops) e he).keys⟩

/-- `audit_key_found`: hence the audit (model of the hook `verif_audit`) never reports "no key for this
entry": for every entry `i` of every live store after any history the key it compares `i2t[i]` with exists
and is the `i`-th one.  (That this key has the entry's shape and contains its pointers: `audit_clean`, manual
`Clone`.) -/
theorem audit_key_found (ck : CloneKind) (ops : List Op) : ∀ e ∈ (World.run ck {} ops).stores,
    ∀ i, (hi : i < e.2.ix.i2t.length) → ∃ k, e.2.ix.t2i[i]? = some (k, i) ∧
      e.2.ix.auditEntry i = (k.sameShape e.2.ix.i2t[i], k.sameShape e.2.ix.i2t[i] && insideKey k e.2.ix.i2t[i]) := by
  intro e he i hi
  obtain ⟨k, hk, hg⟩ := keyAt_of_sized ((WSized.init.run ck ops) e he) hi
  exact ⟨k, hg, by simp only [TIndex.auditEntry, hk, List.getElem?_eq_getElem hi]⟩

/-- `audit_clean`: in every world satisfying the invariant — hence (`audit_clean_run`) after EVERY history
under the manual `Clone`: inserts, refused inserts, removals, growth, clone, clone_from, drops in any order,
swaps, moves, Box, mem::take — the audit vector of every live store is clean: for EVERY entry `i` the key
mapped to `i` exists, has the entry's shape, and owns every buffer the entry borrows.  This is exactly what
the hook `verif_audit` computes on the implementation and check.py compares after every operation (`1*n`).
Through the manual `Clone` this needs that the lookup `t2i.get_key_value(t)` of the rebuild finds the key at
the entry's OWN position, i.e. that no two keys are `Term::eq` (`keys_unique`, C01's I2 carried in the heap
model) and that key `j` and entry `j` read the same term (`IxInv.pair`). -/
theorem audit_clean {w : World} (inv : WInv w) : ∀ e ∈ w.stores, ∀ p ∈ e.2.ix.audit, p = (true, true) := by
  intro e he
  have ii := inv.ix e he
  exact audit_clean_of (max := e.2.ix.i2t.length) ⟨ii.keys, Nat.le_refl _⟩
    (ii.pair.imp (fun _ _ _ hp => ⟨hp.1, hp.2.1⟩))

theorem audit_clean_run (ops : List Op) :
    ∀ e ∈ (World.run .manual {} ops).stores, ∀ p ∈ e.2.ix.audit, p = (true, true) :=
  audit_clean (WInv.init.run ops)

/-- `keys_unique` (C01's I2 in the heap model): after every history no index holds two keys that are `Term::eq`,
the `j`-th key is mapped to `j`, and key `j` and entry `j` read — through the heap — the very same term -/
theorem keys_unique (ops : List Op) : ∀ e ∈ (World.run .manual {} ops).stores,
    KeysUnique (World.run .manual {} ops).heap e.2.ix.t2i ∧
    e.2.ix.t2i.map (·.2) = List.range e.2.ix.i2t.length ∧
    Pointwise (fun (k : TermRef × Nat) t => ∃ x, readTerm? (World.run .manual {} ops).heap k.1 = some x ∧
      readTerm? (World.run .manual {} ops).heap t = some x) e.2.ix.t2i e.2.ix.i2t := by
  intro e he
  have ii := (WInv.init.run ops).ix e he
  exact ⟨ii.uniq, ii.keys, ii.pair.imp (fun _ _ _ hp => hp.2.2)⟩

/-- non-vacuity: a clone of a clone after the original is gone, with a quoted triple and a case-variant tag -/
example : ∃ e ∈ (World.run .manual {} [.new 0 ⟨0, [], []⟩ 9, .ens 0 (.lang ['a'] ['e', 'n']), .ens 0 (.lang ['a'] ['E', 'N']),
    .ens 0 (.triple (.iri ['s']) (.iri ['p']) (.lit [] ['d'])), .clone 0 1, .drop 0, .clone 1 2, .ens 2 (.iri ['z'])]).stores,
    e.1 = 2 ∧ e.2.ix.audit = [(true, true), (true, true), (true, true)] := by decide

theorem cloneFree_eq : cloneFree = cloneFreeOp := by funext op; cases op <;> rfl

/-- `audit_clean_partial`: whatever `Clone` the source defines, after every history WITHOUT `clone` /
`clone_from` — inserts, refused inserts (index full, also in the middle of a quad), removals, growth, drops,
swaps, moves, Box, mem::take, iteration, on any number of stores — the audit vector of every live store is
clean: for EVERY entry the key mapped to it exists, has its shape and owns every buffer the entry borrows
(the `1*n` the driver prints and check.py compares with the hook's answer).  No invariant assumed, no heap
reasoning.  The full statement (ALL histories) is `audit_clean_run` for the manual `Clone`; for the derived
one it is false (`derive_clone_dangles`: the clone is not self-contained). -/
theorem audit_clean_partial (ck : CloneKind) (ops : List Op) (h : ops.all cloneFree = true) :
    ∀ e ∈ (World.run ck {} ops).stores, ∀ p ∈ e.2.ix.audit, p = (true, true) := by
  rw [cloneFree_eq] at h
  intro e he
  have := (WP.run bothPred ck WP.init ops (Or.inl h)) e he
  exact audit_clean_of this.1 this.2

example : [Op.new 0 ⟨0, [], []⟩ 2, .ens 0 (.iri ['a']), .ens 0 (.triple (.iri ['s']) (.iri ['p']) (.lang [] ['e'])),
    .ens 0 (.iri ['c']), .take 0 1, .box 1, .drop 0].all cloneFree = true := by decide

example : ∃ e ∈ (World.run .manual {} [.new 0 ⟨0, [], []⟩ 2, .ens 0 (.iri ['a']), .ens 0 (.iri ['b']), .ens 0 (.iri ['c']),
    .clone 0 1, .ens 1 (.iri ['d'])]).stores, e.1 = 1 ∧ e.2.ix.i2t.length = 2 ∧ e.2.ix.audit = [(true, true), (true, true)] := by
  decide

/-! ### terms cloned out of a store and kept (`get_term(i).clone()`, items of `triples()` / `quads()`)

The second sentence of the property — "no sequence of safe API calls on these stores leads to undefined
behaviour" — quantifies over MORE than the operations on the stores themselves: the stores lend terms, and
what safe code may do with a lent term depends on its TYPE.  `XWorld.step ck te` adds that: `te` (generated:
`Gen.termEscapes`) says whether the source declares `type Term = SimpleTerm<'static>`. -/

/-- the full statement: no UB, every entry of every live store dereferences, AND every kept clone of a
lent term dereferences -/
def XSafe (xw : XWorld) : Prop :=
  Safe xw.w ∧ ∀ e ∈ xw.esc, dangles xw.w.heap e.2 = false

/-- the property at full strength over the model the driver runs -/
def C10Full (ck : CloneKind) (te : Bool) : Prop := ∀ ops : List XOp, XSafe (XWorld.run ck te {} ops)

theorem xsafe_of_xinv {xw : XWorld} (inv : XInv xw) : XSafe xw :=
  ⟨safe_of_winv inv.w, by rw [inv.none]; intro e he; cases he⟩

/-- the 4-step history of the finding: insert one IRI; keep a clone of the lent term; drop the index; read the clone -/
def escWitness : List XOp :=
  [.base (.new 0 tiShape 9), .base (.ens 0 (.iri ['x'])), .esc 0 (.iri ['x']) 7, .base (.drop 0)]

/-- `escape_dangles`: while the index lends `&SimpleTerm<'static>` (`te = true`), there is a history of
SAFE calls — insert; `let x = a.get_term(0).clone()`; `drop(a)` — after which no store is left, no UB has
happened yet, the kept term points into a RELEASED allocation (the key of the dropped index), and reading
it through its accessors is UB.  Independent of the `Clone` of the index (holds for `.manual`).
Kernel-checked by evaluation of the model. -/
theorem escape_dangles :
    (XWorld.run .manual true {} escWitness).w.stores = [] ∧
    (XWorld.run .manual true {} escWitness).w.heap.ub = false ∧
    (∃ t, (XWorld.run .manual true {} escWitness).getEsc 7 = some t ∧
      dangles (XWorld.run .manual true {} escWitness).w.heap t = true ∧
      ∃ r ∈ t.refs, (XWorld.run .manual true {} escWitness).w.heap.deref r = none) ∧
    (XWorld.step .manual true (XWorld.run .manual true {} escWitness) (.readEsc 7)).1.w.heap.ub = true := by
  decide

/-- hence the full statement is FALSE for the term type `SimpleTerm<'static>` -/
theorem c10_full_refuted : ¬ C10Full .manual true := by
  intro h
  have h2 := (h escWitness).2
  have hw : ∃ e ∈ (XWorld.run .manual true {} escWitness).esc,
      dangles (XWorld.run .manual true {} escWitness).w.heap e.2 = true := by decide
  obtain ⟨e, he, hd⟩ := hw
  rw [h2 e he] at hd; cases hd

/-- a quoted triple's `i2t` entry OWNS deep copies: its kept clone owns its own copies and survives the store -/
example : ∃ t, (XWorld.run .manual true {} [.base (.new 0 tiShape 9),
      .base (.ens 0 (.triple (.iri ['s']) (.iri ['p']) (.iri ['o']))),
      .esc 0 (.triple (.iri ['s']) (.iri ['p']) (.iri ['o'])) 7, .base (.drop 0)]).getEsc 7 = some t ∧
    dangles (XWorld.run .manual true {} [.base (.new 0 tiShape 9),
      .base (.ens 0 (.triple (.iri ['s']) (.iri ['p']) (.iri ['o']))),
      .esc 0 (.triple (.iri ['s']) (.iri ['p']) (.iri ['o'])) 7, .base (.drop 0)]).w.heap t = false := by decide

/-- `escape_bounded_safe`: with a term type that binds every lent term to the borrow of its store
(`te = false`, the proposed but NOT applied notes/fixes/C10-indexed-term-lifetime.diff) the full statement HOLDS: for all histories over
store operations, `esc` attempts, `Debug` formatting, on any number of stores. -/
theorem escape_bounded_safe : C10Full .manual false :=
  fun ops => xsafe_of_xinv (XInv.init.run false ops (Or.inl rfl))

/-- `c10_full_partial`: whatever the term type, every history that KEEPS no lent term (all store
operations + `Debug` formatting + reads/drops of kept terms, which then do not exist) is safe.
The full statement `C10Full` needs `te = false`; for `te = true` it is refuted (`escape_dangles`). -/
theorem c10_full_partial (te : Bool) (ops : List XOp) (h : ops.all escFree = true) :
    XSafe (XWorld.run .manual te {} ops) :=
  xsafe_of_xinv (XInv.init.run te ops (Or.inr h))

example : [XOp.base (.new 0 tiShape 9), .base (.ens 0 (.iri ['x'])), .dbg 0, .base (.clone 0 1), .base (.drop 0), .dbg 1,
    .readEsc 7].all escFree = true := by decide

/-- the verdict for the CURRENT tree over both generated flags (`Gen.cloneKind`, `Gen.termEscapes`; the
extractor fails closed on any other shape): the property at full strength holds iff the index does not
lend `'static` terms; a history refuting it exists otherwise. -/
-- STATUS: the tree has `Gen.termEscapes = true`; C10-lent-term-clone-outlives-store is a RECORDED KNOWN FINDING, not
-- repaired.  notes/fixes/C10-indexed-term-lifetime.diff is a PROPOSED repair that was NOT applied: it changes the
-- public associated type `TermIndex::Term` of `SimpleTermIndex`, which breaks downstream generic code naming
-- `&'x SimpleTerm<'static>` (an API change for the maintainers to decide, not a small safe fix).  The `false` branch
-- below says what would hold with such a term type; the differential reports every kept term that dangles and
-- check.py matches it against the finding.
theorem c10_full_verdict :
    (Gen.termEscapes = false ∧ C10Full Gen.cloneKind Gen.termEscapes) ∨
    (Gen.termEscapes = true ∧ ¬ C10Full Gen.cloneKind Gen.termEscapes) := by
  rw [cloneKind_is]
  cases Gen.termEscapes with
  | false => exact Or.inl ⟨rfl, escape_bounded_safe⟩
  | true => exact Or.inr ⟨rfl, c10_full_refuted⟩

/-! ### the other `unsafe` sites of the anchored files -/

/-- `unwrap_unchecked_safe` (inmem/src/dataset/_iter.rs, `BcdMatchingIterator::boxed` /
`CdMatchingIterator::boxed`): in every state satisfying C01's representation invariant, for every
arm whose table obligations hold and every row of the index it scans, the canonical quad
`to_gspo(row)` is a stored primary row and its `s`, `p`, `o` names — the values handed to
`unwrap_unchecked` — are `Some` (corollary of (I3): their components are valid term indices). -/
theorem unwrap_unchecked_safe {s : St} (h : Inv s) {arm : Arm}
    (hF : ArmFacts s.shape.n (s.shape.perms.getD arm.index []) arm)
    {ix : List Row} (hix : s.idx[arm.index]? = some ix) {r : Row} (hr : r ∈ ix) :
    toCanon arm.out r ∈ s.idx.getD 0 [] ∧
    ∀ pos, pos < s.shape.n → isGPos s.shape.n pos = false →
      ∃ t, (namesOfRow s (toCanon arm.out r))[pos]? = some (some t) := by
  obtain ⟨c, hc, rfl⟩ := (h.same arm.index ix hix r).1 hr
  have hrow := h.rows_ok c hc
  have hcan : toCanon arm.out (layout (s.shape.perms.getD arm.index []) c) = c :=
    toCanon_layout' _ _ _ c hrow.1 hF.out
  rw [hcan]
  refine ⟨hc, fun pos hpos hg => ?_⟩
  have hlt : pos < c.length := by rw [hrow.1]; exact hpos
  have hv := hrow.2 pos c[pos] (List.getElem?_eq_getElem hlt)
  have hvl : c[pos] < s.terms.length := by
    rcases hv with hv | ⟨hg', _⟩
    · exact hv
    · rw [hg] at hg'; cases hg'
  refine ⟨s.terms[c[pos]], ?_⟩
  simp [namesOfRow, hpos, hg, List.getD_eq_getElem?_getD, List.getElem?_eq_getElem hlt,
    List.getElem?_eq_getElem hvl]

/-- … instantiated for the GENERATED tables: every arm of every shipped store type -/
theorem unwrap_unchecked_safe_gen {d : StoreDesc} {s : St}
    (hd : d = Gen.genericLightDataset ∨ d = Gen.genericFastDataset ∨ d = Gen.genericLightGraph ∨
      d = Gen.genericFastGraph)
    (hs : s.shape = d.shape) (h : Inv s) {arm : Arm} (ha : arm ∈ d.arms)
    {ix : List Row} (hix : s.idx[arm.index]? = some ix) {r : Row} (hr : r ∈ ix) :
    ∀ pos, pos < s.shape.n → isGPos s.shape.n pos = false →
      ∃ t, (namesOfRow s (toCanon arm.out r))[pos]? = some (some t) := by
  have hok : descOK d = true := by
    rcases hd with rfl | rfl | rfl | rfl <;> decide
  obtain ⟨hn, harms, _⟩ := descOK_spec hok
  have hperm : IsPerm d.n (d.insertLayouts.getD arm.index []) = true := by
    have hlt : arm.index < s.idx.length := (List.getElem?_eq_some_iff.1 hix).1
    rw [h.idx_len, hs] at hlt
    change arm.index < d.insertLayouts.length at hlt
    have hmem : d.insertLayouts.getD arm.index [] ∈ d.shape.perms := by
      show d.insertLayouts.getD arm.index [] ∈ d.insertLayouts
      rw [List.getD_eq_getElem?_getD, List.getElem?_eq_getElem hlt]; exact List.getElem_mem _
    have := (List.all_eq_true.1 h.shape_ok.1) (d.insertLayouts.getD arm.index []) (by rw [hs]; exact hmem)
    rw [hs] at this; exact this
  obtain ⟨_, hF⟩ := armFacts_of_armOK (harms arm ha) hn hperm
  have hF' : ArmFacts s.shape.n (s.shape.perms.getD arm.index []) arm := by rw [hs]; exact hF
  exact (unwrap_unchecked_safe h hF' hix hr).2

/-- `reachable_store_inv`: the hypothesis `Inv s` (C01's representation invariant) of `unwrap_unchecked_safe`
is DISCHARGED for the worlds C10 is about: after any history whose stores are created with well-formed shapes
(`newOK`; the four generated shapes are, see the `example` below) every graph / dataset of the world, read
through the heap, satisfies C01's `Inv` — by `value_semantics` the world is a world of `Store` values, and
`Store.insert` / `remove` / `ensure_index` / copying / renaming preserve `Inv` (C01's lemmas + `inv_ens`). -/
theorem reachable_store_inv (ops : List Op) (hop : ∀ op ∈ ops, newOK op) :
    ∀ e ∈ (World.run .manual {} ops).stores, e.2.shape.n ≠ 0 →
      Inv (e.2.view (World.run .manual {} ops).heap) ∧ lookupOrderOK (e.2.view (World.run .manual {} ops).heap) := by
  intro e he hn
  have hv : VInv (World.run .manual {} ops).vview := by
    rw [value_semantics]; exact VInv.run (fun _ h => by cases h) ops hop
  exact hv (e.1, e.2.view _) (List.mem_map.2 ⟨e, he, rfl⟩) hn

example : newOK (.new 0 Gen.genericFastDataset.shape Gen.maxU16) ∧ newOK (.new 1 Gen.genericLightGraph.shape Gen.maxU32) ∧
    newOK (.new 2 Gen.genericLightDataset.shape 6) ∧ newOK (.new 3 Gen.genericFastGraph.shape 6) ∧
    newOK (.new 4 ⟨0, [], []⟩ 6) := by
  refine ⟨Or.inr (by decide), Or.inr (by decide), Or.inr (by decide), Or.inr (by decide), Or.inl rfl⟩

/-- `unwrap_unchecked_safe_reachable`: … so for every shipped store type, in every world reachable under the
manual `Clone`, in whatever order stores were cloned, dropped, moved or refused insertions, the values handed
to `unwrap_unchecked` in inmem/src/dataset/_iter.rs are `Some` — no invariant assumed any more. -/
theorem unwrap_unchecked_safe_reachable (ops : List Op) (hop : ∀ op ∈ ops, newOK op)
    {e : Nat × HStore} (he : e ∈ (World.run .manual {} ops).stores) {d : StoreDesc}
    (hd : d = Gen.genericLightDataset ∨ d = Gen.genericFastDataset ∨ d = Gen.genericLightGraph ∨
      d = Gen.genericFastGraph) (hs : e.2.shape = d.shape) {arm : Arm} (ha : arm ∈ d.arms)
    {ix : List Row} (hix : e.2.idx[arm.index]? = some ix) {r : Row} (hr : r ∈ ix) :
    ∀ pos, pos < e.2.shape.n → isGPos e.2.shape.n pos = false →
      ∃ t, (namesOfRow (e.2.view (World.run .manual {} ops).heap) (toCanon arm.out r))[pos]? = some (some t) := by
  have hn : e.2.shape.n ≠ 0 := by
    rw [hs]; rcases hd with rfl | rfl | rfl | rfl <;> decide
  exact unwrap_unchecked_safe_gen (s := e.2.view (World.run .manual {} ops).heap) hd hs
    (reachable_store_inv ops hop e he hn).1 ha hix hr

/-- `ensure_owned_sound` (api/src/term/_simple.rs, the `transmute` of an owned `MownStr` to
`'static`): whichever branch is taken, the returned string OWNS a buffer that did not exist before
the call (so it borrows nothing restricted to the argument's lifetime), that buffer is live and it
holds the argument's bytes; the `transmute` branch (`m.is_owned()`) is only reached after the deep
`clone`, and dropping the argument afterwards releases a DIFFERENT buffer.
`ensureOwned` is the function `World.step` runs for EVERY string of EVERY term a store takes in
(`allocTerm` = `FromTerm::from_term` → `feedStr` → `ensureOwned`), in the branch `World.own` selects. -/
theorem ensure_owned_sound (h : Heap.Heap) (m : StrRef) (s : Str) (hm : h.deref m = some s)
    (hl : m.owned = true → Live h m.a) :
    let r := ensureOwned h m
    r.2.owned = true ∧ r.2.a = h.cells.size ∧ (m.owned = true → r.2.a ≠ m.a) ∧ Live r.1 r.2.a ∧
    r.1.deref r.2 = some s ∧ r.1.ub = h.ub :=
  ensureOwned_spec h m s hm hl

/-- the hypotheses of `ensure_owned_sound` are met at the call site, in both feeding modes (the accessor's
string dereferences; when it owns its buffer that buffer is live) -/
example (h : Heap.Heap) (s : Str) :
    (h.alloc s).1.deref (h.alloc s).2 = some s ∧ ((h.alloc s).2.owned = true → Live (h.alloc s).1 (h.alloc s).2.a) :=
  ⟨deref_alloc h s, fun _ => alloc_live h s⟩

/-- `ensure_owned_branches_agree`: a string reaching a store through an accessor that returns an OWNED `MownStr`
(`is_owned` branch: clone + `transmute`, then the argument is dropped) and the same string reaching it through
an accessor that returns a BORROWED one (copy branch; the caller's buffer goes with the caller's term) leave
the SAME heap and the SAME `'static` string: the accessor's buffer is released, the result owns the next one. -/
theorem ensure_owned_branches_agree (h : Heap.Heap) (s : Str) :
    feedStr true h s = feedStr false h s ∧
    (feedStr true h s).2 = ⟨true, h.cells.size + 1, s.length⟩ ∧
    ¬ Live (feedStr true h s).1 h.cells.size := by
  refine ⟨by rw [feedStr_eq, feedStr_eq], by rw [feedStr_eq], ?_⟩
  rw [feedStr_eq]
  exact free_not_live _ _

/-- `from_term_sound`: `SimpleTerm::from_term` (the owned copy `ensure_index` makes of ANY caller's term, in
either feeding mode): the result owns every one of its strings, in buffers that did not exist before, are live
and pairwise distinct; it reads the caller's term; nothing that existed before is touched; no UB. -/
theorem from_term_sound (own : Bool) (h : Heap.Heap) (t : Term) :
    AllOwned (allocTerm own h t).2.refs ∧ readTerm? (allocTerm own h t).1 (allocTerm own h t).2 = some t ∧
    (allocTerm own h t).1.ub = h.ub ∧ Ext h (allocTerm own h t).1 ∧ (allocTerm own h t).2.ownedIds.Nodup ∧
    ∀ a ∈ (allocTerm own h t).2.ownedIds, h.cells.size ≤ a ∧ Live (allocTerm own h t).1 a :=
  have nk := allocTerm_spec own h t
  ⟨nk.owned, nk.content, nk.ub, nk.fresh.ext, nk.fresh.nodup, fun a ha => ⟨(nk.fresh.mem.1 ha).1, nk.fresh.live_mem ha⟩⟩

/-- the safety theorems hold for histories that switch the feeding mode at will (`Op.via` is an operation
of `World.step` like any other): e.g. an index fed through owned-string accessors, cloned, the original dropped -/
example : Safe (World.run .manual {} [.via true, .new 0 ⟨0, [], []⟩ 9, .ens 0 (.lit ['a'] ['d']), .via false,
    .ens 0 (.iri ['x']), .clone 0 1, .drop 0, .readAll 1]) := no_dangling _

end SophiaProofs.C10
