/-
C07 — isomorphism test: no false negatives, no blindness to ground differences.

Model: SophiaModel/Model/Iso.lean (`iso deep sort h fuel D₁ D₂`, a transcription of
`isomorphic_datasets`).  Parameters, all universally quantified in the theorems:
  `deep`  which `IsoTerm` equality/order /repo has (regenerated: `Gen.IsoVariant.deep`);
  `sort`  `sort_unstable`, constrained by `SortSpec` (permutation; sorted if the comparator is a total preorder);
  `h`     the hash (`DefaultHasher`) as an arbitrary function of what is fed to it;
  `fuel`  bound on the rounds of the refinement loop (`none` = exhausted).  Termination: proved when the class
          counts never decrease (`iso_relabel_total_partial`, bound 2n+1); refuted for arbitrary hash functions
          (`refine_diverges`, `iso_relabel_total_fails`).

Headline for the code as it is: `repo_variant` (the regenerated flag is the recursive variant — a regression of
iso_term.rs to the top-level-only comparison makes this obligation fail), `iso_relabel_repo`, and the two
oracle theorems `certOk_sound` / `groundDiffers_sound`, which state the clauses for exactly the tests
(Model/IsoOracle.lean) from which the differential driver derives `o.iso=1` / `o.iso=0`.
-/
import SophiaProofs.Lemmas.IsoColour
import SophiaProofs.Lemmas.IsoTermination
import SophiaModel.Gen.IsoVariant
import SophiaModel.Model.IsoOracle
import Mathlib.Data.List.Dedup

namespace SophiaProofs.C07
open SophiaModel SophiaModel.Term SophiaModel.Iso SophiaProofs SophiaProofs.Iso Std

/-! ### the gates decide the answer `false` -/

theorem iso_false_of_gates (deep : Bool) (sort : List Quad → List Quad) (h : List Ev → UInt64) (fuel : Nat)
    (D1 D2 : List Quad) (hg : gates deep sort D1 D2 = false) : iso deep sort h fuel D1 D2 = some false := by
  simp only [gates, Bool.and_eq_false_iff] at hg
  simp only [iso]
  rcases hg with (hg | hg) | hg
  · simp [hg]
  · by_cases h1 : sizeGate D1 D2 = true <;> simp [h1, hg]
  · by_cases h1 : sizeGate D1 D2 = true <;> by_cases h2 : zipGate deep (sort D1) (sort D2) = true <;> simp [h1, h2, hg]

theorem iso_of_gates (deep : Bool) (sort : List Quad → List Quad) (h : List Ev → UInt64) (fuel : Nat)
    (D1 D2 : List Quad) (hg : gates deep sort D1 D2 = true) :
    iso deep sort h fuel D1 D2 =
      refine h (sort D1) (sort D2) (makeB2q (sort D1)) (makeB2q (sort D2)) fuel
        (initMap (makeB2q (sort D1))) (initMap (makeB2q (sort D2))) 0 0 := by
  simp only [gates, Bool.and_eq_true] at hg
  simp [iso, hg.1.1, hg.1.2, hg.2]

/-- what the driver prints as `gates=`: the three gate fields conjoined, the two sorts shared -/
theorem gates_unfold (deep : Bool) (sort : List Quad → List Quad) (D1 D2 : List Quad) :
    gates deep sort D1 D2 =
      (sizeGate D1 D2 && zipGate deep (sort D1) (sort D2) && bcountGate (makeB2q (sort D1)) (makeB2q (sort D2))) := rfl

/-! ### more fuel never changes an answer -/

theorem refine_fuel_mono (h : List Ev → UInt64) (d1 d2 : List Quad) (b1 b2 : B2Q) (fuel k : Nat) (m1 m2 : CMap)
    (o1 o2 : Nat) (b : Bool) (hb : refine h d1 d2 b1 b2 fuel m1 m2 o1 o2 = some b) :
    refine h d1 d2 b1 b2 (fuel + k) m1 m2 o1 o2 = some b := by
  induction fuel generalizing m1 m2 o1 o2 with
  | zero => simp [refine] at hb
  | succ fuel ih =>
    rw [Nat.add_right_comm]
    simp only [refine] at hb ⊢
    split
    · simpa [*] using hb
    · split
      · simpa [*] using hb
      · simp only [*] at hb
        exact ih _ _ _ _ (by simpa using hb)

/-- an answer, once given, is the answer for every larger bound on the number of rounds: `fuel` only decides
between "answered" and "not yet" (`none`), never between `true` and `false` -/
theorem iso_fuel_mono (deep : Bool) (sort : List Quad → List Quad) (h : List Ev → UInt64) (fuel k : Nat)
    (D1 D2 : List Quad) (b : Bool) (hb : iso deep sort h fuel D1 D2 = some b) :
    iso deep sort h (fuel + k) D1 D2 = some b := by
  cases hg : gates deep sort D1 D2
  · rw [iso_false_of_gates _ _ _ _ _ _ hg] at hb ⊢; exact hb
  · rw [iso_of_gates _ _ _ _ _ _ hg] at hb ⊢
    exact refine_fuel_mono _ _ _ _ _ _ _ _ _ _ _ _ hb

/-! ### symmetry -/

theorem refine_symm (h : List Ev → UInt64) (d1 d2 : List Quad) (b1 b2 : B2Q) (fuel : Nat) (m1 m2 : CMap)
    (o1 o2 : Nat) : refine h d1 d2 b1 b2 fuel m1 m2 o1 o2 = refine h d2 d1 b2 b1 fuel m2 m1 o2 o1 := by
  induction fuel generalizing m1 m2 o1 o2 with
  | zero => rfl
  | succ fuel ih =>
    simp only [refine]
    rw [eqclEq_symm _ _ (keys_eqClasses_nodup _) (keys_eqClasses_nodup _), ih,
      Bool.and_comm ((eqClasses (makeMap h d1 b1 m1)).length == o1),
      Bool.and_comm ((eqClasses (makeMap h d1 b1 m1)).length == (makeMap h d1 b1 m1).length)]

theorem gates_symm (deep : Bool) (sort : List Quad → List Quad) (D1 D2 : List Quad) :
    gates deep sort D1 D2 = gates deep sort D2 D1 := by
  simp only [gates, sizeGate, bcountGate]
  rw [zipGate_symm, Bool.beq_comm (a := D1.length), Bool.beq_comm (a := (makeB2q (sort D1)).length)]

/-- the answer is symmetric in its two arguments — for every sort, hash function and fuel -/
theorem iso_symm (deep : Bool) (sort : List Quad → List Quad) (h : List Ev → UInt64) (fuel : Nat)
    (D1 D2 : List Quad) : iso deep sort h fuel D1 D2 = iso deep sort h fuel D2 D1 := by
  cases hg : gates deep sort D1 D2
  · rw [iso_false_of_gates _ _ _ _ _ _ hg, iso_false_of_gates _ _ _ _ _ _ (gates_symm deep sort D1 D2 ▸ hg)]
  · rw [iso_of_gates _ _ _ _ _ _ hg, iso_of_gates _ _ _ _ _ _ (gates_symm deep sort D1 D2 ▸ hg), refine_symm]

/-! ### the three "must answer false" clauses -/

/-- different numbers of statements → `false` -/
theorem iso_false_size (deep : Bool) (sort : List Quad → List Quad) (h : List Ev → UInt64) (fuel : Nat)
    (D1 D2 : List Quad) (hne : D1.length ≠ D2.length) : iso deep sort h fuel D1 D2 = some false := by
  apply iso_false_of_gates
  simp [gates, sizeGate, hne]

/-- number of distinct blank node labels of a dataset (labels at any depth and in graph names) -/
def bnodeCount (D : List Quad) : Nat := (labels D).dedup.length

theorem b2q_length (sort : List Quad → List Quad) (hperm : ∀ l, (sort l).Perm l) (D : List Quad) :
    (makeB2q (sort D)).length = bnodeCount D := by
  have : ((makeB2q (sort D)).map Prod.fst).Perm (labels D).dedup := by
    rw [List.perm_ext_iff_of_nodup (keys_makeB2q_nodup _) (List.nodup_dedup _)]
    intro c
    rw [mem_keys_makeB2q, List.mem_dedup]
    exact ((hperm D).flatMap_right quadBnodes).mem_iff
  simpa [bnodeCount] using this.length_eq

/-- different numbers of blank nodes → `false` -/
theorem iso_false_bcount (deep : Bool) (sort : List Quad → List Quad) (hperm : ∀ l, (sort l).Perm l)
    (h : List Ev → UInt64) (fuel : Nat) (D1 D2 : List Quad) (hne : bnodeCount D1 ≠ bnodeCount D2) :
    iso deep sort h fuel D1 D2 = some false := by
  apply iso_false_of_gates
  simp [gates, bcountGate, b2q_length sort hperm, hne]

/-- the multiset of statements with every blank node blanked out (and language tags case-folded, as
`Term::eq` ignores their case) -/
def blanked (D : List Quad) : List Quad := D.map (mapQ canon)

/-- the datasets differ in some statement once blank nodes are blanked out → `false`.
Only "the sort returns a permutation" is needed here. -/
theorem iso_false_ground (deep : Bool) (sort : List Quad → List Quad) (hperm : ∀ l, (sort l).Perm l)
    (h : List Ev → UInt64) (fuel : Nat) (D1 D2 : List Quad) (hne : ¬ (blanked D1).Perm (blanked D2)) :
    iso deep sort h fuel D1 D2 = some false := by
  apply iso_false_of_gates
  cases hg : gates deep sort D1 D2 with
  | false => rfl
  | true =>
    exfalso; apply hne
    simp only [gates, Bool.and_eq_true, sizeGate, beq_iff_eq] at hg
    have hl : (sort D1).length = (sort D2).length := by
      rw [(hperm D1).length_eq, (hperm D2).length_eq]; exact hg.1.1
    have := map_eq_of_zipGate deep (mapQ canon) (canonQ_of_cmpQuads deep) _ _ hl hg.1.2
    exact (((hperm D1).map (mapQ canon)).symm.trans (List.Perm.of_eq this)).trans ((hperm D2).map (mapQ canon))

/-- The blank-count gate is subsumed by the final histogram comparison: even without the explicit
`b2q1.len() != b2q2.len()` test the loop can never answer `true` on datasets with different numbers of
blank nodes (so deleting that test from /repo is an *equivalent* mutant, notes/mutations/C07-drop-bcount-gate.diff). -/
theorem bcount_gate_subsumed (h : List Ev → UInt64) (d1 d2 : List Quad)
    (hne : (makeB2q d1).length ≠ (makeB2q d2).length) (fuel : Nat) (m1 m2 : CMap) (o1 o2 : Nat) :
    refine h d1 d2 (makeB2q d1) (makeB2q d2) fuel m1 m2 o1 o2 ≠ some true :=
  refine_ne_true_of_bcount h d1 d2 _ _ hne fuel m1 m2 o1 o2

/-! ### no false negative under relabelling -/

/-- renaming by `β` is invisible to `IsoTerm`'s equality/order on the statements of `D` -/
def BlankInv (deep : Bool) (β : Str → Str) (D : List Quad) : Prop :=
  ∀ q ∈ D, mapQ (blank deep) (relabelQ β q) = mapQ (blank deep) q

theorem qkey_mapQ_blank (deep : Bool) (q1 q2 : Quad) (h : mapQ (blank deep) q1 = mapQ (blank deep) q2) :
    qkey deep q1 = qkey deep q2 := by
  simp only [mapQ, Quad.mk.injEq] at h
  obtain ⟨e1, e2, e3, e4⟩ := h
  simp only [qkey, e1, e2, e3]
  cases hg1 : q1.g <;> cases hg2 : q2.g <;> simp [hg1, hg2] at e4 ⊢
  simp [gkey, e4]

theorem compare_antisymm (a b : List Nat) (h1 : compare a b ≠ .gt) (h2 : compare b a ≠ .gt) : a = b := by
  rw [OrientedOrd.eq_swap (a := b) (b := a)] at h2
  cases hc : compare a b
  · simp [hc] at h2
  · exact LawfulEqOrd.eq_of_compare hc
  · exact absurd hc h1

/-- the three gates pass on a relabelled, reordered copy (given that the renaming is invisible to
`IsoTerm`, which is automatic for `deep = true`) -/
theorem gates_relabel_gen (deep : Bool) (sort : List Quad → List Quad) (hs : SortSpec (quadCmp deep) sort)
    (β : Str → Str) (D1 D2 : List Quad) (hwf : ∀ q ∈ D1, WFq q) (R : Relabelled β D1 D2)
    (hinv : BlankInv deep β D1) : gates deep sort D1 D2 = true := by
  have hwf2 : ∀ q ∈ D2, WFq q := by
    intro q hq
    obtain ⟨q', hq', rfl⟩ := List.mem_map.1 (R.perm.subset hq)
    exact relabelQ_WFq β q' (hwf q' hq')
  have hwfs1 : ∀ q ∈ sort D1, WFq q := fun q hq => hwf q ((hs.perm D1).subset hq)
  have hwfs2 : ∀ q ∈ sort D2, WFq q := fun q hq => hwf2 q ((hs.perm D2).subset hq)
  have R' : Relabelled β (sort D1) (sort D2) := by
    refine ⟨?_, ((hs.perm D2).trans R.perm).trans ((hs.perm D1).map _).symm⟩
    intro a ha b hb
    exact R.inj a (((hs.perm D1).flatMap_right quadBnodes).mem_iff.1 ha) b (((hs.perm D1).flatMap_right quadBnodes).mem_iff.1 hb)
  simp only [gates, Bool.and_eq_true]
  refine ⟨⟨?_, ?_⟩, ?_⟩
  · simp [sizeGate, R.perm.length_eq]
  · -- sorted-zip gate: both key lists are sorted for an antisymmetric order and permutations of each other
    have sorted : ∀ D, (∀ q ∈ D, WFq q) →
        ((sort D).map (qkey deep)).Pairwise (fun a b => compare a b ≠ Ordering.gt) := by
      intro D hD
      rw [List.pairwise_map]
      have hD' : ∀ q ∈ sort D, WFq q := fun q hq => hD q ((hs.perm D).subset hq)
      refine (hs.sorted D (totalPreorderOn_of_wf deep D hD)).imp_of_mem ?_
      intro a b ha hb hab
      rw [← quadCmp_key deep a b (hD' a ha) (hD' b hb)]; exact hab
    have hkeys : ((sort D1).map (qkey deep)).Perm ((sort D2).map (qkey deep)) := by
      refine ((hs.perm D1).map _).trans (List.Perm.trans ?_ (((hs.perm D2).trans R.perm).map _).symm)
      rw [List.map_map]
      apply List.Perm.of_eq
      apply List.map_congr_left
      intro q hq
      exact (qkey_mapQ_blank deep _ _ (hinv q hq)).symm
    have heq := hkeys.eq_of_pairwise (fun a b _ _ => compare_antisymm a b) (sorted D1 hwf) (sorted D2 hwf2)
    exact zipGate_of_map_eq deep (qkey deep) _ _
      (fun a ha b hb e => cmpQuads_of_key deep a b (hwfs1 a ha) (hwfs2 b hb) e) heq
  · simp only [bcountGate, beq_iff_eq]
    have := R'.keys_perm.length_eq
    simpa using this.symm

/-- general form of `iso_relabel`: on a relabelled, reordered copy the answer is never `false` -/
theorem iso_relabel_gen (deep : Bool) (sort : List Quad → List Quad) (hs : SortSpec (quadCmp deep) sort)
    (h : List Ev → UInt64) (fuel : Nat) (β : Str → Str) (D1 D2 : List Quad) (hwf : ∀ q ∈ D1, WFq q)
    (R : Relabelled β D1 D2) (hinv : BlankInv deep β D1) : iso deep sort h fuel D1 D2 ≠ some false := by
  rw [iso_of_gates _ _ _ _ _ _ (gates_relabel_gen deep sort hs β D1 D2 hwf R hinv)]
  have R' : Relabelled β (sort D1) (sort D2) := by
    refine ⟨?_, ((hs.perm D2).trans R.perm).trans ((hs.perm D1).map _).symm⟩
    intro a ha b hb
    exact R.inj a (((hs.perm D1).flatMap_right quadBnodes).mem_iff.1 ha) b (((hs.perm D1).flatMap_right quadBnodes).mem_iff.1 hb)
  exact R'.refine_ne_false h fuel _ _ 0 0 (keys_initMap _) (keys_initMap _) (fun c hc => R'.colour_init c hc)

theorem blank_true_relabel (β : Str → Str) (t : Term) : blank true (relabel β t) = blank true t := by
  induction t with
  | triple s p o ihs ihp iho => simp [relabel, blank, ihs, ihp, iho]
  | _ => simp [relabel, blank]

theorem blankInv_deep (β : Str → Str) (D : List Quad) : BlankInv true β D := by
  intro q _
  simp only [relabelQ, mapQ, blank_true_relabel, Quad.mk.injEq, true_and]
  cases q.g <;> simp [blank_true_relabel]

/-- The full statement of the property's first clause for a given variant of `IsoTerm`: a dataset
compared with any copy of itself whose blank nodes have been renamed by a bijection — wherever they
occur — and whose statements have been reordered, is never answered `false`
(partial correctness: for every sort meeting `SortSpec`, every hash function, every fuel). -/
def IsoRelabel (deep : Bool) : Prop :=
  ∀ (sort : List Quad → List Quad), SortSpec (quadCmp deep) sort → ∀ (h : List Ev → UInt64) (fuel : Nat)
    (β : Str → Str) (D1 D2 : List Quad), (∀ q ∈ D1, WFq q) → Relabelled β D1 D2 →
    gates deep sort D1 D2 = true ∧ iso deep sort h fuel D1 D2 ≠ some false

/-- with `IsoTerm` recursing into quoted triples (what /repo has since fix 0aad566, see `repo_variant`) the full
statement holds -/
theorem iso_relabel : IsoRelabel true :=
  fun sort hs h fuel β D1 D2 hwf R =>
    ⟨gates_relabel_gen true sort hs β D1 D2 hwf R (blankInv_deep β D1),
     iso_relabel_gen true sort hs h fuel β D1 D2 hwf R (blankInv_deep β D1)⟩

/-- The `IsoTerm` variant regenerated from /repo's iso_term.rs (tools/extractors/c07.py) is the recursive one.
If the source regresses to the top-level-only comparison the extractor emits `deep := false` and this
obligation fails. -/
theorem repo_variant : Gen.IsoVariant.deep = true := by decide

/-- the first clause of the property, full statement, for the variant /repo has -/
theorem iso_relabel_repo : IsoRelabel Gen.IsoVariant.deep := repo_variant ▸ iso_relabel

/-- "answers true", as far as partial correctness goes: on a relabelled, reordered copy every answer the
loop gives — at whatever fuel — is `true` -/
theorem iso_relabel_answers_true (sort : List Quad → List Quad) (hs : SortSpec (quadCmp Gen.IsoVariant.deep) sort)
    (h : List Ev → UInt64) (fuel : Nat) (β : Str → Str) (D1 D2 : List Quad) (hwf : ∀ q ∈ D1, WFq q)
    (R : Relabelled β D1 D2) (b : Bool) (hb : iso Gen.IsoVariant.deep sort h fuel D1 D2 = some b) : b = true := by
  cases b
  · exact absurd hb (iso_relabel_repo sort hs h fuel β D1 D2 hwf R).2
  · rfl

/-- `β` leaves alone every blank node that occurs *inside a quoted triple* of `D` (in particular: no blank
node occurs inside a quoted triple) -/
def NestedFixed (β : Str → Str) (D : List Quad) : Prop :=
  ∀ q ∈ D, ∀ t ∈ iterSpog q, ∀ s p o, t = .triple s p o → ∀ c ∈ tBnodes t, β c = c

theorem relabel_eq_self (β : Str → Str) (t : Term) (h : ∀ c ∈ tBnodes t, β c = c) : relabel β t = t := by
  induction t with
  | bnode b => simp [relabel, h b (by simp [tBnodes, constituents, bnodeId])]
  | triple s p o ihs ihp iho =>
    rw [tBnodes_triple] at h
    simp [relabel, ihs (fun c hc => h c (by simp [hc])), ihp (fun c hc => h c (by simp [hc])),
      iho (fun c hc => h c (by simp [hc]))]
  | _ => simp [relabel]

theorem blank_relabel_of_fixed (deep : Bool) (β : Str → Str) (t : Term)
    (h : ∀ s p o, t = .triple s p o → ∀ c ∈ tBnodes t, β c = c) : blank deep (relabel β t) = blank deep t := by
  cases t with
  | triple s p o => rw [relabel_eq_self β _ (h s p o rfl)]
  | _ => simp [relabel, blank]

theorem blankInv_of_nestedFixed (deep : Bool) (β : Str → Str) (D : List Quad) (hn : NestedFixed β D) :
    BlankInv deep β D := by
  intro q hq
  have e := fun t ht => blank_relabel_of_fixed deep β t (hn q hq t ht)
  simp only [relabelQ, mapQ, Quad.mk.injEq]
  refine ⟨e _ (by simp [iterSpog]), e _ (by simp [iterSpog]), e _ (by simp [iterSpog]), ?_⟩
  cases hg : q.g with
  | none => rfl
  | some g => simp [e g (by simp [iterSpog, hg])]

/-- what holds of *either* variant of `IsoTerm` (in particular of the top-level-only one /repo had before fix
0aad566): no false negative when the renaming leaves alone the blank nodes inside quoted triples.
Full statement for that variant: `IsoRelabel false`, refuted below (`iso_relabel_fails_shallow`). -/
theorem iso_relabel_partial (deep : Bool) (sort : List Quad → List Quad) (hs : SortSpec (quadCmp deep) sort)
    (h : List Ev → UInt64) (fuel : Nat) (β : Str → Str) (D1 D2 : List Quad) (hwf : ∀ q ∈ D1, WFq q)
    (R : Relabelled β D1 D2) (hn : NestedFixed β D1) :
    gates deep sort D1 D2 = true ∧ iso deep sort h fuel D1 D2 ≠ some false :=
  ⟨gates_relabel_gen deep sort hs β D1 D2 hwf R (blankInv_of_nestedFixed deep β D1 hn),
   iso_relabel_gen deep sort hs h fuel β D1 D2 hwf R (blankInv_of_nestedFixed deep β D1 hn)⟩

/-! ### the oracle of the differential check is covered by the theorems -/

theorem mem_distinct (l : List Str) (x : Str) : x ∈ IsoOracle.distinct l ↔ x ∈ l := by
  induction l with
  | nil => simp [IsoOracle.distinct]
  | cons a l ih =>
    simp only [IsoOracle.distinct]
    split
    · rename_i hc
      simp only [List.contains_iff_mem] at hc
      rw [ih, List.mem_cons]
      constructor
      · exact Or.inr
      · rintro (rfl | h)
        · exact hc
        · exact h
    · simp [ih]

theorem nodup_distinct (l : List Str) : (IsoOracle.distinct l).Nodup := by
  induction l with
  | nil => simp [IsoOracle.distinct]
  | cons a l ih =>
    simp only [IsoOracle.distinct]
    split
    · exact ih
    · rename_i hc
      simp only [List.contains_iff_mem] at hc
      exact List.nodup_cons.2 ⟨fun h => hc ((mem_distinct l a).1 h), ih⟩

theorem distinct_length (l : List Str) : (IsoOracle.distinct l).length = l.dedup.length := by
  apply List.Perm.length_eq
  rw [List.perm_ext_iff_of_nodup (nodup_distinct l) (List.nodup_dedup l)]
  intro x
  rw [mem_distinct, List.mem_dedup]

theorem oracle_labels_length (D : List Quad) : (IsoOracle.labels D).length = bnodeCount D := by
  simp [IsoOracle.labels, bnodeCount, labels, distinct_length]

theorem normT_eq (t : Term) : IsoOracle.normT t = C02.norm t := by
  induction t with
  | triple s p o ihs ihp iho => simp [IsoOracle.normT, C02.norm, ihs, ihp, iho]
  | _ => simp [IsoOracle.normT, C02.norm]

theorem blankT_eq (t : Term) : IsoOracle.blankT t = blank true t := by
  induction t with
  | triple s p o ihs ihp iho => simp [IsoOracle.blankT, blank, ihs, ihp, iho]
  | _ => simp [IsoOracle.blankT, blank]

theorem oracle_blanked (D : List Quad) :
    D.map (IsoOracle.mapQ (fun t => IsoOracle.normT (IsoOracle.blankT t))) = blanked D := by
  simp only [blanked]
  apply List.map_congr_left
  intro q _
  cases hg : q.g <;> simp [IsoOracle.mapQ, mapQ, canon, normT_eq, blankT_eq, hg]

/-- **`o.iso=0` is sound**: whenever the driver's oracle says "must be false" (sizes, blank node counts or
blanked-out statements differ), the model answers `false` — for every `IsoTerm` variant, every sort returning
a permutation, every hash function, every fuel. -/
theorem groundDiffers_sound (deep : Bool) (sort : List Quad → List Quad) (hperm : ∀ l, (sort l).Perm l)
    (h : List Ev → UInt64) (fuel : Nat) (D1 D2 : List Quad) (hg : IsoOracle.groundDiffers D1 D2 = true) :
    iso deep sort h fuel D1 D2 = some false := by
  simp only [IsoOracle.groundDiffers, Bool.or_eq_true, bne_iff_ne, ne_eq, Bool.not_eq_true',
    oracle_labels_length, oracle_blanked] at hg
  rcases hg with (hg | hg) | hg
  · exact iso_false_size deep sort h fuel D1 D2 hg
  · exact iso_false_bcount deep sort hperm h fuel D1 D2 hg
  · refine iso_false_ground deep sort hperm h fuel D1 D2 ?_
    rw [← List.isPerm_iff]; simp [hg]

theorem relabelT_eq (β : List (Str × Str)) (t : Term) : IsoOracle.relabelT β t = relabel (IsoOracle.applyβ β) t := by
  induction t with
  | triple s p o ihs ihp iho => simp [IsoOracle.relabelT, relabel, ihs, ihp, iho]
  | _ => simp [IsoOracle.relabelT, relabel]

theorem length_distinct_le (l : List Str) : (IsoOracle.distinct l).length ≤ l.length := by
  induction l with
  | nil => simp [IsoOracle.distinct]
  | cons a l ih =>
    simp only [IsoOracle.distinct]
    split <;> simp <;> omega

theorem nodup_of_distinct_length (l : List Str) (h : (IsoOracle.distinct l).length = l.length) : l.Nodup := by
  induction l with
  | nil => simp
  | cons a l ih =>
    simp only [IsoOracle.distinct] at h
    split at h
    · have := length_distinct_le l
      simp at h; omega
    · rename_i hc
      simp only [List.contains_iff_mem] at hc
      simp only [List.length_cons, Nat.add_right_cancel_iff] at h
      exact List.nodup_cons.2 ⟨hc, ih h⟩

/-- the certificate test of the oracle establishes the hypothesis `Relabelled` of `iso_relabel` -/
theorem relabelled_of_certOk (β : List (Str × Str)) (D1 D2 : List Quad) (hc : IsoOracle.certOk β D1 D2 = true) :
    Relabelled (IsoOracle.applyβ β) D1 D2 := by
  simp only [IsoOracle.certOk, Bool.and_eq_true, beq_iff_eq, List.isPerm_iff] at hc
  obtain ⟨hl, hp⟩ := hc
  refine ⟨?_, ?_⟩
  · have hn := nodup_of_distinct_length ((IsoOracle.labels D1).map (IsoOracle.applyβ β)) (by rw [hl, List.length_map])
    intro a ha b hb e
    have ha' : a ∈ IsoOracle.labels D1 := (mem_distinct _ a).2 ha
    have hb' : b ∈ IsoOracle.labels D1 := (mem_distinct _ b).2 hb
    exact List.inj_on_of_nodup_map hn ha' hb' e
  · refine hp.symm.trans (List.Perm.of_eq ?_)
    apply List.map_congr_left
    intro q _
    simp only [IsoOracle.mapQ, relabelQ, mapQ, relabelT_eq]
    cases q.g <;> simp [relabelT_eq]

theorem wfq_of_wfQ (D : List Quad) (h : D.all IsoOracle.wfQ = true) : ∀ q ∈ D, WFq q := by
  intro q hq
  have := List.all_eq_true.1 h q hq
  simp only [IsoOracle.wfQ, Bool.and_eq_true] at this
  refine ⟨this.1.1.1, this.1.1.2, this.1.2, ?_⟩
  intro g hg
  simpa [hg] using this.2

/-- **`o.iso=1` is sound**: whenever the driver's oracle says "must be true" (the request carries a verified
renaming certificate), the model — with the `IsoTerm` variant /repo has — passes all three gates and never
answers `false`. -/
theorem certOk_sound (sort : List Quad → List Quad) (hs : SortSpec (quadCmp Gen.IsoVariant.deep) sort)
    (h : List Ev → UInt64) (fuel : Nat) (β : List (Str × Str)) (D1 D2 : List Quad) (hwf : D1.all IsoOracle.wfQ = true)
    (hc : IsoOracle.certOk β D1 D2 = true) :
    gates Gen.IsoVariant.deep sort D1 D2 = true ∧ iso Gen.IsoVariant.deep sort h fuel D1 D2 ≠ some false :=
  iso_relabel_repo sort hs h fuel _ D1 D2 (wfq_of_wfQ D1 hwf) (relabelled_of_certOk β D1 D2 hc)

/-! ### the former `IsoTerm` (`deep = false`, before fix 0aad566) refutes the full statement: 1-quad witness
(kept as the record of the repaired defect; no longer counted among the obligations) -/

/-- `<< _:a <x:p> <x:o> >> <x:p> <x:o> .` -/
def witnessD (b : String) : List Quad :=
  [⟨.triple (.bnode b.toList) (.iri "x:p".toList) (.iri "x:o".toList), .iri "x:p".toList, .iri "x:o".toList, none⟩]

def witnessβ (s : Str) : Str := if s = "a".toList then "b".toList else if s = "b".toList then "a".toList else s

theorem witness_relabelled : Relabelled witnessβ (witnessD "a") (witnessD "b") := by
  refine ⟨?_, List.Perm.of_eq (by decide)⟩
  intro a ha b hb _
  have e : labels (witnessD "a") = ["a".toList] := by decide
  rw [e] at ha hb
  simp only [List.mem_singleton] at ha hb
  rw [ha, hb]

theorem witness_gates : gates false (isort false) (witnessD "a") (witnessD "b") = false := by decide

/-- kernel-checked false negative of the snapshot's algorithm: a one-statement graph against itself with
the blank node inside the quoted triple renamed is answered `false`, for every hash function and fuel -/
theorem iso_relabel_witness (h : List Ev → UInt64) (fuel : Nat) :
    iso false (isort false) h fuel (witnessD "a") (witnessD "b") = some false :=
  iso_false_of_gates _ _ _ _ _ _ witness_gates

theorem iso_relabel_fails_shallow : ¬ IsoRelabel false := by
  intro hfull
  have := hfull (isort false) (isort_spec false) mixHash 1 witnessβ (witnessD "a") (witnessD "b")
    (by intro q hq
        simp only [witnessD, List.mem_singleton] at hq
        subst hq
        refine ⟨by decide, by decide, by decide, by intro g hg; simp at hg⟩)
    witness_relabelled
  rw [witness_gates] at this
  exact absurd this.1 (by simp)

/-! ### total correctness: "answers true" -/

/-- The first clause of the property at full strength: on a relabelled, reordered copy the call *returns* `true`
(for some number of rounds), whatever the sort and the hash function. -/
def IsoRelabelTotal (deep : Bool) : Prop :=
  ∀ (sort : List Quad → List Quad), SortSpec (quadCmp deep) sort → ∀ (h : List Ev → UInt64)
    (β : Str → Str) (D1 D2 : List Quad), (∀ q ∈ D1, WFq q) → Relabelled β D1 D2 →
    ∃ fuel, iso deep sort h fuel D1 D2 = some true

theorem iso_relabel_total_gen (deep : Bool) (sort : List Quad → List Quad) (hs : SortSpec (quadCmp deep) sort)
    (h : List Ev → UInt64) (fuel : Nat) (β : Str → Str) (D1 D2 : List Quad) (hwf : ∀ q ∈ D1, WFq q)
    (R : Relabelled β D1 D2) (hinv : BlankInv deep β D1)
    (hm : monoRun h (sort D1) (makeB2q (sort D1)) fuel (initMap (makeB2q (sort D1))) 0 = true)
    (hf : 2 * bnodeCount D1 < fuel) : iso deep sort h fuel D1 D2 = some true := by
  have hg := gates_relabel_gen deep sort hs β D1 D2 hwf R hinv
  have hne := iso_relabel_gen deep sort hs h fuel β D1 D2 hwf R hinv
  rw [iso_of_gates _ _ _ _ _ _ hg] at hne ⊢
  have R' : Relabelled β (sort D1) (sort D2) := by
    refine ⟨?_, ((hs.perm D2).trans R.perm).trans ((hs.perm D1).map _).symm⟩
    intro a ha b hb
    exact R.inj a (((hs.perm D1).flatMap_right quadBnodes).mem_iff.1 ha) b (((hs.perm D1).flatMap_right quadBnodes).mem_iff.1 hb)
  have hm2 := R'.monoRun_transfer h fuel _ _ 0 (keys_initMap _) (keys_initMap _) (fun c hc => R'.colour_init c hc) hm
  have l1 := b2q_length sort hs.perm D1
  have l2 : (makeB2q (sort D2)).length = bnodeCount D1 := by
    simp only [gates, Bool.and_eq_true, bcountGate, beq_iff_eq] at hg
    rw [← hg.2, l1]
  obtain ⟨b, hb⟩ := refine_terminates h (sort D1) (sort D2) _ _ fuel _ _ 0 0 hm hm2 (Nat.zero_le _) (Nat.zero_le _)
    (by rw [l1, l2]; omega)
  rw [hb] at hne ⊢
  cases b
  · exact absurd rfl hne
  · rfl

/-- **"Answers true" as a theorem** for the `IsoTerm` variant /repo has: a dataset compared with a copy whose
blank nodes are renamed by an injective map (anywhere) and whose statements are reordered is answered `true`
within `2·(number of blank nodes) + 1` rounds — provided the number of colour classes of the first argument never
decreases from one round to the next (`monoRun`, an executable test the driver evaluates on every request).
What is missing for `IsoRelabelTotal`: that proviso, which no property of an *arbitrary* hash function can
supply (`iso_relabel_total_fails`); for SipHash it is an empirical fact of the run. -/
theorem iso_relabel_total_partial (sort : List Quad → List Quad) (hs : SortSpec (quadCmp Gen.IsoVariant.deep) sort)
    (h : List Ev → UInt64) (fuel : Nat) (β : Str → Str) (D1 D2 : List Quad) (hwf : ∀ q ∈ D1, WFq q)
    (R : Relabelled β D1 D2)
    (hm : monoRun h (sort D1) (makeB2q (sort D1)) fuel (initMap (makeB2q (sort D1))) 0 = true)
    (hf : 2 * bnodeCount D1 < fuel) : iso Gen.IsoVariant.deep sort h fuel D1 D2 = some true := by
  have hinv : BlankInv Gen.IsoVariant.deep β D1 := by rw [repo_variant]; exact blankInv_deep β D1
  exact iso_relabel_total_gen _ sort hs h fuel β D1 D2 hwf R hinv hm hf

/-! ### "held in a different container" -/

/-- what `prepare_dataset` sees of a container: some enumeration of its statements, each once, in the container's
own order (`Vec`: insertion order; `HashSet`/`BTreeSet`/`FastDataset`/…: hash, tree or index order).  This is the
whole container contract the isomorphism test relies on; the harness checks it on every request
(`skip=container_content_differs` otherwise). -/
def Enumerates (enum : List Quad → List Quad) : Prop := ∀ D, (enum D).Perm D

theorem Relabelled.of_perm {β : Str → Str} {D1 D2 E1 E2 : List Quad} (R : Relabelled β D1 D2)
    (p1 : E1.Perm D1) (p2 : E2.Perm D2) : Relabelled β E1 E2 := by
  refine ⟨?_, (p2.trans R.perm).trans (p1.map _).symm⟩
  intro a ha b hb
  exact R.inj a ((p1.flatMap_right quadBnodes).mem_iff.1 ha) b ((p1.flatMap_right quadBnodes).mem_iff.1 hb)

/-- the first clause with the containers made explicit: whatever the two containers' iteration orders, a
relabelled copy passes the gates, is never answered `false`, and — under the class-count proviso — is answered
`true` within `2n+1` rounds -/
theorem iso_relabel_any_container (enum1 enum2 : List Quad → List Quad) (he1 : Enumerates enum1) (he2 : Enumerates enum2)
    (sort : List Quad → List Quad) (hs : SortSpec (quadCmp Gen.IsoVariant.deep) sort) (h : List Ev → UInt64)
    (fuel : Nat) (β : Str → Str) (D1 D2 : List Quad) (hwf : ∀ q ∈ D1, WFq q) (R : Relabelled β D1 D2) :
    gates Gen.IsoVariant.deep sort (enum1 D1) (enum2 D2) = true ∧
    iso Gen.IsoVariant.deep sort h fuel (enum1 D1) (enum2 D2) ≠ some false ∧
    (monoRun h (sort (enum1 D1)) (makeB2q (sort (enum1 D1))) fuel (initMap (makeB2q (sort (enum1 D1)))) 0 = true →
      2 * bnodeCount D1 < fuel → iso Gen.IsoVariant.deep sort h fuel (enum1 D1) (enum2 D2) = some true) := by
  have R' := Relabelled.of_perm R (he1 D1) (he2 D2)
  have hwf' : ∀ q ∈ enum1 D1, WFq q := fun q hq => hwf q ((he1 D1).subset hq)
  obtain ⟨hg, hne⟩ := iso_relabel_repo sort hs h fuel β _ _ hwf' R'
  refine ⟨hg, hne, fun hm hf => ?_⟩
  refine iso_relabel_total_partial sort hs h fuel β _ _ hwf' R' hm ?_
  have : bnodeCount (enum1 D1) = bnodeCount D1 := by
    simp only [bnodeCount]
    apply List.Perm.length_eq
    exact (((he1 D1).flatMap_right quadBnodes)).dedup
  omega

example : Enumerates id ∧ Enumerates List.reverse ∧ Enumerates (isort true) :=
  ⟨fun _ => List.Perm.refl _, fun D => List.reverse_perm D, isort_perm true⟩

/-! ### fallible containers -/

/-- an answer is given exactly when neither traversal fails, and then it is the answer of `iso`: every theorem
above transfers to `isomorphic_datasets` on fallible containers that do not fail -/
theorem isoE_answer_iff (deep : Bool) (sort : List Quad → List Quad) (h : List Ev → UInt64) (fuel : Nat)
    (f1 f2 : Option Nat) (D1 D2 : List Quad) (r : Option Bool) :
    isoE deep sort h fuel f1 f2 D1 D2 = .answer r ↔
      fails f1 D1 = false ∧ fails f2 D2 = false ∧ r = iso deep sort h fuel D1 D2 := by
  simp only [isoE]
  cases fails f1 D1 <;> cases fails f2 D2 <;> simp [eq_comm]

/-- a failing first argument is reported as `SourceError` whatever the second does; a failing second argument as
`SinkError` only if the first one was traversed completely -/
theorem isoE_error_iff (deep : Bool) (sort : List Quad → List Quad) (h : List Ev → UInt64) (fuel : Nat)
    (f1 f2 : Option Nat) (D1 D2 : List Quad) :
    (isoE deep sort h fuel f1 f2 D1 D2 = .sourceError ↔ fails f1 D1 = true) ∧
    (isoE deep sort h fuel f1 f2 D1 D2 = .sinkError ↔ fails f1 D1 = false ∧ fails f2 D2 = true) := by
  simp only [isoE]
  cases fails f1 D1 <;> cases fails f2 D2 <;> simp

/-- symmetry extends to fallible containers: exchanging the arguments exchanges `SourceError` and `SinkError`
(when only one side fails) and leaves an answer unchanged -/
theorem isoE_symm (deep : Bool) (sort : List Quad → List Quad) (h : List Ev → UInt64) (fuel : Nat)
    (f1 f2 : Option Nat) (D1 D2 : List Quad) (hx : (fails f1 D1 && fails f2 D2) = false) :
    isoE deep sort h fuel f2 f1 D2 D1 =
      (match isoE deep sort h fuel f1 f2 D1 D2 with
       | .sourceError => .sinkError
       | .sinkError => .sourceError
       | .answer r => .answer r) := by
  simp only [isoE]
  cases h1 : fails f1 D1 <;> cases h2 : fails f2 D2 <;> simp [h1, h2] at hx ⊢
  exact iso_symm deep sort h fuel D2 D1

example : isoE true (isort true) (fun _ => 0) 2 (some 0) (some 0) (witnessD "a") (witnessD "b") = .sourceError ∧
    isoE true (isort true) (fun _ => 0) 2 (some 1) (some 0) (witnessD "a") (witnessD "b") = .sinkError ∧
    isoE true (isort true) (fun _ => 0) 2 (some 1) none (witnessD "a") (witnessD "b") = .answer (some true) := by decide

/-! ### the proviso is necessary: an adversarial hash function under which the loop never stops -/

/-- three blank nodes, one statement each; `a` is told apart from `b`, `c` by its predicate only -/
def divD : List Quad :=
  [⟨.bnode "a".toList, .iri "x:p".toList, .lit "l".toList "x:d".toList, none⟩,
   ⟨.bnode "b".toList, .iri "x:q".toList, .lit "l".toList "x:d".toList, none⟩,
   ⟨.bnode "c".toList, .iri "x:q".toList, .lit "m".toList "x:d".toList, none⟩]

/-- a function of the event trace that looks at the colour fed to it and at the predicate only:
colour 1 ↦ 5; colour 5 ↦ 6 for `a`, 7 for `b`, `c`; anything else ↦ 5.  The class count then alternates 1, 2, 1, 2, … -/
def hAdv (evs : List Ev) : UInt64 :=
  let v := (evs.filterMap (fun e => match e with | .col v => some v | _ => none)).headD 0
  if v == 1 then 5 else if v == 5 then (if evs.contains (.t (.str "x:p".toList)) then 6 else 7) else 5

def divB : B2Q := makeB2q (isort true divD)
def divA1 : CMap := makeMap hAdv (isort true divD) divB (initMap divB)
def divA2 : CMap := makeMap hAdv (isort true divD) divB divA1

theorem div_step1 : makeMap hAdv (isort true divD) divB divA1 = divA2 := rfl
theorem div_step2 : makeMap hAdv (isort true divD) divB divA2 = divA1 := by decide
theorem div_len1 : (eqClasses divA1).length = 1 := by decide
theorem div_len2 : (eqClasses divA2).length = 2 := by decide
theorem div_mlen1 : divA1.length = 3 := by decide
theorem div_mlen2 : divA2.length = 3 := by decide

theorem refine_diverges_aux (fuel : Nat) :
    refine hAdv (isort true divD) (isort true divD) divB divB fuel divA1 divA1 1 1 = none ∧
    refine hAdv (isort true divD) (isort true divD) divB divB fuel divA2 divA2 2 2 = none := by
  induction fuel with
  | zero => exact ⟨rfl, rfl⟩
  | succ fuel ih =>
    constructor
    · simp only [refine, div_step1, div_len2, div_mlen2]
      simpa using ih.2
    · simp only [refine, div_step2, div_len1, div_mlen1]
      simpa using ih.1

/-- kernel-checked non-termination: with `hAdv` for the hash the loop gives no answer at any fuel, on a dataset
compared with itself -/
theorem refine_diverges (fuel : Nat) : iso true (isort true) hAdv fuel divD divD = none := by
  rw [iso_of_gates _ _ _ _ _ _ (by decide : gates true (isort true) divD divD = true)]
  cases fuel with
  | zero => rfl
  | succ fuel =>
    show refine hAdv (isort true divD) (isort true divD) divB divB (fuel + 1) (initMap divB) (initMap divB) 0 0 = none
    simp only [refine]
    have e : makeMap hAdv (isort true divD) divB (initMap divB) = divA1 := rfl
    simp only [e, div_len1, div_mlen1]
    simpa using (refine_diverges_aux fuel).1

/-- hence total correctness does not follow from the abstraction "the hasher is some function of what is fed to
it": the class-count proviso of `iso_relabel_total_partial` (or another property of SipHash's run) is needed -/
theorem iso_relabel_total_fails : ¬ IsoRelabelTotal Gen.IsoVariant.deep := by
  rw [repo_variant]
  intro hall
  obtain ⟨fuel, hf⟩ := hall (isort true) (isort_spec true) hAdv id divD divD
    (by intro q hq
        simp only [divD, List.mem_cons, List.not_mem_nil, or_false] at hq
        rcases hq with rfl | rfl | rfl <;> exact ⟨by decide, by decide, by decide, by intro g hg; simp at hg⟩)
    ⟨fun a _ b _ e => e, List.Perm.of_eq (by decide)⟩
  rw [refine_diverges] at hf
  exact absurd hf (by simp)

/-- the same for exactly the certificate test of the differential oracle -/
theorem certOk_answers_true (sort : List Quad → List Quad) (hs : SortSpec (quadCmp Gen.IsoVariant.deep) sort)
    (h : List Ev → UInt64) (fuel : Nat) (β : List (Str × Str)) (D1 D2 : List Quad) (hwf : D1.all IsoOracle.wfQ = true)
    (hc : IsoOracle.certOk β D1 D2 = true)
    (hm : monoRun h (sort D1) (makeB2q (sort D1)) fuel (initMap (makeB2q (sort D1))) 0 = true)
    (hf : 2 * bnodeCount D1 < fuel) : iso Gen.IsoVariant.deep sort h fuel D1 D2 = some true :=
  iso_relabel_total_partial sort hs h fuel _ D1 D2 (wfq_of_wfQ D1 hwf) (relabelled_of_certOk β D1 D2 hc) hm hf

/-! ### non-vacuity -/

-- the sort hypothesis is satisfiable: the driver's insertion sort meets it
example (deep : Bool) : SortSpec (quadCmp deep) (isort deep) := isort_spec deep
-- `Relabelled`/`NestedFixed`/`WFq` are jointly satisfiable by a dataset with a blank graph name, a blank node
-- at top level and a (fixed) one inside a quoted triple
example : ∃ (β : Str → Str) (D1 D2 : List Quad), Relabelled β D1 D2 ∧ NestedFixed β D1 ∧ (∀ q ∈ D1, WFq q) ∧
    D1 ≠ D2 ∧ ∃ q ∈ D1, ∃ t ∈ iterSpog q, tBnodes t ≠ [] ∧ ∃ s p o, t = .triple s p o := by
  let D1 : List Quad := [⟨.bnode "a".toList, .iri "x:p".toList,
      .triple (.bnode "c".toList) (.iri "x:p".toList) (.lang "chat".toList "EN".toList), some (.bnode "b".toList)⟩]
  refine ⟨witnessβ, D1, D1.map (relabelQ witnessβ), ⟨?_, List.Perm.refl _⟩, ?_, ?_, by decide, ?_⟩
  · intro a ha b hb
    have e : labels D1 = ["a".toList, "c".toList, "b".toList] := by decide
    rw [e] at ha hb
    simp only [List.mem_cons, List.not_mem_nil, or_false] at ha hb
    rcases ha with rfl | rfl | rfl <;> rcases hb with rfl | rfl | rfl <;> decide
  · intro q hq t ht s p o e c hc
    simp only [D1, List.mem_singleton] at hq
    subst hq
    simp only [iterSpog, Option.toList, List.cons_append, List.nil_append, List.mem_cons, List.not_mem_nil, or_false] at ht
    rcases ht with rfl | rfl | rfl | rfl <;> simp at e
    obtain ⟨rfl, rfl, rfl⟩ := e
    have : tBnodes (.triple (.bnode "c".toList) (.iri "x:p".toList) (.lang "chat".toList "EN".toList)) = ["c".toList] := by
      decide
    rw [this] at hc
    simp only [List.mem_singleton] at hc
    subst hc; decide
  · intro q hq
    simp only [D1, List.mem_singleton] at hq
    subst hq
    exact ⟨by decide, by decide, by decide, by intro g hg; simp at hg; subst hg; decide⟩
  · exact ⟨_, List.mem_singleton.2 rfl,
      .triple (.bnode "c".toList) (.iri "x:p".toList) (.lang "chat".toList "EN".toList), by simp [iterSpog],
      by decide, _, _, _, rfl⟩
-- the hypotheses of the three "false" clauses are satisfiable
example : bnodeCount (witnessD "a") ≠ bnodeCount [] := by decide
example : ¬ (blanked (witnessD "a")).Perm (blanked [⟨.iri "x:s".toList, .iri "x:p".toList, .iri "x:o".toList, none⟩]) := by
  rw [← List.isPerm_iff]; decide

-- the oracle's certificate test is satisfiable with a renaming that moves a blank node inside a quoted triple,
-- and its "must be false" test by a pair differing in one split blank node (same size, same blanked statements)
example : IsoOracle.certOk [("a".toList, "b".toList), ("b".toList, "a".toList)] (witnessD "a") (witnessD "b") = true ∧
    (witnessD "a").all IsoOracle.wfQ = true := by decide
example : IsoOracle.groundDiffers
    [⟨.bnode "a".toList, .iri "x:p".toList, .bnode "a".toList, some (.bnode "a".toList)⟩]
    [⟨.bnode "a".toList, .iri "x:p".toList, .bnode "b".toList, some (.bnode "a".toList)⟩] = true := by decide
-- `iso_fuel_mono` / `iso_relabel_answers_true` are not vacuous: the loop does answer (here with a constant hash, at fuel 2)
example : iso true (isort true) (fun _ => 0) 2 (witnessD "a") (witnessD "b") = some true := by decide

-- the proviso is satisfiable (and the bound attained): constant hash, witness pair
example : monoRun (fun _ => 0) (isort true (witnessD "a")) (makeB2q (isort true (witnessD "a"))) 3
    (initMap (makeB2q (isort true (witnessD "a")))) 0 = true ∧ 2 * bnodeCount (witnessD "a") < 3 := by decide
-- and it fails on the divergence witness
example : monoRun hAdv (isort true divD) divB 3 (initMap divB) 0 = false := by decide

end SophiaProofs.C07
