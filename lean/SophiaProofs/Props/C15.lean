/-
C15 — streams deliver exactly the prefix before a failure and blame the right side.

All theorems are about the definitions the driver `smd_C15` executes (`SophiaModel.Source.*`):
`tryForEachItem`, `stepwise`, `forEachItem`, `insertAll`, `removeAll` on `applyChain c S` for the
iterator source `iterSource` and the Rio-like batch source `rioSource`.  They hold for every item
list / script of steps, every adapter chain `c : List Adapter` (any depth: induction on the chain in
`applyChain_tryForSome`, induction on the script in `loop_spec`), every callback with any captured
state, every fault position.  `chainItems c xs = xs.filterMap (chainFn c)` is what the chain means.
-/
import SophiaProofs.Lemmas.Source
import SophiaProofs.Lemmas.SourceIter
import SophiaProofs.Lemmas.SourceGeneric
import SophiaModel.Model.SourceText
import SophiaModel.Gen.SourceShapes

namespace SophiaProofs.C15
open SophiaModel SophiaModel.Source SophiaProofs.SourceLemmas

variable {ε κ εk : Type}

/-! ## The general statement: a whole run is *exactly* its specification -/

/-- Rio-like source with any batch structure, any chain, any callback (with any state):
the callback is fed precisely `chainItems c (items delivered up to the first failing step)`,
in order, until it fails; a callback failure is a `SinkError` carrying the callback's error, else
a failing step is a `SourceError` carrying the step's error, else `Ok(())`. -/
theorem run_spec (c : List Adapter) (f : Sink κ Item εk) (sc : List (Ev Item ε)) (k : κ) :
    (tryForEachItem (applyChain c rioSource) f sc k).2 =
      specResult f k (chainItems c (Ev.itemsOf sc)) (Ev.errorOf sc) := by
  unfold tryForEachItem
  rw [applyChain_fuel]
  exact loop_spec c f sc _ k (Nat.lt_succ_self _)

/-- the same for an iterator of `Result`s -/
theorem run_spec_iter (c : List Adapter) (f : Sink κ Item εk) (rs : List (Except ε Item)) (k : κ) :
    (tryForEachItem (applyChain c iterSource) f rs k).2 =
      specResult f k (chainItems c (Ev.itemsOf (rs.map Ev.ofResult))) (Ev.errorOf (rs.map Ev.ofResult)) := by
  unfold tryForEachItem
  rw [applyChain_fuel, iter_loop]
  exact loop_spec c f _ _ k (by simp [iterSource, ofStep])

/-- the `while` loops never run out of the fuel the model gives them -/
theorem fuel_suffices (c : List Adapter) (f : Sink κ Item εk) (sc : List (Ev Item ε)) (k : κ) :
    (tryForEachItem (applyChain c rioSource) f sc k).2.2 ≠ none := by
  rw [run_spec]
  unfold specResult
  rcases feed f k (chainItems c (Ev.itemsOf sc)) with ⟨k', r⟩
  cases r with
  | error e => simp
  | ok u => cases u; simp

/-- the oracle printed by the driver (`o.*` fields: the consumer run on `specSource`) is the
specification `specResult` -/
theorem specSource_spec {ι : Type} (f : Sink κ ι εk) (xs : List ι) (err : Option ε) (k : κ) :
    (tryForEachItem specSource f (some (xs, err)) k).2 = specResult f k xs err := by
  unfold tryForEachItem specResult
  simp only [specSource, tryForEachLoop]
  rcases feed f k xs with ⟨k', r⟩
  cases r with
  | error e => rfl
  | ok u =>
    cases u
    cases err <;> rfl

/-! ## `prefix_exact` -/

/-- source fault at item `k` (iterator `Ok(items[0..k]), Err(e), Ok(items[k..])`), any callback:
the run is the one of the specification on `chainItems c (items.take k)` -/
theorem prefix_exact_source_fault_any_sink (c : List Adapter) (f : Sink κ Item εk) (items : List Item)
    (k : Nat) (e : ε) (k0 : κ) :
    (tryForEachItem (applyChain c iterSource) f (faultAt items k e) k0).2 =
      specResult f k0 (chainItems c (items.take k)) (some e) := by
  rw [run_spec_iter, itemsOf_faultAt, errorOf_faultAt]

/-- source fault at item `k`, recording closure: it was called exactly on
`chainItems c (items.take k)`, in order, each once; the result is `SourceError(e)` -/
theorem prefix_exact_source_fault (c : List Adapter) (items : List Item) (k : Nat) (e : ε) (p : εk) :
    let r := tryForEachItem (applyChain c iterSource) (recSink none p) (faultAt items k e) ⟨[], 0⟩
    r.2.1.log = chainItems c (items.take k) ∧
    r.2.1.calls = (chainItems c (items.take k)).length ∧
    r.2.2 = some (.error (.source e)) := by
  simp only [prefix_exact_source_fault_any_sink, specResult, feed_recSink_none]
  simp

/-- sink fault on the `j`-th delivered item (counted from 0), no source fault, any batch structure:
the closure was called exactly on the first `j+1` items of `chainItems c items` (the last call
being the failing one); the result is `SinkError(p)` -/
theorem prefix_exact_sink_fault (c : List Adapter) (sc : List (Ev Item ε)) (j : Nat) (p : εk)
    (hj : j < (chainItems c (Ev.itemsOf sc)).length) :
    let r := tryForEachItem (applyChain c rioSource) (recSink (some j) p) sc ⟨[], 0⟩
    r.2.1.log = (chainItems c (Ev.itemsOf sc)).take (j + 1) ∧
    r.2.1.calls = j + 1 ∧
    r.2.2 = some (.error (.sink p)) := by
  simp only [run_spec, specResult]
  rw [feed_recSink_some p j ⟨[], 0⟩ _ (Nat.zero_le _) (by simpa using hj)]
  simp

/-- the iterator instance of `prefix_exact_sink_fault` -/
theorem prefix_exact_sink_fault_iter (c : List Adapter) (items : List Item) (j : Nat) (p : εk)
    (hj : j < (chainItems c items).length) :
    let r := tryForEachItem (applyChain c (iterSource (ε := ε))) (recSink (some j) p) (items.map .ok) ⟨[], 0⟩
    r.2.1.log = (chainItems c items).take (j + 1) ∧
    r.2.1.calls = j + 1 ∧
    r.2.2 = some (.error (.sink p)) := by
  simp only [run_spec_iter, specResult, itemsOf_allOk, errorOf_allOk]
  rw [feed_recSink_some p j ⟨[], 0⟩ _ (Nat.zero_le _) (by simpa using hj)]
  simp

/-! ## `nothing_after` — what follows the fault cannot influence the run -/

theorem itemsOf_append_of_error (sc sc' : List (Ev Item ε)) (h : (Ev.errorOf sc).isSome) :
    Ev.itemsOf (sc ++ sc') = Ev.itemsOf sc ∧ Ev.errorOf (sc ++ sc') = Ev.errorOf sc := by
  induction sc with
  | nil => simp [Ev.errorOf] at h
  | cons ev rest ih =>
    cases ev with
    | ok is =>
      have := ih (by simpa [Ev.errorOf] using h)
      simp [Ev.itemsOf, Ev.errorOf, this.1, this.2]
    | err is e => simp [Ev.itemsOf, Ev.errorOf]

theorem itemsOf_append_of_no_error (sc sc' : List (Ev Item ε)) (h : Ev.errorOf sc = none) :
    Ev.itemsOf (sc ++ sc') = Ev.itemsOf sc ++ Ev.itemsOf sc' := by
  induction sc with
  | nil => simp [Ev.itemsOf]
  | cons ev rest ih =>
    cases ev with
    | ok is =>
      have := ih (by simpa [Ev.errorOf] using h)
      simp [Ev.itemsOf, this]
    | err is e => simp [Ev.errorOf] at h

/-- whatever the source would have done after its failing step is irrelevant -/
theorem nothing_after_source_fault (c : List Adapter) (f : Sink κ Item εk) (sc sc' : List (Ev Item ε)) (k : κ)
    (h : (Ev.errorOf sc).isSome) :
    (tryForEachItem (applyChain c rioSource) f (sc ++ sc') k).2 =
      (tryForEachItem (applyChain c rioSource) f sc k).2 := by
  have := itemsOf_append_of_error sc sc' h
  rw [run_spec, run_spec, this.1, this.2]

/-- once the callback has failed, whatever the source holds further (items or errors) is
irrelevant: the callback is not called again and the result stays that `SinkError` -/
theorem nothing_after_sink_fault (c : List Adapter) (f : Sink κ Item εk) (sc sc' : List (Ev Item ε)) (k : κ)
    (e' : εk) (h : (feed f k (chainItems c (Ev.itemsOf sc))).2 = .error e') :
    (tryForEachItem (applyChain c rioSource) f (sc ++ sc') k).2 =
      (tryForEachItem (applyChain c rioSource) f sc k).2 := by
  rw [run_spec, run_spec]
  cases he : Ev.errorOf sc with
  | some e =>
    have := itemsOf_append_of_error sc sc' (by simp [he])
    rw [this.1, this.2, he]
  | none =>
    rw [itemsOf_append_of_no_error sc sc' he, chainItems_append]
    unfold specResult
    rw [feed_append]
    rcases hf : feed f k (chainItems c (Ev.itemsOf sc)) with ⟨k', r⟩
    rw [hf] at h
    cases r with
    | error e => rfl
    | ok u => cases h

/-- iterator form: two streams that agree before the fault position give the same run -/
theorem nothing_after_iter (c : List Adapter) (f : Sink κ Item εk) (items items' : List Item) (k : Nat)
    (e : ε) (k0 : κ) (h : items.take k = items'.take k) :
    (tryForEachItem (applyChain c iterSource) f (faultAt items k e) k0).2 =
      (tryForEachItem (applyChain c iterSource) f (faultAt items' k e) k0).2 := by
  rw [prefix_exact_source_fault_any_sink, prefix_exact_source_fault_any_sink, h]

/-! ## `blame_source` / `blame_sink` — side and payload, through every adapter -/

/-- the source's own error comes out as `SourceError` with the original value, whatever the chain,
provided the callback did not fail first -/
theorem blame_source (c : List Adapter) (f : Sink κ Item εk) (sc : List (Ev Item ε)) (k : κ) (e : ε)
    (he : Ev.errorOf sc = some e) (hs : (feed f k (chainItems c (Ev.itemsOf sc))).2 = .ok ()) :
    (tryForEachItem (applyChain c rioSource) f sc k).2.2 = some (.error (.source e)) := by
  rw [run_spec, he]
  unfold specResult
  rcases hf : feed f k (chainItems c (Ev.itemsOf sc)) with ⟨k', r⟩
  rw [hf] at hs
  cases r with
  | error e => cases hs
  | ok u => cases u; rfl

/-- the callback's error comes out as `SinkError` with the original value, whatever the chain and
whatever the source would have done later -/
theorem blame_sink (c : List Adapter) (f : Sink κ Item εk) (sc : List (Ev Item ε)) (k : κ) (e' : εk)
    (hs : (feed f k (chainItems c (Ev.itemsOf sc))).2 = .error e') :
    (tryForEachItem (applyChain c rioSource) f sc k).2.2 = some (.error (.sink e')) := by
  rw [run_spec]
  unfold specResult
  rcases hf : feed f k (chainItems c (Ev.itemsOf sc)) with ⟨k', r⟩
  rw [hf] at hs
  cases r with
  | error e => cases hs; rfl
  | ok u => cases hs

/-! ## `stepwise_eq_whole` -/

theorem stepwiseLoop_eq {σ ι : Type} (S : Source σ ι ε) (f : Sink κ ι εk) (n steps : Nat) (s : σ) (k : κ) :
    ((stepwiseLoop S f n steps s k).1, (stepwiseLoop S f n steps s k).2.1,
      (stepwiseLoop S f n steps s k).2.2.2) = tryForEachLoop S f n s k := by
  induction n generalizing steps s k with
  | zero => rfl
  | succ n ih =>
    simp only [stepwiseLoop, tryForEachLoop]
    rcases h : S.tryForSomeItem f s k with ⟨s', k', r⟩
    cases r with
    | error e => rfl
    | ok b =>
      cases b with
      | false => rfl
      | true => exact ih (steps + 1) s' k'

/-- for EVERY source (any `try_for_some_item`, so any adapter nesting): calling
`try_for_some_item` until `Ok(false)`/`Err` leaves the same source state, the same callback state
and the same result as `try_for_each_item` -/
theorem stepwise_eq_whole {σ ι : Type} (S : Source σ ι ε) (f : Sink κ ι εk) (s : σ) (k : κ) :
    ((stepwise S f s k).1, (stepwise S f s k).2.1, (stepwise S f s k).2.2.2) = tryForEachItem S f s k :=
  stepwiseLoop_eq S f _ 0 s k

/-! ## `no_fault_all` -/

/-- no failing step, callback never failing on what it is given: everything is delivered -/
theorem no_fault_all (c : List Adapter) (f : Sink κ Item εk) (sc : List (Ev Item ε)) (k : κ)
    (he : Ev.errorOf sc = none) (hs : (feed f k (chainItems c (Ev.itemsOf sc))).2 = .ok ()) :
    (tryForEachItem (applyChain c rioSource) f sc k).2 =
      ((feed f k (chainItems c (Ev.itemsOf sc))).1, some (.ok ())) := by
  rw [run_spec, he]
  unfold specResult
  rcases hf : feed f k (chainItems c (Ev.itemsOf sc)) with ⟨k', r⟩
  rw [hf] at hs
  cases r with
  | error e => cases hs
  | ok u => cases u; rfl

/-- … in particular the recording closure has seen exactly `chainItems c items`, in order -/
theorem no_fault_all_log (c : List Adapter) (sc : List (Ev Item ε)) (p : εk) (he : Ev.errorOf sc = none) :
    let r := tryForEachItem (applyChain c rioSource) (recSink none p) sc ⟨[], 0⟩
    r.2.1.log = chainItems c (Ev.itemsOf sc) ∧ r.2.2 = some (.ok ()) := by
  simp only [run_spec, specResult, feed_recSink_none, he]
  simp

/-! ## `for_each_item` (infallible callback; `collect_triples` into a `Vec`) -/

theorem forEachLoop_eq {σ ι : Type} (S : Source σ ι ε) (g : κ → ι → κ) (n : Nat) (s : σ) (k : κ) :
    forEachLoop S g n s k =
      match tryForEachLoop S (εk := ε) (fun k t => (g k t, .ok ())) n s k with
      | (s', k', r) => (s', k', r.map fun
          | .ok () => .ok ()
          | .error e => .error e.innerInto) := by
  induction n generalizing s k with
  | zero => rfl
  | succ n ih =>
    simp only [forEachLoop, forSomeItem, tryForEachLoop]
    rcases h : S.tryForSomeItem (εk := ε) (fun k t => (g k t, Except.ok ())) s k with ⟨s', k', r⟩
    cases r with
    | error e => rfl
    | ok b =>
      cases b with
      | false => rfl
      | true => exact ih s' k'

/-- `for_each_item` folds the infallible callback over exactly `chainItems c items`; a failing step
comes out as the bare source error -/
theorem forEach_spec (c : List Adapter) (g : κ → Item → κ) (sc : List (Ev Item ε)) (k : κ) :
    (forEachItem (applyChain c rioSource) g sc k).2 =
      ((chainItems c (Ev.itemsOf sc)).foldl g k,
        some (match Ev.errorOf sc with
          | some e => .error e
          | none => .ok ())) := by
  unfold forEachItem
  rw [forEachLoop_eq]
  have h := run_spec c (εk := ε) (fun k t => (g k t, .ok ())) sc k
  unfold tryForEachItem at h
  rcases hl : tryForEachLoop (applyChain c rioSource) (εk := ε) (fun k t => (g k t, Except.ok ()))
      ((applyChain c rioSource).fuel sc) sc k with ⟨s', k', r⟩
  rw [hl] at h
  simp only [specResult, feed_infallible] at h
  cases he : Ev.errorOf sc with
  | none =>
    rw [he] at h
    cases h
    rfl
  | some e =>
    rw [he] at h
    cases h
    rfl

/-! ## `counts` — `insert_all` / `remove_all` return the number of effective changes -/

theorem feed_insertAll (xs : List Item) (log : List Item) (g : Store) (c0 : Nat) :
    let res := feed (tap insertAllSink) (log, (g, c0)) xs
    res.1.2.1.present.length + c0 = g.present.length + res.1.2.2 ∧
    (g.present.Nodup → res.1.2.1.present.Nodup) ∧
    (res.2 = .ok () → ∀ x, x ∈ res.1.2.1.present ↔ x ∈ g.present ∨ x ∈ xs) := by
  induction xs generalizing log g c0 with
  | nil => simp [feed]
  | cons i is ih =>
    rcases insert_cases g i with ⟨e, h1⟩ | ⟨g', hg, ⟨hm, h2⟩ | ⟨hn, h2⟩⟩
    · simp [feed, tap, insertAllSink, h1]
    · simp only [feed, tap, insertAllSink, h2]
      have := ih (log ++ [i]) g' c0
      simp only [hg] at this
      refine ⟨this.1, this.2.1, ?_⟩
      intro hr x
      rw [this.2.2 hr x]
      constructor
      · rintro (h | h)
        · exact Or.inl h
        · exact Or.inr (List.mem_cons_of_mem _ h)
      · rintro (h | h)
        · exact Or.inl h
        · rcases List.mem_cons.mp h with rfl | h
          · exact Or.inl hm
          · exact Or.inr h
    · simp only [feed, tap, insertAllSink, h2]
      have := ih (log ++ [i]) { g' with present := g.present ++ [i] } (c0 + 1)
      simp only [List.length_append, List.length_singleton] at this
      refine ⟨by omega, ?_, ?_⟩
      · intro hnd
        apply this.2.1
        rw [List.nodup_append]
        refine ⟨hnd, by simp, ?_⟩
        intro a ha b hb
        simp at hb
        subst hb
        intro hab
        subst hab
        exact hn ha
      · intro hr x
        rw [this.2.2 hr x]
        simp [or_assoc]

/-- `insert_all`/`remove_all` (and the tap) in terms of the specification of the run -/
theorem tapped_run_eq {εs : Type} (c : List Adapter) (sink : Sink (Store × Nat) Item εs)
    (sc : List (Ev Item ε)) (g : Store) :
    (match tryForEachTriple (applyChain c rioSource) (tap sink) sc ([], (g, 0)) with
      | (s', (log, (g', n)), r) => (s', log, g', andOk r n)).2 =
    (match specResult (tap sink) ([], (g, 0)) (chainItems c (Ev.itemsOf sc)) (Ev.errorOf sc) with
      | ((log, (g', n)), r) => (log, g', andOk r n)) := by
  have hrun := run_spec c (tap sink) sc ([], (g, 0))
  rw [← hrun]
  show (match tryForEachItem (applyChain c rioSource) (tap sink) sc ([], (g, 0)) with
      | (s', (log, (g', n)), r) => (s', log, g', andOk r n)).2 = _
  rcases tryForEachItem (applyChain c rioSource) (tap sink) sc ([], (g, 0)) with ⟨s', ⟨log, g', c'⟩, r⟩
  rfl

/-- when `insert_all` returns `Ok(n)`: the store is a set again, it is the old set plus everything
the chain delivers, `n` is exactly by how much it grew (= the number of effective insertions),
and the source did not fail -/
theorem counts_insert_all (c : List Adapter) (sc : List (Ev Item ε)) (g : Store) (n : Nat)
    (hnd : g.present.Nodup)
    (h : (insertAll (applyChain c rioSource) sc g).2.2.2 = some (.ok n)) :
    let g' := (insertAll (applyChain c rioSource) sc g).2.2.1
    g'.present.Nodup ∧ g'.present.length = g.present.length + n ∧
    (∀ x, x ∈ g'.present ↔ x ∈ g.present ∨ x ∈ chainItems c (Ev.itemsOf sc)) ∧
    Ev.errorOf sc = none := by
  have hfeed := feed_insertAll (chainItems c (Ev.itemsOf sc)) [] g 0
  have heq : (insertAll (applyChain c rioSource) sc g).2 = _ := tapped_run_eq c insertAllSink sc g
  rw [heq] at h
  simp only [heq]
  unfold specResult at h ⊢
  rcases hf : feed (tap insertAllSink) ([], (g, 0)) (chainItems c (Ev.itemsOf sc)) with ⟨⟨log2, g2, c2⟩, r2⟩
  rw [hf] at h hfeed
  simp only at hfeed h ⊢
  cases r2 with
  | error e => simp [andOk] at h
  | ok u =>
    cases u
    cases he : Ev.errorOf sc with
    | some e => simp [andOk, he] at h
    | none =>
      simp only [andOk, he, Option.map_some, Option.some.injEq, Except.ok.injEq] at h
      subst h
      exact ⟨hfeed.2.1 hnd, by have := hfeed.1; omega, hfeed.2.2 rfl, rfl⟩

theorem feed_removeAll (xs : List Item) (log : List Item) (g : Store) (c0 : Nat) :
    let res := feed (tap removeAllSink) (log, (g, c0)) xs
    res.1.2.1.present.length + res.1.2.2 = g.present.length + c0 ∧ res.2 = .ok () := by
  induction xs generalizing log g c0 with
  | nil => simp [feed]
  | cons i is ih =>
    simp only [feed, tap, removeAllSink, Store.remove]
    by_cases hp : i ∈ g.present
    · simp only [List.contains_eq_mem, hp, decide_true, if_true]
      have := ih (log ++ [i]) { g with present := g.present.erase i } (c0 + 1)
      simp only [List.length_erase_of_mem hp] at this
      have hpos : 0 < g.present.length := List.length_pos_of_mem hp
      exact ⟨by omega, this.2⟩
    · simp only [List.contains_eq_mem, hp, decide_false, Bool.false_eq_true, if_false]
      exact ih (log ++ [i]) g c0

/-- when `remove_all` returns `Ok(n)`, the store shrank by exactly `n` -/
theorem counts_remove_all (c : List Adapter) (sc : List (Ev Item ε)) (g : Store) (n : Nat)
    (h : (removeAll (applyChain c rioSource) sc g).2.2.2 = some (.ok n)) :
    (removeAll (applyChain c rioSource) sc g).2.2.1.present.length + n = g.present.length := by
  have hfeed := feed_removeAll (chainItems c (Ev.itemsOf sc)) [] g 0
  have heq : (removeAll (applyChain c rioSource) sc g).2 = _ := tapped_run_eq c removeAllSink sc g
  rw [heq] at h
  simp only [heq]
  unfold specResult at h ⊢
  rcases hf : feed (tap removeAllSink) ([], (g, 0)) (chainItems c (Ev.itemsOf sc)) with ⟨⟨log2, g2, c2⟩, r2⟩
  rw [hf] at h hfeed
  simp only at hfeed h ⊢
  cases r2 with
  | error e => cases hfeed.2
  | ok u =>
    cases u
    cases he : Ev.errorOf sc with
    | some e => simp [andOk, he] at h
    | none =>
      simp only [andOk, he, Option.map_some, Option.some.injEq, Except.ok.injEq] at h
      subst h
      have := hfeed.1
      omega

/-! ## `MapSource::into_iter` / `FilterMapSource::into_iter` — the buffering iterators

`S.a(..).into_iter()` with `a` a map / filter_map adapter over `S = c1(batch source)`, the resulting
iterator of `Result`s drained directly or used as a `Source` again under further adapters `c2`. -/

/-- `next` pops exactly the head of what is pending (`buffer ++ resultsOf … source`): an error is
yielded only after every item buffered before it -/
theorem into_iter_next_spec (c1 : List Adapter) (a : Adapter) (st : IterSt (List (Ev Item ε)) Item ε) :
    match pending c1 a st with
    | [] => (iterNext (applyChain c1 rioSource) a.push st).1 = none ∧
            pending c1 a (iterNext (applyChain c1 rioSource) a.push st).2 = []
    | x :: xs => (iterNext (applyChain c1 rioSource) a.push st).1 = some x ∧
            pending c1 a (iterNext (applyChain c1 rioSource) a.push st).2 = xs :=
  iterNext_pending c1 a st

/-- calling `next` until `None` -/
def drain {τ α : Type} (next : τ → Option α × τ) : Nat → τ → List α
  | 0, _ => []
  | n + 1, s =>
    match next s with
    | (none, _) => []
    | (some x, s') => x :: drain next n s'

/-- draining the iterator gives exactly `resultsOf`, for every batch script -/
theorem into_iter_yields (c1 : List Adapter) (a : Adapter) (st : IterSt (List (Ev Item ε)) Item ε) (n : Nat)
    (hn : (pending c1 a st).length < n) :
    drain (iterNext (applyChain c1 rioSource) a.push) n st = pending c1 a st := by
  induction n generalizing st with
  | zero => omega
  | succ n ih =>
    have h := iterNext_pending c1 a st
    simp only [drain]
    rcases hx : iterNext (applyChain c1 rioSource) a.push st with ⟨o, st'⟩
    rw [hx] at h
    cases hp : pending c1 a st with
    | nil =>
      rw [hp] at h
      rcases h with ⟨h1, _⟩
      simp only at h1
      subst h1
      rfl
    | cons x xs =>
      rw [hp] at h hn
      rcases h with ⟨h1, h2⟩
      simp only at h1 h2
      subst h1
      simp only
      rw [ih st' (by rw [h2]; simp at hn; omega), h2]

/-- `prefix_exact` for the iterator: it yields `Ok` of exactly chain(items before the fault) — the
items the failing step had already emitted included — and then the source's error (what it yields
after that is what the source does after its error) -/
theorem into_iter_prefix_exact (h : Item → Option Item) (sc : List (Ev Item ε)) :
    ∃ tail, resultsOf h sc =
      ((Ev.itemsOf sc).filterMap h).map .ok ++
        (match Ev.errorOf sc with
          | none => []
          | some e => .error e :: tail) := by
  induction sc with
  | nil => exact ⟨[], rfl⟩
  | cons ev rest ih =>
    cases ev with
    | ok is =>
      rcases ih with ⟨tail, ht⟩
      exact ⟨tail, by simp [resultsOf, Ev.itemsOf, Ev.errorOf, ht, List.filterMap_append]⟩
    | err is e => exact ⟨resultsOf h rest, by simp [resultsOf, Ev.itemsOf, Ev.errorOf]⟩

/-- the iterator used as a `Source` under further adapters: a whole run is the specification for
the chain `c1 ++ a :: c2`, for every batch script (fault in the middle of a batch included) -/
theorem into_iter_run_spec (c1 : List Adapter) (a : Adapter) (c2 : List Adapter) (f : Sink κ Item εk)
    (sc : List (Ev Item ε)) (k : κ) :
    (tryForEachItem (applyChain c2 (intoIterSource (applyChain c1 rioSource) a)) f ⟨sc, []⟩ k).2 =
      specResult f k (chainItems (c1 ++ a :: c2) (Ev.itemsOf sc)) (Ev.errorOf sc) := by
  unfold tryForEachItem
  rw [applyChain_fuel, intoIter_loop, iter_loop]
  have hlen : (List.map Ev.ofResult (pending c1 a (⟨sc, []⟩ : IterSt (List (Ev Item ε)) Item ε))).length <
      (intoIterSource (applyChain c1 rioSource) a).fuel ⟨sc, []⟩ := by
    have := resultsOf_length (chainFn (c1 ++ [a])) sc
    simp only [pending, intoIterSource, ofIter, List.length_map, List.nil_append, List.length_nil]
    omega
  rw [loop_spec c2 f _ _ k hlen]
  have hr := results_items (chainFn (c1 ++ [a])) sc
  simp only [pending, List.nil_append]
  rw [hr.1, hr.2]
  have : c1 ++ a :: c2 = (c1 ++ [a]) ++ c2 := by simp
  rw [this, chainItems_chain_append]
  rfl

/-- `.into_iter()` is transparent: the run equals the run of the plain chain `c1 ++ a :: c2`, so
`prefix_exact_*`, `nothing_after_*`, `blame_*`, `no_fault_all`, `counts_*` above all carry over -/
theorem into_iter_transparent (c1 : List Adapter) (a : Adapter) (c2 : List Adapter) (f : Sink κ Item εk)
    (sc : List (Ev Item ε)) (k : κ) :
    (tryForEachItem (applyChain c2 (intoIterSource (applyChain c1 rioSource) a)) f ⟨sc, []⟩ k).2 =
      (tryForEachItem (applyChain (c1 ++ a :: c2) rioSource) f sc k).2 := by
  rw [into_iter_run_spec, run_spec]

/-- source fault anywhere (also in the middle of a batch), recording closure behind the iterator:
it saw exactly chain(items before the fault), then `SourceError(e)` -/
theorem into_iter_prefix_exact_source_fault (c1 : List Adapter) (a : Adapter) (c2 : List Adapter)
    (sc : List (Ev Item ε)) (e : ε) (p : εk) (he : Ev.errorOf sc = some e) :
    let r := tryForEachItem (applyChain c2 (intoIterSource (applyChain c1 rioSource) a)) (recSink none p)
      ⟨sc, []⟩ ⟨[], 0⟩
    r.2.1.log = chainItems (c1 ++ a :: c2) (Ev.itemsOf sc) ∧ r.2.2 = some (.error (.source e)) := by
  simp only [into_iter_run_spec, specResult, feed_recSink_none, he]
  simp

theorem into_iter_prefix_exact_sink_fault (c1 : List Adapter) (a : Adapter) (c2 : List Adapter)
    (sc : List (Ev Item ε)) (j : Nat) (p : εk)
    (hj : j < (chainItems (c1 ++ a :: c2) (Ev.itemsOf sc)).length) :
    let r := tryForEachItem (applyChain c2 (intoIterSource (applyChain c1 rioSource) a)) (recSink (some j) p)
      ⟨sc, []⟩ ⟨[], 0⟩
    r.2.1.log = (chainItems (c1 ++ a :: c2) (Ev.itemsOf sc)).take (j + 1) ∧
    r.2.2 = some (.error (.sink p)) := by
  simp only [into_iter_run_spec, specResult]
  rw [feed_recSink_some p j ⟨[], 0⟩ _ (Nat.zero_le _) (by simpa using hj)]
  simp

theorem into_iter_nothing_after_source_fault (c1 : List Adapter) (a : Adapter) (c2 : List Adapter)
    (f : Sink κ Item εk) (sc sc' : List (Ev Item ε)) (k : κ) (h : (Ev.errorOf sc).isSome) :
    (tryForEachItem (applyChain c2 (intoIterSource (applyChain c1 rioSource) a)) f ⟨sc ++ sc', []⟩ k).2 =
      (tryForEachItem (applyChain c2 (intoIterSource (applyChain c1 rioSource) a)) f ⟨sc, []⟩ k).2 := by
  rw [into_iter_transparent, into_iter_transparent]
  exact nothing_after_source_fault _ f sc sc' k h

theorem into_iter_blame_source (c1 : List Adapter) (a : Adapter) (c2 : List Adapter) (f : Sink κ Item εk)
    (sc : List (Ev Item ε)) (k : κ) (e : ε) (he : Ev.errorOf sc = some e)
    (hs : (feed f k (chainItems (c1 ++ a :: c2) (Ev.itemsOf sc))).2 = .ok ()) :
    (tryForEachItem (applyChain c2 (intoIterSource (applyChain c1 rioSource) a)) f ⟨sc, []⟩ k).2.2 =
      some (.error (.source e)) := by
  rw [into_iter_transparent]
  exact blame_source _ f sc k e he hs

theorem into_iter_blame_sink (c1 : List Adapter) (a : Adapter) (c2 : List Adapter) (f : Sink κ Item εk)
    (sc : List (Ev Item ε)) (k : κ) (e' : εk)
    (hs : (feed f k (chainItems (c1 ++ a :: c2) (Ev.itemsOf sc))).2 = .error e') :
    (tryForEachItem (applyChain c2 (intoIterSource (applyChain c1 rioSource) a)) f ⟨sc, []⟩ k).2.2 =
      some (.error (.sink e')) := by
  rw [into_iter_transparent]
  exact blame_sink _ f sc k e' hs

/-! ## Source side: nothing is taken from the source after the fault -/

theorem loop_state (c : List Adapter) (f : Sink κ Item εk) (sc : List (Ev Item ε)) (n : Nat) (k : κ)
    (hn : sc.length < n) :
    (tryForEachLoop (applyChain c rioSource) f n sc k).1 = specRest c f k sc := by
  induction sc generalizing n k with
  | nil =>
    cases n with
    | zero => omega
    | succ n => simp [tryForEachLoop, applyChain_tryForSome, rio_nil, specRest]
  | cons ev rest ih =>
    cases n with
    | zero => omega
    | succ n =>
      have hn' : rest.length < n := by simp at hn; omega
      cases ev with
      | ok is =>
        simp only [tryForEachLoop, applyChain_tryForSome, rio_ok, feed_chainWrap, specRest]
        rcases hf : feed f k (chainItems c is) with ⟨k', r⟩
        cases r with
        | error e => rfl
        | ok u => cases u; exact ih n k' hn'
      | err is e =>
        simp only [tryForEachLoop, applyChain_tryForSome, rio_err, feed_chainWrap, specRest]
        rcases hf : feed f k (chainItems c is) with ⟨k', r⟩
        cases r with
        | error e => rfl
        | ok u => cases u; rfl

/-- the source is left exactly where the specification says: right behind the step in which the
callback failed or which failed itself (or at its end) — no step is taken after the fault -/
theorem run_state_spec (c : List Adapter) (f : Sink κ Item εk) (sc : List (Ev Item ε)) (k : κ) :
    (tryForEachItem (applyChain c rioSource) f sc k).1 = specRest c f k sc := by
  unfold tryForEachItem
  rw [applyChain_fuel]
  exact loop_state c f sc _ k (Nat.lt_succ_self _)

/-- a failing step at position `pre.length` with the callback content until then: everything after
that step is still in the source -/
theorem no_read_ahead_source_fault (c : List Adapter) (f : Sink κ Item εk) (pre post : List (Ev Item ε))
    (is : List Item) (e : ε) (k : κ) (hp : Ev.errorOf pre = none)
    (hs : (feed f k (chainItems c (Ev.itemsOf pre))).2 = .ok ()) :
    (tryForEachItem (applyChain c rioSource) f (pre ++ .err is e :: post) k).1 = post := by
  rw [run_state_spec]
  induction pre generalizing k with
  | nil => rfl
  | cons ev rest ih =>
    cases ev with
    | err is' e' => simp [Ev.errorOf] at hp
    | ok is' =>
      simp only [Ev.itemsOf, chainItems_append, feed_append] at hs
      simp only [List.cons_append, specRest]
      rcases hf : feed f k (chainItems c is') with ⟨k', r⟩
      rw [hf] at hs
      cases r with
      | error e' => cases hs
      | ok u =>
        cases u
        exact ih k' (by simpa [Ev.errorOf] using hp) hs

/-- the callback fails while being fed the items of the step at position `pre.length`: everything
after that step is still in the source -/
theorem no_read_ahead_sink_fault (c : List Adapter) (f : Sink κ Item εk) (pre post : List (Ev Item ε))
    (is : List Item) (k : κ) (e' : εk) (hp : Ev.errorOf pre = none)
    (hs : (feed f k (chainItems c (Ev.itemsOf pre))).2 = .ok ())
    (hf : (feed f (feed f k (chainItems c (Ev.itemsOf pre))).1 (chainItems c is)).2 = .error e') :
    (tryForEachItem (applyChain c rioSource) f (pre ++ .ok is :: post) k).1 = post := by
  rw [run_state_spec]
  induction pre generalizing k with
  | nil =>
    have hf' : (feed f k (chainItems c is)).2 = .error e' := hf
    show specRest c f k (.ok is :: post) = post
    simp only [specRest]
    rcases hx : feed f k (chainItems c is) with ⟨k', r⟩
    rw [hx] at hf'
    cases r with
    | error e => rfl
    | ok u => cases hf'
  | cons ev rest ih =>
    cases ev with
    | err is' e'' => simp [Ev.errorOf] at hp
    | ok is' =>
      simp only [Ev.itemsOf, chainItems_append, feed_append] at hs hf
      simp only [List.cons_append, specRest]
      rcases hx : feed f k (chainItems c is') with ⟨k', r⟩
      rw [hx] at hs hf
      cases r with
      | error e'' => cases hs
      | ok u =>
        cases u
        exact ih k' (by simpa [Ev.errorOf] using hp) hs hf

/-! ## The remaining consumers as instances -/

/-- collecting into a `HashSet` / `BTreeSet`: the set of exactly the delivered items; a source
failure comes out as `SourceError` -/
theorem collectSet_spec (c : List Adapter) (sc : List (Ev Item ε)) :
    (collectSet (applyChain c rioSource) sc).2.2.2 =
      some (match Ev.errorOf sc with
        | some e => .error (.source e)
        | none => .ok ()) ∧
    (collectSet (applyChain c rioSource) sc).2.1 = chainItems c (Ev.itemsOf sc) := by
  have h := forEach_spec c (tapPush (fun (v : List Item) t => if v.contains t then v else v ++ [t])) sc ([], [])
  unfold collectSet forEachTriple
  have heta : (fun k i => tapPush (fun (v : List Item) t => if v.contains t then v else v ++ [t]) k i) =
      tapPush (fun (v : List Item) t => if v.contains t then v else v ++ [t]) := rfl
  rw [heta]
  rcases hr : forEachItem (applyChain c rioSource)
      (tapPush (fun (v : List Item) t => if v.contains t then v else v ++ [t])) sc ([], []) with ⟨s', ⟨log, v⟩, r⟩
  rw [hr] at h
  simp only [Prod.mk.injEq] at h
  rcases h with ⟨hst, hr2⟩
  subst hr2
  have hlog : ∀ (xs : List Item) (l v : List Item),
      (xs.foldl (tapPush (fun (v : List Item) t => if v.contains t then v else v ++ [t])) (l, v)).1 = l ++ xs := by
    intro xs
    induction xs with
    | nil => simp
    | cons x xs ih =>
      intro l v
      simp only [List.foldl_cons, tapPush]
      rw [ih]
      simp
  constructor
  · cases Ev.errorOf sc <;> rfl
  · have := congrArg Prod.fst hst
    simp only at this
    rw [this, hlog]
    rfl

/-- the streaming serializers: the formatter is called on exactly the delivered items up to the
call that fails; its failure (constructor, `format`, `finish`) is a `SinkError` with the writer's
error, a source failure a `SourceError`, and `finish` is only reached after a complete run -/
theorem serializeRio_spec (plan : FmtPlan) (p : εk) (c : List Adapter) (sc : List (Ev Item ε)) :
    (serializeRio plan p (applyChain c rioSource) sc).2 =
      if plan.newFails then ([], some (.error (.sink p)))
      else
        match specResult (tap (formatSink plan p)) ([], 0) (chainItems c (Ev.itemsOf sc)) (Ev.errorOf sc) with
        | ((log, _), some (.ok ())) =>
          (log, if plan.finishFails then some (.error (.sink p)) else some (.ok ()))
        | ((log, _), r) => (log, r) := by
  unfold serializeRio tryForEachTriple
  cases plan.newFails with
  | true => rfl
  | false =>
    simp only [Bool.false_eq_true, if_false]
    have heta : (fun k i => tap (formatSink plan p) k i) = tap (formatSink plan p) := rfl
    rw [heta, ← run_spec]
    rcases tryForEachItem (applyChain c rioSource) (tap (formatSink plan p)) sc ([], 0) with ⟨s', ⟨log, n⟩, r⟩
    cases r with
    | none => rfl
    | some r =>
      cases r with
      | error e => rfl
      | ok u =>
        cases u
        cases plan.finishFails <;> rfl

/-! ## The transcription is of the current text -/

/-- the 41 Rust function bodies the model mirrors, regenerated from /repo on every run, are the
text the model was transcribed from -/
theorem transcribed_text_is_current : Gen.SourceShapes.shapes = SourceText.expected := by rfl

/-- no store, source or adapter type overrides a provided stream method (`insert_all`, `remove_all`,
the `for_*` / `try_for_*` loops): the defaults the model mirrors are the code that runs -/
theorem no_bulk_override : Gen.SourceShapes.overrides = [] := by rfl

/-! ## Arbitrary pure closures, any item type -/

/-- `run_spec` does not depend on the protocol's closed family of closures: for ANY item type, any
chain of filter / map / filter_map / convert adapters carrying ANY pure closures, any batch script,
any callback -/
theorem run_spec_generic {ι : Type} (c : List (GAdapter ι)) (f : Sink κ ι εk) (sc : List (Ev ι ε)) (k : κ) :
    (tryForEachItem (gApplyChain c rioSource) f sc k).2 =
      specResult f k ((Ev.itemsOf sc).filterMap (gChainFn c)) (Ev.errorOf sc) := by
  unfold tryForEachItem
  rw [gApplyChain_fuel]
  exact gLoop_spec c f sc _ k (Nat.lt_succ_self _)

/-- the protocol family is the generic construction applied to its closures -/
theorem family_is_generic {σ : Type} (c : List Adapter) (S : Source σ Item ε) :
    applyChain c S = gApplyChain (c.map Adapter.toG) S ∧ chainFn c = gChainFn (c.map Adapter.toG) := by
  constructor
  · induction c generalizing S with
    | nil => rfl
    | cons a rest ih =>
      have h1 : applyChain (a :: rest) S = applyChain rest (a.apply S) := rfl
      have h2 : gApplyChain ((a :: rest).map Adapter.toG) S = gApplyChain (rest.map Adapter.toG) (a.toG.apply S) := rfl
      rw [h1, h2, toG_apply, ih]
  · induction c with
    | nil => rfl
    | cons a rest ih =>
      funext i
      simp only [chainFn, List.map_cons, gChainFn, toG_fn, ih]

/-! ## Fuel: the `none` outcome of the model's loops is unreachable -/

theorem specResult_isSome {ι : Type} (f : Sink κ ι εk) (k : κ) (xs : List ι) (err : Option ε) :
    (specResult f k xs err).2 ≠ none := by
  unfold specResult
  rcases feed f k xs with ⟨k', r⟩
  cases r with
  | error e => simp
  | ok u => cases u; simp

theorem fuel_suffices_iter (c : List Adapter) (f : Sink κ Item εk) (rs : List (Except ε Item)) (k : κ) :
    (tryForEachItem (applyChain c iterSource) f rs k).2.2 ≠ none := by
  rw [run_spec_iter]; exact specResult_isSome _ _ _ _

/-! ## `into_iter` from ANY state of the iterator (not only a fresh one) -/

/-- whatever is already buffered and wherever the inner source stands: the run is the
specification on what is pending -/
theorem into_iter_run_spec_any_state (c1 : List Adapter) (a : Adapter) (c2 : List Adapter) (f : Sink κ Item εk)
    (st : IterSt (List (Ev Item ε)) Item ε) (k : κ) :
    (tryForEachItem (applyChain c2 (intoIterSource (applyChain c1 rioSource) a)) f st k).2 =
      specResult f k (chainItems c2 (Ev.itemsOf ((pending c1 a st).map Ev.ofResult)))
        (Ev.errorOf ((pending c1 a st).map Ev.ofResult)) := by
  unfold tryForEachItem
  rw [applyChain_fuel, intoIter_loop, iter_loop]
  have hlen : (List.map Ev.ofResult (pending c1 a st)).length <
      (intoIterSource (applyChain c1 rioSource) a).fuel st := by
    have := resultsOf_length (chainFn (c1 ++ [a])) st.source
    simp only [pending, intoIterSource, ofIter, List.length_map, List.length_append]
    omega
  rw [loop_spec c2 f _ _ k hlen]

theorem fuel_suffices_into_iter (c1 : List Adapter) (a : Adapter) (c2 : List Adapter) (f : Sink κ Item εk)
    (st : IterSt (List (Ev Item ε)) Item ε) (k : κ) :
    (tryForEachItem (applyChain c2 (intoIterSource (applyChain c1 rioSource) a)) f st k).2.2 ≠ none := by
  rw [into_iter_run_spec_any_state]; exact specResult_isSome _ _ _ _

/-! ## Multi-index stores: after ANY run, faulted or not, every index shows the same statements -/

theorem mem_setInsert (l : List Item) (x y : Item) : y ∈ setInsert l x ↔ y ∈ l ∨ y = x := by
  unfold setInsert
  by_cases h : x ∈ l
  · simp only [List.contains_eq_mem, h, decide_true, if_true]
    constructor
    · exact Or.inl
    · rintro (h' | rfl)
      · exact h'
      · exact h
  · simp [h]

theorem fast_insert_coherent (st : FastStore) (i : Item) (h : st.coherent) : (st.insert i).1.coherent := by
  unfold FastStore.insert
  cases st.toStore.ensureIndex i.val with
  | error e => exact h
  | ok ix =>
    simp only
    by_cases hc : i ∈ st.spo
    · simp only [List.contains_eq_mem, hc, decide_true, if_true]
      exact h
    · simp only [List.contains_eq_mem, hc, decide_false, Bool.false_eq_true, if_false]
      constructor
      · intro x
        simp only [mem_setInsert, List.mem_append, List.mem_singleton, h.1 x]
      · intro x
        simp only [mem_setInsert, List.mem_append, List.mem_singleton, h.2 x]

/-- the whole `insert_all` run on a fast store, stopped anywhere by a source or a sink fault,
leaves the indexes coherent -/
theorem fast_feed_coherent (xs : List Item) (log : List Item) (g : FastStore) (c0 : Nat) (h : g.coherent) :
    (feed (tap fastInsertAllSink) (log, (g, c0)) xs).1.2.1.coherent := by
  induction xs generalizing log g c0 with
  | nil => exact h
  | cons x xs ih =>
    simp only [feed, tap, fastInsertAllSink]
    have hc := fast_insert_coherent g x h
    rcases hi : g.insert x with ⟨g', r⟩
    rw [hi] at hc
    cases r with
    | error e => exact hc
    | ok b =>
      cases b with
      | true => exact ih _ g' _ hc
      | false => exact ih _ g' _ hc

theorem fast_insert_all_coherent (c : List Adapter) (sc : List (Ev Item ε)) (g : FastStore) (h : g.coherent) :
    (insertAllFast (applyChain c rioSource) sc g).2.2.1.coherent := by
  have hrun := run_spec c (tap fastInsertAllSink) sc ([], (g, 0))
  have hf := fast_feed_coherent (chainItems c (Ev.itemsOf sc)) [] g 0 h
  unfold insertAllFast tryForEachTriple
  have heta : (fun k i => tap fastInsertAllSink k i) = tap fastInsertAllSink := rfl
  rw [heta]
  rcases hr : tryForEachItem (applyChain c rioSource) (tap fastInsertAllSink) sc ([], (g, 0)) with
    ⟨s', ⟨log, g', c'⟩, r⟩
  rw [hr] at hrun
  simp only [specResult] at hrun
  rcases hx : feed (tap fastInsertAllSink) ([], (g, 0)) (chainItems c (Ev.itemsOf sc)) with ⟨⟨log2, g2, c2⟩, r2⟩
  rw [hx] at hrun hf
  cases r2 with
  | error e =>
    simp only [Prod.mk.injEq] at hrun
    obtain ⟨⟨-, hg, -⟩, -⟩ := hrun
    subst hg
    exact hf
  | ok u =>
    cases u
    simp only [Prod.mk.injEq] at hrun
    obtain ⟨⟨-, hg, -⟩, -⟩ := hrun
    subst hg
    exact hf

/-- the primary index of the fast store evolves exactly like the one-list `Store` of the count
theorems (same result, same term index) -/
theorem fast_insert_sim (st : FastStore) (i : Item) :
    (st.insert i).2 = (st.toStore.insert i).2 ∧ (st.insert i).1.toStore = (st.toStore.insert i).1 := by
  unfold FastStore.insert Store.insert
  cases h : st.toStore.ensureIndex i.val with
  | error e => exact ⟨rfl, rfl⟩
  | ok ix =>
    have hp := ensureIndex_present st.toStore ix _ h
    cases ix with
    | mk pr kn fr =>
      simp only [FastStore.toStore] at hp
      subst hp
      by_cases hc : i ∈ st.spo
      · simp [hc, FastStore.toStore]
      · simp [hc, FastStore.toStore]

/-- per-item index maintenance is NECESSARY: the "bulk loading" variant (feed `spo` while
streaming, derive `pos`/`osp` afterwards, `?` in between) leaves an incoherent store after a source
fault — kernel-checked witness (this is seeded change C15-d; the harness replays it through every
access path of the real stores on every run) -/
theorem bulk_insert_all_incoherent_witness :
    ¬ (insertAllBulk (applyChain [] (rioSource (ε := Nat))) [.ok [.triple 1], .err [] 7]
        ⟨[], [], [], [], none⟩).2.1.coherent := by
  intro h
  have := (h.1 (.triple 1)).mpr (by decide)
  revert this
  decide

/-! ## Adapter sinks: `GraphAsDataset` -/

theorem tap_log_ok {ι εs : Type} (f : Sink κ ι εs) (xs l : List ι) (k : κ)
    (h : (feed (tap f) (l, k) xs).2 = .ok ()) : (feed (tap f) (l, k) xs).1.1 = l ++ xs := by
  induction xs generalizing l k with
  | nil => simp [feed]
  | cons x xs ih =>
    simp only [feed, tap] at h ⊢
    rcases hf : f k x with ⟨k', r⟩
    rw [hf] at h
    cases r with
    | error e => cases h
    | ok u =>
      cases u
      simp only at h ⊢
      rw [ih _ _ h]
      simp

/-- a quad in a named graph is THE sink fault of `graph.as_dataset_mut()`: if the chain delivers
`pre ++ quad n (g+1) :: post` and the wrapped graph accepts `pre`, then `insert_all` was handed exactly
`pre` and that quad, stored exactly `pre`, and returns `SinkError(OnlyDefaultGraph)` — nothing of `post` -/
theorem gad_named_graph_is_sink_fault (c : List Adapter) (sc : List (Ev Item ε)) (g : Store)
    (pre post : List Item) (n gn : Nat)
    (hx : chainItems c (Ev.itemsOf sc) = pre ++ .quad n (gn + 1) :: post)
    (hpre : (feed (tap gadInsertAllSink) ([], (g, 0)) pre).2 = .ok ()) :
    (insertAllGad (applyChain c rioSource) sc g).2.1 = pre ++ [.quad n (gn + 1)] ∧
    (insertAllGad (applyChain c rioSource) sc g).2.2.2 = some (.error (.sink .onlyDefaultGraph)) ∧
    (insertAllGad (applyChain c rioSource) sc g).2.2.1 = (feed (tap gadInsertAllSink) ([], (g, 0)) pre).1.2.1 := by
  have heq : (insertAllGad (applyChain c rioSource) sc g).2 = _ := tapped_run_eq c gadInsertAllSink sc g
  simp only [heq]
  unfold specResult
  rw [hx, feed_append]
  have hlog := tap_log_ok gadInsertAllSink pre [] (g, 0) hpre
  rcases hf : feed (tap gadInsertAllSink) ([], (g, 0)) pre with ⟨⟨l, g1, c1⟩, r⟩
  rw [hf] at hpre hlog
  simp only at hpre hlog
  subst hpre
  subst hlog
  simp [feed, tap, gadInsertAllSink, gadInsert, andOk]

/-! ## Non-vacuity: the hypotheses are satisfiable by non-trivial values, and the statements
speak about runs that really deliver, drop, map and fail -/

/-- items 1..6 with an `Err` at position 4, through `filter (v mod 2 ≠ 0)`, `map (+10)`,
`to_quads`: the closure sees the quads 11 and 13 and the result is `SourceError(7)` -/
example :
    (tryForEachItem
      (applyChain [.filterTriples ⟨2, 0⟩, .mapItems (.add 10), .toQuads] (iterSource (ε := Nat)))
      (recSink (εk := Nat) none 0) (faultAt [.triple 1, .triple 2, .triple 3, .triple 4, .triple 5, .triple 6] 4 7)
      ⟨[], 0⟩).2 = (⟨[.quad 11 0, .quad 13 0], 2⟩, some (.error (.source 7))) := by rfl

/-- hypothesis of `prefix_exact_sink_fault` -/
example : 1 < (chainItems [.filterItems ⟨2, 0⟩] (Ev.itemsOf
    ([.ok [.triple 1, .triple 2, .triple 3], .err [.triple 5] 9] : List (Ev Item Nat)))).length := by decide

/-- a Turtle-like step that emits two triples and then fails: both are delivered, then `SourceError` -/
example :
    (tryForEachItem (applyChain [] (rioSource (ε := Nat))) (recSink (εk := Nat) none 0)
      [.ok [.triple 1], .err [.triple 2, .triple 3] 9, .ok [.triple 4]] ⟨[], 0⟩).2 =
      (⟨[.triple 1, .triple 2, .triple 3], 3⟩, some (.error (.source 9))) := by rfl

/-- hypotheses of `blame_sink` / `nothing_after_sink_fault` / `blame_source` / `no_fault_all` -/
example : (feed (recSink (some 1) (5 : Nat)) ⟨[], 0⟩
    (chainItems [.mapItems (.add 1)] (Ev.itemsOf ([.ok [.triple 1, .triple 2, .triple 3]] : List (Ev Item Nat))))).2 =
    .error 5 := by rfl
example : (Ev.errorOf ([.ok [.triple 1], .err [] 3] : List (Ev Item Nat))).isSome := by rfl
example : Ev.errorOf ([.ok [.triple 1], .ok []] : List (Ev Item Nat)) = none := by rfl

/-- hypothesis of `counts_insert_all`: 1, 2, 1 into a store holding 2 — one effective insertion -/
example :
    (insertAll (applyChain [] (rioSource (ε := Nat))) [.ok [.triple 1, .triple 2, .triple 1]]
      ⟨[.triple 2], [2], none⟩).2.2.2 = some (.ok 1) := by rfl

/-- … and with a full term index the second new term is a `SinkError` -/
example :
    (insertAll (applyChain [] (rioSource (ε := Nat))) [.ok [.triple 1, .triple 2, .triple 3]]
      ⟨[], [], some 1⟩).2.2.2 = some (.error (.sink .indexFull)) := by rfl

/-- a chunk that emits 1, 2 and then fails, behind `map(+10).into_iter()`: the iterator yields
`Ok 11, Ok 12, Err 9` — the error comes after the items of its own step -/
example :
    drain (iterNext (applyChain [] (rioSource (ε := Nat))) (Adapter.mapItems (.add 10)).push) 10
      ⟨[.ok [.triple 0], .err [.triple 1, .triple 2] 9, .ok [.triple 3]], []⟩ =
      [.ok (.triple 10), .ok (.triple 11), .ok (.triple 12), .error 9, .ok (.triple 13)] := by rfl

example :
    (tryForEachItem
      (applyChain [.filterItems ⟨2, 0⟩] (intoIterSource (applyChain [] (rioSource (ε := Nat))) (.mapItems (.add 10))))
      (recSink (εk := Nat) none 0) ⟨[.ok [.triple 0], .err [.triple 1, .triple 2] 9, .ok [.triple 3]], []⟩
      ⟨[], 0⟩).2 = (⟨[.triple 11], 1⟩, some (.error (.source 9))) := by rfl

/-- hypotheses of `no_read_ahead_sink_fault`: the closure fails on its 2nd call, inside the 2nd step -/
example :
    (feed (recSink (some 1) (5 : Nat)) ⟨[], 0⟩ (chainItems [] (Ev.itemsOf ([.ok [.triple 1]] : List (Ev Item Nat))))).2 = .ok () ∧
    (feed (recSink (some 1) (5 : Nat))
      (feed (recSink (some 1) (5 : Nat)) ⟨[], 0⟩ (chainItems [] (Ev.itemsOf ([.ok [.triple 1]] : List (Ev Item Nat))))).1
      (chainItems [] [.triple 2, .triple 3])).2 = .error 5 := by
  constructor <;> rfl

/-- the streaming serializer whose formatter fails on its 2nd call -/
example :
    (serializeRio ⟨false, some 1, false⟩ (13 : Nat) (applyChain [] (rioSource (ε := Nat)))
      [.ok [.triple 1, .triple 2], .ok [.triple 3]]).2 = ([.triple 1, .triple 2], some (.error (.sink 13))) := by rfl

/-- hypothesis of `fast_insert_all_coherent`, and its conclusion on a faulted run, computed -/
example : (⟨[.triple 2], [.triple 2], [.triple 2], [2], none⟩ : FastStore).coherentB = true := by rfl
example :
    (insertAllFast (applyChain [] (rioSource (ε := Nat))) [.ok [.triple 1], .err [.triple 3] 7]
      ⟨[.triple 2], [.triple 2], [.triple 2], [2], none⟩).2.2.1.coherentB = true := by rfl

/-- `run_spec_generic` with a closure outside the protocol family, on strings -/
example :
    (tryForEachItem
      (gApplyChain [.filterMapItems (fun (s : String) => if s.length > 1 then some (s ++ "!") else none)]
        (rioSource (ε := Nat)))
      (fun (k : List String) i => (k ++ [i], .ok ())) [.ok ["a", "bc"], .err ["def"] 4] []).2 =
      ((["bc!", "def!"], some (.error (.source 4))) : List String × Option (StreamResult Unit Nat Nat)) := by rfl

/-- hypotheses of `gad_named_graph_is_sink_fault` -/
example :
    chainItems [] (Ev.itemsOf ([.ok [.quad 1 0, .quad 2 1, .quad 3 0]] : List (Ev Item Nat))) =
      [.quad 1 0] ++ .quad 2 (0 + 1) :: [.quad 3 0] ∧
    (feed (tap gadInsertAllSink) ([], ((⟨[], [], none⟩ : Store), 0)) [.quad 1 0]).2 = .ok () := by
  constructor <;> rfl

end SophiaProofs.C15
