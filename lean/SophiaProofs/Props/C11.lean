/-
C11 — graph / dataset views stay coherent with the underlying store.

Model: SophiaModel/Model/Adapter.lean (every adapter method as forwarding to the wrapped store's
methods; which underlying method the four mutating adapter methods call, and whether `UnionGraph`
forwards the atom enumerations, is REGENERATED from api/src/{graph,dataset}/adapter.rs into
SophiaModel/Gen/AdapterFlags.lean on every run).

All theorems are stated for ANY implementation `I` of the wrapped dataset / graph that is `Lawful`
(behaves like a collection of quads) resp. `LawfulSet` (… like a set), in any state satisfying its
invariant.  `store_types_lawful` instantiates this with the indexed stores of sophia_inmem in every
`Good` state — i.e. (C01: `good_new`, `good_step`, `run_refines_spec`) every reachable state of every
generated store description, every index width — and with the std sets and vectors.

A triple is a `Quad` with graph name `none`.  `List.Perm` = equality as MULTISETS: a triple held in
two graphs shows twice through a union view.
-/
import SophiaProofs.Lemmas.Adapter
import SophiaProofs.Lemmas.AdapterBulk

namespace SophiaProofs.C11
open SophiaModel SophiaModel.Term SophiaModel.Store SophiaModel.Adapter
open SophiaProofs.StoreP SophiaProofs.AdapterP
open SophiaModel.Gen.AdapterFlags

/-! ### every shipped store type is a lawful implementation -/

/-- The indexed stores (`LightDataset`, `FastDataset`, `LightGraph`, `FastGraph`, 16- and 32-bit: the four
generated descriptions, any `max`) in every `Good` state, std `HashSet` / `BTreeSet` of quads or
triples, std `Vec` of quads or triples. -/
theorem store_types_lawful :
    (∀ d ∈ [Gen.genericLightDataset, Gen.genericFastDataset, Gen.genericLightGraph, Gen.genericFastGraph],
      ∃ L : LawfulSet (storeImpl d), ∀ s, L.Inv s ↔ Good d s) ∧
    (∀ n, n = 3 ∨ n = 4 → ∃ L : LawfulSet (setImpl n), ∀ s, L.Inv s ↔ SetInv n s) ∧
    (∀ n, n = 3 ∨ n = 4 → ∃ L : Lawful (vecImpl n), ∀ s, L.Inv s ↔ (n = 3 → ∀ x ∈ s, x.g = none)) := by
  refine ⟨?_, fun n hn => ⟨setLawful n hn, fun _ => Iff.rfl⟩, fun n hn => ⟨vecLawful n hn, fun _ => Iff.rfl⟩⟩
  intro d hd
  have hok : descOK d = true := by
    simp only [List.mem_cons, List.mem_nil_iff, or_false] at hd
    rcases hd with rfl | rfl | rfl | rfl
    · exact gen_tables_ok.1
    · exact gen_tables_ok.2.1
    · exact gen_tables_ok.2.2.1
    · exact gen_tables_ok.2.2.2
  exact ⟨storeLawful d hok, fun _ => Iff.rfl⟩

/-- `Vec<Gspo<T>>` (whose `remove` drops only the first match: not a `Lawful` collection) is lawful for
READING: every theorem about what a view shows (`partial_union_view`, `dataset_graph_view`, `view_query`,
`view_contains`, `graph_as_dataset_view`) applies to it in every state -/
theorem vec_gspo_lawful_read : ∃ L : LawfulRead (vecFirstImpl 4), ∀ s, L.Inv s :=
  ⟨vecFirstLawfulRead 4 (Or.inr rfl), fun _ h => absurd h (by decide)⟩

-- the invariants are satisfiable: a fresh store of each kind, and a store after an insertion
example : Good Gen.genericFastDataset (St.new Gen.genericFastDataset.shape Gen.maxU16) :=
  good_new gen_tables_ok.2.1 _
example (q : Quad) : Good Gen.genericLightGraph (Store.insert (St.new Gen.genericLightGraph.shape Gen.maxU32) q).1 :=
  good_insert (good_new gen_tables_ok.2.2.1 _) q
example : SetInv 4 [] := ⟨trivial, fun _ _ h => nomatch h⟩

section views
variable {σ : Type} {I : Impl σ} (L : LawfulRead I) {s : σ}

/-! ### a dataset seen as a graph -/

/-- `union_graph()` shows exactly the image of the quads (with multiplicity) -/
theorem union_view (s : σ) : UnionGraph.triples I s = Spec.union (I.quads s) := rfl

/-- `partial_union_graph(m)` shows exactly the triples of the quads whose graph name `m` matches — also
in `triples()`, with multiplicity -/
theorem partial_union_view (hs : L.Inv s) (h4 : I.n = 4) (m : GM) :
    (PartialUnionGraph.triples I s m).Perm (Spec.partialUnion m (I.quads s)) := by
  have h := (L.qm (dpat m .any .any .any) hs).map intoTriple
  rw [h4] at h
  refine h.trans (List.Perm.of_eq ?_)
  unfold Spec.partialUnion
  congr 1
  exact filter_congr_fun _ (fun q => by rw [quadMatched_dpat, tripleMatched_any, Bool.and_true])

/-- `graph(g)` / `graph_mut(g)` shows exactly the triples of the quads named `g` … -/
theorem dataset_graph_view (hs : L.Inv s) (h4 : I.n = 4) (g : GName) :
    (DatasetGraph.triples I s g).Perm (Spec.graph g (I.quads s)) := by
  have h := (L.qm (dpat (.arr [g]) .any .any .any) hs).map intoTriple
  rw [h4] at h
  refine h.trans (List.Perm.of_eq ?_)
  unfold Spec.graph
  congr 1
  exact filter_congr_fun _ (fun q => by rw [quadMatched_dpat, tripleMatched_any, Bool.and_true, arr1_matches])

/-- … in particular nothing for a graph name absent from the store -/
theorem dataset_graph_absent (hs : L.Inv s) (h4 : I.n = 4) (g : GName)
    (habs : ∀ q ∈ I.quads s, gnameEq g q.g = false) : DatasetGraph.triples I s g = [] := by
  have h := dataset_graph_view L hs h4 g
  have he : Spec.graph g (I.quads s) = [] := by
    unfold Spec.graph
    rw [List.map_eq_nil_iff, List.filter_eq_nil_iff]
    intro q hq
    rw [habs q hq]; simp
  rw [he] at h
  exact h.eq_nil

/-- **pattern queries through a view = filtering the view** (all three dataset views; as multisets) -/
theorem view_query (hs : L.Inv s) (h4 : I.n = 4) (sm pm om : TM) :
    (UnionGraph.triplesMatching I s sm pm om).Perm
      ((UnionGraph.triples I s).filter (Spec.tripleMatched sm pm om)) ∧
    (∀ m : GM, (PartialUnionGraph.triplesMatching I s m sm pm om).Perm
      ((PartialUnionGraph.triples I s m).filter (Spec.tripleMatched sm pm om))) ∧
    (∀ g : GName, (DatasetGraph.triplesMatching I s g sm pm om).Perm
      ((DatasetGraph.triples I s g).filter (Spec.tripleMatched sm pm om))) := by
  have key : ∀ gm : GM, ((I.quadsMatching s (dpat gm sm pm om)).map intoTriple).Perm
      ((((I.quads s).filter (fun q => gm.matches q.g)).map intoTriple).filter (Spec.tripleMatched sm pm om)) := by
    intro gm
    have h := (L.qm (dpat gm sm pm om) hs).map intoTriple
    rw [h4] at h
    refine h.trans (List.Perm.of_eq ?_)
    rw [← filter_map_intoTriple]
    congr 1
    exact filter_congr_fun _ (fun q => quadMatched_dpat gm sm pm om q)
  refine ⟨?_, fun m => ?_, fun g => ?_⟩
  · refine (key .any).trans (List.Perm.of_eq ?_)
    show List.filter _ (List.map intoTriple (List.filter (fun _ => true) (I.quads s))) = _
    rw [List.filter_eq_self.2 (fun _ _ => rfl)]; rfl
  · exact (key m).trans (((partial_union_view L hs h4 m).filter _).symm)
  · refine (key (.arr [g])).trans ?_
    have h2 := ((dataset_graph_view L hs h4 g).filter (Spec.tripleMatched sm pm om)).symm
    refine (List.Perm.of_eq ?_).trans h2
    unfold Spec.graph
    congr 2
    exact filter_congr_fun _ (fun q => arr1_matches g q.g)

/-- the views' `contains` (the `Graph` default, through `triples_matching([s], [p], [o])`) is membership
in the view -/
theorem view_contains (hs : L.Inv s) (h4 : I.n = 4) (t : Quad) :
    UnionGraph.contains I s t = (Spec.union (I.quads s)).any (Spec.tripleEq t) ∧
    (∀ m : GM, PartialUnionGraph.contains I s m t = (Spec.partialUnion m (I.quads s)).any (Spec.tripleEq t)) ∧
    (∀ g : GName, DatasetGraph.contains I s g t = (Spec.graph g (I.quads s)).any (Spec.tripleEq t)) := by
  obtain ⟨hu, hp, hg⟩ := view_query L hs h4 (.arr [t.s]) (.arr [t.p]) (.arr [t.o])
  have conv : ∀ l : List Quad, (!(l.filter (Spec.tripleMatched (.arr [t.s]) (.arr [t.p]) (.arr [t.o]))).isEmpty) =
      l.any (Spec.tripleEq t) := by
    intro l
    rw [not_isEmpty_filter]
    congr 1
    funext q
    exact tripleMatched_exact t q
  refine ⟨?_, fun m => ?_, fun g => ?_⟩
  · unfold UnionGraph.contains defaultContains
    rw [isEmpty_perm hu, conv]; rfl
  · unfold PartialUnionGraph.contains defaultContains
    rw [isEmpty_perm (hp m), conv]
    have := partial_union_view L hs h4 m
    rw [Bool.eq_iff_iff, List.any_eq_true, List.any_eq_true]
    exact ⟨fun ⟨x, hx, h⟩ => ⟨x, this.mem_iff.1 hx, h⟩, fun ⟨x, hx, h⟩ => ⟨x, this.mem_iff.2 hx, h⟩⟩
  · unfold DatasetGraph.contains defaultContains
    rw [isEmpty_perm (hg g), conv]
    have := dataset_graph_view L hs h4 g
    rw [Bool.eq_iff_iff, List.any_eq_true, List.any_eq_true]
    exact ⟨fun ⟨x, hx, h⟩ => ⟨x, this.mem_iff.1 hx, h⟩, fun ⟨x, hx, h⟩ => ⟨x, this.mem_iff.2 hx, h⟩⟩

/-! ### a graph seen as a dataset -/

/-- `as_dataset()` shows exactly the graph's triples, all in the default graph; pattern queries are
filters of that (with multiplicity); `contains` is membership (never for a named graph); there are no
graph names -/
theorem graph_as_dataset_view (hs : L.Inv s) (h3 : I.n = 3) :
    GraphAsDataset.quads I s = Spec.asDataset (I.quads s) ∧
    (∀ q ∈ GraphAsDataset.quads I s, q.g = none) ∧
    (∀ (sm pm om : TM) (gm : GM), (GraphAsDataset.quadsMatching I s sm pm om gm).Perm
      ((GraphAsDataset.quads I s).filter (quadMatched 4 (dpat gm sm pm om)))) ∧
    (∀ q : Quad, GraphAsDataset.contains I s q = qmem q (GraphAsDataset.quads I s)) ∧
    GraphAsDataset.enumerate I s "graphs" = StoreProto.enumOf 4 "graphs" (GraphAsDataset.quads I s) := by
  have hall : ∀ q ∈ GraphAsDataset.quads I s, q.g = none := by
    intro q hq
    obtain ⟨x, _, rfl⟩ := List.mem_map.1 hq
    rfl
  refine ⟨rfl, hall, ?_, ?_, ?_⟩
  · intro sm pm om gm
    unfold GraphAsDataset.quadsMatching
    cases hgm : gm.matches none with
    | true =>
      rw [if_pos rfl]
      have h := (L.qm (gpat sm pm om) hs).map intoQuad
      rw [h3] at h
      refine h.trans (List.Perm.of_eq ?_)
      unfold GraphAsDataset.quads
      rw [List.filter_map]
      congr 1
      apply filter_congr_fun
      intro q
      rw [quadMatched_gpat, Function.comp, quadMatched_dpat]
      show _ = (gm.matches none && _)
      rw [hgm, Bool.true_and]; rfl
    | false =>
      rw [if_neg (by simp)]
      refine List.Perm.of_eq (Eq.symm ?_)
      rw [List.filter_eq_nil_iff]
      intro q hq
      rw [quadMatched_dpat, hall q hq, hgm]; simp
  · intro q
    unfold GraphAsDataset.contains
    cases hg : q.g with
    | none =>
      rw [Option.isNone_none, if_pos rfl, L.contains_iff _ hs (fun _ => rfl)]
      unfold GraphAsDataset.quads
      rw [map_intoQuad_id L hs h3]
      congr 1
      cases q with
      | mk a b c g => simp only at hg; subst hg; rfl
    | some g =>
      rw [Option.isNone_some, if_neg (by simp)]
      symm
      rw [qmem_false_iff]
      intro x hx
      have := hall x hx
      simp [quadEq, this, hg, gnameEq]
  · unfold GraphAsDataset.enumerate
    rw [if_pos (by decide)]
    show some [] = some ((GraphAsDataset.quads I s).filterMap (·.g))
    congr 1
    symm
    rw [List.filterMap_eq_nil_iff]
    intro q hq
    exact hall q hq

/-- **pattern queries through a view = filtering the UNDERLYING STORE** (the property's clause, in one
statement per view): the triples of the quads whose graph name the view selects and whose triple matches -/
theorem view_query_store (L : LawfulRead I) {s : σ} (hs : L.Inv s) (h4 : I.n = 4) (sm pm om : TM) :
    (UnionGraph.triplesMatching I s sm pm om).Perm
      (((I.quads s).filter (Spec.tripleMatched sm pm om)).map intoTriple) ∧
    (∀ m : GM, (PartialUnionGraph.triplesMatching I s m sm pm om).Perm
      (((I.quads s).filter (fun q => m.matches q.g && Spec.tripleMatched sm pm om q)).map intoTriple)) ∧
    (∀ g : GName, (DatasetGraph.triplesMatching I s g sm pm om).Perm
      (((I.quads s).filter (fun q => gnameEq g q.g && Spec.tripleMatched sm pm om q)).map intoTriple)) := by
  have key : ∀ gm : GM, ((I.quadsMatching s (dpat gm sm pm om)).map intoTriple).Perm
      (((I.quads s).filter (fun q => gm.matches q.g && Spec.tripleMatched sm pm om q)).map intoTriple) := by
    intro gm
    have h := (L.qm (dpat gm sm pm om) hs).map intoTriple
    rw [h4] at h
    refine h.trans (List.Perm.of_eq ?_)
    congr 1
    exact filter_congr_fun _ (fun q => quadMatched_dpat gm sm pm om q)
  refine ⟨(key .any).trans (List.Perm.of_eq ?_), key, fun g => (key (.arr [g])).trans (List.Perm.of_eq ?_)⟩
  · congr 1
  · congr 1
    exact filter_congr_fun _ (fun q => by rw [arr1_matches])

/-- the same for a graph seen as a dataset: the graph's matching triples, in the default graph, when the
graph-name matcher accepts the default graph — nothing otherwise -/
theorem as_dataset_query_store (L : LawfulRead I) {s : σ} (hs : L.Inv s) (h3 : I.n = 3) (sm pm om : TM) (gm : GM) :
    (GraphAsDataset.quadsMatching I s sm pm om gm).Perm
      (if gm.matches none then ((I.quads s).filter (Spec.tripleMatched sm pm om)).map intoQuad else []) := by
  unfold GraphAsDataset.quadsMatching
  cases gm.matches none with
  | false => exact List.Perm.refl _
  | true =>
    simp only [if_true]
    have h := (L.qm (gpat sm pm om) hs).map intoQuad
    rw [h3] at h
    refine h.trans (List.Perm.of_eq ?_)
    congr 1
    exact filter_congr_fun _ (fun q => quadMatched_gpat sm pm om q)

/-! ### `UnionGraph`'s enumerations -/

/-- `subjects` / `predicates` / `objects` of the union graph are those of its triples -/
theorem union_enum_spo (s : σ) (which : String) (hw : which = "subjects" ∨ which = "predicates" ∨ which = "objects") :
    UnionGraph.enumerate I s which = StoreProto.enumOf 3 which (UnionGraph.triples I s) := by
  rcases hw with rfl | rfl | rfl <;>
    simp [UnionGraph.enumerate, StoreProto.enumOf, UnionGraph.triples, List.map_map, Function.comp, intoTriple]

/-- when the five atom enumerations are NOT forwarded to the dataset (the text of
notes/fixes/C11-union-graph-atoms.diff) they are the enumerations of the view's own triples -/
theorem union_enum_atoms (hflag : unionGraphForwardsAtoms = false) (s : σ) (which : String)
    (hw : which ≠ "subjects" ∧ which ≠ "predicates" ∧ which ≠ "objects") :
    UnionGraph.enumerate I s which = StoreProto.enumOf 3 which (UnionGraph.triples I s) := by
  unfold UnionGraph.enumerate
  rw [hflag]
  simp [hw.1, hw.2.1, hw.2.2]

end views

/-- the full statement about `UnionGraph`'s enumerations -/
def UnionEnumCoherent : Prop :=
  ∀ (d : StoreDesc) (s : St), Good d s → d.n = 4 → ∀ which : String, which ≠ "graphs" →
    UnionGraph.enumerate (storeImpl d) s which = StoreProto.enumOf 3 which (UnionGraph.triples (storeImpl d) s)

/-- the state after `insert(x:s, x:p, x:o, x:g)` into a fresh `LightDataset` -/
def witnessDataset : St :=
  (Store.insert (St.new Gen.genericLightDataset.shape Gen.maxU32)
    ⟨.iri "x:s".toList, .iri "x:p".toList, .iri "x:o".toList, some (.iri "x:g".toList)⟩).1

/-- **Regression witness** (the defect repaired by f7b1ae1; VACUOUS for the current source, where the flag is
`false` — kept, outside the audited obligations, so that a regression of the flag is located by a
kernel-checked counterexample).  While `UnionGraph` forwards `iris()` (…) to the dataset, the union graph
enumerates IRIs that occur in none of its triples — the graph names: after
`insert(x:s, x:p, x:o, x:g)`, `union_graph().iris()` yields `x:g`. -/
theorem union_enum_atoms_defect (hflag : unionGraphForwardsAtoms = true) : ¬ UnionEnumCoherent := by
  intro h
  have h1 := h Gen.genericLightDataset witnessDataset (good_insert (good_new gen_tables_ok.1 _) _) rfl "iris" (by decide)
  unfold UnionGraph.enumerate at h1
  rw [hflag] at h1
  revert h1
  decide

/-- which of the two holds for the source as it is now (re-decided on every run) -/
theorem union_enum_verdict :
    (unionGraphForwardsAtoms = false ∧
      ∀ {σ : Type} (I : Impl σ) (s : σ) (which : String),
        which ≠ "subjects" ∧ which ≠ "predicates" ∧ which ≠ "objects" →
        UnionGraph.enumerate I s which = StoreProto.enumOf 3 which (UnionGraph.triples I s)) ∨
    (unionGraphForwardsAtoms = true ∧ ¬ UnionEnumCoherent) := by
  cases h : unionGraphForwardsAtoms with
  | false => exact Or.inl ⟨rfl, fun I s which hw => union_enum_atoms h s which hw⟩
  | true => exact Or.inr ⟨rfl, union_enum_atoms_defect h⟩

/-! ### mutations through `graph_mut(g)` -/

section mutations
variable {σ : Type} {I : Impl σ}

/-- **Inserting through `graph_mut(g)`** is the dataset's `insert(s, p, o, g)`: same new state, same
result; on success the store holds exactly the old quads plus `(s, p, o, g)`, every quad with another
graph name is untouched, every other graph view shows the same triples, and (set stores) the flag says
whether the quad was new; on the store's own error nothing changed. -/
theorem view_insert (L : Lawful I) (hcall : datasetGraphInsertCalls = .insert) {s : σ} (hs : L.Inv s)
    (h4 : I.n = 4) (g : GName) (t : Quad) :
    let q : Quad := ⟨t.s, t.p, t.o, g⟩
    let r := DatasetGraph.insert I s g t
    r.1 = (I.insert s q).1 ∧ r.2 = MutRes.ofOption (I.insert s q).2 ∧ L.Inv r.1 ∧
    (∀ b, r.2 = .ok b →
      SameSet (I.quads r.1) (q :: I.quads s) ∧
      (∀ x : Quad, gnameEq g x.g = false → qmem x (I.quads r.1) = qmem x (I.quads s)) ∧
      (∀ g' : GName, gnameEq g g' = false → SameSet (Spec.graph g' (I.quads r.1)) (Spec.graph g' (I.quads s)))) ∧
    (r.2 = .errInner → I.quads r.1 = I.quads s) ∧ r.2 ≠ .errOnlyDefaultGraph := by
  intro q r
  have hr : r = ((I.insert s q).1, MutRes.ofOption (I.insert s q).2) := by
    show DatasetGraph.insert I s g t = _
    unfold DatasetGraph.insert
    rw [hcall]; rfl
  have hq : I.n = 3 → q.g = none := fun h3 => by omega
  rw [hr]
  refine ⟨rfl, rfl, L.ins_inv q hs hq, ?_, ?_, ?_⟩
  · intro b hb
    cases hi : I.insert s q with
    | mk s' o =>
      rw [hi] at hb
      cases o with
      | none => cases hb
      | some b' =>
        show SameSet (I.quads s') _ ∧ (∀ x : Quad, _ → qmem x (I.quads s') = _) ∧
          (∀ g' : GName, _ → SameSet (Spec.graph g' (I.quads s')) _)
        have hS := L.ins_ok hs hq hi
        refine ⟨hS, fun x hx => other_graph_untouched hS x hx, fun g' hg' => ?_⟩
        refine (sameSet_graph g' hS).trans (SameSet.of_eq ?_)
        unfold Spec.graph
        rw [List.filter_cons]
        have : gnameEq g' q.g = false := by rw [gnameEq_symm]; exact hg'
        rw [this]; rfl
  · intro he
    cases hi : I.insert s q with
    | mk s' o =>
      rw [hi] at he
      cases o with
      | none => exact L.ins_err hs hi
      | some b' => cases he
  · cases (I.insert s q).2 <;> simp [MutRes.ofOption]

/-- the flag of an insertion through the view, for set stores: `true` iff the quad was absent -/
theorem view_insert_flag (L : LawfulSet I) (hcall : datasetGraphInsertCalls = .insert) {s : σ} (hs : L.Inv s)
    (h4 : I.n = 4) (g : GName) (t : Quad) (b : Bool)
    (h : (DatasetGraph.insert I s g t).2 = .ok b) : b = !qmem ⟨t.s, t.p, t.o, g⟩ (I.quads s) := by
  have h2 := (view_insert L.toLawful hcall hs h4 g t).2.1
  rw [h2] at h
  cases hi : I.insert s ⟨t.s, t.p, t.o, g⟩ with
  | mk s' o =>
    rw [hi] at h
    cases o with
    | none => cases h
    | some b' =>
      cases h
      exact L.ins_flag hs (fun h3 => by omega) hi

/-- **Removing through `graph_mut(g)`** is the dataset's `remove(s, p, o, g)`: exactly that quad goes,
quads with another graph name and the other graph views are untouched -/
theorem view_remove (L : Lawful I) (hcall : datasetGraphRemoveCalls = .remove) {s : σ} (hs : L.Inv s)
    (h4 : I.n = 4) (g : GName) (t : Quad) :
    let q : Quad := ⟨t.s, t.p, t.o, g⟩
    let r := DatasetGraph.remove I s g t
    r.1 = (I.remove s q).1 ∧ r.2 = .ok (I.remove s q).2 ∧ L.Inv r.1 ∧
    SameSet (I.quads r.1) ((I.quads s).filter (fun x => !quadEq x q)) ∧
    (∀ x : Quad, gnameEq g x.g = false → qmem x (I.quads r.1) = qmem x (I.quads s)) ∧
    (∀ g' : GName, gnameEq g g' = false → SameSet (Spec.graph g' (I.quads r.1)) (Spec.graph g' (I.quads s))) := by
  intro q r
  have hr : r = ((I.remove s q).1, .ok (I.remove s q).2) := by
    show DatasetGraph.remove I s g t = _
    unfold DatasetGraph.remove
    rw [hcall]; rfl
  have hq : I.n = 3 → q.g = none := fun h3 => by omega
  have hS := L.rem_ok q hs hq
  rw [hr]
  refine ⟨rfl, rfl, L.rem_inv q hs, hS, fun x hx => other_graph_untouched_rem hS x hx, fun g' hg' => ?_⟩
  refine (sameSet_graph g' hS).trans (SameSet.of_eq ?_)
  unfold Spec.graph
  rw [List.filter_filter]
  congr 1
  apply List.filter_congr
  intro x _
  cases hx : gnameEq g' x.g with
  | false => rfl
  | true =>
    have : quadEq x ⟨t.s, t.p, t.o, g⟩ = false := by
      have h1 : gnameEq x.g g = false := by
        cases hxg : gnameEq x.g g with
        | false => rfl
        | true =>
          have := gnameEq_trans _ _ _ hx hxg
          rw [gnameEq_symm] at this
          rw [this] at hg'; cases hg'
      simp [quadEq, h1]
    have hq' : quadEq x q = false := this
    show (true && !quadEq x q) = true
    rw [hq']; rfl

theorem view_remove_flag (L : LawfulSet I) (hcall : datasetGraphRemoveCalls = .remove) {s : σ} (hs : L.Inv s)
    (h4 : I.n = 4) (g : GName) (t : Quad) :
    (DatasetGraph.remove I s g t).2 = .ok (qmem ⟨t.s, t.p, t.o, g⟩ (I.quads s)) := by
  rw [(view_remove L.toLawful hcall hs h4 g t).2.1, L.rem_flag _ hs (fun h3 => by omega)]

/-! ### mutations through `as_dataset_mut()` -/

/-- **Inserting through `as_dataset_mut()`**: a quad of a named graph is refused
(`OnlyDefaultGraph`, nothing changes); a quad of the default graph is the graph's own `insert` -/
theorem as_dataset_mut_insert (L : Lawful I) (hcall : graphAsDatasetInsertCalls = .insert) {s : σ}
    (hs : L.Inv s) (q : Quad) :
    let t : Quad := ⟨q.s, q.p, q.o, none⟩
    let r := GraphAsDataset.insert I s q
    (q.g ≠ none → r = (s, .errOnlyDefaultGraph)) ∧
    (q.g = none → r.1 = (I.insert s t).1 ∧ r.2 = MutRes.ofOption (I.insert s t).2 ∧ L.Inv r.1 ∧
      (∀ b, r.2 = .ok b → SameSet (I.quads r.1) (t :: I.quads s)) ∧
      (r.2 = .errInner → I.quads r.1 = I.quads s)) := by
  intro t r
  constructor
  · intro hg
    show GraphAsDataset.insert I s q = _
    unfold GraphAsDataset.insert
    cases hq : q.g with
    | none => exact absurd hq hg
    | some g => rfl
  · intro hg
    have hr : r = ((I.insert s t).1, MutRes.ofOption (I.insert s t).2) := by
      show GraphAsDataset.insert I s q = _
      unfold GraphAsDataset.insert
      rw [hg, hcall]; rfl
    rw [hr]
    refine ⟨rfl, rfl, L.ins_inv t hs (fun _ => rfl), ?_, ?_⟩
    · intro b hb
      cases hi : I.insert s t with
      | mk s' o =>
        rw [hi] at hb
        cases o with
        | none => cases hb
        | some b' => exact L.ins_ok hs (fun _ => rfl) hi
    · intro he
      cases hi : I.insert s t with
      | mk s' o =>
        rw [hi] at he
        cases o with
        | none => exact L.ins_err hs hi
        | some b' => cases he

theorem as_dataset_mut_insert_flag (L : LawfulSet I) (hcall : graphAsDatasetInsertCalls = .insert) {s : σ}
    (hs : L.Inv s) (q : Quad) (hg : q.g = none) (b : Bool) (h : (GraphAsDataset.insert I s q).2 = .ok b) :
    b = !qmem ⟨q.s, q.p, q.o, none⟩ (I.quads s) := by
  have h2 := ((as_dataset_mut_insert L.toLawful hcall hs q).2 hg).2.1
  rw [h2] at h
  cases hi : I.insert s ⟨q.s, q.p, q.o, none⟩ with
  | mk s' o =>
    rw [hi] at h
    cases o with
    | none => cases h
    | some b' =>
      cases h
      exact L.ins_flag hs (fun _ => rfl) hi

/-- the full statement about removal through `as_dataset_mut()`, for every lawful set implementation:
a quad of a named graph is never there (`false`, no change); a quad of the default graph is removed
exactly, and the flag says whether it was there -/
def AsDatasetMutRemoveSpec : Prop :=
  ∀ {σ : Type} (I : Impl σ) (L : LawfulSet I) (s : σ), L.Inv s → I.n = 3 → ∀ q : Quad,
    let t : Quad := ⟨q.s, q.p, q.o, none⟩
    let r := GraphAsDataset.remove I s q
    (q.g ≠ none → r = (s, .ok false)) ∧
    (q.g = none → r.1 = (I.remove s t).1 ∧ L.Inv r.1 ∧ r.2 = .ok (qmem t (I.quads s)) ∧
      SameSet (I.quads r.1) ((I.quads s).filter (fun x => !quadEq x t)))

/-- **Removing through `as_dataset_mut()`** — holds as soon as the body calls the graph's `remove`
(the text of notes/fixes/C11-gad-remove.diff) -/
theorem as_dataset_mut_remove (hcall : graphAsDatasetRemoveCalls = .remove) : AsDatasetMutRemoveSpec := by
  intro σ I L s hs h3 q t r
  constructor
  · intro hg
    show GraphAsDataset.remove I s q = _
    unfold GraphAsDataset.remove
    cases hq : q.g with
    | none => exact absurd hq hg
    | some g => rfl
  · intro hg
    have hr : r = ((I.remove s t).1, .ok (I.remove s t).2) := by
      show GraphAsDataset.remove I s q = _
      unfold GraphAsDataset.remove
      rw [hg, hcall]; rfl
    rw [hr]
    exact ⟨rfl, L.rem_inv t hs, by rw [L.rem_flag t hs (fun _ => rfl)], L.rem_ok t hs (fun _ => rfl)⟩

/-- **Regression witness** (the defect repaired by 12da6cd; VACUOUS for the current source, where the flag is
`.remove` — kept, outside the audited obligations, as is `as_dataset_mut_remove_refuted`).  While the body
calls the graph's `insert`, removing an ABSENT triple through `as_dataset_mut()` answers `true` and ADDS it
(fresh `LightGraph`, one operation). -/
theorem as_dataset_mut_remove_defect (hcall : graphAsDatasetRemoveCalls = .insert) :
    let I := storeImpl Gen.genericLightGraph
    let s0 := St.new Gen.genericLightGraph.shape Gen.maxU32
    let t : Quad := ⟨.iri "x:s".toList, .iri "x:p".toList, .iri "x:o".toList, none⟩
    qmem t (I.quads s0) = false ∧ (GraphAsDataset.remove I s0 t).2 = .ok true ∧
      qmem t (I.quads (GraphAsDataset.remove I s0 t).1) = true := by
  intro I s0 t
  have : GraphAsDataset.remove I s0 t = callMut I .insert s0 ⟨t.s, t.p, t.o, none⟩ := by
    unfold GraphAsDataset.remove
    rw [hcall]; rfl
  rw [this]
  decide

theorem as_dataset_mut_remove_refuted (hcall : graphAsDatasetRemoveCalls = .insert) : ¬ AsDatasetMutRemoveSpec := by
  intro h
  obtain ⟨h1, h2, _⟩ := as_dataset_mut_remove_defect hcall
  have hG := good_new gen_tables_ok.2.2.1 Gen.maxU32
  have := ((h (storeImpl Gen.genericLightGraph) (storeLawful _ gen_tables_ok.2.2.1) _ hG rfl
    ⟨.iri "x:s".toList, .iri "x:p".toList, .iri "x:o".toList, none⟩).2 rfl).2.2.1
  rw [this] at h2
  rw [h1] at h2
  cases h2

/-- which of the two holds for the source as it is now (re-decided on every run) -/
theorem as_dataset_mut_remove_verdict :
    (graphAsDatasetRemoveCalls = .remove ∧ AsDatasetMutRemoveSpec) ∨
    (graphAsDatasetRemoveCalls = .insert ∧ ¬ AsDatasetMutRemoveSpec) := by
  cases h : graphAsDatasetRemoveCalls with
  | remove => exact Or.inl ⟨rfl, as_dataset_mut_remove h⟩
  | insert => exact Or.inr ⟨rfl, as_dataset_mut_remove_refuted h⟩

end mutations

/-! ### histories alternating direct operations and mutations through views -/

/-- **Coherence over histories.** After ANY finite history mixing direct operations (insert, remove,
insert_all, remove_all, remove_matching, retain_matching) with insertions / removals through
`graph_mut(g)` (any graph names: default, IRI, blank, absent) and through `as_dataset_mut()`, on any
generated store type and index width — index-full errors included — the store is in a `Good` state
and holds exactly (modulo `Term::eq`, each quad once) what the plain-set specification of C01 holds
after the corresponding DIRECT operations with the view's graph name.  Holds for histories without
`as_dataset_mut().remove` as the source is now, and for all histories once that body calls `remove`. -/
theorem run_coherent (d : StoreDesc) (hd : descOK d = true) (max : Nat) (ops : List VOp)
    (hi : datasetGraphInsertCalls = .insert) (hr : datasetGraphRemoveCalls = .remove)
    (hgi : graphAsDatasetInsertCalls = .insert)
    (hgr : graphAsDatasetRemoveCalls = .remove ∨ usesAsdsRem ops = false)
    (hok : ∀ op ∈ ops, VOpOK d op) :
    let s := ops.foldl (stepV d) (St.new d.shape max)
    let σ := (ops.flatMap flatten).foldl (stepSF max d.n) ⟨[], []⟩
    Good d s ∧ SameSet (abs s) σ.quads ∧ NodupQ (abs s) := by
  intro s σ
  have hs : s = (ops.flatMap flatten).foldl (stepM d) (St.new d.shape max) := run_flatten d hi hr hgi ops _ hgr
  have hq : ∀ o ∈ ops.flatMap flatten, OpOK d o := by
    intro o ho
    obtain ⟨op, hop, hoo⟩ := List.mem_flatMap.1 ho
    exact flatten_ok (hok op hop) o hoo
  obtain ⟨h1, h2, h3, _⟩ := run_refines_full d hd max (ops.flatMap flatten) hq
  rw [hs]
  exact ⟨h1, h2, h3⟩

/-! ### the source as it is now (flags regenerated from adapter.rs on every run)

These facts are `decide`d against `Gen/AdapterFlags.lean`: if a body of /repo changes to call another
method, they stop building (and the differential shows the failing history). -/

/-- every mutating adapter method calls the right method of the wrapped store, and `UnionGraph` does
not forward the atom enumerations to the dataset -/
theorem forwarding_flags_now :
    datasetGraphInsertCalls = .insert ∧ datasetGraphRemoveCalls = .remove ∧
    graphAsDatasetInsertCalls = .insert ∧ graphAsDatasetRemoveCalls = .remove ∧
    unionGraphForwardsAtoms = false := by
  decide

/-! #### the one-step mutation theorems, unconditionally for the current source -/

section now
variable {σ : Type} {I : Impl σ}

theorem view_insert_now (L : Lawful I) {s : σ} (hs : L.Inv s)
    (h4 : I.n = 4) (g : GName) (t : Quad) :
    let q : Quad := ⟨t.s, t.p, t.o, g⟩
    let r := DatasetGraph.insert I s g t
    r.1 = (I.insert s q).1 ∧ r.2 = MutRes.ofOption (I.insert s q).2 ∧ L.Inv r.1 ∧
    (∀ b, r.2 = .ok b →
      SameSet (I.quads r.1) (q :: I.quads s) ∧
      (∀ x : Quad, gnameEq g x.g = false → qmem x (I.quads r.1) = qmem x (I.quads s)) ∧
      (∀ g' : GName, gnameEq g g' = false → SameSet (Spec.graph g' (I.quads r.1)) (Spec.graph g' (I.quads s)))) ∧
    (r.2 = .errInner → I.quads r.1 = I.quads s) ∧ r.2 ≠ .errOnlyDefaultGraph :=
  view_insert L forwarding_flags_now.1 hs h4 g t

theorem view_insert_flag_now (L : LawfulSet I) {s : σ} (hs : L.Inv s)
    (h4 : I.n = 4) (g : GName) (t : Quad) (b : Bool)
    (h : (DatasetGraph.insert I s g t).2 = .ok b) : b = !qmem ⟨t.s, t.p, t.o, g⟩ (I.quads s) :=
  view_insert_flag L forwarding_flags_now.1 hs h4 g t b h

theorem view_remove_now (L : Lawful I) {s : σ} (hs : L.Inv s)
    (h4 : I.n = 4) (g : GName) (t : Quad) :
    let q : Quad := ⟨t.s, t.p, t.o, g⟩
    let r := DatasetGraph.remove I s g t
    r.1 = (I.remove s q).1 ∧ r.2 = .ok (I.remove s q).2 ∧ L.Inv r.1 ∧
    SameSet (I.quads r.1) ((I.quads s).filter (fun x => !quadEq x q)) ∧
    (∀ x : Quad, gnameEq g x.g = false → qmem x (I.quads r.1) = qmem x (I.quads s)) ∧
    (∀ g' : GName, gnameEq g g' = false → SameSet (Spec.graph g' (I.quads r.1)) (Spec.graph g' (I.quads s))) :=
  view_remove L forwarding_flags_now.2.1 hs h4 g t

theorem view_remove_flag_now (L : LawfulSet I) {s : σ} (hs : L.Inv s)
    (h4 : I.n = 4) (g : GName) (t : Quad) :
    (DatasetGraph.remove I s g t).2 = .ok (qmem ⟨t.s, t.p, t.o, g⟩ (I.quads s)) :=
  view_remove_flag L forwarding_flags_now.2.1 hs h4 g t

theorem as_dataset_mut_insert_now (L : Lawful I) {s : σ}
    (hs : L.Inv s) (q : Quad) :
    let t : Quad := ⟨q.s, q.p, q.o, none⟩
    let r := GraphAsDataset.insert I s q
    (q.g ≠ none → r = (s, .errOnlyDefaultGraph)) ∧
    (q.g = none → r.1 = (I.insert s t).1 ∧ r.2 = MutRes.ofOption (I.insert s t).2 ∧ L.Inv r.1 ∧
      (∀ b, r.2 = .ok b → SameSet (I.quads r.1) (t :: I.quads s)) ∧
      (r.2 = .errInner → I.quads r.1 = I.quads s)) :=
  as_dataset_mut_insert L forwarding_flags_now.2.2.1 hs q

theorem as_dataset_mut_insert_flag_now (L : LawfulSet I) {s : σ}
    (hs : L.Inv s) (q : Quad) (hg : q.g = none) (b : Bool) (h : (GraphAsDataset.insert I s q).2 = .ok b) :
    b = !qmem ⟨q.s, q.p, q.o, none⟩ (I.quads s) :=
  as_dataset_mut_insert_flag L forwarding_flags_now.2.2.1 hs q hg b h

end now

/-- **the reference forwarding impls are the identity**: every method of `impl Dataset for &T`, `impl Dataset for
&mut T`, `impl Graph for &T`, `impl Graph for &mut T`, `impl MutableDataset for &mut T`, `impl MutableGraph for
&mut T` recorded from the source (`Gen/ViewGlue.lean`, 58 methods) calls the same method of `T` with its own
parameters — which is how the model treats the `&D` / `&mut D` / `&G` / `&mut G` inside the views -/
theorem ref_forwarding_identity : refForwardOK Gen.ViewGlue.refForward = true := by
  decide

/-- **the default bulk methods are the transcribed ones**: the twelve default bodies of the `Mutable*` traits
that `Adapter.Defaults` models are still the transcribed text -/
theorem default_bulk_transcribed : defaultBulkOK Gen.ViewGlue.defaultBulk = true := by
  decide

/-- **Removing through `as_dataset_mut()`, unconditionally for the current source** -/
theorem as_dataset_mut_remove_now : AsDatasetMutRemoveSpec :=
  as_dataset_mut_remove forwarding_flags_now.2.2.2.1

/-- **`UnionGraph`'s enumerations, unconditionally for the current source**: every enumeration of the
union graph is the enumeration of its own triples (no graph names) — for every implementation -/
theorem union_enum_now {σ : Type} (I : Impl σ) (s : σ) (which : String) :
    UnionGraph.enumerate I s which = StoreProto.enumOf 3 which (UnionGraph.triples I s) := by
  by_cases h1 : which = "subjects"
  · exact union_enum_spo s which (Or.inl h1)
  by_cases h2 : which = "predicates"
  · exact union_enum_spo s which (Or.inr (Or.inl h2))
  by_cases h3 : which = "objects"
  · exact union_enum_spo s which (Or.inr (Or.inr h3))
  exact union_enum_atoms forwarding_flags_now.2.2.2.2 s which ⟨h1, h2, h3⟩

theorem union_enum_coherent_now : UnionEnumCoherent :=
  fun d s _ _ which _ => union_enum_now (storeImpl d) s which

/-- **Coherence over ALL histories, unconditionally for the current source** (`run_coherent` with its
flag hypotheses discharged; `as_dataset_mut().remove` included) -/
theorem run_coherent_now (d : StoreDesc) (hd : descOK d = true) (max : Nat) (ops : List VOp)
    (hok : ∀ op ∈ ops, VOpOK d op) :
    let s := ops.foldl (stepV d) (St.new d.shape max)
    let σ := (ops.flatMap flatten).foldl (stepSF max d.n) ⟨[], []⟩
    Good d s ∧ SameSet (abs s) σ.quads ∧ NodupQ (abs s) :=
  run_coherent d hd max ops forwarding_flags_now.1 forwarding_flags_now.2.1 forwarding_flags_now.2.2.1
    (Or.inl forwarding_flags_now.2.2.2.1) hok

/-! ### bulk mutations through `graph_mut(g)`: the DEFAULT methods of `MutableGraph` over the view

No adapter overrides `insert_all` / `remove_all` / `remove_matching` / `retain_matching` (extractor: the method
set of `MutableGraph for DatasetGraph` and of `MutableDataset for GraphAsDataset` is exactly `insert`,
`remove`), so on a mutable view they are `Adapter.Defaults` over the view's own methods.  Stated for the source
as it is now (`forwarding_flags_now`): a regression of a forwarding flag stops them building. -/

section bulk
variable {σ : Type} {I : Impl σ}

/-- **`remove_all` through `graph_mut(g)`** (the `MutableGraph` default over the view): it never fails; the
store loses exactly the quads `(t, g)`; every quad of another graph and every other graph view is untouched -/
theorem view_remove_all (L : Lawful I) {s : σ} (hs : L.Inv s) (h4 : I.n = 4) (g : GName) (ts : List Quad) :
    ∃ s' c, DatasetGraph.removeAll I s g ts = (s', .ok c) ∧ L.Inv s' ∧
      SameSet (I.quads s') ((I.quads s).filter (fun x => !qmem x (ts.map (withG g)))) ∧
      (∀ x : Quad, gnameEq g x.g = false → qmem x (I.quads s') = qmem x (I.quads s)) ∧
      (∀ g' : GName, gnameEq g g' = false → SameSet (Spec.graph g' (I.quads s')) (Spec.graph g' (I.quads s))) := by
  obtain ⟨s', c, he, hi, hS⟩ := removeAll_lawful L (dg_remIs (I := I) forwarding_flags_now.2.1 g) (fun _ _ _ h3 => by omega) ts 0 hs
  rw [filterMap_some_map] at hS
  exact ⟨s', c, he, hi, hS, others_untouched_of_filter g ts hS⟩

/-- … and for set stores the count is the number of effective removals of the plain-list specification -/
theorem view_remove_all_count (L : LawfulSet I) {s : σ} (hs : L.Inv s) (h4 : I.n = 4) (g : GName) (ts : List Quad) :
    (DatasetGraph.removeAll I s g ts).2 = .ok (specRemoveAll (I.quads s) (ts.map (withG g)) 0).2 := by
  obtain ⟨s', he, _, _⟩ := removeAll_lawfulSet L (dg_remIs (I := I) forwarding_flags_now.2.1 g) (fun _ _ _ h3 => by omega) ts 0 _ hs (SameSet.refl _)
  rw [filterMap_some_map] at he
  show (Defaults.removeAll (fun s t => DatasetGraph.remove I s g t) s ts 0).2 = _
  rw [he]

/-- **`remove_matching` through `graph_mut(g)`** (the `MutableGraph` default: collect
`self.triples_matching(sm, pm, om)`, then `remove_all`): exactly the quads of graph `g` whose triple matches
go; every other graph is untouched -/
theorem view_remove_matching (L : Lawful I) {s : σ} (hs : L.Inv s) (h4 : I.n = 4) (g : GName) (sm pm om : TM) :
    ∃ s' c, DatasetGraph.removeMatching I s g sm pm om = (s', .ok c) ∧ L.Inv s' ∧
      SameSet (I.quads s') ((I.quads s).filter (fun q => !(gnameEq g q.g && Spec.tripleMatched sm pm om q))) ∧
      (∀ x : Quad, gnameEq g x.g = false → qmem x (I.quads s') = qmem x (I.quads s)) ∧
      (∀ g' : GName, gnameEq g g' = false → SameSet (Spec.graph g' (I.quads s')) (Spec.graph g' (I.quads s))) := by
  obtain ⟨s', c, he, hi, hS, ho⟩ := view_remove_all L hs h4 g (DatasetGraph.triplesMatching I s g sm pm om)
  refine ⟨s', c, he, hi, hS.trans (SameSet.of_eq ?_), ho⟩
  apply List.filter_congr
  intro x hx
  have hperm := ((view_query L.toLawfulRead hs h4 sm pm om).2.2 g).trans ((dataset_graph_view L.toLawfulRead hs h4 g).filter _)
  rw [qmem_collected g (Spec.tripleMatched sm pm om) (tripleMatched_resp sm pm om) (fun _ _ => rfl) _
    (fun t => (hperm.mem_iff).trans List.mem_filter) x hx]

/-- … and for set stores the count is the number of quads of graph `g` whose triple matches -/
theorem view_remove_matching_count (L : LawfulSet I) {s : σ} (hs : L.Inv s) (h4 : I.n = 4) (g : GName) (sm pm om : TM) :
    (DatasetGraph.removeMatching I s g sm pm om).2 =
      .ok ((I.quads s).filter (fun q => gnameEq g q.g && Spec.tripleMatched sm pm om q)).length := by
  have hperm := ((view_query L.toLawfulRead hs h4 sm pm om).2.2 g).trans ((dataset_graph_view L.toLawfulRead hs h4 g).filter _)
  have hc := view_remove_all_count L hs h4 g (DatasetGraph.triplesMatching I s g sm pm om)
  show (DatasetGraph.removeAll I s g (DatasetGraph.triplesMatching I s g sm pm om)).2 = _
  rw [hc, specRemoveAll_nodup _ _ 0 (nodupQ_collected L hs g _ _ hperm)]
  · rw [Nat.zero_add, List.length_map, hperm.length_eq]
    unfold Spec.graph
    rw [← filter_map_intoTriple, List.length_map]
  · intro q hq
    obtain ⟨t, ht, rfl⟩ := List.mem_map.1 hq
    obtain ⟨ht1, _⟩ := List.mem_filter.1 (hperm.mem_iff.1 ht)
    obtain ⟨y, hy, rfl⟩ := List.mem_map.1 ht1
    obtain ⟨hy1, hy2⟩ := List.mem_filter.1 hy
    exact qmem_iff.2 ⟨y, hy1, quadEq_withG' hy2⟩

/-- **`retain_matching` through `graph_mut(g)`** (the `MutableGraph` default: collect the triples of
`self.triples()` not matched, then `remove_all`): graph `g` keeps exactly its matching triples — and every
OTHER graph keeps everything (the store is NOT filtered as a whole) -/
theorem view_retain_matching (L : Lawful I) {s : σ} (hs : L.Inv s) (h4 : I.n = 4) (g : GName) (sm pm om : TM) :
    ∃ s' c, DatasetGraph.retainMatching I s g sm pm om = (s', .ok c) ∧ L.Inv s' ∧
      SameSet (I.quads s') ((I.quads s).filter (fun q => !gnameEq g q.g || Spec.tripleMatched sm pm om q)) ∧
      (∀ x : Quad, gnameEq g x.g = false → qmem x (I.quads s') = qmem x (I.quads s)) ∧
      (∀ g' : GName, gnameEq g g' = false → SameSet (Spec.graph g' (I.quads s')) (Spec.graph g' (I.quads s))) := by
  obtain ⟨s', c, he, hi, hS, ho⟩ := view_remove_all L hs h4 g
    ((DatasetGraph.triples I s g).filter (fun t => !Spec.tripleMatched sm pm om t))
  refine ⟨s', c, he, hi, hS.trans (SameSet.of_eq ?_), ho⟩
  apply List.filter_congr
  intro x hx
  have hperm := (dataset_graph_view L.toLawfulRead hs h4 g).filter (fun t => !Spec.tripleMatched sm pm om t)
  rw [qmem_collected g (fun t => !Spec.tripleMatched sm pm om t) (tripleMatched_resp sm pm om).not
    (fun _ _ => rfl) _ (fun t => (hperm.mem_iff).trans List.mem_filter) x hx]
  cases gnameEq g x.g <;> cases Spec.tripleMatched sm pm om x <;> rfl

/-- **`insert_all` through `graph_mut(g)`** (the `MutableGraph` default over the view): either every triple
was inserted into graph `g` — the store holds the old quads plus the quads `(t, g)` — or the store's own error
(index full) ended it after `k` of them; in both cases the other graphs are untouched -/
theorem view_insert_all (L : Lawful I) {s : σ} (hs : L.Inv s) (h4 : I.n = 4) (g : GName) (ts : List Quad) :
    (∃ s' c, DatasetGraph.insertAll I s g ts = (s', .ok c) ∧ L.Inv s' ∧
      SameSet (I.quads s') ((ts.map (withG g)).reverse ++ I.quads s) ∧
      (∀ x : Quad, gnameEq g x.g = false → qmem x (I.quads s') = qmem x (I.quads s))) ∨
    (∃ s' k, DatasetGraph.insertAll I s g ts = (s', .errInner) ∧ L.Inv s' ∧ k < ts.length ∧
      SameSet (I.quads s') (((ts.take k).map (withG g)).reverse ++ I.quads s) ∧
      (∀ x : Quad, gnameEq g x.g = false → qmem x (I.quads s') = qmem x (I.quads s))) := by
  have other : ∀ (l : List Quad) (l' : List Quad), SameSet l' ((l.map (withG g)).reverse ++ I.quads s) →
      ∀ x : Quad, gnameEq g x.g = false → qmem x l' = qmem x (I.quads s) := by
    intro l l' h x hx
    rw [h x, qmem_append]
    have : qmem x (l.map (withG g)).reverse = false := by
      rw [qmem_false_iff]
      intro y hy
      exact qmem_false_iff.1 (qmem_withG_other g l x hx) y (List.mem_reverse.1 hy)
    rw [this, Bool.false_or]
  rcases insertAll_lawful L (dg_insIs (I := I) forwarding_flags_now.1 g) (fun _ h3 => by omega) ts 0 hs with
    ⟨s', c, he, hi, hS⟩ | ⟨s', k, he, hi, hk, hS⟩
  · exact Or.inl ⟨s', c, he, hi, hS, other _ _ hS⟩
  · exact Or.inr ⟨s', k, he, hi, hk, hS, other _ _ hS⟩

/-- … and for set stores a successful `insert_all` through the view counts the effective insertions of the
plain-list specification -/
theorem view_insert_all_count (L : LawfulSet I) {s s' : σ} (hs : L.Inv s) (h4 : I.n = 4) (g : GName) (ts : List Quad)
    (c : Nat) (h : DatasetGraph.insertAll I s g ts = (s', .ok c)) :
    c = (specInsertAll (I.quads s) (ts.map (withG g)) 0).2 ∧
      SameSet (I.quads s') (specInsertAll (I.quads s) (ts.map (withG g)) 0).1 :=
  insertAll_lawfulSet L (dg_insIs (I := I) forwarding_flags_now.1 g) (fun _ h3 => by omega) ts 0 c _ hs (SameSet.refl _) h

/-! ### bulk mutations through `as_dataset_mut()` -/

/-- **`remove_all` through `as_dataset_mut()`** (the `MutableDataset` default over the view): it never fails;
quads of named graphs are ignored; the graph loses exactly the listed triples of the default graph -/
theorem as_dataset_mut_remove_all (L : Lawful I) {s : σ} (hs : L.Inv s) (qs : List Quad) :
    ∃ s' c, GraphAsDataset.removeAll I s qs = (s', .ok c) ∧ L.Inv s' ∧
      SameSet (I.quads s') ((I.quads s).filter (fun x => !qmem x (qs.filterMap asTriple))) := by
  refine removeAll_lawful L (gad_remIs (I := I) forwarding_flags_now.2.2.2.1) ?_ qs 0 hs
  intro t q hq _
  unfold asTriple at hq
  split at hq
  · cases hq; rfl
  · cases hq

theorem as_dataset_mut_remove_all_count (L : LawfulSet I) {s : σ} (hs : L.Inv s) (qs : List Quad) :
    (GraphAsDataset.removeAll I s qs).2 = .ok (specRemoveAll (I.quads s) (qs.filterMap asTriple) 0).2 := by
  obtain ⟨s', he, _, _⟩ := removeAll_lawfulSet L (gad_remIs (I := I) forwarding_flags_now.2.2.2.1) (by
    intro t q hq _
    unfold asTriple at hq
    split at hq
    · cases hq; rfl
    · cases hq) qs 0 _ hs (SameSet.refl _)
  show (Defaults.removeAll (GraphAsDataset.remove I) s qs 0).2 = _
  rw [he]

/-- **`insert_all` through `as_dataset_mut()`, all quads in the default graph**: as for `graph_mut` -/
theorem as_dataset_mut_insert_all (L : Lawful I) {s : σ} (hs : L.Inv s) (qs : List Quad) (hq : ∀ q ∈ qs, q.g = none) :
    (∃ s' c, GraphAsDataset.insertAll I s qs = (s', .ok c) ∧ L.Inv s' ∧
      SameSet (I.quads s') ((qs.map (withG none)).reverse ++ I.quads s)) ∨
    (∃ s' k, GraphAsDataset.insertAll I s qs = (s', .errInner) ∧ L.Inv s' ∧ k < qs.length ∧
      SameSet (I.quads s') (((qs.take k).map (withG none)).reverse ++ I.quads s)) := by
  have hins : InsIs I (fun s q => callMut I .insert s (withG none q)) (withG none) := fun _ _ => rfl
  have hc : GraphAsDataset.insertAll I s qs = Defaults.insertAll (fun s q => callMut I .insert s (withG none q)) s qs 0 := by
    refine defaults_insertAll_congr qs s 0 ?_
    intro q hqm s1
    unfold GraphAsDataset.insert
    rw [hq q hqm, forwarding_flags_now.2.2.1]; rfl
  rw [hc]
  exact insertAll_lawful L hins (fun _ _ => rfl) qs 0 hs

/-- … and a quad of a named graph is refused: the insertion ends there with `OnlyDefaultGraph`, the quads
before it inserted (first element named: nothing changes) -/
theorem as_dataset_mut_insert_all_named (s : σ) (q : Quad) (qs : List Quad) (hq : q.g ≠ none) :
    GraphAsDataset.insertAll I s (q :: qs) = (s, .errOnlyDefaultGraph) := by
  show (match GraphAsDataset.insert I s q with
    | (s', .ok b) => Defaults.insertAll (GraphAsDataset.insert I) s' qs (if b then 0 + 1 else 0)
    | (s', .errInner) => (s', .errInner)
    | (s', .errOnlyDefaultGraph) => (s', .errOnlyDefaultGraph)) = _
  have : GraphAsDataset.insert I s q = (s, .errOnlyDefaultGraph) := by
    unfold GraphAsDataset.insert
    cases hg : q.g with
    | none => exact absurd hg hq
    | some g => rfl
  rw [this]

/-! ### histories on ANY lawful set implementation, bulk operations through views included -/

theorem step_views (L : LawfulSet I) (h4 : I.n = 4) {s : σ} {d : List Quad} (hs : L.Inv s)
    (hd : SameSet (I.quads s) d) (op : GOp) (hok : (stepG I s op).2 = true) :
    L.Inv (stepG I s op).1 ∧ SameSet (I.quads (stepG I s op).1) (specG d op) := by
  have insCase : ∀ q : Quad, (I.insert s q).2.isSome = true →
      L.Inv (I.insert s q).1 ∧ SameSet (I.quads (I.insert s q).1) (Spec.insert d q).1 := by
    intro q hq
    refine ⟨L.ins_inv q hs (fun h3 => by omega), ?_⟩
    cases hi : I.insert s q with
    | mk s1 o =>
      rw [hi] at hq
      cases o with
      | none => cases hq
      | some b => exact (L.ins_ok hs (fun h3 => by omega) hi).trans (spec_insert_fst hd q)
  have remCase : ∀ q : Quad,
      L.Inv (I.remove s q).1 ∧ SameSet (I.quads (I.remove s q).1) (Spec.remove d q).1 :=
    fun q => ⟨L.rem_inv q hs, (L.rem_ok q hs (fun h3 => by omega)).trans (spec_remove_fst hd q)⟩
  cases op with
  | ins q => exact insCase q hok
  | rem q => exact remCase q
  | vIns g t =>
    have h := dg_insIs (I := I) forwarding_flags_now.1 g s t
    have h' : DatasetGraph.insert I s g t = ((I.insert s (withG g t)).1, MutRes.ofOption (I.insert s (withG g t)).2) := h
    show L.Inv (DatasetGraph.insert I s g t).1 ∧ SameSet (I.quads (DatasetGraph.insert I s g t).1) _
    have hok' : resOk (DatasetGraph.insert I s g t).2 = true := hok
    rw [h'] at hok' ⊢
    refine insCase (withG g t) ?_
    revert hok'
    cases (I.insert s (withG g t)).2 <;> simp [MutRes.ofOption, resOk]
  | vRem g t =>
    have h := dg_remIs (I := I) forwarding_flags_now.2.1 g s t
    have h' : DatasetGraph.remove I s g t = ((I.remove s (withG g t)).1, .ok (I.remove s (withG g t)).2) := h
    show L.Inv (DatasetGraph.remove I s g t).1 ∧ SameSet (I.quads (DatasetGraph.remove I s g t).1) _
    rw [h']
    exact remCase (withG g t)
  | vInsAll g ts =>
    show L.Inv (DatasetGraph.insertAll I s g ts).1 ∧ SameSet (I.quads (DatasetGraph.insertAll I s g ts).1) _
    have hok' : bulkOk (DatasetGraph.insertAll I s g ts).2 = true := hok
    rcases view_insert_all L.toLawful hs h4 g ts with ⟨s', c, he, hi, _, _⟩ | ⟨s', k, he, _, _, _, _⟩
    · rw [he]
      exact ⟨hi, (insertAll_lawfulSet L (dg_insIs (I := I) forwarding_flags_now.1 g) (fun _ h3 => by omega) ts 0 c d hs hd he).2⟩
    · rw [he] at hok'; cases hok'
  | vRemAll g ts =>
    show L.Inv (DatasetGraph.removeAll I s g ts).1 ∧ SameSet (I.quads (DatasetGraph.removeAll I s g ts).1) _
    obtain ⟨s', he, hi, hS⟩ := removeAll_lawfulSet L (dg_remIs (I := I) forwarding_flags_now.2.1 g) (fun _ _ _ h3 => by omega) ts 0 d hs hd
    rw [filterMap_some_map] at he hS
    have he' : DatasetGraph.removeAll I s g ts = (s', .ok (specRemoveAll d (ts.map (withG g)) 0).2) := he
    rw [he']
    exact ⟨hi, hS⟩
  | vRemM g sm pm om =>
    show L.Inv (DatasetGraph.removeMatching I s g sm pm om).1 ∧ SameSet (I.quads (DatasetGraph.removeMatching I s g sm pm om).1) _
    obtain ⟨s', c, he, hi, hS, _⟩ := view_remove_matching L.toLawful hs h4 g sm pm om
    rw [he]
    exact ⟨hi, hS.trans (SameSet.filter (resp_remM g sm pm om) hd)⟩
  | vRetM g sm pm om =>
    show L.Inv (DatasetGraph.retainMatching I s g sm pm om).1 ∧ SameSet (I.quads (DatasetGraph.retainMatching I s g sm pm om).1) _
    obtain ⟨s', c, he, hi, hS, _⟩ := view_retain_matching L.toLawful hs h4 g sm pm om
    rw [he]
    exact ⟨hi, hS.trans (SameSet.filter (resp_retM g sm pm om) hd)⟩

/-- **Coherence over histories, for every lawful set implementation** (indexed stores in `Good` states, std
`HashSet` / `BTreeSet` of quads): after any history of direct insertions / removals and of mutations through
`graph_mut(g)` — single ones and the four default bulk methods, any graph names — that did not hit the store's
own error, the invariant holds and the store holds exactly (modulo `Term::eq`) what the plain-list
specification holds after the corresponding operations "on the quads named `g`" -/
theorem run_views_coherent (L : LawfulSet I) (h4 : I.n = 4) :
    ∀ (ops : List GOp) {s : σ} {d : List Quad}, L.Inv s → SameSet (I.quads s) d → (runG I s ops).2 = true →
      L.Inv (runG I s ops).1 ∧ SameSet (I.quads (runG I s ops).1) (ops.foldl specG d)
  | [], _, _, hs, hd, _ => ⟨hs, hd⟩
  | op :: ops, s, d, hs, hd, hok => by
    have hrun : runG I s (op :: ops) =
        if (stepG I s op).2 then runG I (stepG I s op).1 ops else ((stepG I s op).1, false) := rfl
    rw [hrun] at hok ⊢
    cases hstep : (stepG I s op).2 with
    | false => rw [hstep] at hok; cases hok
    | true =>
      rw [hstep] at hok
      simp only [if_true] at hok ⊢
      obtain ⟨h1, h2⟩ := step_views L h4 hs hd op hstep
      exact run_views_coherent L h4 ops h1 h2 hok

/-- `run_views_coherent` for every shipped dataset type: the indexed datasets (both generated descriptions,
any index width) from the empty store, std `HashSet` / `BTreeSet` of quads from the empty set -/
theorem run_views_coherent_store_types (ops : List GOp) :
    (∀ d ∈ [Gen.genericLightDataset, Gen.genericFastDataset], ∀ max : Nat,
      (runG (storeImpl d) (St.new d.shape max) ops).2 = true →
        Good d (runG (storeImpl d) (St.new d.shape max) ops).1 ∧
        SameSet (abs (runG (storeImpl d) (St.new d.shape max) ops).1) (ops.foldl specG [])) ∧
    ((runG (setImpl 4) [] ops).2 = true →
        SetInv 4 (runG (setImpl 4) [] ops).1 ∧ SameSet (runG (setImpl 4) [] ops).1 (ops.foldl specG [])) := by
  refine ⟨?_, fun hok => ?_⟩
  · intro d hd max hok
    simp only [List.mem_cons, List.mem_nil_iff, or_false] at hd
    have hdn : descOK d = true ∧ d.n = 4 := by
      rcases hd with rfl | rfl
      · exact ⟨gen_tables_ok.1, rfl⟩
      · exact ⟨gen_tables_ok.2.1, rfl⟩
    have h0 : SameSet ((storeImpl d).quads (St.new d.shape max)) [] := SameSet.of_eq (abs_new _ _)
    exact run_views_coherent (storeLawful d hdn.1) hdn.2 ops (good_new hdn.1 max) h0 hok
  · exact run_views_coherent (setLawful 4 (Or.inr rfl)) rfl ops
      (show SetInv 4 [] from ⟨trivial, fun _ _ h => nomatch h⟩) (SameSet.refl _) hok

/-- **no operation of a history fails** on a store whose `insert` never fails -/
theorem step_views_ok (L : LawfulSet I) (h4 : I.n = 4) (hne : NoErr I) {s : σ} (hs : L.Inv s) (op : GOp) :
    (stepG I s op).2 = true := by
  cases op with
  | ins q =>
    show (I.insert s q).2.isSome = true
    cases h : (I.insert s q).2 with
    | none => exact absurd h (hne s q)
    | some b => rfl
  | rem q => rfl
  | vIns g t =>
    show resOk (DatasetGraph.insert I s g t).2 = true
    have h : DatasetGraph.insert I s g t = _ := dg_insIs (I := I) forwarding_flags_now.1 g s t
    rw [h]
    cases h2 : (I.insert s (withG g t)).2 with
    | none => exact absurd h2 (hne s _)
    | some b => rfl
  | vRem g t =>
    show resOk (DatasetGraph.remove I s g t).2 = true
    have h : DatasetGraph.remove I s g t = _ := dg_remIs (I := I) forwarding_flags_now.2.1 g s t
    rw [h]; rfl
  | vInsAll g ts => exact insertAll_noErr (dg_insIs (I := I) forwarding_flags_now.1 g) hne ts s 0
  | vRemAll g ts =>
    obtain ⟨s', c, he, _⟩ := view_remove_all L.toLawful hs h4 g ts
    show bulkOk (DatasetGraph.removeAll I s g ts).2 = true
    rw [he]; rfl
  | vRemM g sm pm om =>
    obtain ⟨s', c, he, _⟩ := view_remove_matching L.toLawful hs h4 g sm pm om
    show bulkOk (DatasetGraph.removeMatching I s g sm pm om).2 = true
    rw [he]; rfl
  | vRetM g sm pm om =>
    obtain ⟨s', c, he, _⟩ := view_retain_matching L.toLawful hs h4 g sm pm om
    show bulkOk (DatasetGraph.retainMatching I s g sm pm om).2 = true
    rw [he]; rfl

theorem run_views_ok (L : LawfulSet I) (h4 : I.n = 4) (hne : NoErr I) :
    ∀ (ops : List GOp) {s : σ}, L.Inv s → (runG I s ops).2 = true
  | [], _, _ => rfl
  | op :: ops, s, hs => by
    have hstep := step_views_ok L h4 hne hs op
    have hrun : runG I s (op :: ops) =
        if (stepG I s op).2 then runG I (stepG I s op).1 ops else ((stepG I s op).1, false) := rfl
    rw [hrun, hstep]
    simp only [if_true]
    exact run_views_ok L h4 hne ops (step_views L h4 hs (SameSet.refl _) op hstep).1

/-- **Coherence over ALL histories on std `HashSet` / `BTreeSet` of quads, unconditionally** -/
theorem run_views_coherent_set (ops : List GOp) :
    (runG (setImpl 4) [] ops).2 = true ∧ SetInv 4 (runG (setImpl 4) [] ops).1 ∧
      SameSet (runG (setImpl 4) [] ops).1 (ops.foldl specG []) := by
  have h0 : SetInv 4 [] := ⟨trivial, fun _ _ h => nomatch h⟩
  have hok := run_views_ok (setLawful 4 (Or.inr rfl)) rfl (setImpl_noErr 4) ops h0
  exact ⟨hok, run_views_coherent (setLawful 4 (Or.inr rfl)) rfl ops h0 (SameSet.refl _) hok⟩

/-- **the no-error hypothesis of `run_views_coherent` is necessary**: on an indexed store whose term index
is full (here: room for one term) the insertion through the view fails and the store does NOT hold what the
plain-list specification holds -/
theorem run_views_ok_necessary :
    let t : Quad := ⟨.iri "x:s".toList, .iri "x:p".toList, .iri "x:o".toList, none⟩
    let g : GName := some (.iri "x:g".toList)
    let I := storeImpl Gen.genericLightDataset
    let s0 := St.new Gen.genericLightDataset.shape 1
    (runG I s0 [.vIns g t]).2 = false ∧
      qmem (withG g t) (I.quads (runG I s0 [.vIns g t]).1) ≠ qmem (withG g t) ([GOp.vIns g t].foldl specG []) := by
  decide

-- non-vacuity of `run_views_coherent`: a history through views of a `HashSet` of quads — the same triple in
-- two graphs, `retain_matching` through the view of one of them (which must NOT empty the other one),
-- `remove_matching` through the view of an absent graph
example :
    let t : Quad := ⟨.iri "x:s".toList, .iri "x:p".toList, .iri "x:o".toList, none⟩
    let u : Quad := ⟨.iri "x:s".toList, .iri "x:p".toList, .bnode "b".toList, none⟩
    let g1 : GName := some (.iri "x:g".toList)
    let ops : List GOp := [.vIns g1 t, .ins t, .vInsAll none [u, t], .vInsAll g1 [u],
      .vRetM g1 .any .any (.arr [.bnode "b".toList]), .vRemM (some (.iri "x:absent".toList)) .any .any .any, .vRemAll none [u]]
    (runG (setImpl 4) [] ops).2 = true ∧ (runG (setImpl 4) [] ops).1 = [t, ⟨u.s, u.p, u.o, g1⟩] := by
  decide

end bulk

-- non-vacuity of `run_coherent_now`: a graph history through `as_dataset_mut()`, removal included
example :
    let t : Quad := ⟨.iri "x:s".toList, .iri "x:p".toList, .iri "x:o".toList, none⟩
    let ops : List VOp := [.asdsIns t, .asdsIns { t with g := some (.iri "x:g".toList) }, .asdsRem t, .asdsRem t]
    (∀ op ∈ ops, VOpOK Gen.genericLightGraph op) ∧ usesAsdsRem ops = true := by
  refine ⟨?_, rfl⟩
  intro op hop
  simp only [List.mem_cons, List.mem_nil_iff, or_false] at hop
  rcases hop with rfl | rfl | rfl | rfl <;> exact (rfl : Gen.genericLightGraph.n = 3)

-- non-vacuity of `run_coherent`: a history through views of a 16-bit Fast dataset
example :
    let t : Quad := ⟨.iri "x:s".toList, .iri "x:p".toList, .lang "chat".toList "EN".toList, none⟩
    let ops : List VOp := [.graphIns (some (.iri "x:g".toList)) t, .direct (.ins ⟨t.s, t.p, t.o, none⟩),
      .graphRem (some (.bnode "b".toList)) t, .graphIns (some (.iri "x:g".toList)) t]
    (∀ op ∈ ops, VOpOK Gen.genericFastDataset op) ∧ usesAsdsRem ops = false ∧
      (abs (ops.foldl (stepV Gen.genericFastDataset) (St.new Gen.genericFastDataset.shape Gen.maxU16))).length = 2 := by
  refine ⟨?_, rfl, by decide⟩
  intro op hop
  simp only [List.mem_cons, List.mem_nil_iff, or_false] at hop
  rcases hop with rfl | rfl | rfl | rfl
  · exact (rfl : Gen.genericFastDataset.n = 4)
  · exact fun h => absurd h (by decide)
  · exact (rfl : Gen.genericFastDataset.n = 4)
  · exact (rfl : Gen.genericFastDataset.n = 4)

-- non-vacuity of the view theorems: a triple held in two graphs shows twice through the union
example :
    let t : Quad := ⟨.iri "x:s".toList, .iri "x:p".toList, .iri "x:o".toList, none⟩
    let I := storeImpl Gen.genericFastDataset
    let s := (I.insert (I.insert (St.new Gen.genericFastDataset.shape Gen.maxU16) t).1 { t with g := some (.bnode "b".toList) }).1
    UnionGraph.triples I s = [t, t] ∧ DatasetGraph.triples I s (some (.bnode "b".toList)) = [t] ∧
      DatasetGraph.triples I s (some (.iri "x:absent".toList)) = [] ∧
      PartialUnionGraph.triples I s (.kind (some .bnode)) = [t] := by
  decide

-- non-vacuity for `Vec<Gspo<T>>`: two copies of a quad, one dropped through the view of its graph; the views
-- show the remaining copy once
example :
    let t : Quad := ⟨.iri "x:s".toList, .iri "x:p".toList, .iri "x:o".toList, none⟩
    let g : GName := some (.iri "x:g".toList)
    let I := vecFirstImpl 4
    let s := (DatasetGraph.remove I [⟨t.s, t.p, t.o, g⟩, t, ⟨t.s, t.p, t.o, g⟩] g t).1
    DatasetGraph.triples I s g = [t] ∧ UnionGraph.triples I s = [t, t] ∧ DatasetGraph.contains I s none t = true := by
  decide

/-! ### vectors: what a mutation through a view does to the copies of each quad -/

/-- the vectors are lawful bags: `Vec<Spog<T>>` / `Vec<[T; 3]>` (remove drops every copy) and `Vec<Gspo<T>>`
(remove drops the first copy) -/
theorem vec_types_lawful_bag :
    (∀ n, n = 3 ∨ n = 4 → ∃ L : LawfulBag (vecImpl n), ∀ s, L.Inv s ↔ (n = 3 → ∀ x ∈ s, x.g = none)) ∧
    (∃ L : LawfulBag (vecFirstImpl 4), ∀ s, L.Inv s) :=
  ⟨fun n hn => ⟨vecLawfulBag n hn, fun _ => Iff.rfl⟩,
   ⟨vecFirstLawfulBag 4 (Or.inr rfl), fun _ h => absurd h (by decide)⟩⟩

/-- **Mutations through `graph_mut(g)` on a vector of quads** (multiplicities matter, flags "not
significant"): same state and result as the direct `insert` / `remove(s, p, o, g)`; every quad other than
`(s, p, o, g)` — in particular every quad of another graph — keeps ALL its copies; an insertion leaves at
least one copy of the quad and loses none, a removal of a present quad loses at least one copy -/
theorem view_mut_bag {σ : Type} {I : Impl σ} (L : LawfulBag I) {s : σ} (hs : L.Inv s) (h4 : I.n = 4) (g : GName) (t : Quad) :
    let q := withG g t
    (DatasetGraph.insert I s g t).1 = (I.insert s q).1 ∧
    (DatasetGraph.insert I s g t).2 = MutRes.ofOption (I.insert s q).2 ∧
    (DatasetGraph.remove I s g t).1 = (I.remove s q).1 ∧
    (DatasetGraph.remove I s g t).2 = .ok (I.remove s q).2 ∧
    L.Inv (DatasetGraph.insert I s g t).1 ∧ L.Inv (DatasetGraph.remove I s g t).1 ∧
    (∀ x : Quad, quadEq q x = false →
      mult x (I.quads (DatasetGraph.insert I s g t).1) = mult x (I.quads s) ∧
      mult x (I.quads (DatasetGraph.remove I s g t).1) = mult x (I.quads s)) ∧
    (∀ x : Quad, gnameEq g x.g = false →
      mult x (I.quads (DatasetGraph.insert I s g t).1) = mult x (I.quads s) ∧
      mult x (I.quads (DatasetGraph.remove I s g t).1) = mult x (I.quads s)) ∧
    (1 ≤ mult q (I.quads (DatasetGraph.insert I s g t).1) ∧
      mult q (I.quads s) ≤ mult q (I.quads (DatasetGraph.insert I s g t).1)) ∧
    (mult q (I.quads (DatasetGraph.remove I s g t).1) < mult q (I.quads s) ∨
      (mult q (I.quads s) = 0 ∧ mult q (I.quads (DatasetGraph.remove I s g t).1) = 0)) := by
  intro q
  have hi : DatasetGraph.insert I s g t = ((I.insert s q).1, MutRes.ofOption (I.insert s q).2) :=
    dg_insIs (I := I) forwarding_flags_now.1 g s t
  have hr : DatasetGraph.remove I s g t = ((I.remove s q).1, .ok (I.remove s q).2) :=
    dg_remIs (I := I) forwarding_flags_now.2.1 g s t
  rw [hi, hr]
  have hoth : ∀ x : Quad, quadEq q x = false →
      mult x (I.quads (I.insert s q).1) = mult x (I.quads s) ∧ mult x (I.quads (I.remove s q).1) = mult x (I.quads s) :=
    fun x hx => ⟨L.ins_others q x hs hx, L.rem_others q x hs hx⟩
  refine ⟨rfl, rfl, rfl, rfl, L.ins_inv q hs (fun h3 => by omega), L.rem_inv q hs, hoth, ?_, L.ins_self q hs, L.rem_self q hs⟩
  intro x hx
  refine hoth x ?_
  simp [quadEq, q, withG, hx]

-- non-vacuity: `Vec<Gspo<T>>` holding a quad twice in `x:g` and once in the default graph; removing through
-- the view of `x:g` drops ONE copy there and none in the default graph
example :
    let t : Quad := ⟨.iri "x:s".toList, .iri "x:p".toList, .iri "x:o".toList, none⟩
    let g : GName := some (.iri "x:g".toList)
    let d : List Quad := [withG g t, t, withG g t]
    mult (withG g t) ((DatasetGraph.remove (vecFirstImpl 4) d g t).1) = 1 ∧
      mult t ((DatasetGraph.remove (vecFirstImpl 4) d g t).1) = 1 ∧
      mult (withG g t) ((DatasetGraph.remove (vecImpl 4) d g t).1) = 0 := by
  decide

end SophiaProofs.C11
