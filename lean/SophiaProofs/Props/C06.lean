/-
C06 — the output equals what W3C RDFC-1.0 specifies; failures are explicit errors.
Theorems about the model of `rdfc10.rs` (`SophiaModel.Rdfc10`, what the C05/C06 drivers execute)
and about its relation to the transcription of the Recommendation (`SophiaModel.Rdfc10Spec`).
-/
import SophiaProofs.Lemmas.Rdfc10
import SophiaProofs.Lemmas.CnqEscape
import SophiaProofs.Lemmas.SpecEq
import SophiaProofs.Lemmas.WithinLimits
import SophiaProofs.Lemmas.SpecRelated
import SophiaProofs.Props.C05
import SophiaModel.Model.Rdfc10Spec
import SophiaModel.Model.Rdfc10Run

namespace SophiaProofs.C06
open SophiaModel SophiaModel.Rdfc10 SophiaProofs.Rdfc10L SophiaProofs.SpecL

/-- **Unsupported ⇔ rejected predicate ∨ quoted triple ∨ variable**, for every hash and all limits:
`relabel_with` (hence `normalize_with`) answers `Unsupported` exactly on datasets with a rejected
predicate (`predicateRejected`: a blank node — and, if the regenerated flag
`Gen.predicateMustBeIri` says the source has that test, any other non-IRI) or a quoted triple /
variable as a component of some quad. -/
theorem unsupported_iff (H : Str → Str) (td : Nat → Nat → Bool) (pl : Nat) (D : List Quad) :
    relabelWith H td pl D = .error .unsupported ↔ ∃ q ∈ D, BadQuad q := by
  constructor
  · intro h
    rcases relabelWith_err h with ⟨_, h2⟩ | ⟨he, hh⟩ | hp
    · exact (step2_err h2).2
    · cases hh
    · cases hp
  · intro h
    unfold relabelWith
    rw [step2_bad h]
    rfl

example : BadQuad ⟨.bnode ['a'], .bnode ['p'], .iri ['o'], none⟩ := Or.inl (by simp [predicateRejected, isBnode])
example : BadQuad ⟨.bnode ['a'], .iri ['p'], .triple (.iri ['s']) (.iri ['p']) (.bnode ['b']), none⟩ :=
  Or.inr ⟨(.triple (.iri ['s']) (.iri ['p']) (.bnode ['b']), ['o']), by simp [components], rfl⟩
example : ¬ BadQuad ⟨.bnode ['a'], .iri ['p'], .lit ['x'] ['d'], some (.bnode ['g'])⟩ := by
  rintro (h | ⟨c, hc, hb⟩)
  · simp [predicateRejected, isBnode, isIri] at h
  · simp [components] at hc
    rcases hc with rfl | rfl | rfl | rfl <;> cases hb

/-- the same, spelled out for the current source (`flag_predicate_must_be_iri` below): `Unsupported`
⇔ some quad has a predicate that is not an IRI, or a quoted triple / variable among its components -/
theorem unsupported_iff_explicit (hflag : Gen.predicateMustBeIri = true) (H : Str → Str) (td : Nat → Nat → Bool)
    (pl : Nat) (D : List Quad) :
    relabelWith H td pl D = .error .unsupported ↔
      ∃ q ∈ D, isIri q.p = false ∨ ∃ c ∈ components q, (isTriple c.1 || isVar c.1) = true := by
  rw [unsupported_iff]
  have hp : ∀ p : Term, predicateRejected p = true ↔ isIri p = false := by
    intro p
    unfold predicateRejected
    rw [hflag]
    cases p <;> simp [isBnode, isIri]
  constructor
  · rintro ⟨q, hq, h | h⟩
    · exact ⟨q, hq, Or.inl ((hp q.p).mp h)⟩
    · exact ⟨q, hq, Or.inr h⟩
  · rintro ⟨q, hq, h | h⟩
    · exact ⟨q, hq, Or.inl ((hp q.p).mpr h)⟩
    · exact ⟨q, hq, Or.inr h⟩

theorem normalize_unsupported_iff (H : Str → Str) (td : Nat → Nat → Bool) (pl : Nat) (D : List Quad) :
    normalizeWith H td pl D = .error .unsupported ↔ ∃ q ∈ D, BadQuad q := by
  rw [← unsupported_iff H td pl D]
  unfold normalizeWith
  cases h : relabelWith H td pl D with
  | error e => rw [bind_err]; constructor <;> (intro h'; injection h' with h'; rw [h'])
  | ok r => rw [bind_ok]; constructor <;> (intro h'; cases h')

/-- **the safeguards only ever turn a result into an error**: if `relabel_with` succeeds under some
depth guard and permutation limit, it returns the same quads and the same identifier map under any
weaker guard and larger limit — in particular with no limits at all (`td' = fun _ _ => false`). -/
theorem limits_only_fail (H : Str → Str) (td td' : Nat → Nat → Bool) (pl pl' : Nat)
    (htd : ∀ d n, td' d n = true → td d n = true) (hpl : pl ≤ pl') (D : List Quad)
    (r : List Quad × SMap Str) (h : relabelWith H td pl D = .ok r) :
    relabelWith H td' pl' D = .ok r := by
  obtain ⟨out, m⟩ := r
  obtain ⟨b2q, can, h2, h5, hm, rfl⟩ := relabelWith_ok h
  unfold relabelWith
  rw [h2, bind_ok]
  simp only []
  have := step5_mono htd hpl _ _ _ _ h5
  unfold canon4 at this
  rw [this]
  simp only [liftH, bind_ok]
  rw [hm, bind_ok]

theorem normalize_limits_only_fail (H : Str → Str) (td td' : Nat → Nat → Bool) (pl pl' : Nat)
    (htd : ∀ d n, td' d n = true → td d n = true) (hpl : pl ≤ pl') (D : List Quad)
    (s : Str) (h : normalizeWith H td pl D = .ok s) : normalizeWith H td' pl' D = .ok s := by
  unfold normalizeWith at h ⊢
  cases hr : relabelWith H td pl D with
  | error e => rw [hr, bind_err] at h; cases h
  | ok r =>
    rw [hr, bind_ok] at h
    rw [limits_only_fail H td td' pl pl' htd hpl D r hr, bind_ok]
    exact h

/-- the hypotheses are satisfiable with limits that do bite: cycle of 3 under depth factor 0 fails,
without limits succeeds (evaluated with the real SHA-256) -/
def cycle3 : List Quad :=
  [⟨.bnode ['a'], .iri ['p'], .bnode ['b'], none⟩, ⟨.bnode ['b'], .iri ['p'], .bnode ['c'], none⟩,
   ⟨.bnode ['c'], .iri ['p'], .bnode ['a'], none⟩]

example : (relabelWith Sha2.sha256Hex (fun d _ => d > 0) 6 cycle3).toBool = false := by native_decide
example : (relabelWith Sha2.sha256Hex (fun _ _ => false) 6 cycle3).toBool = true := by native_decide

/-! ### `smaller_path` and the Recommendation's skip rule

History: the shipped `smaller_path` compared lengths first; that diverged from steps 5.4.4.3 /
5.4.5.5 on the 24-quad dataset below (finding C06-smaller-path-length-first, repaired in /repo by
33fee4b).  The model follows the source through the regenerated flag
`Gen.smallerPathLengthFirst`; every statement here is conditional on the value of that flag, so the
file checks under either body and a regression flips which half is non-vacuous. -/

/-- the 24-quad dataset of DESIGN.md §7: two disjoint copies (label prefixes k, l) of the chain
a0 -x:p0-> … -> a8 whose last node links x in the default graph and in <x:g0>, y once, and m links y in <x:g0> -/
def witnessCopy (pre : Char) : List Quad :=
  let b (s : String) : Term := .bnode (pre :: s.toList)
  let p0 : Term := .iri "x:p0".toList
  let q0 : Term := .iri "x:q0".toList
  let g0 : Term := .iri "x:g0".toList
  ((List.range 8).map fun i => (⟨b ("a" ++ toString i), p0, b ("a" ++ toString (i + 1)), none⟩ : Quad)) ++
  [⟨b "a8", q0, b "x", none⟩, ⟨b "a8", q0, b "x", some g0⟩, ⟨b "a8", q0, b "y", none⟩, ⟨b "m", q0, b "y", some g0⟩]

def witness : List Quad := witnessCopy 'k' ++ witnessCopy 'l'

/-- `normalize` exactly as the driver runs it: SHA-256, depth factor 1.0 (f32), permutation limit 6 -/
def normalizeDefault (D : List Quad) : Except Err Str :=
  normalizeWith Sha2.sha256Hex (Rdfc10Run.tooDeepF32 (Float32.ofBits 0x3f800000)) 6 D

/-- both models succeed and (dis)agree -/
def modelsDiffer (D : List Quad) : Bool :=
  match normalizeDefault D, Rdfc10Spec.canonicalNQuads Sha2.sha256Hex D with
  | .ok a, some b => a != b
  | _, _ => false

def modelsAgree (D : List Quad) : Bool :=
  match normalizeDefault D, Rdfc10Spec.canonicalNQuads Sha2.sha256Hex D with
  | .ok a, some b => a == b
  | _, _ => false

/-- **the rule itself**: with the repaired body (`path1.len() <= path2.len() && path1 < path2`) the
test the implementation applies at 5.4.4 / 5.4.5 (`!chosen_path.is_empty() && smaller_path(..)`) IS
the skip rule of the Recommendation, for all paths (kernel-checked) -/
theorem skip_rule_of_flag (hcode : Gen.smallerPathLengthFirst = false) (chosen path : Str) :
    (!chosen.isEmpty && smallerPath chosen path) = Rdfc10Spec.skipRule Rdfc10Spec.Deviations.none chosen path := by
  have hlt : strLt chosen path = Rdfc10Spec.cpLess chosen path := by
    unfold strLt
    cases h : Rdfc10Spec.cpLess chosen path with
    | true => rw [(cpLess_iff chosen path).mp h]; rfl
    | false =>
      cases hc : cmpStr chosen path with
      | lt => rw [(cpLess_iff chosen path).mpr hc] at h; cases h
      | eq => rfl
      | gt => rfl
  unfold smallerPath Rdfc10Spec.skipRule
  simp only [hcode, Rdfc10Spec.Deviations.none, Bool.false_eq_true, if_false, hlt]
  cases chosen.isEmpty <;> simp [Bool.and_assoc]

/-- **regression test for the repair** (native evaluation, real SHA-256): under the repaired rule the
dataset that used to diverge is canonicalised to exactly the bytes the Recommendation prescribes -/
theorem witness_agrees_of_flag (hcode : Gen.smallerPathLengthFirst = false) :
    ∃ a, normalizeDefault witness = .ok a ∧ Rdfc10Spec.canonicalNQuads Sha2.sha256Hex witness = some a := by
  have h0 : (modelsAgree witness || Gen.smallerPathLengthFirst) = true := by native_decide
  have h : modelsAgree witness = true := by simpa [hcode] using h0
  unfold modelsAgree at h
  cases h1 : normalizeDefault witness with
  | error e => rw [h1] at h; cases h
  | ok a =>
    cases h2 : Rdfc10Spec.canonicalNQuads Sha2.sha256Hex witness with
    | none => rw [h1, h2] at h; cases h
    | some b =>
      rw [h1, h2] at h
      have : a = b := by simpa using h
      exact ⟨a, rfl, by rw [this]⟩

/-- the family around the witness (chain lengths 8–10, two copies): all agree under the repaired rule -/
def witnessFamily : List (List Quad) :=
  [8, 9, 10].map fun len =>
    ['k', 'l'].flatMap fun pre =>
      let b (s : String) : Term := .bnode (pre :: s.toList)
      ((List.range (len - 1)).map fun i =>
        (⟨b ("a" ++ toString i), .iri "x:p0".toList, b ("a" ++ toString (i + 1)), none⟩ : Quad)) ++
      [⟨b ("a" ++ toString (len - 1)), .iri "x:q0".toList, b "x", none⟩,
       ⟨b ("a" ++ toString (len - 1)), .iri "x:q0".toList, b "x", some (.iri "x:g0".toList)⟩,
       ⟨b ("a" ++ toString (len - 1)), .iri "x:q0".toList, b "y", none⟩,
       ⟨b "m", .iri "x:q0".toList, b "y", some (.iri "x:g0".toList)⟩]

theorem family_agrees_of_flag (hcode : Gen.smallerPathLengthFirst = false) :
    ∀ D ∈ witnessFamily, modelsAgree D = true := by
  have h0 : (witnessFamily.all modelsAgree || Gen.smallerPathLengthFirst) = true := by native_decide
  have h : witnessFamily.all modelsAgree = true := by simpa [hcode] using h0
  exact fun D hD => List.all_eq_true.mp h D hD

/-! #### audited, unconditional: what the source says NOW

The two flags are regenerated from rdfc10.rs on every run.  The next two theorems pin their values:
a regression of the source (length-first `smaller_path`, or step 2 no longer rejecting non-IRI
predicates) flips a flag and these obligations FAIL to build — they are listed in propcfg `theorems`. -/

theorem flag_smaller_path_is_spec_rule : Gen.smallerPathLengthFirst = false := rfl

theorem flag_predicate_must_be_iri : Gen.predicateMustBeIri = true := rfl

/-- `Unsupported` ⇔ non-IRI predicate ∨ quoted triple ∨ variable (current source) -/
theorem unsupported_iff_now (H : Str → Str) (td : Nat → Nat → Bool) (pl : Nat) (D : List Quad) :
    relabelWith H td pl D = .error .unsupported ↔
      ∃ q ∈ D, isIri q.p = false ∨ ∃ c ∈ components q, (isTriple c.1 || isVar c.1) = true :=
  unsupported_iff_explicit flag_predicate_must_be_iri H td pl D

/-- the pruning test of `rdfc10.rs` IS the skip rule of RDFC-1.0 4.8.3 steps 5.4.4.3 / 5.4.5.5, for all paths -/
theorem skip_rule_as_specified (chosen path : Str) :
    (!chosen.isEmpty && smallerPath chosen path) = Rdfc10Spec.skipRule Rdfc10Spec.Deviations.none chosen path :=
  skip_rule_of_flag flag_smaller_path_is_spec_rule chosen path

/-- regression test for repair 33fee4b: the former 24-quad witness gets the Recommendation's bytes -/
theorem C06_witness_agrees :
    ∃ a, normalizeDefault witness = .ok a ∧ Rdfc10Spec.canonicalNQuads Sha2.sha256Hex witness = some a :=
  witness_agrees_of_flag flag_smaller_path_is_spec_rule

theorem C06_family_agrees : ∀ D ∈ witnessFamily, modelsAgree D = true :=
  family_agrees_of_flag flag_smaller_path_is_spec_rule

/-- **guard against the regression**: were `smaller_path` to compare lengths first again (flag
`true`), both models still succeed on the witness and their canonical N-Quads differ (the
implementation then calls the doubly linked node `c14n9`, the Recommendation `c14n10`) -/
theorem witness_differs_if_length_first (hcode : Gen.smallerPathLengthFirst = true) :
    ∃ a b, normalizeDefault witness = .ok a ∧
      Rdfc10Spec.canonicalNQuads Sha2.sha256Hex witness = some b ∧ a ≠ b := by
  have h0 : (modelsDiffer witness || !Gen.smallerPathLengthFirst) = true := by native_decide
  have h : modelsDiffer witness = true := by simpa [hcode] using h0
  unfold modelsDiffer at h
  cases h1 : normalizeDefault witness with
  | error e => rw [h1] at h; cases h
  | ok a =>
    cases h2 : Rdfc10Spec.canonicalNQuads Sha2.sha256Hex witness with
    | none => rw [h1, h2] at h; cases h
    | some b =>
      rw [h1, h2] at h
      exact ⟨a, b, rfl, rfl, by simpa using h⟩

/-- … and that divergence is exactly the skip rule: the transcription given the length-first rule
(`Deviations.lengthOnlySkip`, nothing else) reproduces the length-first implementation model -/
theorem witness_attributed_if_length_first :
    Gen.smallerPathLengthFirst = true →
    (normalizeDefault witness).toOption =
      Rdfc10Spec.canonicalNQuadsWith ⟨false, true⟩ Sha2.sha256Hex witness := by
  have h0 : (!Gen.smallerPathLengthFirst ||
      decide ((normalizeDefault witness).toOption =
        Rdfc10Spec.canonicalNQuadsWith ⟨false, true⟩ Sha2.sha256Hex witness)) = true := by native_decide
  intro hcode
  simpa [hcode] using h0

/-- the full statement of C06 for the model.  Status: for the length-first `smaller_path` it is
refuted (`not_implEqSpec`); for the repaired code it is OPEN — proved on the fragment of
`impl_eq_spec_partial`, on the rule level by `skip_rule_as_specified`, tested differentially
elsewhere (missing for a proof: relating Heap's permutation order and the per-occurrence filing of
step 2.1 to the transcription's, up to automorphism) -/
def ImplEqSpec (H : Str → Str) : Prop :=
  ∀ (td : Nat → Nat → Bool) (pl : Nat) (D : List Quad) (a : Str),
    normalizeWith H td pl D = .ok a → Rdfc10Spec.canonicalNQuads H D = some a

theorem not_implEqSpec_if_length_first (hcode : Gen.smallerPathLengthFirst = true) : ¬ ImplEqSpec Sha2.sha256Hex := by
  intro h
  obtain ⟨a, b, ha, hb, hne⟩ := witness_differs_if_length_first hcode
  rw [h _ _ witness a ha] at hb
  injection hb with hb
  exact hne hb

/-! ### the escape table regenerated from `_cnq.rs` is the canonical N-Quads rule -/

/-- **canonical N-Quads escaping**: for every character, what `_cnq.rs::nq` writes inside a literal
(the table is regenerated from the source on every run) is what the canonical form prescribes
(`Rdfc10Spec.escapeChar`: ECHAR for BS HT LF FF CR `"` `\`, `\uXXXX` uppercase for the other C0
controls and DEL, everything else natively) -/
theorem escapes_as_specified (c : Char) : Cnq.escChar c = Rdfc10Spec.escapeChar c :=
  SophiaProofs.CnqL.escChar_eq_spec c

end SophiaProofs.C06

namespace SophiaProofs.C06
open SophiaModel SophiaModel.Rdfc10 SophiaProofs.Rdfc10L SophiaProofs.CnqL SophiaProofs.SpecL

/-! ### where the implementation provably equals the Recommendation -/

/-- **`impl_eq_spec_partial`** — the two models agree, for every hash function and all limits, on
every dataset on which Hash N-Degree Quads is never entered: an RDF dataset (`isRdfQuad`:
IRI predicates, no literal subjects, IRI/blank graph names), well-formed (`QuadOK`), in which no
quad mentions the same blank node twice (`NoSelfRef`, the case where both readings of step 2.1
coincide) and whose first-degree hashes are pairwise distinct.  There the implementation model
succeeds and the transcription of RDFC-1.0 (4.4.3 steps 1–6, 4.5, 4.6, canonical N-Quads) yields
the same bytes.  The full statement `ImplEqSpec` is refuted by `C06_witness`; between the two lies
the part of the algorithm (4.7, 4.8) that is compared differentially only. -/
theorem impl_eq_spec_partial (H : Str → Str) (td : Nat → Nat → Bool) (pl : Nat) {D : List Quad}
    {b2q : SMap (List Quad)} (hrdf : ∀ q ∈ D, Rdfc10Spec.isRdfQuad q = true ∧ NoSelfRef q)
    (hok : ∀ q ∈ D, QuadOK q) (h2 : step2 D = .ok b2q) (hdist : C05.FirstDegreeDistinct H b2q) :
    ∃ s, normalizeWith H td pl D = .ok s ∧ Rdfc10Spec.canonicalNQuads H D = some s := by
  -- the implementation model: steps 2–4, then the relabelling
  have S1 := step3_h2b H b2q hdist
  have hsing : ∀ e ∈ (step3 H b2q).1, e.2.length ≤ 1 := by
    intro e he
    have he' := S1.2.mem_iff.mp he
    unfold hashEntries at he'
    obtain ⟨e0, _, rfl⟩ := List.mem_map.mp he'
    simp
  have hid : ∀ a b : Str, id a = id b → a = b := fun _ _ h => h
  obtain ⟨n1, _, _⟩ := step4_singletons hid (step3 H b2q).1 _ _ hsing
    (⟨by simp, wf_new _, wf_new _, rfl⟩ : IssRel id (Issuer.new "c14n".toList) (Issuer.new "c14n".toList))
  obtain ⟨out, r⟩ := relabelWith_distinct (H := H) td pl h2 n1
  have ha := C05.relabel_applies r
  have hout := C05.out_ok hok r
  -- the transcription
  obtain ⟨issued, hcan, hlook⟩ := spec_distinct H hrdf h2 hdist
  have hmap : D.map (Rdfc10Spec.relabelQuad issued) = out := by
    rw [ha]
    apply List.map_congr_left
    intro q hq
    exact relabelQuad_eq hlook (hrdf q hq).1
  refine ⟨serialize (sortQuads out), ?_, ?_⟩
  · unfold normalizeWith; rw [r, bind_ok]
  · unfold Rdfc10Spec.canonicalNQuads Rdfc10Spec.canonicalNQuadsWith
    rw [hcan, hmap]
    simp only [Option.map_some]
    congr 1
    unfold serialize
    congr 1
    have e1 : out.map (Rdfc10Spec.nquad Cnq.nqTerm) = out.map line :=
      List.map_congr_left (fun q _ => nquad_nqTerm_eq q)
    rw [e1, sortBy_id_eq]
    unfold sortStrs
    apply List.Perm.eq_of_pairwise (le := fun a b => strLe a b = true)
    · intro a b _ _ hab hba; exact strLe_antisymm hab hba
    · exact List.pairwise_mergeSort (le := strLe) (fun a b c => strLe_trans) strLe_total _
    · exact sorted_lines hout
    · exact (List.mergeSort_perm _ _).trans ((sortQuads_perm out).map line).symm

/-- the hypotheses hold for the shipped `example2` (SHA-256): two blank nodes told apart by their predicates -/
example : ∃ b2q, step2 [⟨.iri "x:p".toList, .iri "x:q".toList, .bnode "e0".toList, none⟩,
      ⟨.iri "x:p".toList, .iri "x:r".toList, .bnode "e1".toList, none⟩] = .ok b2q ∧
    (SMap.keys (hashEntries Sha2.sha256Hex b2q)).length = 2 := by
  refine ⟨_, rfl, ?_⟩
  native_decide

end SophiaProofs.C06

namespace SophiaProofs.C06
open SophiaModel

/-! ### the transcription reproduces the expected outputs shipped with the crate

`c14n/src/rdfc10.rs` tests carry expected canonical documents for eight inputs.  The
*transcription of the Recommendation* (not the model of the code) is evaluated on them here, as a
check of the transcription that is independent of the implementation's code path. -/

private def ex (s : String) : Term := .iri ("http://example.com/#" ++ s).toList
private def bn (s : String) : Term := .bnode s.toList
private def q3 (s p o : Term) : Quad := ⟨s, p, o, none⟩
private def specOut (H : Str → Str) (D : List Quad) : Option String :=
  (Rdfc10Spec.canonicalNQuads H D).map String.ofList

-- example2
example : specOut Sha2.sha256Hex
    [q3 (ex "p") (ex "q") (bn "e0"), q3 (ex "p") (ex "r") (bn "e1"), q3 (bn "e0") (ex "s") (ex "u"), q3 (bn "e1") (ex "t") (ex "u")] =
  some "<http://example.com/#p> <http://example.com/#q> _:c14n0 .
<http://example.com/#p> <http://example.com/#r> _:c14n1 .
_:c14n0 <http://example.com/#s> <http://example.com/#u> .
_:c14n1 <http://example.com/#t> <http://example.com/#u> .
" := by native_decide

-- example2_sha384
example : specOut Sha2.sha384Hex
    [q3 (ex "p") (ex "q") (bn "e0"), q3 (ex "p") (ex "r") (bn "e1"), q3 (bn "e0") (ex "s") (ex "u"), q3 (bn "e1") (ex "t") (ex "u")] =
  some "<http://example.com/#p> <http://example.com/#q> _:c14n1 .
<http://example.com/#p> <http://example.com/#r> _:c14n0 .
_:c14n0 <http://example.com/#t> <http://example.com/#u> .
_:c14n1 <http://example.com/#s> <http://example.com/#u> .
" := by native_decide

-- example3
example : specOut Sha2.sha256Hex
    [q3 (ex "p") (ex "q") (bn "e0"), q3 (ex "p") (ex "q") (bn "e1"), q3 (bn "e0") (ex "p") (bn "e2"),
     q3 (bn "e1") (ex "p") (bn "e3"), q3 (bn "e2") (ex "r") (bn "e3")] =
  some "<http://example.com/#p> <http://example.com/#q> _:c14n2 .
<http://example.com/#p> <http://example.com/#q> _:c14n3 .
_:c14n0 <http://example.com/#r> _:c14n1 .
_:c14n2 <http://example.com/#p> _:c14n1 .
_:c14n3 <http://example.com/#p> _:c14n0 .
" := by native_decide

-- cycle5
example : specOut Sha2.sha256Hex
    ((List.range 5).map fun i => q3 (bn ("e" ++ toString i)) (ex "p") (bn ("e" ++ toString ((i + 1) % 5)))) =
  some "_:c14n0 <http://example.com/#p> _:c14n4 .
_:c14n1 <http://example.com/#p> _:c14n0 .
_:c14n2 <http://example.com/#p> _:c14n1 .
_:c14n3 <http://example.com/#p> _:c14n2 .
_:c14n4 <http://example.com/#p> _:c14n3 .
" := by native_decide

-- cycle2plus3
example : specOut Sha2.sha256Hex
    [q3 (bn "e0") (ex "p") (bn "e1"), q3 (bn "e1") (ex "p") (bn "e0"), q3 (bn "e2") (ex "p") (bn "e3"),
     q3 (bn "e3") (ex "p") (bn "e4"), q3 (bn "e4") (ex "p") (bn "e2")] =
  some "_:c14n0 <http://example.com/#p> _:c14n1 .
_:c14n1 <http://example.com/#p> _:c14n0 .
_:c14n2 <http://example.com/#p> _:c14n4 .
_:c14n3 <http://example.com/#p> _:c14n2 .
_:c14n4 <http://example.com/#p> _:c14n3 .
" := by native_decide

-- clique5: every pair linked both ways
example : specOut Sha2.sha256Hex
    ((List.range 5).flatMap fun i => ((List.range 5).filter (· ≠ i)).map fun j =>
      q3 (bn ("e" ++ toString i)) (ex "p") (bn ("e" ++ toString j))) =
  some (String.join ((List.range 5).flatMap fun i => ((List.range 5).filter (· ≠ i)).map fun j =>
    "_:c14n" ++ toString i ++ " <http://example.com/#p> _:c14n" ++ toString j ++ " .\n")) := by native_decide

-- tricky_order
example : specOut Sha2.sha256Hex
    [q3 (.iri "tag:a".toList) (.iri "tag:p".toList) (bn "a"), q3 (.iri "tag:a".toList) (.iri "tag:p".toList) (.iri "tag:a".toList),
     q3 (.iri "tag:a".toList) (.iri "tag:p".toList) (.lit "a".toList Cnq.xsdString),
     q3 (.iri "tag:a".toList) (.iri "tag:p".toList) (.lit "a!".toList Cnq.xsdString),
     q3 (.iri "tag:a9".toList) (.iri "tag:p".toList) (.lit "a!".toList Cnq.xsdString)] =
  some "<tag:a9> <tag:p> \"a!\" .
<tag:a> <tag:p> \"a!\" .
<tag:a> <tag:p> \"a\" .
<tag:a> <tag:p> <tag:a> .
<tag:a> <tag:p> _:c14n0 .
" := by native_decide

end SophiaProofs.C06

namespace SophiaProofs.C06
open SophiaModel SophiaModel.Rdfc10

/-! ### "fails only with an explicit error" -/

/-- **`normalize_with` fails only with an explicit, documented error**: a result, `Unsupported`
(characterised by `unsupported_iff_now`), or `ToxicGraph` for one of its two causes — for every
dataset, hash function, depth factor and permutation limit; no panic, no unbounded recursion
(`C05.relabel_outcomes_explicit`).  That a `ToxicGraph` only arises for a limit actually exceeded is
monotonicity (`limits_only_fail`) plus the differential oracle `o.st=ok`, not a theorem. -/
theorem fails_only_explicitly (H : Str → Str) (td : Nat → Nat → Bool) (pl : Nat) (D : List Quad) :
    (∃ s, normalizeWith H td pl D = .ok s) ∨ normalizeWith H td pl D = .error .unsupported ∨
      normalizeWith H td pl D = .error (.hnd .depth) ∨ normalizeWith H td pl D = .error (.hnd .perms) := by
  unfold normalizeWith
  rcases C05.relabel_outcomes_explicit H td pl D with ⟨r, hr⟩ | hr | hr | hr
  · exact Or.inl ⟨_, by rw [hr]; rfl⟩
  · exact Or.inr (Or.inl (by rw [hr]; rfl))
  · exact Or.inr (Or.inr (Or.inl (by rw [hr]; rfl)))
  · exact Or.inr (Or.inr (Or.inr (by rw [hr]; rfl)))

end SophiaProofs.C06

namespace SophiaProofs.C06
open SophiaModel SophiaModel.Rdfc10 SophiaProofs.Rdfc10L

/-! ### "never for a dataset within the limits" -/

/-- **`normalize_with` never fails for a dataset within the limits**, for every hash function: if step 2
accepts the dataset (`unsupported_iff_now` says exactly when) and the dataset is statically within
the configured limits — `Rdfc10.withinLimits`: for no blank node can a list of related blank nodes
be longer than the permutation limit (`relatedBound`: the number of related occurrences filed under
it), and the depth guard does not trip at any depth up to the number of blank nodes — then the
result is `Ok`.  This is the notion the C06 driver uses for its oracle field `o.st=ok`, so the
implementation is tested against exactly this theorem's hypothesis.  Ingredients: the recursion depth
stays below the number of identifiers issued so far, which is at most the number of blank nodes
(`hashNDegree_ok`); the related lists partition the related occurrences (`buildHn_total`). -/
theorem never_fails_within_limits (H : Str → Str) (td : Nat → Nat → Bool) (pl : Nat) {D : List Quad}
    {b2q : SMap (List Quad)} (h2 : step2 D = .ok b2q) (hw : withinLimits td pl b2q = true) :
    ∃ s, normalizeWith H td pl D = .ok s := by
  obtain ⟨r, hr⟩ := relabelWith_ok_within (H := H) flag_predicate_must_be_iri h2 hw
  exact ⟨_, by unfold normalizeWith; rw [hr]; rfl⟩

/-- with the ideal depth factor 1 (`depth > n` — what `1.0 * n as f32` is for every n below 2^24) the
depth part of `withinLimits` holds for every dataset: only the permutation limit can then cause `ToxicGraph` -/
theorem default_depth_part_holds (b2q : SMap (List Quad)) :
    (List.range (b2q.length + 1)).all (fun d => !(decide (d > b2q.length))) = true := by
  apply List.all_eq_true.mpr
  intro d hd
  have := List.mem_range.mp hd
  simp
  omega

/-- non-vacuity: the 3-cycle is within the default limits (and needs Hash N-Degree Quads) -/
example : ∃ b2q, step2 cycle3 = .ok b2q ∧ withinLimits (fun d n => decide (d > n)) 6 b2q = true :=
  ⟨_, rfl, by decide⟩

end SophiaProofs.C06

namespace SophiaProofs.C06
open SophiaModel SophiaModel.Rdfc10 SophiaProofs.Rdfc10L SophiaProofs.SpecL

/-! ### parts of 4.7 / 4.8 proved equal to the Recommendation; necessity of `NoSelfRef` -/

/-- **Hash Related Blank Node is as specified** (RDFC-1.0 4.7.3), for all quads with an IRI predicate, all
positions, all hash functions: given corresponding issuers and the memoised first-degree hash, the model of
`hash_related_bnode` returns the hash of exactly the specified input — in particular the predicate is
hashed unless the position is `g` (the class of seeded change C06-d) -/
theorem hash_related_as_specified (c : Ctx) (st : Rdfc10Spec.State) (issuer : Issuer) (sissuer : Rdfc10Spec.IdIssuer)
    (related : Str) (q : Quad) (p : Str) (pos : Char) (hq : q.p = .iri p)
    (hcan : Rdfc10Spec.lookup related st.canonicalIssuer.issued = c.canonical.get related)
    (hiss : Rdfc10Spec.lookup related sissuer.issued = issuer.get related)
    (hb2h : c.b2h.get related = some (Rdfc10Spec.hashFirstDegreeQuads c.H st related)) :
    hashRelated c related q issuer [pos] = .ok (Rdfc10Spec.hashRelatedBlankNode c.H st related q sissuer pos) :=
  SpecL.hash_related_as_specified c st issuer sissuer related q p pos hq hcan hiss hb2h

/-- the skip test of 5.4.4.3 may be made once after the loop (as `rdfc10.rs` does) instead of after every
related node (as the Recommendation says): it is monotone in the appended suffix -/
theorem skip_rule_monotone (chosen path suffix : Str)
    (h : Rdfc10Spec.skipRule Rdfc10Spec.Deviations.none chosen path = true) :
    Rdfc10Spec.skipRule Rdfc10Spec.Deviations.none chosen (path ++ suffix) = true :=
  SpecL.skip_rule_monotone chosen path suffix h

/-- `NoSelfRef` in `impl_eq_spec_partial` is necessary: on `{_:a p _:a . _:b p <o>}` (SHA-384) every other
hypothesis holds — RDF quads, distinct first-degree hashes — and the two models disagree, because the code
files the self-referencing quad twice under `_:a` (the per-occurrence reading of step 2.1) -/
def selfRefWitness : List Quad :=
  [⟨.bnode "n0".toList, .iri "x:p0".toList, .bnode "n0".toList, none⟩,
   ⟨.bnode "n1".toList, .iri "x:p0".toList, .iri "x:o".toList, none⟩]

example : (selfRefWitness.all Rdfc10Spec.isRdfQuad &&
    (match step2 selfRefWitness with
     | .ok b2q => decide ((SMap.keys (hashEntries Sha2.sha384Hex b2q)).Nodup)
     | .error _ => false) &&
    (match normalizeWith Sha2.sha384Hex (fun _ _ => false) 6 selfRefWitness,
           Rdfc10Spec.canonicalNQuads Sha2.sha384Hex selfRefWitness with
     | .ok a, some b => a != b
     | _, _ => false)) = true := by native_decide

end SophiaProofs.C06
