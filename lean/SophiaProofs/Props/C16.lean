/-
C16 — stack use does not grow with the amount of data processed.

What is proved here is a COST SEMANTICS (call depth of the program text, `Model/Depth.lean`), for
all inputs:

* for the text that /repo has wherever the generated table says `selfRecursiveOnData`
  (`…Rec`): the call depth is *linear* in the data — exactly (`next_rec_depth_exact`,
  `graph_rec_depth_exact`, …) and along the explicit input families of the harness
  (`…_depth_linear`).  This REFUTES the property's bound for those sites.
* for the loop formulation (`…Loop`): depth ≤ 1 (`…_depth_bounded`), and for the sites that recurse
  only on nesting: depth ≤ constant + nesting (quoted triples), ≤ number of binary digits of the
  slice length (binary search), ≤ number of patterns of the query (BGP) — for any amount of data.
* the two formulations compute the same results (`…_rec_eq_…_loop`): turning the self call into a
  loop is behaviour-preserving.
* every function that recurses on nesting has its own instrumented model (`Model/DepthNest.lean`) and
  a bound by the nesting alone, for inputs of any size: `Term::{cmp,eq,hash}`, `nq`, N-Triples
  `write_term ⇄ write_triple`, `cmp_bindings_with` under any sort, `jsonify` over any number of nodes,
  `populate_list ⇄ convert_rdf_object`, `select ⇄ operators` over any number of named graphs, and the
  prettifier's `write_term ⇄ … ⇄ write_properties`.
* the prettifier: WITHOUT a cap on the nesting of anonymous blank nodes `[ … ]` its depth is bounded by
  the nesting of everything it nests (`pretty_depth_bounded`) but NOT by the nesting of the data —
  `pretty_full_refuted`: a chain of `n` blank nodes (n plain statements) needs 5n + 1 nested calls
  (the defect fixed in /repo da7f8f8).  The REPAIRED text walks `cut c 0 t` (a blank node at nesting
  `c` is labelled and described in a tree of its own): `pretty_repaired_depth_bounded` — depth
  ≤ 1 + 6 (data nesting + c) for every tree; `pretty_cap_present` is decided on the constant
  regenerated from _pretty.rs on every run, `pretty_chain_bounded` is the unconditional statement for
  chains of any length, `pretty_chain_status` the dichotomy on the regenerated cap.
* over the generated table `Gen.RecursionSites.sites`: every row is known to the model
  (`table_names_known`) and no row is `selfRecursiveOnData` (`table_all_bounded`) — both decided on
  the table regenerated on every run, so a regression of either fails an obligation; every row that
  is not `selfRecursiveOnData` is bounded on the harness family of every size (`table_verdict`,
  through the general theorems above), a row that is, is refuted (`table_refuted`); `all_bounded` is
  the unconditional statement for today's table.

That one active call is one machine stack frame in an unoptimised build is the assumption validated
by the differential tie (child processes on a 2 MiB stack), not a theorem.
-/
import SophiaModel.Model.Depth
import SophiaModel.Model.DepthGraph

namespace SophiaProofs.C16
open SophiaModel SophiaModel.Depth SophiaModel.Gen.RecursionSites

/-! ## matching iterators -/

/-- the recursive and the looped `next` yield the same item and leave the same iterator state -/
theorem next_rec_eq_next_loop (ms : Matchers) (c : Cache) (rows : List Row) :
    (nextRec ms c rows).item = (nextLoop ms c rows).item ∧
    (nextRec ms c rows).cache = (nextLoop ms c rows).cache ∧
    (nextRec ms c rows).rest = (nextLoop ms c rows).rest := by
  induction rows generalizing c with
  | nil => simp [nextRec, nextLoop]
  | cons r rest ih =>
    by_cases h : (stage ms c r).2 = true
    · simp [nextRec, nextLoop, h]
    · simpa [nextRec, nextLoop, h] using ih _

/-- the looped `next` needs one frame whatever it skips -/
theorem next_loop_depth_bounded (ms : Matchers) (c : Cache) (rows : List Row) :
    (nextLoop ms c rows).depth ≤ 1 := by
  induction rows generalizing c with
  | nil => simp [nextLoop]
  | cons r rest ih =>
    by_cases h : (stage ms c r).2 = true
    · simp [nextLoop, h]
    · simpa [nextLoop, h] using ih _

/-- the recursive `next` has exactly one active call per row it consumes (plus one when it runs off
the end): depth = rows consumed, for every matcher, cache and row list -/
theorem next_rec_depth_exact (ms : Matchers) (c : Cache) (rows : List Row) :
    (nextRec ms c rows).depth + (nextRec ms c rows).rest.length =
      rows.length + (if (nextRec ms c rows).item.isSome then 0 else 1) := by
  induction rows generalizing c with
  | nil => simp [nextRec]
  | cons r rest ih =>
    by_cases h : (stage ms c r).2 = true
    · simp [nextRec, h]; omega
    · have := ih (stage ms c r).1
      simp [nextRec, h]
      omega

theorem stageK_fam (k : Nat) :
    stageK (List.replicate k (fun _ => true)) (List.replicate k ⟨0, true⟩) (List.replicate k 0) =
      (List.replicate k ⟨0, true⟩, true) := by
  induction k with
  | zero => simp [stageK]
  | succ k ih => simp [List.replicate_succ, stageK, ih]

theorem stage_fam (k t j : Nat) (c : Pos) :
    stage (famMs k t) (famCache k c) (famRow k j) = (famCache k ⟨j, j == t⟩, j == t) := by
  simp [stage, famMs, famCache, famRow, stageK_fam]

theorem next_rec_fam (k t : Nat) (js : List Nat) (hjs : ∀ j ∈ js, j ≠ t) (c : Pos) :
    (nextRec (famMs k t) (famCache k c) (js.map (famRow k) ++ [famRow k t])).depth = js.length + 1 ∧
    (nextRec (famMs k t) (famCache k c) (js.map (famRow k) ++ [famRow k t])).item = some (famRow k t) := by
  induction js generalizing c with
  | nil => simp [nextRec, stage_fam]
  | cons j js ih =>
    have hj : (j == t) = false := by simpa using hjs j (by simp)
    have := ih (fun x hx => hjs x (by simp [hx])) ⟨j, false⟩
    simp [nextRec, stage_fam, hj, this]

/-- REFUTATION for `selfRecursiveOnData` iterators: `n` rows rejected by the closure matcher before
the first accepted one need more than `n` nested calls (any number `k` of `Any` positions before it) -/
theorem next_rec_depth_linear (k n : Nat) (c : Pos) :
    (nextRec (famMs k n) (famCache k c) (famRows k n)).depth ≥ n := by
  have := (next_rec_fam k n (List.range n) (by intro j hj; have := List.mem_range.mp hj; omega) c).1
  simp [famRows, this]

/-- … and on the same family the looped text needs one -/
theorem next_loop_fam_depth (k n : Nat) (c : Pos) :
    (nextLoop (famMs k n) (famCache k c) (famRows k n)).depth ≤ 1 :=
  next_loop_depth_bounded _ _ _

/-! ## quoted_string -/

theorem splitCut_none {txt pre : List Char} (h : splitCut txt = (pre, none)) :
    txt.flatMap (fun c => if isCut c then escOf c else [c]) = pre := by
  induction txt generalizing pre with
  | nil => simp [splitCut] at h; simp [h]
  | cons a as ih =>
    unfold splitCut at h
    split at h
    · simp at h
    · rename_i ha
      simp at h
      have := ih (pre := (splitCut as).1) (by rw [← h.2])
      simp [ha, this, ← h.1]

theorem splitCut_some {txt pre : List Char} {c : Char} {rest : List Char}
    (h : splitCut txt = (pre, some (c, rest))) :
    txt.flatMap (fun c => if isCut c then escOf c else [c]) =
      pre ++ escOf c ++ rest.flatMap (fun c => if isCut c then escOf c else [c]) := by
  induction txt generalizing pre with
  | nil => simp [splitCut] at h
  | cons a as ih =>
    unfold splitCut at h
    split at h
    · rename_i ha
      simp at h
      obtain ⟨rfl, rfl, rfl⟩ := h
      simp [ha]
    · rename_i ha
      simp at h
      have := ih (pre := (splitCut as).1) (by rw [← h.2])
      simp [ha, this, ← h.1]

/-- the recursive and the one-pass `quoted_string` write the same bytes -/
theorem quoted_rec_eq_loop (txt : List Char) :
    (quotedStringRec txt).1 = (quotedStringLoop txt).1 := by
  fun_induction quotedStringRec txt with
  | case1 txt pre h => simp [quotedStringLoop, splitCut_none h]
  | case2 txt pre c rest h hr =>
    have : rest = [] := by simpa using hr
    subst this
    simp [quotedStringLoop, splitCut_some h]
  | case3 txt pre c rest h hr r ih =>
    simp only [quotedStringLoop] at ih ⊢
    simp [r, splitCut_some h, ih]

theorem quoted_loop_depth_bounded (txt : List Char) : (quotedStringLoop txt).2 ≤ 1 := by
  simp [quotedStringLoop]

theorem quotedStringRec_cut_cons (c : Char) (hc : isCut c = true) (d : Char) (rest : List Char) :
    (quotedStringRec (c :: d :: rest)).2 = (quotedStringRec (d :: rest)).2 + 1 := by
  rw [quotedStringRec]
  split
  · rename_i pre h; simp [splitCut, hc] at h
  · rename_i pre c' rest' h
    simp [splitCut, hc] at h
    obtain ⟨_, _, rfl⟩ := h
    simp

theorem quotedStringRec_depth_pos (txt : List Char) : 1 ≤ (quotedStringRec txt).2 := by
  rw [quotedStringRec]
  split
  · simp
  · split <;> simp

/-- REFUTATION: a literal of `n` escaped characters needs `n` nested calls of `quoted_string` -/
theorem quoted_rec_depth_linear (n : Nat) :
    (quotedStringRec (List.replicate n '\n')).2 ≥ n := by
  induction n with
  | zero => simp
  | succ n ih =>
    cases n with
    | zero => exact quotedStringRec_depth_pos _
    | succ m =>
      have := quotedStringRec_cut_cons '\n' (by decide) '\n' (List.replicate m '\n')
      simp only [List.replicate_succ] at ih ⊢
      omega

/-! ## graph_rec -/

theorem graphLoopAux_ok {G E S : Type} (sel : G → Except E (List S)) (acc : List S) (gs : List G) :
    graphLoopAux sel acc gs = (graphLoopAux sel [] gs).map (acc ++ ·) := by
  induction gs generalizing acc with
  | nil => simp [graphLoopAux, Except.map]
  | cons g gs ih =>
    simp only [graphLoopAux]
    cases hg : sel g with
    | error e => simp [Except.map]
    | ok r =>
      simp only []
      rw [ih (acc ++ r), ih ([] ++ r)]
      cases graphLoopAux sel [] gs <;> simp [Except.map]

/-- recursive and looped `GRAPH ?g` enumeration produce the same solutions (or the same first error) -/
theorem graph_rec_eq_graph_loop {G E S : Type} (sel : G → Except E (List S)) (gs : List G) :
    (graphRec sel gs).1 = (graphLoop sel gs).1 := by
  induction gs with
  | nil => simp [graphRec, graphLoop, graphLoopAux]
  | cons g gs ih =>
    simp only [graphLoop] at ih ⊢
    simp only [graphRec, graphLoopAux]
    cases hg : sel g with
    | error e => simp
    | ok r =>
      simp only []
      rw [graphLoopAux_ok, ih]
      simp

theorem graph_loop_depth_bounded {G E S : Type} (sel : G → Except E (List S)) (gs : List G) :
    (graphLoop sel gs).2 ≤ 1 := by simp [graphLoop]

/-- when no graph's evaluation fails, `graph_rec` nests one call per graph name (plus the final one) -/
theorem graph_rec_depth_exact {G E S : Type} (sel : G → Except E (List S)) (gs : List G)
    (hok : ∀ g ∈ gs, ∃ r, sel g = .ok r) : (graphRec sel gs).2 = gs.length + 1 := by
  induction gs with
  | nil => simp [graphRec]
  | cons g gs ih =>
    obtain ⟨r, hr⟩ := hok g (by simp)
    have := ih (fun x hx => hok x (by simp [hx]))
    simp [graphRec, hr, this]

/-- without any hypothesis on `sel` (an evaluation may fail anywhere): never more than one call per
graph name plus one -/
theorem graph_rec_depth_le {G E S : Type} (sel : G → Except E (List S)) (gs : List G) :
    (graphRec sel gs).2 ≤ gs.length + 1 := by
  induction gs with
  | nil => simp [graphRec]
  | cons g gs ih =>
    simp only [graphRec, List.length_cons]
    cases hg : sel g with
    | error e => simp
    | ok r => simp only []; omega

/-- REFUTATION: `n` named graphs need more than `n` nested calls -/
theorem graph_rec_depth_linear (n : Nat) :
    (graphRec (fun g => (.ok [g] : Except Unit (List Nat))) (List.range n)).2 ≥ n := by
  rw [graph_rec_depth_exact _ _ (fun g _ => ⟨[g], rfl⟩)]
  simp

/-! ## populate_list / mark_list_node -/

theorem populate_rec_eq_loop {I E J : Type} (conv : I → Except E J) (acc : List J) (cells : List I) :
    (populateListRec conv acc cells).1 = (populateListLoop conv acc cells).1 := by
  induction cells generalizing acc with
  | nil => simp [populateListRec, populateListLoop, populateListLoopAux]
  | cons c cs ih =>
    cases cs with
    | nil =>
      simp only [populateListRec, populateListLoop, populateListLoopAux]
      cases conv c <;> simp
    | cons c' cs =>
      simp only [populateListLoop] at ih ⊢
      simp only [populateListRec, populateListLoopAux]
      cases hc : conv c with
      | error e => simp
      | ok j =>
        have := ih (acc ++ [j])
        simp only [populateListLoopAux] at this
        simpa using this

theorem populate_loop_depth_bounded {I E J : Type} (conv : I → Except E J) (acc : List J) (cells : List I) :
    (populateListLoop conv acc cells).2 ≤ 1 := by simp [populateListLoop]

/-- when no item conversion fails, `populate_list` nests one call per list cell -/
theorem populate_rec_depth_exact {I E J : Type} (conv : I → Except E J) (acc : List J) (cells : List I)
    (hok : ∀ c ∈ cells, ∃ j, conv c = .ok j) :
    (populateListRec conv acc cells).2 = max 1 cells.length := by
  induction cells generalizing acc with
  | nil => simp [populateListRec]
  | cons c cs ih =>
    obtain ⟨j, hj⟩ := hok c (by simp)
    cases cs with
    | nil => simp [populateListRec, hj]
    | cons c' cs =>
      have := ih (acc ++ [j]) (fun x hx => hok x (by simp [hx]))
      simp [populateListRec, hj, this]

/-- without any hypothesis on `conv` -/
theorem populate_rec_depth_le {I E J : Type} (conv : I → Except E J) (acc : List J) (cells : List I) :
    (populateListRec conv acc cells).2 ≤ max 1 cells.length := by
  induction cells generalizing acc with
  | nil => simp [populateListRec]
  | cons c cs ih =>
    cases cs with
    | nil => simp only [populateListRec]; cases conv c <;> simp
    | cons c' cs =>
      simp only [populateListRec]
      cases hc : conv c with
      | error e => simp
      | ok j =>
        have := ih (acc ++ [j])
        simp only [List.length_cons] at this ⊢
        omega

/-- REFUTATION: a list of `n` items needs `n` nested calls -/
theorem populate_rec_depth_linear (n : Nat) :
    (populateListRec (fun i => (.ok i : Except Unit Nat)) [] (List.range n)).2 ≥ n := by
  rw [populate_rec_depth_exact _ _ _ (fun c _ => ⟨c, rfl⟩)]
  simp; omega

theorem markLoopAux_acc (acc : List Nat) (cells : List Cell) :
    markLoopAux acc cells = acc ++ markLoopAux [] cells := by
  induction cells generalizing acc with
  | nil => simp [markLoopAux]
  | cons c cs ih =>
    simp only [markLoopAux]
    split
    · split
      · rw [ih (acc ++ [c.id]), ih ([] ++ [c.id])]; simp
      · simp
    · simp

theorem mark_rec_eq_loop (cells : List Cell) : (markRec cells).1 = (markLoop cells).1 := by
  induction cells with
  | nil => simp [markRec, markLoop, markLoopAux]
  | cons c cs ih =>
    simp only [markLoop] at ih ⊢
    simp only [markRec, markLoopAux]
    split
    · split
      · rw [markLoopAux_acc]; simp [ih]
      · simp
    · simp

theorem mark_loop_depth_bounded (cells : List Cell) : (markLoop cells).2 ≤ 1 := by
  simp [markLoop]; omega

/-- REFUTATION: walking back a list of `n` cells needs `n` nested calls of `mark_list_node` -/
theorem mark_rec_depth_linear (n : Nat) :
    (markRec ((List.range n).map (fun i => (⟨i, true, true⟩ : Cell)))).2 ≥ n := by
  have : ∀ (l : List Nat), (markRec (l.map (fun i => (⟨i, true, true⟩ : Cell)))).2 = l.length := by
    intro l
    induction l with
    | nil => simp [markRec]
    | cons a l ih => simp [markRec, ih]
  rw [this]; simp

/-! ## DedupIterator::next -/

theorem dedup_rec_eq_loop {α : Type} [DecidableEq α] (prev : Option α) (xs : List α) :
    (dedupRec prev xs).item = (dedupLoop prev xs).item ∧
    (dedupRec prev xs).prev = (dedupLoop prev xs).prev ∧
    (dedupRec prev xs).rest = (dedupLoop prev xs).rest := by
  induction xs with
  | nil => simp [dedupRec, dedupLoop]
  | cons x xs ih =>
    by_cases h : some x = prev
    · simpa [dedupRec, dedupLoop, h] using ih
    · simp [dedupRec, dedupLoop, h]

theorem dedup_loop_depth_bounded {α : Type} [DecidableEq α] (prev : Option α) (xs : List α) :
    (dedupLoop prev xs).depth ≤ 1 := by
  induction xs with
  | nil => simp [dedupLoop]
  | cons x xs ih =>
    by_cases h : some x = prev
    · simpa [dedupLoop, h] using ih
    · simp [dedupLoop, h]

/-- REFUTATION for the recursive text: `n` statements with the same (graph, subject) as the previous
one need `n` nested calls -/
theorem dedup_rec_depth_linear {α : Type} [DecidableEq α] (x : α) (n : Nat) :
    (dedupRec (some x) (List.replicate n x)).depth ≥ n := by
  induction n with
  | zero => simp
  | succ n ih => simp only [List.replicate_succ, dedupRec]; simp; omega

/-! ## recursion on nesting only: bounded by the nesting, whatever the amount of data -/

/-- the instrumented `Term::cmp` computes `Term.termCmp` (the order whose laws are C02's theorems) -/
theorem term_cmp_fst (a b : Term) : (termCmpD a b).1 = Term.termCmp a b := by
  induction a generalizing b with
  | triple s1 p1 o1 ihs ihp iho =>
    cases b with
    | triple s2 p2 o2 =>
      have hs := ihs s2; have hp := ihp p2; have ho := iho o2
      simp only [termCmpD, Term.termCmp]
      cases h1 : Term.termCmp s1 s2 <;> cases h2 : Term.termCmp p1 p2 <;>
        simp_all [Ordering.then]
    | _ => simp [termCmpD]
  | _ => cases b <;> simp [termCmpD]

/-- `Term::cmp`: at most one call per level of quoting of the LESS nested argument, whatever the
lengths of the strings -/
theorem term_cmp_depth_bounded (a b : Term) : (termCmpD a b).2 ≤ 1 + min (nesting a) (nesting b) := by
  induction a generalizing b with
  | triple s1 p1 o1 ihs ihp iho =>
    cases b with
    | triple s2 p2 o2 =>
      have hs := ihs s2; have hp := ihp p2; have ho := iho o2
      simp only [termCmpD, nesting]
      split
      · simp only []; omega
      · split
        · simp only []; omega
        · simp only []; omega
    | _ => simp [termCmpD]
  | _ => cases b <;> simp [termCmpD]

theorem term_eq_fst (a b : Term) : (termEqD a b).1 = Term.termEq a b := by
  induction a generalizing b with
  | triple s1 p1 o1 ihs ihp iho =>
    cases b with
    | triple s2 p2 o2 =>
      have hs := ihs s2; have hp := ihp p2; have ho := iho o2
      simp only [termEqD, Term.termEq]
      cases h1 : Term.termEq s1 s2 <;> cases h2 : Term.termEq p1 p2 <;> simp_all
    | _ => simp [termEqD]
  | _ => cases b <;> simp [termEqD]

theorem term_eq_depth_bounded (a b : Term) : (termEqD a b).2 ≤ 1 + min (nesting a) (nesting b) := by
  induction a generalizing b with
  | triple s1 p1 o1 ihs ihp iho =>
    cases b with
    | triple s2 p2 o2 =>
      have hs := ihs s2; have hp := ihp p2; have ho := iho o2
      simp only [termEqD, nesting]
      split
      · simp only []; omega
      · split
        · simp only []; omega
        · simp only []; omega
    | _ => simp [termEqD]
  | _ => cases b <;> simp [termEqD]

theorem term_hash_fst (t : Term) : (termHashD t).1 = Term.termHash t := by
  induction t with
  | triple s p o ihs ihp iho => simp [termHashD, Term.termHash, ihs, ihp, iho]
  | _ => simp [termHashD]

theorem term_hash_depth_bounded (t : Term) : (termHashD t).2 ≤ 1 + nesting t := by
  induction t with
  | triple s p o ihs ihp iho => simp only [termHashD, nesting]; omega
  | _ => simp [termHashD]

/-- `nq`: calls ≤ nesting + 2 (one more for a literal's datatype), for a lexical form of any length
with any number of escaped characters -/
theorem nq_depth_bounded (t : Term) : (nqW t).2 ≤ 2 + nesting t := by
  induction t with
  | triple s p o ihs ihp iho => simp only [nqW, nesting]; omega
  | lit lex dt => simp only [nqW, nesting]; split <;> simp
  | _ => simp only [nqW]; omega

/-- N-Triples `write_term ⇄ write_triple`: two calls per level of quoting, none per character -/
theorem nt_write_term_depth_bounded (t : Term) : (ntWriteTerm t).2 ≤ 1 + 2 * nesting t := by
  induction t with
  | triple s p o ihs ihp iho => simp only [ntWriteTerm, nesting]; omega
  | lit lex dt => simp only [ntWriteTerm, nesting]; split <;> simp
  | _ => simp [ntWriteTerm]

theorem bits_mono {a b : Nat} (h : a ≤ b) : bits a ≤ bits b := by
  induction b using Nat.strongRecOn generalizing a with
  | _ b ih =>
    rw [bits.eq_def a, bits.eq_def b]
    by_cases ha : a = 0
    · simp [ha]
    · have hb : b ≠ 0 := by omega
      simp only [ha, hb, if_false]
      have := ih (b / 2) (by omega) (a := a / 2) (Nat.div_le_div_right h)
      omega

/-- `find_subject`: the recursion halves the slice — at most (binary digits of the length) + 1 calls -/
theorem find_subject_depth_bounded (cmp : Nat → Ordering) (swt : List Nat) :
    (findSubject cmp swt).2 ≤ bits swt.length + 1 := by
  induction hn : swt.length using Nat.strongRecOn generalizing swt with
  | _ n ih =>
    subst hn
    rw [findSubject]
    split
    · simp
    · rename_i hne
      have hpos : 0 < swt.length := by omega
      have hb : bits swt.length = bits (swt.length / 2) + 1 := by
        rw [bits.eq_def]; simp [hne]
      dsimp only
      split
      · have h1 := ih (swt.drop (swt.length / 2 + 1)).length (by simp; omega) _ rfl
        have h2 : bits (swt.drop (swt.length / 2 + 1)).length ≤ bits (swt.length / 2) :=
          bits_mono (by simp; omega)
        simp only []
        omega
      · simp
      · have h1 := ih (swt.take (swt.length / 2)).length (by simp; omega) _ rfl
        have h2 : bits (swt.take (swt.length / 2)).length ≤ bits (swt.length / 2) :=
          bits_mono (by simp; omega)
        simp only []
        omega

theorem foldl_max_le {α : Type} (f : α → Nat) (l : List α) (d b : Nat) (hd : d ≤ b) (h : ∀ x ∈ l, f x ≤ b) :
    l.foldl (fun d r => max d (f r)) d ≤ b := by
  induction l generalizing d with
  | nil => simpa
  | cons a l ih =>
    simp only [List.foldl]
    exact ih _ (by have := h a (by simp); omega) (fun x hx => h x (by simp [hx]))

/-- `bgp_rec`: one call per triple pattern of the query, however many rows match -/
theorem bgp_rec_depth_bounded {P B : Type} (ms : P → B → List B) (ps : List P) (b : B) :
    (bgpRec ms ps b).2 ≤ ps.length + 1 := by
  induction ps generalizing b with
  | nil => simp [bgpRec]
  | cons p ps ih =>
    simp only [bgpRec, List.length_cons]
    have := foldl_max_le (fun r : List B × Nat => r.2) ((ms p b).map (bgpRec ms ps)) 0 (ps.length + 1)
      (by omega) (by
        intro x hx
        obtain ⟨b', _, rfl⟩ := List.mem_map.mp hx
        exact ih b')
    omega

/-- `cmp_bindings_with`: one call per ORDER BY criterion of the QUERY -/
theorem cmp_bindings_depth_bounded {B C : Type} (ev : C → B → B → Ordering) (crit : List C) (b1 b2 : B) :
    (cmpBindingsWith ev crit b1 b2).2 ≤ crit.length + 1 := by
  induction crit with
  | nil => simp [cmpBindingsWith]
  | cons c rest ih =>
    simp only [cmpBindingsWith, List.length_cons]
    split
    · simp only []; omega
    · simp

theorem foldl_step_le {α : Type} (step : Nat → α → Nat) (l : List α) (d b : Nat) (hd : d ≤ b)
    (h : ∀ d x, d ≤ b → step d x ≤ b) : l.foldl step d ≤ b := by
  induction l generalizing d with
  | nil => simpa
  | cons a l ih => exact ih _ (h d a hd)

/-- `order_by`: whatever pairs of rows the sort compares, and however many rows there are -/
theorem order_by_depth_bounded {B C : Type} (ev : C → B → B → Ordering) (crit : List C) (rows : List B) :
    orderByDepth ev crit rows ≤ crit.length + 1 := by
  unfold orderByDepth
  apply foldl_step_le _ _ _ _ (by omega)
  intro d a hd
  apply foldl_step_le _ _ _ _ hd
  intro d b hd
  have := cmp_bindings_depth_bounded ev crit a b
  omega

theorem foldl_max_le' (l : List Nat) (d b : Nat) (hd : d ≤ b) (h : ∀ x ∈ l, x ≤ b) :
    l.foldl max d ≤ b := by
  induction l generalizing d with
  | nil => simpa
  | cons a l ih =>
    simp only [List.foldl]
    exact ih _ (by have := h a (by simp); omega) (fun x hx => h x (by simp [hx]))

theorem jsonify_nested (nodes : List JNode) (j : Nat) : (jsonify nodes j false).2 = 1 := by
  rw [jsonify]
  split
  · rfl
  · split
    · rfl
    · split
      · rfl
      · simp

/-- `jsonify`: a root call plus the calls for the nodes of the graph it names — two, for any number
of nodes, graphs and statements -/
theorem jsonify_depth_bounded (nodes : List JNode) (i : Nat) (root : Bool) :
    (jsonify nodes i root).2 ≤ 2 := by
  rw [jsonify]
  split
  · simp
  · split
    · simp
    · split
      · simp
      · split
        · split
          · rename_i ng _
            have := foldl_max_le' (ng.map (fun j => (jsonify nodes j false).2)) 0 1 (by omega) (by
              intro x hx
              obtain ⟨j, _, rfl⟩ := List.mem_map.mp hx
              rw [jsonify_nested]; omega)
            simp only []
            omega
          · simp
        · simp

theorem into_json_depth_bounded (nodes : List JNode) : intoJsonDepth nodes ≤ 2 := by
  unfold intoJsonDepth
  apply foldl_max_le' _ _ _ (by omega)
  intro x hx
  obtain ⟨i, _, rfl⟩ := List.mem_map.mp hx
  exact jsonify_depth_bounded nodes i true

mutual
/-- `convert_rdf_object ⇄ populate_list`: two calls per level of list-in-list, none per list item -/
theorem populate_convert_depth_bounded : ∀ i : LItem, convertD i ≤ 1 + 2 * i.nest
  | .leaf => by simp [convertD, LItem.nest]
  | .sub cells => by
    have := populateD_le cells
    simp only [convertD, LItem.nest]; omega
theorem populateD_le : ∀ cs : LItems, populateD cs ≤ 2 + 2 * cs.nest
  | .nil => by simp [populateD, LItems.nest]
  | .cons i rest => by
    have := populate_convert_depth_bounded i
    have := populateD_le rest
    simp only [populateD, LItems.nest]; omega
end

theorem foldl_const_max_le {α : Type} (l : List α) (c d : Nat) (hd : d ≤ c) :
    l.foldl (fun d _ => max d c) d ≤ c := by
  induction l generalizing d with
  | nil => simpa
  | cons a l ih => simp only [List.foldl]; exact ih _ (by omega)

theorem graphVar_loop_le (g c : Nat) : (List.range g).foldl (fun d _ => max d c) 0 ≤ c :=
  foldl_const_max_le (List.range g) c 0 (by omega)

mutual
/-- `select ⇄ operators ⇄ check_exists`: at most three calls per level of the QUERY (operators,
expressions, EXISTS patterns), for any number `g` of named graphs in the dataset -/
theorem select_depth_bounded (g : Nat) : ∀ a : Alg, selectD g a ≤ 3 * a.height + 1
  | .bgp => by simp [selectD]
  | .unsupported => by simp [selectD]
  | .filter e i => by
    have := check_exists_depth_bounded g e; have := select_depth_bounded g i
    simp only [selectD, Alg.height]; omega
  | .extend e i => by
    have := check_exists_depth_bounded g e; have := select_depth_bounded g i
    simp only [selectD, Alg.height]; omega
  | .orderBy es i => by
    have := checkArgsD_le g es; have := select_depth_bounded g i
    simp only [selectD, Alg.height]; omega
  | .union l r => by
    have := select_depth_bounded g l; have := select_depth_bounded g r
    simp only [selectD, Alg.height]; omega
  | .graphVar i => by
    have := select_depth_bounded g i
    have := graphVar_loop_le g (selectD g i)
    simp only [selectD, Alg.height]
    split <;> omega
  | .graphConst i => by have := select_depth_bounded g i; simp only [selectD, Alg.height]; omega
  | .project i => by have := select_depth_bounded g i; simp only [selectD, Alg.height]; omega
  | .distinct i => by have := select_depth_bounded g i; simp only [selectD, Alg.height]; omega
  | .slice i => by have := select_depth_bounded g i; simp only [selectD, Alg.height]; omega
/-- `check_exists`: one call per level of the expression, plus the `select` of an EXISTS pattern —
bounded by the nesting of the query expression, independent of rows, statements and named graphs -/
theorem check_exists_depth_bounded (g : Nat) : ∀ e : Expr, checkD g e ≤ 3 * e.height + 1
  | .leaf => by simp [checkD]
  | .exists p => by have := select_depth_bounded g p; simp only [checkD, Expr.height]; omega
  | .node args => by have := checkArgsD_le g args; simp only [checkD, Expr.height]; omega
theorem checkArgsD_le (g : Nat) : ∀ es : Exprs, checkArgsD g es ≤ 3 * es.height + 1
  | .nil => by simp [checkArgsD]
  | .cons e es => by
    have := check_exists_depth_bounded g e; have := checkArgsD_le g es
    simp only [checkArgsD, Exprs.height]; omega
end

mutual
/-- the prettifier: at most six calls per level of ANYTHING it nests (quoted triple, collection,
annotation, anonymous blank node), for any number of arcs per node and items per collection -/
theorem pretty_depth_bounded : ∀ t : PT, wTerm t ≤ 1 + 6 * t.nestAll
  | .atom => by simp [wTerm, PT.nestAll]
  | .quoted s p o => by
    have := pretty_depth_bounded s; have := pretty_depth_bounded p; have := pretty_depth_bounded o
    simp only [wTerm, PT.nestAll]; omega
  | .coll items => by
    have := wItems_le items
    simp only [wTerm, PT.nestAll]; omega
  | .anon arcs => by
    have := wProps_le arcs
    simp only [wTerm, PT.nestAll]; omega
theorem wItems_le : ∀ ts : PTs, wItems ts ≤ 2 + 6 * ts.nestAll
  | .nil => by simp [wItems]
  | .cons t ts => by
    have := pretty_depth_bounded t; have := wItems_le ts
    simp only [wItems, PTs.nestAll]; omega
theorem wProps_le : ∀ a : PArcs, wProps a ≤ 5 + 6 * a.nestAll
  | .nil => by simp only [wProps]; omega
  | .cons p o v ann rest => by
    have hp := pretty_depth_bounded p; have ho := pretty_depth_bounded o
    have hr := wProps_le rest; have ha := wProps_le ann
    cases ann with
    | nil => cases v <;> simp only [wProps, PArcs.nestAll] <;> simp <;> omega
    | cons p' o' v' ann' rest' =>
      cases v <;> simp only [wProps, PArcs.nestAll] at ha ⊢ <;> simp <;> omega
end

theorem wTerm_chain (n : Nat) : wTerm (chainPT n) = 5 * n + 1 := by
  induction n with
  | zero => simp [chainPT, wTerm]
  | succ n ih => simp only [chainPT, wTerm, wProps, ih]; simp; omega

theorem nestData_chain (n : Nat) : (chainPT n).nestData = 0 := by
  induction n with
  | zero => simp [chainPT, PT.nestData]
  | succ n ih => simp [chainPT, PT.nestData, PArcs.nestData, ih]

theorem nestAll_chain (n : Nat) : (chainPT n).nestAll = n := by
  induction n with
  | zero => simp [chainPT, PT.nestAll]
  | succ n ih => simp [chainPT, PT.nestAll, PArcs.nestAll, ih]; omega

/-- the property's clause for the prettifier, at full strength: depth bounded by a function of the
nesting of the DATA (quoted triples, collections) -/
def PrettyFull : Prop := ∃ c k : Nat, ∀ t : PT, wTerm t ≤ c + k * t.nestData

/-- FINDING: it does not hold.  `x:s x:p _:b0 . _:b0 x:p _:b1 . …`: `n` plain statements, no quoted
triple, no collection — 5 n + 1 nested calls -/
theorem pretty_full_refuted : ¬ PrettyFull := by
  rintro ⟨c, k, h⟩
  have := h (chainPT (c + 1))
  rw [wTerm_chain, nestData_chain] at this
  omega

/-- … what does hold of the same text: the bound by data nesting PLUS the nesting of anonymous blank
nodes (`nestAll` counts both; `pretty_depth_bounded`) -/
theorem pretty_depth_bounded_partial (t : PT) : wTerm t ≤ 1 + 6 * t.nestAll := pretty_depth_bounded t

/-! ### the repaired prettifier (`MAX_BNODE_NESTING`): the tree it walks is `cut c 0 t` -/

mutual
theorem anonNest_cut : ∀ (t : PT) (c lvl : Nat), (t.cut c lvl).anonNest ≤ c - lvl
  | .atom, c, lvl => by simp [PT.cut, PT.anonNest]
  | .quoted s p o, c, lvl => by
    have := anonNest_cut s c lvl; have := anonNest_cut p c lvl; have := anonNest_cut o c lvl
    simp only [PT.cut, PT.anonNest]; omega
  | .coll items, c, lvl => by
    have := anonNest_cuts items c lvl
    simp only [PT.cut, PT.anonNest]; omega
  | .anon arcs, c, lvl => by
    have := anonNest_cuta arcs c (lvl + 1)
    simp only [PT.cut]
    split
    · simp [PT.anonNest]
    · simp only [PT.anonNest]; omega
theorem anonNest_cuts : ∀ (ts : PTs) (c lvl : Nat), (ts.cut c lvl).anonNest ≤ c - lvl
  | .nil, c, lvl => by simp [PTs.cut, PTs.anonNest]
  | .cons t ts, c, lvl => by
    have := anonNest_cut t c lvl; have := anonNest_cuts ts c lvl
    simp only [PTs.cut, PTs.anonNest]; omega
theorem anonNest_cuta : ∀ (a : PArcs) (c lvl : Nat), (a.cut c lvl).anonNest ≤ c - lvl
  | .nil, c, lvl => by simp [PArcs.cut, PArcs.anonNest]
  | .cons p o v ann rest, c, lvl => by
    have := anonNest_cut p c lvl; have := anonNest_cut o c lvl
    have := anonNest_cuta ann c lvl; have := anonNest_cuta rest c lvl
    simp only [PArcs.cut, PArcs.anonNest]; omega
end

mutual
theorem nestData_cut : ∀ (t : PT) (c lvl : Nat), (t.cut c lvl).nestData ≤ t.nestData
  | .atom, c, lvl => by simp [PT.cut]
  | .quoted s p o, c, lvl => by
    have := nestData_cut s c lvl; have := nestData_cut p c lvl; have := nestData_cut o c lvl
    simp only [PT.cut, PT.nestData]; omega
  | .coll items, c, lvl => by
    have := nestData_cuts items c lvl
    simp only [PT.cut, PT.nestData]; omega
  | .anon arcs, c, lvl => by
    have := nestData_cuta arcs c (lvl + 1)
    simp only [PT.cut]
    split
    · simp [PT.nestData]
    · simp only [PT.nestData]; omega
theorem nestData_cuts : ∀ (ts : PTs) (c lvl : Nat), (ts.cut c lvl).nestData ≤ ts.nestData
  | .nil, c, lvl => by simp [PTs.cut]
  | .cons t ts, c, lvl => by
    have := nestData_cut t c lvl; have := nestData_cuts ts c lvl
    simp only [PTs.cut, PTs.nestData]; omega
theorem nestData_cuta : ∀ (a : PArcs) (c lvl : Nat), (a.cut c lvl).nestData ≤ a.nestData
  | .nil, c, lvl => by simp [PArcs.cut]
  | .cons p o v ann rest, c, lvl => by
    have hp := nestData_cut p c lvl; have ho := nestData_cut o c lvl
    have ha := nestData_cuta ann c lvl; have hr := nestData_cuta rest c lvl
    cases ann with
    | nil => simp only [PArcs.cut, PArcs.nestData]; omega
    | cons p' o' v' ann' rest' => simp only [PArcs.cut, PArcs.nestData] at ha ⊢; omega
end

mutual
/-- everything the writer nests = nesting of the data + nesting of anonymous blank nodes -/
theorem nestAll_le : ∀ t : PT, t.nestAll ≤ t.nestData + t.anonNest
  | .atom => by simp [PT.nestAll]
  | .quoted s p o => by
    have := nestAll_le s; have := nestAll_le p; have := nestAll_le o
    simp only [PT.nestAll, PT.nestData, PT.anonNest]; omega
  | .coll items => by
    have := nestAll_les items
    simp only [PT.nestAll, PT.nestData, PT.anonNest]; omega
  | .anon arcs => by
    have := nestAll_lea arcs
    simp only [PT.nestAll, PT.nestData, PT.anonNest]; omega
theorem nestAll_les : ∀ ts : PTs, ts.nestAll ≤ ts.nestData + ts.anonNest
  | .nil => by simp [PTs.nestAll]
  | .cons t ts => by
    have := nestAll_le t; have := nestAll_les ts
    simp only [PTs.nestAll, PTs.nestData, PTs.anonNest]; omega
theorem nestAll_lea : ∀ a : PArcs, a.nestAll ≤ a.nestData + a.anonNest
  | .nil => by simp [PArcs.nestAll]
  | .cons p o v ann rest => by
    have hp := nestAll_le p; have ho := nestAll_le o
    have ha := nestAll_lea ann; have hr := nestAll_lea rest
    cases ann with
    | nil => simp only [PArcs.nestAll, PArcs.nestData, PArcs.anonNest]; omega
    | cons p' o' v' ann' rest' =>
      simp only [PArcs.nestAll, PArcs.nestData, PArcs.anonNest] at ha ⊢; omega
end

/-- THE REPAIRED PRETTIFIER, any tree, any cap `c`: depth ≤ 1 + 6 (nesting of the data + c), for any
number of statements, arcs per node, items per collection and any length of blank node chains -/
theorem pretty_repaired_depth_bounded (c : Nat) (t : PT) : wTerm (t.cut c 0) ≤ 1 + 6 * (t.nestData + c) := by
  have h1 := pretty_depth_bounded (t.cut c 0)
  have h2 := nestAll_le (t.cut c 0)
  have h3 := nestData_cut t c 0
  have h4 := anonNest_cut t c 0
  omega

/-- … and for a deferred blank node, described in a tree of its own (`write_properties` at nesting 0) -/
theorem pretty_repaired_props_bounded (c : Nat) (a : PArcs) : wProps (a.cut c 0) ≤ 5 + 6 * (a.nestData + c) := by
  have h1 := wProps_le (a.cut c 0)
  have h2 := nestAll_lea (a.cut c 0)
  have h3 := nestData_cuta a c 0
  have h4 := anonNest_cuta a c 0
  omega

mutual
theorem anons_nestData : ∀ (t : PT) (a : PArcs), a ∈ t.anons → a.nestData ≤ t.nestData
  | .atom, a, h => by simp [PT.anons] at h
  | .quoted s p o, a, h => by
    simp only [PT.anons, List.mem_append] at h
    simp only [PT.nestData]
    rcases h with h | h | h
    · have := anons_nestData s a h; omega
    · have := anons_nestData p a h; omega
    · have := anons_nestData o a h; omega
  | .coll items, a, h => by
    have := anons_nestDatas items a (by simpa [PT.anons] using h)
    simp only [PT.nestData]; omega
  | .anon arcs, a, h => by
    simp only [PT.anons, List.mem_cons] at h
    simp only [PT.nestData]
    rcases h with rfl | h
    · omega
    · exact anons_nestDataa arcs a h
theorem anons_nestDatas : ∀ (ts : PTs) (a : PArcs), a ∈ ts.anons → a.nestData ≤ ts.nestData
  | .nil, a, h => by simp [PTs.anons] at h
  | .cons t ts, a, h => by
    simp only [PTs.anons, List.mem_append] at h
    simp only [PTs.nestData]
    rcases h with h | h
    · have := anons_nestData t a h; omega
    · have := anons_nestDatas ts a h; omega
theorem anons_nestDataa : ∀ (x : PArcs) (a : PArcs), a ∈ x.anons → a.nestData ≤ x.nestData
  | .nil, a, h => by simp [PArcs.anons] at h
  | .cons p o v ann rest, a, h => by
    simp only [PArcs.anons, List.mem_append] at h
    have hp := anons_nestData p a; have ho := anons_nestData o a
    have ha := anons_nestDataa ann a; have hr := anons_nestDataa rest a
    cases ann with
    | nil =>
      simp only [PArcs.nestData]
      rcases h with h | h | h | h
      · have := hp h; omega
      · have := ho h; omega
      · simp [PArcs.anons] at h
      · have := hr h; omega
    | cons p' o' v' ann' rest' =>
      simp only [PArcs.nestData] at ha ⊢
      rcases h with h | h | h | h
      · have := hp h; omega
      · have := ho h; omega
      · have := ha h; omega
      · have := hr h; omega
end

/-- THE REPAIRED PRETTIFIER, whole document: whichever blank nodes of a tree end up deferred, the tree
of each of them (`write_properties` at nesting 0 again) stays within the bound given by the data
nesting of the ORIGINAL tree and the cap -/
theorem pretty_repaired_deferred_bounded (c : Nat) (t : PT) :
    ∀ a ∈ t.anons, wProps (a.cut c 0) ≤ 5 + 6 * (t.nestData + c) := by
  intro a ha
  have h1 := pretty_repaired_props_bounded c a
  have h2 := anons_nestData t a ha
  omega

/-- the property's clause holds of the repaired text: bounded by a function of the nesting of the data -/
theorem pretty_repaired_full (c : Nat) : ∃ a k : Nat, ∀ t : PT, wTerm (t.cut c 0) ≤ a + k * t.nestData :=
  ⟨1 + 6 * c, 6, fun t => by have := pretty_repaired_depth_bounded c t; omega⟩

/-- the harness family of the chain site IS the cut tree: what is left of a chain of `n` blank nodes
entered at nesting `lvl` is a chain of `min n (c - lvl)` -/
theorem cut_chain (c : Nat) (n lvl : Nat) : (chainPT n).cut c lvl = chainPT (min n (c - lvl)) := by
  induction n generalizing lvl with
  | zero => simp [chainPT, PT.cut]
  | succ n ih =>
    by_cases h : lvl ≥ c
    · have : c - lvl = 0 := by omega
      simp [chainPT, PT.cut, h, this]
    · have e : min (n + 1) (c - lvl) = min n (c - (lvl + 1)) + 1 := by omega
      rw [e]
      simp [chainPT, PT.cut, PArcs.cut, h, ih]

/-! ## the generated call graph: no recursion over data, decided on the table -/

theorem rankOf_le_maxRank (r : List Nat) (i : Nat) : rankOf r i ≤ maxRank r := by
  unfold rankOf maxRank
  have key : ∀ (l : List Nat) (d : Nat), d ≤ l.foldl max d ∧ ∀ x ∈ l, x ≤ l.foldl max d := by
    intro l
    induction l with
    | nil => intro d; simp
    | cons a l ih =>
      intro d
      simp only [List.foldl]
      have h1 := (ih (max d a)).1
      have h2 := (ih (max d a)).2
      refine ⟨by omega, fun x hx => ?_⟩
      rcases List.mem_cons.mp hx with rfl | hx
      · omega
      · exact h2 x hx
  by_cases h : i < r.length
  · have : r.getD i 0 = r[i] := by simp [List.getD, h]
    rw [this]
    exact (key r 0).2 _ (List.getElem_mem h)
  · have : r.getD i 0 = 0 := by
      have hi : r.length ≤ i := by omega
      simp [List.getD, List.getElem?_eq_none hi]
    omega

/-- THE CALL-GRAPH THEOREM, for every graph and every rank: if the rank strictly decreases along
every non-descending edge, a chain of nested calls that starts with nesting measure `nest` has at
most `nest * (maxRank + 1) + rank(start)` calls — whatever the amount of data any of the functions
loops over -/
theorem chain_depth_bounded (es : List CallEdge) (r : List Nat) (h : wellRanked es r = true)
    {cur nest : Nat} {p : List CallEdge} (hc : Chain es cur nest p) :
    p.length ≤ nest * (maxRank r + 1) + rankOf r cur := by
  induction hc with
  | nil cur nest => simp
  | step e nest nest' rest he hn _ ih =>
    have hcal := rankOf_le_maxRank r e.2.1
    have hw := List.all_eq_true.mp h e he
    simp only [List.length_cons]
    by_cases hd : e.2.2 = true
    · simp only [hd, if_true] at hn
      have hm : (nest' + 1) * (maxRank r + 1) ≤ nest * (maxRank r + 1) := Nat.mul_le_mul_right _ hn
      rw [Nat.add_mul] at hm
      omega
    · have hd' : e.2.2 = false := by simpa using hd
      simp only [hd', Bool.false_eq_true, if_false] at hn
      simp only [hd', Bool.false_or, decide_eq_true_eq] at hw
      have hm : nest' * (maxRank r + 1) ≤ nest * (maxRank r + 1) := Nat.mul_le_mul_right _ hn
      omega

/-- OBLIGATION on the graph regenerated from /repo on every run: the non-descending calls of the
anchored files have no cycle — there is no recursion over rows, characters, graph names, list
cells or statements (a `return self.next()`, a `quoted_string(w, rest)`, … fails this) -/
theorem call_graph_well_ranked : wellRanked callEdges rankHint = true := by decide

theorem call_graph_ids : rankHint.length = functions.length ∧
    callEdges.all (fun e => decide (e.1 < functions.length) && decide (e.2.1 < functions.length)) = true := by
  decide

/-- for today's /repo: every chain of nested calls among the functions of the anchored files is
bounded by the nesting of its argument alone -/
theorem call_graph_chain_bounded {cur nest : Nat} {p : List CallEdge} (hc : Chain callEdges cur nest p) :
    p.length ≤ nest * (maxRank rankHint + 1) + maxRank rankHint := by
  have := chain_depth_bounded callEdges rankHint call_graph_well_ranked hc
  have := rankOf_le_maxRank rankHint cur
  omega

/-- the hypothesis is necessary: one non-descending self call (the shape of every fixed C16 defect)
admits chains of every length at nesting 0 -/
theorem chain_unbounded_without_rank (n : Nat) : ∃ p, p.length = n ∧ Chain [(0, 0, false)] 0 0 p := by
  induction n with
  | zero => exact ⟨[], rfl, .nil 0 0⟩
  | succ n ih =>
    obtain ⟨p, hp, hc⟩ := ih
    exact ⟨(0, 0, false) :: p, by simp [hp], .step (0, 0, false) 0 0 p (by simp) (by simp) hc⟩

/-! ## the generated table -/

/-- every row of the table regenerated from /repo names a function the model knows
(decided on the current table) -/
theorem table_names_known : sites.all (fun s => (Fn.ofName s.1).isSome) = true := by decide

/-- is any site classified `selfRecursiveOnData`? -/
def anyDataRecursion : Bool := sites.any (fun s => isRec s.2)

/-- no row of the table regenerated from /repo is a data recursion (decided on the current table:
a self call on the remainder of the data anywhere in the anchored functions fails this obligation) -/
theorem table_all_bounded : anyDataRecursion = false := by decide

theorem nesting_famLiteral (n : Nat) : nesting (famLiteral n) = 0 := by simp [famLiteral, nesting]

theorem nest_ofList_leaf (n : Nat) : (LItems.ofList (List.replicate n .leaf)).nest = 0 := by
  induction n with
  | zero => simp [LItems.ofList, LItems.nest]
  | succ n ih => simp [List.replicate_succ, LItems.ofList, LItems.nest, LItem.nest, ih]

theorem nest_famList (n : Nat) : (famList n).nest = 1 := by
  simp [famList, LItem.nest, nest_ofList_leaf]

theorem nestAll_ofList_atom (n : Nat) : (PTs.ofList (List.replicate n .atom)).nestAll = 0 := by
  induction n with
  | zero => simp [PTs.ofList, PTs.nestAll]
  | succ n ih => simp [List.replicate_succ, PTs.ofList, PTs.nestAll, PT.nestAll, ih]

theorem nestAll_famArcsAux (n k : Nat) : (famArcsAux n k).nestAll = 1 := by
  induction k with
  | zero => simp [famArcsAux, famListArc, PArcs.nestAll, PT.nestAll, nestAll_ofList_atom]
  | succ k ih => simp [famArcsAux, PArcs.nestAll, PT.nestAll, ih]

theorem wTree_famArcs (n : Nat) : wTree .atom (famArcs n) ≤ 5 + 6 * 1 := by
  have := wProps_le (famArcs n)
  rw [famArcs, nestAll_famArcsAux] at this
  simp only [wTree, wTerm, famArcs]
  omega

/-- on the harness family of every size `n`, every site in the loop / nesting formulation stays
within the bound that the general theorem of its model gives for the family's nesting -/
theorem siteDepth_bounded (f : Fn) (cls : SiteClass) (h : cls ≠ .selfRecursiveOnData) (n : Nat) :
    siteDepth f cls .flat n ≤ siteBound f n := by
  have hr : isRec cls = false := by cases cls <;> simp_all [isRec]
  cases f <;> simp only [siteDepth, siteBound, hr, Fn.arity, Bool.false_eq_true, if_false]
  case gspoNext => exact next_loop_depth_bounded _ _ _
  case bcdNext => exact next_loop_depth_bounded _ _ _
  case cdNext => exact next_loop_depth_bounded _ _ _
  case spoNext => exact next_loop_depth_bounded _ _ _
  case bcNext => exact next_loop_depth_bounded _ _ _
  case quotedString => exact quoted_loop_depth_bounded _
  case graphRec => exact graph_loop_depth_bounded _ _
  case populateList => exact populate_loop_depth_bounded _ _ _
  case markListNode => exact mark_loop_depth_bounded _
  case dedupNext => exact dedup_loop_depth_bounded _ _
  case cmpBindingsWith => exact order_by_depth_bounded _ _ _
  case bgpRec => exact bgp_rec_depth_bounded _ _ _
  case jsonify => exact into_json_depth_bounded _
  case findSubject =>
    cases cls <;> simp_all <;>
      first
      | omega
      | (have := find_subject_depth_bounded (fun _ => Ordering.lt) (List.range n); simpa using this)
  case nq => have := nq_depth_bounded (famLiteral n); simp only [nesting_famLiteral] at this ⊢; exact this
  case termCmp =>
    have := term_cmp_depth_bounded (famLiteral n) (famLiteral n)
    simp only [nesting_famLiteral] at this ⊢; omega
  case termEq =>
    have := term_eq_depth_bounded (famLiteral n) (famLiteral n)
    simp only [nesting_famLiteral] at this ⊢; omega
  case termHash => have := term_hash_depth_bounded (famLiteral n); simp only [nesting_famLiteral] at this ⊢; exact this
  case ntWriteTermCycle =>
    have := nt_write_term_depth_bounded (famLiteral n); simp only [nesting_famLiteral] at this ⊢; exact this
  case selectCycle => exact select_depth_bounded n famQuery
  case checkExists => exact check_exists_depth_bounded n famExpr
  case populateConvertCycle =>
    have := populate_convert_depth_bounded (famList n); simp only [nest_famList] at this ⊢; exact this
  case prettyWriteTerm => exact wTree_famArcs n
  case prettyWriteCycle => exact wTree_famArcs n

theorem siteDepth_linear (f : Fn) (sh : Shape) (n : Nat) : siteDepth f .selfRecursiveOnData sh n ≥ n := by
  cases f <;> simp only [siteDepth, isRec, if_true, Fn.arity, assumedLinear] <;>
    first
    | exact next_rec_depth_linear _ _ _
    | exact quoted_rec_depth_linear _
    | exact graph_rec_depth_linear _
    | exact populate_rec_depth_linear _
    | exact mark_rec_depth_linear _
    | exact dedup_rec_depth_linear _ _
    | omega

/-- PROPERTY-LEVEL, positive half: every site that the table regenerated from /repo classifies
`loop` or `recursiveOnNesting` has a call depth bounded independently of the amount of data -/
theorem table_verdict :
    ∀ s ∈ sites, s.2 = .loop ∨ s.2 = .recursiveOnNesting →
      ∀ f, Fn.ofName s.1 = some f → ∀ n, siteDepth f s.2 .flat n ≤ siteBound f n := by
  intro s _ hcls f _ n
  exact siteDepth_bounded f s.2 (by rcases hcls with h | h <;> simp [h]) n

/-- PROPERTY-LEVEL, negative half: every site the table classifies `selfRecursiveOnData` exceeds any
bound: the property is refuted at that site with the explicit family of size `n` -/
theorem table_refuted :
    ∀ s ∈ sites, s.2 = .selfRecursiveOnData →
      ∀ f, Fn.ofName s.1 = some f → ∀ sh n, siteDepth f s.2 sh n ≥ n := by
  intro s _ hcls f _ sh n
  rw [hcls]; exact siteDepth_linear f sh n

/-- all sites of the current table are bounded -/
def AllBounded : Prop :=
  ∀ s ∈ sites, ∃ f, Fn.ofName s.1 = some f ∧ ∀ n, siteDepth f s.2 .flat n ≤ siteBound f n

/-- some site of the current table is unbounded -/
def SomeUnbounded : Prop :=
  ∃ s ∈ sites, ∃ f, Fn.ofName s.1 = some f ∧ ∀ n, siteDepth f s.2 .flat n ≥ n

/-- the regenerated table decides which of the two property-level statements holds -/
theorem table_status :
    (anyDataRecursion = false → AllBounded) ∧ (anyDataRecursion = true → SomeUnbounded) := by
  have known := table_names_known
  rw [List.all_eq_true] at known
  constructor
  · intro h s hs
    have hk := known s hs
    obtain ⟨f, hf⟩ := Option.isSome_iff_exists.mp hk
    refine ⟨f, hf, fun n => ?_⟩
    have : isRec s.2 = false := by
      have := List.any_eq_false.mp h s hs
      simpa using this
    exact siteDepth_bounded f s.2 (by intro hc; simp [hc, isRec] at this) n
  · intro h
    obtain ⟨s, hs, hrec⟩ := List.any_eq_true.mp h
    have hk := known s hs
    obtain ⟨f, hf⟩ := Option.isSome_iff_exists.mp hk
    refine ⟨s, hs, f, hf, fun n => ?_⟩
    have : s.2 = .selfRecursiveOnData := by
      cases hc : s.2 <;> simp [hc, isRec] at hrec ⊢
    rw [this]; exact siteDepth_linear f .flat n

/-- for the table regenerated from today's /repo: every anchored site is bounded on inputs without
chains of anonymous blank nodes (unconditional: `table_all_bounded` is decided on the table) -/
theorem all_bounded : AllBounded := table_status.1 table_all_bounded

/-- the chain shape at the prettifier, following the generated `prettyBnodeNestingCap`:
uncapped (today) — FINDING: the depth exceeds every bound; capped at `c` — bounded by 11 + 6 c
for every length of the chain -/
theorem pretty_chain_status (cls : SiteClass) (hc : cls ≠ .selfRecursiveOnData) :
    match prettyBnodeNestingCap with
    | none => ∀ n, siteDepth .prettyWriteCycle cls .bnodeChain n ≥ n
    | some c => ∀ n, siteDepth .prettyWriteCycle cls .bnodeChain n ≤ 11 + 6 * c := by
  have hr : isRec cls = false := by cases cls <;> simp_all [isRec]
  cases hcap : prettyBnodeNestingCap with
  | none =>
    intro n
    simp only [siteDepth, hr, famChain, hcap, wTree, wProps, wTerm_chain]
    simp; omega
  | some c =>
    intro n
    have hk : (chainPT (min n c)).nestAll ≤ c := by rw [nestAll_chain]; omega
    have := pretty_depth_bounded (chainPT (min n c))
    simp only [siteDepth, hr, famChain, hcap, wTree, wProps, wTerm]
    simp; omega

/-- the prettifier of /repo caps the nesting of `[ … ]` (decided on the constant regenerated from
_pretty.rs on every run: removing `MAX_BNODE_NESTING` or every use of it fails this obligation;
that the use does bound the nesting under every configuration is observed by the chain sites) -/
theorem pretty_cap_present : prettyBnodeNestingCap.isSome = true := by decide

/-- for today's /repo, unconditionally: a chain of blank nodes of ANY length costs the prettifier at
most 11 + 6 c nested calls, `c` the regenerated cap -/
theorem pretty_chain_bounded :
    ∃ c, prettyBnodeNestingCap = some c ∧
      ∀ cls, cls ≠ .selfRecursiveOnData → ∀ n, siteDepth .prettyWriteCycle cls .bnodeChain n ≤ 11 + 6 * c := by
  cases h : prettyBnodeNestingCap with
  | none => have := pretty_cap_present; simp [h] at this
  | some c =>
    refine ⟨c, rfl, fun cls hc n => ?_⟩
    have := pretty_chain_status cls hc
    simp only [h] at this
    exact this n

/-! ## the hypotheses are satisfiable, the statements are not vacuous -/

-- an iterator run where the first position is cached and rejects, with the recursive text 3 deep
example : (nextRec ⟨[fun i => i == 7], fun _ => true⟩ ⟨[⟨1, false⟩], ⟨0, true⟩⟩
    [⟨[1], 5⟩, ⟨[1], 6⟩, ⟨[7], 2⟩, ⟨[7], 3⟩]).depth = 3 := by decide
example : (nextLoop ⟨[fun i => i == 7], fun _ => true⟩ ⟨[⟨1, false⟩], ⟨0, true⟩⟩
    [⟨[1], 5⟩, ⟨[1], 6⟩, ⟨[7], 2⟩, ⟨[7], 3⟩]).item = some ⟨[7], 2⟩ := by decide
example : (famRows 2 3).length = 4 := by decide
example : (graphRec (fun g => if g = 2 then (.error () : Except Unit (List Nat)) else .ok [g]) [0, 1, 2, 3]).2 = 3 := by
  decide
example : nesting (.triple (.iri []) (.iri []) (.triple (.iri []) (.iri []) (.lit [] []))) = 2 := by decide
example : (bgpRec (fun (_ : Nat) (b : Nat) => [b, b + 1, b + 2]) [0, 1] 0).2 = 3 := by decide
example : (bgpRec (fun (_ : Nat) (b : Nat) => [b, b + 1, b + 2]) [0, 1] 0).1.length = 9 := by decide
example : ∃ s ∈ sites, s.2 = .loop ∨ s.2 = .recursiveOnNesting := ⟨("cnq::nq", .recursiveOnNesting), by decide, by simp⟩
-- the bounds are attained (the constants cannot be lowered)
example : (termCmpD (.triple (.iri []) (.iri []) (.triple (.iri []) (.iri []) (.iri ['a'])))
    (.triple (.iri []) (.iri []) (.triple (.iri []) (.iri []) (.iri ['b'])))) = (.lt, 3) := by decide
example : (nqW (.triple (.iri []) (.iri []) (.lit ['\n', 'x'] ['d']))).2 = 3 := by decide
example : (ntWriteTerm (.triple (.iri []) (.iri []) (.triple (.iri []) (.iri []) (.bnode [])))).2 = 5 := by decide
example : (cmpBindingsWith famEv famCriteria 3 4) = (.lt, 2) := by decide
example : orderByDepth famEv famCriteria [0, 1, 2] = 2 := by decide
example : (jsonify (famJNodes 3) 0 true).2 = 2 := by
  rw [jsonify]; simp [famJNodes, jsonify_nested]; decide
example : convertD (.sub (.cons (.sub (.cons .leaf .nil)) (.cons .leaf .nil))) = 5 := by decide
example : selectD 3 famQuery = 6 ∧ selectD 0 famQuery = 5 ∧ famQuery.height = 2 := by decide
-- FILTER(?x = 1 || EXISTS { GRAPH ?g { … } }) over 3 named graphs
example : selectD 3 (.filter (.node (.cons famExpr (.cons (.exists (.graphVar .bgp)) .nil))) .bgp) = 8 ∧
    checkD 7 famExpr = 2 ∧ famExpr.height = 1 := by decide
example : wTerm (chainPT 3) = 16 ∧ (chainPT 3).nestData = 0 ∧ (chainPT 3).nestAll = 3 := by decide
example : wTree .atom (famArcs 4) = 7 := by decide
example : (chainPT 3).anons.length = 3 := by decide
example : wTerm ((chainPT 9).cut 2 0) = 11 ∧ ((chainPT 9).cut 2 0).anonNest = 2 := by decide
example : (dedupRec (some 1) [1, 1, 1, 2]).depth = 4 ∧ (dedupLoop (some 1) [1, 1, 1, 2]).item = some 2 := by decide

-- the generated graph has recursions (descending self calls), and chains through them exist
example : callEdges.any (fun e => e.2.2 && e.1 == e.2.1) = true := by decide
example : Chain [(3, 3, true), (3, 4, false)] 3 2 [(3, 3, true), (3, 3, true), (3, 4, false)] :=
  .step (3, 3, true) 2 1 _ (by simp) (by simp) (.step (3, 3, true) 1 0 _ (by simp) (by simp)
    (.step (3, 4, false) 0 0 _ (by simp) (by simp) (.nil 4 0)))
example : wellRanked [(3, 3, true), (3, 4, false)] [0, 0, 0, 1, 0] = true ∧
    wellRanked [(0, 0, false)] [5] = false := by decide

end SophiaProofs.C16
